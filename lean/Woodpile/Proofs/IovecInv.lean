/-
Layer B → Layer A, part 1: basic lemmas about the structural `OwningIovec`
model (`Woodpile.Iovec`), the single-iovec invariant `IovInv` (DESIGN.md
appendix A.2, items 1–4, 6, 7 restricted to one iovec and its own arena) and
its preservation by the structural building blocks (`optimize`,
`consumeSlices`, `consumeBytes`).

Used by `Proofs/IovecAbs.lean` (the abstraction to `Pipe` and the per-op
refinement) and by `Props/C03.lean`, `Props/C04.lean`.
-/
import Woodpile.Model.Iovec
import Woodpile.Model.Pipe

namespace Woodpile.Iovec
open Woodpile.Arena

/-! ### Lists -/

theorem foldl_add_eq_sum (l : List Nat) : l.foldl (· + ·) 0 = l.sum := by
  simp [List.sum_eq_foldl]

theorem listSet_getD {α} (l : List α) (i j : Nat) (x d : α) :
    (listSet l i x d).getD j d = if j = i then x else l.getD j d := by
  unfold listSet
  simp only [List.getD_eq_getElem?_getD]
  split
  · rename_i h
    rw [List.getElem?_set]
    by_cases hji : j = i
    · subst hji; simp [h]
    · have : ¬ i = j := fun e => hji e.symm
      simp [this, hji]
  · rename_i h
    by_cases hji : j = i
    · subst hji
      rw [List.getElem?_append_right (by simp; omega)]
      simp
      have : j - (l.length + (j - l.length)) = 0 := by omega
      simp [this]
    · simp only [hji, if_false]
      by_cases hj : j < l.length
      · rw [List.append_assoc, List.getElem?_append_left hj]
      · rw [List.append_assoc, List.getElem?_append_right (by omega)]
        rw [List.getElem?_eq_none (l := l) (by omega)]
        by_cases hj2 : j - l.length < i - l.length
        · rw [List.getElem?_append_left (by simpa using hj2)]
          simp [hj2]
        · rw [List.getElem?_append_right (by simpa using Nat.le_of_not_lt hj2)]
          obtain ⟨m, hm⟩ : ∃ m, j - l.length - (List.replicate (i - l.length) d).length = m + 1 :=
            ⟨j - l.length - (List.replicate (i - l.length) d).length - 1, by simp; omega⟩
          rw [hm]; simp

theorem setLast_eq {α} (l : List α) (x : α) (h : l ≠ []) : setLast l x = l.dropLast ++ [x] := by
  cases l with
  | nil => contradiction
  | cons a t => rfl

theorem setLast_append_singleton {α} (l : List α) (a x : α) : setLast (l ++ [a]) x = l ++ [x] := by
  rw [setLast_eq _ _ (by simp)]
  simp

theorem setLast_length {α} (l : List α) (x : α) : (setLast l x).length = l.length := by
  unfold setLast
  cases l with
  | nil => rfl
  | cons a t => simp

/-! ### `World` plumbing -/

@[simp] theorem World.iov_setIov (w : World) (i : Nat) (o : Option Iov) : (w.setIov i o).iov i = o := by
  unfold World.iov World.setIov
  simp only []
  rw [listSet_getD]; simp

@[simp] theorem World.setIov_heap (w : World) (i : Nat) (o : Option Iov) : (w.setIov i o).heap = w.heap := rfl
@[simp] theorem World.setIov_exts (w : World) (i : Nat) (o : Option Iov) : (w.setIov i o).exts = w.exts := rfl
@[simp] theorem World.setIov_next (w : World) (i : Nat) (o : Option Iov) : (w.setIov i o).next = w.next := rfl
@[simp] theorem World.setIov_pol (w : World) (i : Nat) (o : Option Iov) : (w.setIov i o).pol = w.pol := rfl
@[simp] theorem World.setIov_tun (w : World) (i : Nat) (o : Option Iov) : (w.setIov i o).tun = w.tun := rfl

/-! ### The heap as a function `chunk → offset → byte` -/

/-- The byte at offset `p` of chunk `k` (unwritten memory reads as zero). -/
def Heap.byte (h : Heap) (k p : Nat) : UInt8 := (h.get k).getD p 0

theorem Heap.read_eq_map (h : Heap) (k off len : Nat) :
    h.read k off len = (List.range len).map (fun j => h.byte k (off + j)) := by
  apply List.ext_getElem?
  intro j
  unfold Heap.read Heap.byte
  simp only [List.getD_eq_getElem?_getD]
  by_cases hj : j < len
  · simp only [List.getElem?_map, List.getElem?_range hj, Option.map_some]
    by_cases hj2 : j < ((List.drop off (h.get k)).take len).length
    · rw [List.getElem?_append_left hj2, List.getElem?_take_of_lt hj, List.getElem?_drop]
      simp only [List.length_take, List.length_drop] at hj2
      have : off + j < (h.get k).length := by omega
      simp [List.getElem?_eq_getElem this]
    · rw [List.getElem?_append_right (by omega)]
      simp only [List.length_take, List.length_drop] at hj2 ⊢
      have : (h.get k).length ≤ off + j := by omega
      rw [List.getElem?_eq_none (l := h.get k) this]
      simp [List.getElem?_replicate]
      omega
  · have h1 : len ≤ j := by omega
    rw [List.getElem?_eq_none (by simp [List.length_take, List.length_drop]; omega)]
    rw [List.getElem?_eq_none (by simpa using h1)]

@[simp] theorem Heap.read_length (h : Heap) (k off len : Nat) : (h.read k off len).length = len := by
  simp [Heap.read_eq_map]

theorem Heap.get_write (h : Heap) (k off : Nat) (bs : List UInt8) (k' : Nat) :
    (h.write k off bs).get k' =
      if k' = k then
        (let old := h.get k
         let padded := if old.length < off then old ++ List.replicate (off - old.length) 0 else old
         padded.take off ++ bs ++ padded.drop (off + bs.length))
      else h.get k' := by
  unfold Heap.write Heap.get
  simp only []
  rw [listSet_getD]

theorem Heap.byte_write (h : Heap) (k off : Nat) (bs : List UInt8) (k' p : Nat) :
    (h.write k off bs).byte k' p =
      if k' = k ∧ off ≤ p ∧ p < off + bs.length then bs.getD (p - off) 0 else h.byte k' p := by
  unfold Heap.byte
  rw [Heap.get_write]
  by_cases hk : k' = k
  · subst hk
    simp only [if_true, true_and]
    generalize hold : h.get k' = old
    simp only [List.getD_eq_getElem?_getD]
    -- the padded list
    have hpad : ∀ q : Nat, ((if old.length < off then old ++ List.replicate (off - old.length) (0 : UInt8) else old : List UInt8)[q]?).getD 0
        = (old[q]?).getD 0 := by
      intro q
      split
      · rename_i hlt
        by_cases hq : q < old.length
        · rw [List.getElem?_append_left hq]
        · rw [List.getElem?_append_right (by omega), List.getElem?_eq_none (l := old) (by omega)]
          simp [List.getElem?_replicate]
          split <;> rfl
      · rfl
    have hpadlen : off ≤ (if old.length < off then old ++ List.replicate (off - old.length) (0 : UInt8) else old).length := by
      split
      · simp; omega
      · omega
    generalize (if old.length < off then old ++ List.replicate (off - old.length) (0 : UInt8) else old) = padded at hpad hpadlen
    by_cases hp1 : p < off
    · have : ¬ (off ≤ p ∧ p < off + bs.length) := by omega
      rw [if_neg this, List.append_assoc, List.getElem?_append_left (by simp; omega)]
      rw [List.getElem?_take_of_lt hp1, hpad]
    · by_cases hp2 : p < off + bs.length
      · rw [if_pos ⟨by omega, hp2⟩]
        rw [List.append_assoc, List.getElem?_append_right (by simp; omega)]
        simp only [List.length_take, Nat.min_eq_left hpadlen]
        rw [List.getElem?_append_left (by omega)]
      · have : ¬ (off ≤ p ∧ p < off + bs.length) := by omega
        rw [if_neg this]
        rw [List.append_assoc, List.getElem?_append_right (by simp; omega)]
        simp only [List.length_take, Nat.min_eq_left hpadlen]
        rw [List.getElem?_append_right (by omega), List.getElem?_drop]
        have : off + bs.length + (p - off - bs.length) = p := by omega
        rw [this, hpad]
  · simp [hk]

theorem Heap.read_write_disjoint (h : Heap) (k off : Nat) (bs : List UInt8) (k' off' len' : Nat)
    (hd : k' ≠ k ∨ off' + len' ≤ off ∨ off + bs.length ≤ off') :
    (h.write k off bs).read k' off' len' = h.read k' off' len' := by
  rw [Heap.read_eq_map, Heap.read_eq_map]
  apply List.map_congr_left
  intro j hj
  simp only [List.mem_range] at hj
  rw [Heap.byte_write, if_neg]
  omega

theorem Heap.read_write_same (h : Heap) (k off : Nat) (bs : List UInt8) :
    (h.write k off bs).read k off bs.length = bs := by
  rw [Heap.read_eq_map]
  apply List.ext_getElem?
  intro j
  by_cases hj : j < bs.length
  · simp only [List.getElem?_map, List.getElem?_range hj, Option.map_some]
    rw [Heap.byte_write, if_pos ⟨rfl, by omega, by omega⟩]
    simp [List.getD_eq_getElem?_getD, List.getElem?_eq_getElem hj]
  · rw [List.getElem?_eq_none (by simpa using Nat.le_of_not_lt hj), List.getElem?_eq_none (by omega)]

theorem Heap.read_add (h : Heap) (k off a b : Nat) :
    h.read k off (a + b) = h.read k off a ++ h.read k (off + a) b := by
  simp only [Heap.read_eq_map, List.range_add, List.map_append, List.map_map]
  congr 1
  apply List.map_congr_left
  intro j _
  simp [Nat.add_assoc]

/-- Reading a range that contains a freshly written sub-range. -/
theorem Heap.read_write_inside (h : Heap) (k off b len : Nat) (src : List UInt8)
    (hb : b + src.length ≤ len) :
    (h.write k (off + b) src).read k off len =
      (h.read k off len).take b ++ src ++ (h.read k off len).drop (b + src.length) := by
  have hlen : len = b + (src.length + (len - b - src.length)) := by omega
  have e1 : ∀ h' : Heap, h'.read k off len =
      h'.read k off b ++ (h'.read k (off + b) src.length ++ h'.read k (off + b + src.length) (len - b - src.length)) := by
    intro h'
    conv => lhs; rw [hlen]
    rw [Heap.read_add, Heap.read_add]
  rw [e1 (h.write k (off + b) src), e1 h]
  rw [Heap.read_write_same, Heap.read_write_disjoint _ _ _ _ _ _ _ (Or.inr (Or.inl (Nat.le_refl _))),
    Heap.read_write_disjoint _ _ _ _ _ _ _ (Or.inr (Or.inr (Nat.le_refl _)))]
  rw [List.take_left' (by simp), ← List.append_assoc, ← List.append_assoc,
    List.drop_left' (by simp)]

/-! ### Sizes and contents of slice lists -/

def sumLens (l : List Slice) : Nat := (l.map (·.len)).sum
def sumCounts (l : List Anchor) : Nat := (l.map (·.count)).sum

@[simp] theorem sumLens_nil : sumLens [] = 0 := rfl
@[simp] theorem sumLens_cons (s : Slice) (l : List Slice) : sumLens (s :: l) = s.len + sumLens l := by
  simp [sumLens]
@[simp] theorem sumLens_append (a b : List Slice) : sumLens (a ++ b) = sumLens a + sumLens b := by
  simp [sumLens]
@[simp] theorem sumCounts_nil : sumCounts [] = 0 := rfl
@[simp] theorem sumCounts_cons (s : Anchor) (l : List Anchor) : sumCounts (s :: l) = s.count + sumCounts l := by
  simp [sumCounts]
@[simp] theorem sumCounts_append (a b : List Anchor) : sumCounts (a ++ b) = sumCounts a + sumCounts b := by
  simp [sumCounts]

theorem sumLens_take_add_drop (l : List Slice) (n : Nat) : sumLens (l.take n) + sumLens (l.drop n) = sumLens l := by
  rw [← sumLens_append, List.take_append_drop]

theorem sumLens_take_le (l : List Slice) (n : Nat) : sumLens (l.take n) ≤ sumLens l := by
  have := sumLens_take_add_drop l n; omega

theorem sumLens_take_mono (l : List Slice) {a b : Nat} (h : a ≤ b) : sumLens (l.take a) ≤ sumLens (l.take b) := by
  have : l.take a = (l.take b).take a := by rw [List.take_take, Nat.min_eq_left h]
  rw [this]; exact sumLens_take_le _ _

theorem sumLens_take_succ (l : List Slice) (j : Nat) (s : Slice) (h : l[j]? = some s) :
    sumLens (l.take (j + 1)) = sumLens (l.take j) + s.len := by
  have hj : j < l.length := by
    rcases Nat.lt_or_ge j l.length with h1 | h1
    · exact h1
    · rw [List.getElem?_eq_none h1] at h; cases h
  rw [List.take_succ_eq_append_getElem hj]
  have : l[j] = s := by rw [List.getElem?_eq_getElem hj] at h; exact Option.some.inj h
  simp [this]

/-- All bytes of a slice list, in order, read through the heap / the caller buffers. -/
def World.flat (w : World) (l : List Slice) : List UInt8 := l.flatMap w.sliceBytes

@[simp] theorem World.flat_nil (w : World) : w.flat [] = [] := rfl
@[simp] theorem World.flat_cons (w : World) (s : Slice) (l : List Slice) :
    w.flat (s :: l) = w.sliceBytes s ++ w.flat l := by simp [World.flat]
@[simp] theorem World.flat_append (w : World) (a b : List Slice) : w.flat (a ++ b) = w.flat a ++ w.flat b := by
  simp [World.flat]

/-! ### The single-iovec invariant (DESIGN.md appendix A.2) -/

/-- A slice is non-empty; a borrowed slice lies inside its caller buffer; an owned slice lives in
an already-allocated chunk and, if that chunk is the arena's current cache, below its bump pointer
(A.2 items 1, 6). -/
structure SliceOk (w : World) (a : Arena) (s : Slice) : Prop where
  pos : 0 < s.len
  ext : ∀ b, s.region = .ext b → s.off + s.len ≤ (w.exts.getD b []).length
  chunk : ∀ c, s.region = .chunk c → c < w.next ∧ ∀ ca, a.cache = some ca → ca.chunk = c → s.off + s.len ≤ ca.bump

/-- Owned slices in the same chunk are disjoint (A.2 item 6).  (Copies are also in allocation order;
sub-slices of an anchored `read_n` allocation pushed borrowed — the codecs' anchored input — are not:
a size header copied in between lies ABOVE the rest of the anchored range.) -/
def SlicesOrdered (l : List Slice) : Prop :=
  l.Pairwise (fun a b => ∀ c, a.region = .chunk c → b.region = .chunk c →
    a.off + a.len ≤ b.off ∨ b.off + b.len ≤ a.off)

/-- Logical offset (bytes appended since the last clear) of the start of the `j`-th unconsumed slice. -/
def sliceStart (v : Iov) (j : Nat) : Nat := v.consumedSize + sumLens (v.slices.take j)

/-- One pending backref (A.2 items 3, 4): non-empty, its slice is unconsumed, owned, and contains the
byte range; the key is the logical offset of the end of the range. -/
structure BrOk (v : Iov) (e : Nat × BackrefInfo) : Prop where
  len_pos : 0 < e.2.len
  idx_ge : v.consumedSlices ≤ e.2.sliceIndex
  slice : ∃ s c, v.slices[e.2.sliceIndex - v.consumedSlices]? = some s ∧ s.region = .chunk c ∧
    e.2.begin + e.2.len ≤ s.len
  key_eq : sliceStart v (e.2.sliceIndex - v.consumedSlices) + e.2.begin + e.2.len = e.1

/-- Ordering of two pending backrefs: disjoint logical ranges in key order (so keys strictly
increase), slice indices non-decreasing. -/
def BrLt (a b : Nat × BackrefInfo) : Prop := a.1 + b.2.len ≤ b.1 ∧ a.2.sliceIndex ≤ b.2.sliceIndex

structure IovInv (w : World) (v : Iov) : Prop where
  slices_ok : ∀ s ∈ v.slices, SliceOk w v.arena s
  ordered : SlicesOrdered v.slices
  size_eq : v.consumedSize + sumLens v.slices = v.logicalSize
  anchors_sum : sumCounts v.anchors = v.slices.length
  cache_fresh : ∀ ca, v.arena.cache = some ca → ca.chunk < w.next
  br_ok : ∀ e ∈ v.backrefs, BrOk v e
  br_sorted : v.backrefs.Pairwise BrLt

/-- No pending backref lives in the first `n` unconsumed slices. -/
def NoBrBelow (v : Iov) (n : Nat) : Prop := ∀ e ∈ v.backrefs, v.consumedSlices + n ≤ e.2.sliceIndex

theorem sliceBytes_length (w : World) (a : Arena) (s : Slice) (h : SliceOk w a s) :
    (w.sliceBytes s).length = s.len := by
  unfold World.sliceBytes
  cases hr : s.region with
  | chunk k => simp
  | ext b =>
    have := h.ext b hr
    simp only [List.length_take, List.length_drop]; omega

theorem flat_length (w : World) (a : Arena) (l : List Slice) (h : ∀ s ∈ l, SliceOk w a s) :
    (w.flat l).length = sumLens l := by
  induction l with
  | nil => rfl
  | cons s t ih =>
    simp [sliceBytes_length w a s (h s (by simp)), ih (fun x hx => h x (by simp [hx]))]

theorem IovInv.flat_take_length {w : World} {v : Iov} (h : IovInv w v) (n : Nat) :
    (w.flat (v.slices.take n)).length = sumLens (v.slices.take n) :=
  flat_length w v.arena _ (fun s hs => h.slices_ok s (List.mem_of_mem_take hs))

theorem IovInv.flat_length {w : World} {v : Iov} (h : IovInv w v) :
    (w.flat v.slices).length = sumLens v.slices :=
  Woodpile.Iovec.flat_length w v.arena _ h.slices_ok

theorem BrOk.key_le {v : Iov} {e : Nat × BackrefInfo} (h : BrOk v e)
    (hs : v.consumedSize + sumLens v.slices = v.logicalSize) : e.1 ≤ v.logicalSize := by
  obtain ⟨s, c, hget, _, hle⟩ := h.slice
  have h1 := sumLens_take_succ _ _ _ hget
  have h2 := sumLens_take_le v.slices (e.2.sliceIndex - v.consumedSlices + 1)
  have h3 := h.key_eq
  unfold sliceStart at h3
  omega

theorem BrOk.start_ge {v : Iov} {e : Nat × BackrefInfo} (h : BrOk v e) : v.consumedSize + e.2.len ≤ e.1 := by
  have h3 := h.key_eq
  unfold sliceStart at h3
  omega

/-! ### `optimize` (`maybe_collapse_last_pair` + `try_join`) -/

theorem exists_two_last {α} (l : List α) (h : 2 ≤ l.length) : ∃ pre a b, l = pre ++ [a, b] := by
  rcases List.eq_nil_or_concat l with rfl | ⟨l1, b, rfl⟩
  · simp at h
  · rcases List.eq_nil_or_concat l1 with rfl | ⟨l2, a, rfl⟩
    · simp at h
    · exact ⟨l2, a, b, by simp⟩

theorem arenaContains_true (a : Arena) (s : Slice) (h : arenaContains a s = true) :
    ∃ ca, a.cache = some ca ∧ s.region = .chunk ca.chunk ∧ s.off + s.len ≤ ca.cap := by
  unfold arenaContains at h
  split at h
  · rename_i c hc
    simp at h
    exact ⟨c, hc, h.1, h.2⟩
  · cases h

theorem tryJoin_some (a : Arena) (l r m : Slice) (h : tryJoin a l r = some m) :
    ∃ ca, a.cache = some ca ∧ l.region = .chunk ca.chunk ∧ r.region = .chunk ca.chunk ∧
      l.off + l.len = r.off ∧ m = ⟨.chunk ca.chunk, l.off, l.len + r.len⟩ := by
  unfold tryJoin at h
  split at h
  · rename_i hc
    obtain ⟨h1, h2, h3⟩ := hc
    obtain ⟨ca, hca, hl, _⟩ := arenaContains_true a l (by simpa using h1)
    obtain ⟨ca', hca', hr, _⟩ := arenaContains_true a r (by simpa using h2)
    rw [hca] at hca'; cases hca'
    refine ⟨ca, hca, hl, hr, h3, ?_⟩
    cases h; rw [hl]
  · cases h

theorem optimize_cases (v v' : Iov) (h : v.optimize = some v') :
    v' = v ∨ ∃ pre l r anc a ca, v.slices = pre ++ [l, r] ∧ v.anchors = anc ++ [a] ∧ 2 ≤ a.count ∧
      v.arena.cache = some ca ∧ l.region = .chunk ca.chunk ∧ r.region = .chunk ca.chunk ∧ l.off + l.len = r.off ∧
      v' = { v with slices := pre ++ [⟨.chunk ca.chunk, l.off, l.len + r.len⟩],
                    anchors := anc ++ [{ a with count := a.count - 1 }] } := by
  unfold Iov.optimize at h
  simp only at h
  split at h
  · left; cases h; rfl
  · rename_i hn
    split at h
    · cases h
    · rename_i anchor hanc
      split at h
      · cases h
      · split at h
        · left; cases h; rfl
        · rename_i hc0 hc2
          split at h
          · left; cases h; rfl
          · rename_i m hm
            right
            obtain ⟨pre, l, r, hsl⟩ := exists_two_last v.slices (by omega)
            obtain ⟨anc, hanc'⟩ := List.getLast?_eq_some_iff.mp hanc
            have e1 : v.slices.getD (v.slices.length - 2) ⟨.ext 0, 0, 0⟩ = l := by
              rw [hsl]; simp [List.getD_eq_getElem?_getD]
            have e2 : v.slices.getD (v.slices.length - 1) ⟨.ext 0, 0, 0⟩ = r := by
              rw [hsl]; simp [List.getD_eq_getElem?_getD]
            rw [e1, e2] at hm
            obtain ⟨ca, hca, hl, hr, hadj, rfl⟩ := tryJoin_some _ _ _ _ hm
            refine ⟨pre, l, r, anc, anchor, ca, hsl, hanc', by omega, hca, hl, hr, hadj, ?_⟩
            cases h
            congr 1
            · rw [hsl]
              have : (pre ++ [l, r]).dropLast = pre ++ [l] := by
                rw [show pre ++ [l, r] = (pre ++ [l]) ++ [r] by simp, List.dropLast_concat]
              rw [this, setLast_append_singleton]
            · rw [hanc', setLast_append_singleton]

theorem optimize_some (v : Iov) (hpos : ∀ a, v.anchors.getLast? = some a → 0 < a.count)
    (hne : 2 ≤ v.slices.length → v.anchors ≠ []) :
    ∃ v', v.optimize = some v' := by
  unfold Iov.optimize
  simp only
  split
  · exact ⟨_, rfl⟩
  · rename_i hn
    have hne' := hne (by omega)
    obtain ⟨anc, a, hanc⟩ : ∃ anc a, v.anchors = anc ++ [a] := by
      rcases List.eq_nil_or_concat v.anchors with h | ⟨anc, a, h⟩
      · exact absurd h hne'
      · exact ⟨anc, a, by simpa using h⟩
    have hl : v.anchors.getLast? = some a := by rw [hanc]; simp
    have hap : 0 < a.count := hpos a hl
    rw [hl]
    simp only
    rw [if_neg (by omega)]
    split
    · exact ⟨_, rfl⟩
    · split
      · exact ⟨_, rfl⟩
      · exact ⟨_, rfl⟩

theorem optimize_inv (w : World) (v v' : Iov) (hinv : IovInv w v)
    (hbr : ∀ e ∈ v.backrefs, e.2.sliceIndex + 1 < v.consumedSlices + v.slices.length)
    (h : v.optimize = some v') :
    IovInv w v' ∧ w.flat v'.slices = w.flat v.slices ∧ v'.backrefs = v.backrefs ∧
    v'.logicalSize = v.logicalSize ∧ v'.consumedSize = v.consumedSize ∧
    v'.consumedSlices = v.consumedSlices ∧ v'.arena = v.arena := by
  rcases optimize_cases v v' h with rfl | ⟨pre, l, r, anc, a, ca, hsl, hanc, hcnt, hca, hl, hr, hadj, rfl⟩
  · exact ⟨hinv, rfl, rfl, rfl, rfl, rfl, rfl⟩
  · have hlok := hinv.slices_ok l (by rw [hsl]; simp)
    have hrok := hinv.slices_ok r (by rw [hsl]; simp)
    have hord := hinv.ordered
    unfold SlicesOrdered at hord
    rw [hsl, List.pairwise_append] at hord
    obtain ⟨hord1, hord2, hord3⟩ := hord
    refine ⟨?_, ?_, rfl, rfl, rfl, rfl, rfl⟩
    · refine
        { slices_ok := ?_, ordered := ?_, size_eq := ?_, anchors_sum := ?_,
          cache_fresh := hinv.cache_fresh, br_ok := ?_, br_sorted := hinv.br_sorted }
      · intro s hs
        simp only [List.mem_append, List.mem_singleton] at hs
        rcases hs with hs | rfl
        · exact hinv.slices_ok s (by rw [hsl]; simp [hs])
        · refine ⟨(by have := hlok.pos; simp only; omega), (by intro b hb; cases hb), ?_⟩
          intro c hc
          simp only [Region.chunk.injEq] at hc
          subst hc
          refine ⟨(hlok.chunk _ hl).1, ?_⟩
          intro ca' hca' hcc
          have := (hrok.chunk _ hr).2 ca' hca' hcc
          simp only; omega
      · unfold SlicesOrdered
        rw [List.pairwise_append]
        refine ⟨hord1, by simp, ?_⟩
        intro x hx y hy c hxc hyc
        simp only [List.mem_singleton] at hy
        subst hy
        simp only [Region.chunk.injEq] at hyc
        subst hyc
        have h1 := hord3 x hx l (by simp) _ hxc hl
        have h2 := hord3 x hx r (by simp) _ hxc hr
        have hxp := (hinv.slices_ok x (by rw [hsl]; simp [hx])).pos
        simp only
        omega
      · have := hinv.size_eq
        rw [hsl] at this
        simp at this ⊢
        omega
      · have := hinv.anchors_sum
        rw [hsl, hanc] at this
        simp at this ⊢
        omega
      · intro e he
        have hb := hinv.br_ok e he
        have hlt := hbr e he
        rw [hsl] at hlt
        simp at hlt
        obtain ⟨s, c, hget, hreg, hle⟩ := hb.slice
        have hkey := hb.key_eq
        have hge := hb.idx_ge
        unfold sliceStart at hkey
        rw [hsl] at hget hkey
        have hj : e.2.sliceIndex - v.consumedSlices ≤ pre.length := by omega
        refine ⟨hb.len_pos, hb.idx_ge, ?_, ?_⟩
        · simp only
          rcases Nat.lt_or_ge (e.2.sliceIndex - v.consumedSlices) pre.length with hj1 | hj1
          · rw [List.getElem?_append_left hj1] at hget
            exact ⟨s, c, by rw [List.getElem?_append_left hj1]; exact hget, hreg, hle⟩
          · have hj2 : e.2.sliceIndex - v.consumedSlices = pre.length := by omega
            rw [hj2] at hget ⊢
            simp at hget
            subst hget
            exact ⟨⟨.chunk ca.chunk, l.off, l.len + r.len⟩, ca.chunk, (by simp), rfl, (by simp only; omega)⟩
        · unfold sliceStart
          simp only
          rw [List.take_append_of_le_length hj] at hkey ⊢
          exact hkey
    · simp only [hsl, World.flat_append, World.flat_cons, World.flat_nil, List.append_nil]
      congr 1
      unfold World.sliceBytes
      simp only [hl, hr]
      rw [Heap.read_add, hadj]

/-! ### Consumption from the front -/

theorem drainAnchors_zero (fuel : Nat) (anchors : List Anchor) : drainAnchors fuel anchors 0 = some anchors := by
  unfold drainAnchors; rfl

theorem drainAnchors_cons (fuel n : Nat) (front : Anchor) (rest : List Anchor) :
    drainAnchors (fuel + 1) (front :: rest) (n + 1) =
      if front.count ≤ n + 1 then drainAnchors fuel rest (n + 1 - front.count)
      else some ({ front with count := front.count - (n + 1) } :: rest) := by
  rw [drainAnchors]
  simp only [Anchor.decrement]
  by_cases hc : front.count ≤ n + 1
  · rw [if_pos hc]
    simp [Nat.min_eq_left hc]
  · rw [if_neg hc]
    have hc' : n + 1 ≤ front.count := by omega
    have : ¬ front.count - (n + 1) = 0 := by omega
    simp [Nat.min_eq_right hc', this]

theorem drainAnchors_spec (fuel : Nat) : ∀ (anchors : List Anchor) (n : Nat),
    n ≤ sumCounts anchors → anchors.length < fuel →
    ∃ out, drainAnchors fuel anchors n = some out ∧ sumCounts out + n = sumCounts anchors := by
  induction fuel with
  | zero => intro anchors n _ hf; omega
  | succ fuel ih =>
    intro anchors n hsum hfuel
    cases n with
    | zero => exact ⟨anchors, drainAnchors_zero _ _, by simp⟩
    | succ n =>
      cases anchors with
      | nil => simp at hsum
      | cons front rest =>
        rw [drainAnchors_cons]
        simp only [sumCounts_cons] at hsum
        by_cases hc : front.count ≤ n + 1
        · rw [if_pos hc]
          obtain ⟨out, ho, hs⟩ := ih rest (n + 1 - front.count) (by omega) (by simp at hfuel; omega)
          exact ⟨out, ho, by simp only [sumCounts_cons]; omega⟩
        · rw [if_neg hc]
          exact ⟨_, rfl, by simp only [sumCounts_cons]; omega⟩

theorem dropZeroAnchors_sum (l : List Anchor) : sumCounts (dropZeroAnchors l) = sumCounts l := by
  induction l with
  | nil => rfl
  | cons a t ih =>
    unfold dropZeroAnchors
    split
    · rename_i h0; rw [ih, sumCounts_cons, h0, Nat.zero_add]
    · rfl

theorem dropZeroAnchors_isEmpty (l : List Anchor) : (dropZeroAnchors l).isEmpty = decide (sumCounts l = 0) := by
  induction l with
  | nil => rfl
  | cons a t ih =>
    unfold dropZeroAnchors
    split
    · rename_i h0; rw [ih, sumCounts_cons, h0, Nat.zero_add]
    · rename_i h0
      have : ¬ sumCounts (a :: t) = 0 := by rw [sumCounts_cons]; omega
      rw [decide_eq_false this]; rfl

theorem dropZeroAnchors_id (l : List Anchor) (h : ∀ a ∈ l, 0 < a.count) : dropZeroAnchors l = l := by
  cases l with
  | nil => rfl
  | cons a t =>
    unfold dropZeroAnchors
    have := h a (by simp)
    rw [if_neg (by omega)]

/-- `v'` is `v` with exactly the first `m` bytes removed from the front (whole slices popped, the
new first slice possibly trimmed); nothing else changes. -/
structure Consumed (w : World) (v v' : Iov) (m : Nat) : Prop where
  inv : IovInv w v'
  backrefs : v'.backrefs = v.backrefs
  logicalSize : v'.logicalSize = v.logicalSize
  arena : v'.arena = v.arena
  consumedSize : v'.consumedSize = v.consumedSize + m
  slices_ge : v.consumedSlices ≤ v'.consumedSlices
  slices_end : v'.consumedSlices + v'.slices.length = v.consumedSlices + v.slices.length
  flat_take : ∀ n, v'.consumedSlices ≤ v.consumedSlices + n →
    w.flat (v'.slices.take (v.consumedSlices + n - v'.consumedSlices)) = (w.flat (v.slices.take n)).drop m

theorem Consumed.refl {w : World} {v : Iov} (h : IovInv w v) : Consumed w v v 0 :=
  { inv := h, backrefs := rfl, logicalSize := rfl, arena := rfl, consumedSize := rfl,
    slices_ge := Nat.le_refl _, slices_end := rfl,
    flat_take := by intro n _; simp }

theorem Consumed.trans {w : World} {v v' v'' : Iov} {m m' : Nat}
    (h1 : Consumed w v v' m) (h2 : Consumed w v' v'' m') : Consumed w v v'' (m + m') :=
  { inv := h2.inv
    backrefs := h2.backrefs.trans h1.backrefs
    logicalSize := h2.logicalSize.trans h1.logicalSize
    arena := h2.arena.trans h1.arena
    consumedSize := by rw [h2.consumedSize, h1.consumedSize]; omega
    slices_ge := Nat.le_trans h1.slices_ge h2.slices_ge
    slices_end := h2.slices_end.trans h1.slices_end
    flat_take := by
      intro n hn
      have hge1 := h1.slices_ge
      have hge2 := h2.slices_ge
      have e1 := h1.flat_take n (by omega)
      have e2 := h2.flat_take (v.consumedSlices + n - v'.consumedSlices) (by omega)
      have : v'.consumedSlices + (v.consumedSlices + n - v'.consumedSlices) - v''.consumedSlices
          = v.consumedSlices + n - v''.consumedSlices := by omega
      rw [this] at e2
      rw [e2, e1, List.drop_drop] }

theorem Consumed.flat {w : World} {v v' : Iov} {m : Nat} (h : Consumed w v v' m) :
    w.flat v'.slices = (w.flat v.slices).drop m := by
  have := h.flat_take v.slices.length (by have := h.slices_end; omega)
  have e : v.consumedSlices + v.slices.length - v'.consumedSlices = v'.slices.length := by
    have := h.slices_end; omega
  rw [e] at this
  simpa using this

theorem consumeSlices_spec (w : World) (v : Iov) (count : Nat) (hinv : IovInv w v)
    (hk : NoBrBelow v (min count v.slices.length)) :
    ∃ v', v.consumeSlices count = some (v', min count v.slices.length) ∧
      Consumed w v v' (sumLens (v.slices.take count)) ∧
      v'.slices = v.slices.drop count ∧
      v'.consumedSlices = v.consumedSlices + min count v.slices.length := by
  unfold Iov.consumeSlices
  simp only
  have htk : v.slices.take (min count v.slices.length) = v.slices.take count := by
    rw [List.take_eq_take_iff]; simp
  have hdk : v.slices.drop (min count v.slices.length) = v.slices.drop count := by
    rcases Nat.le_total count v.slices.length with h | h
    · rw [Nat.min_eq_left h]
    · rw [Nat.min_eq_right h, List.drop_eq_nil_of_le h, List.drop_eq_nil_of_le (Nat.le_refl _)]
  obtain ⟨out, hout, hosum⟩ := drainAnchors_spec (v.anchors.length + 1) v.anchors
    (min count v.slices.length) (by rw [hinv.anchors_sum]; exact Nat.min_le_right _ _)
    (Nat.lt_succ_self _)
  rw [hout]
  simp only
  have hl : (v.slices.drop (min count v.slices.length)).length = sumCounts out := by
    have := hinv.anchors_sum
    simp only [List.length_drop]; omega
  have hempty : (v.slices.drop (min count v.slices.length)).isEmpty = (dropZeroAnchors out).isEmpty := by
    rw [dropZeroAnchors_isEmpty, ← hl]
    cases v.slices.drop (min count v.slices.length) <;> simp
  rw [if_neg (by simp [hempty])]
  rw [foldl_add_eq_sum, htk, hdk]
  refine ⟨_, rfl, ?_, rfl, rfl⟩
  have hsub : ∀ s ∈ v.slices.drop count, s ∈ v.slices := fun s hs => List.mem_of_mem_drop hs
  have hszk : (List.map (fun x => x.len) (List.take count v.slices)).sum = sumLens (v.slices.take count) := rfl
  rw [hszk]
  have hkle : min count v.slices.length ≤ v.slices.length := Nat.min_le_right _ _
  refine
    { inv :=
        { slices_ok := fun s hs => hinv.slices_ok s (hsub s hs)
          ordered := List.Pairwise.sublist (List.drop_sublist _ _) hinv.ordered
          size_eq := by
            have := sumLens_take_add_drop v.slices count
            have := hinv.size_eq
            simp only; omega
          anchors_sum := by
            simp only [List.length_drop]
            rw [dropZeroAnchors_sum]
            have := hinv.anchors_sum
            rcases Nat.le_total count v.slices.length with h | h
            · rw [Nat.min_eq_left h] at hosum; omega
            · rw [Nat.min_eq_right h] at hosum; omega
          cache_fresh := hinv.cache_fresh
          br_ok := ?_
          br_sorted := hinv.br_sorted }
      backrefs := rfl, logicalSize := rfl, arena := rfl, consumedSize := rfl,
      slices_ge := by simp only; omega
      slices_end := by simp only [List.length_drop]; omega
      flat_take := ?_ }
  · intro e he
    have hb := hinv.br_ok e he
    have hnb := hk e he
    obtain ⟨s, c, hget, hreg, hle⟩ := hb.slice
    have hjlt : e.2.sliceIndex - v.consumedSlices < v.slices.length := by
      rcases Nat.lt_or_ge (e.2.sliceIndex - v.consumedSlices) v.slices.length with h1 | h1
      · exact h1
      · rw [List.getElem?_eq_none h1] at hget; cases hget
    have hcount : count ≤ e.2.sliceIndex - v.consumedSlices := by omega
    have hmin : min count v.slices.length = count := by omega
    refine ⟨hb.len_pos, by simp only; omega, ⟨s, c, ?_, hreg, hle⟩, ?_⟩
    · simp only [List.getElem?_drop, hmin]
      rw [← hget]; congr 1; omega
    · have hkey := hb.key_eq
      unfold sliceStart at hkey ⊢
      simp only [hmin]
      rw [List.take_drop]
      have e1 : count + (e.2.sliceIndex - (v.consumedSlices + count)) = e.2.sliceIndex - v.consumedSlices := by omega
      rw [e1]
      have e2 := sumLens_take_add_drop (v.slices.take (e.2.sliceIndex - v.consumedSlices)) count
      rw [List.take_take, Nat.min_eq_left hcount] at e2
      omega
  · intro n hn
    simp only at hn ⊢
    have hmn : min count v.slices.length ≤ n := by omega
    have e1 : v.consumedSlices + n - (v.consumedSlices + min count v.slices.length) = n - min count v.slices.length := by omega
    rw [e1]
    have e2 : v.slices.take n = v.slices.take count ++ (v.slices.drop count).take (n - min count v.slices.length) := by
      rw [← htk, ← hdk]
      have : n = min count v.slices.length + (n - min count v.slices.length) := by omega
      conv => lhs; rw [this]
      rw [List.take_add]
    rw [e2, World.flat_append, List.drop_left']
    exact flat_length w v.arena _ (fun s hs => hinv.slices_ok s (List.mem_of_mem_take hs))

theorem sliceBytes_trim (w : World) (s : Slice) (r : Nat) (hr : r ≤ s.len) :
    w.sliceBytes { s with off := s.off + r, len := s.len - r } = (w.sliceBytes s).drop r := by
  unfold World.sliceBytes
  cases hreg : s.region with
  | chunk k =>
    simp only
    have : s.len = r + (s.len - r) := by omega
    conv => rhs; rw [this, Heap.read_add]
    rw [List.drop_left' (by simp)]
  | ext b =>
    simp only
    rw [List.drop_take, List.drop_drop]

theorem trim_consumed (w : World) (v : Iov) (s : Slice) (rest : List Slice) (r : Nat) (hinv : IovInv w v)
    (hs : v.slices = s :: rest) (_hr : 0 < r) (hr2 : r < s.len) (hnb : NoBrBelow v 1) :
    Consumed w v { v with slices := { s with off := s.off + r, len := s.len - r } :: rest,
                          consumedSize := v.consumedSize + r } r := by
  have hsok := hinv.slices_ok s (by rw [hs]; simp)
  have hord := hinv.ordered
  unfold SlicesOrdered at hord
  rw [hs, List.pairwise_cons] at hord
  refine
    { inv :=
        { slices_ok := ?_, ordered := ?_, size_eq := ?_, anchors_sum := ?_,
          cache_fresh := hinv.cache_fresh, br_ok := ?_, br_sorted := hinv.br_sorted }
      backrefs := rfl, logicalSize := rfl, arena := rfl, consumedSize := rfl,
      slices_ge := Nat.le_refl _, slices_end := by simp [hs], flat_take := ?_ }
  · intro x hx
    simp only [List.mem_cons] at hx
    rcases hx with rfl | hx
    · refine ⟨(by simp only; omega), ?_, ?_⟩
      · intro b hb
        have := hsok.ext b hb
        simp only; omega
      · intro c hc
        have := hsok.chunk c hc
        refine ⟨this.1, fun ca hca hcc => ?_⟩
        have := this.2 ca hca hcc
        simp only; omega
    · exact hinv.slices_ok x (by rw [hs]; simp [hx])
  · unfold SlicesOrdered
    rw [List.pairwise_cons]
    refine ⟨?_, hord.2⟩
    intro b hb c hc1 hc2
    have := hord.1 b hb c hc1 hc2
    simp only; omega
  · have := hinv.size_eq
    rw [hs] at this
    simp only [sumLens_cons] at this ⊢
    omega
  · have := hinv.anchors_sum
    rw [hs] at this
    simpa using this
  · intro e he
    have hb := hinv.br_ok e he
    have h1 := hnb e he
    obtain ⟨x, c, hget, hreg, hle⟩ := hb.slice
    have hkey := hb.key_eq
    unfold sliceStart at hkey
    obtain ⟨j, hj⟩ : ∃ j, e.2.sliceIndex - v.consumedSlices = j + 1 := ⟨e.2.sliceIndex - v.consumedSlices - 1, by omega⟩
    rw [hj, hs] at hget hkey
    refine ⟨hb.len_pos, hb.idx_ge, ⟨x, c, ?_, hreg, hle⟩, ?_⟩
    · simp only [hj]
      simpa using hget
    · unfold sliceStart
      simp only [hj]
      simp only [List.take_succ_cons, sumLens_cons] at hkey ⊢
      omega
  · intro n _
    simp only
    have e1 : v.consumedSlices + n - v.consumedSlices = n := by omega
    rw [e1, hs]
    cases n with
    | zero => simp
    | succ n =>
      simp only [List.take_succ_cons, World.flat_cons]
      rw [sliceBytes_trim w s r (by omega)]
      rw [List.drop_append_of_le_length (by rw [sliceBytes_length w v.arena s hsok]; omega)]

theorem consumeBytes_spec (w : World) (fuel : Nat) : ∀ (v : Iov) (count consumed n : Nat),
    IovInv w v → NoBrBelow v n → n ≤ v.slices.length → consumed ≤ count →
    count - consumed ≤ sumLens (v.slices.take n) → v.slices.length < fuel →
    ∃ v', Iov.consumeBytes fuel v count consumed = some (v', count) ∧ Consumed w v v' (count - consumed) := by
  induction fuel with
  | zero => intro v _ _ _ _ _ _ _ _ hf; omega
  | succ fuel ih =>
    intro v count consumed n hinv hnb hn hcc hle hfuel
    rw [Iov.consumeBytes]
    by_cases hge : consumed ≥ count
    · rw [if_pos hge]
      have : consumed = count := by omega
      subst this
      exact ⟨v, rfl, by simpa using Consumed.refl hinv⟩
    · rw [if_neg hge]
      cases hs : v.slices with
      | nil => rw [hs] at hle; simp at hle; omega
      | cons s rest =>
        simp only
        have hn1 : 1 ≤ n := by
          rcases Nat.eq_zero_or_pos n with h0 | h0
          · subst h0; simp at hle; omega
          · exact h0
        have hnb1 : NoBrBelow v 1 := fun e he => by have := hnb e he; omega
        obtain ⟨n', rfl⟩ : ∃ n', n = n' + 1 := ⟨n - 1, by omega⟩
        rw [hs] at hle hn
        simp only [List.take_succ_cons, sumLens_cons, List.length_cons] at hle hn
        by_cases hfull : min (count - consumed) s.len = s.len
        · rw [if_pos hfull]
          obtain ⟨v1, h1, hc1, hsl1, hcs1⟩ := consumeSlices_spec w v 1 hinv
            (by rw [hs]; simpa using hnb1)
          rw [h1]
          simp only
          rw [hs] at hsl1 hcs1 hc1
          simp only [List.drop_succ_cons, List.drop_zero, List.length_cons] at hsl1 hcs1
          simp only [List.take_succ_cons, List.take_zero, sumLens_cons, sumLens_nil, Nat.add_zero] at hc1
          have hm1 : min 1 (rest.length + 1) = 1 := by omega
          rw [hm1] at hcs1
          obtain ⟨v2, h2, hc2⟩ := ih v1 count (consumed + min (count - consumed) s.len) n' hc1.inv
            (by intro e he; rw [hc1.backrefs] at he; have := hnb e he; omega)
            (by rw [hsl1]; omega) (by omega) (by rw [hsl1]; omega)
            (by rw [hsl1]; rw [hs] at hfuel; simp at hfuel; omega)
          refine ⟨v2, h2, ?_⟩
          have := hc1.trans hc2
          have e : s.len + (count - (consumed + min (count - consumed) s.len)) = count - consumed := by omega
          rw [e] at this
          exact this
        · rw [if_neg hfull]
          have hlt : count - consumed < s.len := by omega
          have hmin : min (count - consumed) s.len = count - consumed := by omega
          rw [hmin]
          have e : consumed + (count - consumed) = count := by omega
          rw [e]
          refine ⟨_, rfl, ?_⟩
          exact trim_consumed w v s rest (count - consumed) hinv hs (by omega) hlt hnb1

theorem optimize_take (v v' : Iov) (h : v.optimize = some v') (j : Nat) (hj : j + 2 ≤ v.slices.length) :
    v'.slices.take j = v.slices.take j := by
  rcases optimize_cases v v' h with rfl | ⟨pre, l, r, anc, a, ca, hsl, _, _, _, _, _, _, rfl⟩
  · rfl
  · rw [hsl] at hj ⊢
    simp only [List.length_append, List.length_cons, List.length_nil] at hj
    have hj' : j ≤ pre.length := by omega
    simp only
    rw [List.take_append_of_le_length hj', List.take_append_of_le_length hj']

end Woodpile.Iovec

/-
Helper lemmas for the multi-object trait layer (`Model/DequeTraits.lean`): any value type
whose `new` / `default` / `clone` / `clone_from` refine the mathematical ones (copy, ASSIGN,
empty) under an abstraction function and an invariant makes every `MOp` refine the same
`MOp` on reference values, handle by handle.
-/
import Woodpile.Model.DequeTraits
import Woodpile.Proofs.SlidingDeque
import Woodpile.Proofs.SortedDequeRun

set_option linter.unusedSimpArgs false

namespace Woodpile.DequeTraits

variable {δ ρ : Type}

/-- `t` implements the reference trait methods through `abs`, keeping `I`. -/
structure Refines (t : Traits δ) (abs : δ → ρ) (I : δ → Prop) (empty : ρ) : Prop where
  new : ∃ d, t.new = some d ∧ abs d = empty ∧ I d
  default : abs t.default = empty ∧ I t.default
  clone : ∀ s, I s → abs (t.clone s) = abs s ∧ I (t.clone s)
  cloneFrom : ∀ dst src, I src → abs (t.cloneFrom dst src) = abs src ∧ I (t.cloneFrom dst src)

def Multi.abs (abs : δ → ρ) (m : Multi δ) : Multi ρ := ⟨abs m.cur, m.objs.map abs⟩

structure MInv (I : δ → Prop) (m : Multi δ) : Prop where
  cur : I m.cur
  objs : ∀ o ∈ m.objs, I o

theorem MInv.get {I : δ → Prop} {m : Multi δ} (h : MInv I m) {k : Nat} {o : δ} (hk : m.objs[k]? = some o) : I o :=
  h.objs o (List.mem_of_getElem? hk)

theorem MInv.set {I : δ → Prop} {m : Multi δ} (h : MInv I m) (k : Nat) (x : δ) (hx : I x) :
    ∀ o ∈ m.objs.set k x, I o := by
  intro o ho
  rcases List.mem_or_eq_of_mem_set ho with h1 | h1
  · exact h.objs o h1
  · exact h1 ▸ hx

theorem MInv.push {I : δ → Prop} {m : Multi δ} (h : MInv I m) (x : δ) (hx : I x) :
    ∀ o ∈ m.objs ++ [x], I o := by
  intro o ho
  rcases List.mem_append.mp ho with h1 | h1
  · exact h.objs o h1
  · have : o = x := by simpa using h1
    exact this ▸ hx

/-- **One `MOp`.**  From a state in which every object satisfies the invariant, the operation
finds a handle iff the reference does, never panics, shows (writes) an object whose abstraction
is the value the reference shows, reaches the abstraction of the reference's state, and
every object satisfies the invariant again. -/
theorem mstep_refines {t : Traits δ} {abs : δ → ρ} {I : δ → Prop} {empty : ρ}
    (ht : Refines t abs I empty) (m : Multi δ) (hm : MInv I m) (op : MOp) :
    match mstep (refTraits ρ empty) (m.abs abs) op with
    | .nohandle => mstep t m op = .nohandle
    | .panic => False
    | .ok r mr => ∃ d m', mstep t m op = .ok d m' ∧ abs d = r ∧ m'.abs abs = mr ∧ MInv I m' := by
  cases op with
  | new =>
    obtain ⟨d, h1, h2, h3⟩ := ht.new
    simp only [mstep, refTraits, h1]
    exact ⟨d, _, rfl, h2, by simp [Multi.abs, h2], ⟨hm.cur, hm.push d h3⟩⟩
  | default =>
    simp only [mstep, refTraits]
    exact ⟨_, _, rfl, ht.default.1, by simp [Multi.abs, ht.default.1], ⟨hm.cur, hm.push _ ht.default.2⟩⟩
  | store k =>
    obtain ⟨h1, h2⟩ := ht.clone m.cur hm.cur
    simp only [mstep, refTraits, Multi.abs, List.length_map, id]
    by_cases hk : k < m.objs.length
    · simp only [hk, ↓reduceIte]
      exact ⟨_, _, rfl, h1, by simp [Multi.abs, List.map_set, h1], ⟨hm.cur, hm.set k _ h2⟩⟩
    · by_cases hk2 : k = m.objs.length
      · simp only [hk, hk2, ↓reduceIte, Nat.lt_irrefl]
        exact ⟨_, _, rfl, h1, by simp [Multi.abs, h1], ⟨hm.cur, hm.push _ h2⟩⟩
      · simp only [hk, hk2, ↓reduceIte]
  | load k =>
    simp only [mstep, refTraits, Multi.abs, List.getElem?_map, id]
    cases ho : m.objs[k]? with
    | none => simp
    | some o =>
      obtain ⟨h1, h2⟩ := ht.clone o (hm.get ho)
      simp only [Option.map_some]
      exact ⟨_, _, rfl, h1, by simp [Multi.abs, h1], ⟨h2, hm.objs⟩⟩
  | swap k =>
    simp only [mstep, refTraits, Multi.abs, List.getElem?_map]
    cases ho : m.objs[k]? with
    | none => simp
    | some o =>
      simp only [Option.map_some]
      exact ⟨_, _, rfl, rfl, by simp [Multi.abs, List.map_set], ⟨hm.get ho, hm.set k _ hm.cur⟩⟩
  | cloneFrom k =>
    simp only [mstep, refTraits, Multi.abs, List.getElem?_map]
    cases ho : m.objs[k]? with
    | none => simp
    | some o =>
      obtain ⟨h1, h2⟩ := ht.cloneFrom m.cur o (hm.get ho)
      simp only [Option.map_some]
      exact ⟨_, _, rfl, h1, by simp [Multi.abs, h1], ⟨h2, hm.objs⟩⟩
  | cloneInto k =>
    simp only [mstep, refTraits, Multi.abs, List.getElem?_map]
    cases ho : m.objs[k]? with
    | none => simp
    | some o =>
      obtain ⟨h1, h2⟩ := ht.cloneFrom o m.cur hm.cur
      simp only [Option.map_some]
      exact ⟨_, _, rfl, h1, by simp [Multi.abs, List.map_set, h1], ⟨hm.cur, hm.set k _ h2⟩⟩
  | take k =>
    simp only [mstep, refTraits, Multi.abs, List.getElem?_map]
    cases ho : m.objs[k]? with
    | none => simp
    | some o =>
      simp only [Option.map_some]
      exact ⟨_, _, rfl, rfl, by simp [Multi.abs, List.map_set, ht.default.1],
        ⟨hm.get ho, hm.set k _ ht.default.2⟩⟩

/-! ### The two instances -/

open Woodpile.SlidingDeque in
theorem sdeque_refines (α : Type) :
    Refines (sdequeTraits α) SDeque.view Inv ([] : List α) where
  new := ⟨SDeque.empty, SDeque.new_eq, by simp [SDeque.empty, SDeque.view], SDeque.inv_empty⟩
  default := ⟨by simp [sdequeTraits, SDeque.default, SDeque.view], SDeque.inv_empty⟩
  clone := fun _ h => ⟨rfl, h⟩
  cloneFrom := fun _ _ h => ⟨rfl, h⟩

open Woodpile.SortedDeque in
theorem sorted_refines {α κ : Type} (c : Cmp α κ) (P : α → Prop) :
    Refines (sortedTraits α) (Woodpile.SortedDeque.abs c) (SInv c P) ([] : List α) where
  new := ⟨SortedDeque.empty, rfl, SortedDeque.abs_empty, SortedDeque.sinv_empty⟩
  default := ⟨SortedDeque.abs_empty, SortedDeque.sinv_empty⟩
  clone := fun _ h => ⟨rfl, h⟩
  cloneFrom := fun _ _ h => ⟨rfl, h⟩

end Woodpile.DequeTraits

/-! ### Mixed histories -/
namespace Woodpile.DequeTraits

variable {δ ρ Ω R : Type}

/-- single-object refinement, as `C15.refines_list` / `C16.refines_ordered_map` state it -/
def StepRefines (abs : δ → ρ) (I : δ → Prop) (V : Ω → Prop)
    (step1 : δ → Ω → Option (R × δ)) (stepR : ρ → Ω → Option (R × ρ)) : Prop :=
  ∀ s, I s → ∀ o, V o →
    match stepR (abs s) o with
    | none => step1 s o = none
    | some (r, a') => ∃ s', step1 s o = some (r, s') ∧ abs s' = a' ∧ I s'

def Cmd.Valid (V : Ω → Prop) : Cmd Ω → Prop
  | .op o => V o
  | .m _ => True

theorem cstep_refines {t : Traits δ} {abs : δ → ρ} {I : δ → Prop} {empty : ρ} {V : Ω → Prop}
    {step1 : δ → Ω → Option (R × δ)} {stepR : ρ → Ω → Option (R × ρ)}
    (ht : Refines t abs I empty) (hs : StepRefines abs I V step1 stepR)
    (m : Multi δ) (hm : MInv I m) (c : Cmd Ω) (hv : c.Valid V) :
    match cstep (refTraits ρ empty) stepR (m.abs abs) c with
    | none => cstep t step1 m c = none
    | some (o, mr) => ∃ o' m', cstep t step1 m c = some (o', m') ∧ o'.map abs = o ∧ m'.abs abs = mr ∧ MInv I m' := by
  cases c with
  | op o =>
    have h := hs m.cur hm.cur o hv
    simp only [cstep, Multi.abs]
    cases hr : stepR (abs m.cur) o with
    | none => rw [hr] at h; simp [h]
    | some p =>
      obtain ⟨r, a'⟩ := p
      rw [hr] at h
      obtain ⟨s', h1, h2, h3⟩ := h
      simp only [h1]
      exact ⟨_, _, rfl, rfl, by simp [Multi.abs, h2], ⟨h3, hm.objs⟩⟩
  | m o =>
    have h := mstep_refines ht m hm o
    simp only [cstep]
    cases hr : mstep (refTraits ρ empty) (m.abs abs) o with
    | nohandle => rw [hr] at h; simp only [h]; exact ⟨_, _, rfl, rfl, rfl, hm⟩
    | panic => rw [hr] at h; exact h.elim
    | ok r mr =>
      rw [hr] at h
      obtain ⟨d, m', h1, h2, h3, h4⟩ := h
      simp only [h1]
      exact ⟨_, _, rfl, by simp [Out.map, h2], h3, h4⟩

theorem crun_refines {t : Traits δ} {abs : δ → ρ} {I : δ → Prop} {empty : ρ} {V : Ω → Prop}
    {step1 : δ → Ω → Option (R × δ)} {stepR : ρ → Ω → Option (R × ρ)}
    (ht : Refines t abs I empty) (hs : StepRefines abs I V step1 stepR)
    (m : Multi δ) (hm : MInv I m) (cs : List (Cmd Ω)) (hv : ∀ c ∈ cs, c.Valid V) :
    match crun (refTraits ρ empty) stepR (m.abs abs) cs with
    | none => crun t step1 m cs = none
    | some (os, mr) => ∃ os' m', crun t step1 m cs = some (os', m') ∧ os'.map (Out.map abs) = os ∧
        m'.abs abs = mr ∧ MInv I m' := by
  induction cs generalizing m with
  | nil => exact ⟨[], m, rfl, rfl, rfl, hm⟩
  | cons c cs ih =>
    have h := cstep_refines ht hs m hm c (hv c (by simp))
    simp only [crun]
    cases hr : cstep (refTraits ρ empty) stepR (m.abs abs) c with
    | none => rw [hr] at h; simp [h]
    | some p =>
      obtain ⟨o, mr⟩ := p
      rw [hr] at h
      obtain ⟨o', m', h1, h2, h3, h4⟩ := h
      have ih' := ih m' h4 (fun c hc => hv c (by simp [hc]))
      rw [h3] at ih'
      simp only [h1]
      cases hr2 : crun (refTraits ρ empty) stepR mr cs with
      | none => rw [hr2] at ih'; simp [ih']
      | some q =>
        obtain ⟨os, mr2⟩ := q
        rw [hr2] at ih'
        obtain ⟨os', m'', g1, g2, g3, g4⟩ := ih'
        simp only [g1]
        exact ⟨_, _, rfl, by simp [h2, g2], g3, g4⟩

end Woodpile.DequeTraits

/-
Layer-B glue, part 1: the single-iovec vocabulary of C03/C04 (`Woodpile.Iovec.Op`, `State`, `step`,
`run`; `Proofs/IovecAbs.lean`) seen from the multi-object vocabulary of C05/C10/C20
(`Woodpile.Iovec.WOp`, `World.step`, `World.run`; `Model/IovecOps.lean`).

* `Op.toWOps` / `op_is_wstep`: every `Op` step on iovec handle `i` IS a `World.run` of one or two
  `WOp`s on the world component (caller buffers are allocated by both: `lend` then
  `pushAt` / `pushBorrowedAt` of the sub-slice `[pre.length, pre.length + bs.length)`).  Two ops hand
  tokens around differently: the harness vocabulary keeps the tokens in the handle table
  `World.brefs` (`register` appends, `backfill` names an index), `Op` passes the token value; the
  theorem states the exact relation for these two (no other field is involved).
* `Good w` = `WorldInv w` ∧ `ArenaInv w caps` for some capacity ghost: what C05's theorems
  (`exposed_live`, `below_bump`, in-capacity) are read off.  `Good` is preserved by every `WOp` step,
  hence by every `Op` step: `op_run_worldInv`, `op_run_arenaInv`.
-/
import Woodpile.Proofs.IovecHeap
import Woodpile.Proofs.IovecAbs

namespace Woodpile.Iovec
open Woodpile.Arena

/-! ### The invariants of C05 as one predicate -/

/-- (N), (G), (A), (E) of `WorldInv` and (B) of `ArenaInv` for some capacity ghost. -/
def Good (w : World) : Prop := WorldInv w ∧ ∃ caps, ArenaInv w caps

theorem good_init (pol : Policy) (tun : Tuning) : Good (World.init pol tun) :=
  ⟨worldInv_init pol tun, _, arenaInv_init pol tun⟩

theorem Good.astep {w w' : World} (hg : Good w) (ha : AStep w w') (hw' : WorldInv w') : Good w' := by
  obtain ⟨hw, caps, hai⟩ := hg
  obtain ⟨caps', hold, hnew⟩ := ha.exists_caps hw hai
  exact ⟨hw', caps', ha.inv hw hai hold hnew⟩

theorem Good.step {w w' : World} {op : WOp} (hg : Good w) (h : w.step op = some w') : Good w' :=
  hg.astep (step_astep h) (hg.1.step h)

theorem Good.run {w w' : World} (ops : List WOp) (hg : Good w) (h : w.run ops = some w') : Good w' :=
  run_preserves Good (fun _ _ _ hg h => hg.step h) ops w w' hg h

theorem Reachable.good {w : World} (h : Reachable w) : Good w := by
  obtain ⟨caps, hg⟩ := h.exists_caps
  exact ⟨h.inv, caps, hg.inv⟩

/-- `Good` does not read the backref handle table (nor the heap, the policy, the tuning). -/
theorem Good.of_same {w w' : World} (hg : Good w) (hn : w'.next = w.next) (he : w'.exts = w.exts)
    (hi : ∀ j, w'.iov j = w.iov j) (ha : ∀ j, w'.arena j = w.arena j) (hs : ∀ j, w'.aslice j = w.aslice j) :
    Good w' := by
  obtain ⟨hw, caps, hai⟩ := hg
  have hc : ∀ h, w'.cacheAt h = w.cacheAt h := by
    intro h; cases h <;> simp [World.cacheAt, hi, ha]
  have hsl : ∀ s, w'.HasSlice s → w.HasSlice s := fun s h => hasSlice_of_same hi hs h
  refine ⟨?_, caps, ?_⟩
  · refine hw.transfer (by omega) ⟨[], by simp [he]⟩ (fun j v hv => Or.inl (by rw [← hi]; exact hv))
      (fun j a hj => Or.inl (by rw [← ha]; exact hj)) (fun j s hj => Or.inl (by rw [← hs]; exact hj))
  · refine ⟨?_, ?_, ?_, ?_⟩
    · intro h h' c c' h1 h2 e; rw [hc] at h1 h2; exact hai.unique h h' c c' h1 h2 e
    · intro h c h1; rw [hc] at h1; exact hai.bumpLe h c h1
    · intro h c s h1 h2 h3; rw [hc] at h1; exact hai.below h c s h1 (hsl s h2) h3
    · intro s k h1 h2; exact hai.inCap s k (hsl s h1) h2

/-! ### World-level functions that are not literally a `WOp` step -/

theorem Good.registerPatch {w w' : World} {i : Nat} {pat : List UInt8} {b : Backref} (hg : Good w)
    (h : w.registerPatch i pat = some (w', b)) : Good w' := by
  have hs : w.step (.register i pat) = some (w'.addBref b).1 := by simp [World.step, h]
  exact (hg.step hs).of_same rfl rfl (fun _ => rfl) (fun _ => rfl) (fun _ => rfl)

theorem backfill_astep {w w' : World} {i : Nat} {b : Backref} {src : List UInt8}
    (h : w.backfill i b src = some w') : AStep w w' := by
  obtain ⟨v, hv, ⟨_, _, rfl⟩ | ⟨key, info, target, k, _, _, _, _, _, _, _, rfl⟩⟩ := backfill_spec h
  · exact (Quiet.refl _).astep
  · refine AStep.refl_of_same rfl ?_ ?_
    · intro h
      show (w.setIov i _).cacheAt h = _
      simp only [cacheAt_setIov]
      split
      · rename_i e; subst e; simp [cacheAt_iov hv]
      · rfl
    · intro s hs
      have hs' : (w.setIov i (some { v with backrefs := _ })).HasSlice s := hs
      rcases hasSlice_setIov hs' with ⟨x, hx, hm⟩ | h0
      · cases hx; exact World.HasSlice.derived (Or.inl ⟨i, v, hv, hm⟩)
      · exact h0.derived

theorem Good.backfill {w w' : World} {i : Nat} {b : Backref} {src : List UInt8} (hg : Good w)
    (h : w.backfill i b src = some w') : Good w' :=
  hg.astep (backfill_astep h) (hg.1.backfill h)

/-! ### Lending a caller buffer, pushing a sub-slice of it -/

/-- The whole caller buffer of a `Borrow`. -/
def Borrow.buf (b : Borrow) : List UInt8 := b.pre ++ b.bs ++ b.post

theorem lend_fst (w : World) (b : Borrow) : (w.lend b).1 = (w.addExt b.buf).1 := rfl
theorem lend_snd (w : World) (b : Borrow) : (w.lend b).2 = ⟨.ext w.exts.length, b.pre.length, b.bs.length⟩ := rfl

theorem getD_append_self (l : List (List UInt8)) (x : List UInt8) (t : List (List UInt8)) :
    (l ++ x :: t).getD l.length [] = x := by
  simp [List.getD_eq_getElem?_getD]

theorem lend_bounds (w : World) (b : Borrow) :
    b.pre.length + b.bs.length ≤ ((w.addExt b.buf).1.exts.getD w.exts.length []).length := by
  show _ ≤ ((w.exts ++ [b.buf]).getD w.exts.length []).length
  rw [getD_append_self]
  simp [Borrow.buf]

/-- The slices `lendAll` hands out: one per borrow, in consecutive fresh buffers. -/
def lendSlices : Nat → List Borrow → List Slice
  | _, [] => []
  | n, b :: t => ⟨.ext n, b.pre.length, b.bs.length⟩ :: lendSlices (n + 1) t

theorem lendAll_snd (w : World) (bs : List Borrow) : (w.lendAll bs).2 = lendSlices w.exts.length bs := by
  induction bs generalizing w with
  | nil => rfl
  | cons b t ih =>
    simp only [World.lendAll, lendSlices]
    rw [ih]
    simp [World.lend]

def lendOps (bs : List Borrow) : List WOp := bs.map (fun b => .lend b.buf)

/-- `extend`'s borrowed pushes (empty slices are skipped, as `OwningIovec::extend` does). -/
def extendOps (i : Nat) : Nat → List Borrow → List WOp
  | _, [] => []
  | n, b :: t =>
    if b.bs.length = 0 then extendOps i (n + 1) t
    else .pushBorrowedAt i n b.pre.length b.bs.length :: extendOps i (n + 1) t

theorem run_append_some {w w1 w2 : World} {a b : List WOp} (h1 : w.run a = some w1) (h2 : w1.run b = some w2) :
    w.run (a ++ b) = some w2 := by
  rw [run_append, h1]; exact h2

theorem lendOps_run (w : World) (bs : List Borrow) : w.run (lendOps bs) = some (w.lendAll bs).1 := by
  induction bs generalizing w with
  | nil => rfl
  | cons b t ih =>
    simp only [lendOps, List.map_cons, World.run, World.step]
    have := ih (w.addExt b.buf).1
    simp only [lendOps] at this
    rw [this]
    simp only [World.lendAll]
    rfl

theorem extend_is_run (i : Nat) : ∀ (bs : List Borrow) (n : Nat) (W W' : World),
    (∀ k b, bs[k]? = some b → b.pre.length + b.bs.length ≤ (W.exts.getD (n + k) []).length) →
    W.extend i (lendSlices n bs) = some W' → W.run (extendOps i n bs) = some W' := by
  intro bs
  induction bs with
  | nil => intro n W W' _ h; simpa [lendSlices, World.extend, extendOps, World.run] using h
  | cons b t ih =>
    intro n W W' hb h
    have hb' : ∀ (W1 : World), W1.exts = W.exts →
        ∀ k c, t[k]? = some c → c.pre.length + c.bs.length ≤ (W1.exts.getD (n + 1 + k) []).length := by
      intro W1 he k c hk
      have := hb (k + 1) c (by simpa using hk)
      rw [he]
      have e : n + 1 + k = n + (k + 1) := by omega
      rw [e]; exact this
    simp only [lendSlices] at h
    unfold World.extend at h
    simp only at h
    by_cases h0 : b.bs.length = 0
    · simp only [h0, if_true] at h
      simp only [extendOps, h0, if_true]
      exact ih (n + 1) W W' (hb' W rfl) h
    · simp only [h0, if_false] at h
      simp only [extendOps, h0, if_false]
      cases h1 : W.pushBorrowed i ⟨.ext n, b.pre.length, b.bs.length⟩ with
      | none => rw [h1] at h; cases h
      | some W1 =>
        rw [h1] at h
        simp only at h
        have hbn := hb 0 b (by simp)
        simp only [Nat.add_zero] at hbn
        have hstep : W.step (.pushBorrowedAt i n b.pre.length b.bs.length) = some W1 := by
          simp only [World.step, if_pos hbn]; exact h1
        simp only [World.run, hstep]
        exact ih (n + 1) W1 W' (hb' W1 (pushBorrowed_exts h1)) h

theorem lendAll_bounds (w : World) (bs : List Borrow) :
    ∀ k b, bs[k]? = some b →
      b.pre.length + b.bs.length ≤ ((w.lendAll bs).1.exts.getD (w.exts.length + k) []).length := by
  intro k b hk
  rw [lendAll_fst]
  simp only
  have hlt : k < bs.length := by
    rcases Nat.lt_or_ge k bs.length with h | h
    · exact h
    · rw [List.getElem?_eq_none h] at hk; cases hk
  have hb : bs[k] = b := by rw [List.getElem?_eq_getElem hlt] at hk; exact Option.some.inj hk
  simp only [List.getD_eq_getElem?_getD]
  rw [List.getElem?_append_right (by omega)]
  have e : w.exts.length + k - w.exts.length = k := by omega
  rw [e, List.getElem?_map, List.getElem?_eq_getElem hlt, hb]
  simp

/-! ### Target 1: every `Op` step is a `World.run` of the corresponding `WOp`s -/

/-- The `WOp`s of an `Op` on iovec handle `i` of world `w` (fresh caller buffers get the next
buffer ids, `w.exts.length`, …).  `registerPatch` / `backfill` exchange tokens through the handle
table in the `WOp` vocabulary; their relation is stated separately in `op_is_wstep`. -/
def Op.toWOps (i : Nat) (w : World) : Op → List WOp
  | .pushCopy src => [.pushCopy i src]
  | .pushBorrowed b => [.lend b.buf, .pushBorrowedAt i w.exts.length b.pre.length b.bs.length]
  | .push b => [.lend b.buf, .pushAt i w.exts.length b.pre.length b.bs.length]
  | .extend bs => lendOps bs ++ extendOps i w.exts.length bs
  | .registerPatch pat => [.register i pat]
  | .backfill _ src => [.backfill i 0 src]
  | .consume count => [.consume i count]
  | .pop => [.pop i]
  | .advance count => [.advance i count]
  | .readInto room => [.read i room]
  | .clear => [.clear i]
  | .flush => [.flush i]
  | .reserve k => [.reserve i k]

/-- The world component of an `Op` step, as a run of `WOp`s from the same world.  For every op but
the two that hand a token around, the resulting worlds are EQUAL.  `registerPatch`: the `WOp` world
additionally records the returned token in the handle table.  `backfill tok`: equal, from any world
whose handle table holds `tok` at the index used. -/
def OpAgrees (i : Nat) (s : State) (op : Op) (s' : State) (r : Ret) : Prop :=
  match op with
  | .registerPatch pat => ∃ b, r = .token b ∧ s.w.run [.register i pat] = some (s'.w.addBref b).1
  | .backfill tok src => ∀ bi, bi < s.w.brefs.length → s.w.brefs.getD bi none = tok →
      s.w.run [.backfill i bi src] = some s'.w
  | op => s.w.run (op.toWOps i s.w) = some s'.w

theorem run_one {w w' : World} {op : WOp} (h : w.step op = some w') : w.run [op] = some w' := by
  simp [World.run, h]

theorem op_is_wstep (i : Nat) (s s' : State) (op : Op) (r : Ret) (h : step i s op = some (s', r)) :
    OpAgrees i s op s' r := by
  cases op with
  | pushCopy src =>
    simp only [step, Option.map_eq_some_iff, Prod.mk.injEq] at h
    obtain ⟨w', hw', rfl, _⟩ := h
    exact run_one (op := .pushCopy i src) hw'
  | pushBorrowed b =>
    simp only [step, Option.map_eq_some_iff, Prod.mk.injEq] at h
    obtain ⟨w', hw', rfl, _⟩ := h
    show s.w.run [.lend b.buf, .pushBorrowedAt i s.w.exts.length b.pre.length b.bs.length] = some w'
    simp only [World.run, World.step, if_pos (lend_bounds s.w b)]
    rw [lend_fst, lend_snd] at hw'
    rw [hw']
  | push b =>
    simp only [step, Option.map_eq_some_iff, Prod.mk.injEq] at h
    obtain ⟨w', hw', rfl, _⟩ := h
    show s.w.run [.lend b.buf, .pushAt i s.w.exts.length b.pre.length b.bs.length] = some w'
    simp only [World.run, World.step, if_pos (lend_bounds s.w b)]
    rw [lend_fst, lend_snd] at hw'
    rw [hw']
  | extend bs =>
    simp only [step, Option.map_eq_some_iff, Prod.mk.injEq] at h
    obtain ⟨w', hw', rfl, _⟩ := h
    show s.w.run (lendOps bs ++ extendOps i s.w.exts.length bs) = some w'
    rw [lendAll_snd] at hw'
    exact run_append_some (lendOps_run s.w bs)
      (extend_is_run i bs _ _ _ (lendAll_bounds s.w bs) hw')
  | registerPatch pat =>
    simp only [step, Option.map_eq_some_iff, Prod.mk.injEq] at h
    obtain ⟨⟨w', b⟩, hw', rfl, rfl⟩ := h
    exact ⟨b, rfl, run_one (op := .register i pat) (by simp [World.step, hw'])⟩
  | backfill tok src =>
    simp only [step, Option.map_eq_some_iff, Prod.mk.injEq] at h
    obtain ⟨w', hw', rfl, _⟩ := h
    intro bi hbi htok
    exact run_one (op := .backfill i bi src) (by simp only [World.step, if_pos hbi, htok]; exact hw')
  | consume count =>
    simp only [step] at h
    cases hv : s.w.iov i with
    | none => rw [hv] at h; cases h
    | some v =>
      rw [hv] at h
      simp only [Option.map_eq_some_iff, Prod.mk.injEq] at h
      obtain ⟨⟨w', k⟩, hw', rfl, _⟩ := h
      exact run_one (op := .consume i count) (by simp [World.step, hw'])
  | pop =>
    simp only [step] at h
    cases hv : s.w.iov i with
    | none => rw [hv] at h; cases h
    | some v =>
      rw [hv] at h
      simp only at h
      split at h
      · rename_i w' hw'
        simp only [Option.some.injEq, Prod.mk.injEq] at h
        obtain ⟨rfl, _⟩ := h
        exact run_one (op := .pop i) (by simp [World.step, hw'])
      · cases h
  | advance count =>
    simp only [step] at h
    cases hv : s.w.iov i with
    | none => rw [hv] at h; cases h
    | some v =>
      rw [hv] at h
      simp only [Option.map_eq_some_iff, Prod.mk.injEq] at h
      obtain ⟨⟨w', k⟩, hw', rfl, _⟩ := h
      exact run_one (op := .advance i count) (by simp [World.step, hw'])
  | readInto room =>
    simp only [step, Option.map_eq_some_iff, Prod.mk.injEq] at h
    obtain ⟨⟨w', bytes⟩, hw', rfl, _⟩ := h
    exact run_one (op := .read i room) (by simp [World.step, hw'])
  | clear =>
    simp only [step, Option.map_eq_some_iff, Prod.mk.injEq] at h
    obtain ⟨w', hw', rfl, _⟩ := h
    exact run_one (op := .clear i) hw'
  | flush =>
    simp only [step] at h
    cases hv : s.w.iov i with
    | none => rw [hv] at h; cases h
    | some v =>
      rw [hv] at h
      simp only [Option.some.injEq, Prod.mk.injEq] at h
      obtain ⟨rfl, _⟩ := h
      exact run_one (op := .flush i) (by simp [World.step, hv])
  | reserve k =>
    simp only [step] at h
    cases hv : s.w.iov i with
    | none => rw [hv] at h; cases h
    | some v =>
      rw [hv] at h
      simp only [Option.some.injEq, Prod.mk.injEq] at h
      obtain ⟨rfl, _⟩ := h
      exact run_one (op := .reserve i k) (by simp [World.step, hv])

/-! ### Consequence: the invariants of C05 along every `Op` history -/

/-- One `Op` step preserves `Good` (`WorldInv` and `ArenaInv`). -/
theorem op_step_good (i : Nat) (s s' : State) (op : Op) (r : Ret) (hg : Good s.w)
    (h : step i s op = some (s', r)) : Good s'.w := by
  have ha := op_is_wstep i s s' op r h
  cases op with
  | registerPatch pat =>
    obtain ⟨b, _, hr⟩ := ha
    exact (hg.run _ hr).of_same rfl rfl (fun _ => rfl) (fun _ => rfl) (fun _ => rfl)
  | backfill tok src =>
    simp only [step, Option.map_eq_some_iff, Prod.mk.injEq] at h
    obtain ⟨w', hw', rfl, _⟩ := h
    exact hg.backfill hw'
  | pushCopy src => exact hg.run _ ha
  | pushBorrowed b => exact hg.run _ ha
  | push b => exact hg.run _ ha
  | extend bs => exact hg.run _ ha
  | consume count => exact hg.run _ ha
  | pop => exact hg.run _ ha
  | advance count => exact hg.run _ ha
  | readInto room => exact hg.run _ ha
  | clear => exact hg.run _ ha
  | flush => exact hg.run _ ha
  | reserve k => exact hg.run _ ha

theorem op_run_good (i : Nat) : ∀ (ops : List Op) (s s' : State) (rs : List Ret), Good s.w →
    run i s ops = some (s', rs) → Good s'.w := by
  intro ops
  induction ops with
  | nil =>
    intro s s' rs hg h
    simp only [run, Option.some.injEq, Prod.mk.injEq] at h
    obtain ⟨rfl, _⟩ := h
    exact hg
  | cons op t ih =>
    intro s s' rs hg h
    simp only [run] at h
    cases h1 : step i s op with
    | none => rw [h1] at h; cases h
    | some x =>
      obtain ⟨s1, r⟩ := x
      rw [h1] at h
      simp only at h
      cases h2 : run i s1 t with
      | none => rw [h2] at h; cases h
      | some y =>
        obtain ⟨s2, rs'⟩ := y
        rw [h2] at h
        simp only [Option.some.injEq, Prod.mk.injEq] at h
        obtain ⟨rfl, _⟩ := h
        exact ih s1 s2 rs' (op_step_good i s s1 op r hg h1) h2

/-- `State.init`'s world (one empty iovec) is the `WOp` history `[new]`. -/
theorem state_init_reachable (pol : Policy) (tun : Tuning) : Reachable (State.init pol tun).w :=
  ⟨pol, tun, [.new], rfl⟩

end Woodpile.Iovec

/-
The release/acquire view machine (`Woodpile.Abt.RA`): inductive invariant of DESIGN.md
appendix A.3 and its preservation by every step.
-/
import Woodpile.Proofs.AtomicBaseTime

namespace Woodpile.Abt.RA

/-- Timestamp, inside its slot, of the pair published with sequence number `k`. -/
def tsOf (k : Nat) : Nat := (k + 1) / 2

def bit (o : Bool) : Nat := if o then 1 else 0

theorem bit_odd (k : Nat) : bit (odd k) = k % 2 := by
  unfold bit odd
  rcases Nat.mod_two_eq_zero_or_one k with h | h <;> simp [h]

def valAt (ms : List Msg) (i : Nat) : Option Nat := ms[i]?.map (·.val)

theorem valAt_append {ms : List Msg} {i : Nat} {x : Nat} (extra : List Msg) (h : valAt ms i = some x) :
    valAt (ms ++ extra) i = some x := by
  unfold valAt at *
  cases hi : ms[i]? with
  | none => simp [hi] at h
  | some m =>
    have : i < ms.length := (List.getElem?_eq_some_iff.mp hi).1
    rw [List.getElem?_append_left this, hi]; simpa [hi] using h

/-- Last published sequence number. -/
def nOf (mem : Loc → List Msg) : Nat := (mem .seq).length - 1

/-- Has a writer at this pc already stored the base / voucher word of the pair in progress? -/
def wb : Pc → Bool
  | .aStV | .aStSeq => true
  | _ => false
def wv : Pc → Bool
  | .aStSeq => true
  | _ => false

/-- Facts about memory, history and the mutex view (no thread state). -/
structure GInv (chk : Nat → Nat → Bool) (mem : Loc → List Msg) (hist : List (Nat × Nat))
    (held : Option Nat) (mview : View) : Prop where
  seqval : ∀ (i : Nat) (m : Msg), (mem .seq)[i]? = some m → m.val = i
  hlen : hist.length = (mem .seq).length
  hpos : 0 < (mem .seq).length
  pairs : ∀ (k : Nat) (p : Nat × Nat), hist[k]? = some p →
    valAt (mem (.b (odd k))) (tsOf k) = some p.1 ∧ valAt (mem (.v (odd k))) (tsOf k) = some p.2
  chkAll : ∀ p ∈ hist, chk p.1 p.2 = true
  sorted : hist.Pairwise (fun a b => a.1 ≤ b.1)
  lenb : held = none → ∀ o, (mem (.b o)).length = 1 + (nOf mem + bit o) / 2
  lenv : held = none → ∀ o, (mem (.v o)).length = 1 + (nOf mem + bit o) / 2
  v1 : ∀ (i : Nat) (m : Msg), (mem .seq)[i]? = some m →
    tsOf i ≤ m.view (.b (odd i)) ∧ tsOf i ≤ m.view (.v (odd i))
  v2b : ∀ (o : Bool) (i : Nat) (m : Msg), (mem (.b o))[i]? = some m → 1 ≤ i → 2 * i ≤ m.view .seq + bit o + 1
  v2v : ∀ (o : Bool) (i : Nat) (m : Msg), (mem (.v o))[i]? = some m → 1 ≤ i → 2 * i ≤ m.view .seq + bit o + 1
  wfmem : ∀ (l : Loc) (i : Nat) (m : Msg) (l' : Loc), (mem l)[i]? = some m → m.view l' < (mem l').length
  wfm : ∀ l, mview l < (mem l).length
  mcover : held = none → ∀ l, mview l + 1 = (mem l).length

/-- Writer-side facts, by program counter. -/
def WInv (chk : Nat → Nat → Bool) (mem : Loc → List Msg) (hist : List (Nat × Nat)) (th : Local) : Prop :=
  match th.pc with
  | .aV | .aB => th.sq = nOf mem
  | .aStB => th.sq = nOf mem ∧ chk th.ub th.uv = true ∧ (∀ p, hist[nOf mem]? = some p → p.1 ≤ th.ub)
  | .aStV => th.sq = nOf mem ∧ chk th.ub th.uv = true ∧ (∀ p, hist[nOf mem]? = some p → p.1 ≤ th.ub) ∧
      valAt (mem (.b (odd (nOf mem + 1)))) (tsOf (nOf mem + 1)) = some th.ub
  | .aStSeq => th.sq = nOf mem ∧ chk th.ub th.uv = true ∧ (∀ p, hist[nOf mem]? = some p → p.1 ≤ th.ub) ∧
      valAt (mem (.b (odd (nOf mem + 1)))) (tsOf (nOf mem + 1)) = some th.ub ∧
      valAt (mem (.v (odd (nOf mem + 1)))) (tsOf (nOf mem + 1)) = some th.uv
  | _ => True

/-- Facts about the lock holder. -/
structure HInv (chk : Nat → Nat → Bool) (mem : Loc → List Msg) (hist : List (Nat × Nat)) (th : Thread) : Prop where
  cover : ∀ l, th.view l + 1 = (mem l).length
  lenb : ∀ o, (mem (.b o)).length =
    1 + (nOf mem + bit o) / 2 + (if wb th.loc.pc = true ∧ o = odd (nOf mem + 1) then 1 else 0)
  lenv : ∀ o, (mem (.v o)).length =
    1 + (nOf mem + bit o) / 2 + (if wv th.loc.pc = true ∧ o = odd (nOf mem + 1) then 1 else 0)
  wpc : WInv chk mem hist th.loc

/-- Reader-side facts, by program counter (`st` = the reader's view of `sequence` when the
snapshot began). -/
def RInv (mem : Loc → List Msg) (st : Nat) (view : View) (th : Local) : Prop :=
  match th.pc with
  | .sSeq => st ≤ view .seq
  | .sV => st ≤ th.sq ∧ th.sq ≤ view .seq ∧ tsOf th.sq ≤ view (.v (odd th.sq)) ∧ tsOf th.sq ≤ view (.b (odd th.sq))
  | .sB => st ≤ th.sq ∧ th.sq ≤ view .seq ∧ tsOf th.sq ≤ view (.b (odd th.sq)) ∧
      (view .seq = th.sq → valAt (mem (.v (odd th.sq))) (tsOf th.sq) = some th.bits)
  | .sSeq2 => st ≤ th.sq ∧ th.sq ≤ view .seq ∧
      (view .seq = th.sq → valAt (mem (.v (odd th.sq))) (tsOf th.sq) = some th.bits ∧
        valAt (mem (.b (odd th.sq))) (tsOf th.sq) = some th.base)
  | .sPanic => False
  | _ => True

/-- Facts about the snapshots a thread has returned so far (most recent first). -/
def LInv (hist : List (Nat × Nat)) (st vseq : Nat) (lg : List (Nat × Nat)) (th : Local) : Prop :=
  lg.Pairwise (fun a b => b.1 ≤ a.1) ∧
  (∀ p ∈ lg, ∃ k, k ≤ (if th.pc.inSnap then st else vseq) ∧ hist[k]? = some p) ∧
  (th.pc = .retSnap → (th.base, th.bits) ∈ lg ∧ ∃ k, st ≤ k ∧ k ≤ vseq ∧ hist[k]? = some (th.base, th.bits))

/-- Facts about every thread. -/
structure TInv (mem : Loc → List Msg) (hist : List (Nat × Nat)) (held : Option Nat) (st : Nat)
    (lg : List (Nat × Nat)) (th : Thread) (t : Nat) : Prop where
  lock : th.loc.pc.inCS = true ↔ held = some t
  wfv : ∀ l, th.view l < (mem l).length
  rd : RInv mem st th.view th.loc
  lg : LInv hist st (th.view .seq) lg th.loc

structure Inv (chk : Nat → Nat → Bool) (s : State) : Prop where
  g : GInv chk s.mem s.hist s.held s.mview
  h : ∀ t, s.held = some t → HInv chk s.mem s.hist (s.thr t)
  t : ∀ t, TInv s.mem s.hist s.held (s.start t) (s.log t) (s.thr t) t

theorem singleton_get {α : Type} {x m : α} {i : Nat} (h : [x][i]? = some m) : i = 0 ∧ m = x := by
  cases i with
  | zero => simp at h; exact ⟨rfl, h.symm⟩
  | succ j => simp at h

theorem inv_init (chk : Nat → Nat → Bool) (v0 : Nat) (h0 : chk 0 v0 = true) : Inv chk (init v0) := by
  refine ⟨⟨?_, rfl, by simp [init], ?_, ?_, ?_, ?_, ?_, ?_, ?_, ?_, ?_, ?_, ?_⟩, ?_, ?_⟩
  · intro i m h; obtain ⟨rfl, rfl⟩ := singleton_get h; rfl
  · intro k p h
    obtain ⟨rfl, rfl⟩ := singleton_get h
    simp [init, valAt, tsOf, odd]
  · intro p hp; simp [init] at hp; subst hp; exact h0
  · simp [init]
  · intro _ o; cases o <;> simp [init, nOf, bit]
  · intro _ o; cases o <;> simp [init, nOf, bit]
  · intro i m h; obtain ⟨rfl, rfl⟩ := singleton_get h; simp [tsOf]
  · intro o i m h hi
    obtain ⟨rfl, _⟩ := singleton_get h; omega
  · intro o i m h hi
    obtain ⟨rfl, _⟩ := singleton_get h; omega
  · intro l i m l' h
    have : m.view = View.bot := by
      cases l <;> obtain ⟨_, rfl⟩ := singleton_get h <;> rfl
    rw [this]; cases l' <;> simp [init, View.bot]
  · intro l; cases l <;> simp [init, View.bot]
  · intro _ l; cases l <;> simp [init, View.bot]
  · intro t h; simp [init] at h
  · intro t
    refine ⟨by simp [init, Pc.inCS], ?_, by simp [init, RInv], by simp [init, LInv]⟩
    intro l; cases l <;> simp [init, View.bot]

/-! ### Frames -/

/-- Other threads are unaffected by a step that only extends memory and history. -/
theorem TInv_frame {mem mem' : Loc → List Msg} {hist hist' : List (Nat × Nat)} {held held' : Option Nat}
    {st : Nat} {lg : List (Nat × Nat)} {th : Thread} {t : Nat}
    (h : TInv mem hist held st lg th t)
    (hmem : ∀ l, ∃ x, mem' l = mem l ++ x) (hhist : ∃ y, hist' = hist ++ y)
    (hheld : held' = some t ↔ held = some t) : TInv mem' hist' held' st lg th t := by
  obtain ⟨y, rfl⟩ := hhist
  have happ : ∀ (k : Nat) (p : Nat × Nat), hist[k]? = some p → (hist ++ y)[k]? = some p := by
    intro k p hk
    have : k < hist.length := (List.getElem?_eq_some_iff.mp hk).1
    rw [List.getElem?_append_left this]; exact hk
  have hval : ∀ l i x, valAt (mem l) i = some x → valAt (mem' l) i = some x := by
    intro l i x hx
    obtain ⟨e, he⟩ := hmem l
    rw [he]; exact valAt_append e hx
  refine ⟨by rw [hheld]; exact h.lock, ?_, ?_, ?_⟩
  · intro l
    obtain ⟨e, he⟩ := hmem l
    have := h.wfv l
    rw [he, List.length_append]; omega
  · have := h.rd
    unfold RInv at *
    split <;> simp_all
  · obtain ⟨l1, l2, l3⟩ := h.lg
    refine ⟨l1, ?_, ?_⟩
    · intro p hp
      obtain ⟨k, hk1, hk2⟩ := l2 p hp
      exact ⟨k, hk1, happ k p hk2⟩
    · intro hpc
      obtain ⟨hm, k, hk1, hk2, hk3⟩ := l3 hpc
      exact ⟨hm, k, hk1, hk2, happ k _ hk3⟩

/-- A step by `t` that leaves memory, history, the lock and the mutex view alone. -/
theorem inv_local {chk : Nat → Nat → Bool} {s s' : State} (hI : Inv chk s) (t : Nat)
    (hmem : s'.mem = s.mem) (hhist : s'.hist = s.hist) (hheld : s'.held = s.held) (hmv : s'.mview = s.mview)
    (hfr : ∀ t', t' ≠ t → s'.thr t' = s.thr t' ∧ s'.log t' = s.log t' ∧ s'.start t' = s.start t')
    (hH : s.held = some t → HInv chk s.mem s.hist (s'.thr t))
    (hT : TInv s.mem s.hist s.held (s'.start t) (s'.log t) (s'.thr t) t) : Inv chk s' := by
  refine ⟨by rw [hmem, hhist, hheld, hmv]; exact hI.g, ?_, ?_⟩
  · intro t' h; rw [hheld] at h; rw [hmem, hhist]
    by_cases ht : t' = t
    · subst ht; exact hH h
    · rw [(hfr t' ht).1]; exact hI.h t' h
  · intro t'; rw [hmem, hhist, hheld]
    by_cases ht : t' = t
    · subst ht; exact hT
    · rw [(hfr t' ht).1, (hfr t' ht).2.1, (hfr t' ht).2.2]; exact hI.t t'

theorem RInv_mono {mem : Loc → List Msg} {st : Nat} {view view' : View} {th : Local}
    (hle : ∀ l, view l ≤ view' l) (h : RInv mem st view th) : RInv mem st view' th := by
  obtain ⟨pc, ub, uv, sq, bits, base⟩ := th
  have h0 := hle .seq
  have h1 := hle (.v (odd sq))
  have h2 := hle (.b (odd sq))
  cases pc <;> simp only [RInv] at h ⊢ <;> (try trivial)
  · omega
  · omega
  · obtain ⟨a, b, c, d⟩ := h
    exact ⟨by omega, by omega, by omega, fun e => d (by omega)⟩
  · obtain ⟨a, b, d⟩ := h
    exact ⟨by omega, by omega, fun e => d (by omega)⟩

theorem LInv_mono {hist : List (Nat × Nat)} {st vseq vseq' : Nat} {lg : List (Nat × Nat)} {th : Local}
    (hle : vseq ≤ vseq') (h : LInv hist st vseq lg th) : LInv hist st vseq' lg th := by
  obtain ⟨l1, l2, l3⟩ := h
  refine ⟨l1, ?_, ?_⟩
  · intro p hp
    obtain ⟨k, hk1, hk2⟩ := l2 p hp
    refine ⟨k, ?_, hk2⟩
    split at hk1 <;> simp_all <;> omega
  · intro hpc
    obtain ⟨hm, k, hk1, hk2, hk3⟩ := l3 hpc
    exact ⟨hm, k, hk1, by omega, hk3⟩

theorem join_le_left (a b : View) (l : Loc) : a l ≤ View.join a b l := by simp [View.join]; omega
theorem join_le_right (a b : View) (l : Loc) : b l ≤ View.join a b l := by simp [View.join]; omega
theorem join_lt {a b : View} {l : Loc} {n : Nat} (ha : a l < n) (hb : b l < n) : View.join a b l < n := by
  simp [View.join]; omega

theorem loadView_ge {view : View} {l : Loc} {o : Ord} {ts : Nat} {m : Msg} (hv : view l ≤ ts) (l' : Loc) :
    view l' ≤ loadView view l o ts m l' := by
  unfold loadView
  have : view l' ≤ upd view l ts l' := by
    by_cases h : l' = l
    · subst h; simpa using hv
    · rw [upd_ne _ _ _ h]; exact Nat.le_refl _
  cases o <;> simp [View.join] <;> omega

theorem loadView_at {view : View} {l : Loc} {o : Ord} {ts : Nat} {m : Msg} :
    ts ≤ loadView view l o ts m l := by
  unfold loadView
  cases o <;> simp [View.join] <;> omega

theorem loadView_acq {view : View} {l : Loc} {ts : Nat} {m : Msg} (l' : Loc) :
    m.view l' ≤ loadView view l .acq ts m l' := by
  simp [loadView, View.join]; omega

theorem loadView_lt {view : View} {l : Loc} {o : Ord} {ts : Nat} {m : Msg} {len : Loc → Nat}
    (hview : ∀ l', view l' < len l') (hts : ts < len l) (hm : ∀ l', m.view l' < len l') (l' : Loc) :
    loadView view l o ts m l' < len l' := by
  unfold loadView
  have : upd view l ts l' < len l' := by
    by_cases h : l' = l
    · subst h; simpa using hts
    · rw [upd_ne _ _ _ h]; exact hview l'
  have := hm l'
  cases o <;> simp [View.join] <;> omega

/-- A load by thread `t`. -/
theorem inv_load {chk : Nat → Nat → Bool} {s : State} (hI : Inv chk s) (t ts : Nat) (l : Loc) (o : Ord)
    (m : Msg) (loc' : Local)
    (hm : (s.mem l)[ts]? = some m)
    (hcs : loc'.pc.inCS = (s.thr t).loc.pc.inCS)
    (hwb : s.held = some t → wb loc'.pc = false ∧ wv loc'.pc = false ∧ wb (s.thr t).loc.pc = false ∧
      wv (s.thr t).loc.pc = false)
    (hw : s.held = some t → WInv chk s.mem s.hist loc')
    (hwf : (∀ l', loadView (s.thr t).view l o ts m l' < (s.mem l').length) →
      RInv s.mem (s.start t) (loadView (s.thr t).view l o ts m) loc' ∧
      LInv s.hist (s.start t) (loadView (s.thr t).view l o ts m .seq) (SC.logOf loc' (s.log t)) loc') :
    (s.thr t).view l ≤ ts →
    Inv chk { s with thr := upd s.thr t { loc := loc', view := loadView (s.thr t).view l o ts m },
                     log := upd s.log t (SC.logOf loc' (s.log t)) } := by
  intro hv
  have hT := hI.t t
  have hlt : ∀ l', loadView (s.thr t).view l o ts m l' < (s.mem l').length :=
    loadView_lt (len := fun l' => (s.mem l').length) hT.wfv (List.getElem?_eq_some_iff.mp hm).1
      (fun l' => hI.g.wfmem l ts m l' hm)
  refine inv_local hI t (by rfl) (by rfl) (by rfl) (by rfl) ?_ ?_ ?_
  · intro t' ht; simp [upd_ne _ _ _ ht]
  · intro hh
    have hH := hI.h t hh
    obtain ⟨w1, w2, w3, w4⟩ := hwb hh
    simp only [upd_same]
    refine ⟨?_, ?_, ?_, hw hh⟩
    · intro l'
      have := hH.cover l'; have := hlt l'; have := loadView_ge (o := o) (m := m) hv l'
      show loadView (s.thr t).view l o ts m l' + 1 = _
      omega
    · intro o'; have := hH.lenb o'; simp [w1, w3] at this ⊢; exact this
    · intro o'; have := hH.lenv o'; simp [w2, w4] at this ⊢; exact this
  · simp only [upd_same]
    exact ⟨by rw [hcs]; exact hT.lock, hlt, (hwf hlt).1, (hwf hlt).2⟩

theorem LInv_pc {hist : List (Nat × Nat)} {st vseq : Nat} {lg : List (Nat × Nat)} {th th' : Local}
    (h1 : th'.pc.inSnap = th.pc.inSnap) (h2 : th'.pc ≠ .retSnap) (h : LInv hist st vseq lg th) :
    LInv hist st vseq lg th' := by
  obtain ⟨l1, l2, _⟩ := h
  exact ⟨l1, by rw [h1]; exact l2, fun hpc => absurd hpc h2⟩

theorem logOf_ne {th : Local} {lg : List (Nat × Nat)} (h : th.pc ≠ .retSnap) : SC.logOf th lg = lg := by
  simp [SC.logOf, h]

theorem hist_get_of_lt {chk : Nat → Nat → Bool} {mem : Loc → List Msg} {hist : List (Nat × Nat)}
    {held : Option Nat} {mview : View} (hG : GInv chk mem hist held mview) {k : Nat}
    (hk : k < (mem .seq).length) : ∃ p, hist[k]? = some p := by
  have : k < hist.length := by rw [hG.hlen]; exact hk
  exact ⟨hist[k], List.getElem?_eq_getElem this⟩

theorem valAt_of_get {ms : List Msg} {i : Nat} {m : Msg} (h : ms[i]? = some m) : valAt ms i = some m.val := by
  simp [valAt, h]

theorem get_snoc {α : Type} {ms : List α} {x m : α} {i : Nat} (h : (ms ++ [x])[i]? = some m) :
    ms[i]? = some m ∨ (i = ms.length ∧ m = x) := by
  by_cases hi : i < ms.length
  · left; rw [List.getElem?_append_left hi] at h; exact h
  · right
    rw [List.getElem?_append_right (by omega)] at h
    have := singleton_get h
    exact ⟨by omega, this.2⟩

/-- What every store by the lock holder `t` preserves. -/
theorem store_common {chk : Nat → Nat → Bool} {s : State} (hI : Inv chk s) (t : Nat) (l : Loc) (val : Nat)
    (loc' : Local) (y : List (Nat × Nat)) (hh : s.held = some t)
    (hcs : loc'.pc.inCS = true) (hns : loc'.pc.inSnap = false) (hnr : loc'.pc ≠ .retSnap) (hnp : loc'.pc ≠ .sPanic)
    (hold : (s.thr t).loc.pc.inSnap = false) :
    let view' := upd (s.thr t).view l (s.mem l).length
    let mem' := upd s.mem l (s.mem l ++ [⟨val, view'⟩])
    (∀ l', ∃ x, mem' l' = s.mem l' ++ x) ∧
    (∀ (l1 : Loc) (i : Nat) (m : Msg) (l2 : Loc), (mem' l1)[i]? = some m → m.view l2 < (mem' l2).length) ∧
    (∀ l', s.mview l' < (mem' l').length) ∧
    (∀ l', view' l' + 1 = (mem' l').length) ∧
    (∀ t', t' ≠ t → TInv mem' (s.hist ++ y) s.held (s.start t') (s.log t') (s.thr t') t') ∧
    TInv mem' (s.hist ++ y) s.held (s.start t) (s.log t) { loc := loc', view := view' } t := by
  intro view' mem'
  have hT := hI.t t
  have hH := hI.h t hh
  have hext : ∀ l', ∃ x, mem' l' = s.mem l' ++ x := by
    intro l'
    by_cases h : l' = l
    · subst h; exact ⟨[⟨val, view'⟩], by simp [mem']⟩
    · exact ⟨[], by simp [mem', upd_ne _ _ _ h]⟩
  have hlen : ∀ l', (s.mem l').length ≤ (mem' l').length := by
    intro l'; obtain ⟨x, hx⟩ := hext l'; rw [hx, List.length_append]; omega
  have hlen' : (mem' l).length = (s.mem l).length + 1 := by simp [mem']
  have hcov : ∀ l', view' l' + 1 = (mem' l').length := by
    intro l'
    by_cases h : l' = l
    · subst h; simp [view', mem']
    · simp [view', mem', upd_ne _ _ _ h]; exact hH.cover l'
  refine ⟨hext, ?_, ?_, hcov, ?_, ?_⟩
  · intro l1 i m l2 hm
    by_cases h : l1 = l
    · subst h
      simp only [mem', upd_same] at hm
      rcases get_snoc hm with h1 | ⟨_, h1⟩
      · have := hI.g.wfmem l1 i m l2 h1; have := hlen l2; omega
      · subst h1; have := hcov l2; show view' l2 < _; omega
    · simp only [mem', upd_ne _ _ _ h] at hm
      have := hI.g.wfmem l1 i m l2 hm; have := hlen l2; omega
  · intro l'; have := hI.g.wfm l'; have := hlen l'; omega
  · intro t' ht
    exact TInv_frame (hI.t t') hext ⟨y, rfl⟩ Iff.rfl
  · refine ⟨by simp [hcs, hh], ?_, ?_, ?_⟩
    · intro l'; have := hcov l'; show view' l' < _; omega
    · unfold RInv; revert hns hnp hcs; cases loc'.pc <;> simp [Pc.inSnap, Pc.inCS]
    · have hvs : (s.thr t).view .seq ≤ view' .seq := by
        by_cases h : Loc.seq = l
        · subst h; simp [view']; have := hT.wfv .seq; omega
        · simp [view', upd_ne _ _ _ h]
      have h1 := (TInv_frame hT hext ⟨y, rfl⟩ Iff.rfl).lg
      exact LInv_pc (by rw [hns, hold]) hnr (LInv_mono hvs h1)

theorem valAt_snoc_len (ms : List Msg) (x : Msg) : valAt (ms ++ [x]) ms.length = some x.val := by
  simp [valAt]

theorem inv_step_aStB {chk : Nat → Nat → Bool} {s s' : State} (hI : Inv chk s) (t ts : Nat)
    (hpc : (s.thr t).loc.pc = .aStB) (hs : step chk s (.run t ts) = some s') : Inv chk s' := by
  have hT := hI.t t
  have hG := hI.g
  have hh : s.held = some t := hT.lock.1 (by simp [hpc, Pc.inCS])
  have hH := hI.h t hh
  have hw := hH.wpc
  simp only [WInv, hpc] at hw
  obtain ⟨hsq, hchk, hle⟩ := hw
  simp only [step, Local.next, hpc, storeView, reduceCtorEq, ↓reduceIte] at hs
  cases hs
  obtain ⟨hext, hwfmem, hwfm, hcov, hothers, hself⟩ :=
    store_common hI t (.b (odd ((s.thr t).loc.sq + 1))) (s.thr t).loc.ub (s.thr t).loc.feedUnit [] hh
      (by simp [Local.feedUnit, hpc, Pc.inCS]) (by simp [Local.feedUnit, hpc, Pc.inSnap])
      (by simp [Local.feedUnit, hpc]) (by simp [Local.feedUnit, hpc]) (by simp [hpc, Pc.inSnap])
  simp only [List.append_nil] at hothers hself
  have hseq : ∀ (o : Bool), Loc.seq ≠ Loc.b o := by intro o h; cases h
  have hlenb := hH.lenb
  have hlenv := hH.lenv
  simp only [hpc, wb, wv, Bool.false_eq_true, false_and, if_false, Nat.add_zero] at hlenb hlenv
  have hcs := hH.cover .seq
  have hn : nOf (upd s.mem (.b (odd ((s.thr t).loc.sq + 1))) (s.mem (.b (odd ((s.thr t).loc.sq + 1))) ++
      [⟨(s.thr t).loc.ub, upd (s.thr t).view (.b (odd ((s.thr t).loc.sq + 1))) (s.mem (.b (odd ((s.thr t).loc.sq + 1)))).length⟩])) = nOf s.mem := by
    simp [nOf, upd_ne _ _ _ (hseq _)]
  refine ⟨⟨?_, ?_, ?_, ?_, hG.chkAll, hG.sorted, ?_, ?_, ?_, ?_, ?_, hwfmem, hwfm, ?_⟩, ?_, ?_⟩ <;> (try dsimp only)
  · intro i m hm; simp only [upd_ne _ _ _ (hseq _)] at hm; exact hG.seqval i m hm
  · simp only [upd_ne _ _ _ (hseq _)]; exact hG.hlen
  · simp only [upd_ne _ _ _ (hseq _)]; exact hG.hpos
  · intro k p hp
    obtain ⟨a, b⟩ := hG.pairs k p hp
    obtain ⟨x1, h1⟩ := hext (.b (odd k)); obtain ⟨x2, h2⟩ := hext (.v (odd k))
    exact ⟨by rw [h1]; exact valAt_append _ a, by rw [h2]; exact valAt_append _ b⟩
  · intro h; rw [hh] at h; simp at h
  · intro h; rw [hh] at h; simp at h
  · intro i m hm; simp only [upd_ne _ _ _ (hseq _)] at hm; exact hG.v1 i m hm
  · intro o i m hm hi
    by_cases ho : Loc.b o = Loc.b (odd ((s.thr t).loc.sq + 1))
    · rw [ho] at hm; simp only [upd_same] at hm
      rcases get_snoc hm with h1 | ⟨h1, h2⟩
      · rw [← ho] at h1; exact hG.v2b o i m h1 hi
      · subst h2
        have ho' : o = odd ((s.thr t).loc.sq + 1) := by injection ho
        have hl := hlenb (odd ((s.thr t).loc.sq + 1))
        have hb := bit_odd ((s.thr t).loc.sq + 1)
        simp only [upd_ne _ _ _ (hseq _)]
        rw [ho', hb, h1, hl, hb, ← hsq]
        have : (s.thr t).view .seq = (s.thr t).loc.sq := by simp [nOf] at hsq; omega
        omega
    · simp only [upd_ne _ _ _ ho] at hm; exact hG.v2b o i m hm hi
  · intro o i m hm hi
    have ho : Loc.v o ≠ Loc.b (odd ((s.thr t).loc.sq + 1)) := by intro h; cases h
    simp only [upd_ne _ _ _ ho] at hm; exact hG.v2v o i m hm hi
  · intro h; rw [hh] at h; simp at h
  · intro t' ht'
    have : t' = t := by rw [hh] at ht'; injection ht' with h; exact h.symm
    subst this
    simp only [upd_same]
    refine ⟨hcov, ?_, ?_, ?_⟩
    · intro o
      rw [hn]
      by_cases ho : o = odd ((s.thr t').loc.sq + 1)
      · subst ho; simp [Local.feedUnit, hpc, wb, ← hsq, hlenb]
      · have : Loc.b o ≠ Loc.b (odd ((s.thr t').loc.sq + 1)) := by intro h; injection h with h; exact ho h
        simp [Local.feedUnit, hpc, wb, ← hsq, ho, upd_ne _ _ _ this, hlenb]
    · intro o
      rw [hn]
      have : Loc.v o ≠ Loc.b (odd ((s.thr t').loc.sq + 1)) := by intro h; cases h
      simp [Local.feedUnit, hpc, wv, upd_ne _ _ _ this, hlenv]
    · simp only [WInv, Local.feedUnit, hpc, hn]
      refine ⟨hsq, hchk, hle, ?_⟩
      rw [← hsq]; simp only [upd_same]
      have hl := hlenb (odd ((s.thr t').loc.sq + 1))
      have hb := bit_odd ((s.thr t').loc.sq + 1)
      have : tsOf ((s.thr t').loc.sq + 1) = (s.mem (.b (odd ((s.thr t').loc.sq + 1)))).length := by
        rw [hl, hb, ← hsq]; unfold tsOf; omega
      rw [this]; exact valAt_snoc_len _ _
  · intro t'
    by_cases ht : t' = t
    · subst ht; simp only [upd_same]; exact hself
    · simp only [upd_ne _ _ _ ht]; exact hothers t' ht

theorem inv_step_aStV {chk : Nat → Nat → Bool} {s s' : State} (hI : Inv chk s) (t ts : Nat)
    (hpc : (s.thr t).loc.pc = .aStV) (hs : step chk s (.run t ts) = some s') : Inv chk s' := by
  have hT := hI.t t
  have hG := hI.g
  have hh : s.held = some t := hT.lock.1 (by simp [hpc, Pc.inCS])
  have hH := hI.h t hh
  have hw := hH.wpc
  simp only [WInv, hpc] at hw
  obtain ⟨hsq, hchk, hle, hvb⟩ := hw
  simp only [step, Local.next, hpc, storeView, reduceCtorEq, ↓reduceIte] at hs
  cases hs
  obtain ⟨hext, hwfmem, hwfm, hcov, hothers, hself⟩ :=
    store_common hI t (.v (odd ((s.thr t).loc.sq + 1))) (s.thr t).loc.uv (s.thr t).loc.feedUnit [] hh
      (by simp [Local.feedUnit, hpc, Pc.inCS]) (by simp [Local.feedUnit, hpc, Pc.inSnap])
      (by simp [Local.feedUnit, hpc]) (by simp [Local.feedUnit, hpc]) (by simp [hpc, Pc.inSnap])
  simp only [List.append_nil] at hothers hself
  have hseq : ∀ (o : Bool), Loc.seq ≠ Loc.v o := by intro o h; cases h
  have hlenb := hH.lenb
  have hlenv := hH.lenv
  simp only [hpc, wb, wv, Bool.false_eq_true, false_and, if_false, Nat.add_zero, true_and] at hlenb hlenv
  have hcs := hH.cover .seq
  have hn : nOf (upd s.mem (.v (odd ((s.thr t).loc.sq + 1))) (s.mem (.v (odd ((s.thr t).loc.sq + 1))) ++
      [⟨(s.thr t).loc.uv, upd (s.thr t).view (.v (odd ((s.thr t).loc.sq + 1))) (s.mem (.v (odd ((s.thr t).loc.sq + 1)))).length⟩])) = nOf s.mem := by
    simp [nOf, upd_ne _ _ _ (hseq _)]
  refine ⟨⟨?_, ?_, ?_, ?_, hG.chkAll, hG.sorted, ?_, ?_, ?_, ?_, ?_, hwfmem, hwfm, ?_⟩, ?_, ?_⟩ <;> (try dsimp only)
  · intro i m hm; simp only [upd_ne _ _ _ (hseq _)] at hm; exact hG.seqval i m hm
  · simp only [upd_ne _ _ _ (hseq _)]; exact hG.hlen
  · simp only [upd_ne _ _ _ (hseq _)]; exact hG.hpos
  · intro k p hp
    obtain ⟨a, b⟩ := hG.pairs k p hp
    obtain ⟨x1, h1⟩ := hext (.b (odd k)); obtain ⟨x2, h2⟩ := hext (.v (odd k))
    exact ⟨by rw [h1]; exact valAt_append _ a, by rw [h2]; exact valAt_append _ b⟩
  · intro h; rw [hh] at h; simp at h
  · intro h; rw [hh] at h; simp at h
  · intro i m hm; simp only [upd_ne _ _ _ (hseq _)] at hm; exact hG.v1 i m hm
  · intro o i m hm hi
    have ho : Loc.b o ≠ Loc.v (odd ((s.thr t).loc.sq + 1)) := by intro h; cases h
    simp only [upd_ne _ _ _ ho] at hm; exact hG.v2b o i m hm hi
  · intro o i m hm hi
    by_cases ho : Loc.v o = Loc.v (odd ((s.thr t).loc.sq + 1))
    · rw [ho] at hm; simp only [upd_same] at hm
      rcases get_snoc hm with h1 | ⟨h1, h2⟩
      · rw [← ho] at h1; exact hG.v2v o i m h1 hi
      · subst h2
        have ho' : o = odd ((s.thr t).loc.sq + 1) := by injection ho
        have hl := hlenv (odd ((s.thr t).loc.sq + 1))
        have hb := bit_odd ((s.thr t).loc.sq + 1)
        simp only [upd_ne _ _ _ (hseq _)]
        rw [ho', hb, h1, hl, hb, ← hsq]
        have : (s.thr t).view .seq = (s.thr t).loc.sq := by simp [nOf] at hsq; omega
        omega
    · simp only [upd_ne _ _ _ ho] at hm; exact hG.v2v o i m hm hi
  · intro h; rw [hh] at h; simp at h
  · intro t' ht'
    have : t' = t := by rw [hh] at ht'; injection ht' with h; exact h.symm
    subst this
    simp only [upd_same]
    refine ⟨hcov, ?_, ?_, ?_⟩
    · intro o
      rw [hn]
      have : Loc.b o ≠ Loc.v (odd ((s.thr t').loc.sq + 1)) := by intro h; cases h
      simp only [Local.feedUnit, hpc, wb, upd_ne _ _ _ this, true_and]
      exact hlenb o
    · intro o
      rw [hn]
      by_cases ho : o = odd ((s.thr t').loc.sq + 1)
      · subst ho; simp [Local.feedUnit, hpc, wv, ← hsq, hlenv]
      · have : Loc.v o ≠ Loc.v (odd ((s.thr t').loc.sq + 1)) := by intro h; injection h with h; exact ho h
        simp [Local.feedUnit, hpc, wv, ← hsq, ho, upd_ne _ _ _ this, hlenv]
    · simp only [WInv, Local.feedUnit, hpc, hn]
      have hbv : Loc.b (odd (nOf s.mem + 1)) ≠ Loc.v (odd ((s.thr t').loc.sq + 1)) := by intro h; cases h
      refine ⟨hsq, hchk, hle, by rw [upd_ne _ _ _ hbv]; exact hvb, ?_⟩
      rw [← hsq]; simp only [upd_same]
      have hl := hlenv (odd ((s.thr t').loc.sq + 1))
      have hb := bit_odd ((s.thr t').loc.sq + 1)
      have : tsOf ((s.thr t').loc.sq + 1) = (s.mem (.v (odd ((s.thr t').loc.sq + 1)))).length := by
        rw [hl, hb, ← hsq]; unfold tsOf; omega
      rw [this]; exact valAt_snoc_len _ _
  · intro t'
    by_cases ht : t' = t
    · subst ht; simp only [upd_same]; exact hself
    · simp only [upd_ne _ _ _ ht]; exact hothers t' ht

theorem ne_odd_succ {o : Bool} {n : Nat} (h : o ≠ odd (n + 1)) : o = odd n := by
  rw [odd_succ] at h; cases o <;> cases hn : odd n <;> simp_all

theorem inv_step_aStSeq {chk : Nat → Nat → Bool} {s s' : State} (hI : Inv chk s) (t ts : Nat)
    (hpc : (s.thr t).loc.pc = .aStSeq) (hs : step chk s (.run t ts) = some s') : Inv chk s' := by
  have hT := hI.t t
  have hG := hI.g
  have hh : s.held = some t := hT.lock.1 (by simp [hpc, Pc.inCS])
  have hH := hI.h t hh
  have hw := hH.wpc
  simp only [WInv, hpc] at hw
  obtain ⟨hsq, hchk, hle, hvb, hvv⟩ := hw
  simp only [step, Local.next, hpc, storeView, ↓reduceIte] at hs
  cases hs
  obtain ⟨hext, hwfmem, hwfm, hcov, hothers, hself⟩ :=
    store_common hI t .seq ((s.thr t).loc.sq + 1) (s.thr t).loc.feedUnit [((s.thr t).loc.ub, (s.thr t).loc.uv)] hh
      (by simp [Local.feedUnit, hpc, Pc.inCS]) (by simp [Local.feedUnit, hpc, Pc.inSnap])
      (by simp [Local.feedUnit, hpc]) (by simp [Local.feedUnit, hpc]) (by simp [hpc, Pc.inSnap])
  have hb : ∀ (o : Bool), Loc.b o ≠ Loc.seq := by intro o h; cases h
  have hv : ∀ (o : Bool), Loc.v o ≠ Loc.seq := by intro o h; cases h
  have hlenb := hH.lenb
  have hlenv := hH.lenv
  simp only [hpc, wb, wv, true_and] at hlenb hlenv
  have hpos := hG.hpos
  have hnlen : (s.mem .seq).length = nOf s.mem + 1 := by simp [nOf]; omega
  have hn : nOf (upd s.mem .seq (s.mem .seq ++
      [⟨(s.thr t).loc.sq + 1, upd (s.thr t).view .seq (s.mem .seq).length⟩])) = nOf s.mem + 1 := by
    simp [nOf]; omega
  refine ⟨⟨?_, ?_, ?_, ?_, ?_, ?_, ?_, ?_, ?_, ?_, ?_, hwfmem, hwfm, ?_⟩, ?_, ?_⟩ <;> (try dsimp only)
  · intro i m hm; simp only [upd_same] at hm
    rcases get_snoc hm with h1 | ⟨h1, h2⟩
    · exact hG.seqval i m h1
    · subst h2; simp [h1, hnlen, hsq]
  · simp [hG.hlen]
  · simp
  · intro k p hp
    rcases get_snoc hp with h1 | ⟨h1, h2⟩
    · obtain ⟨a, b⟩ := hG.pairs k p h1
      simp only [upd_ne _ _ _ (hb _), upd_ne _ _ _ (hv _)]; exact ⟨a, b⟩
    · subst h2
      simp only [upd_ne _ _ _ (hb _), upd_ne _ _ _ (hv _)]
      rw [h1, hG.hlen, hnlen]; exact ⟨hvb, hvv⟩
  · intro p hp; simp at hp
    rcases hp with hp | hp
    · exact hG.chkAll p hp
    · subst hp; exact hchk
  · rw [List.pairwise_append]
    refine ⟨hG.sorted, by simp, ?_⟩
    intro p hp q hq; simp at hq; subst hq
    obtain ⟨k, hk, hkp⟩ := List.getElem_of_mem hp
    have hk' : s.hist[k]? = some p := by rw [List.getElem?_eq_getElem hk, hkp]
    obtain ⟨pn, hpn⟩ := hist_get_of_lt hG (k := nOf s.mem) (by omega)
    have h1 := sorted_get hG.sorted hk' hpn (by rw [hG.hlen] at hk; omega)
    have h2 := hle pn hpn
    simp at h1 h2 ⊢; omega
  · intro h; rw [hh] at h; simp at h
  · intro h; rw [hh] at h; simp at h
  · intro i m hm; simp only [upd_same] at hm
    rcases get_snoc hm with h1 | ⟨h1, h2⟩
    · exact hG.v1 i m h1
    · subst h2
      have e1 : Loc.b (odd i) ≠ Loc.seq := hb _
      have e2 : Loc.v (odd i) ≠ Loc.seq := hv _
      simp only [upd_ne _ _ _ e1, upd_ne _ _ _ e2]
      rw [h1, hnlen]
      have c1 := hH.cover (.b (odd (nOf s.mem + 1)))
      have c2 := hH.cover (.v (odd (nOf s.mem + 1)))
      have l1 := hlenb (odd (nOf s.mem + 1))
      have l2 := hlenv (odd (nOf s.mem + 1))
      simp only [if_true, bit_odd] at l1 l2
      unfold tsOf
      omega
  · intro o i m hm hi; simp only [upd_ne _ _ _ (hb _)] at hm; exact hG.v2b o i m hm hi
  · intro o i m hm hi; simp only [upd_ne _ _ _ (hv _)] at hm; exact hG.v2v o i m hm hi
  · intro h; rw [hh] at h; simp at h
  · intro t' ht'
    have : t' = t := by rw [hh] at ht'; injection ht' with h; exact h.symm
    subst this
    simp only [upd_same]
    refine ⟨hcov, ?_, ?_, ?_⟩
    · intro o
      rw [hn]; simp only [upd_ne _ _ _ (hb _), Local.feedUnit, hpc, wb, Bool.false_eq_true, false_and, if_false]
      rw [hlenb o]
      by_cases ho : o = odd (nOf s.mem + 1)
      · subst ho; simp only [if_true, bit_odd]; omega
      · have := ne_odd_succ ho; subst this; simp only [ho, if_false, bit_odd]; omega
    · intro o
      rw [hn]; simp only [upd_ne _ _ _ (hv _), Local.feedUnit, hpc, wv, Bool.false_eq_true, false_and, if_false]
      rw [hlenv o]
      by_cases ho : o = odd (nOf s.mem + 1)
      · subst ho; simp only [if_true, bit_odd]; omega
      · have := ne_odd_succ ho; subst this; simp only [ho, if_false, bit_odd]; omega
    · simp [WInv, Local.feedUnit, hpc]
  · intro t'
    by_cases ht : t' = t
    · subst ht; simp only [upd_same]; exact hself
    · simp only [upd_ne _ _ _ ht]; exact hothers t' ht

theorem RInv_writer {mem : Loc → List Msg} {st : Nat} {view : View} {loc' : Local}
    (hns : loc'.pc.inSnap = false) (hnp : loc'.pc ≠ .sPanic) : RInv mem st view loc' := by
  unfold RInv; revert hns hnp; cases loc'.pc <;> simp [Pc.inSnap]

/-- `lock` / a successful `try_lock`. -/
theorem inv_acquire {chk : Nat → Nat → Bool} {s : State} (hI : Inv chk s) (t : Nat) (loc' : Local) (p : Bool)
    (hn : s.held = none) (hcs : loc'.pc.inCS = true) (hwb : wb loc'.pc = false) (hwv : wv loc'.pc = false)
    (hw : WInv chk s.mem s.hist loc')
    (hns : loc'.pc.inSnap = false) (hnr : loc'.pc ≠ .retSnap) (hnp : loc'.pc ≠ .sPanic)
    (hold : (s.thr t).loc.pc.inSnap = false) :
    Inv chk { s with held := some t, poisoned := p,
                     thr := upd s.thr t { loc := loc', view := View.join (s.thr t).view s.mview } } := by
  have hT := hI.t t
  have hG := hI.g
  refine ⟨⟨hG.seqval, hG.hlen, hG.hpos, hG.pairs, hG.chkAll, hG.sorted, ?_, ?_, hG.v1, hG.v2b, hG.v2v,
    hG.wfmem, hG.wfm, ?_⟩, ?_, ?_⟩ <;> (try dsimp only)
  · intro h; simp at h
  · intro h; simp at h
  · intro h; simp at h
  · intro t' ht'
    have : t' = t := by injection ht' with h; exact h.symm
    subst this
    simp only [upd_same]
    refine ⟨?_, ?_, ?_, hw⟩
    · intro l
      have := hG.mcover hn l; have := hT.wfv l
      simp [View.join]; omega
    · intro o; simp [hwb]; exact hG.lenb hn o
    · intro o; simp [hwv]; exact hG.lenv hn o
  · intro t'
    by_cases ht : t' = t
    · subst ht; simp only [upd_same]
      refine ⟨by simp [hcs], ?_, RInv_writer hns hnp, ?_⟩
      · intro l; exact join_lt (hT.wfv l) (hG.wfm l)
      · exact LInv_pc (by rw [hns, hold]) hnr (LInv_mono (join_le_left _ _ _) hT.lg)
    · simp only [upd_ne _ _ _ ht]
      have h0 := hI.t t'
      refine ⟨?_, h0.wfv, h0.rd, h0.lg⟩
      have := h0.lock; rw [hn] at this
      constructor
      · intro h; have := this.1 h; simp at this
      · intro h; injection h with h; exact absurd h.symm ht

/-- A guard drop. -/
theorem inv_release {chk : Nat → Nat → Bool} {s : State} (hI : Inv chk s) (t : Nat) (loc' : Local) (p : Bool)
    (hh : s.held = some t) (hcs : loc'.pc.inCS = false)
    (hwb : wb (s.thr t).loc.pc = false) (hwv : wv (s.thr t).loc.pc = false)
    (hns : loc'.pc.inSnap = false) (hnr : loc'.pc ≠ .retSnap) (hnp : loc'.pc ≠ .sPanic)
    (hold : (s.thr t).loc.pc.inSnap = false) :
    Inv chk { s with held := none, poisoned := p, mview := View.join s.mview (s.thr t).view,
                     thr := upd s.thr t { loc := loc', view := (s.thr t).view } } := by
  have hT := hI.t t
  have hG := hI.g
  have hH := hI.h t hh
  refine ⟨⟨hG.seqval, hG.hlen, hG.hpos, hG.pairs, hG.chkAll, hG.sorted, ?_, ?_, hG.v1, hG.v2b, hG.v2v,
    hG.wfmem, ?_, ?_⟩, ?_, ?_⟩ <;> (try dsimp only)
  · intro _ o; have := hH.lenb o; simp [hwb] at this; exact this
  · intro _ o; have := hH.lenv o; simp [hwv] at this; exact this
  · intro l; exact join_lt (hG.wfm l) (hT.wfv l)
  · intro _ l
    have := hH.cover l; have := hG.wfm l
    simp [View.join]; omega
  · intro t' h; simp at h
  · intro t'
    by_cases ht : t' = t
    · subst ht; simp only [upd_same]
      refine ⟨by simp [hcs], hT.wfv, RInv_writer hns hnp, ?_⟩
      exact LInv_pc (by rw [hns, hold]) hnr hT.lg
    · simp only [upd_ne _ _ _ ht]
      have h0 := hI.t t'
      refine ⟨?_, h0.wfv, h0.rd, h0.lg⟩
      have := h0.lock; rw [hh] at this
      constructor
      · intro h; have := this.1 h; injection this with h'; exact absurd h'.symm ht
      · intro h; simp at h

theorem inv_step (chk : Nat → Nat → Bool) (s s' : State) (l : Label) (hI : Inv chk s)
    (hs : step chk s l = some s') : Inv chk s' := by
  cases l with
  | sync t u =>
    simp [step] at hs; subst hs
    have hT := hI.t t
    have hU := hI.t u
    refine inv_local hI t (by rfl) (by rfl) (by rfl) (by rfl) ?_ ?_ ?_
    · intro t' ht; simp [upd_ne _ _ _ ht]
    · intro hh
      have hH := hI.h t hh
      simp only [upd_same]
      refine ⟨?_, hH.lenb, hH.lenv, hH.wpc⟩
      intro l
      have := hH.cover l; have := hU.wfv l
      simp [View.join]; omega
    · simp only [upd_same]
      refine ⟨hT.lock, ?_, RInv_mono (join_le_left _ _) hT.rd, LInv_mono (join_le_left _ _ _) hT.lg⟩
      intro l; exact join_lt (hT.wfv l) (hU.wfv l)
  | start t op =>
    simp only [step] at hs
    split at hs
    · rename_i hterm
      simp at hs; subst hs
      have hT := hI.t t
      have hncs : (s.thr t).loc.pc.inCS = false := by
        revert hterm; cases (s.thr t).loc.pc <;> simp [Pc.terminal, Pc.inCS]
      have hnsn : (s.thr t).loc.pc.inSnap = false := by
        revert hterm; cases (s.thr t).loc.pc <;> simp [Pc.terminal, Pc.inSnap]
      have hheld : s.held ≠ some t := by
        intro h; have := hT.lock.2 h; simp [hncs] at this
      refine inv_local hI t (by rfl) (by rfl) (by rfl) (by rfl) ?_ ?_ ?_
      · intro t' ht; simp [upd_ne _ _ _ ht]
      · intro h; exact absurd h hheld
      · simp only [upd_same]
        refine ⟨?_, hT.wfv, ?_, ?_⟩
        · have := hT.lock; rw [hncs] at this
          rw [← this]; cases op <;> simp [Local.start, Pc.inCS]
        · cases op <;> simp [Local.start, RInv]
        · obtain ⟨hl1, hl2, _⟩ := hT.lg
          simp only [hnsn] at hl2
          cases op <;> simp [Local.start, LInv, Pc.inSnap] <;> exact ⟨hl1, by simpa using hl2⟩
    · simp at hs
  | run t ts =>
    simp only [step] at hs
    have hT := hI.t t
    have hG := hI.g
    cases hpc : (s.thr t).loc.pc <;> simp only [Local.next, hpc] at hs
    case idle | retSnap | retBool | sPanic | aPanic => simp at hs
    case sSeq =>
      cases hm : (s.mem .seq)[ts]? with
      | none => simp [hm] at hs
      | some m =>
        simp only [hm] at hs
        split at hs
        · rename_i hv
          simp at hs; subst hs
          have hrd := hT.rd; have hlg := hT.lg
          simp only [RInv, hpc] at hrd
          refine inv_load hI t ts .seq .acq m _ hm ?_ ?_ ?_ ?_ hv
          · simp [Local.feedLoad, hpc, Pc.inCS]
          · intro hh; have := hT.lock.2 hh; simp [hpc, Pc.inCS] at this
          · intro hh; have := hT.lock.2 hh; simp [hpc, Pc.inCS] at this
          · intro hlt
            have hval := hG.seqval ts m hm
            have h1 := hG.v1 ts m hm
            have ha := loadView_at (view := (s.thr t).view) (l := .seq) (o := .acq) (ts := ts) (m := m)
            have hb1 := loadView_acq (view := (s.thr t).view) (l := .seq) (ts := ts) (m := m) (.v (odd ts))
            have hb2 := loadView_acq (view := (s.thr t).view) (l := .seq) (ts := ts) (m := m) (.b (odd ts))
            constructor
            · simp [Local.feedLoad, hpc, RInv, hval]
              exact ⟨by omega, ha, by omega, by omega⟩
            · rw [logOf_ne (by simp [Local.feedLoad, hpc])]
              exact LInv_pc (by simp [Local.feedLoad, hpc, Pc.inSnap]) (by simp [Local.feedLoad, hpc])
                (LInv_mono (loadView_ge hv .seq) hlg)
        · simp at hs
    case sV =>
      cases hm : (s.mem (.v (odd (s.thr t).loc.sq)))[ts]? with
      | none => simp [hm] at hs
      | some m =>
        simp only [hm] at hs
        split at hs
        · rename_i hv
          simp at hs; subst hs
          have hrd := hT.rd; have hlg := hT.lg
          simp only [RInv, hpc] at hrd
          obtain ⟨r1, r2, r3, r4⟩ := hrd
          refine inv_load hI t ts _ .acq m _ hm ?_ ?_ ?_ ?_ hv
          · simp [Local.feedLoad, hpc, Pc.inCS]
          · intro hh; have := hT.lock.2 hh; simp [hpc, Pc.inCS] at this
          · intro hh; have := hT.lock.2 hh; simp [hpc, Pc.inCS] at this
          · intro hlt
            have hge := fun l' => loadView_ge (o := .acq) (m := m) hv l'
            have hacq := loadView_acq (view := (s.thr t).view) (l := .v (odd (s.thr t).loc.sq)) (ts := ts) (m := m) .seq
            have h2 := hG.v2v _ ts m hm
            rw [bit_odd] at h2
            constructor
            · simp [Local.feedLoad, hpc, RInv]
              refine ⟨r1, by have := hge .seq; omega, by have := hge (.b (odd (s.thr t).loc.sq)); omega, ?_⟩
              intro heq
              by_cases hts : ts = tsOf (s.thr t).loc.sq
              · rw [← hts]; exact valAt_of_get hm
              · exfalso
                have : 1 ≤ ts := by omega
                have := h2 this
                unfold tsOf at *
                omega
            · rw [logOf_ne (by simp [Local.feedLoad, hpc])]
              exact LInv_pc (by simp [Local.feedLoad, hpc, Pc.inSnap]) (by simp [Local.feedLoad, hpc])
                (LInv_mono (hge .seq) hlg)
        · simp at hs
    case sB =>
      cases hm : (s.mem (.b (odd (s.thr t).loc.sq)))[ts]? with
      | none => simp [hm] at hs
      | some m =>
        simp only [hm] at hs
        split at hs
        · rename_i hv
          simp at hs; subst hs
          have hrd := hT.rd; have hlg := hT.lg
          simp only [RInv, hpc] at hrd
          obtain ⟨r1, r2, r3, r4⟩ := hrd
          refine inv_load hI t ts _ .acq m _ hm ?_ ?_ ?_ ?_ hv
          · simp [Local.feedLoad, hpc, Pc.inCS]
          · intro hh; have := hT.lock.2 hh; simp [hpc, Pc.inCS] at this
          · intro hh; have := hT.lock.2 hh; simp [hpc, Pc.inCS] at this
          · intro hlt
            have hge := fun l' => loadView_ge (o := .acq) (m := m) hv l'
            have hacq := loadView_acq (view := (s.thr t).view) (l := .b (odd (s.thr t).loc.sq)) (ts := ts) (m := m) .seq
            have h2 := hG.v2b _ ts m hm
            rw [bit_odd] at h2
            constructor
            · simp [Local.feedLoad, hpc, RInv]
              refine ⟨r1, by have := hge .seq; omega, ?_⟩
              intro heq
              have hs0 := hge .seq
              refine ⟨r4 (by omega), ?_⟩
              by_cases hts : ts = tsOf (s.thr t).loc.sq
              · rw [← hts]; exact valAt_of_get hm
              · exfalso
                have : 1 ≤ ts := by omega
                have := h2 this
                unfold tsOf at *
                omega
            · rw [logOf_ne (by simp [Local.feedLoad, hpc])]
              exact LInv_pc (by simp [Local.feedLoad, hpc, Pc.inSnap]) (by simp [Local.feedLoad, hpc])
                (LInv_mono (hge .seq) hlg)
        · simp at hs
    case sSeq2 =>
      cases hm : (s.mem .seq)[ts]? with
      | none => simp [hm] at hs
      | some m =>
        simp only [hm] at hs
        split at hs
        · rename_i hv
          simp at hs; subst hs
          have hrd := hT.rd; have hlg := hT.lg
          simp only [RInv, hpc] at hrd
          obtain ⟨r1, r2, r3⟩ := hrd
          have hval := hG.seqval ts m hm
          have hge := fun l' => loadView_ge (o := .acq) (m := m) hv l'
          have ha := loadView_at (view := (s.thr t).view) (l := .seq) (o := .acq) (ts := ts) (m := m)
          by_cases h1 : (s.thr t).loc.sq = ts
          · -- the re-check succeeds: the pair is the one published with sequence number `sq`
            obtain ⟨hv1, hb1⟩ := r3 (by omega)
            have htslt : ts < (s.mem .seq).length := (List.getElem?_eq_some_iff.mp hm).1
            obtain ⟨p, hp⟩ := hist_get_of_lt hG (k := (s.thr t).loc.sq) (by omega)
            obtain ⟨pb, pv⟩ := hG.pairs _ p hp
            rw [hb1] at pb; rw [hv1] at pv
            simp at pb pv
            have hpe : p = ((s.thr t).loc.base, (s.thr t).loc.bits) := by
              cases p; simp at pb pv ⊢; exact ⟨pb.symm, pv.symm⟩
            subst hpe
            have h2 : chk (s.thr t).loc.base (s.thr t).loc.bits = true := hG.chkAll _ (List.mem_of_getElem? hp)
            refine inv_load hI t ts .seq .acq m _ hm ?_ ?_ ?_ ?_ hv
            · simp [Local.feedLoad, hpc, hval, h1, h2, Pc.inCS]
            · intro hh; have := hT.lock.2 hh; simp [hpc, Pc.inCS] at this
            · intro hh; have := hT.lock.2 hh; simp [hpc, Pc.inCS] at this
            · intro hlt
              obtain ⟨l1, l2, _⟩ := hlg
              simp only [hpc, Pc.inSnap, if_true] at l2
              constructor
              · simp [Local.feedLoad, hpc, hval, h1, h2, RInv]
              · simp [Local.feedLoad, hpc, hval, h1, h2, LInv, SC.logOf, Pc.inSnap]
                refine ⟨⟨?_, l1⟩, ⟨⟨(s.thr t).loc.sq, by omega, hp⟩, ?_⟩, ⟨(s.thr t).loc.sq, r1, by omega, hp⟩⟩
                · intro a b hab
                  obtain ⟨k, hk1, hk2⟩ := l2 (a, b) hab
                  exact sorted_get hG.sorted hk2 hp (by omega)
                · intro a b hab
                  obtain ⟨k, hk1, hk2⟩ := l2 (a, b) hab
                  exact ⟨k, by omega, hk2⟩
          · refine inv_load hI t ts .seq .acq m _ hm ?_ ?_ ?_ ?_ hv
            · simp [Local.feedLoad, hpc, hval, h1, Pc.inCS]
            · intro hh; have := hT.lock.2 hh; simp [hpc, Pc.inCS] at this
            · intro hh; have := hT.lock.2 hh; simp [hpc, Pc.inCS] at this
            · intro hlt
              have hv1 := hG.v1 ts m hm
              have hb1 := loadView_acq (view := (s.thr t).view) (l := .seq) (ts := ts) (m := m) (.v (odd ts))
              have hb2 := loadView_acq (view := (s.thr t).view) (l := .seq) (ts := ts) (m := m) (.b (odd ts))
              constructor
              · simp [Local.feedLoad, hpc, hval, h1, RInv]
                exact ⟨by omega, ha, by omega, by omega⟩
              · rw [logOf_ne (by simp [Local.feedLoad, hpc, hval, h1])]
                exact LInv_pc (by simp [Local.feedLoad, hpc, hval, h1, Pc.inSnap])
                  (by simp [Local.feedLoad, hpc, hval, h1]) (LInv_mono (hge .seq) hlg)
        · simp at hs
    case aSeq =>
      cases hm : (s.mem .seq)[ts]? with
      | none => simp [hm] at hs
      | some m =>
        simp only [hm] at hs
        split at hs
        · rename_i hv
          simp at hs; subst hs
          have hlg := hT.lg
          have hh : s.held = some t := hT.lock.1 (by simp [hpc, Pc.inCS])
          have hH := hI.h t hh
          have hval := hG.seqval ts m hm
          have htslt : ts < (s.mem .seq).length := (List.getElem?_eq_some_iff.mp hm).1
          have hcov := hH.cover .seq
          refine inv_load hI t ts .seq .rlx m _ hm ?_ ?_ ?_ ?_ hv
          · simp [Local.feedLoad, hpc, Pc.inCS]
          · intro _; simp [Local.feedLoad, hpc, wb, wv]
          · intro _; simp [Local.feedLoad, hpc, WInv, hval, nOf]; omega
          · intro hlt
            constructor
            · simp [Local.feedLoad, hpc, RInv]
            · rw [logOf_ne (by simp [Local.feedLoad, hpc])]
              exact LInv_pc (by simp [Local.feedLoad, hpc, Pc.inSnap]) (by simp [Local.feedLoad, hpc])
                (LInv_mono (loadView_ge hv .seq) hlg)
        · simp at hs
    case aV =>
      cases hm : (s.mem (.v (odd (s.thr t).loc.sq)))[ts]? with
      | none => simp [hm] at hs
      | some m =>
        simp only [hm] at hs
        split at hs
        · rename_i hv
          simp at hs; subst hs
          have hlg := hT.lg
          have hh : s.held = some t := hT.lock.1 (by simp [hpc, Pc.inCS])
          have hH := hI.h t hh
          have hw := hH.wpc
          simp only [WInv, hpc] at hw
          refine inv_load hI t ts _ .acq m _ hm ?_ ?_ ?_ ?_ hv
          · simp [Local.feedLoad, hpc, Pc.inCS]
          · intro _; simp [Local.feedLoad, hpc, wb, wv]
          · intro _; simp [Local.feedLoad, hpc, WInv]; exact hw
          · intro hlt
            constructor
            · simp [Local.feedLoad, hpc, RInv]
            · rw [logOf_ne (by simp [Local.feedLoad, hpc])]
              exact LInv_pc (by simp [Local.feedLoad, hpc, Pc.inSnap]) (by simp [Local.feedLoad, hpc])
                (LInv_mono (loadView_ge hv .seq) hlg)
        · simp at hs
    case aB =>
      cases hm : (s.mem (.b (odd (s.thr t).loc.sq)))[ts]? with
      | none => simp [hm] at hs
      | some m =>
        simp only [hm] at hs
        split at hs
        · rename_i hv
          simp at hs; subst hs
          have hlg := hT.lg
          have hh : s.held = some t := hT.lock.1 (by simp [hpc, Pc.inCS])
          have hH := hI.h t hh
          have hw := hH.wpc
          simp only [WInv, hpc] at hw
          have htslt : ts < (s.mem (.b (odd (s.thr t).loc.sq))).length := (List.getElem?_eq_some_iff.mp hm).1
          have hcov := hH.cover (.b (odd (s.thr t).loc.sq))
          have hlen := hH.lenb (odd (s.thr t).loc.sq)
          simp only [hpc, wb, Bool.false_eq_true, false_and, if_false, Nat.add_zero] at hlen
          rw [bit_odd, hw] at hlen
          have htseq : ts = tsOf (nOf s.mem) := by
            rw [hw] at htslt hcov hv; unfold tsOf; omega
          have hcur : ∀ p, s.hist[nOf s.mem]? = some p → p.1 = m.val := by
            intro p hp
            have := (hG.pairs _ p hp).1
            have htseq' : ts = tsOf (s.thr t).loc.sq := by rw [hw]; exact htseq
            rw [← hw, ← htseq', valAt_of_get hm] at this
            simp at this; exact this.symm
          refine inv_load hI t ts _ .acq m _ hm ?_ ?_ ?_ ?_ hv
          · simp only [Local.feedLoad, hpc]; split <;> (try split) <;> simp [Pc.inCS]
          · intro _; simp only [Local.feedLoad, hpc]; split <;> (try split) <;> simp [wb, wv]
          · intro _; simp only [Local.feedLoad, hpc]; split <;> (try split) <;> simp [WInv]
            rename_i h1 h2
            refine ⟨hw, h2, ?_⟩
            intro a b hp
            have := hcur (a, b) hp
            simp at this; omega
          · intro hlt
            have key : ∀ loc' : Local, loc'.pc.inSnap = false → loc'.pc ≠ .retSnap → loc'.pc ≠ .sPanic →
                loc'.pc.inCS = true →
                RInv s.mem (s.start t) (loadView (s.thr t).view (.b (odd (s.thr t).loc.sq)) .acq ts m) loc' ∧
                LInv s.hist (s.start t) (loadView (s.thr t).view (.b (odd (s.thr t).loc.sq)) .acq ts m .seq)
                  (SC.logOf loc' (s.log t)) loc' := by
              intro loc' k1 k2 k3 k4
              constructor
              · unfold RInv; revert k1 k3 k4; cases loc'.pc <;> simp [Pc.inSnap, Pc.inCS]
              · rw [logOf_ne k2]
                exact LInv_pc (by rw [k1]; simp [hpc, Pc.inSnap]) k2 (LInv_mono (loadView_ge hv .seq) hlg)
            simp only [Local.feedLoad, hpc]
            split <;> (try split) <;> exact key _ (by simp [Pc.inSnap]) (by simp) (by simp) (by simp [Pc.inCS])
        · simp at hs
    case aStB => exact inv_step_aStB hI t ts hpc (by simp only [step, Local.next, hpc]; exact hs)
    case aStV => exact inv_step_aStV hI t ts hpc (by simp only [step, Local.next, hpc]; exact hs)
    case aStSeq => exact inv_step_aStSeq hI t ts hpc (by simp only [step, Local.next, hpc]; exact hs)
    case uClear | tClear =>
      simp at hs; subst hs
      have hnsn : (s.thr t).loc.pc.inSnap = false := by simp [hpc, Pc.inSnap]
      refine inv_local hI t (by rfl) (by rfl) (by rfl) (by rfl) ?_ ?_ ?_
      · intro t' ht; simp [upd_ne _ _ _ ht]
      · intro hh
        have hH := hI.h t hh
        simp only [upd_same]
        refine ⟨hH.cover, ?_, ?_, by simp [WInv, Local.feedUnit, hpc]⟩
        · intro o; have := hH.lenb o; simp [hpc, wb, Local.feedUnit] at this ⊢; exact this
        · intro o; have := hH.lenv o; simp [hpc, wv, Local.feedUnit] at this ⊢; exact this
      · simp only [upd_same]
        refine ⟨?_, hT.wfv, RInv_writer (by simp [Local.feedUnit, hpc, Pc.inSnap]) (by simp [Local.feedUnit, hpc]), ?_⟩
        · have := hT.lock; simp [hpc, Pc.inCS] at this; simp [Local.feedUnit, hpc, Pc.inCS, this]
        · exact LInv_pc (by rw [hnsn]; simp [Local.feedUnit, hpc, Pc.inSnap]) (by simp [Local.feedUnit, hpc]) hT.lg
    case uLock =>
      have hnsn : (s.thr t).loc.pc.inSnap = false := by simp [hpc, Pc.inSnap]
      by_cases hn : s.held = none
      · simp [hn] at hs; subst hs
        cases hp : s.poisoned <;>
        exact inv_acquire hI t _ _ hn (by simp [Local.feedLock, hpc, Pc.inCS]) (by simp [Local.feedLock, hpc, wb])
          (by simp [Local.feedLock, hpc, wv]) (by simp [Local.feedLock, hpc, WInv])
          (by simp [Local.feedLock, hpc, Pc.inSnap]) (by simp [Local.feedLock, hpc]) (by simp [Local.feedLock, hpc]) hnsn
      · simp [hn] at hs
    case tTry =>
      have hnsn : (s.thr t).loc.pc.inSnap = false := by simp [hpc, Pc.inSnap]
      by_cases hn : s.held = none
      · simp [hn] at hs; subst hs
        cases hp : s.poisoned <;>
        exact inv_acquire hI t _ _ hn (by simp [Local.feedLock, hpc, Pc.inCS]) (by simp [Local.feedLock, hpc, wb])
          (by simp [Local.feedLock, hpc, wv]) (by simp [Local.feedLock, hpc, WInv])
          (by simp [Local.feedLock, hpc, Pc.inSnap]) (by simp [Local.feedLock, hpc]) (by simp [Local.feedLock, hpc]) hnsn
      · simp [hn] at hs; subst hs
        have hnh : s.held ≠ some t := by
          intro h; have := hT.lock.2 h; simp [hpc, Pc.inCS] at this
        refine inv_local hI t (by rfl) (by rfl) (by rfl) (by rfl) ?_ ?_ ?_
        · intro t' ht; simp [upd_ne _ _ _ ht]
        · intro hh; exact absurd hh hnh
        · simp only [upd_same]
          refine ⟨?_, hT.wfv, RInv_writer (by simp [Local.feedLock, hpc, Pc.inSnap]) (by simp [Local.feedLock, hpc]), ?_⟩
          · simp [Local.feedLock, hpc, Pc.inCS, hnh]
          · exact LInv_pc (by rw [hnsn]; simp [Local.feedLock, hpc, Pc.inSnap]) (by simp [Local.feedLock, hpc]) hT.lg
    case uUnlock | tUnlock | aUnlock | aUnlockPanic =>
      simp at hs; subst hs
      have hh : s.held = some t := hT.lock.1 (by simp [hpc, Pc.inCS])
      exact inv_release hI t _ _ hh (by simp [Local.feedUnit, hpc, Pc.inCS]) (by simp [hpc, wb]) (by simp [hpc, wv])
        (by simp [Local.feedUnit, hpc, Pc.inSnap]) (by simp [Local.feedUnit, hpc]) (by simp [Local.feedUnit, hpc])
        (by simp [hpc, Pc.inSnap])

theorem inv_run (chk : Nat → Nat → Bool) (ls : List Label) : ∀ (s s' : State), Inv chk s →
    run chk s ls = some s' → Inv chk s' := by
  induction ls with
  | nil => intro s s' hI h; simp [run] at h; subst h; exact hI
  | cons l ls ih =>
    intro s s' hI h
    simp only [run] at h
    cases hst : step chk s l with
    | none => simp [hst] at h
    | some s1 => simp [hst] at h; exact ih s1 s' (inv_step chk s s1 l hI hst) h

theorem inv_reachable {chk : Nat → Nat → Bool} {v0 : Nat} (h0 : chk 0 v0 = true) {s : State}
    (h : Reachable chk v0 s) : Inv chk s := by
  obtain ⟨ls, hls⟩ := h
  exact inv_run chk ls _ _ (inv_init chk v0 h0) hls

theorem hist_step (chk : Nat → Nat → Bool) (s s' : State) (l : Label)
    (h : step chk s l = some s') :
    s'.hist = s.hist ∨
    ∃ t ts, l = .run t ts ∧ (s.thr t).loc.pc = .aStSeq ∧
      s'.hist = s.hist ++ [((s.thr t).loc.ub, (s.thr t).loc.uv)] := by
  cases l with
  | sync t u => simp [step] at h; subst h; exact Or.inl rfl
  | start t op =>
    simp only [step] at h
    split at h
    · simp at h; subst h; exact Or.inl rfl
    · simp at h
  | run t ts =>
    simp only [step] at h
    cases hpc : (s.thr t).loc.pc <;> simp only [Local.next, hpc] at h
    case aStSeq =>
      simp at h; subst h
      exact Or.inr ⟨t, ts, rfl, hpc, rfl⟩
    case uLock =>
      by_cases hh : s.held = none <;> simp [hh] at h
      subst h; exact Or.inl rfl
    case tTry =>
      by_cases hh : s.held = none <;> simp [hh] at h <;> (subst h; exact Or.inl rfl)
    case idle | retSnap | retBool | sPanic | aPanic => simp at h
    case sSeq | sSeq2 | aSeq =>
      cases hm : (s.mem .seq)[ts]? <;> simp only [hm] at h
      · simp at h
      · split at h <;> simp at h; subst h; exact Or.inl rfl
    case sV | aV =>
      cases hm : (s.mem (.v (odd (s.thr t).loc.sq)))[ts]? <;> simp only [hm] at h
      · simp at h
      · split at h <;> simp at h; subst h; exact Or.inl rfl
    case sB | aB =>
      cases hm : (s.mem (.b (odd (s.thr t).loc.sq)))[ts]? <;> simp only [hm] at h
      · simp at h
      · split at h <;> simp at h; subst h; exact Or.inl rfl
    all_goals (simp at h; subst h; exact Or.inl rfl)

theorem stale_ignored {chk : Nat → Nat → Bool} {s s' : State} (hI : Inv chk s) (t ts : Nat)
    (hpc : (s.thr t).loc.pc = .aB)
    (cur : Nat × Nat) (hcur : s.hist.getLast? = some cur) (hstale : (s.thr t).loc.ub < cur.1)
    (hs : step chk s (.run t ts) = some s') :
    (s'.thr t).loc.pc = .aUnlock false ∧ s'.mem = s.mem ∧ s'.hist = s.hist ∧
    (s'.thr t).loc.feedUnit.pc = .retBool false := by
  have hT := hI.t t
  have hG := hI.g
  have hh : s.held = some t := hT.lock.1 (by simp [hpc, Pc.inCS])
  have hH := hI.h t hh
  have hw := hH.wpc
  simp only [WInv, hpc] at hw
  have hnlen : (s.mem .seq).length = nOf s.mem + 1 := by have := hG.hpos; simp [nOf]; omega
  have hlast : s.hist.getLast? = s.hist[nOf s.mem]? := by
    rw [List.getLast?_eq_getElem?, hG.hlen, hnlen]; simp
  rw [hlast] at hcur
  simp only [step, Local.next, hpc] at hs
  cases hm : (s.mem (.b (odd (s.thr t).loc.sq)))[ts]? with
  | none => simp [hm] at hs
  | some m =>
    simp only [hm] at hs
    split at hs
    · rename_i hv
      simp at hs; subst hs
      have htslt : ts < (s.mem (.b (odd (s.thr t).loc.sq))).length := (List.getElem?_eq_some_iff.mp hm).1
      have hcov := hH.cover (.b (odd (s.thr t).loc.sq))
      have hlen := hH.lenb (odd (s.thr t).loc.sq)
      simp only [hpc, wb, Bool.false_eq_true, false_and, if_false, Nat.add_zero] at hlen
      rw [bit_odd, hw] at hlen
      have htseq : ts = tsOf (s.thr t).loc.sq := by
        rw [hw] at htslt hcov hv ⊢; unfold tsOf; omega
      have := (hG.pairs _ cur hcur).1
      rw [← hw, ← htseq, valAt_of_get hm] at this
      simp at this
      have hlt : (s.thr t).loc.ub < m.val := by rw [this]; exact hstale
      simp [Local.feedLoad, hpc, hlt, Local.feedUnit]
    · simp at hs

theorem try_nonblocking (chk : Nat → Nat → Bool) (s : State) (t ts : Nat) (hpc : (s.thr t).loc.pc = .tTry) :
    ∃ s', step chk s (.run t ts) = some s' ∧
      (s.held ≠ none → (s'.thr t).loc.pc = .retBool false ∧ s'.mem = s.mem ∧ s'.held = s.held ∧
        s'.hist = s.hist ∧ (s'.thr t).view = (s.thr t).view) := by
  simp only [step, Local.next, hpc]
  by_cases hh : s.held = none
  · simp [hh]
  · simp [hh, Local.feedLock, hpc]

/-- A step is disabled only for: no operation in progress; `update`'s `lock()` while the lock is
held; a load asked to read a timestamp outside `[view, last]`. -/
theorem step_none_iff (chk : Nat → Nat → Bool) (s : State) (t ts : Nat) :
    step chk s (.run t ts) = none ↔
      ((s.thr t).loc.next = .none ∨ ((s.thr t).loc.pc = .uLock ∧ s.held ≠ none) ∨
       ∃ l o, (s.thr t).loc.next = .load l o ∧ ¬ ((s.thr t).view l ≤ ts ∧ ts < (s.mem l).length)) := by
  simp only [step]
  cases hnx : (s.thr t).loc.next with
  | load l o =>
    have hpc : (s.thr t).loc.pc ≠ .uLock := by
      intro h; simp [Local.next, h] at hnx
    cases hm : (s.mem l)[ts]? with
    | none =>
      have : ¬ ts < (s.mem l).length := by
        intro h; rw [List.getElem?_eq_getElem h] at hm; simp at hm
      simp [hm, hpc]; intro _; omega
    | some m =>
      have : ts < (s.mem l).length := (List.getElem?_eq_some_iff.mp hm).1
      by_cases hv : (s.thr t).view l ≤ ts <;> simp [hv, hpc, this]
  | store l o v => simp; intro h; simp [Local.next, h] at hnx
  | lock =>
    have hpc := (next_lock_iff _).1 hnx
    by_cases hh : s.held = none <;> simp [hh, hpc]
  | tryLock =>
    have hpc : (s.thr t).loc.pc ≠ .uLock := by intro h; simp [Local.next, h] at hnx
    by_cases hh : s.held = none <;> simp [hh, hpc]
  | unlock p => simp; intro h; simp [Local.next, h] at hnx
  | clearPoison => simp; intro h; simp [Local.next, h] at hnx
  | none => simp

/-- Own steps a reader still needs, at most, when everybody else is frozen: three per iteration,
and every retry moves `sq` to a strictly newer sequence message. -/
def soloMeasure (s : State) (t : Nat) : Nat :=
  let th := s.thr t
  match th.loc.pc with
  | .sSeq => 3 * (nOf s.mem - th.view .seq) + 4
  | .sV => 3 * (nOf s.mem - th.loc.sq) + 3
  | .sB => 3 * (nOf s.mem - th.loc.sq) + 2
  | .sSeq2 => 3 * (nOf s.mem - th.loc.sq) + 1
  | _ => 0

theorem soloMeasure_pos {s : State} {t : Nat} (h : (s.thr t).loc.pc.inSnap = true) : 0 < soloMeasure s t := by
  simp only [soloMeasure]
  revert h; cases (s.thr t).loc.pc <;> simp [Pc.inSnap]

/-- Every enabled step of a reader strictly decreases the measure, leaves memory alone, and
either returns or stays inside `snapshot`. -/
theorem solo_step {chk : Nat → Nat → Bool} {s s' : State} (hI : Inv chk s) (t ts : Nat)
    (hpc : (s.thr t).loc.pc.inSnap = true) (hs : step chk s (.run t ts) = some s') :
    s'.mem = s.mem ∧ soloMeasure s' t < soloMeasure s t ∧
    ((s'.thr t).loc.pc = .retSnap ∨ (s'.thr t).loc.pc.inSnap = true) := by
  have hI' := inv_step chk s s' _ hI hs
  have hT := hI.t t
  have hG := hI.g
  have hrd := hT.rd
  have hnp := (hI'.t t).rd
  simp only [step] at hs
  simp only [soloMeasure]
  cases hp : (s.thr t).loc.pc <;> simp [hp, Pc.inSnap] at hpc <;> simp only [Local.next, hp] at hs
  case sSeq =>
    cases hm : (s.mem .seq)[ts]? <;> simp only [hm] at hs
    · simp at hs
    · split at hs <;> simp at hs
      subst hs
      rename_i m hv
      have := hG.seqval ts m hm
      have hlt : ts < (s.mem .seq).length := (List.getElem?_eq_some_iff.mp hm).1
      simp [Local.feedLoad, hp, this, Pc.inSnap, nOf]; omega
  case sV =>
    cases hm : (s.mem (.v (odd (s.thr t).loc.sq)))[ts]? <;> simp only [hm] at hs
    · simp at hs
    · split at hs <;> simp at hs
      subst hs
      simp [Local.feedLoad, hp, Pc.inSnap]
  case sB =>
    cases hm : (s.mem (.b (odd (s.thr t).loc.sq)))[ts]? <;> simp only [hm] at hs
    · simp at hs
    · split at hs <;> simp at hs
      subst hs
      simp [Local.feedLoad, hp, Pc.inSnap]
  case sSeq2 =>
    cases hm : (s.mem .seq)[ts]? <;> simp only [hm] at hs
    · simp at hs
    · split at hs <;> simp at hs
      subst hs
      rename_i m hv
      have hval := hG.seqval ts m hm
      have hlt : ts < (s.mem .seq).length := (List.getElem?_eq_some_iff.mp hm).1
      simp only [RInv, hp] at hrd
      obtain ⟨r1, r2, r3⟩ := hrd
      simp only [upd_same] at hnp
      by_cases h1 : (s.thr t).loc.sq = ts
      · by_cases h2 : chk (s.thr t).loc.base (s.thr t).loc.bits = true
        · simp [Local.feedLoad, hp, hval, h1, h2]
        · simp [Local.feedLoad, hp, hval, h1, h2, RInv] at hnp
      · simp [Local.feedLoad, hp, hval, h1, Pc.inSnap, nOf]; omega

theorem solo_bound {chk : Nat → Nat → Bool} (t : Nat) (tss : List Nat) : ∀ (s s' : State), Inv chk s →
    (s.thr t).loc.pc.inSnap = true → run chk s (tss.map (.run t ·)) = some s' →
    (s'.thr t).loc.pc.inSnap = true → tss.length + soloMeasure s' t ≤ soloMeasure s t ∧ s'.mem = s.mem := by
  induction tss with
  | nil => intro s s' _ _ h _; simp [run] at h; subst h; simp
  | cons ts tss ih =>
    intro s s' hI hpc h hpc'
    simp only [List.map_cons, run] at h
    cases hst : step chk s (.run t ts) with
    | none => simp [hst] at h
    | some s1 =>
      simp [hst] at h
      obtain ⟨hmem, hlt, hor⟩ := solo_step hI t ts hpc hst
      rcases hor with hret | hin
      · -- the reader has returned: no further step of `t` is enabled
        exfalso
        cases tss with
        | nil => simp [run] at h; subst h; simp [hret, Pc.inSnap] at hpc'
        | cons ts2 rest =>
          simp only [List.map_cons, run] at h
          have : step chk s1 (.run t ts2) = none := by
            rw [step_none_iff]; left; simp [Local.next, hret]
          simp [this] at h
      · obtain ⟨h1, h2⟩ := ih s1 s' (inv_step chk s s1 _ hI hst) hin h hpc'
        exact ⟨by simp; omega, by rw [h2, hmem]⟩

/-- A reader is never stuck: reading the latest message is always allowed. -/
theorem solo_progress {chk : Nat → Nat → Bool} {s : State} (hI : Inv chk s) (t : Nat)
    (hpc : (s.thr t).loc.pc.inSnap = true) :
    ∃ ts s', step chk s (.run t ts) = some s' := by
  have hT := hI.t t
  obtain ⟨l, o, hnx⟩ := (snapshot_no_lock_aux chk _ hpc).1
  refine ⟨(s.mem l).length - 1, ?_⟩
  have hne : step chk s (.run t ((s.mem l).length - 1)) ≠ none := by
    rw [Ne, step_none_iff]
    intro h
    rcases h with h | ⟨h, _⟩ | ⟨l', o', h, hbad⟩
    · rw [hnx] at h; cases h
    · simp [Local.next, h] at hnx
    · rw [hnx] at h; injection h with h1 h2; subst h1
      apply hbad; have := hT.wfv l; omega
  cases hst : step chk s (.run t ((s.mem l).length - 1)) with
  | none => exact absurd hst hne
  | some s' => exact ⟨s', rfl⟩

theorem retry_publish {chk : Nat → Nat → Bool} {s s' : State} (hI : Inv chk s) (t ts : Nat)
    (hpc : (s.thr t).loc.pc = .sSeq2) (hs : step chk s (.run t ts) = some s')
    (hretry : (s'.thr t).loc.pc = .sV) :
    (s.thr t).loc.sq < ts ∧ ts < (s.mem .seq).length ∧ (s'.thr t).loc.sq = ts ∧ s'.mem = s.mem := by
  have hT := hI.t t
  have hrd := hT.rd
  simp only [RInv, hpc] at hrd
  obtain ⟨r1, r2, r3⟩ := hrd
  simp only [step, Local.next, hpc] at hs
  cases hm : (s.mem .seq)[ts]? <;> simp only [hm] at hs
  · simp at hs
  · split at hs <;> simp at hs
    subst hs
    rename_i m hv
    have hval := hI.g.seqval ts m hm
    have hlt : ts < (s.mem .seq).length := (List.getElem?_eq_some_iff.mp hm).1
    by_cases h1 : (s.thr t).loc.sq = ts
    · by_cases h2 : chk (s.thr t).loc.base (s.thr t).loc.bits = true <;>
        simp [Local.feedLoad, hpc, hval, h1, h2] at hretry
    · simp [Local.feedLoad, hpc, hval, h1]; omega

end Woodpile.Abt.RA

/-! ## Track abt2: statement-strength additions (claim audit gaps 7, 10, 18) -/

namespace Woodpile.Abt.RA

theorem run_append (chk : Nat → Nat → Bool) (l1 l2 : List Label) : ∀ (s : State),
    run chk s (l1 ++ l2) = (match run chk s l1 with | some s1 => run chk s1 l2 | none => none) := by
  induction l1 with
  | nil => intro s; simp [run]
  | cons l ls ih =>
    intro s
    simp only [List.cons_append, run]
    cases step chk s l with
    | none => rfl
    | some s1 => exact ih s1

theorem reachable_run {chk : Nat → Nat → Bool} {v0 : Nat} {s s' : State} (h : Reachable chk v0 s)
    (ls : List Label) (hr : run chk s ls = some s') : Reachable chk v0 s' := by
  obtain ⟨l0, h0⟩ := h
  exact ⟨l0 ++ ls, by rw [run_append, h0]; exact hr⟩

theorem reachable_step {chk : Nat → Nat → Bool} {v0 : Nat} {s s' : State} (h : Reachable chk v0 s)
    (l : Label) (hs : step chk s l = some s') : Reachable chk v0 s' :=
  reachable_run h [l] (by simp [run, hs])

/-- `retry_publish` plus: the sequence message the failed iteration was based on is not older
than the reader's view of `sequence` when the snapshot began, so the newer message `ts` lies
strictly beyond everything that happened-before the start of the snapshot; a retry does not
move `start`. -/
theorem retry_publish_during {chk : Nat → Nat → Bool} {s s' : State} (hI : Inv chk s) (t ts : Nat)
    (hpc : (s.thr t).loc.pc = .sSeq2) (hs : step chk s (.run t ts) = some s')
    (hretry : (s'.thr t).loc.pc = .sV) :
    s.start t ≤ (s.thr t).loc.sq ∧ (s.thr t).loc.sq < ts ∧ ts < (s.mem .seq).length ∧
    (s'.thr t).loc.sq = ts ∧ s'.mem = s.mem ∧ s'.start t = s.start t := by
  obtain ⟨h1, h2, h3, h4⟩ := retry_publish hI t ts hpc hs hretry
  have hrd := (hI.t t).rd
  simp only [RInv, hpc] at hrd
  refine ⟨hrd.1, h1, h2, h3, h4, ?_⟩
  simp only [step, Local.next, hpc] at hs
  cases hm : (s.mem .seq)[ts]? <;> simp only [hm] at hs
  · simp at hs
  · split at hs <;> simp at hs
    subst hs; rfl

/-- The reader `t` run alone for `k` steps: its `j`-th load (counting from `j0`) reads the
message with timestamp `pick j s` (an arbitrary, possibly adversarial, reads-from strategy that
may look at the step number and the whole machine state). -/
def solo (chk : Nat → Nat → Bool) (t : Nat) (pick : Nat → State → Nat) : Nat → Nat → State → Option State
  | _, 0, s => some s
  | j, k + 1, s =>
    match step chk s (.run t (pick j s)) with
    | some s' => solo chk t pick (j + 1) k s'
    | none => none

/-- `pick` only ever proposes messages the reader is allowed to read (at or after its view of
the location, and already written) - in every reachable state in which `t` is inside `snapshot`. -/
def Admissible (chk : Nat → Nat → Bool) (v0 : Nat) (t : Nat) (pick : Nat → State → Nat) : Prop :=
  ∀ (j : Nat) (s : State), Reachable chk v0 s → (s.thr t).loc.pc.inSnap = true →
    ∀ l o, (s.thr t).loc.next = .load l o → (s.thr t).view l ≤ pick j s ∧ pick j s < (s.mem l).length

/-- A solo run is a run of the machine under the schedule "`t`, `k` times". -/
theorem solo_is_run (chk : Nat → Nat → Bool) (t : Nat) (pick : Nat → State → Nat) (k : Nat) :
    ∀ (j : Nat) (s s' : State), solo chk t pick j k s = some s' →
      ∃ tss : List Nat, tss.length = k ∧ run chk s (tss.map (.run t ·)) = some s' := by
  induction k with
  | zero => intro j s s' h; simp [solo] at h; subst h; exact ⟨[], rfl, rfl⟩
  | succ k ih =>
    intro j s s' h
    simp only [solo] at h
    cases hst : step chk s (.run t (pick j s)) with
    | none => simp [hst] at h
    | some s1 =>
      simp only [hst] at h
      obtain ⟨tss, hl, hr⟩ := ih (j + 1) s1 s' h
      exact ⟨pick j s :: tss, by simp [hl], by simp [run, hst, hr]⟩

/-- The strategy "always read the latest message" (what a machine with a single copy of
memory does). -/
def pickLatest (t : Nat) : Nat → State → Nat := fun _ s =>
  match (s.thr t).loc.next with
  | .load l _ => (s.mem l).length - 1
  | _ => 0

theorem pickLatest_admissible {chk : Nat → Nat → Bool} {v0 : Nat} (h0 : chk 0 v0 = true) (t : Nat) :
    Admissible chk v0 t (pickLatest t) := by
  intro j s hs _ l o hnx
  have hT := (inv_reachable h0 hs).t t
  have := hT.wfv l
  simp only [pickLatest, hnx]
  omega

/-- Uniform termination on the view machine: whatever admissible messages the reader is made
to read, it returns within `soloMeasure` own steps, memory untouched. -/
theorem solo_terminates {chk : Nat → Nat → Bool} {v0 : Nat} (h0 : chk 0 v0 = true) (t : Nat)
    (pick : Nat → State → Nat) (hadm : Admissible chk v0 t pick) (m : Nat) :
    ∀ (j : Nat) (s : State), Reachable chk v0 s → (s.thr t).loc.pc.inSnap = true → soloMeasure s t ≤ m →
      ∃ k, k ≤ m ∧ ∃ s', solo chk t pick j k s = some s' ∧ (s'.thr t).loc.pc = .retSnap ∧ s'.mem = s.mem := by
  induction m with
  | zero =>
    intro j s _ hpc hm
    have := soloMeasure_pos hpc
    omega
  | succ m ih =>
    intro j s hs hpc hm
    have hI := inv_reachable h0 hs
    obtain ⟨l, o, hnx⟩ := (snapshot_no_lock_aux chk _ hpc).1
    have ha := hadm j s hs hpc l o hnx
    have hne : step chk s (.run t (pick j s)) ≠ none := by
      rw [Ne, step_none_iff]
      intro h
      rcases h with h | ⟨h, _⟩ | ⟨l', o', h, hbad⟩
      · rw [hnx] at h; cases h
      · simp [Local.next, h] at hnx
      · rw [hnx] at h; injection h with h1 h2; subst h1
        exact hbad ha
    cases hst : step chk s (.run t (pick j s)) with
    | none => exact absurd hst hne
    | some s1 =>
      obtain ⟨hmem, hlt, hor⟩ := solo_step hI t _ hpc hst
      rcases hor with hret | hin
      · exact ⟨1, by omega, s1, by simp [solo, hst], hret, hmem⟩
      · obtain ⟨k, hk, s', hsolo, hret, hmem'⟩ := ih (j + 1) s1 (reachable_step hs _ hst) hin (by omega)
        exact ⟨k + 1, by omega, s', by simp [solo, hst, hsolo], hret, by rw [hmem', hmem]⟩

end Woodpile.Abt.RA

/-! ### Frames, the writers' knowledge, and the bookkeeping laws on the view machine (gap 7) -/
namespace Woodpile.Abt.RA

/-- Everything a step leaves alone or only grows: other threads are untouched, every view
only grows (and a `sync t u` makes `t`'s view cover `u`'s), `start` moves only for a `.start`
(to the caller's view of `sequence`), the argument pair `(ub, uv)` of the call in progress is
fixed by every `run`/`sync` step. -/
structure FrameSpec (s s' : State) (l : Label) : Prop where
  others : ∀ t', t' ≠ actor l → s'.thr t' = s.thr t' ∧ s'.start t' = s.start t'
  views : ∀ t' l', (s.thr t').view l' ≤ (s'.thr t').view l'
  sync : ∀ t u, l = .sync t u → (s'.thr t).loc = (s.thr t).loc ∧ s'.start t = s.start t ∧
      ∀ l', (s.thr u).view l' ≤ (s'.thr t).view l'
  start : ∀ t op, l = .start t op → (s'.thr t).loc = (s.thr t).loc.start op ∧ (s'.thr t).view = (s.thr t).view ∧
      s'.start t = (s.thr t).view .seq ∧ (s.thr t).loc.pc.terminal = true
  run : ∀ t ts, l = .run t ts → (s'.thr t).loc.ub = (s.thr t).loc.ub ∧ (s'.thr t).loc.uv = (s.thr t).loc.uv ∧
      s'.start t = s.start t

theorem views_of_actor {s s' : State} {l : Label} (h1 : ∀ t', t' ≠ actor l → s'.thr t' = s.thr t')
    (h2 : ∀ l', (s.thr (actor l)).view l' ≤ (s'.thr (actor l)).view l') :
    ∀ t' l', (s.thr t').view l' ≤ (s'.thr t').view l' := by
  intro t' l'
  by_cases ht : t' = actor l
  · subst ht; exact h2 l'
  · rw [h1 t' ht]; exact Nat.le_refl _

theorem frame_run_aux (s : State) (t ts : Nat) (th' : Thread) (lg' : Nat → List (Nat × Nat)) (mem' : Loc → List Msg)
    (held' : Option Nat) (p' : Bool) (mv' : View) (hist' : List (Nat × Nat))
    (hv : ∀ l', (s.thr t).view l' ≤ th'.view l') (hub : th'.loc.ub = (s.thr t).loc.ub)
    (huv : th'.loc.uv = (s.thr t).loc.uv) :
    FrameSpec s { s with thr := upd s.thr t th', log := lg', mem := mem', held := held', poisoned := p',
                         mview := mv', hist := hist' } (.run t ts) := by
  refine ⟨?_, ?_, (by intro _ _ h; cases h), (by intro _ _ h; cases h), ?_⟩
  · intro t' ht; simp only [actor] at ht; simp [upd_ne _ _ _ ht]
  · apply views_of_actor (l := .run t ts)
    · intro t' ht; simp only [actor] at ht; simp [upd_ne _ _ _ ht]
    · intro l'; simp only [actor, upd_same]; exact hv l'
  · intro t2 ts2 h; cases h
    simp only [upd_same]; exact ⟨hub, huv, trivial⟩

theorem feedLoad_args (chk : Nat → Nat → Bool) (th : Local) (val : Nat) :
    (th.feedLoad chk val).ub = th.ub ∧ (th.feedLoad chk val).uv = th.uv := by
  obtain ⟨pc, ub, uv, sq, bits, base⟩ := th
  cases pc <;> simp only [Local.feedLoad] <;> (repeat' split) <;> simp

theorem feedLock_args (th : Local) (r : LockRes) : (th.feedLock r).ub = th.ub ∧ (th.feedLock r).uv = th.uv := by
  obtain ⟨pc, ub, uv, sq, bits, base⟩ := th
  cases pc <;> cases r <;> exact ⟨rfl, rfl⟩

theorem feedUnit_args (th : Local) : th.feedUnit.ub = th.ub ∧ th.feedUnit.uv = th.uv := by
  obtain ⟨pc, ub, uv, sq, bits, base⟩ := th
  cases pc <;> exact ⟨rfl, rfl⟩

theorem step_frame {chk : Nat → Nat → Bool} {s s' : State} (hI : Inv chk s) (l : Label) (h : step chk s l = some s') :
    FrameSpec s s' l := by
  cases l with
  | sync t u =>
    simp [step] at h; subst h
    refine ⟨?_, ?_, ?_, (by intro _ _ h; cases h), (by intro _ _ h; cases h)⟩
    · intro t' ht; simp only [actor] at ht; simp [upd_ne _ _ _ ht]
    · apply views_of_actor (l := .sync t u)
      · intro t' ht; simp only [actor] at ht; simp [upd_ne _ _ _ ht]
      · intro l'; simp only [actor, upd_same]; exact join_le_left _ _ _
    · intro t2 u2 h; cases h
      exact ⟨by simp, by simp, fun l' => by simp only [upd_same]; exact join_le_right _ _ _⟩
  | start t op =>
    simp only [step] at h
    split at h
    · rename_i hterm
      simp at h; subst h
      refine ⟨?_, ?_, (by intro _ _ h; cases h), ?_, (by intro _ _ h; cases h)⟩
      · intro t' ht; simp only [actor] at ht; simp [upd_ne _ _ _ ht]
      · apply views_of_actor (l := .start t op)
        · intro t' ht; simp only [actor] at ht; simp [upd_ne _ _ _ ht]
        · intro l'; simp [actor]
      · intro t2 op2 h; cases h
        simp [hterm]
    · simp at h
  | run t ts =>
    simp only [step] at h
    cases hnx : (s.thr t).loc.next <;> simp only [hnx] at h
    case load l o =>
      cases hm : (s.mem l)[ts]? <;> simp only [hm] at h
      · simp at h
      · split at h <;> simp at h
        rename_i m hv
        subst h
        exact frame_run_aux s t ts _ _ _ _ _ _ _ (fun l' => loadView_ge hv l') (feedLoad_args _ _ _).1 (feedLoad_args _ _ _).2
    case store l o val =>
      simp at h; subst h
      refine frame_run_aux s t ts _ _ _ _ _ _ _ ?_ (feedUnit_args _).1 (feedUnit_args _).2
      intro l'
      by_cases hl : l' = l
      · subst hl; simp only [upd_same]
        have := (hI.t t).wfv l'; omega
      · simp [upd_ne _ _ _ hl]
    case lock =>
      split at h <;> simp at h
      subst h
      exact frame_run_aux s t ts _ _ _ _ _ _ _ (fun l' => join_le_left _ _ _) (feedLock_args _ _).1 (feedLock_args _ _).2
    case tryLock =>
      split at h <;> simp at h <;> subst h
      · exact frame_run_aux s t ts _ _ _ _ _ _ _ (fun l' => join_le_left _ _ _) (feedLock_args _ _).1 (feedLock_args _ _).2
      · exact frame_run_aux s t ts _ _ _ _ _ _ _ (fun l' => Nat.le_refl _) (feedLock_args _ _).1 (feedLock_args _ _).2
    case unlock p =>
      simp at h; subst h
      exact frame_run_aux s t ts _ _ _ _ _ _ _ (fun l' => Nat.le_refl _) (feedUnit_args _).1 (feedUnit_args _).2
    case clearPoison =>
      simp at h; subst h
      exact frame_run_aux s t ts _ _ _ _ _ _ _ (fun l' => Nat.le_refl _) (feedUnit_args _).1 (feedUnit_args _).2
    case none => simp at h



theorem hist_ext {chk : Nat → Nat → Bool} {s s' : State} {l : Label} (h : step chk s l = some s') :
    ∃ y, s'.hist = s.hist ++ y := by
  rcases hist_step chk s s' l h with h | ⟨_, _, _, _, h⟩
  · exact ⟨[], by simp [h]⟩
  · exact ⟨_, h⟩

/-- At `aB` the lock holder reads the base time of the most recently published pair, which is
the pair at index `view(sequence)`. -/
theorem aB_reads_current {chk : Nat → Nat → Bool} {s : State} (hI : Inv chk s) (t ts : Nat) (m : Msg)
    (hpc : (s.thr t).loc.pc = .aB) (hm : (s.mem (.b (odd (s.thr t).loc.sq)))[ts]? = some m)
    (hv : (s.thr t).view (.b (odd (s.thr t).loc.sq)) ≤ ts) :
    ∃ p, s.hist[(s.thr t).view .seq]? = some p ∧ p.1 = m.val ∧ s.hist.getLast? = some p := by
  have hT := hI.t t
  have hG := hI.g
  have hh : s.held = some t := hT.lock.1 (by simp [hpc, Pc.inCS])
  have hH := hI.h t hh
  have hw := hH.wpc
  simp only [WInv, hpc] at hw
  have hnlen : (s.mem .seq).length = nOf s.mem + 1 := by have := hG.hpos; simp [nOf]; omega
  have hcs := hH.cover .seq
  have hvs : (s.thr t).view .seq = nOf s.mem := by omega
  have htslt : ts < (s.mem (.b (odd (s.thr t).loc.sq))).length := (List.getElem?_eq_some_iff.mp hm).1
  have hcov := hH.cover (.b (odd (s.thr t).loc.sq))
  have hlen := hH.lenb (odd (s.thr t).loc.sq)
  simp only [hpc, wb, Bool.false_eq_true, false_and, if_false, Nat.add_zero] at hlen
  rw [bit_odd, hw] at hlen
  have htseq : ts = tsOf (s.thr t).loc.sq := by
    rw [hw] at htslt hcov hv ⊢; unfold tsOf; omega
  obtain ⟨p, hp⟩ := hist_get_of_lt hG (k := nOf s.mem) (by omega)
  have := (hG.pairs _ p hp).1
  rw [← hw, ← htseq, valAt_of_get hm] at this
  simp at this
  refine ⟨p, by rw [hvs]; exact hp, this.symm, ?_⟩
  rw [List.getLast?_eq_getElem?, hG.hlen, hnlen]; simpa using hp

theorem uinv_step {chk : Nat → Nat → Bool} {s s' : State} (hI : Inv chk s) (l : Label)
    (hU : ∀ t, UInv s.hist ((s.thr t).view .seq) (s.thr t).loc) (hs : step chk s l = some s') :
    ∀ t, UInv s'.hist ((s'.thr t).view .seq) (s'.thr t).loc := by
  have hF := step_frame hI l hs
  obtain ⟨y, hy⟩ := hist_ext hs
  have hold : ∀ t', (s'.thr t').loc = (s.thr t').loc → UInv s'.hist ((s'.thr t').view .seq) (s'.thr t').loc := by
    intro t' h; rw [h, hy]; exact UInv_mono (hF.views t' .seq) (hU t')
  intro t'
  by_cases ht : t' ≠ actor l
  · exact hold t' (by rw [(hF.others t' ht).1])
  have ht : t' = actor l := Decidable.of_not_not ht
  subst ht
  cases l with
  | sync t u => exact hold t (hF.sync t u rfl).1
  | start t op =>
    simp only [actor]
    rw [(hF.start t op rfl).1]
    cases op <;> simp [UInv, Local.start]
  | run t ts =>
    simp only [actor]
    have hUt := hU t
    have hT := hI.t t
    simp only [step] at hs
    cases hpc : (s.thr t).loc.pc <;> simp only [Local.next, hpc] at hs
    case idle | retSnap | retBool | sPanic | aPanic => simp at hs
    case sSeq | sSeq2 | aSeq =>
      cases hm : (s.mem .seq)[ts]? <;> simp only [hm] at hs
      · simp at hs
      · split at hs <;> simp at hs
        subst hs
        simp only [upd_same, Local.feedLoad, hpc, UInv]
        all_goals (repeat' split)
        all_goals (try trivial)
        all_goals simp_all
    case sV | aV =>
      cases hm : (s.mem (.v (odd (s.thr t).loc.sq)))[ts]? <;> simp only [hm] at hs
      · simp at hs
      · split at hs <;> simp at hs
        subst hs
        simp [upd_same, Local.feedLoad, hpc, UInv]
    case sB =>
      cases hm : (s.mem (.b (odd (s.thr t).loc.sq)))[ts]? <;> simp only [hm] at hs
      · simp at hs
      · split at hs <;> simp at hs
        subst hs
        simp [upd_same, Local.feedLoad, hpc, UInv]
    case aB =>
      cases hm : (s.mem (.b (odd (s.thr t).loc.sq)))[ts]? <;> simp only [hm] at hs
      · simp at hs
      · split at hs <;> simp at hs
        rename_i m hv
        subst hs
        obtain ⟨p, hp1, hp2, _⟩ := aB_reads_current hI t ts m hpc hm hv
        have hge := loadView_ge (o := .acq) (m := m) hv .seq
        simp only [upd_same, Local.feedLoad, hpc]
        by_cases h1 : (s.thr t).loc.ub < m.val
        · simp only [h1, if_true, UInv]
          exact ⟨_, p, hge, hp1, by rw [hp2]; exact h1⟩
        · by_cases h2 : chk (s.thr t).loc.ub (s.thr t).loc.uv = true <;> simp [h1, h2, UInv]
    case aStB | aStV =>
      simp at hs; subst hs
      simp [upd_same, Local.feedUnit, hpc, UInv]
    case aStSeq =>
      simp at hs; subst hs
      simp only [upd_same, Local.feedUnit, hpc, UInv]
      refine ⟨(s.mem .seq).length, Nat.le_refl _, ?_⟩
      rw [← hI.g.hlen]; simp
    case uLock =>
      split at hs <;> simp at hs
      subst hs
      cases s.poisoned <;> simp [upd_same, Local.feedLock, hpc, UInv]
    case tTry =>
      split at hs <;> simp at hs <;> subst hs
      · cases s.poisoned <;> simp [upd_same, Local.feedLock, hpc, UInv]
      · simp [upd_same, Local.feedLock, hpc, UInv]
    case uClear | tClear | uUnlock | tUnlock | aUnlockPanic =>
      simp at hs; subst hs
      simp [upd_same, Local.feedUnit, hpc, UInv]
    case aUnlock r =>
      simp at hs; subst hs
      simp only [hpc, UInv] at hUt
      cases r <;> simp only [upd_same, Local.feedUnit, hpc, UInv]
      exact hUt


/-- A `run` step advances the thread's program by one access. -/
theorem step_succ {chk : Nat → Nat → Bool} {s s' : State} {t ts : Nat} (h : step chk s (.run t ts) = some s') :
    Local.Succ chk (s.thr t).loc (s'.thr t).loc := by
  simp only [step] at h
  cases hnx : (s.thr t).loc.next <;> simp only [hnx] at h
  case load l o =>
    cases hm : (s.mem l)[ts]? <;> simp only [hm] at h
    · simp at h
    · split at h <;> simp at h
      subst h
      simp only [upd_same]
      exact .load l o _ hnx
  case store l o val =>
    simp at h; subst h
    simp only [upd_same]
    exact .unit (by simp [hnx]) (by simp [hnx]) (by simp [hnx]) (by simp [hnx])
  case lock =>
    split at h <;> simp at h
    subst h
    simp only [upd_same]
    exact .lock _ (Or.inl hnx)
  case tryLock =>
    split at h <;> simp at h <;> subst h <;> simp only [upd_same] <;> exact .lock _ (Or.inr hnx)
  case unlock p =>
    simp at h; subst h
    simp only [upd_same]
    exact .unit (by simp [hnx]) (by simp [hnx]) (by simp [hnx]) (by simp [hnx])
  case clearPoison =>
    simp at h; subst h
    simp only [upd_same]
    exact .unit (by simp [hnx]) (by simp [hnx]) (by simp [hnx]) (by simp [hnx])
  case none => simp at h

/-- The release/acquire invariant extended with the writers' knowledge. -/
def Ok (chk : Nat → Nat → Bool) (s : State) : Prop :=
  Inv chk s ∧ ∀ t, UInv s.hist ((s.thr t).view .seq) (s.thr t).loc

theorem ok_init (chk : Nat → Nat → Bool) (v0 : Nat) (h0 : chk 0 v0 = true) : Ok chk (init v0) :=
  ⟨inv_init chk v0 h0, fun t => by simp [UInv, init]⟩

theorem ok_step {chk : Nat → Nat → Bool} {s s' : State} {l : Label} (h : Ok chk s) (hs : step chk s l = some s') :
    Ok chk s' :=
  ⟨inv_step chk s s' l h.1 hs, uinv_step h.1 l h.2 hs⟩

theorem ok_run (chk : Nat → Nat → Bool) (ls : List Label) : ∀ (s s' : State), Ok chk s →
    run chk s ls = some s' → Ok chk s' := by
  induction ls with
  | nil => intro s s' hI h; simp [run] at h; subst h; exact hI
  | cons l ls ih =>
    intro s s' hI h
    simp only [run] at h
    cases hst : step chk s l with
    | none => simp [hst] at h
    | some s1 => simp [hst] at h; exact ih s1 s' (ok_step hI hst) h

theorem ok_reachable {chk : Nat → Nat → Bool} {v0 : Nat} (h0 : chk 0 v0 = true) {s : State}
    (h : Reachable chk v0 s) : Ok chk s := by
  obtain ⟨ls, hls⟩ := h
  exact ok_run chk ls _ _ (ok_init chk v0 h0) hls

theorem laws (chk : Nat → Nat → Bool) : (mach chk).Laws chk (Ok chk) False where
  ok_step := by
    intro s s' l h hs
    exact ok_step (s := s) (s' := s') (l := l) h hs
  others := by
    intro s s' l h hs t' ht
    have := (step_frame (s := s) (s' := s') h.1 l hs).others t' ht
    exact ⟨by show (s'.thr t').loc = (s.thr t').loc; rw [this.1], this.2⟩
  vmono := by
    intro s s' l h hs t'
    exact (step_frame (s := s) (s' := s') h.1 l hs).views t' .seq
  hist_ext := by
    intro s s' l _ hs
    exact hist_ext (s := s) (s' := s') (l := l) hs
  sync := by
    intro s s' t u h hs
    obtain ⟨a, b, c⟩ := (step_frame (s := s) (s' := s') h.1 (.sync t u) hs).sync t u rfl
    exact ⟨a, b, c .seq⟩
  start := by
    intro s s' t op h hs
    obtain ⟨a, b, c, d⟩ := (step_frame (s := s) (s' := s') h.1 (.start t op) hs).start t op rfl
    exact ⟨a, c, by show (s'.thr t).view .seq = (s.thr t).view .seq; rw [b], d⟩
  run := by
    intro s s' t ts h hs
    exact ⟨step_succ (s := s) (s' := s') hs, ((step_frame (s := s) (s' := s') h.1 (.run t ts) hs).run t ts rfl).2.2⟩
  snapRet := by
    intro s t h hpc
    have hpc : (s.thr t).loc.pc = .retSnap := hpc
    obtain ⟨_, k, k1, k2, k3⟩ := (h.1.t t).lg.2.2 hpc
    exact ⟨k, k1, k2, k3⟩
  noPanic := by
    intro s t h hpc
    have hpc : (s.thr t).loc.pc = .sPanic := hpc
    have := (h.1.t t).rd
    simp [RInv, hpc] at this
  uinv := fun h => h.2 _
  sorted := fun h => h.1.g.sorted
  global := fun h => h.elim

end Woodpile.Abt.RA

namespace Woodpile.Abt.RA

/-- The accept direction: when `advance_once` compares (at `aB`) and the argument's base time is
not older than the most recently published one, the call is not ignored: it goes on to the
slot stores if the pair is valid (to the panic path otherwise), whatever message it read. -/
theorem fresh_accepted {chk : Nat → Nat → Bool} {s s' : State} (hI : Inv chk s) (t ts : Nat)
    (hpc : (s.thr t).loc.pc = .aB)
    (cur : Nat × Nat) (hcur : s.hist.getLast? = some cur) (hfresh : cur.1 ≤ (s.thr t).loc.ub)
    (hs : step chk s (.run t ts) = some s') :
    (s'.thr t).loc.pc = (if chk (s.thr t).loc.ub (s.thr t).loc.uv then .aStB else .aUnlockPanic) ∧
    s'.mem = s.mem ∧ s'.hist = s.hist := by
  simp only [step, Local.next, hpc] at hs
  cases hm : (s.mem (.b (odd (s.thr t).loc.sq)))[ts]? with
  | none => simp [hm] at hs
  | some m =>
    simp only [hm] at hs
    split at hs
    · rename_i hv
      simp at hs; subst hs
      obtain ⟨p, _, hp2, hp3⟩ := aB_reads_current hI t ts m hpc hm hv
      rw [hcur] at hp3; cases hp3
      have : ¬ (s.thr t).loc.ub < m.val := by omega
      by_cases h2 : chk (s.thr t).loc.ub (s.thr t).loc.uv = true <;> simp [Local.feedLoad, hpc, this, h2]
    · simp at hs

/-- Once accepted (`aStB`), the call's remaining four steps - two slot stores, the sequence
store, the guard drop - are enabled in every state, and when the thread takes them (others may
be anywhere; nobody else can append while it holds the lock - here it runs alone) it returns
`true` with exactly its pair appended to the history. -/
theorem accepted_completes (chk : Nat → Nat → Bool) (s : State) (t : Nat) (hpc : (s.thr t).loc.pc = .aStB) :
    ∃ s', run chk s (List.replicate 4 (.run t 0)) = some s' ∧ (s'.thr t).loc.pc = .retBool true ∧
      s'.hist = s.hist ++ [((s.thr t).loc.ub, (s.thr t).loc.uv)] ∧ s'.held = none := by
  simp [List.replicate, run, step, Local.next, Local.feedUnit, hpc, upd_same]


theorem mach_run (chk : Nat → Nat → Bool) (ls : List Label) : ∀ s : State, (mach chk).run s ls = run chk s ls := by
  induction ls with
  | nil => intro s; rfl
  | cons l ls ih =>
    intro s
    simp only [run, Mach.run]
    cases step chk s l with
    | none => rfl
    | some s1 => exact ih s1

/-- The bookkeeping invariant holds in every reachable state of the bookkeeping machine. -/
theorem ginv_reachable {chk : Nat → Nat → Bool} {v0 : Nat} (h0 : chk 0 v0 = true) {g : (mach chk).GState}
    (h : GReachable chk v0 g) : (mach chk).GInv chk (Ok chk) False g := by
  obtain ⟨ls, hls⟩ := h
  exact Mach.ginv_run (laws chk) ls _ _ (Mach.ginv_init (ok_init chk v0 h0) (fun _ => rfl)) hls

/-- The bookkeeping restricts nothing: the machine states it reaches are exactly the reachable ones. -/
theorem greachable_iff (chk : Nat → Nat → Bool) (v0 : Nat) (s : State) :
    Reachable chk v0 s ↔ ∃ g : (mach chk).GState, GReachable chk v0 g ∧ g.s = s := by
  constructor
  · rintro ⟨ls, hls⟩
    obtain ⟨g', h1, h2⟩ := Mach.grun_lift (mach chk) ls ((mach chk).ginit (init v0)) s
      ((mach_run chk ls (init v0)).trans hls)
    exact ⟨g', ⟨ls, h1⟩, h2⟩
  · rintro ⟨g, ⟨ls, hls⟩, rfl⟩
    have := Mach.grun_erase (mach chk) ls _ g hls
    exact ⟨ls, (mach_run chk ls (init v0)).symm.trans this⟩

end Woodpile.Abt.RA

namespace Woodpile.Abt.RA

/-- Views only grow along any run. -/
theorem views_run {chk : Nat → Nat → Bool} (ls : List Label) : ∀ (s s' : State), Inv chk s →
    run chk s ls = some s' → ∀ t l, (s.thr t).view l ≤ (s'.thr t).view l := by
  induction ls with
  | nil => intro s s' _ h; simp [run] at h; subst h; intro _ _; exact Nat.le_refl _
  | cons l ls ih =>
    intro s s' hI h t loc
    simp only [run] at h
    cases hst : step chk s l with
    | none => simp [hst] at h
    | some s1 =>
      simp only [hst] at h
      exact Nat.le_trans ((step_frame hI l hst).views t loc) (ih s1 s' (inv_step chk s s1 l hI hst) h t loc)

end Woodpile.Abt.RA

namespace Woodpile.Abt.RA

/-- Own steps a reader still needs when every load reads the LATEST message (what a machine
with a single copy of memory does): the SC measure, with `nOf mem` for the current sequence. -/
def latestMeasure (s : State) (t : Nat) : Nat :=
  let th := (s.thr t).loc
  match th.pc with
  | .sSeq => 4
  | .sV => if th.sq = nOf s.mem then 3 else 6
  | .sB => if th.sq = nOf s.mem then 2 else 5
  | .sSeq2 => if th.sq = nOf s.mem then 1 else 4
  | _ => 0

theorem latestMeasure_le (s : State) (t : Nat) : latestMeasure s t ≤ 6 := by
  simp only [latestMeasure]
  split <;> (try split) <;> omega

theorem latest_step {chk : Nat → Nat → Bool} {s : State} (hI : Inv chk s) (t j : Nat)
    (hpc : (s.thr t).loc.pc.inSnap = true) :
    ∃ s', step chk s (.run t (pickLatest t j s)) = some s' ∧ s'.mem = s.mem ∧
      (((s'.thr t).loc.pc = .retSnap ∧ latestMeasure s t = 1) ∨
       ((s'.thr t).loc.pc.inSnap = true ∧ latestMeasure s' t + 1 = latestMeasure s t)) := by
  have hT := hI.t t
  have hG := hI.g
  have hpos := hG.hpos
  obtain ⟨l, o, hnx⟩ := (snapshot_no_lock_aux chk _ hpc).1
  have hpick : pickLatest t j s = (s.mem l).length - 1 := by simp [pickLatest, hnx]
  have hwf := hT.wfv l
  have hne : step chk s (.run t (pickLatest t j s)) ≠ none := by
    rw [Ne, step_none_iff]
    intro h
    rcases h with h | ⟨h, _⟩ | ⟨l', o', h, hbad⟩
    · rw [hnx] at h; cases h
    · simp [Local.next, h] at hnx
    · rw [hnx] at h; injection h with h1 h2; subst h1
      apply hbad; rw [hpick]; omega
  cases hst : step chk s (.run t (pickLatest t j s)) with
  | none => exact absurd hst hne
  | some s' =>
    refine ⟨s', rfl, (solo_step hI t _ hpc hst).1, ?_⟩
    have hI' := inv_step chk s s' _ hI hst
    have hnp := (hI'.t t).rd
    have hmem := (solo_step hI t _ hpc hst).1
    simp only [step] at hst
    simp only [latestMeasure, hmem]
    cases hp : (s.thr t).loc.pc <;> simp [hp, Pc.inSnap] at hpc <;> simp only [Local.next, hp] at hst hnx
    case sSeq =>
      injection hnx with h1 h2; subst h1
      cases hm : (s.mem .seq)[pickLatest t j s]? <;> simp only [hm] at hst
      · simp at hst
      · split at hst <;> simp at hst
        subst hst
        rename_i m hv
        have := hG.seqval _ m hm
        right
        simp [Local.feedLoad, hp, this, Pc.inSnap, nOf, hpick]
    case sV =>
      cases hm : (s.mem (.v (odd (s.thr t).loc.sq)))[pickLatest t j s]? <;> simp only [hm] at hst
      · simp at hst
      · split at hst <;> simp at hst
        subst hst
        right
        simp [Local.feedLoad, hp, Pc.inSnap]
        split <;> simp
    case sB =>
      cases hm : (s.mem (.b (odd (s.thr t).loc.sq)))[pickLatest t j s]? <;> simp only [hm] at hst
      · simp at hst
      · split at hst <;> simp at hst
        subst hst
        right
        simp [Local.feedLoad, hp, Pc.inSnap]
        split <;> simp
    case sSeq2 =>
      injection hnx with h1 h2; subst h1
      cases hm : (s.mem .seq)[pickLatest t j s]? <;> simp only [hm] at hst
      · simp at hst
      · split at hst <;> simp at hst
        subst hst
        rename_i m hv
        have hval := hG.seqval _ m hm
        simp only [upd_same] at hnp
        by_cases h1 : (s.thr t).loc.sq = pickLatest t j s
        · left
          by_cases h2 : chk (s.thr t).loc.base (s.thr t).loc.bits = true
          · simp [Local.feedLoad, hp, hval, h1, h2, nOf, hpick]
          · simp [Local.feedLoad, hp, hval, h1, h2, RInv] at hnp
        · right
          have : ¬ (s.thr t).loc.sq = nOf s.mem := by rw [hpick] at h1; simpa [nOf] using h1
          simp [Local.feedLoad, hp, hval, h1, Pc.inSnap, this]
          simp [nOf, hpick]

/-- Reading the latest message at every load, the reader returns within 6 own steps - the SC
bound - from any reachable state. -/
theorem latest_terminates {chk : Nat → Nat → Bool} (t : Nat) (m : Nat) : ∀ (j : Nat) (s : State), Inv chk s →
    (s.thr t).loc.pc.inSnap = true → latestMeasure s t = m →
    ∃ s', solo chk t (pickLatest t) j m s = some s' ∧ (s'.thr t).loc.pc = .retSnap ∧ s'.mem = s.mem := by
  induction m with
  | zero =>
    intro j s _ hpc hm
    exfalso
    simp only [latestMeasure] at hm
    cases hp : (s.thr t).loc.pc <;> simp [hp, Pc.inSnap] at hpc <;> simp [hp] at hm <;> (split at hm <;> omega)
  | succ m ih =>
    intro j s hI hpc hm
    obtain ⟨s1, hs1, hmem, h⟩ := latest_step hI t j hpc
    rcases h with ⟨hret, h1⟩ | ⟨hin, h1⟩
    · have : m = 0 := by omega
      subst this
      exact ⟨s1, by simp [solo, hs1], hret, hmem⟩
    · obtain ⟨s', hs', hret, hmem'⟩ := ih (j + 1) s1 (inv_step chk s s1 _ hI hs1) hin (by omega)
      exact ⟨s', by simp [solo, hs1, hs'], hret, by rw [hmem', hmem]⟩

end Woodpile.Abt.RA

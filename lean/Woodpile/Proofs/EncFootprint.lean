/-
C10, streaming footprint of the REAL codec call sequences (track `c10enc`; audit gap 2).

`Proofs/IovecFootprint.lean` bounds the footprint of a free-standing pattern (`Streaming`).  Here the
objects are the runs of `Proofs/EncWorldAnch.lean`: `encPrefixA` (`Encoder::new`, then ANY list of calls
of the full vocabulary `ACall`: `encode` / `encode_copy` of a piece, `encode_read` with any scripted
reader, `consume` / `advance_slices` by any amount) and `decCallsA` (the decoder's).

* World shape (`Solo`): the codec's world holds ONE iovec and nothing else, so the live chunks are the
  chunk of its arena's cache and the chunks held by its anchor deque.
* Decoder (`DPv`): nothing is ever pending, so a drain that takes every slice empties the anchor deque
  (`drain_all`): only the cache's chunk stays live.
* Encoder (`FPv`): between calls exactly one placeholder (the current HCOBS chunk's size header) is
  pending.  The anchor deque splits as `pre ++ A :: tail`, `A` the anchor that counts the slice holding
  the placeholder (`Split`); draining never gets past `A` (`drain_split`), and `tail` — the anchors
  pushed since the placeholder was registered — has at most `3·(cur + mid)` (`+ 1`) elements, `cur` the
  number of bytes of the current HCOBS chunk: a state-machine step appends at most two slices, an
  anchored call one more anchor, and each makes `cur + mid` grow.  At a quiescent point (nothing
  consumable: `stableCount = some 0`) `pre = []`, so the deque has at most `3·(cur + mid) + 2` anchors.
-/
import Woodpile.Proofs.EncWorldCap
import Woodpile.Proofs.DecGlue
import Woodpile.Proofs.DropHist

namespace Woodpile.Iovec
open Woodpile.Arena

/-! ### Lists -/

/-- A duplicate-free list all of whose members lie in `L` is no longer than `L`. -/
theorem nodup_length_le : ∀ (l L : List Nat), l.Nodup → (∀ k ∈ l, k ∈ L) → l.length ≤ L.length
  | [], _, _, _ => Nat.zero_le _
  | a :: t, L, hn, hm => by
    obtain ⟨hat, hnt⟩ := List.nodup_cons.1 hn
    have ha : a ∈ L := hm a (by simp)
    have := nodup_length_le t (L.erase a) hnt (fun k hk => by
      have hne : k ≠ a := fun e => hat (e ▸ hk)
      exact (List.mem_erase_of_ne hne).2 (hm k (by simp [hk])))
    rw [List.length_erase_of_mem ha] at this
    have : 0 < L.length := List.length_pos_of_mem ha
    simp only [List.length_cons]; omega

theorem liveChunks_nodup (w : World) : w.liveChunks.Nodup := by
  unfold World.liveChunks
  exact List.Nodup.sublist List.filter_sublist List.nodup_range

theorem anchorChunks_length_le (as : List Anchor) : (anchorChunks as).length ≤ as.length := by
  unfold anchorChunks
  exact List.length_filterMap_le _ _

theorem arenaChunks_length_le (a : Arena) : (arenaChunks a).length ≤ 1 := by
  unfold arenaChunks; split <;> simp

/-! ### Draining the anchor deque -/

theorem dropZero_of_countSum_zero : ∀ (l : List Anchor), countSum l = 0 → dropZeroAnchors l = []
  | [], _ => rfl
  | a :: t, h => by
    simp only [countSum_cons] at h
    have h0 : a.count = 0 := by omega
    simp only [dropZeroAnchors, h0, if_true]
    exact dropZero_of_countSum_zero t (by omega)

/-- A drain that takes every counted slice leaves (after the zero-count anchors are dropped) nothing. -/
theorem drain_all : ∀ (fuel : Nat) (as : List Anchor) (n : Nat) (as' : List Anchor), countSum as = n →
    drainAnchors fuel as n = some as' → dropZeroAnchors as' = []
  | fuel, as, 0, as', hc, hd => by
    rw [drainAnchors_zeroO] at hd; cases hd
    exact dropZero_of_countSum_zero _ hc
  | 0, as, n + 1, as', _, hd => by simp [drainAnchors] at hd
  | fuel + 1, [], n + 1, as', hc, _ => by simp at hc
  | fuel + 1, a :: rest, n + 1, as', hc, hd => by
    rw [drainAnchors_consO] at hd
    simp only [countSum_cons] at hc
    have hle : a.count ≤ n + 1 := by omega
    rw [if_pos hle] at hd
    exact drain_all fuel rest (n + 1 - a.count) as' (by omega) hd

theorem dropZero_keeps (tail : List Anchor) (A : Anchor) (hA : 0 < A.count) : ∀ (p : List Anchor),
    ∃ p', dropZeroAnchors (p ++ A :: tail) = p' ++ A :: tail ∧ countSum p' = countSum p
  | [] => ⟨[], by simp [dropZeroAnchors]; omega, rfl⟩
  | a :: t => by
    by_cases h0 : a.count = 0
    · obtain ⟨p', h1, h2⟩ := dropZero_keeps tail A hA t
      exact ⟨p', by simp [dropZeroAnchors, h0, h1], by simp [h0, h2]⟩
    · exact ⟨a :: t, by simp [dropZeroAnchors, h0], rfl⟩

/-- The anchor deque, split at the anchor `A` that counts slice number `idx`; `tail` (what was pushed
after `A`) has at most `T` elements. -/
def Split (as : List Anchor) (idx T : Nat) : Prop :=
  ∃ pre A tail, as = pre ++ A :: tail ∧ countSum pre ≤ idx ∧ idx < countSum pre + A.count ∧ tail.length ≤ T

theorem Split.mono {as : List Anchor} {idx T T' : Nat} (h : Split as idx T) (ht : T ≤ T') : Split as idx T' := by
  obtain ⟨pre, A, tail, h1, h2, h3, h4⟩ := h
  exact ⟨pre, A, tail, h1, h2, h3, by omega⟩

/-- A drain of at most `idx` slices never gets past `A`: the tail is untouched. -/
theorem drain_split (tail : List Anchor) (A : Anchor) : ∀ (fuel : Nat) (pre : List Anchor) (n idx : Nat)
    (as' : List Anchor), n ≤ idx → countSum pre ≤ idx → idx < countSum pre + A.count →
    drainAnchors fuel (pre ++ A :: tail) n = some as' →
    ∃ pre' A', dropZeroAnchors as' = pre' ++ A' :: tail ∧ countSum pre' ≤ idx - n ∧
      idx - n < countSum pre' + A'.count ∧ A'.chunk = A.chunk
  | fuel, pre, 0, idx, as', _, h2, h3, hd => by
    rw [drainAnchors_zeroO] at hd; cases hd
    obtain ⟨p', e1, e2⟩ := dropZero_keeps tail A (by omega) pre
    exact ⟨p', A, e1, by omega, by omega, rfl⟩
  | 0, pre, n + 1, idx, as', _, _, _, hd => by simp [drainAnchors] at hd
  | fuel + 1, [], n + 1, idx, as', h1, h2, h3, hd => by
    simp only [List.nil_append, countSum_nil, Nat.zero_add] at hd h3
    rw [drainAnchors_consO, if_neg (by omega)] at hd
    cases hd
    refine ⟨[], { A with count := A.count - (n + 1) }, ?_, by simp, by simp; omega, rfl⟩
    have : ¬ A.count - (n + 1) = 0 := by omega
    simp [dropZeroAnchors, this]
  | fuel + 1, a :: p, n + 1, idx, as', h1, h2, h3, hd => by
    simp only [List.cons_append, countSum_cons] at hd h2 h3
    rw [drainAnchors_consO] at hd
    by_cases hle : a.count ≤ n + 1
    · rw [if_pos hle] at hd
      obtain ⟨pre', A', e1, e2, e3, e4⟩ := drain_split tail A fuel p (n + 1 - a.count) (idx - a.count) as'
        (by omega) (by omega) (by omega) hd
      exact ⟨pre', A', e1, by omega, by omega, e4⟩
    · rw [if_neg hle] at hd
      cases hd
      refine ⟨{ a with count := a.count - (n + 1) } :: p, A, ?_, by simp; omega, by simp; omega, rfl⟩
      have : ¬ a.count - (n + 1) = 0 := by omega
      simp [dropZeroAnchors, this]

/-! ### The decoder's iovec: counts only -/

/-- Nothing pending; the anchors count the slices. -/
structure DPv (v : Iov) : Prop where
  count : countSum v.anchors = v.slices.length
  nopend : v.backrefs = []

theorem optimize_count {v v' : Iov} (h : v.optimize = some v') (hc : countSum v.anchors = v.slices.length) :
    countSum v'.anchors = v'.slices.length ∧ v'.backrefs = v.backrefs ∧ v'.consumedSlices = v.consumedSlices := by
  rcases optimize_spec h with rfl | ⟨ss, l, r, as, a, m, hss, has, ha, _, rfl⟩
  · exact ⟨hc, by simp, by simp⟩
  · rw [hss, has] at hc
    simp only [countSum_append, countSum_cons, countSum_nil, List.length_append, List.length_cons, List.length_nil] at hc ⊢
    exact ⟨by omega, by simp, by simp⟩

theorem copyAnchors_count (as : List Anchor) (chunk : Nat) : countSum (copyAnchors as chunk) = countSum as + 1 := by
  rcases copyAnchors_cases as chunk with ⟨ys, a, has, _, h⟩ | ⟨_, h⟩
  · rw [h, has]; simp; omega
  · rw [h]; simp

theorem pushBorrowedSlice_count {v v' : Iov} {s : Slice} (h : v.pushBorrowedSlice s = some v')
    (hc : countSum v.anchors = v.slices.length) :
    countSum v'.anchors = v'.slices.length ∧ v'.backrefs = v.backrefs ∧ v'.consumedSlices = v.consumedSlices := by
  obtain ⟨_, as, a, hcase, ho⟩ := pushBorrowedSlice_spec h
  have hc1 : countSum (as ++ [{ a with count := a.count + 1 }]) = (v.slices ++ [s]).length := by
    rcases hcase with ⟨hnil, rfl, rfl⟩ | hsnoc
    · have h0 : v.slices.length = 0 := by rw [← hc, hnil]; rfl
      simp only [List.nil_append, countSum_cons, countSum_nil, List.length_append, List.length_cons, List.length_nil]
      omega
    · rw [hsnoc] at hc
      simp only [countSum_append, countSum_cons, countSum_nil, List.length_append, List.length_cons, List.length_nil] at hc ⊢
      omega
  obtain ⟨q1, q2, q3⟩ := optimize_count ho hc1
  exact ⟨q1, q2, q3⟩

theorem consumeSlices_count {v v' : Iov} {count k : Nat} (h : v.consumeSlices count = some (v', k))
    (hc : countSum v.anchors = v.slices.length) : countSum v'.anchors = v'.slices.length := by
  obtain ⟨hk, as1, hd, rfl⟩ := consumeSlices_specO h
  obtain ⟨gone, hz, hsplit⟩ := dropZero_suffix as1
  have h1 : countSum (dropZeroAnchors as1) = countSum as1 := by
    conv => rhs; rw [hsplit]
    rw [countSum_append, countSum_allZero hz]; omega
  have h2 : ∀ (fuel : Nat) (as : List Anchor) (n : Nat) (out : List Anchor), drainAnchors fuel as n = some out →
      countSum out + n = countSum as := by
    intro fuel
    induction fuel with
    | zero =>
      intro as n out hd
      cases n with
      | zero => rw [drainAnchors_zeroO] at hd; cases hd; rfl
      | succ n => simp [drainAnchors] at hd
    | succ fuel ih =>
      intro as n out hd
      cases n with
      | zero => rw [drainAnchors_zeroO] at hd; cases hd; rfl
      | succ n =>
        cases as with
        | nil => simp [drainAnchors] at hd
        | cons a rest =>
          rw [drainAnchors_consO] at hd
          by_cases hle : a.count ≤ n + 1
          · rw [if_pos hle] at hd
            have := ih rest _ out hd
            simp only [countSum_cons]; omega
          · rw [if_neg hle] at hd
            cases hd
            simp only [countSum_cons]; omega
  have := h2 _ _ _ _ hd
  simp only [List.length_drop]
  omega

theorem DPv.consumeSlices {v v' : Iov} {count k : Nat} (hd : DPv v) (h : v.consumeSlices count = some (v', k)) :
    DPv v' := by
  refine ⟨consumeSlices_count h hd.count, ?_⟩
  obtain ⟨_, as1, _, rfl⟩ := consumeSlices_specO h
  exact hd.nopend

/-- The decoder's full drain: `consume(k)` with `k` at least the number of slices leaves no slice and
no anchor. -/
theorem DPv.consume_all {v v' : Iov} {count k : Nat} (hd : DPv v) (hcount : v.slices.length ≤ count)
    (h : v.consumeSlices count = some (v', k)) : v'.slices = [] ∧ v'.anchors = [] := by
  obtain ⟨hk, as1, hdr, rfl⟩ := consumeSlices_specO h
  have hk' : k = v.slices.length := by omega
  refine ⟨by simp [hk'], ?_⟩
  exact drain_all _ _ _ _ (by rw [hd.count, hk']) hdr

/-! ### The encoder's iovec -/

/-- Counts; the front anchor counts a slice; at most one placeholder pending, in a buffered slice `idx`,
and the anchor deque splits at the anchor that counts that slice, with at most `T` anchors after it. -/
structure FPv (T : Nat) (v : Iov) : Prop where
  count : countSum v.anchors = v.slices.length
  headPos : HeadPos v.anchors
  pend : v.backrefs = [] ∨ ∃ e, v.backrefs = [e] ∧ v.consumedSlices ≤ e.2.sliceIndex ∧
    e.2.sliceIndex - v.consumedSlices < v.slices.length ∧ Split v.anchors (e.2.sliceIndex - v.consumedSlices) T

theorem FPv.mono {T T' : Nat} {v : Iov} (h : FPv T v) (ht : T ≤ T') : FPv T' v :=
  ⟨h.count, h.headPos, h.pend.elim Or.inl fun ⟨e, h1, h2, h3, h4⟩ => Or.inr ⟨e, h1, h2, h3, h4.mono ht⟩⟩

/-- Without a pending placeholder the bound on the tail is vacuous. -/
theorem FPv.of_nopend {T T' : Nat} {v : Iov} (h : FPv T v) (hn : v.backrefs = []) : FPv T' v :=
  ⟨h.count, h.headPos, Or.inl hn⟩

/-- `optimize` merges the last two slices: the split survives when the placeholder's slice is not the
last one. -/
theorem optimize_split {v v' : Iov} {idx T : Nat} (h : v.optimize = some v') (hc : countSum v.anchors = v.slices.length)
    (hi : idx + 2 ≤ v.slices.length) (hs : Split v.anchors idx T) : Split v'.anchors idx T := by
  rcases optimize_spec h with rfl | ⟨ss, l, r, as, a, m, hss, has, ha, _, rfl⟩
  · exact hs
  · obtain ⟨pre, A, tail, h1, h2, h3, h4⟩ := hs
    rw [has] at h1 hc
    rw [hss] at hc hi
    simp only [countSum_append, countSum_cons, countSum_nil, List.length_append, List.length_cons, List.length_nil] at hc hi
    rcases List.eq_nil_or_concat tail with rfl | ⟨t0, z, rfl⟩
    · have := List.append_inj' (show as ++ [a] = pre ++ [A] from h1) rfl
      obtain ⟨rfl, hA⟩ := this
      simp only [List.cons.injEq, and_true] at hA
      subst hA
      exact ⟨as, { a with count := a.count - 1 }, [], rfl, h2, by simp only; omega, by simp⟩
    · rw [List.concat_eq_append] at h1 h4
      have e : pre ++ A :: (t0 ++ [z]) = (pre ++ A :: t0) ++ [z] := by simp
      rw [e] at h1
      have := List.append_inj' h1 rfl
      obtain ⟨rfl, hz⟩ := this
      refine ⟨pre, A, t0 ++ [{ a with count := a.count - 1 }], by simp, h2, h3, ?_⟩
      simp only [List.length_append, List.length_cons, List.length_nil] at h4 ⊢
      exact h4

/-- Appending an anchor, or incrementing the last one (what `copy` / `push_borrowed` / `push_anchor` do to
the deque), keeps the split, with one more anchor in the tail at most. -/
theorem Split.snoc {as : List Anchor} {idx T : Nat} (h : Split as idx T) (z : Anchor) : Split (as ++ [z]) idx (T + 1) := by
  obtain ⟨pre, A, tail, h1, h2, h3, h4⟩ := h
  exact ⟨pre, A, tail ++ [z], by rw [h1]; simp, h2, h3, by simp; omega⟩

theorem Split.inc_last {ys : List Anchor} {a : Anchor} {idx T : Nat} (h : Split (ys ++ [a]) idx T) (c : Nat) :
    Split (ys ++ [{ a with count := a.count + c }]) idx T := by
  obtain ⟨pre, A, tail, h1, h2, h3, h4⟩ := h
  rcases List.eq_nil_or_concat tail with rfl | ⟨t0, z, rfl⟩
  · have := List.append_inj' (show ys ++ [a] = pre ++ [A] from h1) rfl
    obtain ⟨rfl, hA⟩ := this
    simp only [List.cons.injEq, and_true] at hA
    subst hA
    exact ⟨ys, _, [], rfl, h2, by simp only; omega, by simp⟩
  · rw [List.concat_eq_append] at h1 h4
    have e : pre ++ A :: (t0 ++ [z]) = (pre ++ A :: t0) ++ [z] := by simp
    rw [e] at h1
    have := List.append_inj' h1 rfl
    obtain ⟨rfl, hz⟩ := this
    refine ⟨pre, A, t0 ++ [{ a with count := a.count + c }], by simp, h2, h3, ?_⟩
    simp only [List.length_append, List.length_cons, List.length_nil] at h4 ⊢
    exact h4

theorem copyAnchors_split {as : List Anchor} {idx T : Nat} (h : Split as idx T) (chunk : Nat) :
    Split (copyAnchors as chunk) idx (T + 1) := by
  rcases copyAnchors_cases as chunk with ⟨ys, a, has, _, hc⟩ | ⟨_, hc⟩
  · rw [hc]; rw [has] at h; exact (h.inc_last 1).mono (by omega)
  · rw [hc]; exact h.snoc _

/-- After `copy` (and `optimize`) the last anchor counts the last slice. -/
theorem split_last {as : List Anchor} {n : Nat} (hc : countSum as = n + 1)
    (hl : ∃ ys a, as = ys ++ [a] ∧ 0 < a.count) : Split as n 0 := by
  obtain ⟨ys, a, rfl, ha⟩ := hl
  simp only [countSum_append, countSum_cons, countSum_nil] at hc
  exact ⟨ys, a, [], rfl, by omega, by omega, by simp⟩

theorem optimize_last_pos {v v' : Iov} (h : v.optimize = some v') (hl : ∃ ys a, v.anchors = ys ++ [a] ∧ 0 < a.count) :
    ∃ ys a, v'.anchors = ys ++ [a] ∧ 0 < a.count := by
  rcases optimize_spec h with rfl | ⟨ss, l, r, as, a, m, _, has, ha, _, rfl⟩
  · exact hl
  · exact ⟨as, _, rfl, by simp only; omega⟩

theorem copyAnchors_last_pos (as : List Anchor) (chunk : Nat) :
    ∃ ys a, copyAnchors as chunk = ys ++ [a] ∧ 0 < a.count := by
  rcases copyAnchors_cases as chunk with ⟨ys, a, _, _, hc⟩ | ⟨_, hc⟩
  · exact ⟨ys, _, hc, by simp⟩
  · exact ⟨as, _, hc, by simp⟩

/-- The iovec after the `copy` half of `push_copy` / `register_patch` (before `optimize`). -/
theorem FPv.copied {T : Nat} {v : Iov} (h : FPv T v) (s : Slice) (chunk ls : Nat) (ar : Arena) {v2 : Iov}
    (ho : Iov.optimize { v with slices := v.slices ++ [s], anchors := copyAnchors v.anchors chunk,
                                logicalSize := ls, arena := ar } = some v2) :
    FPv (T + 1) v2 ∧ v2.backrefs = v.backrefs ∧ v2.consumedSlices = v.consumedSlices ∧
      (∃ ys a, v2.anchors = ys ++ [a] ∧ 0 < a.count) ∧ 0 < v2.slices.length := by
  have hc1 : countSum (copyAnchors v.anchors chunk) = (v.slices ++ [s]).length := by
    rw [copyAnchors_count, h.count]; simp
  obtain ⟨hc2, hb, hcs⟩ := optimize_count ho hc1
  simp only at hb hcs
  have hlast := optimize_last_pos ho (copyAnchors_last_pos v.anchors chunk)
  have hpos : 0 < v2.slices.length := by
    obtain ⟨ys, a, e, ha⟩ := hlast
    rw [← hc2, e]; simp; omega
  refine ⟨⟨hc2, optimize_headPos (copyAnchors_headPos h.headPos chunk) ho, ?_⟩, hb, hcs, hlast, hpos⟩
  rcases h.pend with h0 | ⟨e, h1, h2, h3, h4⟩
  · exact Or.inl (by rw [hb]; exact h0)
  · refine Or.inr ⟨e, by rw [hb]; exact h1, by rw [hcs]; exact h2, ?_, ?_⟩
    · rw [hcs, ← hc2]
      have := optimize_split ho hc1 (idx := e.2.sliceIndex - v.consumedSlices) (by simp; omega)
        (copyAnchors_split h4 chunk)
      obtain ⟨pre, A, tail, q1, q2, q3, _⟩ := this
      rw [q1]; simp only [countSum_append, countSum_cons]; omega
    · rw [hcs]
      exact optimize_split ho hc1 (by simp; omega) (copyAnchors_split h4 chunk)

theorem FPv.pushBorrowedSlice {T : Nat} {v v' : Iov} {s : Slice} (h : FPv T v) (hp : v.pushBorrowedSlice s = some v') :
    FPv T v' := by
  obtain ⟨_, as, a, hcase, ho⟩ := pushBorrowedSlice_spec hp
  obtain ⟨hc2, hb, hcs⟩ := pushBorrowedSlice_count hp h.count
  refine ⟨hc2, (pushBorrowedSlice_headPos h.headPos hp).1, ?_⟩
  rcases h.pend with h0 | ⟨e, h1, h2, h3, h4⟩
  · exact Or.inl (by rw [hb]; exact h0)
  · have hne : v.anchors ≠ [] := by
      obtain ⟨pre, A, tail, q1, _⟩ := h4
      rw [q1]; simp
    rcases hcase with ⟨hnil, _, _⟩ | hsnoc
    · exact absurd hnil hne
    · have hc1 : countSum (as ++ [{ a with count := a.count + 1 }]) = (v.slices ++ [s]).length := by
        have := h.count
        rw [hsnoc] at this
        simp at this ⊢; omega
      have hsp : Split (as ++ [{ a with count := a.count + 1 }]) (e.2.sliceIndex - v.consumedSlices) T := by
        rw [hsnoc] at h4; exact h4.inc_last 1
      have hsp2 := optimize_split ho hc1 (by simp; omega) hsp
      refine Or.inr ⟨e, by rw [hb]; exact h1, by rw [hcs]; exact h2, ?_, by rw [hcs]; exact hsp2⟩
      rw [hcs, ← hc2]
      obtain ⟨pre, A, tail, q1, q2, q3, _⟩ := hsp2
      rw [q1]; simp only [countSum_append, countSum_cons]; omega

theorem FPv.pushAnchor {T : Nat} {v : Iov} (h : FPv T v) (hne : v.anchors ≠ []) (z : Anchor) :
    FPv (T + 1) { v with anchors := v.anchors ++ [{ z with count := 0 }] } := by
  refine ⟨by simp [h.count], h.headPos.append hne _, ?_⟩
  rcases h.pend with h0 | ⟨e, h1, h2, h3, h4⟩
  · exact Or.inl h0
  · exact Or.inr ⟨e, h1, h2, h3, h4.snoc _⟩

theorem FPv.consumeSlices {T : Nat} {v v' : Iov} {count k n : Nat} (h : FPv T v) (hst : v.stableCount = some n)
    (hle : count ≤ n) (hc : v.consumeSlices count = some (v', k)) : FPv T v' := by
  have hcount := consumeSlices_count hc h.count
  obtain ⟨hk, as1, hd, rfl⟩ := consumeSlices_specO hc
  refine ⟨hcount, headPos_dropZero _, ?_⟩
  rcases h.pend with h0 | ⟨e, h1, h2, h3, h4⟩
  · exact Or.inl h0
  · have hn : n = e.2.sliceIndex - v.consumedSlices := by
      simp only [Iov.stableCount, h1, List.head?_cons] at hst
      rw [if_neg (by omega)] at hst
      simp only [Option.some.injEq] at hst
      omega
    obtain ⟨pre, A, tail, q1, q2, q3, q4⟩ := h4
    rw [q1] at hd
    obtain ⟨pre', A', r1, r2, r3, _⟩ := drain_split tail A _ pre k _ as1 (by omega) q2 q3 hd
    refine Or.inr ⟨e, h1, by simp only; omega, ?_, ?_⟩
    · simp only [List.length_drop]; omega
    · simp only
      have e1 : e.2.sliceIndex - (v.consumedSlices + k) = e.2.sliceIndex - v.consumedSlices - k := by omega
      rw [e1]
      exact ⟨pre', A', tail, r1, r2, r3, q4⟩

/-- At a quiescent point — nothing consumable — the anchor deque is `A :: tail`. -/
theorem FPv.quiescent {T : Nat} {v : Iov} (h : FPv T v) (hne : v.backrefs ≠ []) (hq : v.stableCount = some 0) :
    v.anchors.length ≤ T + 1 := by
  rcases h.pend with h0 | ⟨e, h1, h2, h3, pre, A, tail, q1, q2, q3, q4⟩
  · exact absurd h0 hne
  · have hidx : e.2.sliceIndex - v.consumedSlices = 0 := by
      simp only [Iov.stableCount, h1, List.head?_cons] at hq
      rw [if_neg (by omega)] at hq
      simp only [Option.some.injEq] at hq
      omega
    rw [hidx] at q2
    have hpre : pre = [] := by
      cases pre with
      | nil => rfl
      | cons a t =>
        have := h.headPos a (by rw [q1]; rfl)
        simp only [countSum_cons] at q2; omega
    rw [q1, hpre]; simp; omega

end Woodpile.Iovec

namespace Woodpile.Iovec
open Woodpile.Arena

/-! ### `advance_slices` on the encoder's iovec -/

theorem foldl_lens_cons (s : Slice) (rest : List Slice) (n : Nat) :
    (((s :: rest).take (n + 1)).map (·.len)).foldl (· + ·) 0 = s.len + ((rest.take n).map (·.len)).foldl (· + ·) 0 := by
  rw [foldl_add_eq_sum, foldl_add_eq_sum]; simp

theorem stable_idx_pend {v : Iov} {e : Nat × BackrefInfo} (hb : v.backrefs = [e])
    (h2 : v.consumedSlices ≤ e.2.sliceIndex) (h3 : e.2.sliceIndex - v.consumedSlices < v.slices.length) :
    v.stableCount = some (e.2.sliceIndex - v.consumedSlices) := by
  simp only [Iov.stableCount, hb, List.head?_cons]
  rw [if_neg (by omega)]
  congr 1; omega

/-- `consume_by_bytes` of at most the stable bytes never reaches the placeholder's slice. -/
theorem FPv.consumeBytes {T : Nat} {e : Nat × BackrefInfo} : ∀ (fuel : Nat) (v : Iov) (count consumed : Nat) (v' : Iov) (c : Nat),
    FPv T v → v.backrefs = [e] →
    count - consumed ≤ ((v.slices.take (e.2.sliceIndex - v.consumedSlices)).map (·.len)).foldl (· + ·) 0 →
    Iov.consumeBytes fuel v count consumed = some (v', c) → FPv T v' ∧ v'.backrefs = [e] := by
  intro fuel
  induction fuel with
  | zero =>
    intro v count consumed v' c h hb _ hc
    simp only [Iov.consumeBytes, Option.some.injEq, Prod.mk.injEq] at hc
    rw [← hc.1]; exact ⟨h, hb⟩
  | succ fuel ih =>
    intro v count consumed v' c h hb hbud hc
    unfold Iov.consumeBytes at hc
    split at hc
    · simp only [Option.some.injEq, Prod.mk.injEq] at hc
      rw [← hc.1]; exact ⟨h, hb⟩
    · rename_i hlt
      rcases h.pend with h0 | ⟨e', h1, h2, h3, h4⟩
      · rw [hb] at h0; cases h0
      · rw [hb] at h1; cases h1
        split at hc
        · cases hc
        · rename_i s rest hs
          simp only at hc
          have hidx : 1 ≤ e.2.sliceIndex - v.consumedSlices := by
            rcases Nat.eq_zero_or_pos (e.2.sliceIndex - v.consumedSlices) with h0 | hp
            · rw [h0] at hbud; simp at hbud; omega
            · exact hp
          split at hc
          · rename_i hfull
            split at hc
            · cases hc
            · rename_i v1 k1 hc1
              have hst := stable_idx_pend hb h2 h3
              have hf1 := h.consumeSlices hst hidx hc1
              obtain ⟨hk, as1, _, hv1⟩ := consumeSlices_specO hc1
              have hk1 : k1 = 1 := by rw [hk, hs]; simp
              subst hk1
              have hb1 : v1.backrefs = [e] := by rw [hv1]; exact hb
              have hcs1 : v1.consumedSlices = v.consumedSlices + 1 := by rw [hv1]
              have hsl1 : v1.slices = rest := by rw [hv1, hs]; rfl
              refine ih v1 count _ v' c hf1 hb1 ?_ hc
              rw [hcs1, hsl1]
              have e1 : e.2.sliceIndex - v.consumedSlices = (e.2.sliceIndex - (v.consumedSlices + 1)) + 1 := by omega
              rw [e1, hs, foldl_lens_cons] at hbud
              omega
          · simp only [Option.some.injEq, Prod.mk.injEq] at hc
            rw [← hc.1]
            refine ⟨⟨?_, h.headPos, Or.inr ⟨e, hb, h2, ?_, h4⟩⟩, hb⟩
            · rw [h.count, hs]; rfl
            · rw [hs] at h3; exact h3

/-! ### The codec's world: one iovec, nothing else -/

structure Solo (i : Nat) (w : World) : Prop where
  onlyIov : ∀ j, j ≠ i → w.iov j = none
  noArena : ∀ j, w.arena j = none
  noASlice : ∀ j, w.aslice j = none

theorem Solo.of_same {i : Nat} {w w' : World} (h : Solo i w) (hi : ∀ j, j ≠ i → w'.iov j = w.iov j)
    (ha : ∀ j, w'.arena j = w.arena j) (hs : ∀ j, w'.aslice j = w.aslice j) : Solo i w' :=
  ⟨fun j hj => by rw [hi j hj]; exact h.onlyIov j hj, fun j => by rw [ha]; exact h.noArena j,
   fun j => by rw [hs]; exact h.noASlice j⟩

theorem Solo.setIov {i : Nat} {w : World} (h : Solo i w) (x : Option Iov) : Solo i (w.setIov i x) :=
  h.of_same (fun j hj => by simp [hj]) (fun _ => rfl) (fun _ => rfl)

theorem Solo.with_heap_next {i : Nat} {w : World} (h : Solo i w) (hp : Heap) (n : Nat) :
    Solo i { w with heap := hp, next := n } :=
  h.of_same (fun _ _ => rfl) (fun _ => rfl) (fun _ => rfl)

theorem Solo.with_heap {i : Nat} {w : World} (h : Solo i w) (hp : Heap) : Solo i { w with heap := hp } :=
  h.of_same (fun _ _ => rfl) (fun _ => rfl) (fun _ => rfl)

theorem iov_set_heap_next (w : World) (i : Nat) (x : Iov) (hp : Heap) (n : Nat) :
    ({ (w.setIov i (some x)) with heap := hp, next := n } : World).iov i = some x :=
  (iov_with_heap_next _ _ _ _).trans (by simp)

theorem iov_set_heap (w : World) (i : Nat) (x : Iov) (hp : Heap) :
    ({ (w.setIov i (some x)) with heap := hp } : World).iov i = some x :=
  (iov_with_heap _ _ _).trans (by simp)

theorem solo_fresh (pol : Policy) (tun : Tuning) : Solo 0 (Woodpile.EncWorld.World.fresh pol tun) := by
  refine ⟨?_, ?_, ?_⟩
  · intro j hj
    simp only [Woodpile.EncWorld.World.fresh, iov_addIov]
    rw [if_neg (by simpa [World.init] using hj)]
    simp [World.init, World.iov]
  · intro j; simp [Woodpile.EncWorld.World.fresh, World.init, World.arena, World.addIov]
  · intro j; simp [Woodpile.EncWorld.World.fresh, World.init, World.aslice, World.addIov]

/-- In a solo world the live chunks are the cache's chunk and the chunks of the anchor deque. -/
theorem Solo.live {i : Nat} {w : World} {v : Iov} (h : Solo i w) (hv : w.iov i = some v) :
    ∀ k ∈ w.liveChunks, k ∈ arenaChunks v.arena ++ anchorChunks v.anchors := by
  intro k hk
  obtain ⟨_, ⟨j, v', hv', hh⟩ | ⟨j, a, ha, _⟩ | ⟨j, s, hs, _⟩⟩ := mem_liveChunks.1 hk
  · have hj : j = i := by
      apply Classical.byContradiction; intro hne; rw [h.onlyIov j hne] at hv'; cases hv'
    subst hj; rw [hv] at hv'; cases hv'
    simp only [List.mem_append]; exact hh
  · rw [h.noArena j] at ha; cases ha
  · rw [h.noASlice j] at hs; cases hs

theorem Solo.live_length {i : Nat} {w : World} {v : Iov} (h : Solo i w) (hv : w.iov i = some v) :
    w.liveChunks.length ≤ 1 + v.anchors.length := by
  have := nodup_length_le _ _ (liveChunks_nodup w) (h.live hv)
  have h1 := arenaChunks_length_le v.arena
  have h2 := anchorChunks_length_le v.anchors
  simp only [List.length_append] at this
  omega

/-- Dropping the codec (`Encoder` / `Decoder` / `StreamReader` = dropping its iovec, arena included)
releases everything. -/
theorem Solo.drop_releases {i : Nat} {w : World} {v : Iov} (h : Solo i w) (hv : w.iov i = some v) :
    ∃ w', w.step (.drop i) = some w' ∧ w'.liveChunks = [] := by
  refine ⟨w.setIov i none, by simp [World.step, World.dropIov, hv], ?_⟩
  refine liveChunks_nil_of_no_objects ?_ (fun j => by simpa using h.noArena j) (fun j => by simpa using h.noASlice j)
  intro j
  simp only [iov_setIov]
  split
  · rfl
  · rename_i hj; exact h.onlyIov j hj

/-- The encoder's world: solo; the iovec satisfies `FPv T`; its pending placeholders are `B`. -/
def FPB (i T : Nat) (B : List (Nat × BackrefInfo)) (w : World) : Prop :=
  Solo i w ∧ ∃ v, w.iov i = some v ∧ FPv T v ∧ v.backrefs = B

theorem FPB.mono {i T T' : Nat} {B : List (Nat × BackrefInfo)} {w : World} (h : FPB i T B w) (ht : T ≤ T') :
    FPB i T' B w := by
  obtain ⟨hs, v, hv, hf, hb⟩ := h
  exact ⟨hs, v, hv, hf.mono ht, hb⟩

theorem FPB.pushCopy {i T : Nat} {B : List (Nat × BackrefInfo)} {w w' : World} {bs : List UInt8} (h : FPB i T B w)
    (hp : w.pushCopy i bs = some w') : FPB i (T + 1) B w' := by
  obtain ⟨hs, v, hv, hf, hb⟩ := h
  obtain ⟨v0, hv0, ⟨_, rfl⟩ | ⟨_, arena', next', chunk, off, v2, _, ho, rfl⟩⟩ := pushCopy_spec hp
  · exact ⟨hs, v, hv, hf.mono (by omega), hb⟩
  · rw [hv] at hv0; cases hv0
    obtain ⟨hf2, hb2, _, _, _⟩ := hf.copied _ chunk _ arena' ho
    exact ⟨(hs.setIov _).with_heap_next _ _, v2, iov_set_heap_next .., hf2, by rw [hb2, hb]⟩

theorem FPB.pushBorrowed {i T : Nat} {B : List (Nat × BackrefInfo)} {w w' : World} {s : Slice} (h : FPB i T B w)
    (hp : w.pushBorrowed i s = some w') : FPB i (T + 1) B w' := by
  obtain ⟨hs, v, hv, hf, hb⟩ := h
  obtain ⟨v0, hv0, ⟨_, rfl⟩ | ⟨_, v', hpb, rfl⟩⟩ := pushBorrowed_spec hp
  · exact ⟨hs, v, hv, hf.mono (by omega), hb⟩
  · rw [hv] at hv0; cases hv0
    refine ⟨hs.setIov _, v', by simp, (hf.pushBorrowedSlice hpb).mono (by omega), ?_⟩
    rw [(pushBorrowedSlice_count hpb hf.count).2.1, hb]

theorem FPB.push {i T : Nat} {B : List (Nat × BackrefInfo)} {w w' : World} {s : Slice} (h : FPB i T B w)
    (hp : w.push i s = some w') : FPB i (T + 1) B w' := by
  rcases push_cases hp with h1 | h1
  · exact h.pushCopy h1
  · exact h.pushBorrowed h1

/-- `register_patch` (non-empty pattern) with nothing pending: the new placeholder sits in the last
slice, counted by the last anchor; no anchor after it. -/
theorem FPB.registerPatch {i T : Nat} {w w' : World} {pat : List UInt8} {b : Backref} (h : FPB i T [] w)
    (hne : pat ≠ []) (hp : w.registerPatch i pat = some (w', b)) : ∃ e, FPB i 0 [e] w' := by
  obtain ⟨hs, v, hv, hf, hb⟩ := h
  rcases registerPatch_spec hp with ⟨he, _, _⟩ | ⟨_, w1, v1, last, hpc, hv1, _, _, _, _, rfl⟩
  · exact absurd he hne
  · obtain ⟨v0, hv0, ⟨he, _⟩ | ⟨_, arena', next', chunk, off, v2, _, ho, rfl⟩⟩ := pushCopy_spec hpc
    · exact absurd he hne
    · rw [hv] at hv0; cases hv0
      simp only [iov_with_heap_next, iov_setIov, if_true, Option.some.injEq] at hv1
      subst hv1
      obtain ⟨hf2, hb2, _, hlast, hpos⟩ := hf.copied _ chunk _ arena' ho
      rw [hb] at hb2
      have hbe : ∀ x : Nat × BackrefInfo, v2.backrefs ++ [x] = [x] := fun x => by rw [hb2]; rfl
      refine ⟨(v2.logicalSize, ⟨v2.consumedSlices + v2.slices.length - 1, last.len - pat.length, pat.length⟩),
        ((hs.setIov _).with_heap_next _ _).setIov _,
        { v2 with backrefs := v2.backrefs ++
          [(v2.logicalSize, ⟨v2.consumedSlices + v2.slices.length - 1, last.len - pat.length, pat.length⟩)] },
        by simp, ⟨hf2.count, hf2.headPos, Or.inr ⟨_, hbe _, ?_, ?_, ?_⟩⟩, hbe _⟩
      · simp only; omega
      · simp only; omega
      · simp only
        have e1 : v2.consumedSlices + v2.slices.length - 1 - v2.consumedSlices = v2.slices.length - 1 := by omega
        rw [e1]
        exact split_last (by rw [hf2.count]; omega) hlast

/-- `backfill` of a non-empty token: the pending placeholder is gone. -/
theorem FPB.backfill {i T T' : Nat} {e : Nat × BackrefInfo} {w w' : World} {b : Backref} {src : List UInt8}
    (h : FPB i T [e] w) (hne : src ≠ []) (hp : w.backfill i b src = some w') : FPB i T' [] w' := by
  obtain ⟨hs, v, hv, hf, hb⟩ := h
  obtain ⟨v0, hv0, ⟨_, he, _⟩ | ⟨key, info, target, k, _, _, hmem, _, _, _, _, rfl⟩⟩ := backfill_spec hp
  · exact absurd he hne
  · rw [hv] at hv0; cases hv0
    rw [hb] at hmem
    simp only [List.mem_singleton] at hmem
    have hfil : v.backrefs.filter (·.1 ≠ key) = [] := by
      rw [hb, ← hmem]; simp
    exact ⟨(hs.setIov _).with_heap _, _, iov_set_heap .., ⟨hf.count, hf.headPos, Or.inl hfil⟩, hfil⟩

theorem FPB.addExt {i T : Nat} {B : List (Nat × BackrefInfo)} {w : World} (h : FPB i T B w) (d : List UInt8) :
    FPB i T B (w.addExt d).1 := by
  obtain ⟨hs, v, hv, hf, hb⟩ := h
  exact ⟨hs.of_same (fun _ _ => rfl) (fun _ => rfl) (fun _ => rfl), v, hv, hf, hb⟩

theorem FPB.consume {i T : Nat} {B : List (Nat × BackrefInfo)} {w w' : World} {count k : Nat} (h : FPB i T B w)
    (hc : w.consume i count = some (w', k)) : FPB i T B w' := by
  obtain ⟨hs, v, hv, hf, hb⟩ := h
  obtain ⟨v0, n, v', hv0, hst, hcs, rfl⟩ := consume_spec hc
  rw [hv] at hv0; cases hv0
  refine ⟨hs.setIov _, v', by simp, hf.consumeSlices hst (Nat.min_le_right _ _) hcs, ?_⟩
  obtain ⟨_, as1, _, rfl⟩ := consumeSlices_specO hcs
  exact hb

theorem FPB.advance {i T : Nat} {e : Nat × BackrefInfo} {w w' : World} {count c : Nat} (h : FPB i T [e] w)
    (hc : w.advance i count = some (w', c)) : FPB i T [e] w' := by
  obtain ⟨hs, v, hv, hf, hb⟩ := h
  unfold World.advance at hc
  rw [hv] at hc
  simp only at hc
  rcases hf.pend with h0 | ⟨e', h1, h2, h3, h4⟩
  · rw [hb] at h0; cases h0
  · rw [hb] at h1; cases h1
    rw [stable_idx_pend hb h2 h3] at hc
    simp only at hc
    split at hc
    · cases hc
    · rename_i v' c' hcb
      simp only [Option.some.injEq, Prod.mk.injEq] at hc
      obtain ⟨rfl, _⟩ := hc
      obtain ⟨hf', hb'⟩ := FPv.consumeBytes _ v _ 0 v' c' hf hb (by simp; exact Nat.min_le_right _ _) hcb
      exact ⟨hs.setIov _, v', by simp, hf', hb'⟩

theorem FPB.pushAnchor {i T : Nat} {e : Nat × BackrefInfo} {w w' : World} {a : Anchor} (h : FPB i T [e] w)
    (hp : w.pushAnchor i a = some w') : FPB i (T + 1) [e] w' := by
  obtain ⟨hs, v, hv, hf, hb⟩ := h
  unfold World.pushAnchor at hp
  rw [hv] at hp
  simp only [Option.some.injEq] at hp
  subst hp
  have hne : v.anchors ≠ [] := by
    rcases hf.pend with h0 | ⟨e', _, _, _, pre, A, tail, q1, _⟩
    · rw [hb] at h0; cases h0
    · rw [q1]; simp
  exact ⟨hs.setIov _, _, by simp, hf.pushAnchor hne a, hb⟩

end Woodpile.Iovec

namespace Woodpile.EncWorld
open Woodpile.Hcobs Woodpile.Iovec Woodpile.Arena
open Woodpile.Hcobs.EncProof

/-! ### The encoder, step by step -/

/-- Bytes of the current HCOBS chunk the state machine has accepted (a held-back `FE` included). -/
def cm (s : EncState) : Nat := s.cur + (if s.mid then 1 else 0)

theorem applyEmit_append_fpb {i T : Nat} {B : List (Nat × BackrefInfo)} {w w' : World} {toks toks' : List Backref}
    {e : Emit} {src : Slice} (he : ∃ bs, e.op = .append bs) (h : FPB i T B w)
    (ha : applyEmit w i toks e src = some (w', toks')) : FPB i (T + 1) B w' := by
  obtain ⟨op, m⟩ := e
  obtain ⟨bs, hbs⟩ := he
  simp only at hbs
  subst hbs
  cases m with
  | copy =>
    simp only [applyEmit, Option.map_eq_some_iff, Prod.mk.injEq] at ha
    obtain ⟨w1, h1, rfl, _⟩ := ha
    exact h.pushCopy h1
  | borrow =>
    simp only [applyEmit, Option.map_eq_some_iff, Prod.mk.injEq] at ha
    obtain ⟨w1, h1, rfl, _⟩ := ha
    exact h.push h1

theorem applyStep_appends_fpb {i : Nat} {B : List (Nat × BackrefInfo)} {src : Slice} (A : List Emit)
    (hA : ∀ e ∈ A, ∃ bs, e.op = .append bs) : ∀ {T : Nat} {w w' : World} {toks toks' : List Backref},
    FPB i T B w → applyStep w i toks A src = some (w', toks') → FPB i (T + A.length) B w' := by
  induction A with
  | nil =>
    intro T w w' toks toks' h ha
    simp only [applyStep, Option.some.injEq, Prod.mk.injEq] at ha
    rw [← ha.1]; exact h
  | cons e t ih =>
    intro T w w' toks toks' h ha
    simp only [applyStep] at ha
    cases h1 : applyEmit w i toks e src with
    | none => rw [h1] at ha; cases ha
    | some x =>
      obtain ⟨w1, toks1⟩ := x
      rw [h1] at ha
      have := ih (fun x hx => hA x (by simp [hx])) (applyEmit_append_fpb (hA e (by simp)) h h1) ha
      simp only [List.length_cons]
      exact this.mono (by omega)

theorem header_take_ne_nil (p : Params) (n k : Nat) (hk : 1 ≤ k) : (header p false n).take k ≠ [] := by
  simp only [header]
  cases k with
  | zero => omega
  | succ k => simp

/-- `encode_header` then `new_subsequent`: the pending placeholder is filled, a fresh one registered. -/
theorem applyStep_close_fpb {i T : Nat} {e : Nat × BackrefInfo} {w w' : World} {toks toks' : List Backref} {src : Slice}
    (p : Params) (s : EncState) (hbr : 1 ≤ s.brLen) (h : FPB i T [e] w)
    (ha : applyStep w i toks (closeE p s) src = some (w', toks')) : ∃ e', FPB i 0 [e'] w' := by
  simp only [closeE, applyStep] at ha
  cases h1 : applyEmit w i toks (Enc.closeHeader p s) src with
  | none => rw [h1] at ha; cases ha
  | some x =>
    obtain ⟨w1, toks1⟩ := x
    rw [h1] at ha
    simp only at ha
    cases h2 : applyEmit w1 i toks1 ⟨.register 2, .copy⟩ src with
    | none => rw [h2] at ha; cases ha
    | some y =>
      obtain ⟨w2, toks2⟩ := y
      rw [h2] at ha
      simp only [Option.some.injEq, Prod.mk.injEq] at ha
      obtain ⟨rfl, _⟩ := ha
      simp only [Enc.closeHeader, applyEmit] at h1
      cases h0 : toks[s.backref]? with
      | none => rw [h0] at h1; cases h1
      | some b =>
        rw [h0] at h1
        simp only [Option.map_eq_some_iff, Prod.mk.injEq] at h1
        obtain ⟨w1', hb1, rfl, _⟩ := h1
        have hn : FPB i 0 [] w1' := h.backfill (header_take_ne_nil p s.cur s.brLen hbr) hb1
        simp only [applyEmit] at h2
        cases h3 : w1'.registerPatch i (List.replicate 2 0) with
        | none => rw [h3] at h2; cases h2
        | some z =>
          obtain ⟨w3, b3⟩ := z
          rw [h3] at h2
          simp only [Option.some.injEq, Prod.mk.injEq] at h2
          obtain ⟨rfl, _⟩ := h2
          exact hn.registerPatch (by simp) h3

theorem flushE_appends (s : EncState) : ∀ e ∈ flushE s, ∃ bs, e.op = .append bs := by
  intro e he
  unfold flushE at he
  split at he
  · simp only [List.mem_singleton] at he; subst he; exact ⟨_, rfl⟩
  · cases he

theorem writeE_appends (m : Method) (n : Nat) (X : List UInt8) : ∀ e ∈ writeE m n X, ∃ bs, e.op = .append bs := by
  intro e he
  unfold writeE at he
  split at he
  · cases he
  · simp only [List.mem_singleton] at he; subst he; exact ⟨_, rfl⟩

theorem flushE_length (s : EncState) : (flushE s).length = if s.mid then 1 else 0 := by
  unfold flushE; split <;> simp [*]

theorem writeE_length_le (m : Method) (n : Nat) (X : List UInt8) : (writeE m n X).length ≤ 1 := by
  unfold writeE; split <;> simp

theorem flushS_cur (s : EncState) : (flushS s).cur = cm s := by
  unfold flushS cm; split <;> simp [*]

theorem flushS_brLen (s : EncState) : (flushS s).brLen = s.brLen := by
  unfold flushS; split <;> rfl

theorem part_arith (c a b n wl : Nat) (mid' : Bool) (ha : a ≤ 1) (hb : b ≤ 1)
    (hwl : n + (if mid' then 1 else 0) = wl) (h1 : 1 ≤ wl) :
    3 * c + 1 + (a + b) ≤ 3 * (c + n + (if mid' then 1 else 0)) := by
  cases mid' <;> simp at hwl ⊢ <;> omega

theorem cm_part (s : EncState) (n : Nat) (b : Bool) :
    cm { flushS s with cur := (flushS s).cur + n, mid := b } = cm s + n + (if b then 1 else 0) := by
  show (flushS s).cur + n + (if b = true then 1 else 0) = _
  rw [flushS_cur]

/-- One `consume_once` step: if the tail of the anchor deque had at most `3·(cur + mid) + 1` anchors,
it has at most `3·(cur' + mid')` afterwards. -/
theorem once_fpb (p : Params) (i : Nat) (s : EncState) (nid : Nat) (m : Method) (input : List UInt8)
    (hne : input ≠ []) (hbr : 1 ≤ s.brLen) {e : Nat × BackrefInfo} {w w' : World} {toks toks' : List Backref} {src : Slice}
    (h : FPB i (3 * cm s + 1) [e] w)
    (ha : applyStep w i toks (Enc.consumeOnce p s nid m input).emits src = some (w', toks')) :
    (∃ e', FPB i (3 * cm (Enc.consumeOnce p s nid m input).st) [e'] w') ∧
      1 ≤ (Enc.consumeOnce p s nid m input).st.brLen := by
  have hclose : ∀ (A : List Emit) (s2 : EncState), (∀ x ∈ A, ∃ bs, x.op = .append bs) → s2.brLen = s.brLen →
      applyStep w i toks (A ++ closeE p s2) src = some (w', toks') → ∃ e', FPB i 0 [e'] w' := by
    intro A s2 hA hs2 hx
    rw [applyStep_append] at hx
    cases h1 : applyStep w i toks A src with
    | none => rw [h1] at hx; cases hx
    | some y =>
      obtain ⟨w1, toks1⟩ := y
      rw [h1] at hx
      exact applyStep_close_fpb p s2 (by omega) (applyStep_appends_fpb A hA h h1) hx
  by_cases hA : s.mid ∧ input.head? = some FD
  · rw [consumeOnce_mid p s nid m input hA] at ha ⊢
    refine ⟨?_, by simp [subState]⟩
    have : cm (subState p nid) = 0 := by simp [cm, subState]
    simp only [this, Nat.mul_zero]
    exact hclose [] s (by simp) rfl (by simpa using ha)
  · cases hfs : findStuff (input.take ((flushS s).maxChunk - (flushS s).cur)) with
    | some k =>
      rw [consumeOnce_stuff p s nid m input hA hfs] at ha ⊢
      refine ⟨?_, by simp [subState]⟩
      have : cm (subState p nid) = 0 := by simp [cm, subState]
      simp only [this, Nat.mul_zero]
      refine hclose (flushE s ++ writeE m k ((input.take ((flushS s).maxChunk - (flushS s).cur)).take k))
        { flushS s with cur := (flushS s).cur + k } ?_ (flushS_brLen s) ha
      intro x hx
      simp only [List.mem_append] at hx
      rcases hx with hx | hx
      · exact flushE_appends s x hx
      · exact writeE_appends _ _ _ x hx
    | none =>
      by_cases hfull : (input.take ((flushS s).maxChunk - (flushS s).cur)).length
          = (flushS s).maxChunk - (flushS s).cur
      · rw [consumeOnce_full p s nid m input hA hfs hfull] at ha ⊢
        refine ⟨?_, by simp [subState]⟩
        have : cm (subState p nid) = 0 := by simp [cm, subState]
        simp only [this, Nat.mul_zero]
        refine hclose (flushE s ++ writeE m ((flushS s).maxChunk - (flushS s).cur)
            (input.take ((flushS s).maxChunk - (flushS s).cur)))
          { flushS s with cur := (flushS s).cur + ((flushS s).maxChunk - (flushS s).cur) } ?_ (flushS_brLen s) ha
        intro x hx
        simp only [List.mem_append] at hx
        rcases hx with hx | hx
        · exact flushE_appends s x hx
        · exact writeE_appends _ _ _ x hx
      · rw [consumeOnce_part p s nid m input hA hfs hfull] at ha ⊢
        have hwl : (input.take ((flushS s).maxChunk - (flushS s).cur)).length = input.length := by
          simp only [List.length_take] at hfull ⊢
          omega
        have hil : 1 ≤ input.length := List.length_pos_iff.mpr hne
        obtain ⟨W, hW⟩ : ∃ W, W = input.take ((flushS s).maxChunk - (flushS s).cur) := ⟨_, rfl⟩
        rw [← hW] at ha hwl ⊢
        simp only at ha ⊢
        refine ⟨⟨e, ?_⟩, by rw [flushS_brLen]; exact hbr⟩
        have happ : ∀ x ∈ flushE s ++ writeE m (if W.getLast? = some FE then W.length - 1 else W.length)
            (W.take (if W.getLast? = some FE then W.length - 1 else W.length)), ∃ bs, x.op = .append bs := by
          intro x hx
          simp only [List.mem_append] at hx
          rcases hx with hx | hx
          · exact flushE_appends s x hx
          · exact writeE_appends _ _ _ x hx
        refine (applyStep_appends_fpb _ happ h ha).mono ?_
        have hw1 := writeE_length_le m (if W.getLast? = some FE then W.length - 1 else W.length)
            (W.take (if W.getLast? = some FE then W.length - 1 else W.length))
        have hf1 : (flushE s).length ≤ 1 := by rw [flushE_length]; split <;> omega
        rw [cm_part, List.length_append]
        refine part_arith (cm s) _ _ _ W.length _ hf1 hw1 ?_ (by omega)
        by_cases hlast : W.getLast? = some FE
        · simp only [hlast, if_true, decide_true]; omega
        · simp only [hlast, if_false, decide_false, Bool.false_eq_true]; omega

/-- One `encode` / `encode_copy` / anchored `encode` call: the bound is kept (with the same slack `δ`). -/
theorem encFeed_fpb (p : Params) (i : Nat) (m : Method) (base : Slice) (δ : Nat) (hδ : δ ≤ 1) (fuel : Nat) :
    ∀ (w w' : World) (e e' : EncW) (input : List UInt8) (pos : Nat) (b : Nat × BackrefInfo), 1 ≤ e.st.brLen →
    FPB i (3 * cm e.st + δ) [b] w → encFeed p fuel w i e m base input pos = some (w', e') →
    (∃ b', FPB i (3 * cm e'.st + δ) [b'] w') ∧ 1 ≤ e'.st.brLen := by
  induction fuel with
  | zero =>
    intro w w' e e' input pos b hbr h hf
    simp only [encFeed_zero, Option.some.injEq, Prod.mk.injEq] at hf
    obtain ⟨rfl, rfl⟩ := hf
    exact ⟨⟨b, h⟩, hbr⟩
  | succ fuel ih =>
    intro w w' e e' input pos b hbr h hf
    by_cases hne : input = []
    · subst hne
      simp only [encFeed_nil, Option.some.injEq, Prod.mk.injEq] at hf
      obtain ⟨rfl, rfl⟩ := hf
      exact ⟨⟨b, h⟩, hbr⟩
    · rw [encFeed_succ p fuel w i e m base input pos hne] at hf
      cases h1 : applyStep w i e.toks (Enc.consumeOnce p e.st e.nid m input).emits
          { base with off := base.off + pos, len := base.len - pos } with
      | none => rw [h1] at hf; cases hf
      | some x =>
        obtain ⟨w1, toks1⟩ := x
        rw [h1] at hf
        obtain ⟨⟨b1, hb1⟩, hbr1⟩ := once_fpb p i e.st e.nid m input hne hbr (h.mono (by omega)) h1
        exact ih w1 w' _ e' _ _ b1 hbr1 (hb1.mono (by simp only; omega)) hf

/-- … and when at least one step runs, the slack is gone. -/
theorem encFeed_fpb_strict (p : Params) (i : Nat) (m : Method) (base : Slice) (fuel : Nat) (w w' : World)
    (e e' : EncW) (input : List UInt8) (pos : Nat) (b : Nat × BackrefInfo) (hne : input ≠ []) (hbr : 1 ≤ e.st.brLen)
    (h : FPB i (3 * cm e.st + 1) [b] w) (hf : encFeed p (fuel + 1) w i e m base input pos = some (w', e')) :
    (∃ b', FPB i (3 * cm e'.st) [b'] w') ∧ 1 ≤ e'.st.brLen := by
  rw [encFeed_succ p fuel w i e m base input pos hne] at hf
  cases h1 : applyStep w i e.toks (Enc.consumeOnce p e.st e.nid m input).emits
      { base with off := base.off + pos, len := base.len - pos } with
  | none => rw [h1] at hf; cases hf
  | some x =>
    obtain ⟨w1, toks1⟩ := x
    rw [h1] at hf
    obtain ⟨⟨b1, hb1⟩, hbr1⟩ := once_fpb p i e.st e.nid m input hne hbr h h1
    exact encFeed_fpb p i m base 0 (by omega) fuel w1 w' _ e' _ _ b1 hbr1 hb1 hf

/-! ### `read_n` on the codec's own arena -/

/-- `read_n` changes the arena (and fresh memory) only; what it returns is empty or a chunk slice. -/
theorem readOwn_shape {w w' : World} {i : Nat} {r : ReadN.Reader} {count attempts : Nat} {res : Except Nat ASlice}
    {o : ReadN.Out} (h : readOwn w i r count attempts = some (w', res, o)) :
    ∃ v ar', w.iov i = some v ∧ w'.iov i = some { v with arena := ar' } ∧
      (∀ j, j ≠ i → w'.iov j = w.iov j) ∧ (∀ j, w'.arena j = w.arena j) ∧ (∀ j, w'.aslice j = w.aslice j) ∧
      (∀ a, res = .ok a → a.slice.len = 0 ∨ ∃ c, a.slice.region = .chunk c) := by
  unfold readOwn at h
  cases hv : w.iov i with
  | none => rw [hv] at h; cases h
  | some v =>
    rw [hv] at h
    simp only at h
    unfold World.readN at h
    by_cases hc0 : count = 0
    · simp only [hc0, if_true, hv, Option.some.injEq, Prod.mk.injEq] at h
      obtain ⟨rfl, rfl, _⟩ := h
      refine ⟨v, v.arena, rfl, by simp, fun j hj => by simp [hj], fun _ => rfl, fun _ => rfl, ?_⟩
      intro a ha
      simp only [Except.ok.injEq] at ha
      subst ha
      exact Or.inl rfl
    · simp only [hc0, if_false] at h
      generalize alloc w.tun v.arena w.next count = al at h
      obtain ⟨ar1, next1, chunk, off⟩ := al
      simp only at h
      cases hres : (ReadN.readNCore r count attempts).res with
      | ok got =>
        simp only [hres] at h
        have hv1 : ∀ (hp : Heap) (nx : Nat), World.iov ({ w with heap := hp, next := nx } : World) i = some v :=
          fun _ _ => hv
        simp only [hv1, Option.some.injEq, Prod.mk.injEq] at h
        obtain ⟨rfl, rfl, _⟩ := h
        refine ⟨v, release ar1 (count - got.length), rfl, by simp, fun j hj => ?_, fun _ => rfl, fun _ => rfl, ?_⟩
        · simp only [iov_setIov, if_neg hj]; rfl
        · intro a ha
          simp only [Except.ok.injEq] at ha
          subst ha
          exact Or.inr ⟨chunk, rfl⟩
      | err k =>
        simp only [hres] at h
        have hv1 : ∀ (hp : Heap) (nx : Nat), World.iov ({ w with heap := hp, next := nx } : World) i = some v :=
          fun _ _ => hv
        simp only [hv1, Option.some.injEq, Prod.mk.injEq] at h
        obtain ⟨rfl, rfl, _⟩ := h
        refine ⟨v, release ar1 count, rfl, by simp, fun j hj => ?_, fun _ => rfl, fun _ => rfl, fun a ha => by cases ha⟩
        simp only [iov_setIov, if_neg hj]; rfl

theorem fpb_readOwn {i T : Nat} {B : List (Nat × BackrefInfo)} {w w' : World} {r : ReadN.Reader} {count attempts : Nat}
    {res : Except Nat ASlice} {o : ReadN.Out} (h : FPB i T B w) (hr : readOwn w i r count attempts = some (w', res, o)) :
    FPB i T B w' := by
  obtain ⟨hs, v, hv, hf, hb⟩ := h
  obtain ⟨v0, ar', hv0, hv', hi, ha, hsl, _⟩ := readOwn_shape hr
  rw [hv] at hv0; cases hv0
  exact ⟨hs.of_same hi ha hsl, _, hv', ⟨hf.count, hf.headPos, hf.pend⟩, hb⟩

/-! ### Whole runs -/

theorem encCallA_fpb (p : Params) (i : Nat) (r r' : Run) (c : ACall) (b : Nat × BackrefInfo) (hbr : 1 ≤ r.e.st.brLen)
    (h : FPB i (3 * cm r.e.st + 1) [b] r.w) (hc : encCallA p i r c = some r') :
    (∃ b', FPB i (3 * cm r'.e.st + 1) [b'] r'.w) ∧ 1 ≤ r'.e.st.brLen := by
  cases c with
  | call c =>
    cases c with
    | feed m d =>
      cases m with
      | copy =>
        simp only [encCallA, encCall, Option.map_eq_some_iff] at hc
        obtain ⟨x, hx, rfl⟩ := hc
        exact encFeed_fpb p i .copy _ 1 (by omega) _ r.w x.1 r.e x.2 d 0 b hbr h hx
      | borrow =>
        simp only [encCallA, encCall, Option.map_eq_some_iff] at hc
        obtain ⟨x, hx, rfl⟩ := hc
        exact encFeed_fpb p i .borrow _ 1 (by omega) _ (r.w.addExt d).1 x.1 r.e x.2 d 0 b hbr (h.addExt d) hx
    | consume k =>
      simp only [encCallA, encCall] at hc
      cases hv : r.w.iov i with
      | none => rw [hv] at hc; cases hc
      | some v =>
        rw [hv] at hc
        simp only [Option.map_eq_some_iff] at hc
        obtain ⟨x, hx, rfl⟩ := hc
        exact ⟨⟨b, h.consume (k := x.2) (by rw [hx])⟩, hbr⟩
    | advance k =>
      simp only [encCallA, encCall] at hc
      cases hv : r.w.iov i with
      | none => rw [hv] at hc; cases hc
      | some v =>
        rw [hv] at hc
        simp only [Option.map_eq_some_iff] at hc
        obtain ⟨x, hx, rfl⟩ := hc
        exact ⟨⟨b, h.advance (c := x.2) (by rw [hx])⟩, hbr⟩
  | read count attempts src script =>
    simp only [encCallA, Option.map_eq_some_iff] at hc
    obtain ⟨x, hx, rfl⟩ := hc
    simp only [encodeRead] at hx
    cases hro : readOwn r.w i ⟨src, script⟩ count attempts with
    | none => rw [hro] at hx; cases hx
    | some y =>
      obtain ⟨w1, res, o⟩ := y
      rw [hro] at hx
      have hw1 := fpb_readOwn h hro
      obtain ⟨_, _, _, _, _, _, _, hshape⟩ := readOwn_shape hro
      cases res with
      | error k =>
        simp only [Option.some.injEq] at hx
        subst hx
        exact ⟨⟨b, hw1⟩, hbr⟩
      | ok a =>
        simp only [encodeAnchored] at hx
        cases hf : encFeed p (2 * (w1.sliceBytes a.slice).length + 2) w1 i r.e .borrow a.slice (w1.sliceBytes a.slice) 0 with
        | none => rw [hf] at hx; cases hx
        | some z =>
          obtain ⟨w2, e2⟩ := z
          rw [hf] at hx
          simp only at hx
          cases hpa : pushAnchorOf w2 i a with
          | none => rw [hpa] at hx; cases hx
          | some w3 =>
            rw [hpa] at hx
            simp only [Option.some.injEq] at hx
            subst hx
            simp only [pushAnchorOf] at hpa
            split at hpa
            · simp only [Option.some.injEq] at hpa
              subst hpa
              exact encFeed_fpb p i .borrow _ 1 (by omega) _ w1 w2 r.e e2 _ 0 b hbr hw1 hf
            · rename_i hlen
              have hreg : ∃ c, a.slice.region = .chunk c := by
                rcases hshape a rfl with h0 | h0
                · exact absurd h0 hlen
                · exact h0
              have hbl := sliceBytes_chunk_length w1 a.slice hreg
              have hne : w1.sliceBytes a.slice ≠ [] := by
                intro he; rw [he] at hbl; simp at hbl; omega
              have e1 : 2 * (w1.sliceBytes a.slice).length + 2 = (2 * (w1.sliceBytes a.slice).length + 1) + 1 := by omega
              rw [e1] at hf
              obtain ⟨⟨b2, hb2⟩, hbr2⟩ := encFeed_fpb_strict p i .borrow _ _ w1 w2 r.e e2 _ 0 b hne hbr hw1 hf
              exact ⟨⟨b2, hb2.pushAnchor hpa⟩, hbr2⟩

theorem encCallsA_fpb (p : Params) (i : Nat) (calls : List ACall) : ∀ (r r' : Run) (b : Nat × BackrefInfo),
    1 ≤ r.e.st.brLen → FPB i (3 * cm r.e.st + 1) [b] r.w → encCallsA p i r calls = some r' →
    (∃ b', FPB i (3 * cm r'.e.st + 1) [b'] r'.w) ∧ 1 ≤ r'.e.st.brLen := by
  induction calls with
  | nil =>
    intro r r' b hbr h hc
    simp only [encCallsA, Option.some.injEq] at hc
    subst hc; exact ⟨⟨b, h⟩, hbr⟩
  | cons c t ih =>
    intro r r' b hbr h hc
    simp only [encCallsA] at hc
    cases h1 : encCallA p i r c with
    | none => rw [h1] at hc; cases hc
    | some r1 =>
      rw [h1] at hc
      obtain ⟨⟨b1, hb1⟩, hbr1⟩ := encCallA_fpb p i r r1 c b hbr h h1
      exact ih r1 r' b1 hbr1 hb1 hc

theorem fpb_fresh (pol : Policy) (tun : Tuning) (T : Nat) : FPB 0 T [] (World.fresh pol tun) :=
  ⟨solo_fresh pol tun, Iov.empty, rfl, ⟨rfl, headPos_nil, Or.inl rfl⟩, rfl⟩

/-- Between the calls of ANY encoder run (all input methods, any drain schedule): the world holds one
iovec and nothing else; exactly one placeholder is pending; the anchors pushed after the anchor that
counts its slice number at most `3·(cur + mid) + 1`. -/
theorem encPrefixA_fpb (p : Params) (pol : Policy) (tun : Tuning) (calls : List ACall) (r : Run)
    (h : encPrefixA p pol tun calls = some r) :
    (∃ b, FPB 0 (3 * cm r.e.st + 1) [b] r.w) ∧ 1 ≤ r.e.st.brLen := by
  simp only [encPrefixA] at h
  cases h0 : encInit p (World.fresh pol tun) 0 with
  | none => rw [h0] at h; cases h
  | some x =>
    obtain ⟨w1, e1⟩ := x
    rw [h0] at h
    simp only at h
    simp only [encInit, Enc.init, applyStep] at h0
    cases h1 : applyEmit (World.fresh pol tun) 0 [] ⟨.register 1, .copy⟩ ⟨.ext 0, 0, 0⟩ with
    | none => rw [h1] at h0; cases h0
    | some y =>
      obtain ⟨wa, ta⟩ := y
      rw [h1] at h0
      simp only [Option.some.injEq, Prod.mk.injEq] at h0
      obtain ⟨rfl, rfl⟩ := h0
      simp only [applyEmit] at h1
      cases h3 : (World.fresh pol tun).registerPatch 0 (List.replicate 1 0) with
      | none => rw [h3] at h1; cases h1
      | some z =>
        obtain ⟨w3, b3⟩ := z
        rw [h3] at h1
        simp only [Option.some.injEq, Prod.mk.injEq] at h1
        obtain ⟨rfl, _⟩ := h1
        obtain ⟨b, hb⟩ := (fpb_fresh pol tun 0).registerPatch (by simp) h3
        exact encCallsA_fpb p 0 calls _ r b (by simp) (hb.mono (by omega)) h

end Woodpile.EncWorld

namespace Woodpile.Iovec
open Woodpile.Arena

/-! ### The decoder's world -/

/-- The decoder's world: solo; nothing pending; the anchors count the slices. -/
def DPW (i : Nat) (w : World) : Prop := Solo i w ∧ ∃ v, w.iov i = some v ∧ DPv v

theorem DPW.pushCopy {i : Nat} {w w' : World} {bs : List UInt8} (h : DPW i w) (hp : w.pushCopy i bs = some w') :
    DPW i w' := by
  obtain ⟨hs, v, hv, hd⟩ := h
  obtain ⟨v0, hv0, ⟨_, rfl⟩ | ⟨_, arena', next', chunk, off, v2, _, ho, rfl⟩⟩ := pushCopy_spec hp
  · exact ⟨hs, v, hv, hd⟩
  · rw [hv] at hv0; cases hv0
    have hc1 : countSum (copyAnchors v.anchors chunk) =
        (v.slices ++ [(⟨.chunk chunk, off, bs.length⟩ : Slice)]).length := by
      rw [copyAnchors_count, hd.count]; simp
    obtain ⟨hc2, hb, _⟩ := optimize_count ho hc1
    exact ⟨(hs.setIov _).with_heap_next _ _, v2, iov_set_heap_next .., ⟨hc2, by rw [hb]; exact hd.nopend⟩⟩

theorem DPW.pushBorrowed {i : Nat} {w w' : World} {s : Slice} (h : DPW i w) (hp : w.pushBorrowed i s = some w') :
    DPW i w' := by
  obtain ⟨hs, v, hv, hd⟩ := h
  obtain ⟨v0, hv0, ⟨_, rfl⟩ | ⟨_, v', hpb, rfl⟩⟩ := pushBorrowed_spec hp
  · exact ⟨hs, v, hv, hd⟩
  · rw [hv] at hv0; cases hv0
    obtain ⟨hc2, hb, _⟩ := pushBorrowedSlice_count hpb hd.count
    exact ⟨hs.setIov _, v', by simp, ⟨hc2, by rw [hb]; exact hd.nopend⟩⟩

theorem DPW.push {i : Nat} {w w' : World} {s : Slice} (h : DPW i w) (hp : w.push i s = some w') : DPW i w' := by
  rcases push_cases hp with h1 | h1
  · exact h.pushCopy h1
  · exact h.pushBorrowed h1

theorem DPW.addExt {i : Nat} {w : World} (h : DPW i w) (d : List UInt8) : DPW i (w.addExt d).1 := by
  obtain ⟨hs, v, hv, hd⟩ := h
  exact ⟨hs.of_same (fun _ _ => rfl) (fun _ => rfl) (fun _ => rfl), v, hv, hd⟩

theorem DPW.consume {i : Nat} {w w' : World} {count k : Nat} (h : DPW i w) (hc : w.consume i count = some (w', k)) :
    DPW i w' := by
  obtain ⟨hs, v, hv, hd⟩ := h
  obtain ⟨v0, n, v', hv0, _, hcs, rfl⟩ := consume_spec hc
  rw [hv] at hv0; cases hv0
  exact ⟨hs.setIov _, v', by simp, hd.consumeSlices hcs⟩

theorem DPW.advance {i : Nat} {w w' : World} {count c : Nat} (h : DPW i w) (hc : w.advance i count = some (w', c)) :
    DPW i w' := by
  obtain ⟨hs, v, hv, hd⟩ := h
  obtain ⟨v0, n, v', k, hv0, _, hcb, rfl⟩ := advance_spec hc
  rw [hv] at hv0; cases hv0
  refine ⟨hs.setIov _, v', by simp, ?_⟩
  refine consumeBytes_preserves DPv (fun v v' k hp hc => hp.consumeSlices hc) ?_ _ v k 0 v' c hd hcb
  intro v s rest m hp hs' _
  exact ⟨by rw [hp.count, hs']; rfl, hp.nopend⟩

theorem DPW.pushAnchor {i : Nat} {w w' : World} {a : Anchor} (h : DPW i w) (hp : w.pushAnchor i a = some w') :
    DPW i w' := by
  obtain ⟨hs, v, hv, hd⟩ := h
  unfold World.pushAnchor at hp
  rw [hv] at hp
  simp only [Option.some.injEq] at hp
  subst hp
  exact ⟨hs.setIov _, { v with anchors := v.anchors ++ [{ a with count := 0 }] }, by simp,
    ⟨by simp [hd.count], hd.nopend⟩⟩

/-- The decoder's quiescent point: after `consume(k)` with `k` at least the number of buffered slices
nothing is buffered and no anchor is left, so only the cache's chunk can be live. -/
theorem DPW.full_drain {i : Nat} {w w' : World} {count k : Nat} (h : DPW i w)
    (hcount : ∀ v, w.iov i = some v → v.slices.length ≤ count) (hc : w.consume i count = some (w', k)) :
    DPW i w' ∧ ∃ v', w'.iov i = some v' ∧ v'.slices = [] ∧ v'.anchors = [] ∧
      (∀ c ∈ w'.liveChunks, c ∈ arenaChunks v'.arena) ∧ w'.liveChunks.length ≤ 1 := by
  have hd' := h.consume hc
  obtain ⟨hs, v, hv, hd⟩ := h
  obtain ⟨v0, n, v', hv0, hst, hcs, rfl⟩ := consume_spec hc
  rw [hv] at hv0; cases hv0
  have hn : n = v.slices.length := by
    simp only [Iov.stableCount, hd.nopend, List.head?_nil, Option.some.injEq] at hst
    exact hst.symm
  have hall := hd.consume_all (count := min count n) (by rw [hn]; have := hcount v hv; omega) hcs
  have hv' : (w.setIov i (some v')).iov i = some v' := by simp
  have hlive := hd'.1.live hv'
  refine ⟨hd', v', hv', hall.1, hall.2, ?_, ?_⟩
  · intro c hc'
    have := hlive c hc'
    rw [hall.2] at this
    simpa [anchorChunks] using this
  · have := hd'.1.live_length hv'
    rw [hall.2] at this
    simpa using this

end Woodpile.Iovec

namespace Woodpile.EncWorld
open Woodpile.Hcobs Woodpile.Iovec Woodpile.Arena

theorem isAppend_iff (op : Woodpile.Pipe.Op) (h : Woodpile.Pipe.Op.isAppend op = true) : ∃ bs, op = .append bs := by
  cases op with
  | append bs => exact ⟨bs, rfl⟩
  | register n => simp [Woodpile.Pipe.Op.isAppend] at h
  | fill id bs => simp [Woodpile.Pipe.Op.isAppend] at h

theorem applyStep_appends_dpw {i : Nat} {src : Slice} (A : List Emit)
    (hA : (A.map (·.op)).all Woodpile.Pipe.Op.isAppend = true) : ∀ {w w' : World} {toks toks' : List Backref},
    DPW i w → applyStep w i toks A src = some (w', toks') → DPW i w' := by
  induction A with
  | nil =>
    intro w w' toks toks' h ha
    simp only [applyStep, Option.some.injEq, Prod.mk.injEq] at ha
    rw [← ha.1]; exact h
  | cons e t ih =>
    intro w w' toks toks' h ha
    simp only [List.map_cons, List.all_cons, Bool.and_eq_true] at hA
    simp only [applyStep] at ha
    cases h1 : applyEmit w i toks e src with
    | none => rw [h1] at ha; cases ha
    | some x =>
      obtain ⟨w1, toks1⟩ := x
      rw [h1] at ha
      refine ih hA.2 ?_ ha
      obtain ⟨op, m⟩ := e
      obtain ⟨bs, hbs⟩ := isAppend_iff op hA.1
      subst hbs
      cases m with
      | copy =>
        simp only [applyEmit, Option.map_eq_some_iff, Prod.mk.injEq] at h1
        obtain ⟨w2, h2, rfl, _⟩ := h1
        exact h.pushCopy h2
      | borrow =>
        simp only [applyEmit, Option.map_eq_some_iff, Prod.mk.injEq] at h1
        obtain ⟨w2, h2, rfl, _⟩ := h1
        exact h.push h2

theorem decFeed_dpw (p : Params) (m : Method) (i : Nat) (base : Slice) (fuel : Nat) :
    ∀ (w : World) (s : DecState) (input : List UInt8) (pos : Nat) (w' : World) (res : Except DecErr DecState),
    DPW i w → decFeed p m fuel w i s base input pos = some (w', res) → DPW i w' := by
  induction fuel with
  | zero =>
    intro w s input pos w' res h hf
    simp only [decFeed_zero, Option.some.injEq, Prod.mk.injEq] at hf
    rw [← hf.1]; exact h
  | succ fuel ih =>
    intro w s input pos w' res h hf
    cases input with
    | nil =>
      simp only [decFeed_nil, Option.some.injEq, Prod.mk.injEq] at hf
      rw [← hf.1]; exact h
    | cons b rest =>
      obtain ⟨happ_err, happ_ok⟩ := dec_once_appends p m s b rest
      cases ho : Dec.once p m s b rest with
      | error ee =>
        obtain ⟨err, es⟩ := ee
        rw [decFeed_cons_error p m fuel w i s base b rest pos err es ho] at hf
        cases h1 : applyStep w i [] es base with
        | none => rw [h1] at hf; cases hf
        | some x =>
          obtain ⟨w1, toks1⟩ := x
          rw [h1] at hf
          simp only [Option.some.injEq, Prod.mk.injEq] at hf
          rw [← hf.1]
          exact applyStep_appends_dpw es (happ_err err es ho) h h1
      | ok o =>
        rw [decFeed_cons_ok p m fuel w i s base b rest pos o ho] at hf
        cases h1 : applyStep w i [] o.emits { base with off := base.off + pos, len := base.len - pos } with
        | none => rw [h1] at hf; cases hf
        | some x =>
          obtain ⟨w1, toks1⟩ := x
          rw [h1] at hf
          exact ih w1 o.st _ _ w' res (applyStep_appends_dpw o.emits (happ_ok o ho) h h1) hf

theorem dpw_readOwn {i : Nat} {w w' : World} {r : ReadN.Reader} {count attempts : Nat}
    {res : Except Nat ASlice} {o : ReadN.Out} (h : DPW i w) (hr : readOwn w i r count attempts = some (w', res, o)) :
    DPW i w' := by
  obtain ⟨hs, v, hv, hd⟩ := h
  obtain ⟨v0, ar', hv0, hv', hi, ha, hsl, _⟩ := readOwn_shape hr
  rw [hv] at hv0; cases hv0
  exact ⟨hs.of_same hi ha hsl, _, hv', ⟨hd.count, hd.nopend⟩⟩

/-- Every decoder run (all input methods, any drain schedule, whatever the verdict) ends — and, taking
prefixes of the call list, passes between any two calls — in a world that holds one iovec and nothing
else, with nothing pending. -/
theorem decCallsA_dpw (p : Params) (i : Nat) (calls : List ACall) :
    ∀ (w : World) (s : DecState) (dr : List UInt8) (w' : World) (dr' : List UInt8) (res : Except DecErr Unit),
    DPW i w → decCallsA p i w s dr calls = some (w', dr', res) → DPW i w' := by
  induction calls with
  | nil =>
    intro w s dr w' dr' res h hc
    simp only [decCallsA, Option.some.injEq, Prod.mk.injEq] at hc
    rw [← hc.1]; exact h
  | cons c t ih =>
    intro w s dr w' dr' res h hc
    cases c with
    | call c =>
      cases c with
      | feed m d =>
        simp only [decCallsA] at hc
        cases h1 : decFeedCall p i w s m d with
        | none => rw [h1] at hc; cases hc
        | some x =>
          obtain ⟨w1, r1⟩ := x
          rw [h1] at hc
          have hw1 : DPW i w1 := by
            cases m with
            | copy => exact decFeed_dpw p .copy i _ _ w s d 0 w1 r1 h h1
            | borrow => exact decFeed_dpw p .borrow i _ _ (w.addExt d).1 s d 0 w1 r1 (h.addExt d) h1
          cases r1 with
          | ok s1 => exact ih w1 s1 dr w' dr' res hw1 hc
          | error e =>
            simp only [Option.some.injEq, Prod.mk.injEq] at hc
            rw [← hc.1]; exact hw1
      | consume k =>
        simp only [decCallsA] at hc
        cases hv : w.iov i with
        | none => rw [hv] at hc; cases hc
        | some v =>
          cases hx : w.consume i k with
          | none => rw [hv, hx] at hc; cases hc
          | some x =>
            rw [hv, hx] at hc
            exact ih x.1 s _ w' dr' res (h.consume (k := x.2) (by rw [hx])) hc
      | advance k =>
        simp only [decCallsA] at hc
        cases hv : w.iov i with
        | none => rw [hv] at hc; cases hc
        | some v =>
          cases hx : w.advance i k with
          | none => rw [hv, hx] at hc; cases hc
          | some x =>
            rw [hv, hx] at hc
            exact ih x.1 s _ w' dr' res (h.advance (c := x.2) (by rw [hx])) hc
    | read count attempts src script =>
      simp only [decCallsA] at hc
      cases hd : decodeRead p w i s ⟨src, script⟩ count attempts with
      | none => rw [hd] at hc; cases hc
      | some y =>
        obtain ⟨w1, rr, o⟩ := y
        rw [hd] at hc
        have hw1 : DPW i w1 := by
          simp only [decodeRead] at hd
          cases hro : readOwn w i ⟨src, script⟩ count attempts with
          | none => rw [hro] at hd; cases hd
          | some z =>
            obtain ⟨wa, resa, oa⟩ := z
            rw [hro] at hd
            have hwa := dpw_readOwn h hro
            cases resa with
            | error k =>
              simp only [Option.some.injEq, Prod.mk.injEq] at hd
              rw [← hd.1]; exact hwa
            | ok a =>
              simp only [decodeAnchored] at hd
              cases hf : decFeed p .borrow ((wa.sliceBytes a.slice).length + 1) wa i s a.slice (wa.sliceBytes a.slice) 0 with
              | none => rw [hf] at hd; cases hd
              | some u =>
                obtain ⟨wb, resb⟩ := u
                rw [hf] at hd
                simp only at hd
                have hwb := decFeed_dpw p .borrow i _ _ wa s _ 0 wb resb hwa hf
                cases hpa : pushAnchorOf wb i a with
                | none => rw [hpa] at hd; cases hd
                | some wc =>
                  rw [hpa] at hd
                  simp only [Option.some.injEq, Prod.mk.injEq] at hd
                  rw [← hd.1]
                  simp only [pushAnchorOf] at hpa
                  split at hpa
                  · simp only [Option.some.injEq] at hpa
                    rw [← hpa]; exact hwb
                  · exact hwb.pushAnchor hpa
        cases rr with
        | error k => exact ih w1 s dr w' dr' res hw1 hc
        | ok q =>
          obtain ⟨n, verdict⟩ := q
          cases verdict with
          | ok s1 => exact ih w1 s1 dr w' dr' res hw1 hc
          | error e =>
            simp only [Option.some.injEq, Prod.mk.injEq] at hc
            rw [← hc.1]; exact hw1

theorem dpw_fresh (pol : Policy) (tun : Tuning) : DPW 0 (World.fresh pol tun) :=
  ⟨solo_fresh pol tun, Iov.empty, rfl, ⟨rfl, rfl⟩⟩

theorem decRunA_dpw (p : Params) (pol : Policy) (tun : Tuning) (calls : List ACall) (w' : World) (dr : List UInt8)
    (res : Except DecErr Unit) (h : decRunA p pol tun calls = some (w', dr, res)) : DPW 0 w' :=
  decCallsA_dpw p 0 calls _ _ _ w' dr res (dpw_fresh pol tun) h

end Woodpile.EncWorld

namespace Woodpile.Iovec
open Woodpile.Arena

/-- A full drain by slices — `consume(count)` with `count` at least the length of the stable prefix —
ends at a quiescent point: nothing is consumable any more. -/
theorem FPB.consume_quiescent {i T : Nat} {e : Nat × BackrefInfo} {w w' : World} {count k : Nat} (h : FPB i T [e] w)
    (hcount : ∀ v n, w.iov i = some v → v.stableCount = some n → n ≤ count)
    (hc : w.consume i count = some (w', k)) : ∃ v', w'.iov i = some v' ∧ v'.stableCount = some 0 := by
  obtain ⟨hs, v, hv, hf, hb⟩ := h
  obtain ⟨v0, n, v', hv0, hst, hcs, rfl⟩ := consume_spec hc
  rw [hv] at hv0; cases hv0
  refine ⟨v', by simp, ?_⟩
  rcases hf.pend with h0 | ⟨e', h1, h2, h3, _⟩
  · rw [hb] at h0; cases h0
  · rw [hb] at h1; cases h1
    have hn : n = e.2.sliceIndex - v.consumedSlices := by
      rw [stable_idx_pend hb h2 h3] at hst
      simp only [Option.some.injEq] at hst
      exact hst.symm
    have hle := hcount v n hv hst
    obtain ⟨hk, as1, _, rfl⟩ := consumeSlices_specO hcs
    simp only [Iov.stableCount, hb, List.head?_cons]
    rw [if_neg (by omega)]
    simp only [Option.some.injEq, List.length_drop]
    omega

end Woodpile.Iovec

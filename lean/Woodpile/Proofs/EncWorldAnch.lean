/-
The HCOBS codecs driving the structural iovec, ALL input methods (track `anch`): `Proofs/EncWorldComp.lean`
covers `encode` / `encode_copy` (`decode` / `decode_copy`); this file adds the ANCHORED method

    encode_read(reader, count, attempts)  =  let a = self.iovec.arena().read_n(reader, count, attempts)?;
                                             self.encode_anchored(a)
    encode_anchored(a)                    =  if !a.slice.is_empty() { self.encode(a.slice); self.iovec.push_anchor(a.anchor) }

(and the decoder's counterparts) for input that lives in the codec's OWN arena: `World.readOwn`, then
`encFeed … .borrow a.slice` — the state machine's borrowed appends become `World.push` of sub-slices of
the chunk slice, copied when small, borrowed (and possibly merged) otherwise — then
`World.pushAnchor`.  This is what `Driver/CodecW.lean` replays for the op words `feed a` and
`feed_read` of the correspondence family `codecw`.  (Anchored input from a FOREIGN arena is, for the
iovec, a borrowed push of memory that outlives it followed by `push_anchor`; its content side is the
borrow method of `EncWorldComp`, `XOp.lend`.)

Proof: `encFeed_sim` once more, the source being a held arena slice (`Proofs/IovecAnch.lean`:
`HeldOk`) instead of a caller buffer: a state-machine step makes at most one borrowed append, a
prefix of its input (`once_shape`, `dec_once_shape`); everything else it does (`push_copy`,
`register_patch`, `backfill`) leaves held memory alone (`HeldFrame`).
-/
import Woodpile.Proofs.EncWorldComp
import Woodpile.Proofs.IovecAnch
import Woodpile.Props.C01

namespace Woodpile.EncWorld
open Woodpile.Hcobs Woodpile.Iovec Woodpile.Arena
open Woodpile.Hcobs.EncProof
open Woodpile.Pipe (Cell Pipe cellBytes fillCells Ev runEv prodOps stepEv)

/-! ### Emits that do not borrow -/

/-- Not a borrowed append. -/
def NoBorrow (e : Emit) : Prop := e.method = .borrow → ∀ bs, e.op ≠ .append bs

theorem applyEmit_frame {w w' : World} {i : Nat} {toks toks' : List Backref} {e : Emit} {src : Slice}
    {v v' : Iov} (hnb : NoBorrow e) (h : applyEmit w i toks e src = some (w', toks'))
    (hv : w.iov i = some v) (hv' : w'.iov i = some v') : HeldFrame w w' v v' := by
  obtain ⟨op, m⟩ := e
  cases op with
  | append bs =>
    cases m with
    | copy =>
      simp only [applyEmit, Option.map_eq_some_iff, Prod.mk.injEq] at h
      obtain ⟨w1, h1, rfl, _⟩ := h
      exact World.pushCopy_heldFrame w w1 i v v' bs hv h1 hv'
    | borrow => exact absurd rfl (hnb rfl bs)
  | register n =>
    simp only [applyEmit] at h
    cases h1 : w.registerPatch i (List.replicate n 0) with
    | none => rw [h1] at h; cases h
    | some x =>
      obtain ⟨w1, b⟩ := x
      rw [h1] at h
      simp only [Option.some.injEq, Prod.mk.injEq] at h
      obtain ⟨rfl, _⟩ := h
      exact World.registerPatch_heldFrame w w1 i v v' _ b hv h1 hv'
  | fill id bs =>
    simp only [applyEmit] at h
    cases h0 : toks[id]? with
    | none => rw [h0] at h; cases h
    | some b =>
      rw [h0] at h
      simp only [Option.map_eq_some_iff, Prod.mk.injEq] at h
      obtain ⟨w1, h1, rfl, _⟩ := h
      exact World.backfill_heldFrame w w1 i v v' b bs hv h1 hv'

/-- The emits of a step that borrows nothing: as `applyStep_sim`, and held memory is left alone. -/
theorem applyStep_simNB (i : Nat) (g : List UInt8) (src : Slice) (es : List Emit) :
    ∀ (w : World) (v : Iov) (toks : List Backref) (q : Pipe), w.iov i = some v → SimV w v g toks q →
      OpsOk q (es.map (·.op)) → (∀ e ∈ es, NoBorrow e) →
      ∃ w' v' toks', applyStep w i toks es src = some (w', toks') ∧ w'.iov i = some v' ∧
        SimV w' v' g toks' (q.run (es.map (·.op))) ∧ w'.exts = w.exts ∧ HeldFrame w w' v v' := by
  induction es with
  | nil =>
    intro w v toks q hv h _ _
    exact ⟨w, v, toks, rfl, hv, h, rfl, HeldFrame.refl _ _⟩
  | cons e t ih =>
    intro w v toks q hv h hok hnb
    obtain ⟨hok1, hok2⟩ := hok
    have hnb1 := hnb e (by simp)
    obtain ⟨w1, v1, toks1, h1, h2, h3, h4⟩ := applyEmit_sim i hv h e src hok1
      (fun x hx hb bs hop => by
        simp only [List.mem_singleton] at hx; subst hx
        exact absurd hop (hnb1 hb bs))
    have hf1 := applyEmit_frame hnb1 h1 hv h2
    obtain ⟨w2, v2, toks2, g1, g2, g3, g4, g5⟩ := ih w1 v1 toks1 _ h2 h3 hok2
      (fun x hx => hnb x (by simp [hx]))
    refine ⟨w2, v2, toks2, ?_, g2, ?_, g4.trans h4, hf1.trans g5⟩
    · simp only [applyStep, h1]; exact g1
    · simpa [Pipe.run] using g3

theorem applyStep_append (w : World) (i : Nat) (toks : List Backref) (A B : List Emit) (src : Slice) :
    applyStep w i toks (A ++ B) src =
      match applyStep w i toks A src with
      | some (w', toks') => applyStep w' i toks' B src
      | none => none := by
  induction A generalizing w toks with
  | nil => rfl
  | cons e t ih =>
    simp only [List.cons_append, applyStep]
    cases applyEmit w i toks e src with
    | none => rfl
    | some x => obtain ⟨w1, toks1⟩ := x; exact ih w1 toks1

/-! ### A borrowed append out of held arena memory -/

theorem sliceBytes_prefix (w : World) (s : Slice) (k : Nat) (hk : k ≤ s.len) (hr : ∃ c, s.region = .chunk c) :
    w.sliceBytes { s with len := k } = (w.sliceBytes s).take k := by
  obtain ⟨c, hc⟩ := hr
  simp only [World.sliceBytes, hc]
  have : s.len = k + (s.len - k) := by omega
  conv => rhs; rw [this, Heap.read_add]
  rw [List.take_left' (by simp)]

/-- The slices of `src` that start at or after offset `c` of it. -/
def SubAfter (src : Slice) (c : Nat) (h : Slice) : Prop :=
  h.region = src.region ∧ src.off + c ≤ h.off ∧ h.off + h.len ≤ src.off + src.len

theorem applyEmit_simHB {w : World} {v : Iov} {g : List UInt8} {toks : List Backref} {q : Pipe}
    (i : Nat) (hv : w.iov i = some v) (h : SimV w v g toks q) (src : Slice) (input bs : List UInt8)
    (hsrc : HeldOk w v src) (hbytes : w.sliceBytes src = input) (hpre : bs <+: input) :
    ∃ w' v', applyEmit w i toks ⟨.append bs, .borrow⟩ src = some (w', toks) ∧ w'.iov i = some v' ∧
      SimV w' v' g toks (q.append bs) ∧ w'.exts = w.exts ∧
      ∀ x, SubAfter src bs.length x → HeldOk w' v' x ∧ w'.sliceBytes x = w.sliceBytes x := by
  have hlen : input.length = src.len := by rw [← hbytes]; exact sliceBytes_chunk_length w src hsrc.reg
  have hble : bs.length ≤ src.len := by rw [← hlen]; exact hpre.length_le
  have hp : HeldOk w v { src with len := bs.length } := hsrc.sub _ rfl (Nat.le_refl _) (by simp only; omega)
  have hb : w.sliceBytes { src with len := bs.length } = bs := by
    rw [sliceBytes_prefix w src _ hble hsrc.reg, hbytes]
    exact List.prefix_iff_eq_take.mp hpre |>.symm
  obtain ⟨w', v', h1, h2, h3, h4, h5⟩ := World.pushHeld_total w i v _ bs hv h.inv hp hb
  refine ⟨w', v', by simp [applyEmit, h1], h2, h.append h3, h4, ?_⟩
  intro x ⟨hx1, hx2, hx3⟩
  apply h5 x (hsrc.sub x hx1 (by omega) hx3)
  intro c _ _
  simp only
  right; left; omega

/-- One state-machine step whose borrowed append (at most one: `W`) comes out of the held slice `src`:
as `applyStep_sim`; afterwards every sub-slice of `src` behind the `c ≥ |X|` bytes the step consumed is
still held, with its bytes. -/
theorem applyStep_simH (i : Nat) (g : List UInt8) (src : Slice) (A B W : List Emit) (X input : List UInt8) (c : Nat)
    (w : World) (v : Iov) (toks : List Backref) (q : Pipe) (hv : w.iov i = some v) (h : SimV w v g toks q)
    (hok : OpsOk q ((A ++ W ++ B).map (·.op)))
    (hA : ∀ e ∈ A, NoBorrow e) (hB : ∀ e ∈ B, NoBorrow e)
    (hW : W = [] ∨ W = [⟨.append X, .borrow⟩]) (hX : X <+: input) (hXc : X.length ≤ c)
    (hsrc : HeldOk w v src) (hbytes : w.sliceBytes src = input) :
    ∃ w' v' toks', applyStep w i toks (A ++ W ++ B) src = some (w', toks') ∧ w'.iov i = some v' ∧
      SimV w' v' g toks' (q.run ((A ++ W ++ B).map (·.op))) ∧ w'.exts = w.exts ∧
      ∀ x, SubAfter src c x → HeldOk w' v' x ∧ w'.sliceBytes x = w.sliceBytes x := by
  rw [List.map_append, List.map_append, List.append_assoc, opsOk_append, opsOk_append] at hok
  obtain ⟨hokA, hokW, hokB⟩ := hok
  obtain ⟨w1, v1, toks1, a1, a2, a3, a4, a5⟩ := applyStep_simNB i g src A w v toks q hv h hokA hA
  obtain ⟨s1, s2⟩ := a5 src hsrc
  -- the middle part
  have mid : ∃ w2 v2, applyStep w1 i toks1 W src = some (w2, toks1) ∧ w2.iov i = some v2 ∧
      SimV w2 v2 g toks1 ((q.run (A.map (·.op))).run (W.map (·.op))) ∧ w2.exts = w1.exts ∧
      ∀ x, SubAfter src c x → HeldOk w2 v2 x ∧ w2.sliceBytes x = w1.sliceBytes x := by
    rcases hW with rfl | rfl
    · refine ⟨w1, v1, rfl, a2, by simpa [Pipe.run] using a3, rfl, ?_⟩
      intro x ⟨hx1, hx2, hx3⟩
      exact ⟨s1.sub x hx1 (by omega) hx3, rfl⟩
    · obtain ⟨w2, v2, b1, b2, b3, b4, b5⟩ := applyEmit_simHB i a2 a3 src input X s1 (s2.trans hbytes) hX
      refine ⟨w2, v2, by simp only [applyStep, b1], b2, by simpa [Pipe.run, Pipe.apply] using b3, b4, ?_⟩
      intro x ⟨hx1, hx2, hx3⟩
      exact b5 x ⟨hx1, by omega, hx3⟩
  obtain ⟨w2, v2, b1, b2, b3, b4, b5⟩ := mid
  obtain ⟨w3, v3, toks3, c1, c2, c3, c4, c5⟩ := applyStep_simNB i g src B w2 v2 toks1 _ b2 b3
    hokB hB
  refine ⟨w3, v3, toks3, ?_, c2, ?_, (c4.trans b4).trans a4, ?_⟩
  · rw [List.append_assoc, applyStep_append, a1]
    simp only
    rw [applyStep_append, b1]
    exact c1
  · rw [List.map_append, List.map_append, Woodpile.Pipe.run_append, Woodpile.Pipe.run_append]
    exact c3
  · intro x hx
    obtain ⟨d1, d2⟩ := b5 x hx
    obtain ⟨e1, e2⟩ := c5 x d1
    refine ⟨e1, e2.trans (d2.trans ?_)⟩
    obtain ⟨hx1, hx2, hx3⟩ := hx
    exact (a5 x (hsrc.sub x hx1 (by omega) hx3)).2

/-! ### The encoder -/

theorem flushE_noBorrow (s : EncState) : ∀ e ∈ flushE s, NoBorrow e := by
  intro e he hb
  unfold flushE at he
  split at he
  · simp only [List.mem_singleton] at he; subst he; cases hb
  · cases he

theorem closeE_noBorrow (p : Params) (s : EncState) : ∀ e ∈ closeE p s, NoBorrow e := by
  intro e he _ bs hop
  simp only [closeE, Enc.closeHeader, List.mem_cons, List.not_mem_nil, or_false] at he
  rcases he with rfl | rfl <;> cases hop

theorem writeE_borrow (n : Nat) (X : List UInt8) :
    writeE .borrow n X = [] ∨ writeE .borrow n X = [⟨.append X, .borrow⟩] := by
  unfold writeE; split
  · exact Or.inl rfl
  · exact Or.inr rfl

/-- A `consume_once` call by the borrow method: its emits are non-borrowing ones, at most one
borrowed append of a prefix `X` of the input, non-borrowing ones; and it consumes at least `|X|`. -/
theorem once_shape (p : Params) (s : EncState) (nid : Nat) (input : List UInt8) :
    ∃ A B W X, (Enc.consumeOnce p s nid .borrow input).emits = A ++ W ++ B ∧
      (∀ e ∈ A, NoBorrow e) ∧ (∀ e ∈ B, NoBorrow e) ∧ (W = [] ∨ W = [⟨.append X, .borrow⟩]) ∧
      X <+: input ∧ X.length ≤ (Enc.consumeOnce p s nid .borrow input).consumed := by
  by_cases hA : s.mid ∧ input.head? = some FD
  · rw [consumeOnce_mid p s nid .borrow input hA]
    exact ⟨[], closeE p s, [], [], by simp, by simp, closeE_noBorrow p s, Or.inl rfl, List.nil_prefix, by simp⟩
  · cases hfs : findStuff (input.take ((flushS s).maxChunk - (flushS s).cur)) with
    | some i =>
      rw [consumeOnce_stuff p s nid .borrow input hA hfs]
      refine ⟨flushE s, _, _, _, rfl, flushE_noBorrow s, closeE_noBorrow p _, writeE_borrow _ _, ?_, ?_⟩
      · exact List.IsPrefix.trans (List.take_prefix _ _) (List.take_prefix _ _)
      · simp only [List.length_take]; omega
    | none =>
      by_cases hfull : (input.take ((flushS s).maxChunk - (flushS s).cur)).length
          = (flushS s).maxChunk - (flushS s).cur
      · rw [consumeOnce_full p s nid .borrow input hA hfs hfull]
        refine ⟨flushE s, _, _, _, rfl, flushE_noBorrow s, closeE_noBorrow p _, writeE_borrow _ _,
          List.take_prefix _ _, ?_⟩
        simp only [List.length_take]; omega
      · rw [consumeOnce_part p s nid .borrow input hA hfs hfull]
        refine ⟨flushE s, [], _, _, (List.append_nil _).symm, flushE_noBorrow s, by simp, writeE_borrow _ _, ?_, ?_⟩
        · exact List.IsPrefix.trans (List.take_prefix _ _) (List.take_prefix _ _)
        · simp only [List.length_take]; omega

theorem slice_advance_eq (base : Slice) (pos c : Nat) :
    ({ base with off := base.off + (pos + c), len := base.len - (pos + c) } : Slice) =
      { ({ base with off := base.off + pos, len := base.len - pos } : Slice) with
        off := ({ base with off := base.off + pos, len := base.len - pos } : Slice).off + c,
        len := ({ base with off := base.off + pos, len := base.len - pos } : Slice).len - c } := by
  simp only [Slice.mk.injEq, true_and]
  omega

/-- One `encode` call whose input is the held arena slice `base` (from offset `pos`): it does not
panic, and the iovec keeps representing the pipe on which the same emits are run. -/
theorem encFeed_simH (p : Params) (hp : p.Valid) (i : Nat) (g : List UInt8) (base : Slice) (fuel : Nat) :
    ∀ (w : World) (v : Iov) (e : EncW) (q : Pipe) (σ : BS) (input : List UInt8) (pos : Nat),
    w.iov i = some v → SimV w v g e.toks q → Rel p e.st e.nid q.total σ → σ.Inv p → σ.Inv2 →
    HeldOk w v { base with off := base.off + pos, len := base.len - pos } →
    w.sliceBytes { base with off := base.off + pos, len := base.len - pos } = input →
    ∃ w' v' e', encFeed p fuel w i e .borrow base input pos = some (w', e') ∧ w'.iov i = some v' ∧
      SimV w' v' g e'.toks (q.run ((Enc.feed p fuel e.st e.nid .borrow input).2.2.map (·.op))) ∧
      e'.st = (Enc.feed p fuel e.st e.nid .borrow input).1 ∧
      e'.nid = (Enc.feed p fuel e.st e.nid .borrow input).2.1 ∧ w'.exts = w.exts := by
  induction fuel with
  | zero =>
    intro w v e q σ input pos hv h _ _ _ _ _
    exact ⟨w, v, e, rfl, hv, by simpa [feed_zero, Pipe.run] using h, rfl, rfl, rfl⟩
  | succ fuel ih =>
    intro w v e q σ input pos hv h hrel h1 h2 hheld hbytes
    by_cases hne : input = []
    · subst hne
      exact ⟨w, v, e, encFeed_nil .., hv, by simpa [feed_nil, Pipe.run] using h,
        by simp [feed_nil], by simp [feed_nil], rfl⟩
    · have hok := once_opsOk p hrel q rfl .borrow input
      obtain ⟨A, B, W, X, hsh, hA, hB, hW, hX, hXc⟩ := once_shape p e.st e.nid input
      obtain ⟨hc, hrel'⟩ := consumeOnce_sim p hp e.st e.nid q.total σ .borrow input hrel h1
      obtain ⟨hc0, hc1, hfold⟩ := onceA_eq_fold p σ input hne h1
      rw [← hc] at hc0 hc1 hfold
      have hlen : input.length = base.len - pos := by
        rw [← hbytes]; exact sliceBytes_chunk_length w _ hheld.reg
      rw [hsh] at hok
      obtain ⟨w1, v1, toks1, g1, g2, g3, g4, g5⟩ := applyStep_simH i g _ A B W X input
        (Enc.consumeOnce p e.st e.nid .borrow input).consumed w v e.toks q hv h hok hA hB hW hX hXc hheld hbytes
      rw [← hsh] at g1 g3
      obtain ⟨h1', h2'⟩ := fold_inv p hp (input.take (Enc.consumeOnce p e.st e.nid .borrow input).consumed) σ h1 h2
      rw [← hfold] at h1' h2'
      have hrel'' : Rel p (Enc.consumeOnce p e.st e.nid .borrow input).st
          (Enc.consumeOnce p e.st e.nid .borrow input).nextId
          (q.run ((Enc.consumeOnce p e.st e.nid .borrow input).emits.map (·.op))).total (onceA p σ input).1 := by
        rw [run_total]; exact hrel'
      have hsub : SubAfter { base with off := base.off + pos, len := base.len - pos }
          (Enc.consumeOnce p e.st e.nid .borrow input).consumed
          { base with off := base.off + (pos + (Enc.consumeOnce p e.st e.nid .borrow input).consumed),
                      len := base.len - (pos + (Enc.consumeOnce p e.st e.nid .borrow input).consumed) } := by
        refine ⟨rfl, ?_, ?_⟩ <;> simp only <;> omega
      obtain ⟨f1, f2⟩ := g5 _ hsub
      obtain ⟨w2, v2, e2, k1, k2, k3, k4, k5, k6⟩ := ih w1 v1
        ⟨(Enc.consumeOnce p e.st e.nid .borrow input).st, (Enc.consumeOnce p e.st e.nid .borrow input).nextId, toks1⟩
        _ _ (input.drop (Enc.consumeOnce p e.st e.nid .borrow input).consumed)
        (pos + (Enc.consumeOnce p e.st e.nid .borrow input).consumed) g2 g3 hrel'' h1' h2' f1
        (by
          rw [f2, slice_advance_eq, sliceBytes_trim w _ _ (by simp only; omega), hbytes])
      refine ⟨w2, v2, e2, ?_, k2, ?_, ?_, ?_, k6.trans g4⟩
      · rw [encFeed_succ p fuel w i e .borrow base input pos hne, g1]
        exact k1
      · rw [feed_succ p fuel e.st e.nid .borrow input hne]
        simp only [List.map_append, Woodpile.Pipe.run_append]
        exact k3
      · rw [feed_succ p fuel e.st e.nid .borrow input hne]; exact k4
      · rw [feed_succ p fuel e.st e.nid .borrow input hne]; exact k5

/-! ### Whole runs with all input methods -/

/-- A call of the full vocabulary: the calls of `EncWorldComp.Call` (borrow / copy pieces, drains), or
`encode_read(reader, count, attempts)` with a scripted reader — anchored input read into the codec's own
arena (`encode_anchored(self.read_n(..)?)` is the same composite). -/
inductive ACall where
  | call (c : Call)
  | read (count attempts : Nat) (src : List UInt8) (script : List ReadN.Ev)
  deriving Repr, DecidableEq

/-- The bytes an `encode_read` / `decode_read` call feeds to the state machine: what `read_n` returns
(`C17`: the delivered prefix of the reader's stream), nothing when it fails. -/
def readPiece (count attempts : Nat) (src : List UInt8) (script : List ReadN.Ev) : List (Method × List UInt8) :=
  match (ReadN.readNCore ⟨src, script⟩ count attempts).res with
  | .ok got => [(.borrow, got)]
  | .err _ => []

/-- The pieces fed by a call list (an anchored piece reaches the state machine through `encode`, the
borrow method). -/
def apieces : List ACall → List (Method × List UInt8)
  | [] => []
  | .call c :: t => pieces [c] ++ apieces t
  | .read count attempts src script :: t => readPiece count attempts src script ++ apieces t

/-- All input bytes of a call list. -/
def ainputOf (calls : List ACall) : List UInt8 := ((apieces calls).map (·.2)).flatten

def encCallA (p : Params) (i : Nat) (r : Run) : ACall → Option Run
  | .call c => encCall p i r c
  | .read count attempts src script =>
    (encodeRead p r.w i r.e ⟨src, script⟩ count attempts).map fun x => ⟨x.1, x.2.1, r.drained⟩

def encCallsA (p : Params) (i : Nat) : Run → List ACall → Option Run
  | r, [] => some r
  | r, c :: t =>
    match encCallA p i r c with
    | none => none
    | some r' => encCallsA p i r' t

/-- `Encoder::new` followed by any calls. -/
def encPrefixA (p : Params) (pol : Policy) (tun : Tuning) (calls : List ACall) : Option Run :=
  match encInit p (World.fresh pol tun) 0 with
  | none => none
  | some (w1, e1) => encCallsA p 0 ⟨w1, e1, []⟩ calls

/-- `Encoder::new()`, the calls, `Encoder::finish()`: the final world and the drained bytes. -/
def encRunA (p : Params) (pol : Policy) (tun : Tuning) (calls : List ACall) : Option (World × List UInt8) :=
  match encPrefixA p pol tun calls with
  | none => none
  | some r => (encFinish p r.w 0 r.e).map fun w' => (w', r.drained)

/-- The old vocabulary embedded. -/
theorem encCallsA_call (p : Params) (i : Nat) (calls : List Call) (r : Run) :
    encCallsA p i r (calls.map .call) = encCalls p i r calls := by
  induction calls generalizing r with
  | nil => rfl
  | cons c t ih =>
    simp only [List.map_cons, encCallsA, encCalls, encCallA]
    cases encCall p i r c with
    | none => rfl
    | some r' => exact ih r'

theorem encRunA_call (p : Params) (pol : Policy) (tun : Tuning) (calls : List Call) :
    encRunA p pol tun (calls.map .call) = encRun p pol tun calls := by
  rw [encRun_eq]
  unfold encRunA encPrefixA encPrefix
  cases encInit p (World.fresh pol tun) 0 with
  | none => rfl
  | some x =>
    obtain ⟨w1, e1⟩ := x
    simp only [encCallsA_call]
    cases encCalls p 0 ⟨w1, e1, []⟩ calls <;> rfl

theorem pieces_feeds (X : List (Method × List UInt8)) : pieces (X.map fun x => Call.feed x.1 x.2) = X := by
  induction X with
  | nil => rfl
  | cons x t ih => simp [pieces, ih]

theorem pieces_cons (c : Call) (t : List Call) : pieces (c :: t) = pieces [c] ++ pieces t := by
  cases c <;> simp [pieces]

theorem apieces_call (calls : List Call) : apieces (calls.map .call) = pieces calls := by
  induction calls with
  | nil => rfl
  | cons c t ih =>
    simp only [List.map_cons, apieces, ih]
    cases c <;> simp [pieces]

theorem encFeed_runH (p : Params) (hp : p.Valid) (i : Nat) (d : List UInt8) (base : Slice)
    (w : World) (v : Iov) (e : EncW) (g : List UInt8) (input : List UInt8) (acc : List Emit)
    (q : Pipe) (evs : List Ev) (hv : w.iov i = some v) (hsim : SimV w v g e.toks q) (hq : q = runEv Pipe.empty evs)
    (hev : prodOps evs = acc.map (·.op)) (hrel : Rel p e.st e.nid q.total (input.foldl (byteStep p) BS.init))
    (hheld : HeldOk w v base) (hbytes : w.sliceBytes base = d) :
    ∃ w' e', encFeed p (2 * d.length + 2) w i e .borrow base d 0 = some (w', e') ∧
      RunInv p i ⟨w', e', g⟩ (input ++ d) (acc ++ (Enc.feedAll p e.st e.nid .borrow d).2.2) ∧
      e'.st = (Enc.feedAll p e.st e.nid .borrow d).1 ∧ e'.nid = (Enc.feedAll p e.st e.nid .borrow d).2.1 := by
  obtain ⟨h1, h2⟩ := fold_init_inv p hp input
  have hb0 : ({ base with off := base.off + 0, len := base.len - 0 } : Slice) = base := by simp
  obtain ⟨w', v', e', k1, k2, k3, k4, k5, _⟩ :=
    encFeed_simH p hp i g base (2 * d.length + 2) w v e q _ d 0 hv hsim hrel h1 h2
      (by rw [hb0]; exact hheld) (by rw [hb0]; exact hbytes)
  have hfs := feed_sim p hp .borrow (2 * d.length + 2) e.st e.nid q.total _ d hrel h1 h2 (by omega)
  refine ⟨w', e', k1, ?_, k4, k5⟩
  refine ⟨v', _, evs ++ ((Enc.feed p (2 * d.length + 2) e.st e.nid .borrow d).2.2.map (·.op)).map Ev.prod, k2, k3, ?_, ?_, ?_⟩
  · rw [Woodpile.Pipe.runEv_append, ← hq, runEv_prods]
  · rw [Woodpile.Pipe.prodOps_append, hev, prodOps_prods, List.map_append]; rfl
  · rw [k4, k5, run_total, List.foldl_append]
    exact hfs

/-- `readOwn` in terms of `World.readN` on the iovec's arena. -/
theorem readOwn_eq (w : World) (i : Nat) (v : Iov) (r : ReadN.Reader) (count attempts : Nat)
    (hv : w.iov i = some v) (w1 : World) (ar' : Arena) (res : Except Nat ASlice) (o : ReadN.Out)
    (h : w.readN v.arena r count attempts = (w1, ar', res, o)) (hv1 : w1.iov i = some v) :
    readOwn w i r count attempts = some (w1.setIov i (some { v with arena := ar' }), res, o) := by
  unfold readOwn
  rw [hv]
  simp only [h, hv1]

theorem SimV.pushed0 {w w' : World} {v v' : Iov} {g : List UInt8} {toks : List Backref} {q : Pipe}
    (h : SimV w v g toks q) (hp : Pushed w w' v v' []) : SimV w' v' g toks q := by
  have := h.append hp
  rwa [Pipe.append_nil] at this

/-- `encode_read` between calls of a run: never panics; the reader-side transcript is `read_n_impl`'s
(`ReadN.readNCore`); a failed read changes nothing but the arena (whose bump pointer is back where
`ensure_capacity` left it: `Props/C17.read_n_releases_unread` on `ReadN.readN`); a successful one returns
the number of bytes read and acts exactly as `encode` of those bytes. -/
theorem encodeRead_spec (p : Params) (hp : p.Valid) (i : Nat) (w : World) (e : EncW) (g : List UInt8)
    (input : List UInt8) (acc : List Emit) (count attempts : Nat) (src : List UInt8) (script : List ReadN.Ev)
    (hinv : RunInv p i ⟨w, e, g⟩ input acc) :
    ∃ v w' e' ret, w.iov i = some v ∧
      encodeRead p w i e ⟨src, script⟩ count attempts = some (w', e', ret, ReadN.readNCore ⟨src, script⟩ count attempts) ∧
      (∀ k, (ReadN.readNCore ⟨src, script⟩ count attempts).res = .err k →
        ret = .error k ∧ e' = e ∧ RunInv p i ⟨w', e, g⟩ input acc ∧
        w'.iov i = some { v with arena := (ReadN.readN w.tun v.arena w.next ⟨src, script⟩ count attempts).2.1 } ∧
        w'.flat v.slices = w.flat v.slices ∧ w'.exts = w.exts) ∧
      (∀ got, (ReadN.readNCore ⟨src, script⟩ count attempts).res = .ok got →
        ret = .ok got.length ∧ e'.st = (Enc.feedAll p e.st e.nid .borrow got).1 ∧
        e'.nid = (Enc.feedAll p e.st e.nid .borrow got).2.1 ∧
        RunInv p i ⟨w', e', g⟩ (input ++ got) (acc ++ (Enc.feedAll p e.st e.nid .borrow got).2.2)) := by
  obtain ⟨v, q, evs, hv, hsim, hq, hev, hrel⟩ := hinv
  simp only at hv hsim hrel
  obtain ⟨w1, ar', res, hrn, hv1, hex1, hpush, _, herr, hokr⟩ :=
    World.readN_spec w i v ⟨src, script⟩ count attempts hv hsim.inv
  have hro := readOwn_eq w i v ⟨src, script⟩ count attempts hv w1 ar' res _ hrn hv1
  have har : ar' = (ReadN.readN w.tun v.arena w.next ⟨src, script⟩ count attempts).2.1 := by
    rw [← (World.readN_arena w v.arena ⟨src, script⟩ count attempts).1, hrn]
  have hsim1 : SimV (w1.setIov i (some { v with arena := ar' })) { v with arena := ar' } g e.toks q :=
    hsim.pushed0 hpush
  have hv2 : (w1.setIov i (some { v with arena := ar' })).iov i = some { v with arena := ar' } := by simp
  cases hres : (ReadN.readNCore ⟨src, script⟩ count attempts).res with
  | err k =>
    have hre := herr k hres
    subst hre
    refine ⟨v, w1.setIov i (some { v with arena := ar' }), e, .error k, hv, ?_, ?_, ?_⟩
    · simp only [encodeRead, hro]
    · intro k' hk'
      cases hk'
      refine ⟨rfl, rfl, ⟨_, q, evs, hv2, hsim1, hq, hev, hrel⟩, by rw [hv2, har], ?_, hex1⟩
      have := hpush.flat
      simpa using this
    · intro got hg; cases hg
  | ok got =>
    obtain ⟨a, hra, hal, hab, hheld⟩ := hokr got hres
    subst hra
    by_cases hc0 : count = 0
    · have hg0 : got = [] := by
        subst hc0
        have : ReadN.readNCore ⟨src, script⟩ 0 attempts = ⟨.ok [], [], ⟨src, script⟩⟩ := by simp [ReadN.readNCore]
        rw [this] at hres
        simp only [ReadN.ReadRes.ok.injEq] at hres
        exact hres.symm
      subst hg0
      have hl0 : a.slice.len = 0 := by simpa using hal
      refine ⟨v, w1.setIov i (some { v with arena := ar' }), e, .ok 0, hv, ?_, ?_, ?_⟩
      · simp only [encodeRead, hro, encodeAnchored, hab, List.length_nil, encFeed_nil, pushAnchorOf, hl0, if_true]
      · intro k hk; cases hk
      · intro got' hg'
        cases hg'
        refine ⟨rfl, by simp [Enc.feedAll, feed_nil], by simp [Enc.feedAll, feed_nil], ?_⟩
        simp only [List.append_nil, Enc.feedAll, feed_nil]
        exact ⟨_, q, evs, hv2, hsim1, hq, hev, hrel⟩
    · obtain ⟨hheld1, c, hanc, hreg⟩ := hheld (by omega)
      obtain ⟨w3, e3, k1, k2, k3, k4⟩ := encFeed_runH p hp i got a.slice _ _ e g input acc q evs hv2 hsim1 hq hev hrel
        hheld1 hab
      obtain ⟨v3, q3, evs3, j1, j2, j3, j4, j5⟩ := k2
      simp only at j1 j2 j5
      by_cases hl0 : a.slice.len = 0
      · refine ⟨v, w3, e3, .ok got.length, hv, ?_, ?_, ?_⟩
        · have hg0 : got.length = 0 := by omega
          simp only [encodeRead, hro, encodeAnchored, hab, k1, pushAnchorOf, hal]
          simp only [hg0, if_true]
        · intro k hk; cases hk
        · intro got' hg'
          cases hg'
          exact ⟨rfl, k3, k4, ⟨v3, q3, evs3, j1, j2, j3, j4, j5⟩⟩
      · obtain ⟨m1, m2⟩ := World.pushAnchor_spec w3 i v3 a.anchor j1 j2.inv
        refine ⟨v, w3.setIov i (some { v3 with anchors := v3.anchors ++ [{ a.anchor with count := 0 }] }), e3,
          .ok got.length, hv, ?_, ?_, ?_⟩
        · have hg0 : ¬ got.length = 0 := by omega
          simp only [encodeRead, hro, encodeAnchored, hab, k1, pushAnchorOf, hal]
          simp only [hg0, if_false, m1]
        · intro k hk; cases hk
        · intro got' hg'
          cases hg'
          exact ⟨rfl, k3, k4, ⟨_, q3, evs3, by simp, j2.pushed0 m2, j3, j4, j5⟩⟩

/-- One call of the full vocabulary keeps the run invariant. -/
theorem encCallA_sim (p : Params) (hp : p.Valid) (i : Nat) (r : Run) (c : ACall) (input : List UInt8)
    (acc : List Emit) (hinv : RunInv p i r input acc) :
    ∃ r' acc', encCallA p i r c = some r' ∧ RunInv p i r' (input ++ ainputOf [c]) acc' ∧
      ∀ rest, Enc.runPieces.go p (apieces (c :: rest)) r.e.st r.e.nid acc =
        Enc.runPieces.go p (apieces rest) r'.e.st r'.e.nid acc' := by
  cases c with
  | call c =>
    obtain ⟨r', acc', h1, h2, h3⟩ := encCall_sim p hp i r c input acc hinv
    refine ⟨r', acc', h1, ?_, ?_⟩
    · have : ainputOf [ACall.call c] = inputOf [c] := by simp [ainputOf, inputOf, apieces]
      rw [this]; exact h2
    · intro rest
      have := h3 ((apieces rest).map fun x => Call.feed x.1 x.2)
      rw [pieces_cons, pieces_feeds] at this
      exact this
  | read count attempts src script =>
    obtain ⟨w, e, g⟩ := r
    obtain ⟨v, w', e', ret, _, h1, herr, hok⟩ := encodeRead_spec p hp i w e g input acc count attempts src script hinv
    cases hres : (ReadN.readNCore ⟨src, script⟩ count attempts).res with
    | err k =>
      obtain ⟨_, he', h3, _⟩ := herr k hres
      subst he'
      refine ⟨⟨w', e', g⟩, acc, by simp only [encCallA, h1, Option.map_some], ?_, ?_⟩
      · have : ainputOf [ACall.read count attempts src script] = [] := by
          simp [ainputOf, apieces, readPiece, hres]
        rw [this, List.append_nil]
        exact h3
      · intro rest
        simp [apieces, readPiece, hres]
    | ok got =>
      obtain ⟨_, k3, k4, h3⟩ := hok got hres
      have hin : ainputOf [ACall.read count attempts src script] = got := by
        simp [ainputOf, apieces, readPiece, hres]
      rw [hin]
      refine ⟨⟨w', e', g⟩, _, by simp only [encCallA, h1, Option.map_some], h3, ?_⟩
      intro rest
      simp only [apieces, readPiece, hres, List.cons_append, List.nil_append]
      show Enc.runPieces.go p ((Method.borrow, got) :: apieces rest) e.st e.nid acc = _
      rw [k3, k4]
      rfl

theorem ainputOf_cons (c : ACall) (t : List ACall) : ainputOf (c :: t) = ainputOf [c] ++ ainputOf t := by
  cases c <;> simp [ainputOf, apieces]

theorem ainputOf_call (calls : List Call) : ainputOf (calls.map .call) = inputOf calls := by
  simp [ainputOf, inputOf, apieces_call]

theorem encCallsA_sim (p : Params) (hp : p.Valid) (i : Nat) (calls : List ACall) :
    ∀ (r : Run) (input : List UInt8) (acc : List Emit), RunInv p i r input acc →
    ∃ r' acc', encCallsA p i r calls = some r' ∧ RunInv p i r' (input ++ ainputOf calls) acc' ∧
      Enc.runPieces.go p (apieces calls) r.e.st r.e.nid acc = Enc.runPieces.go p [] r'.e.st r'.e.nid acc' := by
  induction calls with
  | nil =>
    intro r input acc h
    exact ⟨r, acc, rfl, by simpa [ainputOf, apieces] using h, rfl⟩
  | cons c t ih =>
    intro r input acc h
    obtain ⟨r1, acc1, h1, h2, h3⟩ := encCallA_sim p hp i r c input acc h
    obtain ⟨r2, acc2, k1, k2, k3⟩ := ih r1 _ acc1 h2
    refine ⟨r2, acc2, by simp [encCallsA, h1, k1], ?_, (h3 t).trans k3⟩
    rw [ainputOf_cons, ← List.append_assoc]; exact k2

/-- `Encoder::new` followed by any calls (all input methods): never panics; the invariant holds
between calls. -/
theorem encPrefixA_inv (p : Params) (hp : p.Valid) (pol : Policy) (tun : Tuning) (calls : List ACall) :
    ∃ r acc, encPrefixA p pol tun calls = some r ∧ RunInv p 0 r (ainputOf calls) acc ∧
      Enc.runPieces p (apieces calls) = acc ++ Enc.finish p r.e.st := by
  obtain ⟨w1, e1, h1, h2, h3, h4⟩ := encInit_sim p pol tun
  obtain ⟨r, acc, k1, k2, k3⟩ := encCallsA_sim p hp 0 calls ⟨w1, e1, []⟩ [] _ h2
  refine ⟨r, acc, by simp only [encPrefixA, h1, k1], by simpa using k2, ?_⟩
  simp only at k3
  rw [h3, h4] at k3
  exact k3

/-- The whole run, all input methods. -/
theorem encRunA_sim (p : Params) (hp : p.Valid) (pol : Policy) (tun : Tuning) (calls : List ACall) :
    ∃ w' v' dr evs, encRunA p pol tun calls = some (w', dr) ∧ w'.iov 0 = some v' ∧ IovInv w' v' ∧
      prodOps evs = (Enc.runPieces p (apieces calls)).map (·.op) ∧
      absCells w' v' = (runEv Woodpile.Pipe.empty evs).cells ∧
      dr = (runEv Woodpile.Pipe.empty evs).consumed ∧
      v'.hasPending = false ∧ dr ++ w'.flat v'.slices = Spec.encode p (ainputOf calls) ∧
      w'.visible v' = w'.flat v'.slices := by
  obtain ⟨r, acc, h1, h2, h3⟩ := encPrefixA_inv p hp pol tun calls
  obtain ⟨w', v', evs, k1, k2, k3, k4, k5, k6, k7, k8, k9⟩ := encFinish_sim p hp 0 r _ acc h2
  refine ⟨w', v', r.drained, evs, ?_, k2, k3, by rw [h3]; exact k4, k5, k6, k7, k8, k9⟩
  simp only [encRunA, h1, k1, Option.map_some]

/-- Structural lag of the encoder between calls, all input methods (as `enc_lag_struct`). -/
theorem enc_lag_structA (p : Params) (hp : p.Valid) (pol : Policy) (tun : Tuning) (calls : List ACall) :
    ∃ r v e s c, encPrefixA p pol tun calls = some r ∧ r.w.iov 0 = some v ∧ IovInv r.w v ∧
      e ∈ v.backrefs ∧ e.2.len = r.e.st.brLen ∧
      v.slices[e.2.sliceIndex - v.consumedSlices]? = some s ∧ s.region = .chunk c ∧
      e.2.begin + r.e.st.brLen ≤ s.len ∧
      v.totalSize - (r.w.visible v).length = e.2.begin + r.e.st.brLen + r.e.st.cur ∧
      1 ≤ r.e.st.brLen ∧ r.e.st.brLen ≤ 2 ∧
      r.e.st.cur + (if r.e.st.mid then 1 else 0) < r.e.st.maxChunk ∧
      (r.e.st.maxChunk = p.maxInit ∨ r.e.st.maxChunk = p.maxSub) := by
  obtain ⟨r, acc, h1, ⟨v, q, evs, hv, hsim, _, _, hrel⟩, _⟩ := encPrefixA_inv p hp pol tun calls
  obtain ⟨hi1, _⟩ := fold_init_inv p hp (ainputOf calls)
  generalize (ainputOf calls).foldl (byteStep p) BS.init = σ at hrel hi1
  obtain ⟨hmax, hcur, hmid, hbr, hnid, hq⟩ := hrel
  have hk : 1 ≤ r.e.st.brLen ∧ r.e.st.brLen ≤ 2 := by cases hf : σ.first <;> simp [hbr, hf]
  have hcells := cells_of_total_pipeOf q σ.done σ.body r.e.st.brLen r.e.st.backref hk.1 hq
  have hm : Cell.hole r.e.st.backref ∈ q.cells := by
    rw [hcells]
    simp only [List.mem_append, List.mem_replicate]
    exact Or.inl (Or.inr ⟨by omega, trivial⟩)
  obtain ⟨e, _, he, hek, hel⟩ := hsim.token _ hm
  have hcnt : q.cells.count (Cell.hole r.e.st.backref) = r.e.st.brLen := by
    rw [← count_hole_total, hq, count_hole_pipeOf]
  have habs : absCells r.w v = (σ.done.drop q.consumed.length).map Cell.byte ++
      List.replicate r.e.st.brLen (Cell.hole (tokKey r.e.toks r.e.st.backref)) ++ σ.body.map Cell.byte := by
    rw [hsim.cells, hcells, List.map_append, List.map_append, rename_map_byte, rename_map_byte,
      rename_replicate_hole]
  obtain ⟨g1, s, c, g2, g3, g4⟩ := lag_of_single_hole hsim.inv _ _ _ _ hk.1 habs e he hek (by rw [hel, hcnt])
  have hinv' : σ.eff.length < Spec.limit p σ.first := hi1
  have hM : σ.M p = Spec.limit p σ.first := rfl
  rw [BS.eff_length, ← hmid, ← hcur] at hinv'
  refine ⟨r, v, e, s, c, h1, hv, hsim.inv, he, by rw [hel, hcnt], g2, g3, g4, ?_, hk.1, hk.2, by omega, ?_⟩
  · rw [g1, hcur]
  · cases hf : σ.first
    · right; rw [hmax, hM, hf]; rfl
    · left; rw [hmax, hM, hf]; rfl

/-! ### The structural prefix property -/

theorem go_prefix (p : Params) (Y : List (Method × List UInt8)) :
    ∀ (s : EncState) (nid : Nat) (acc : List Emit), ∃ t, Enc.runPieces.go p Y s nid acc = acc ++ t := by
  induction Y with
  | nil => intro s nid acc; exact ⟨Enc.finish p s, rfl⟩
  | cons x t ih =>
    intro s nid acc
    obtain ⟨m, d⟩ := x
    obtain ⟨t', ht'⟩ := ih (Enc.feedAll p s nid m d).1 (Enc.feedAll p s nid m d).2.1 (acc ++ (Enc.feedAll p s nid m d).2.2)
    refine ⟨(Enc.feedAll p s nid m d).2.2 ++ t', ?_⟩
    have e : Enc.runPieces.go p ((m, d) :: t) s nid acc =
        Enc.runPieces.go p t (Enc.feedAll p s nid m d).1 (Enc.feedAll p s nid m d).2.1
          (acc ++ (Enc.feedAll p s nid m d).2.2) := rfl
    rw [e, ht', List.append_assoc]

theorem apieces_feeds (X : List (Method × List UInt8)) :
    apieces (X.map fun x => ACall.call (Call.feed x.1 x.2)) = X := by
  induction X with
  | nil => rfl
  | cons x t ih => simp [apieces, pieces, ih]

theorem apieces_append (x y : List ACall) : apieces (x ++ y) = apieces x ++ apieces y := by
  induction x with
  | nil => rfl
  | cons c t ih => cases c <;> simp [apieces, ih]

theorem ainputOf_append (x y : List ACall) : ainputOf (x ++ y) = ainputOf x ++ ainputOf y := by
  simp [ainputOf, apieces_append]

/-- `encCallsA_sim` with the emit list of the calls as a prefix of the emit list of any continuation. -/
theorem encCallsA_go (p : Params) (hp : p.Valid) (i : Nat) (calls : List ACall) :
    ∀ (r : Run) (input : List UInt8) (acc : List Emit), RunInv p i r input acc →
    ∃ r' acc', encCallsA p i r calls = some r' ∧ RunInv p i r' (input ++ ainputOf calls) acc' ∧
      ∀ Y, Enc.runPieces.go p (apieces calls ++ Y) r.e.st r.e.nid acc = Enc.runPieces.go p Y r'.e.st r'.e.nid acc' := by
  induction calls with
  | nil =>
    intro r input acc h
    exact ⟨r, acc, rfl, by simpa [ainputOf, apieces] using h, fun Y => rfl⟩
  | cons c t ih =>
    intro r input acc h
    obtain ⟨r1, acc1, h1, h2, h3⟩ := encCallA_sim p hp i r c input acc h
    obtain ⟨r2, acc2, k1, k2, k3⟩ := ih r1 _ acc1 h2
    refine ⟨r2, acc2, by simp [encCallsA, h1, k1], ?_, ?_⟩
    · rw [ainputOf_cons, ← List.append_assoc]; exact k2
    · intro Y
      have e1 := h3 (t ++ Y.map fun x => ACall.call (Call.feed x.1 x.2))
      have e2 : apieces (c :: (t ++ Y.map fun x => ACall.call (Call.feed x.1 x.2))) = apieces (c :: t) ++ Y := by
        rw [show c :: (t ++ Y.map fun x => ACall.call (Call.feed x.1 x.2)) =
          (c :: t) ++ Y.map fun x => ACall.call (Call.feed x.1 x.2) from rfl, apieces_append, apieces_feeds]
      rw [e2, apieces_append, apieces_feeds] at e1
      rw [e1]; exact k3 Y

/-- C09's prefix clause on the structural iovec: between the calls of any run (all input methods), the
bytes drained so far followed by the bytes of the stable prefix of the iovec (whole slices before the
slice of the earliest pending backref) are a prefix of the FINAL output `Spec.encode` of the whole input,
whatever calls follow. -/
theorem enc_prefix_struct (p : Params) (hp : p.Valid) (pol : Policy) (tun : Tuning) (c1 c2 : List ACall) :
    ∃ r v, encPrefixA p pol tun c1 = some r ∧ r.w.iov 0 = some v ∧ IovInv r.w v ∧
      r.drained ++ r.w.visible v <+: Spec.encode p (ainputOf (c1 ++ c2)) := by
  obtain ⟨w1, e1, h1, h2, h3, h4⟩ := encInit_sim p pol tun
  obtain ⟨r, acc, k1, k2, k3⟩ := encCallsA_go p hp 0 c1 ⟨w1, e1, []⟩ [] _ h2
  obtain ⟨v, q, evs, hv, hsim, hq, hev, _⟩ := k2
  refine ⟨r, v, by simp only [encPrefixA, h1, k1], hv, hsim.inv, ?_⟩
  -- the visible bytes are stable bytes of the pipe
  have hvis : r.w.visible v <+: q.stable := by
    have hc := absCells_visible hsim.inv
    rw [hsim.cells] at hc
    have := Pipe.stable_of_cells ⟨q.cells.map (renameCell (tokKey r.e.toks)), [], 0⟩ (r.w.visible v) _ hc
    simp only [Pipe.stable] at this
    rw [stable_rename] at this
    exact ⟨_, this.symm⟩
  -- the emits so far are a prefix of the emits of the whole run
  have hgo := k3 (apieces c2)
  simp only at hgo
  rw [h3, h4] at hgo
  obtain ⟨t, ht⟩ := go_prefix p (apieces c2) r.e.st r.e.nid acc
  have hrun : Enc.runPieces p (apieces (c1 ++ c2)) = acc ++ t := by
    rw [apieces_append]
    exact hgo.trans ht
  have hpre := Woodpile.Pipe.drain_prefix Pipe.empty evs ((t.map (·.op)).map Ev.prod)
  rw [Woodpile.Pipe.total_empty, Woodpile.Pipe.prodOps_append, prodOps_prods, hev, ← List.map_append, ← hrun, ← hq] at hpre
  have hspec := (Woodpile.Props.C01.enc_impl_refines_spec p hp (apieces (c1 ++ c2))).1
  unfold Enc.output at hspec
  rw [hspec] at hpre
  rw [hsim.ghost]
  refine List.IsPrefix.trans ?_ hpre
  obtain ⟨x, hx⟩ := hvis
  exact ⟨x, by rw [← hx, List.append_assoc]⟩

/-! ### The decoder -/

/-- A successful decoder step by the borrow method: non-borrowing emits, then at most one borrowed
append of a prefix `X` of the input; it consumes at least `|X|` and at most the input. -/
theorem dec_once_shape (p : Params) (s : DecState) (b : UInt8) (rest : List UInt8) (o : Dec.OnceOut)
    (h : Dec.once p .borrow s b rest = .ok o) :
    ∃ A W X, o.emits = A ++ W ++ [] ∧ (∀ e ∈ A, NoBorrow e) ∧ (W = [] ∨ W = [⟨.append X, .borrow⟩]) ∧
      X <+: (b :: rest) ∧ X.length ≤ o.consumed ∧ o.consumed ≤ (b :: rest).length := by
  cases s with
  | initial =>
    simp only [Dec.once] at h
    split at h
    · cases h
    · split at h <;> (cases h; exact ⟨[], [], [], rfl, by simp, Or.inl rfl, List.nil_prefix, by simp, by simp⟩)
  | beforeChunk ins =>
    simp only [Dec.once] at h
    split at h
    · cases h
    · cases h
      refine ⟨(if ins then [⟨.append [FE, FD], .copy⟩] else []), [], [], by simp, ?_, Or.inl rfl, List.nil_prefix, by simp, by simp⟩
      intro e he hb
      cases ins
      · cases he
      · simp only [if_true, List.mem_singleton] at he; subst he; cases hb
  | midHeader b0 =>
    simp only [Dec.once] at h
    split at h
    · cases h
    · split at h
      · cases h
      · split at h <;> (cases h; exact ⟨[], [], [], rfl, by simp, Or.inl rfl, List.nil_prefix, by simp, by simp⟩)
  | inChunk rem term =>
    simp only [Dec.once, Except.ok.injEq] at h
    subst h
    refine ⟨[], _, (b :: rest).take (min (b :: rest).length rem), by simp, by simp, Or.inr rfl,
      List.take_prefix _ _, ?_, Nat.min_le_left _ _⟩
    simp only [List.length_take]; omega

/-- One `decode` call whose input is the held arena slice `base` (from offset `pos`). -/
theorem decFeed_simH (p : Params) (i : Nat) (g : List UInt8) (base : Slice) (fuel : Nat) :
    ∀ (w : World) (v : Iov) (s : DecState) (q : Pipe) (input : List UInt8) (pos : Nat),
    w.iov i = some v → SimV w v g [] q →
    HeldOk w v { base with off := base.off + pos, len := base.len - pos } →
    w.sliceBytes { base with off := base.off + pos, len := base.len - pos } = input →
    ∃ w' v' res, decFeed p .borrow fuel w i s base input pos = some (w', res) ∧ w'.iov i = some v' ∧
      w'.exts = w.exts ∧
      (∀ s' es, Dec.feed p .borrow fuel s input = .ok (s', es) → res = .ok s' ∧
        SimV w' v' g [] (q.run (es.map (·.op)))) ∧
      (∀ err es, Dec.feed p .borrow fuel s input = .error (err, es) → res = .error err ∧
        SimV w' v' g [] (q.run (es.map (·.op)))) := by
  induction fuel with
  | zero =>
    intro w v s q input pos hv h _ _
    refine ⟨w, v, .ok s, rfl, hv, rfl, ?_, ?_⟩
    · intro s' es he; simp only [Dec.feed, Except.ok.injEq, Prod.mk.injEq] at he
      obtain ⟨rfl, rfl⟩ := he; exact ⟨rfl, by simpa [Pipe.run] using h⟩
    · intro err es he; simp [Dec.feed] at he
  | succ fuel ih =>
    intro w v s q input pos hv h hheld hbytes
    cases input with
    | nil =>
      refine ⟨w, v, .ok s, decFeed_nil .., hv, rfl, ?_, ?_⟩
      · intro s' es he; simp only [Dec.feed, Except.ok.injEq, Prod.mk.injEq] at he
        obtain ⟨rfl, rfl⟩ := he; exact ⟨rfl, by simpa [Pipe.run] using h⟩
      · intro err es he; simp [Dec.feed] at he
    | cons b rest =>
      obtain ⟨hsrcE, _⟩ := dec_once_src p .borrow s b rest
      have hao := Woodpile.Hcobs.DecProof.once_appendOnly p .borrow s b rest
      cases ho : Dec.once p .borrow s b rest with
      | error ee =>
        obtain ⟨err, es⟩ := ee
        rw [ho] at hao
        obtain ⟨w1, v1, toks1, g1, g2, g3, g4, _⟩ := applyStep_simNB i g base es w v [] q hv h
          (opsOk_appends _ _ hao) (fun e he hb _ _ => (hsrcE err es ho e he hb).elim)
        have := applyStep_toks_appends es hao g1
        subst this
        have hf : decFeed p .borrow (fuel + 1) w i s base (b :: rest) pos = some (w1, .error err) := by
          rw [decFeed_cons_error p .borrow fuel w i s base b rest pos err es ho, g1]
        rw [decfeed_cons_error p .borrow fuel s b rest _ ho]
        refine ⟨w1, v1, .error err, hf, g2, g4, ?_, ?_⟩
        · intro s' es' he; cases he
        · intro err' es' he
          simp only [Except.error.injEq, Prod.mk.injEq] at he
          obtain ⟨rfl, rfl⟩ := he
          exact ⟨rfl, g3⟩
      | ok o =>
        rw [ho] at hao
        obtain ⟨A, W, X, hsh, hA, hW, hX, hXc, hcl⟩ := dec_once_shape p s b rest o ho
        have hlen : (b :: rest).length = base.len - pos := by
          rw [← hbytes]; exact sliceBytes_chunk_length w _ hheld.reg
        have hok : OpsOk q ((A ++ W ++ ([] : List Emit)).map (·.op)) := by rw [← hsh]; exact opsOk_appends _ _ hao
        obtain ⟨w1, v1, toks1, g1, g2, g3, g4, g5⟩ := applyStep_simH i g _ A [] W X (b :: rest) o.consumed
          w v [] q hv h hok hA (by simp) hW hX hXc hheld hbytes
        rw [← hsh] at g1 g3
        have := applyStep_toks_appends o.emits hao g1
        subst this
        have hsub : SubAfter { base with off := base.off + pos, len := base.len - pos } o.consumed
            { base with off := base.off + (pos + o.consumed), len := base.len - (pos + o.consumed) } := by
          refine ⟨rfl, ?_, ?_⟩ <;> simp only <;> omega
        obtain ⟨f1, f2⟩ := g5 _ hsub
        obtain ⟨w2, v2, res, k1, k2, k3, k4, k5⟩ := ih w1 v1 o.st _ ((b :: rest).drop o.consumed)
          (pos + o.consumed) g2 g3 f1
          (by rw [f2, slice_advance_eq, sliceBytes_trim w _ _ (by simp only; omega), hbytes])
        have hf : decFeed p .borrow (fuel + 1) w i s base (b :: rest) pos = some (w2, res) := by
          rw [decFeed_cons_ok p .borrow fuel w i s base b rest pos o ho, g1]; exact k1
        rw [decfeed_cons_ok p .borrow fuel s b rest o ho]
        refine ⟨w2, v2, res, hf, k2, k3.trans g4, ?_, ?_⟩
        · intro s' es he
          cases hr : Dec.feed p .borrow fuel o.st ((b :: rest).drop o.consumed) with
          | error ee => rw [hr] at he; obtain ⟨e1, es1⟩ := ee; cases he
          | ok se =>
            obtain ⟨s1, es1⟩ := se
            rw [hr] at he
            simp only [Except.ok.injEq, Prod.mk.injEq] at he
            obtain ⟨rfl, rfl⟩ := he
            obtain ⟨a1, a2⟩ := k4 s1 es1 hr
            exact ⟨a1, by simpa [List.map_append, Woodpile.Pipe.run_append] using a2⟩
        · intro err es he
          cases hr : Dec.feed p .borrow fuel o.st ((b :: rest).drop o.consumed) with
          | ok se => rw [hr] at he; obtain ⟨s1, es1⟩ := se; cases he
          | error ee =>
            obtain ⟨e1, es1⟩ := ee
            rw [hr] at he
            simp only [Except.error.injEq, Prod.mk.injEq] at he
            obtain ⟨rfl, rfl⟩ := he
            obtain ⟨a1, a2⟩ := k5 e1 es1 hr
            exact ⟨a1, by simpa [List.map_append, Woodpile.Pipe.run_append] using a2⟩

/-- The calls (all input methods), then `Decoder::finish`; stops at the first decoding error.  A
failed read (io error) decodes nothing and the decoder lives on. -/
def decCallsA (p : Params) (i : Nat) : World → DecState → List UInt8 → List ACall →
    Option (World × List UInt8 × Except DecErr Unit)
  | w, s, dr, [] => some (w, dr, Dec.finish s)
  | w, s, dr, .call (.feed m d) :: t =>
    match decFeedCall p i w s m d with
    | none => none
    | some (w', .ok s') => decCallsA p i w' s' dr t
    | some (w', .error e) => some (w', dr, .error e)
  | w, s, dr, .call (.consume k) :: t =>
    match w.iov i, w.consume i k with
    | some v, some x => decCallsA p i x.1 s (dr ++ w.flat (v.slices.take x.2)) t
    | _, _ => none
  | w, s, dr, .call (.advance k) :: t =>
    match w.iov i, w.advance i k with
    | some v, some x => decCallsA p i x.1 s (dr ++ (w.flat v.slices).take x.2) t
    | _, _ => none
  | w, s, dr, .read count attempts src script :: t =>
    match decodeRead p w i s ⟨src, script⟩ count attempts with
    | none => none
    | some (w', .error _, _) => decCallsA p i w' s dr t
    | some (w', .ok (_, .ok s'), _) => decCallsA p i w' s' dr t
    | some (w', .ok (_, .error e), _) => some (w', dr, .error e)

/-- `Decoder::new()` on a fresh iovec, the calls, `finish()`. -/
def decRunA (p : Params) (pol : Policy) (tun : Tuning) (calls : List ACall) :
    Option (World × List UInt8 × Except DecErr Unit) :=
  decCallsA p 0 (World.fresh pol tun) .initial [] calls

theorem decCallsA_call (p : Params) (i : Nat) (calls : List Call) (w : World) (s : DecState) (dr : List UInt8) :
    decCallsA p i w s dr (calls.map .call) = decCalls p i w s dr calls := by
  induction calls generalizing w s dr with
  | nil => rfl
  | cons c t ih =>
    cases c with
    | feed m d =>
      simp only [List.map_cons, decCallsA, decCalls]
      cases decFeedCall p i w s m d with
      | none => rfl
      | some x =>
        obtain ⟨w', res⟩ := x
        cases res with
        | ok s' => exact ih w' s' dr
        | error e => rfl
    | consume k =>
      simp only [List.map_cons, decCallsA, decCalls]
      cases w.iov i <;> cases w.consume i k <;> simp only [ih]
    | advance k =>
      simp only [List.map_cons, decCallsA, decCalls]
      cases w.iov i <;> cases w.advance i k <;> simp only [ih]

/-- `decode_read`: the read, the `decode` of the held slice, the anchor. -/
theorem decodeRead_sim (p : Params) (i : Nat) (w : World) (v : Iov) (g : List UInt8) (s : DecState) (q : Pipe)
    (count attempts : Nat) (src : List UInt8) (script : List ReadN.Ev)
    (hv : w.iov i = some v) (h : SimV w v g [] q) :
    ∃ w' v' res o, decodeRead p w i s ⟨src, script⟩ count attempts = some (w', res, o) ∧ w'.iov i = some v' ∧
      (∀ k, (ReadN.readNCore ⟨src, script⟩ count attempts).res = .err k → res = .error k ∧ SimV w' v' g [] q) ∧
      (∀ got, (ReadN.readNCore ⟨src, script⟩ count attempts).res = .ok got →
        ∃ dres, res = .ok (got.length, dres) ∧
          (∀ s' es, Dec.feedAll p .borrow s got = .ok (s', es) → dres = .ok s' ∧
            SimV w' v' g [] (q.run (es.map (·.op)))) ∧
          (∀ err es, Dec.feedAll p .borrow s got = .error (err, es) → dres = .error err ∧
            SimV w' v' g [] (q.run (es.map (·.op))))) := by
  obtain ⟨w1, ar', res, hrn, hv1, _, hpush, _, herr, hokr⟩ :=
    World.readN_spec w i v ⟨src, script⟩ count attempts hv h.inv
  have hro := readOwn_eq w i v ⟨src, script⟩ count attempts hv w1 ar' res _ hrn hv1
  have hsim1 : SimV (w1.setIov i (some { v with arena := ar' })) { v with arena := ar' } g [] q := h.pushed0 hpush
  have hv2 : (w1.setIov i (some { v with arena := ar' })).iov i = some { v with arena := ar' } := by simp
  cases hres : (ReadN.readNCore ⟨src, script⟩ count attempts).res with
  | err k =>
    have hre := herr k hres
    subst hre
    refine ⟨w1.setIov i (some { v with arena := ar' }), { v with arena := ar' }, .error k,
      ReadN.readNCore ⟨src, script⟩ count attempts, by simp only [decodeRead, hro], hv2, ?_, ?_⟩
    · intro k' hk'; cases hk'; exact ⟨rfl, hsim1⟩
    · intro got hg; cases hg
  | ok got =>
    obtain ⟨a, hra, hal, hab, hheld⟩ := hokr got hres
    subst hra
    by_cases hc0 : count = 0
    · have hg0 : got = [] := by
        subst hc0
        have : ReadN.readNCore ⟨src, script⟩ 0 attempts = ⟨.ok [], [], ⟨src, script⟩⟩ := by simp [ReadN.readNCore]
        rw [this] at hres
        simp only [ReadN.ReadRes.ok.injEq] at hres
        exact hres.symm
      subst hg0
      have hl0 : a.slice.len = 0 := by simpa using hal
      refine ⟨w1.setIov i (some { v with arena := ar' }), { v with arena := ar' }, .ok (0, .ok s),
        ReadN.readNCore ⟨src, script⟩ count attempts, ?_, hv2, ?_, ?_⟩
      · simp only [decodeRead, hro, decodeAnchored, hab, List.length_nil, decFeed_nil, pushAnchorOf, hl0, if_true]
      · intro k hk; cases hk
      · intro got' hg'
        cases hg'
        refine ⟨.ok s, rfl, ?_, ?_⟩
        · intro s' es he
          simp only [Dec.feedAll, Dec.feed, Except.ok.injEq, Prod.mk.injEq] at he
          obtain ⟨rfl, rfl⟩ := he
          exact ⟨rfl, by simpa [Pipe.run] using hsim1⟩
        · intro err es he; simp [Dec.feedAll, Dec.feed] at he
    · obtain ⟨hheld1, c, hanc, hreg⟩ := hheld (by omega)
      have hb0 : ({ a.slice with off := a.slice.off + 0, len := a.slice.len - 0 } : Slice) = a.slice := by simp
      obtain ⟨w3, v3, dres, k1, k2, _, k4, k5⟩ := decFeed_simH p i g a.slice (got.length + 1) _ _ s q got 0 hv2 hsim1
        (by rw [hb0]; exact hheld1) (by rw [hb0]; exact hab)
      by_cases hl0 : a.slice.len = 0
      · refine ⟨w3, v3, .ok (got.length, dres), ReadN.readNCore ⟨src, script⟩ count attempts, ?_, k2, ?_, ?_⟩
        · have hg0 : got.length = 0 := by omega
          simp only [decodeRead, hro, decodeAnchored, hab, k1, pushAnchorOf, hal]
          simp only [hg0, if_true]
        · intro k hk; cases hk
        · intro got' hg'
          cases hg'
          exact ⟨dres, rfl, k4, k5⟩
      · have hiov3 : IovInv w3 v3 := by
          cases hf : Dec.feed p .borrow (got.length + 1) s got with
          | ok se => obtain ⟨s1, es1⟩ := se; exact (k4 s1 es1 hf).2.inv
          | error ee => obtain ⟨e1, es1⟩ := ee; exact (k5 e1 es1 hf).2.inv
        obtain ⟨m1, m2⟩ := World.pushAnchor_spec w3 i v3 a.anchor k2 hiov3
        refine ⟨w3.setIov i (some { v3 with anchors := v3.anchors ++ [{ a.anchor with count := 0 }] }),
          { v3 with anchors := v3.anchors ++ [{ a.anchor with count := 0 }] }, .ok (got.length, dres),
          ReadN.readNCore ⟨src, script⟩ count attempts, ?_, World.iov_setIov w3 i _, ?_, ?_⟩
        · have hg0 : ¬ got.length = 0 := by omega
          simp only [decodeRead, hro, decodeAnchored, hab, k1, pushAnchorOf, hal]
          simp only [hg0, if_false, m1]
        · intro k hk; cases hk
        · intro got' hg'
          cases hg'
          refine ⟨dres, rfl, ?_, ?_⟩
          · intro s' es he
            obtain ⟨a1, a2⟩ := k4 s' es he
            exact ⟨a1, a2.pushed0 m2⟩
          · intro err es he
            obtain ⟨a1, a2⟩ := k5 err es he
            exact ⟨a1, a2.pushed0 m2⟩

/-- The decoder's whole run (all input methods) on the structural iovec agrees with the pipe-level run
(`Dec.runPieces`): no panic, the same verdict; the iovec represents the pipe built by the emits. -/
theorem decCallsA_sim (p : Params) (i : Nat) (calls : List ACall) :
    ∀ (w : World) (v : Iov) (s : DecState) (dr : List UInt8) (evs : List Ev) (acc : List Emit),
    w.iov i = some v → SimV w v dr [] (runEv Woodpile.Pipe.empty evs) → prodOps evs = acc.map (·.op) →
    Woodpile.Hcobs.DecProof.AppendOnly acc →
    ∃ w' v' dr' res evs', decCallsA p i w s dr calls = some (w', dr', res) ∧ w'.iov i = some v' ∧
      SimV w' v' dr' [] (runEv Woodpile.Pipe.empty evs') ∧
      (prodOps evs').all Woodpile.Pipe.Op.isAppend = true ∧
      (∀ e, Dec.runPieces p (apieces calls) s acc = .error e → res = .error e) ∧
      (∀ es, Dec.runPieces p (apieces calls) s acc = .ok es → res = .ok () ∧ prodOps evs' = es.map (·.op)) := by
  induction calls with
  | nil =>
    intro w v s dr evs acc hv h hev hacc
    refine ⟨w, v, dr, Dec.finish s, evs, rfl, hv, h, by rw [hev]; exact hacc, ?_, ?_⟩
    · intro e he
      simp only [apieces, Dec.runPieces] at he
      cases hf : Dec.finish s with
      | error e' => rw [hf] at he; simp only [Except.error.injEq] at he; rw [he]
      | ok u => rw [hf] at he; cases he
    · intro es he
      simp only [apieces, Dec.runPieces] at he
      cases hf : Dec.finish s with
      | error e' => rw [hf] at he; cases he
      | ok u => rw [hf] at he; simp only [Except.ok.injEq] at he; subst he; exact ⟨rfl, hev⟩
  | cons c t ih =>
    intro w v s dr evs acc hv h hev hacc
    -- a piece `(m, d)` whose feed was simulated: shared by `feed` and `read`
    have piece : ∀ (m : Method) (d : List UInt8) (w1 : World) (v1 : Iov) (res1 : Except DecErr DecState),
        w1.iov i = some v1 →
        (∀ s' es, Dec.feedAll p m s d = .ok (s', es) → res1 = .ok s' ∧
          SimV w1 v1 dr [] ((runEv Woodpile.Pipe.empty evs).run (es.map (·.op)))) →
        (∀ err es, Dec.feedAll p m s d = .error (err, es) → res1 = .error err ∧
          SimV w1 v1 dr [] ((runEv Woodpile.Pipe.empty evs).run (es.map (·.op)))) →
        ∃ w' v' dr' res evs',
          (match res1 with
            | .ok s' => decCallsA p i w1 s' dr t
            | .error e => some (w1, dr, .error e)) = some (w', dr', res) ∧ w'.iov i = some v' ∧
          SimV w' v' dr' [] (runEv Woodpile.Pipe.empty evs') ∧
          (prodOps evs').all Woodpile.Pipe.Op.isAppend = true ∧
          (∀ e, Dec.runPieces p ((m, d) :: apieces t) s acc = .error e → res = .error e) ∧
          (∀ es, Dec.runPieces p ((m, d) :: apieces t) s acc = .ok es → res = .ok () ∧
            prodOps evs' = es.map (·.op)) := by
      intro m d w1 v1 res1 h2 h3 h4
      have hao := Woodpile.Hcobs.DecProof.feed_appendOnly p m (d.length + 1) s d
      cases hf : Dec.feedAll p m s d with
      | error ee =>
        obtain ⟨err, es⟩ := ee
        obtain ⟨a1, a2⟩ := h4 err es hf
        subst a1
        unfold Dec.feedAll at hf
        rw [hf] at hao
        refine ⟨w1, v1, dr, .error err, evs ++ (es.map (·.op)).map Ev.prod, rfl, h2, ?_, ?_, ?_, ?_⟩
        · rw [Woodpile.Pipe.runEv_append, runEv_prods]; exact a2
        · rw [Woodpile.Pipe.prodOps_append, prodOps_prods, hev, List.all_append, Bool.and_eq_true]
          exact ⟨hacc, hao⟩
        · intro e he
          simp only [Dec.runPieces, Dec.feedAll, hf, Except.error.injEq] at he
          rw [he]
        · intro es' he
          simp only [Dec.runPieces, Dec.feedAll, hf] at he
          cases he
      | ok se =>
        obtain ⟨s1, es⟩ := se
        obtain ⟨a1, a2⟩ := h3 s1 es hf
        subst a1
        have hf' := hf
        unfold Dec.feedAll at hf'
        rw [hf'] at hao
        obtain ⟨w2, v2, dr2, res2, evs2, k1, k2, k3, k4, k5, k6⟩ := ih w1 v1 s1 dr
          (evs ++ (es.map (·.op)).map Ev.prod) (acc ++ es) h2
          (by rw [Woodpile.Pipe.runEv_append, runEv_prods]; exact a2)
          (by rw [Woodpile.Pipe.prodOps_append, prodOps_prods, hev, List.map_append])
          (Woodpile.Hcobs.DecProof.appendOnly_append hacc hao)
        refine ⟨w2, v2, dr2, res2, evs2, k1, k2, k3, k4, ?_, ?_⟩
        · intro e he
          simp only [Dec.runPieces, hf] at he
          exact k5 e he
        · intro es' he
          simp only [Dec.runPieces, hf] at he
          exact k6 es' he
    cases c with
    | call c =>
      cases c with
      | feed m d =>
        obtain ⟨w1, v1, res1, h1, h2, h3, h4⟩ := decFeedCall_sim p i m d w v dr s _ hv h
        obtain ⟨w', v', dr', res, evs', g1, g2⟩ := piece m d w1 v1 res1 h2 h3 h4
        refine ⟨w', v', dr', res, evs', ?_, by simpa [apieces, pieces] using g2⟩
        simp only [decCallsA, h1]
        cases res1 <;> exact g1
      | consume k =>
        obtain ⟨v', h1, h2, _⟩ := World.consume_spec w i v k hv h.inv
        have hm : sumLens (v.slices.take (min k v.stableN)) ≤ sumLens (v.slices.take v.stableN) :=
          sumLens_take_mono _ (Nat.min_le_right _ _)
        obtain ⟨g1, _, _⟩ := h.consumed h2 hm
        rw [flat_take_prefix w v.arena v.slices _ h.inv.slices_ok] at g1
        obtain ⟨w2, v2, dr2, res2, evs2, k1, k2, k3, k4, k5, k6⟩ := ih (w.setIov i (some v')) v' s
          (dr ++ w.flat (v.slices.take (min k v.stableN)))
          (evs ++ [.drain (sumLens (v.slices.take (min k v.stableN)))]) acc (by simp)
          (by rw [Woodpile.Pipe.runEv_append]; exact g1.setIov i _)
          (by rw [Woodpile.Pipe.prodOps_append, hev]; simp [prodOps]) hacc
        exact ⟨w2, v2, dr2, res2, evs2, by simp only [decCallsA, hv, h1]; exact k1, k2, k3, k4,
          by simpa [apieces, pieces] using k5, by simpa [apieces, pieces] using k6⟩
      | advance k =>
        obtain ⟨v', h1, h2⟩ := World.advance_spec w i v k hv h.inv
        obtain ⟨g1, _, _⟩ := h.consumed h2 (Nat.min_le_right _ _)
        obtain ⟨w2, v2, dr2, res2, evs2, k1, k2, k3, k4, k5, k6⟩ := ih (w.setIov i (some v')) v' s
          (dr ++ (w.flat v.slices).take (min k (sumLens (v.slices.take v.stableN))))
          (evs ++ [.drain (min k (sumLens (v.slices.take v.stableN)))]) acc (by simp)
          (by rw [Woodpile.Pipe.runEv_append]; exact g1.setIov i _)
          (by rw [Woodpile.Pipe.prodOps_append, hev]; simp [prodOps]) hacc
        exact ⟨w2, v2, dr2, res2, evs2, by simp only [decCallsA, hv, h1]; exact k1, k2, k3, k4,
          by simpa [apieces, pieces] using k5, by simpa [apieces, pieces] using k6⟩
    | read count attempts src script =>
      obtain ⟨w1, v1, res1, o, h1, h2, h3, h4⟩ := decodeRead_sim p i w v dr s _ count attempts src script hv h
      cases hres : (ReadN.readNCore ⟨src, script⟩ count attempts).res with
      | err k =>
        obtain ⟨a1, a2⟩ := h3 k hres
        subst a1
        obtain ⟨w2, v2, dr2, res2, evs2, k1, k2, k3, k4, k5, k6⟩ := ih w1 v1 s dr evs acc h2 a2 hev hacc
        exact ⟨w2, v2, dr2, res2, evs2, by simp only [decCallsA, h1]; exact k1, k2, k3, k4,
          by simpa [apieces, readPiece, hres] using k5, by simpa [apieces, readPiece, hres] using k6⟩
      | ok got =>
        obtain ⟨dres, a1, a2, a3⟩ := h4 got hres
        subst a1
        obtain ⟨w', v', dr', res, evs', g1, g2⟩ := piece .borrow got w1 v1 dres h2 a2 a3
        refine ⟨w', v', dr', res, evs', ?_, by simpa [apieces, readPiece, hres] using g2⟩
        simp only [decCallsA, h1]
        cases dres <;> exact g1

/-- The decoder's whole run, all input methods (as `decRun_sim`). -/
theorem decRunA_sim (p : Params) (pol : Policy) (tun : Tuning) (calls : List ACall) :
    ∃ w' v' dr res, decRunA p pol tun calls = some (w', dr, res) ∧ w'.iov 0 = some v' ∧ IovInv w' v' ∧
      v'.hasPending = false ∧ w'.visible v' = w'.flat v'.slices ∧
      (∀ e, res = .error e ↔ Dec.output p (apieces calls) = .error e) ∧
      (res = .ok () ↔ Dec.output p (apieces calls) = .ok (dr ++ w'.flat v'.slices)) ∧
      (res = .ok () ↔ ∃ d, Dec.output p (apieces calls) = .ok d) := by
  obtain ⟨w', v', dr, res, evs, h1, h2, h3, h4, h5, h6⟩ := decCallsA_sim p 0 calls (World.fresh pol tun) Iov.empty
    .initial [] [] [] rfl (simV_fresh pol tun) rfl rfl
  have hlag := Woodpile.Pipe.drain_complete Woodpile.Pipe.empty evs
  rw [Woodpile.Pipe.total_empty] at hlag
  have hpend : (runEv Woodpile.Pipe.empty evs).pending = false := by
    rw [hlag.2]; exact Woodpile.Pipe.pending_run_appendOnly _ _ h4 rfl
  obtain ⟨g1, g2, g3, _⟩ := h3.no_pending hpend
  have hbytes : dr ++ w'.flat v'.slices = (Woodpile.Pipe.empty.run (prodOps evs)).bytes := by
    rw [g3, h3.ghost]; exact hlag.1
  refine ⟨w', v', dr, res, h1, h2, h3.inv, g1, g2, ?_⟩
  unfold Dec.output
  cases hr : Dec.runPieces p (apieces calls) .initial [] with
  | error e0 =>
    have := h5 e0 hr
    subst this
    refine ⟨fun e => by simp, by simp, by simp⟩
  | ok es =>
    obtain ⟨a1, a2⟩ := h6 es hr
    subst a1
    rw [a2] at hbytes
    refine ⟨fun e => by simp, by simp [hbytes], by simp⟩

theorem decRunA_call (p : Params) (pol : Policy) (tun : Tuning) (calls : List Call) :
    decRunA p pol tun (calls.map .call) = decRun p pol tun calls := decCallsA_call p 0 calls _ _ _

/-! ### The run as a list of operations (all input methods) -/

/-- What the codec, its caller and its consumer do to the world, all input methods: the operations of
`XOp` — where `pushAt` now also names sub-slices of arena memory the caller holds —, `read_n` on the
iovec's own arena (not an iovec call: it moves the arena's bump pointer and writes fresh memory), and
`push_anchor`. -/
inductive AXOp where
  | x (o : XOp)
  | readN (count attempts : Nat) (src : List UInt8) (script : List ReadN.Ev)
  | pushAnchor (a : Anchor)
  deriving Repr, DecidableEq

def axstep (i : Nat) (s : State) : AXOp → Option (State × Ret)
  | .x o => xstep i s o
  | .readN count attempts src script =>
    (readOwn s.w i ⟨src, script⟩ count attempts).map fun y => ({ s with w := y.1 }, .unit)
  | .pushAnchor a => (s.w.pushAnchor i a).map fun w' => ({ s with w := w' }, .unit)

def axrun (i : Nat) : State → List AXOp → Option (State × List Ret)
  | s, [] => some (s, [])
  | s, o :: ops =>
    match axstep i s o with
    | none => none
    | some (s', r) =>
      match axrun i s' ops with
      | none => none
      | some (s'', rs) => some (s'', r :: rs)

/-- `ops` runs from `s` to `s'` without panicking. -/
def AXR (i : Nat) (s : State) (ops : List AXOp) (s' : State) : Prop := ∃ rs, axrun i s ops = some (s', rs)

theorem AXR.nil (i : Nat) (s : State) : AXR i s [] s := ⟨[], rfl⟩

theorem AXR.cons {i : Nat} {s s1 s2 : State} {o : AXOp} {ops : List AXOp} {r : Ret}
    (h1 : axstep i s o = some (s1, r)) (h2 : AXR i s1 ops s2) : AXR i s (o :: ops) s2 := by
  obtain ⟨rs, h2⟩ := h2
  exact ⟨r :: rs, by simp [axrun, h1, h2]⟩

theorem AXR.append {i : Nat} {s s1 s2 : State} {a b : List AXOp} (h1 : AXR i s a s1) (h2 : AXR i s1 b s2) :
    AXR i s (a ++ b) s2 := by
  induction a generalizing s with
  | nil =>
    obtain ⟨rs, h1⟩ := h1
    simp only [axrun, Option.some.injEq, Prod.mk.injEq] at h1
    obtain ⟨rfl, _⟩ := h1
    exact h2
  | cons o t ih =>
    obtain ⟨rs, h1⟩ := h1
    simp only [axrun] at h1
    cases hs : axstep i s o with
    | none => rw [hs] at h1; cases h1
    | some sr =>
      obtain ⟨s', r⟩ := sr
      rw [hs] at h1
      simp only at h1
      cases hr : axrun i s' t with
      | none => rw [hr] at h1; cases h1
      | some srs =>
        obtain ⟨s'', rs'⟩ := srs
        rw [hr] at h1
        simp only [Option.some.injEq, Prod.mk.injEq] at h1
        obtain ⟨rfl, _⟩ := h1
        exact AXR.cons hs (ih ⟨rs', hr⟩)

/-- A run of the old vocabulary is a run of the new one. -/
theorem AXR.of_xr {i : Nat} {s s' : State} {ops : List XOp} (h : XR i s ops s') : AXR i s (ops.map .x) s' := by
  induction ops generalizing s with
  | nil =>
    obtain ⟨rs, h⟩ := h
    simp only [xrun, Option.some.injEq, Prod.mk.injEq] at h
    obtain ⟨rfl, _⟩ := h
    exact AXR.nil _ _
  | cons o t ih =>
    obtain ⟨rs, h⟩ := h
    simp only [xrun] at h
    cases hs : xstep i s o with
    | none => rw [hs] at h; cases h
    | some sr =>
      obtain ⟨s1, r⟩ := sr
      rw [hs] at h
      simp only at h
      cases hr : xrun i s1 t with
      | none => rw [hr] at h; cases h
      | some srs =>
        obtain ⟨s2, rs'⟩ := srs
        rw [hr] at h
        simp only [Option.some.injEq, Prod.mk.injEq] at h
        obtain ⟨rfl, _⟩ := h
        exact AXR.cons (o := .x o) (r := r) hs (ih ⟨rs', hr⟩)

/-- The operations of one `encode_read` call: the read; then, when it succeeded, the operations of
`encode` of the returned slice (`feedOps`: its borrowed appends are `pushAt` of sub-slices of that
slice), and the anchor (unless the slice is empty). -/
def readOps (p : Params) (i : Nat) (r : Run) (count attempts : Nat) (src : List UInt8) (script : List ReadN.Ev) :
    List AXOp :=
  .readN count attempts src script ::
    match readOwn r.w i ⟨src, script⟩ count attempts with
    | some (w1, .ok a, _) =>
      (feedOps p (2 * (w1.sliceBytes a.slice).length + 2) w1 i r.e .borrow a.slice (w1.sliceBytes a.slice) 0).map .x ++
        (if a.slice.len = 0 then [] else [.pushAnchor a.anchor])
    | _ => []

def acallOps (p : Params) (i : Nat) (r : Run) : ACall → List AXOp
  | .call c => (callOps p i r c).map .x
  | .read count attempts src script => readOps p i r count attempts src script

def acallsOps (p : Params) (i : Nat) : Run → List ACall → List AXOp
  | _, [] => []
  | r, c :: t =>
    acallOps p i r c ++
      match encCallA p i r c with
      | some r' => acallsOps p i r' t
      | none => []

theorem encCallA_axrun (p : Params) (i : Nat) (r r' : Run) (c : ACall) (n : Nat) (h : encCallA p i r c = some r') :
    ∃ n', AXR i ⟨r.w, r.drained, n⟩ (acallOps p i r c) ⟨r'.w, r'.drained, n'⟩ := by
  cases c with
  | call c =>
    obtain ⟨n', hx⟩ := encCall_xrun p i r r' c n h
    exact ⟨n', AXR.of_xr hx⟩
  | read count attempts src script =>
    simp only [encCallA, Option.map_eq_some_iff] at h
    obtain ⟨x, hx, rfl⟩ := h
    simp only [encodeRead] at hx
    cases hro : readOwn r.w i ⟨src, script⟩ count attempts with
    | none => rw [hro] at hx; cases hx
    | some y =>
      obtain ⟨w1, res, o⟩ := y
      rw [hro] at hx
      have hstep : axstep i ⟨r.w, r.drained, n⟩ (.readN count attempts src script) = some (⟨w1, r.drained, n⟩, .unit) := by
        simp [axstep, hro]
      cases res with
      | error k =>
        simp only [Option.some.injEq] at hx
        subst hx
        refine ⟨n, ?_⟩
        simp only [acallOps, readOps, hro]
        exact AXR.cons hstep (AXR.nil _ _)
      | ok a =>
        simp only [encodeAnchored] at hx
        cases hf : encFeed p (2 * (w1.sliceBytes a.slice).length + 2) w1 i r.e .borrow a.slice (w1.sliceBytes a.slice) 0 with
        | none => rw [hf] at hx; cases hx
        | some z =>
          obtain ⟨w2, e2⟩ := z
          rw [hf] at hx
          obtain ⟨n2, hfx⟩ := encFeed_xrun p i .borrow a.slice r.drained _ w1 w2 r.e e2 _ 0 n hf
          simp only [acallOps, readOps, hro]
          by_cases hl0 : a.slice.len = 0
          · simp only [pushAnchorOf, hl0, if_true, Option.some.injEq] at hx
            subst hx
            refine ⟨n2, AXR.cons hstep ?_⟩
            simp only [hl0, if_true, List.append_nil]
            exact AXR.of_xr hfx
          · simp only [pushAnchorOf, hl0, if_false] at hx
            cases hpa : w2.pushAnchor i a.anchor with
            | none => rw [hpa] at hx; cases hx
            | some w3 =>
              rw [hpa] at hx
              simp only [Option.some.injEq] at hx
              subst hx
              refine ⟨n2, AXR.cons hstep (AXR.append (AXR.of_xr hfx) ?_)⟩
              simp only [hl0, if_false]
              have hs : axstep i ⟨w2, r.drained, n2⟩ (.pushAnchor a.anchor) = some (⟨w3, r.drained, n2⟩, .unit) := by
                simp [axstep, hpa]
              exact AXR.cons hs (AXR.nil _ _)

theorem encCallsA_axrun (p : Params) (i : Nat) (calls : List ACall) :
    ∀ (r r' : Run) (n : Nat), encCallsA p i r calls = some r' →
      ∃ n', AXR i ⟨r.w, r.drained, n⟩ (acallsOps p i r calls) ⟨r'.w, r'.drained, n'⟩ := by
  induction calls with
  | nil =>
    intro r r' n h
    simp only [encCallsA, Option.some.injEq] at h
    subst h
    exact ⟨n, AXR.nil _ _⟩
  | cons c t ih =>
    intro r r' n h
    simp only [encCallsA] at h
    cases h1 : encCallA p i r c with
    | none => rw [h1] at h; cases h
    | some r1 =>
      rw [h1] at h
      obtain ⟨n1, hx⟩ := encCallA_axrun p i r r1 c n h1
      obtain ⟨n2, h2⟩ := ih r1 r' n1 h
      exact ⟨n2, by simp only [acallsOps, h1]; exact AXR.append hx h2⟩

/-- The operation list of a whole run: `Encoder::new`'s, each call's, `finish`'s. -/
def encRunOpsA (p : Params) (pol : Policy) (tun : Tuning) (calls : List ACall) : List AXOp :=
  (stepOps (World.fresh pol tun) 0 [] (Enc.init p 0).2 ⟨.ext 0, 0, 0⟩).map .x ++
    match encInit p (World.fresh pol tun) 0 with
    | none => []
    | some (w1, e1) =>
      acallsOps p 0 ⟨w1, e1, []⟩ calls ++
        match encCallsA p 0 ⟨w1, e1, []⟩ calls with
        | none => []
        | some r => (stepOps r.w 0 r.e.toks (Enc.finish p r.e.st) ⟨.ext 0, 0, 0⟩).map .x

theorem encRunA_axrun (p : Params) (pol : Policy) (tun : Tuning) (calls : List ACall) (w' : World) (dr : List UInt8)
    (h : encRunA p pol tun calls = some (w', dr)) :
    ∃ n, AXR 0 (State.init pol tun) (encRunOpsA p pol tun calls) ⟨w', dr, n⟩ := by
  unfold encRunA encPrefixA at h
  cases h0 : applyStep (World.fresh pol tun) 0 [] (Enc.init p 0).2 ⟨.ext 0, 0, 0⟩ with
  | none => simp [encInit, h0] at h
  | some x =>
    obtain ⟨w1, toks1⟩ := x
    have hi : encInit p (World.fresh pol tun) 0 = some (w1, ⟨(Enc.init p 0).1, 1, toks1⟩) := by
      simp only [encInit, h0]
    rw [hi] at h
    simp only at h
    obtain ⟨n1, hx1⟩ := applyStep_xrun (i := 0) [] _ 0 h0
    cases h1 : encCallsA p 0 ⟨w1, ⟨(Enc.init p 0).1, 1, toks1⟩, []⟩ calls with
    | none => rw [h1] at h; cases h
    | some r =>
      rw [h1] at h
      simp only [encFinish, Option.map_eq_some_iff, Prod.mk.injEq] at h
      obtain ⟨wf, ⟨x, h2, rfl⟩, rfl, rfl⟩ := h
      obtain ⟨n2, hx2⟩ := encCallsA_axrun p 0 calls _ r n1 h1
      obtain ⟨n3, hx3⟩ := applyStep_xrun (i := 0) r.drained _ n2 (toks' := x.2) (w' := x.1) h2
      refine ⟨n3, ?_⟩
      unfold encRunOpsA
      rw [hi]
      simp only [h1]
      exact AXR.append (AXR.of_xr hx1) (AXR.append hx2 (AXR.of_xr hx3))

end Woodpile.EncWorld

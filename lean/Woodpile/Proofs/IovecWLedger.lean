/-
Layer B → Layer A for the full multi-object vocabulary (track `wabs`), part 5: the per-handle ledger
(`LW`: everything appended to each handle since its last `clear`, placeholders filled in place; moved by
`take`, copied by `clone`), immutability of known bytes at the level of the reference (`pw_byte_persist`),
and an executable checker for the side condition of the step theorem (`World.okRunB`).
-/
import Woodpile.Proofs.IovecWRun

namespace Woodpile.Iovec
open Woodpile.Arena
open Woodpile.Pipe (Cell Pipe cellBytes fillCells)

/-! ### The ledger of every handle -/

structure LW where
  led : Nat → List Cell
  n : Nat
  toks : List Backref

def LW.init : LW := ⟨fun _ => [], 0, []⟩

def LW.structStep (s : LW) : WOp → LW
  | .new => { s with led := fupd s.led s.n [], n := s.n + 1 }
  | .newFromArena _ => { s with led := fupd s.led s.n [], n := s.n + 1 }
  | .newFromSlices bufs => { s with led := fupd s.led s.n (bufs.flatten.map Cell.byte), n := s.n + 1 }
  | .take i => { s with led := fupd (fupd s.led s.n (s.led i)) i [], n := s.n + 1 }
  | .clone i => { s with led := fupd s.led s.n (s.led i), n := s.n + 1 }
  | .drop i => { s with led := fupd s.led i [] }
  | _ => s

/-- Pushes append bytes, `register` appends placeholder cells, `backfill` fills them, `clear` resets,
consumer calls change nothing (`ledgerStep` of C03 on the named handle); `take` moves the ledger to the
fresh handle, `clone` copies it. -/
def LW.step (s : LW) (op : WOp) (r : WRet) : LW :=
  match op.asOp s.toks r with
  | some (i, o, r') => { s with led := fupd s.led i (ledgerStep (s.led i) o r'), toks := PW.tokStep s.toks op r }
  | none => s.structStep op

def LW.run (s : LW) : List WOp → List WRet → LW
  | op :: ops, r :: rs => (s.step op r).run ops rs
  | _, _ => s

/-- The ledger view of a reference state: consumed bytes followed by the buffered cells, per handle. -/
def PW.hist (s : PW) : LW := ⟨fun j => pipeHistory (s.pipe j), s.n, s.toks⟩

theorem LW.ext' {a b : LW} (h1 : ∀ j, a.led j = b.led j) (h2 : a.n = b.n) (h3 : a.toks = b.toks) : a = b := by
  cases a; cases b
  simp only at h1 h2 h3
  subst h2 h3
  congr 1
  funext j; exact h1 j

theorem pipeHistory_empty : pipeHistory Woodpile.Pipe.empty = [] := rfl

theorem hist_step (s : PW) (op : WOp) (r : WRet) (hok : s.ok op r) : (s.step op r).hist = s.hist.step op r := by
  unfold PW.step LW.step PW.ok at *
  simp only [PW.hist]
  cases hasop : op.asOp s.toks r with
  | some x =>
    obtain ⟨i, o, r'⟩ := x
    rw [hasop] at hok
    simp only at hok ⊢
    apply LW.ext'
    · intro j
      simp only [fupd]
      split
      · exact history_specStep _ o r' hok
      · rfl
    · rfl
    · rfl
  | none =>
    simp only
    cases op <;> apply LW.ext' <;> (try rfl) <;> intro j <;>
      simp only [PW.structStep, LW.structStep, fupd] <;> (try split) <;> (try split) <;>
      (try rfl) <;> simp [pipeHistory, Woodpile.Pipe.empty, Pipe.append]

theorem hist_run : ∀ (ops : List WOp) (s : PW) (rs : List WRet), s.okRun ops rs →
    (s.run ops rs).hist = s.hist.run ops rs := by
  intro ops
  induction ops with
  | nil => intro s rs _; cases rs <;> rfl
  | cons op ops ih =>
    intro s rs hok
    cases rs with
    | nil => exact absurd hok (by simp [PW.okRun])
    | cons r rs =>
      simp only [PW.okRun] at hok
      simp only [PW.run, LW.run]
      rw [ih _ _ hok.2, hist_step s op r hok.1]

/-! ### Known bytes stay: the reference level -/

/-- The calls that reset the pipe of handle `i`: `clear`, `take` (the contents move to a fresh handle),
`drop`. -/
def WOp.resets (op : WOp) (i : Nat) : Prop := op = .clear i ∨ op = .take i ∨ op = .drop i

theorem asOp_clear {toks : List Backref} {op : WOp} {r : WRet} {i : Nat} {r' : Ret}
    (h : op.asOp toks r = some (i, .clear, r')) : op = .clear i := by
  cases op <;> cases r <;> simp [WOp.asOp] at h <;> simp [h.1]

/-- One reference step keeps every byte cell of the history of a handle `i` that exists and is not reset. -/
theorem pw_byte_persist (s : PW) (op : WOp) (r : WRet) (i : Nat) (hi : i < s.n) (hnr : ¬ op.resets i)
    (hok : s.ok op r) (j : Nat) (b : UInt8) (h : (pipeHistory (s.pipe i))[j]? = some (Cell.byte b)) :
    (pipeHistory ((s.step op r).pipe i))[j]? = some (Cell.byte b) := by
  have hne : i ≠ s.n := Nat.ne_of_lt hi
  unfold PW.step PW.ok at *
  cases hasop : op.asOp s.toks r with
  | some x =>
    obtain ⟨i', o, r'⟩ := x
    rw [hasop] at hok
    simp only at hok ⊢
    simp only [fupd]
    split
    · rename_i e
      subst e
      rw [history_specStep _ o r' hok]
      apply ledgerStep_byte _ o r' _ j b h
      intro e
      subst e
      exact hnr (Or.inl (asOp_clear hasop))
    · exact h
  | none =>
    simp only
    cases op <;> simp only [PW.structStep, fupd, hne, if_false] <;> (try exact h)
    · -- take
      rename_i i'
      split
      · rename_i e; subst e; exact absurd (Or.inr (Or.inl rfl)) hnr
      · exact h
    · -- drop
      rename_i i'
      split
      · rename_i e; subst e; exact absurd (Or.inr (Or.inr rfl)) hnr
      · exact h

theorem pw_step_n (s : PW) (op : WOp) (r : WRet) : s.n ≤ (s.step op r).n := by
  unfold PW.step
  cases op.asOp s.toks r with
  | some x => exact Nat.le_refl _
  | none => cases op <;> simp [PW.structStep]

theorem pw_run_byte_persist (i : Nat) : ∀ (ops : List WOp) (s : PW) (rs : List WRet), i < s.n →
    (∀ op ∈ ops, ¬ op.resets i) → s.okRun ops rs → ∀ (j : Nat) (b : UInt8),
    (pipeHistory (s.pipe i))[j]? = some (Cell.byte b) → (pipeHistory ((s.run ops rs).pipe i))[j]? = some (Cell.byte b) := by
  intro ops
  induction ops with
  | nil => intro s rs _ _ _ j b h; cases rs <;> exact h
  | cons op ops ih =>
    intro s rs hi hnr hok j b h
    cases rs with
    | nil => exact absurd hok (by simp [PW.okRun])
    | cons r rs =>
      simp only [PW.okRun] at hok
      simp only [PW.run]
      exact ih _ _ (Nat.lt_of_lt_of_le hi (pw_step_n s op r)) (fun o ho => hnr o (by simp [ho])) hok.2 j b
        (pw_byte_persist s op r i hi (hnr op (by simp)) hok.1 j b h)

/-! ### Executable checker for the side condition -/

def rangeDisjB (k a n : Nat) (s : Slice) : Bool :=
  match s.region with
  | .chunk c => decide (c ≠ k) || decide (n = 0) || decide (s.off + s.len ≤ a) || decide (a + n ≤ s.off)
  | .ext _ => true

theorem rangeDisjB_sound {k a n : Nat} {s : Slice} (h : rangeDisjB k a n s = true) (hr : s.region = .chunk k) :
    Disj a n s := by
  simp only [rangeDisjB, hr, ne_eq, not_true_eq_false, decide_false, Bool.false_or, Bool.or_eq_true,
    decide_eq_true_eq] at h
  rcases h with (h | h) | h
  · exact Or.inl h
  · exact Or.inr (Or.inl h)
  · exact Or.inr (Or.inr h)

def World.noShareB (w : World) (X Y : Nat) : Bool :=
  match w.iov X, w.iov Y with
  | some vX, some vY =>
    vX.backrefs.all (fun e =>
      match vX.pendingRange e.2 with
      | some (k, a, n) => vY.slices.all (rangeDisjB k a n)
      | none => true)
  | _, _ => true

theorem World.noShareB_sound {w : World} {X Y : Nat} (h : w.noShareB X Y = true) : NoShare w X Y := by
  intro vX vY key info k a n hvX hvY hm hpr s hs hr
  simp only [World.noShareB, hvX, hvY, List.all_eq_true] at h
  have := h (key, info) hm
  simp only [hpr, List.all_eq_true] at this
  exact rangeDisjB_sound (this s hs) hr

def World.fillPrivateB (w : World) : WOp → Bool
  | .backfill X _ _ => (List.range w.iovs.length).all (fun j => decide (j = X) || w.noShareB X j)
  | _ => true

theorem World.fillPrivateB_sound {w : World} {op : WOp} (h : w.fillPrivateB op = true) : FillPrivate w op := by
  intro X b bs hop j hj
  subst hop
  simp only [World.fillPrivateB, List.all_eq_true, List.mem_range, Bool.or_eq_true, decide_eq_true_eq] at h
  by_cases hlt : j < w.iovs.length
  · rcases h j hlt with h1 | h1
    · exact absurd h1 hj
    · exact World.noShareB_sound h1
  · intro vX vY key info k a n _ hvY
    rw [iov_none_of_ge w j (by omega)] at hvY; cases hvY

/-- Run the history on the model and check the side condition before every step. -/
def World.okRunB (w : World) : List WOp → Bool
  | [] => true
  | op :: ops =>
    w.fillPrivateB op &&
      match w.step op with
      | some w' => w'.okRunB ops
      | none => true

theorem okRunB_sound : ∀ (ops : List WOp) (g : GW), g.w.okRunB ops = true → g.OkRun ops := by
  intro ops
  induction ops with
  | nil => intro g _; trivial
  | cons op ops ih =>
    intro g h
    simp only [World.okRunB, Bool.and_eq_true] at h
    obtain ⟨h2, h3⟩ := h
    refine ⟨World.fillPrivateB_sound h2, ?_⟩
    intro g' r hs
    have hw := (GW.step_some hs).1
    rw [hw] at h3
    exact ih g' h3

/-! ### One handle at a time: liveness and immutability with the side condition for that handle only -/

/-- Every live iovec of `w` is still live in `w'`. -/
def Keeps (w w' : World) : Prop := ∀ j v, w.iov j = some v → ∃ v', w'.iov j = some v'

theorem Keeps.refl (w : World) : Keeps w w := fun _ v h => ⟨v, h⟩
theorem Keeps.trans {a b c : World} (h1 : Keeps a b) (h2 : Keeps b c) : Keeps a c := by
  intro j v hv
  obtain ⟨v1, hv1⟩ := h1 j v hv
  exact h2 j v1 hv1

theorem keeps_of_iov_eq {w w' : World} (h : ∀ j, w'.iov j = w.iov j) : Keeps w w' :=
  fun j v hv => ⟨v, by rw [h]; exact hv⟩

theorem keeps_setIov (w : World) (i : Nat) (x : Iov) : Keeps w (w.setIov i (some x)) := by
  intro j v hv
  by_cases e : j = i
  · subst e; exact ⟨x, by simp⟩
  · exact ⟨v, by simp [e, hv]⟩

theorem keeps_pushCopy {w w' : World} {i : Nat} {src : List UInt8} (h : w.pushCopy i src = some w') : Keeps w w' := by
  obtain ⟨v, hv, ⟨_, rfl⟩ | ⟨_, arena', next', chunk, off, v2, _, _, rfl⟩⟩ := pushCopy_spec h
  · exact Keeps.refl _
  · exact (keeps_setIov w i v2).trans (keeps_of_iov_eq (fun _ => rfl))

theorem keeps_pushBorrowed {w w' : World} {i : Nat} {s : Slice} (h : w.pushBorrowed i s = some w') : Keeps w w' := by
  obtain ⟨v, hv, ⟨_, rfl⟩ | ⟨_, v', _, rfl⟩⟩ := pushBorrowed_spec h
  · exact Keeps.refl _
  · exact keeps_setIov w i v'

theorem keeps_push {w w' : World} {i : Nat} {s : Slice} (h : w.push i s = some w') : Keeps w w' := by
  rcases push_cases h with h | h
  · exact keeps_pushCopy h
  · exact keeps_pushBorrowed h

theorem keeps_extend {w w' : World} {i : Nat} {slices : List Slice} (h : w.extend i slices = some w') : Keeps w w' :=
  extend_preserves (fun x => Keeps w x) (fun _ _ _ _ hp _ hb => hp.trans (keeps_pushBorrowed hb))
    slices w i w' (Keeps.refl w) h (fun _ _ => trivial)

theorem keeps_consume {w w' : World} {i count k : Nat} (h : w.consume i count = some (w', k)) : Keeps w w' := by
  obtain ⟨v, n, v', hv, _, _, rfl⟩ := consume_spec h
  exact keeps_setIov w i v'

theorem keeps_advance {w w' : World} {i count c : Nat} (h : w.advance i count = some (w', c)) : Keeps w w' := by
  obtain ⟨v, n, v', k, hv, _, _, rfl⟩ := advance_spec h
  exact keeps_setIov w i v'

theorem keeps_readInto {w w' : World} {fuel i room : Nat} {acc out : List UInt8}
    (h : World.readInto fuel w i room acc = some (w', out)) : Keeps w w' :=
  readInto_preserves (fun x => Keeps w x) (fun _ _ _ _ _ hp hb => hp.trans (keeps_advance hb))
    fuel w i room acc w' out (Keeps.refl w) h

theorem keeps_backfill {w w' : World} {i : Nat} {b : Backref} {src : List UInt8} (h : w.backfill i b src = some w') :
    Keeps w w' := by
  obtain ⟨v, hv, ⟨_, _, rfl⟩ | ⟨key, info, target, k, _, _, _, _, _, _, _, rfl⟩⟩ := backfill_spec h
  · exact Keeps.refl _
  · exact (keeps_setIov w i _).trans (keeps_of_iov_eq (fun _ => rfl))

theorem keeps_registerPatch {w w' : World} {i : Nat} {pat : List UInt8} {b : Backref}
    (h : w.registerPatch i pat = some (w', b)) : Keeps w w' := by
  rcases registerPatch_spec h with ⟨_, rfl, _⟩ | ⟨_, w1, v, last, h1, hv, _, _, _, _, rfl⟩
  · exact Keeps.refl _
  · exact (keeps_pushCopy h1).trans (keeps_setIov w1 i _)

/-- An iovec stays live through every step but its own `drop`. -/
theorem step_keeps_live {w w' : World} {op : WOp} (h : w.step op = some w') {i : Nat} {v : Iov}
    (hv : w.iov i = some v) (hnd : op ≠ .drop i) : ∃ v', w'.iov i = some v' := by
  by_cases hj : op.iovTarget = some i
  · have key : Keeps w w' → ∃ v', w'.iov i = some v' := fun hk => hk i v hv
    cases op <;> simp only [WOp.iovTarget, Option.some.injEq, reduceCtorEq] at hj <;> subst hj
    · -- push
      simp only [World.step, World.addExt] at h
      exact key ((keeps_of_iov_eq (w' := { w with exts := w.exts ++ [_] }) (fun _ => rfl)).trans (keeps_push h))
    · simp only [World.step, World.addExt] at h
      exact key ((keeps_of_iov_eq (w' := { w with exts := w.exts ++ [_] }) (fun _ => rfl)).trans (keeps_pushBorrowed h))
    · exact key (keeps_pushCopy h)
    · -- register
      simp only [World.step] at h
      split at h
      · rename_i w1 b hr
        simp at h; subst h
        exact key ((keeps_registerPatch hr).trans (keeps_of_iov_eq (fun _ => rfl)))
      · simp at h
    · -- extend
      simp only [World.step] at h
      obtain ⟨h1, _⟩ := addExts_spec w _
      have hk := keeps_extend h
      rw [h1] at hk
      exact key ((keeps_of_iov_eq (w' := { w with exts := w.exts ++ _ }) (fun _ => rfl)).trans hk)
    · simp only [World.step] at h
      split at h
      · rename_i w1 c hc; simp at h; subst h; exact key (keeps_consume hc)
      · simp at h
    · simp only [World.step] at h
      split at h
      · rename_i w1 c hc; simp at h; subst h; exact key (keeps_advance hc)
      · simp at h
    · simp only [World.step] at h
      split at h
      · rename_i w1 c hc; simp at h; subst h; exact key (keeps_readInto hc)
      · simp at h
    · -- reserve
      simp only [World.step, hv] at h
      simp at h; subst h
      exact ⟨_, World.iov_setIov _ _ _⟩
    · -- pushASlice
      simp only [World.step] at h
      split at h
      · split at h
        · simp at h; subst h; exact ⟨v, by simpa using hv⟩
        · split at h
          · rename_i w1 hw1
            have hk1 := keeps_push hw1
            unfold World.pushAnchor at h
            split at h
            · simp at h
            · simp at h; subst h; exact ⟨_, World.iov_setIov _ _ _⟩
          · simp at h
      · simp at h
    · -- swapArena
      simp only [World.step, hv] at h
      split at h
      · simp at h; subst h; exact ⟨_, World.iov_setIov _ _ _⟩
      · simp at h
    · -- backfill
      simp only [World.step] at h
      split at h
      · exact key (keeps_backfill h)
      · simp at h
    · -- pop
      simp only [World.step] at h
      split at h
      · rename_i w1 hc; simp at h; subst h; exact key (keeps_consume hc)
      · simp at h
    · -- clear
      simp only [World.step, World.clear, hv] at h
      simp at h; subst h; exact ⟨_, World.iov_setIov _ _ _⟩
    · -- take
      simp only [World.step, World.take, hv] at h
      simp at h; subst h
      have hlen := setIov_length (some Iov.empty) hv
      have hin := Nat.ne_of_lt (iov_lt_of_some hv)
      exact ⟨Iov.empty, by rw [iov_addIov, hlen, if_neg hin]; simp⟩
    · -- clone
      simp only [World.step, World.clone, hv] at h
      simp at h; subst h
      have hin := Nat.ne_of_lt (iov_lt_of_some hv)
      exact ⟨v, by simp [hin, hv]⟩
    · exact absurd rfl hnd
    · -- flush
      simp only [World.step, hv] at h
      simp at h; subst h; exact ⟨_, World.iov_setIov _ _ _⟩
    · -- takeArena
      simp only [World.step, hv] at h
      simp at h; subst h; exact ⟨_, World.iov_setIov _ _ _⟩
    · -- readNIov
      rename_i count attempts src script
      simp only [World.step, World.readNIov, hv] at h
      rcases hr : w.readN v.arena ⟨src, script⟩ count attempts with ⟨w1, ar', res, o⟩
      simp only [hr] at h
      obtain ⟨hp', nx, rfl⟩ := readN_world hr
      have hiov : ({ w with heap := hp', next := nx } : World).iov _ = some v := hv
      simp only [hiov] at h
      cases res with
      | ok a => simp at h; subst h; exact ⟨_, World.iov_setIov _ _ _⟩
      | error k => simp at h; subst h; exact ⟨_, World.iov_setIov _ _ _⟩
    · -- pushAt
      simp only [World.step] at h
      split at h
      · exact key (keeps_push h)
      · simp at h
    · simp only [World.step] at h
      split at h
      · exact key (keeps_pushBorrowed h)
      · simp at h
  · exact ⟨v, step_frame_iov h hv hj⟩

/-- One step keeps every byte cell of the history of a live handle `i` that is not reset; the only side
condition concerns `i` itself: a `backfill` through another iovec must not land in memory `i` references. -/
theorem byte_persist_step {g g' : GW} {op : WOp} {r : WRet} {caps : Nat → Nat} (hg : GReach g.w caps)
    (h : g.step op = some (g', r)) {i : Nat} {v : Iov} (hv : g.w.iov i = some v) (hnr : ¬ op.resets i)
    (hff : FillFree g.w op i) (j : Nat) (b : UInt8) (hb : (pipeHistory (absW g i))[j]? = some (Cell.byte b)) :
    (pipeHistory (absW g' i))[j]? = some (Cell.byte b) := by
  obtain ⟨w', h1, rfl, rfl⟩ := GW.step_some' h
  have hall := hg.allInv
  by_cases hj : op.iovTarget = some i
  · obtain ⟨_, t2, t3⟩ := target_all hg h1 hj hv (hall i v hv)
    rw [t2]
    exact pw_byte_persist g.pw op _ i (iov_lt_of_some hv) hnr t3 j b hb
  · obtain ⟨f1, _, f3⟩ := frame_other hg h1 hv hj (hall i v hv) hff
    obtain ⟨e1, e2⟩ := ghost'_other g op i hj (Nat.ne_of_lt (iov_lt_of_some hv))
    have : absW ⟨w', g.ghost' op, g.nid' op⟩ i = absW g i := by
      rw [absW_live _ i v f1, absW_live g i v hv, absCells_congr f3]
      simp only [e1, e2]
    rw [this]; exact hb

/-- The side condition for handle `i` along a history. -/
def GW.FillFreeRun (i : Nat) : GW → List WOp → Prop
  | _, [] => True
  | g, op :: ops => FillFree g.w op i ∧ ∀ g' r, g.step op = some (g', r) → GW.FillFreeRun i g' ops

theorem byte_persist_run (i : Nat) : ∀ (ops : List WOp) (g g' : GW) (rs : List WRet) (caps : Nat → Nat) (v : Iov),
    GReach g.w caps → g.run ops = some (g', rs) → g.w.iov i = some v → (∀ op ∈ ops, ¬ op.resets i) →
    GW.FillFreeRun i g ops →
    (∃ v', g'.w.iov i = some v') ∧ ∀ (j : Nat) (b : UInt8),
      (pipeHistory (absW g i))[j]? = some (Cell.byte b) → (pipeHistory (absW g' i))[j]? = some (Cell.byte b) := by
  intro ops
  induction ops with
  | nil =>
    intro g g' rs caps v _ h hv _ _
    simp only [GW.run, Option.some.injEq, Prod.mk.injEq] at h
    obtain ⟨rfl, rfl⟩ := h
    exact ⟨⟨v, hv⟩, fun _ _ hb => hb⟩
  | cons op ops ih =>
    intro g g' rs caps v hg h hv hnr hff
    simp only [GW.run] at h
    cases h1 : g.step op with
    | none => rw [h1] at h; cases h
    | some gr =>
      obtain ⟨g1, r⟩ := gr
      rw [h1] at h
      simp only at h
      cases h2 : g1.run ops with
      | none => rw [h2] at h; cases h
      | some x =>
        obtain ⟨g2, rs2⟩ := x
        rw [h2] at h
        simp only [Option.some.injEq, Prod.mk.injEq] at h
        obtain ⟨rfl, rfl⟩ := h
        have hw1 := (GW.step_some h1).1
        obtain ⟨caps1, ho, hn⟩ := (step_astep hw1).exists_caps hg.reachable.inv hg.inv
        have hnr0 : ¬ op.resets i := hnr op (by simp)
        obtain ⟨v1, hv1⟩ := step_keeps_live hw1 hv (fun e => hnr0 (Or.inr (Or.inr e)))
        obtain ⟨a1, a2⟩ := ih g1 g2 rs2 caps1 v1 (hg.step hw1 ho hn) h2 hv1 (fun o ho' => hnr o (by simp [ho']))
          (hff.2 g1 r h1)
        exact ⟨a1, fun j b hb => a2 j b (byte_persist_step hg h1 hv hnr0 hff.1 j b hb)⟩

/-- Along the history, iovec `i` is never cloned while it has a placeholder pending. -/
def GW.CleanClonesOf (i : Nat) : GW → List WOp → Prop
  | _, [] => True
  | g, op :: ops => (∀ v, op = .clone i → g.w.iov i = some v → v.backrefs = []) ∧
      ∀ g' r, g.step op = some (g', r) → GW.CleanClonesOf i g' ops

/-- The per-handle side condition follows from a per-object premise: `i` references no other iovec's
pending placeholder memory now, and is never cloned while it has a placeholder pending. -/
theorem fillFreeRun_of_unshared (i : Nat) : ∀ (ops : List WOp) (g : GW) (caps : Nat → Nat), GReach g.w caps →
    i < g.w.iovs.length → Unshared g.w i → GW.CleanClonesOf i g ops → GW.FillFreeRun i g ops := by
  intro ops
  induction ops with
  | nil => intro g caps _ _ _ _; trivial
  | cons op ops ih =>
    intro g caps hg hi hu hc
    refine ⟨fun X b bs _ hX => hu X hX, ?_⟩
    intro g' r h1
    have hw1 := (GW.step_some h1).1
    obtain ⟨caps1, ho, hn⟩ := (step_astep hw1).exists_caps hg.reachable.inv hg.inv
    have hm := step_iovs_mono hw1
    exact ih g' caps1 (hg.step hw1 ho hn) (by omega) (unshared_step hg hw1 hi hu hc.1) (hc.2 g' r h1)

end Woodpile.Iovec

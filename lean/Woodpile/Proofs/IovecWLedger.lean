/-
Layer B → Layer A for the full multi-object vocabulary (track `wabs`), part 5: the per-handle ledger
(`LW`: everything appended to each handle since its last `clear`, placeholders filled in place; moved by
`take`, copied by `clone`), immutability of known bytes at the level of the reference (`pw_byte_persist`),
and an executable checker for the side condition of the step theorem (`World.okRunB`).
-/
import Woodpile.Proofs.IovecWRun

namespace Woodpile.Iovec
open Woodpile.Arena
open Woodpile.Pipe (Cell Pipe cellBytes fillCells)

/-! ### The ledger of every handle -/

structure LW where
  led : Nat → List Cell
  n : Nat
  toks : List Backref

def LW.init : LW := ⟨fun _ => [], 0, []⟩

def LW.structStep (s : LW) : WOp → LW
  | .new => { s with led := fupd s.led s.n [], n := s.n + 1 }
  | .newFromArena _ => { s with led := fupd s.led s.n [], n := s.n + 1 }
  | .newFromSlices bufs => { s with led := fupd s.led s.n (bufs.flatten.map Cell.byte), n := s.n + 1 }
  | .take i => { s with led := fupd (fupd s.led s.n (s.led i)) i [], n := s.n + 1 }
  | .clone i => { s with led := fupd s.led s.n (s.led i), n := s.n + 1 }
  | .drop i => { s with led := fupd s.led i [] }
  | _ => s

/-- Pushes append bytes, `register` appends placeholder cells, `backfill` fills them, `clear` resets,
consumer calls change nothing (`ledgerStep` of C03 on the named handle); `take` moves the ledger to the
fresh handle, `clone` copies it. -/
def LW.step (s : LW) (op : WOp) (r : WRet) : LW :=
  match op.asOp s.toks r with
  | some (i, o, r') => { s with led := fupd s.led i (ledgerStep (s.led i) o r'), toks := PW.tokStep s.toks op r }
  | none => s.structStep op

def LW.run (s : LW) : List WOp → List WRet → LW
  | op :: ops, r :: rs => (s.step op r).run ops rs
  | _, _ => s

/-- The ledger view of a reference state: consumed bytes followed by the buffered cells, per handle. -/
def PW.hist (s : PW) : LW := ⟨fun j => pipeHistory (s.pipe j), s.n, s.toks⟩

theorem LW.ext' {a b : LW} (h1 : ∀ j, a.led j = b.led j) (h2 : a.n = b.n) (h3 : a.toks = b.toks) : a = b := by
  cases a; cases b
  simp only at h1 h2 h3
  subst h2 h3
  congr 1
  funext j; exact h1 j

theorem pipeHistory_empty : pipeHistory Woodpile.Pipe.empty = [] := rfl

theorem hist_step (s : PW) (op : WOp) (r : WRet) (hok : s.ok op r) : (s.step op r).hist = s.hist.step op r := by
  unfold PW.step LW.step PW.ok at *
  simp only [PW.hist]
  cases hasop : op.asOp s.toks r with
  | some x =>
    obtain ⟨i, o, r'⟩ := x
    rw [hasop] at hok
    simp only at hok ⊢
    apply LW.ext'
    · intro j
      simp only [fupd]
      split
      · exact history_specStep _ o r' hok
      · rfl
    · rfl
    · rfl
  | none =>
    simp only
    cases op <;> apply LW.ext' <;> (try rfl) <;> intro j <;>
      simp only [PW.structStep, LW.structStep, fupd] <;> (try split) <;> (try split) <;>
      (try rfl) <;> simp [pipeHistory, Woodpile.Pipe.empty, Pipe.append]

theorem hist_run : ∀ (ops : List WOp) (s : PW) (rs : List WRet), s.okRun ops rs →
    (s.run ops rs).hist = s.hist.run ops rs := by
  intro ops
  induction ops with
  | nil => intro s rs _; cases rs <;> rfl
  | cons op ops ih =>
    intro s rs hok
    cases rs with
    | nil => exact absurd hok (by simp [PW.okRun])
    | cons r rs =>
      simp only [PW.okRun] at hok
      simp only [PW.run, LW.run]
      rw [ih _ _ hok.2, hist_step s op r hok.1]

/-! ### Known bytes stay: the reference level -/

/-- The calls that reset the pipe of handle `i`: `clear`, `take` (the contents move to a fresh handle),
`drop`. -/
def WOp.resets (op : WOp) (i : Nat) : Prop := op = .clear i ∨ op = .take i ∨ op = .drop i

theorem asOp_clear {toks : List Backref} {op : WOp} {r : WRet} {i : Nat} {r' : Ret}
    (h : op.asOp toks r = some (i, .clear, r')) : op = .clear i := by
  cases op <;> cases r <;> simp [WOp.asOp] at h <;> simp [h.1]

/-- One reference step keeps every byte cell of the history of a handle `i` that exists and is not reset. -/
theorem pw_byte_persist (s : PW) (op : WOp) (r : WRet) (i : Nat) (hi : i < s.n) (hnr : ¬ op.resets i)
    (hok : s.ok op r) (j : Nat) (b : UInt8) (h : (pipeHistory (s.pipe i))[j]? = some (Cell.byte b)) :
    (pipeHistory ((s.step op r).pipe i))[j]? = some (Cell.byte b) := by
  have hne : i ≠ s.n := Nat.ne_of_lt hi
  unfold PW.step PW.ok at *
  cases hasop : op.asOp s.toks r with
  | some x =>
    obtain ⟨i', o, r'⟩ := x
    rw [hasop] at hok
    simp only at hok ⊢
    simp only [fupd]
    split
    · rename_i e
      subst e
      rw [history_specStep _ o r' hok]
      apply ledgerStep_byte _ o r' _ j b h
      intro e
      subst e
      exact hnr (Or.inl (asOp_clear hasop))
    · exact h
  | none =>
    simp only
    cases op <;> simp only [PW.structStep, fupd, hne, if_false] <;> (try exact h)
    · -- take
      rename_i i'
      split
      · rename_i e; subst e; exact absurd (Or.inr (Or.inl rfl)) hnr
      · exact h
    · -- drop
      rename_i i'
      split
      · rename_i e; subst e; exact absurd (Or.inr (Or.inr rfl)) hnr
      · exact h

theorem pw_step_n (s : PW) (op : WOp) (r : WRet) : s.n ≤ (s.step op r).n := by
  unfold PW.step
  cases op.asOp s.toks r with
  | some x => exact Nat.le_refl _
  | none => cases op <;> simp [PW.structStep]

theorem pw_run_byte_persist (i : Nat) : ∀ (ops : List WOp) (s : PW) (rs : List WRet), i < s.n →
    (∀ op ∈ ops, ¬ op.resets i) → s.okRun ops rs → ∀ (j : Nat) (b : UInt8),
    (pipeHistory (s.pipe i))[j]? = some (Cell.byte b) → (pipeHistory ((s.run ops rs).pipe i))[j]? = some (Cell.byte b) := by
  intro ops
  induction ops with
  | nil => intro s rs _ _ _ j b h; cases rs <;> exact h
  | cons op ops ih =>
    intro s rs hi hnr hok j b h
    cases rs with
    | nil => exact absurd hok (by simp [PW.okRun])
    | cons r rs =>
      simp only [PW.okRun] at hok
      simp only [PW.run]
      exact ih _ _ (Nat.lt_of_lt_of_le hi (pw_step_n s op r)) (fun o ho => hnr o (by simp [ho])) hok.2 j b
        (pw_byte_persist s op r i hi (hnr op (by simp)) hok.1 j b h)

/-! ### Executable checker for the side condition -/

def rangeDisjB (k a n : Nat) (s : Slice) : Bool :=
  match s.region with
  | .chunk c => decide (c ≠ k) || decide (n = 0) || decide (s.off + s.len ≤ a) || decide (a + n ≤ s.off)
  | .ext _ => true

theorem rangeDisjB_sound {k a n : Nat} {s : Slice} (h : rangeDisjB k a n s = true) (hr : s.region = .chunk k) :
    Disj a n s := by
  simp only [rangeDisjB, hr, ne_eq, not_true_eq_false, decide_false, Bool.false_or, Bool.or_eq_true,
    decide_eq_true_eq] at h
  rcases h with (h | h) | h
  · exact Or.inl h
  · exact Or.inr (Or.inl h)
  · exact Or.inr (Or.inr h)

def World.noShareB (w : World) (X Y : Nat) : Bool :=
  match w.iov X, w.iov Y with
  | some vX, some vY =>
    vX.backrefs.all (fun e =>
      match vX.pendingRange e.2 with
      | some (k, a, n) => vY.slices.all (rangeDisjB k a n)
      | none => true)
  | _, _ => true

theorem World.noShareB_sound {w : World} {X Y : Nat} (h : w.noShareB X Y = true) : NoShare w X Y := by
  intro vX vY key info k a n hvX hvY hm hpr s hs hr
  simp only [World.noShareB, hvX, hvY, List.all_eq_true] at h
  have := h (key, info) hm
  simp only [hpr, List.all_eq_true] at this
  exact rangeDisjB_sound (this s hs) hr

def World.fillPrivateB (w : World) : WOp → Bool
  | .backfill X _ _ => (List.range w.iovs.length).all (fun j => decide (j = X) || w.noShareB X j)
  | _ => true

theorem World.fillPrivateB_sound {w : World} {op : WOp} (h : w.fillPrivateB op = true) : FillPrivate w op := by
  intro X b bs hop j hj
  subst hop
  simp only [World.fillPrivateB, List.all_eq_true, List.mem_range, Bool.or_eq_true, decide_eq_true_eq] at h
  by_cases hlt : j < w.iovs.length
  · rcases h j hlt with h1 | h1
    · exact absurd h1 hj
    · exact World.noShareB_sound h1
  · intro vX vY key info k a n _ hvY
    rw [iov_none_of_ge w j (by omega)] at hvY; cases hvY

/-- Run the history on the model and check the side condition before every step. -/
def World.okRunB (w : World) : List WOp → Bool
  | [] => true
  | op :: ops =>
    w.fillPrivateB op &&
      match w.step op with
      | some w' => w'.okRunB ops
      | none => true

theorem okRunB_sound : ∀ (ops : List WOp) (g : GW), g.w.okRunB ops = true → g.OkRun ops := by
  intro ops
  induction ops with
  | nil => intro g _; trivial
  | cons op ops ih =>
    intro g h
    simp only [World.okRunB, Bool.and_eq_true] at h
    obtain ⟨h2, h3⟩ := h
    refine ⟨World.fillPrivateB_sound h2, ?_⟩
    intro g' r hs
    have hw := (GW.step_some hs).1
    rw [hw] at h3
    exact ih g' h3

end Woodpile.Iovec

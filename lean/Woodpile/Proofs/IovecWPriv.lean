/-
C20, per-object (track `wabs`): which memory two iovecs can share.

`Proofs/IovecPriv.lean` proves `PendingPrivate` — NO slice of ANY other object covers a pending placeholder
range of ANY iovec — for histories in which EVERY `clone` found nothing pending (`CReach`).  Here the same
step analysis (`TStep`, reused as is; `step_tstep` is the case analysis of `PrivInv.step` with the
conclusion `TStep` instead of its consequence) is used per object and per pair, with NO premise on the
history:

* `Base w` (`WfAll`: every iovec's backref bookkeeping is sane; `APriv`: no DETACHED anchored slice covers a
  pending placeholder range of any iovec) holds in every reachable world (`GReach.base`) — clones do not
  create detached slices;
* `NoShare w X Y` (no slice of iovec `Y` covers a pending placeholder range of iovec `X`,
  `Proofs/IovecWAbs.lean`) is preserved by EVERY step, for every pair of handles that already exist
  (`noShare_step`, `noShare_run`): placeholder memory is freshly allocated when it is registered, and the only
  way another iovec comes to reference it is to be created as a `clone` of its owner (or to `take` it over)
  while it is pending;
* so a pair of iovecs shares placeholder memory only if one was cloned from the other while a placeholder
  was pending (`noShare_clone`: THIS clone, taken with nothing pending, yields `NoShare` both ways).
-/
import Woodpile.Proofs.IovecWFrame

namespace Woodpile.Iovec
open Woodpile.Arena

theorem TStep.ex {w w' : World} {T : Nat} {A : Prop} (h : TStep w w' T A) : ∃ (T : Nat) (A : Prop), TStep w w' T A :=
  ⟨T, A, h⟩

/-- Every step but `take` / `clone` is a `TStep` (the case analysis of `PrivInv.step`, which then applies
`TStep.inv`; `take` and `clone` move / copy whole values and are treated separately). -/
theorem step_tstep {w w' : World} {caps : Nat → Nat} {op : WOp} (hg : GReach w caps)
    (hwf : ∀ i v, w.iov i = some v → BackrefsOk v) (hnt : ∀ i, op ≠ .take i ∧ op ≠ .clone i)
    (h : w.step op = some w') : ∃ (T : Nat) (A : Prop), TStep w w' T A := by
  cases op with
  | new =>
    simp [World.step] at h; subst h
    refine TStep.ex (T := w.iovs.length) (A := False) (tstep_plain (fun j hj => by simp [hj]) (fun _ => rfl) ?_)
    intro v' hv'; simp at hv'; subst hv'; simp [Iov.empty]
  | newArena =>
    simp [World.step] at h; subst h
    exact TStep.ex (T := 0) (A := False) (tstep_same_iovs 0 (fun _ => rfl) (asl_same (fun _ => rfl)))
  | newFromArena a =>
    simp only [World.step] at h
    split at h
    · simp at h; subst h
      have hlen : (w.setArena a none).iovs.length = w.iovs.length := rfl
      refine TStep.ex (T := w.iovs.length) (A := False) (tstep_plain (fun j hj => by simp [hj, hlen]) (fun _ => rfl) ?_)
      intro v' hv'; simp [hlen] at hv'; subst hv'; simp [Iov.empty]
    · simp at h
  | newFromSlices bufs =>
    simp only [World.step] at h
    obtain ⟨h1, h2⟩ := addExts_spec w bufs
    simp at h; subst h
    have hlen : (w.addExts bufs).1.iovs.length = w.iovs.length := by rw [h1]
    have hiov : ∀ j, (w.addExts bufs).1.iov j = w.iov j := by intro j; rw [h1]; rfl
    unfold World.newFromSlices
    refine TStep.ex (T := w.iovs.length) (A := False) (tstep_plain ?_ ?_ ?_)
    · intro j hj; rw [iov_addIov, hlen, if_neg hj, hiov]
    · intro j; rw [aslice_addIov, h1]; rfl
    · intro v' hv'
      rw [iov_addIov, hlen, if_pos rfl] at hv'
      simp at hv'; subst hv'
      refine ⟨rfl, ?_⟩
      intro s' hs'
      simp only at hs'
      exact (h2 s' (List.mem_filter.1 hs').1).1
  | push i bs =>
    simp only [World.step, World.addExt] at h
    have hi : ∀ j, ({ w with exts := w.exts ++ [bs] } : World).iov j = w.iov j := fun _ => rfl
    rcases push_cases h with h | h
    · have hg' : GReach w caps := hg
      obtain ⟨v, hv, ⟨_, e⟩ | ⟨_, arena', next', chunk, off, v2, hal, ho, rfl⟩⟩ := pushCopy_spec h
      · subst e; exact TStep.ex (T := 0) (A := False) (tstep_same_iovs 0 (fun _ => rfl) (asl_same (fun _ => rfl)))
      · have hv' : w.iov i = some v := hv
        obtain ⟨hok2, hd, hp2⟩ := copy_core hg hv' hal ho (hwf i v hv')
        refine TStep.ex (T := i) (A := False) ⟨fun j hj => ?_, asl_same (w := w) (fun _ => rfl), ?_⟩
        · show (World.setIov _ i (some v2)).iov j = w.iov j
          simp [hj]
        intro x hx
        replace hx : (World.setIov ({ w with exts := w.exts ++ [bs] } : World) i (some v2)).iov i = some x := hx
        simp at hx; subst hx
        exact Or.inr ⟨v, hv', fun _ => hok2, hd, fun br hm k a n hR => Or.inl (hp2 br hm _ hR)⟩
    · have q := pushBorrowed_qstep h ⟨_, rfl⟩ (fun v hv => hwf i v hv)
      exact TStep.ex (T := i) (A := False) ((qstep_congr_left (w := w) q hi (fun _ => rfl)).toTStep False)
  | pushBorrowed i bs =>
    simp only [World.step, World.addExt] at h
    have hi : ∀ j, ({ w with exts := w.exts ++ [bs] } : World).iov j = w.iov j := fun _ => rfl
    have q := pushBorrowed_qstep h ⟨_, rfl⟩ (fun v hv => hwf i v hv)
    exact TStep.ex (T := i) (A := False) ((qstep_congr_left (w := w) q hi (fun _ => rfl)).toTStep False)
  | pushCopy i bs => exact (pushCopy_tstep hg h (hwf i)).ex
  | register i pat =>
    simp only [World.step] at h
    split at h
    · rename_i w1 b hr
      simp at h; subst h
      have t := register_tstep hg hr (hwf i)
      exact TStep.ex (T := i) (A := False) ⟨t.others, t.asl, t.tgt⟩
    · simp at h
  | extend i bufs =>
    simp only [World.step] at h
    obtain ⟨h1, h2⟩ := addExts_spec w bufs
    rw [h1] at h
    have q := extend_qstep h (fun s hs => (h2 s hs).1) (fun v hv => hwf i v hv)
    exact TStep.ex (T := i) (A := False) ((qstep_congr_left (w := w) q (fun _ => rfl) (fun _ => rfl)).toTStep False)
  | consume i k =>
    simp only [World.step] at h
    split at h
    · rename_i w1 c hc'; simp at h; subst h
      exact ((consume_qstep hc' (hwf i)).toTStep False).ex
    · simp at h
  | advance i k =>
    simp only [World.step] at h
    split at h
    · rename_i w1 c hc'; simp at h; subst h
      exact ((advance_qstep hc' (hwf i)).toTStep False).ex
    · simp at h
  | read i k =>
    simp only [World.step] at h
    split at h
    · rename_i w1 c hc'; simp at h; subst h
      exact ((readInto_qstep hc' (hwf i)).toTStep False).ex
    · simp at h
  | reserve i k =>
    simp only [World.step] at h
    split at h
    · rename_i v hv
      simp at h; subst h
      refine TStep.ex (T := i) (A := False) (QStep.toTStep ?_ False)
      exact qstep_congr (qstep_arena hv _) (fun _ => rfl) (fun _ => rfl)
    · simp at h
  | pushASlice i si => exact (pushASlice_tstep hg h (hwf i)).ex
  | swapArena i ai =>
    simp only [World.step] at h
    split at h
    · rename_i v ar hv har
      simp at h; subst h
      refine TStep.ex (T := i) (A := False) (QStep.toTStep ?_ False)
      exact qstep_congr (qstep_arena hv ar) (fun _ => rfl) (fun _ => rfl)
    · simp at h
  | aReserve ai k =>
    simp only [World.step] at h
    split at h
    · simp at h; subst h
      exact TStep.ex (T := 0) (A := False) (tstep_same_iovs 0 (fun _ => rfl) (asl_same (fun _ => rfl)))
    · simp at h
  | sSkip si k =>
    simp only [World.step] at h
    split at h
    · rename_i a ha
      simp at h; subst h
      refine TStep.ex (T := 0) (A := False) (tstep_same_iovs 0 (fun _ => rfl) ?_)
      intro s' hs'
      rcases asl_setASlice hs' with ⟨x, hx, rfl⟩ | h0
      · cases hx
        exact Or.inl ⟨a.slice, ⟨si, a, ha, rfl⟩, rfl, by simp [ASlice.skipPrefix], by simp [ASlice.skipPrefix]; omega⟩
      · exact Or.inl ⟨s', h0, Sub.refl _⟩
    · simp at h
  | sDropSuf si k =>
    simp only [World.step] at h
    split at h
    · rename_i a ha
      simp at h; subst h
      refine TStep.ex (T := 0) (A := False) (tstep_same_iovs 0 (fun _ => rfl) ?_)
      intro s' hs'
      rcases asl_setASlice hs' with ⟨x, hx, rfl⟩ | h0
      · cases hx
        exact Or.inl ⟨a.slice, ⟨si, a, ha, rfl⟩, rfl, by simp [ASlice.dropSuffix], by simp [ASlice.dropSuffix]⟩
      · exact Or.inl ⟨s', h0, Sub.refl _⟩
    · simp at h
  | sSplit si k =>
    simp only [World.step] at h
    split at h
    · rename_i a ha
      simp at h; subst h
      refine TStep.ex (T := 0) (A := False) (tstep_same_iovs 0 (fun _ => rfl) ?_)
      intro s' hs'
      obtain ⟨hl, hr⟩ := splitAt_sub a k
      rcases asl_addASlice hs' with rfl | h0
      · rcases hr with hb | hs
        · exact Or.inr (Or.inr hb)
        · exact Or.inl ⟨a.slice, ⟨si, a, ha, rfl⟩, hs⟩
      · rcases asl_addASlice h0 with rfl | h1
        · rcases hl with hb | hs
          · exact Or.inr (Or.inr hb)
          · exact Or.inl ⟨a.slice, ⟨si, a, ha, rfl⟩, hs⟩
        · rcases asl_setASlice h1 with ⟨x, hx, _⟩ | h2
          · cases hx
          · exact Or.inl ⟨s', h2, Sub.refl _⟩
    · simp at h
  | backfill i bi bs =>
    simp only [World.step] at h
    split at h
    · exact ((backfill_qstep h).toTStep False).ex
    · simp at h
  | pop i =>
    simp only [World.step] at h
    split at h
    · rename_i w1 hc'; simp at h; subst h
      exact ((consume_qstep hc' (hwf i)).toTStep False).ex
    · simp at h
  | clear i =>
    simp only [World.step, World.clear] at h
    split at h
    · simp at h
    · simp at h; subst h
      refine TStep.ex (T := i) (A := False) (tstep_plain (fun j hj => by simp [hj]) (fun _ => rfl) ?_)
      intro v' hv'; simp at hv'; subst hv'; simp [Iov.empty]
  | take i => exact absurd rfl (hnt i).1
  | clone i => exact absurd rfl (hnt i).2
  | drop i =>
    simp only [World.step, World.dropIov] at h
    split at h
    · simp at h
    · simp at h; subst h
      refine TStep.ex (T := i) (A := False) (tstep_plain (fun j hj => by simp [hj]) (fun _ => rfl) ?_)
      intro v' hv'; simp at hv'
  | flush i =>
    simp only [World.step] at h
    split at h
    · rename_i v hv
      simp at h; subst h
      exact ((qstep_arena hv _).toTStep False).ex
    · simp at h
  | takeArena i =>
    simp only [World.step] at h
    split at h
    · rename_i v hv
      simp at h; subst h
      refine TStep.ex (T := i) (A := False) (QStep.toTStep ?_ False)
      exact qstep_congr (qstep_arena hv ⟨none⟩) (fun _ => rfl) (fun _ => rfl)
    · simp at h
  | aFlush ai =>
    simp only [World.step] at h
    split at h
    · simp at h; subst h
      exact TStep.ex (T := 0) (A := False) (tstep_same_iovs 0 (fun _ => rfl) (asl_same (fun _ => rfl)))
    · simp at h
  | dropArena ai =>
    simp only [World.step] at h
    split at h
    · simp at h; subst h
      exact TStep.ex (T := 0) (A := False) (tstep_same_iovs 0 (fun _ => rfl) (asl_same (fun _ => rfl)))
    · simp at h
  | sTake si =>
    simp only [World.step] at h
    split at h
    · rename_i a ha
      simp at h; subst h
      refine TStep.ex (T := 0) (A := False) (tstep_same_iovs 0 (fun _ => rfl) ?_)
      intro s' hs'
      rcases asl_addASlice hs' with rfl | h0
      · exact Or.inl ⟨a.slice, ⟨si, a, ha, rfl⟩, Sub.refl _⟩
      · rcases asl_setASlice h0 with ⟨x, hx, rfl⟩ | h1
        · cases hx; exact Or.inr (Or.inr ⟨0, rfl⟩)
        · exact Or.inl ⟨s', h1, Sub.refl _⟩
    · simp at h
  | sClone si =>
    simp only [World.step] at h
    split at h
    · rename_i a ha
      simp at h; subst h
      refine TStep.ex (T := 0) (A := False) (tstep_same_iovs 0 (fun _ => rfl) ?_)
      intro s' hs'
      rcases asl_addASlice hs' with rfl | h0
      · exact Or.inl ⟨a.slice, ⟨si, a, ha, rfl⟩, Sub.refl _⟩
      · exact Or.inl ⟨s', h0, Sub.refl _⟩
    · simp at h
  | sDrop si =>
    simp only [World.step] at h
    split at h
    · simp at h; subst h
      refine TStep.ex (T := 0) (A := False) (tstep_same_iovs 0 (fun _ => rfl) ?_)
      intro s' hs'
      rcases asl_setASlice hs' with ⟨x, hx, _⟩ | h0
      · cases hx
      · exact Or.inl ⟨s', h0, Sub.refl _⟩
    · simp at h
  | readNIov i count attempts src script =>
    simp only [World.step, World.readNIov] at h
    split at h
    · simp at h
    · rename_i v hv
      rcases hr : w.readN v.arena ⟨src, script⟩ count attempts with ⟨w1, ar', res, o⟩
      simp only [hr] at h
      have hfresh := readN_fresh hg (X := .iov i) (cacheAt_iov hv) hr
      obtain ⟨hp', nx, rfl⟩ := readN_world hr
      have hiov : ({ w with heap := hp', next := nx } : World).iov i = some v := hv
      simp only [hiov] at h
      have htgt : ∀ x, some { v with arena := ar' } = some x →
          (x.backrefs = [] ∧ ∀ s' ∈ x.slices, ∃ b, s'.region = .ext b) ∨
          (∃ v0, w.iov i = some v0 ∧ (BackrefsOk v0 → BackrefsOk x) ∧
            (∀ s' ∈ x.slices, Desc (fun s => s ∈ v0.slices ∨ w.ASl s ∨ w.Fresh s ∨ ∃ b, s.region = .ext b) s') ∧
            (∀ br ∈ x.backrefs, ∀ k a n, x.pendingRange br.2 = some (k, a, n) →
              (br ∈ v0.backrefs ∧ v0.pendingRange br.2 = some (k, a, n)) ∨
              (¬ True ∧ ∀ s0, w.HasSlice s0 → s0.region = .chunk k → s0.off + s0.len ≤ a))) := by
        intro x hx; cases hx
        exact Or.inr ⟨v, hv, fun hok => ⟨hok.inRange, hok.sorted, hok.fits⟩, fun _ hs => .base (Or.inl hs),
          fun br hm k a n hR => Or.inl ⟨hm, by
            rw [← pendingRange_congr (v := v) (v' := { v with arena := ar' }) rfl rfl]; exact hR⟩⟩
      cases res with
      | ok a =>
        simp at h; subst h
        refine TStep.ex (T := i) (A := True) ⟨fun j hj => by simp [hj], ?_, fun x hx => htgt x (by simpa using hx)⟩
        intro s' hs'
        rcases asl_addASlice hs' with rfl | ⟨j, x, hj, hx⟩
        · rcases hfresh a rfl with hb | hf
          · exact Or.inr (Or.inr hb)
          · exact Or.inr (Or.inl ⟨trivial, hf⟩)
        · exact Or.inl ⟨s', ⟨j, x, by simpa using hj, hx⟩, Sub.refl _⟩
      | error k =>
        simp at h; subst h
        exact TStep.ex (T := i) (A := True) ⟨fun j hj => by simp [hj],
          fun s' ⟨j, x, hj, hx⟩ => Or.inl ⟨s', ⟨j, x, by simpa using hj, hx⟩, Sub.refl _⟩,
          fun x hx => htgt x (by simpa using hx)⟩
  | readNArena a count attempts src script =>
    simp only [World.step, World.readNArena] at h
    split at h
    · simp at h
    · rename_i ar har
      rcases hr : w.readN ar ⟨src, script⟩ count attempts with ⟨w1, ar', res, o⟩
      simp only [hr] at h
      have hfresh := readN_fresh hg (X := .arena a) (by simp [World.cacheAt, har]) hr
      obtain ⟨hp', nx, rfl⟩ := readN_world hr
      cases res with
      | ok x =>
        simp at h; subst h
        refine TStep.ex (T := 0) (A := True) (tstep_same_iovs 0 (fun _ => rfl) ?_)
        intro s' hs'
        rcases asl_addASlice hs' with rfl | ⟨j, y, hj, hy⟩
        · rcases hfresh x rfl with hb | hf
          · exact Or.inr (Or.inr hb)
          · exact Or.inr (Or.inl ⟨trivial, hf⟩)
        · exact Or.inl ⟨s', ⟨j, y, hj, hy⟩, Sub.refl _⟩
      | error k =>
        simp at h; subst h
        exact TStep.ex (T := 0) (A := True) (tstep_same_iovs 0 (fun _ => rfl)
          (fun s' ⟨j, y, hj, hy⟩ => Or.inl ⟨s', ⟨j, y, hj, hy⟩, Sub.refl _⟩))
  | lend bs =>
    simp [World.step, World.addExt] at h; subst h
    exact TStep.ex (T := 0) (A := False) (tstep_same_iovs 0 (fun _ => rfl) (asl_same (fun _ => rfl)))
  | pushAt i b off len =>
    simp only [World.step] at h
    split at h
    · rcases push_cases h with h | h
      · exact (pushCopy_tstep hg h (hwf i)).ex
      · have q := pushBorrowed_qstep h ⟨_, rfl⟩ (fun v hv => hwf i v hv)
        exact TStep.ex (T := i) (A := False) (q.toTStep False)
    · simp at h
  | pushBorrowedAt i b off len =>
    simp only [World.step] at h
    split at h
    · have q := pushBorrowed_qstep h ⟨_, rfl⟩ (fun v hv => hwf i v hv)
      exact TStep.ex (T := i) (A := False) (q.toTStep False)
    · simp at h

/-! ### The unconditional part: bookkeeping and detached slices -/

def WfAll (w : World) : Prop := ∀ i v, w.iov i = some v → BackrefsOk v

/-- No detached anchored slice covers a pending placeholder range of any iovec. -/
def APriv (w : World) : Prop :=
  ∀ X v key info k a n, w.iov X = some v → (key, info) ∈ v.backrefs → v.pendingRange info = some (k, a, n) →
    ∀ s, w.ASl s → s.region = .chunk k → Disj a n s

structure Base (w : World) : Prop where
  wf : WfAll w
  apriv : APriv w

theorem base_init (pol : Policy) (tun : Tuning) : Base (World.init pol tun) :=
  ⟨fun i v h => by simp [World.init, World.iov] at h, fun X v _ _ _ _ _ h => by simp [World.init, World.iov] at h⟩

/-- a range designated by a pending backref lies inside a slice of the world, so below anything fresh -/
theorem fresh_disj {w : World} {X : Nat} {v : Iov} {info : BackrefInfo} {k a n : Nat} {s' : Slice}
    (hv : w.iov X = some v) (hpr : v.pendingRange info = some (k, a, n)) (hf : w.Fresh s')
    (hr : s'.region = .chunk k) : Disj a n s' := by
  obtain ⟨t, ht, htr, _, hend, _⟩ := pendingRange_target hpr
  have := hf t (Or.inl ⟨X, v, hv, ht⟩) (by rw [htr, hr])
  exact Or.inr (Or.inr (by omega))

theorem TStep.wfAll {w w' : World} {T : Nat} {A : Prop} (hw : WfAll w) (h : TStep w w' T A) : WfAll w' := by
  intro i v' hv'
  by_cases hi : i = T
  · subst hi
    rcases h.tgt v' hv' with ⟨hb, _⟩ | ⟨v, hv, hok, _, _⟩
    · exact ⟨by rw [hb]; simp, by rw [hb]; simp, by rw [hb]; simp⟩
    · exact hok (hw i v hv)
  · rw [h.others i hi] at hv'; exact hw i v' hv'

theorem TStep.apriv {w w' : World} {T : Nat} {A : Prop} (hp : APriv w) (h : TStep w w' T A) : APriv w' := by
  have asl_disj : ∀ X v key info k a n, w.iov X = some v → (key, info) ∈ v.backrefs → v.pendingRange info = some (k, a, n) →
      ∀ s', w'.ASl s' → s'.region = .chunk k → Disj a n s' := by
    intro X v key info k a n hv hm hpr s' hs' hr
    rcases h.asl s' hs' with ⟨s, hs, hsub⟩ | ⟨_, hf⟩ | ⟨b, hb⟩
    · have hd := hp X v key info k a n hv hm hpr s hs (hsub.1 ▸ hr)
      exact (Desc.sub (Desc.base (B := fun x => x = s) rfl) hsub).disj (fun x hx _ => hx ▸ hd) hr
    · exact fresh_disj hv hpr hf hr
    · rw [hb] at hr; cases hr
  intro X v' key info k a n hv' hm hpr s' hs' hr
  by_cases hX : X = T
  · subst hX
    rcases h.tgt v' hv' with ⟨hb, _⟩ | ⟨v, hv, _, _, hpend⟩
    · rw [hb] at hm; simp at hm
    · rcases hpend (key, info) hm k a n hpr with ⟨hm0, hpr0⟩ | ⟨hnA, hfr⟩
      · exact asl_disj X v key info k a n hv hm0 hpr0 s' hs' hr
      · rcases h.asl s' hs' with ⟨s, ⟨j, as, hj, rfl⟩, hsub⟩ | ⟨hA, _⟩ | ⟨b, hb⟩
        · have := hfr as.slice (Or.inr ⟨j, as, hj, rfl⟩) (hsub.1 ▸ hr)
          exact Or.inr (Or.inl (by have := hsub.2.2; omega))
        · exact absurd hA hnA
        · rw [hb] at hr; cases hr
  · rw [h.others X hX] at hv'
    exact asl_disj X v' key info k a n hv' hm hpr s' hs' hr

/-- The pairwise relation is preserved by a `TStep`. -/
theorem TStep.noShare {w w' : World} {T : Nat} {A : Prop} {X Y : Nat} (hap : APriv w) (hns : NoShare w X Y)
    (hXY : X ≠ Y) (h : TStep w w' T A) : NoShare w' X Y := by
  intro vX' vY' key info k a n hvX' hvY' hm hpr s' hs' hr
  by_cases hX : X = T
  · subst hX
    have hY : Y ≠ X := fun e => hXY e.symm
    rw [h.others Y hY] at hvY'
    rcases h.tgt vX' hvX' with ⟨hb, _⟩ | ⟨v, hv, _, _, hpend⟩
    · rw [hb] at hm; simp at hm
    · rcases hpend (key, info) hm k a n hpr with ⟨hm0, hpr0⟩ | ⟨_, hfr⟩
      · exact hns v vY' key info k a n hv hvY' hm0 hpr0 s' hs' hr
      · exact Or.inr (Or.inl (hfr s' (Or.inl ⟨Y, vY', hvY', hs'⟩) hr))
  · rw [h.others X hX] at hvX'
    by_cases hY : Y = T
    · subst hY
      rcases h.tgt vY' hvY' with ⟨_, hext⟩ | ⟨v, hv, _, hdesc, _⟩
      · obtain ⟨b, hb⟩ := hext s' hs'; rw [hb] at hr; cases hr
      · refine (hdesc s' hs').disj ?_ hr
        intro s hs hsr
        rcases hs with hs | hs | hs | ⟨b, hb⟩
        · exact hns vX' v key info k a n hvX' hv hm hpr s hs hsr
        · exact hap X vX' key info k a n hvX' hm hpr s hs hsr
        · exact fresh_disj hvX' hpr hs hsr
        · rw [hb] at hsr; cases hsr
    · rw [h.others Y hY] at hvY'
      exact hns vX' vY' key info k a n hvX' hvY' hm hpr s' hs' hr

/-! ### `take` and `clone` -/

theorem take_iov {w w' : World} {i : Nat} (h : w.step (.take i) = some w') :
    ∃ v, w.iov i = some v ∧ ∀ j, w'.iov j =
      if j = w.iovs.length then some v else if j = i then some Iov.empty else w.iov j := by
  simp only [World.step, World.take] at h
  cases hv : w.iov i with
  | none => rw [hv] at h; cases h
  | some v =>
    rw [hv] at h
    simp only [Option.some.injEq] at h
    subst h
    have hlen : (w.setIov i (some Iov.empty)).iovs.length = w.iovs.length := by
      have hi := iov_lt_of_some hv
      simp [World.setIov, listSet, hi]
    exact ⟨v, rfl, fun j => by rw [iov_addIov, hlen, iov_setIov]⟩

theorem take_aslice {w w' : World} {i : Nat} (h : w.step (.take i) = some w') : ∀ j, w'.aslice j = w.aslice j := by
  simp only [World.step, World.take] at h
  cases hv : w.iov i with
  | none => rw [hv] at h; cases h
  | some v =>
    rw [hv] at h
    simp only [Option.some.injEq] at h
    subst h
    intro j; simp

theorem clone_iov {w w' : World} {i : Nat} (h : w.step (.clone i) = some w') :
    ∃ v, w.iov i = some v ∧ ∀ j, w'.iov j =
      if j = w.iovs.length then some { v with arena := ⟨none⟩ } else w.iov j := by
  simp only [World.step, World.clone] at h
  cases hv : w.iov i with
  | none => rw [hv] at h; cases h
  | some v =>
    rw [hv] at h
    simp only [Option.some.injEq] at h
    subst h
    exact ⟨v, rfl, fun j => by rw [iov_addIov]⟩

theorem clone_aslice {w w' : World} {i : Nat} (h : w.step (.clone i) = some w') : ∀ j, w'.aslice j = w.aslice j := by
  simp only [World.step, World.clone] at h
  cases hv : w.iov i with
  | none => rw [hv] at h; cases h
  | some v =>
    rw [hv] at h
    simp only [Option.some.injEq] at h
    subst h
    intro j; simp

theorem backrefsOk_arena {v : Iov} (a : Arena) (h : BackrefsOk v) : BackrefsOk { v with arena := a } :=
  ⟨h.inRange, h.sorted, h.fits⟩

theorem backrefsOk_empty : BackrefsOk Iov.empty :=
  ⟨by simp [Iov.empty], by simp [Iov.empty], by simp [Iov.empty]⟩

/-- Every iovec of the world after `take` / `clone` has the slices, the pending set and the slice counter
of an iovec of the world before (or is empty). -/
theorem moved_origin {w w' : World} {op : WOp} (hop : (∃ i, op = .take i) ∨ ∃ i, op = .clone i)
    (h : w.step op = some w') {X : Nat} {v' : Iov} (hv' : w'.iov X = some v') :
    v' = Iov.empty ∨ ∃ X0 v, w.iov X0 = some v ∧ v'.slices = v.slices ∧ v'.backrefs = v.backrefs ∧
      v'.consumedSlices = v.consumedSlices ∧ (X < w.iovs.length → X0 = X ∧ v' = v) := by
  rcases hop with ⟨i, rfl⟩ | ⟨i, rfl⟩
  · obtain ⟨v, hv, hiov⟩ := take_iov h
    rw [hiov] at hv'
    split at hv'
    · rename_i e
      cases hv'
      exact Or.inr ⟨i, v', hv, rfl, rfl, rfl, fun hlt => by omega⟩
    · split at hv'
      · cases hv'; exact Or.inl rfl
      · exact Or.inr ⟨X, v', hv', rfl, rfl, rfl, fun _ => ⟨rfl, rfl⟩⟩
  · obtain ⟨v, hv, hiov⟩ := clone_iov h
    rw [hiov] at hv'
    split at hv'
    · cases hv'
      exact Or.inr ⟨i, v, hv, rfl, rfl, rfl, fun hlt => by omega⟩
    · exact Or.inr ⟨X, v', hv', rfl, rfl, rfl, fun _ => ⟨rfl, rfl⟩⟩

theorem moved_aslice {w w' : World} {op : WOp} (hop : (∃ i, op = .take i) ∨ ∃ i, op = .clone i)
    (h : w.step op = some w') : ∀ j, w'.aslice j = w.aslice j := by
  rcases hop with ⟨i, rfl⟩ | ⟨i, rfl⟩
  · exact take_aslice h
  · exact clone_aslice h

/-! ### Every step -/

theorem base_step {w w' : World} {caps : Nat → Nat} {op : WOp} (hg : GReach w caps) (hb : Base w)
    (h : w.step op = some w') : Base w' := by
  by_cases hop : (∃ i, op = .take i) ∨ ∃ i, op = .clone i
  · refine ⟨?_, ?_⟩
    · intro X v' hv'
      rcases moved_origin hop h hv' with rfl | ⟨X0, v, hv, h1, h2, h3, _⟩
      · exact backrefsOk_empty
      · have := hb.wf X0 v hv
        exact ⟨by rw [h1, h2, h3]; exact this.inRange, by rw [h2]; exact this.sorted, by rw [h1, h2, h3]; exact this.fits⟩
    · intro X v' key info k a n hv' hm hpr s hs hr
      rcases moved_origin hop h hv' with rfl | ⟨X0, v, hv, h1, h2, h3, _⟩
      · simp [Iov.empty] at hm
      · obtain ⟨j, as, hj, he⟩ := hs
        rw [moved_aslice hop h] at hj
        refine hb.apriv X0 v key info k a n hv (by rw [← h2]; exact hm) ?_ s ⟨j, as, hj, he⟩ hr
        rw [← pendingRange_congr h3 h1]; exact hpr
  · have hnt : ∀ i, op ≠ .take i ∧ op ≠ .clone i :=
      fun i => ⟨fun e => hop (Or.inl ⟨i, e⟩), fun e => hop (Or.inr ⟨i, e⟩)⟩
    obtain ⟨T, A, ht⟩ := step_tstep hg hb.wf hnt h
    exact ⟨ht.wfAll hb.wf, ht.apriv hb.apriv⟩

theorem GReach.base {w : World} {caps : Nat → Nat} (h : GReach w caps) : Base w := by
  induction h with
  | init pol tun => exact base_init pol tun
  | @step w w' caps caps' op hg hs _ _ ih => exact base_step hg ih hs

/-- `NoShare` is preserved by EVERY step, for every pair of handles created before the step. -/
theorem noShare_step {w w' : World} {caps : Nat → Nat} {op : WOp} (hg : GReach w caps) (h : w.step op = some w')
    {X Y : Nat} (hXY : X ≠ Y) (hX : X < w.iovs.length) (hY : Y < w.iovs.length) (hns : NoShare w X Y) :
    NoShare w' X Y := by
  have hb := hg.base
  by_cases hop : (∃ i, op = .take i) ∨ ∃ i, op = .clone i
  · intro vX' vY' key info k a n hvX' hvY' hm hpr s' hs' hr
    rcases moved_origin hop h hvX' with rfl | ⟨X0, vX, hvX, _, _, _, hx⟩
    · simp [Iov.empty] at hm
    · obtain ⟨rfl, rfl⟩ := hx hX
      rcases moved_origin hop h hvY' with rfl | ⟨Y0, vY, hvY, _, _, _, hy⟩
      · simp [Iov.empty] at hs'
      · obtain ⟨rfl, rfl⟩ := hy hY
        exact hns vX' vY' key info k a n hvX hvY hm hpr s' hs' hr
  · have hnt : ∀ i, op ≠ .take i ∧ op ≠ .clone i :=
      fun i => ⟨fun e => hop (Or.inl ⟨i, e⟩), fun e => hop (Or.inr ⟨i, e⟩)⟩
    obtain ⟨T, A, ht⟩ := step_tstep hg hb.wf hnt h
    exact ht.noShare hb.apriv hns hXY

theorem step_iovs_mono {w w' : World} {op : WOp} (h : w.step op = some w') : w.iovs.length ≤ w'.iovs.length := by
  have := (step_book h).1
  split at this <;> omega

theorem noShare_run {X Y : Nat} (hXY : X ≠ Y) : ∀ (ops : List WOp) (w w' : World) (caps : Nat → Nat), GReach w caps →
    w.run ops = some w' → X < w.iovs.length → Y < w.iovs.length → NoShare w X Y → NoShare w' X Y := by
  intro ops
  induction ops with
  | nil => intro w w' caps _ h _ _ hns; simp [World.run] at h; subst h; exact hns
  | cons op ops ih =>
    intro w w' caps hg h hX hY hns
    unfold World.run at h
    split at h
    · rename_i w1 h1
      obtain ⟨caps1, ho, hn⟩ := (step_astep h1).exists_caps hg.reachable.inv hg.inv
      have hm := step_iovs_mono h1
      exact ih w1 w' caps1 (hg.step h1 ho hn) h (by omega) (by omega) (noShare_step hg h1 hXY hX hY hns)
    · cases h

/-- THIS clone, taken with nothing pending: original and clone share no placeholder memory, either way. -/
theorem noShare_clone {w w' : World} {i : Nat} {v : Iov} (h : w.step (.clone i) = some w') (hv : w.iov i = some v)
    (hnp : v.backrefs = []) : NoShare w' i w.iovs.length ∧ NoShare w' w.iovs.length i := by
  obtain ⟨v0, hv0, hiov⟩ := clone_iov h
  rw [hv] at hv0; cases hv0
  have hi : i ≠ w.iovs.length := Nat.ne_of_lt (iov_lt_of_some hv)
  refine ⟨?_, ?_⟩
  · intro vX vY key info k a n hvX _ hm
    rw [hiov, if_neg hi, hv] at hvX; cases hvX
    rw [hnp] at hm; cases hm
  · intro vX vY key info k a n hvX _ hm
    rw [hiov, if_pos rfl] at hvX; cases hvX
    simp only at hm
    rw [hnp] at hm; cases hm

/-- The global premise of `Props/C20.lean` gives every pair. -/
theorem noShare_of_private {w : World} (hp : PendingPrivate w) {X Y : Nat} (hXY : X ≠ Y) : NoShare w X Y := by
  intro vX vY key info k a n hvX hvY hm hpr s hs hr
  exact hp X vX key info k a n hvX hm hpr s (Or.inl ⟨Y, vY, fun e => hXY e.symm, hvY, hs⟩) hr

/-- `take` moves the relation with the value: the fresh handle stands where the taken one stood. -/
theorem noShare_take {w w' : World} {i : Nat} (h : w.step (.take i) = some w') {X : Nat} (hX : X ≠ w.iovs.length)
    (hXi : X ≠ i) : (NoShare w X i → NoShare w' X w.iovs.length) ∧ (NoShare w i X → NoShare w' w.iovs.length X) := by
  obtain ⟨v, hv, hiov⟩ := take_iov h
  refine ⟨?_, ?_⟩
  · intro hns vX vY key info k a n hvX hvY
    rw [hiov, if_neg hX, if_neg hXi] at hvX
    rw [hiov, if_pos rfl] at hvY
    cases hvY
    exact hns vX v key info k a n hvX hv
  · intro hns vX vY key info k a n hvX hvY
    rw [hiov, if_pos rfl] at hvX
    rw [hiov, if_neg hX, if_neg hXi] at hvY
    cases hvX
    exact hns v vY key info k a n hv hvY

/-- A clone inherits what its original shares with third parties. -/
theorem noShare_clone_other {w w' : World} {i : Nat} (h : w.step (.clone i) = some w') {X : Nat}
    (hX : X ≠ w.iovs.length) :
    (NoShare w X i → NoShare w' X w.iovs.length) ∧ (NoShare w i X → NoShare w' w.iovs.length X) := by
  obtain ⟨v, hv, hiov⟩ := clone_iov h
  refine ⟨?_, ?_⟩
  · intro hns vX vY key info k a n hvX hvY
    rw [hiov, if_neg hX] at hvX
    rw [hiov, if_pos rfl] at hvY
    cases hvY
    exact hns vX v key info k a n hvX hv
  · intro hns vX vY key info k a n hvX hvY hm hpr
    rw [hiov, if_pos rfl] at hvX
    rw [hiov, if_neg hX] at hvY
    cases hvX
    exact hns v vY key info k a n hv hvY hm (by rw [← pendingRange_congr (v := v) rfl rfl]; exact hpr)

/-! ### One iovec against all others -/

/-- No slice of iovec `i` covers a pending placeholder range of any OTHER iovec. -/
def Unshared (w : World) (i : Nat) : Prop := ∀ X, X ≠ i → NoShare w X i

/-- `Unshared w i` is preserved by every step, except a `clone` of `i` itself taken while `i` has a
placeholder pending (the clone then shares it). -/
theorem unshared_step {w w' : World} {caps : Nat → Nat} {op : WOp} {i : Nat} (hg : GReach w caps)
    (h : w.step op = some w') (hi : i < w.iovs.length) (hu : Unshared w i)
    (hc : ∀ v, op = .clone i → w.iov i = some v → v.backrefs = []) : Unshared w' i := by
  have hb := hg.base
  have hin : i ≠ w.iovs.length := Nat.ne_of_lt hi
  by_cases hop : (∃ j, op = .take j) ∨ ∃ j, op = .clone j
  · rcases hop with ⟨j, rfl⟩ | ⟨j, rfl⟩
    · obtain ⟨vj, hvj, hiov⟩ := take_iov h
      intro X hXi vX vY key info k a n hvX hvY hm hpr s hs hr
      rw [hiov] at hvX hvY
      rw [if_neg hin] at hvY
      by_cases hij : i = j
      · rw [if_pos hij] at hvY; cases hvY; simp [Iov.empty] at hs
      · rw [if_neg hij] at hvY
        by_cases hXn : X = w.iovs.length
        · rw [if_pos hXn] at hvX; cases hvX
          exact hu j (fun e => hij e.symm) vj vY key info k a n hvj hvY hm hpr s hs hr
        · rw [if_neg hXn] at hvX
          by_cases hXj : X = j
          · rw [if_pos hXj] at hvX; cases hvX; simp [Iov.empty] at hm
          · rw [if_neg hXj] at hvX
            exact hu X hXi vX vY key info k a n hvX hvY hm hpr s hs hr
    · obtain ⟨vj, hvj, hiov⟩ := clone_iov h
      intro X hXi vX vY key info k a n hvX hvY hm hpr s hs hr
      rw [hiov] at hvX hvY
      rw [if_neg hin] at hvY
      by_cases hXn : X = w.iovs.length
      · rw [if_pos hXn] at hvX; cases hvX
        simp only at hm
        by_cases hij : i = j
        · subst hij
          rw [hc vj rfl hvj] at hm; cases hm
        · exact hu j (fun e => hij e.symm) vj vY key info k a n hvj hvY hm
            (by rw [← pendingRange_congr (v := vj) rfl rfl]; exact hpr) s hs hr
      · rw [if_neg hXn] at hvX
        exact hu X hXi vX vY key info k a n hvX hvY hm hpr s hs hr
  · have hnt : ∀ j, op ≠ .take j ∧ op ≠ .clone j :=
      fun j => ⟨fun e => hop (Or.inl ⟨j, e⟩), fun e => hop (Or.inr ⟨j, e⟩)⟩
    obtain ⟨T, A, ht⟩ := step_tstep hg hb.wf hnt h
    intro X hXi
    exact ht.noShare hb.apriv (hu X hXi) hXi

/-- A freshly created, still empty iovec shares nothing. -/
theorem unshared_of_no_slices {w : World} {i : Nat} (h : ∀ v, w.iov i = some v → v.slices = []) : Unshared w i := by
  intro X _ vX vY key info k a n _ hvY _ _ s hs
  rw [h vY hvY] at hs; cases hs

end Woodpile.Iovec

/-
Layer B → Layer A for the full multi-object vocabulary (track `wabs`), part 3: what a `WOp` step does to
the handle it NAMES and to the handle it CREATES, op by op.

The calls that exist in the single-iovec vocabulary (`Woodpile.Iovec.Op`) are reduced to `W.step_refines`
(`Proofs/IovecXAbs.lean`: `step_refines` of C03 for the invariant `W.IovInv`) by `target_via_op`: the `WOp`
step computes the same world as the `Op` step on handle `i` (up to the token table).  The others
(`push_aslice`, sub-slice pushes, arena swap / take, `read_n` into the own arena, `new_from_slices`, `take`,
`clone`, `drop`) are done here from the building blocks (`W.Pushed`, `W.World.pushHeld_total`,
`W.World.readN_spec`, `W.IovInv.set_arena`): the arena-swapping ones with the world-level arena invariant
`ArenaInv.below`, `push_aslice` with `APriv` (no detached slice covers a pending placeholder range:
`Proofs/IovecWPriv.lean`) — the pushed slice MAY overlap slices the iovec already holds.
-/
import Woodpile.Proofs.IovecWPriv

namespace Woodpile.Iovec
open Woodpile.Arena
open Woodpile.Pipe (Cell Pipe cellBytes fillCells)

theorem GW.step_some' {g g' : GW} {op : WOp} {r : WRet} (h : g.step op = some (g', r)) :
    ∃ w', g.w.step op = some w' ∧ g' = ⟨w', g.ghost' op, g.nid' op⟩ ∧ r = g.w.ret op := by
  unfold GW.step at h
  cases hs : g.w.step op with
  | none => rw [hs] at h; cases h
  | some w' =>
    rw [hs] at h
    simp only [Option.some.injEq, Prod.mk.injEq] at h
    exact ⟨w', rfl, h.1.symm, h.2.symm⟩

/-- What is proved about the handle a step names. -/
def TargetGoal (g : GW) (op : WOp) (w' : World) (i : Nat) : Prop :=
  (∀ x, w'.iov i = some x → W.IovInv w' x) ∧
  absW ⟨w', g.ghost' op, g.nid' op⟩ i = (PW.step g.pw op (g.w.ret op)).pipe i ∧ PW.ok g.pw op (g.w.ret op)

/-- A call of the single-iovec vocabulary: reduce to `step_refines`. -/
theorem target_via_op {g : GW} {op : WOp} {w' : World} {i : Nat} (o o2 : Op) (r' r2 : Ret) (s' : State)
    {v : Iov} (hv : g.w.iov i = some v) (hinv : W.IovInv g.w v)
    (hstep : step i (g.st i) o = some (s', r'))
    (hw : ∀ x, s'.w.iov i = some x → w'.iov i = some x ∧ (W.IovInv s'.w x → W.IovInv w' x) ∧ absCells w' x = absCells s'.w x)
    (hgh : g.ghost' op i = s'.ghost) (hnid : g.nid' op i = s'.nextId)
    (hasop : op.asOp g.w.brefs (g.w.ret op) = some (i, o2, r2))
    (hspec : ∀ p, specStep p o2 r2 = specStep p o r' ∧ (specOk p o r' → specOk p o2 r2)) :
    TargetGoal g op w' i := by
  obtain ⟨⟨x, hx, hix⟩, habs, hok⟩ := W.step_refines i (g.st i) s' o r' ⟨v, hv, hinv⟩ hstep
  obtain ⟨h1, h2, h3⟩ := hw x hx
  refine ⟨?_, ?_, ?_⟩
  · intro y hy; rw [h1] at hy; cases hy; exact h2 hix
  · rw [absW_live _ i x h1]
    simp only [PW.step, GW.pw, hasop, fupd_same]
    rw [(hspec _).1]
    show _ = specStep (abs i (g.st i)) o r'
    rw [← habs, abs_eq i s' x hx, h3, hgh, hnid]
  · simp only [PW.ok, GW.pw, hasop]
    exact (hspec _).2 hok

/-- A call that appends `bytes` (possibly none) to the named iovec. -/
theorem target_pushed {g : GW} {op : WOp} {w' : World} {i : Nat} {v v' : Iov} (bytes : List UInt8)
    (hv : g.w.iov i = some v) (hv' : w'.iov i = some v') (hp : W.Pushed g.w w' v v' bytes)
    (hgh : g.ghost' op i = g.ghost i) (hnid : g.nid' op i = g.nid i) :
    (∀ x, w'.iov i = some x → W.IovInv w' x) ∧
    absW ⟨w', g.ghost' op, g.nid' op⟩ i = (absW g i).append bytes := by
  refine ⟨?_, ?_⟩
  · intro y hy; rw [hv'] at hy; cases hy; exact hp.inv
  · rw [absW_live _ i v' hv', absW_live g i v hv]
    simp only [Pipe.append, hp.cells, hgh, hnid]

/-! ### Caller buffers: `addExt` / `addExts` are `lend` / `lendAll` of whole buffers -/

def Borrow.whole (bs : List UInt8) : Borrow := ⟨[], bs, []⟩

theorem lend_whole (w : World) (bs : List UInt8) :
    w.lend (Borrow.whole bs) = ((w.addExt bs).1, ⟨.ext w.exts.length, 0, bs.length⟩) := by
  simp [World.lend, World.addExt, Borrow.whole]

theorem addExts_go_lendAll (bufs : List (List UInt8)) : ∀ (w : World) (acc : List Slice),
    bufs.foldl addExtStep (w, acc) =
      ((w.lendAll (bufs.map Borrow.whole)).1, acc ++ (w.lendAll (bufs.map Borrow.whole)).2) := by
  induction bufs with
  | nil => intro w acc; simp [World.lendAll]
  | cons b t ih =>
    intro w acc
    rw [List.foldl_cons]
    have e : addExtStep (w, acc) b = ((w.lend (Borrow.whole b)).1, acc ++ [(w.lend (Borrow.whole b)).2]) := by
      rw [lend_whole]; rfl
    rw [e, ih]
    simp [World.lendAll]

theorem addExts_lendAll (w : World) (bufs : List (List UInt8)) :
    w.addExts bufs = w.lendAll (bufs.map Borrow.whole) := by
  rw [addExts_eq, addExts_go_lendAll]
  simp

theorem whole_flatMap (bufs : List (List UInt8)) : (bufs.map Borrow.whole).flatMap (·.bs) = bufs.flatten := by
  induction bufs with
  | nil => rfl
  | cons b t ih => simp [Borrow.whole, List.flatMap_cons] at ih ⊢; exact ih

/-! ### The calls of the single-iovec vocabulary -/

theorem iovInv_addBref {w : World} {v : Iov} (b : Backref) (h : W.IovInv w v) : W.IovInv (w.addBref b).1 v :=
  h.of_world (fun _ => Nat.le_refl _) (Nat.le_refl _)

theorem absCells_addBref (w : World) (b : Backref) (v : Iov) : absCells (w.addBref b).1 v = absCells w v :=
  absCells_congr (fun _ _ => rfl)

theorem target_oplike {g : GW} {op : WOp} {w' : World} {i : Nat} {v : Iov}
    (h1 : g.w.step op = some w') (hv : g.w.iov i = some v) (hinv : W.IovInv g.w v)
    (hop : (∃ bs, op = .push i bs) ∨ (∃ bs, op = .pushBorrowed i bs) ∨ (∃ bs, op = .pushCopy i bs) ∨
      (∃ bufs, op = .extend i bufs) ∨ (∃ pat, op = .register i pat) ∨ (∃ bi bs, op = .backfill i bi bs) ∨
      (∃ k, op = .consume i k) ∨ (∃ k, op = .advance i k) ∨ (∃ k, op = .read i k) ∨ op = .pop i ∨ op = .clear i) :
    TargetGoal g op w' i := by
  have triv : ∀ (s' : State), s'.w = w' → ∀ x, s'.w.iov i = some x →
      w'.iov i = some x ∧ (W.IovInv s'.w x → W.IovInv w' x) ∧ absCells w' x = absCells s'.w x := by
    intro s' e x hx; subst e; exact ⟨hx, id, rfl⟩
  rcases hop with ⟨bs, rfl⟩ | ⟨bs, rfl⟩ | ⟨bs, rfl⟩ | ⟨bufs, rfl⟩ | ⟨pat, rfl⟩ | ⟨bi, bs, rfl⟩ | ⟨k, rfl⟩ |
    ⟨k, rfl⟩ | ⟨k, rfl⟩ | rfl | rfl
  · -- push
    simp only [World.step] at h1
    have hl := lend_whole g.w bs
    replace h1 : (g.w.addExt bs).1.push i ⟨.ext g.w.exts.length, 0, bs.length⟩ = some w' := h1
    have hstep : step i (g.st i) (.push (Borrow.whole bs)) = some ({ g.st i with w := w' }, .unit) := by
      simp only [step, GW.st, hl, h1, Option.map_some]
    exact target_via_op (.push (Borrow.whole bs)) (.pushCopy bs) .unit .unit _ hv hinv hstep (triv _ rfl) rfl rfl rfl
      (fun p => ⟨rfl, id⟩)
  · -- pushBorrowed
    simp only [World.step] at h1
    have hl := lend_whole g.w bs
    replace h1 : (g.w.addExt bs).1.pushBorrowed i ⟨.ext g.w.exts.length, 0, bs.length⟩ = some w' := h1
    have hstep : step i (g.st i) (.pushBorrowed (Borrow.whole bs)) = some ({ g.st i with w := w' }, .unit) := by
      simp only [step, GW.st, hl, h1, Option.map_some]
    exact target_via_op (.pushBorrowed (Borrow.whole bs)) (.pushCopy bs) .unit .unit _ hv hinv hstep (triv _ rfl) rfl rfl rfl
      (fun p => ⟨rfl, id⟩)
  · -- pushCopy
    simp only [World.step] at h1
    have hstep : step i (g.st i) (.pushCopy bs) = some ({ g.st i with w := w' }, .unit) := by
      simp only [step, GW.st, h1, Option.map_some]
    exact target_via_op (.pushCopy bs) (.pushCopy bs) .unit .unit _ hv hinv hstep (triv _ rfl) rfl rfl rfl
      (fun p => ⟨rfl, id⟩)
  · -- extend
    simp only [World.step] at h1
    rw [addExts_lendAll] at h1
    have hstep : step i (g.st i) (.extend (bufs.map Borrow.whole)) = some ({ g.st i with w := w' }, .unit) := by
      simp only [step, GW.st, h1, Option.map_some]
    exact target_via_op (.extend (bufs.map Borrow.whole)) (.pushCopy bufs.flatten) .unit .unit _ hv hinv hstep
      (triv _ rfl) rfl rfl rfl (fun p => ⟨by simp only [specStep, whole_flatMap], id⟩)
  · -- register
    simp only [World.step] at h1
    cases hr : g.w.registerPatch i pat with
    | none => rw [hr] at h1; cases h1
    | some wb =>
      obtain ⟨w1, b⟩ := wb
      rw [hr] at h1
      simp only [Option.some.injEq] at h1
      subst h1
      have hstep : step i (g.st i) (.registerPatch pat) =
          some ({ g.st i with w := w1, nextId := (g.st i).nextId + 1 }, .token b) := by
        simp only [step, GW.st, hr, Option.map_some]
      refine target_via_op (.registerPatch pat) (.registerPatch pat) (.token b) (.token b) _ hv hinv hstep ?_ rfl
        (by simp [GW.nid', GW.st]) (by simp [WOp.asOp, World.ret, hr]) (fun p => ⟨rfl, id⟩)
      intro x hx
      exact ⟨hx, iovInv_addBref b, absCells_addBref _ b x⟩
  · -- backfill
    simp only [World.step] at h1
    split at h1
    · have hstep : step i (g.st i) (.backfill (g.w.brefs.getD bi none) bs) = some ({ g.st i with w := w' }, .unit) := by
        simp only [step, GW.st, h1, Option.map_some]
      exact target_via_op _ _ .unit .unit _ hv hinv hstep (triv _ rfl) rfl rfl rfl (fun p => ⟨rfl, id⟩)
    · cases h1
  · -- consume
    simp only [World.step] at h1
    cases hc : g.w.consume i k with
    | none => rw [hc] at h1; cases h1
    | some wn =>
      obtain ⟨w1, n⟩ := wn
      rw [hc] at h1
      simp only [Option.some.injEq] at h1
      subst h1
      have hstep : step i (g.st i) (.consume k) =
          some ({ g.st i with w := w1, ghost := (g.st i).ghost ++ g.w.flat (v.slices.take n) },
            .took n (g.w.flat (v.slices.take n))) := by
        simp only [step, GW.st, hv, hc, Option.map_some]
      exact target_via_op (.consume k) (.consume k) _ _ _ hv hinv hstep (triv _ rfl)
        (by simp [GW.ghost', World.ret, hv, hc, WRet.removed, GW.st]) rfl
        (by simp [WOp.asOp, World.ret, hv, hc]) (fun p => ⟨rfl, id⟩)
  · -- advance
    simp only [World.step] at h1
    cases hc : g.w.advance i k with
    | none => rw [hc] at h1; cases h1
    | some wn =>
      obtain ⟨w1, c⟩ := wn
      rw [hc] at h1
      simp only [Option.some.injEq] at h1
      subst h1
      have hstep : step i (g.st i) (.advance k) =
          some ({ g.st i with w := w1, ghost := (g.st i).ghost ++ (g.w.flat v.slices).take c },
            .took c ((g.w.flat v.slices).take c)) := by
        simp only [step, GW.st, hv, hc, Option.map_some]
      exact target_via_op (.advance k) (.advance k) _ _ _ hv hinv hstep (triv _ rfl)
        (by simp [GW.ghost', World.ret, hv, hc, WRet.removed, GW.st]) rfl
        (by simp [WOp.asOp, World.ret, hv, hc]) (fun p => ⟨rfl, id⟩)
  · -- read
    simp only [World.step] at h1
    cases hc : World.readInto (k + 2) g.w i k [] with
    | none => rw [hc] at h1; cases h1
    | some wn =>
      obtain ⟨w1, bytes⟩ := wn
      rw [hc] at h1
      simp only [Option.some.injEq] at h1
      subst h1
      have hstep : step i (g.st i) (.readInto k) =
          some ({ g.st i with w := w1, ghost := (g.st i).ghost ++ bytes }, .took bytes.length bytes) := by
        simp only [step, GW.st, hc, Option.map_some]
      exact target_via_op (.readInto k) (.readInto k) _ _ _ hv hinv hstep (triv _ rfl)
        (by simp [GW.ghost', World.ret, hc, WRet.removed, GW.st]) rfl
        (by simp [WOp.asOp, World.ret, hc]) (fun p => ⟨rfl, id⟩)
  · -- pop
    simp only [World.step] at h1
    cases hc : g.w.consume i 1 with
    | none => rw [hc] at h1; cases h1
    | some wn =>
      obtain ⟨w1, n⟩ := wn
      rw [hc] at h1
      have hn : n = 1 := by
        cases n with
        | zero => simp at h1
        | succ m => cases m with
          | zero => rfl
          | succ _ => simp at h1
      subst hn
      simp only [Option.some.injEq] at h1
      subst h1
      have hstep : step i (g.st i) .pop =
          some ({ g.st i with w := w1, ghost := (g.st i).ghost ++ g.w.flat (v.slices.take 1) },
            .took 1 (g.w.flat (v.slices.take 1))) := by
        simp only [step, GW.st, hv, hc]
      exact target_via_op .pop .pop _ _ _ hv hinv hstep (triv _ rfl)
        (by simp [GW.ghost', World.ret, hv, WRet.removed, GW.st]) rfl
        (by simp [WOp.asOp, World.ret, hv]) (fun p => ⟨rfl, id⟩)
  · -- clear
    simp only [World.step] at h1
    have hstep : step i (g.st i) .clear = some ({ g.st i with w := w', ghost := [] }, .unit) := by
      simp only [step, GW.st, h1, Option.map_some]
    exact target_via_op .clear .clear .unit .unit _ hv hinv hstep (triv _ rfl)
      (by simp [GW.ghost']) rfl rfl (fun p => ⟨rfl, id⟩)

/-! ### Calls that are not in the single-iovec vocabulary -/

/-- A call the reference treats as the identity or as a whole-pipe move: nothing to say about `ok`. -/
theorem goal_struct {g : GW} {op : WOp} {w' : World} {j : Nat} (hasop : op.asOp g.w.brefs (g.w.ret op) = none)
    (hinv : ∀ x, w'.iov j = some x → W.IovInv w' x)
    (habs : absW ⟨w', g.ghost' op, g.nid' op⟩ j = (g.pw.structStep op).pipe j) : TargetGoal g op w' j := by
  refine ⟨hinv, ?_, ?_⟩
  · rw [habs]; simp only [PW.step, GW.pw, hasop]
  · simp only [PW.ok, GW.pw, hasop]

/-- … the identity on the named handle, from a `Pushed … []`. -/
theorem goal_id {g : GW} {op : WOp} {w' : World} {i : Nat} {v v' : Iov}
    (hasop : op.asOp g.w.brefs (g.w.ret op) = none) (hstruct : g.pw.structStep op = g.pw)
    (hv : g.w.iov i = some v) (hv' : w'.iov i = some v') (hp : W.Pushed g.w w' v v' [])
    (hgh : g.ghost' op i = g.ghost i) (hnid : g.nid' op i = g.nid i) : TargetGoal g op w' i := by
  obtain ⟨h1, h2⟩ := target_pushed (op := op) [] hv hv' hp hgh hnid
  refine goal_struct hasop h1 ?_
  rw [h2, hstruct, Pipe.append_nil]
  rfl

/-- … appending `bytes` to the named handle, from a `Pushed … bytes`. -/
theorem goal_append {g : GW} {op : WOp} {w' : World} {i : Nat} {v v' : Iov} (bytes : List UInt8)
    (hasop : op.asOp g.w.brefs (g.w.ret op) = some (i, .pushCopy bytes, .unit))
    (hv : g.w.iov i = some v) (hv' : w'.iov i = some v') (hp : W.Pushed g.w w' v v' bytes)
    (hgh : g.ghost' op i = g.ghost i) (hnid : g.nid' op i = g.nid i) : TargetGoal g op w' i := by
  obtain ⟨h1, h2⟩ := target_pushed (op := op) bytes hv hv' hp hgh hnid
  refine ⟨h1, ?_, ?_⟩
  · rw [h2]; simp only [PW.step, GW.pw, hasop, fupd_same, specStep]
  · simp only [PW.ok, GW.pw, hasop, specOk]

/-- Changing parts of the world the abstraction does not read. -/
theorem W.Pushed.of_same {w w' w'' : World} {v v' : Iov} {bytes : List UInt8} (h : W.Pushed w w' v v' bytes)
    (hheap : w''.heap = w'.heap) (hexts : w''.exts = w'.exts) (hnext : w''.next = w'.next)
    (hpol : w''.pol = w'.pol) (htun : w''.tun = w'.tun) : W.Pushed w w'' v v' bytes :=
  have hb : ∀ s, w''.sliceBytes s = w'.sliceBytes s := fun s => sliceBytes_congr s hheap hexts
  { inv := h.inv.of_world (fun b => by rw [hexts]; exact Nat.le_refl _) (by rw [hnext]; exact Nat.le_refl _)
    cells := by rw [absCells_congr (fun s _ => hb s)]; exact h.cells
    flat := by rw [flat_congr _ (fun s _ => hb s)]; exact h.flat
    backrefs := h.backrefs, consumedSize := h.consumedSize, consumedSlices := h.consumedSlices
    logicalSize := h.logicalSize
    visible := by rw [visible_congr (fun s _ => hb s)]; exact h.visible
    pol := hpol.trans h.pol, tun := htun.trans h.tun }

theorem sliceBytes_len0 (w : World) (s : Slice) (h : s.len = 0) : w.sliceBytes s = [] := by
  unfold World.sliceBytes
  cases s.region <;> simp [Heap.read, h]

/-! #### sub-slices of caller buffers -/

theorem lentOk_at (w : World) (b off len : Nat) (hb : off + len ≤ (w.exts.getD b []).length) :
    LentOk w ⟨.ext b, off, len⟩ (w.sliceBytes ⟨.ext b, off, len⟩) :=
  have hl : (w.sliceBytes ⟨.ext b, off, len⟩).length = len := by
    simp only [World.sliceBytes, List.length_take, List.length_drop]; omega
  { ext := ⟨b, rfl⟩
    len := hl.symm
    bytes := rfl
    ok := fun hne a =>
      { pos := by
          rcases Nat.eq_zero_or_pos len with h0 | h0
          · exact absurd (sliceBytes_len0 w _ h0) hne
          · exact h0
        ext := fun b' hb' => by cases hb'; exact hb
        chunk := fun c hc => by cases hc } }

theorem extend_single (w : World) (i : Nat) (v : Iov) (s : Slice) (hv : w.iov i = some v) :
    w.extend i [s] = w.pushBorrowed i s := by
  by_cases h0 : s.len = 0
  · simp [World.extend, World.pushBorrowed, hv, h0]
  · simp only [World.extend, h0, if_false]
    cases w.pushBorrowed i s <;> simp

theorem World.pushBorrowed_lent (w : World) (i : Nat) (v : Iov) (s : Slice) (bs : List UInt8)
    (hv : w.iov i = some v) (hinv : W.IovInv w v) (hl : LentOk w s bs) :
    ∃ w' v', w.pushBorrowed i s = some w' ∧ w'.iov i = some v' ∧ W.Pushed w w' v v' bs := by
  obtain ⟨w', v', h1, h2, h3⟩ := W.World.extend_spec i [(s, bs)] w v hv hinv (by simpa using hl)
  simp only [List.map_cons, List.map_nil] at h1
  rw [extend_single w i v s hv] at h1
  exact ⟨w', v', h1, h2, by simpa using h3⟩

theorem World.push_lent (w : World) (i : Nat) (v : Iov) (s : Slice) (bs : List UInt8)
    (hv : w.iov i = some v) (hinv : W.IovInv w v) (hl : LentOk w s bs) :
    ∃ w' v', w.push i s = some w' ∧ w'.iov i = some v' ∧ W.Pushed w w' v v' bs := by
  rcases World.push_eq w i v s hv with h | h
  · rw [h, hl.bytes]
    obtain ⟨w', v', h1, h2, h3, _⟩ := W.World.pushCopy_total w i v bs hv hinv
    exact ⟨w', v', h1, h2, h3⟩
  · rw [h]; exact World.pushBorrowed_lent w i v s bs hv hinv hl

/-! #### the remaining calls on a live handle -/

theorem target_other {g : GW} {op : WOp} {w' : World} {caps : Nat → Nat} {i : Nat} {v : Iov} (hg : GReach g.w caps)
    (h1 : g.w.step op = some w') (hv : g.w.iov i = some v) (hinv : W.IovInv g.w v)
    (hop : (∃ k, op = .reserve i k) ∨ op = .flush i ∨ (∃ ai, op = .swapArena i ai) ∨ op = .takeArena i ∨
      (∃ c a s sc, op = .readNIov i c a s sc) ∨ (∃ si, op = .pushASlice i si) ∨
      (∃ b off len, op = .pushAt i b off len) ∨ (∃ b off len, op = .pushBorrowedAt i b off len) ∨
      op = .clone i ∨ op = .drop i ∨ op = .take i) :
    TargetGoal g op w' i := by
  have hwi := hg.reachable.inv
  have hai := hg.inv
  rcases hop with ⟨k, rfl⟩ | rfl | ⟨ai, rfl⟩ | rfl | ⟨c, a, src, sc, rfl⟩ | ⟨si, rfl⟩ | ⟨b, off, len, rfl⟩ |
    ⟨b, off, len, rfl⟩ | rfl | rfl | rfl
  · -- reserve
    obtain ⟨s', r, hstep, ⟨x, hx, hix⟩, habs, _⟩ := W.refines_reserve i (g.st i) k ⟨v, hv, hinv⟩
    have hw' : some s'.w = some w' := by
      rw [← h1]
      simp only [step, GW.st, hv, Option.some.injEq, Prod.mk.injEq] at hstep
      rw [← hstep.1]
      simp only [World.step, hv]
    simp only [Option.some.injEq] at hw'
    have hgn : s'.ghost = g.ghost i ∧ s'.nextId = g.nid i := by
      simp only [step, GW.st, hv, Option.some.injEq, Prod.mk.injEq] at hstep
      rw [← hstep.1]; exact ⟨rfl, rfl⟩
    subst hw'
    refine goal_struct rfl (fun y hy => by rw [hx] at hy; cases hy; exact hix) ?_
    rw [absW_live _ i x hx]
    rw [abs_eq i s' x hx, hgn.1, hgn.2] at habs
    exact habs
  · -- flush
    obtain ⟨s', r, hstep, ⟨x, hx, hix⟩, habs, _⟩ := W.refines_flush i (g.st i) ⟨v, hv, hinv⟩
    have hw' : some s'.w = some w' := by
      rw [← h1]
      simp only [step, GW.st, hv, Option.some.injEq, Prod.mk.injEq] at hstep
      rw [← hstep.1]
      simp only [World.step, hv]
    simp only [Option.some.injEq] at hw'
    have hgn : s'.ghost = g.ghost i ∧ s'.nextId = g.nid i := by
      simp only [step, GW.st, hv, Option.some.injEq, Prod.mk.injEq] at hstep
      rw [← hstep.1]; exact ⟨rfl, rfl⟩
    subst hw'
    refine goal_struct rfl (fun y hy => by rw [hx] at hy; cases hy; exact hix) ?_
    rw [absW_live _ i x hx]
    rw [abs_eq i s' x hx, hgn.1, hgn.2] at habs
    exact habs
  · -- swapArena
    simp only [World.step, hv] at h1
    cases har : g.w.arena ai with
    | none => rw [har] at h1; cases h1
    | some ar =>
      rw [har] at h1
      simp only [Option.some.injEq] at h1
      subst h1
      have hinv' : W.IovInv ((g.w.setArena ai (some v.arena)).setIov i (some { v with arena := ar })) { v with arena := ar } :=
        hinv.set_arena ar rfl (Nat.le_refl _) (fun ca hca => ⟨hwi.arenaOk ai ar har ca hca, fun s hs c hc hcc =>
          hai.below (.arena ai) ca s (by simp [World.cacheAt, har, hca]) (Or.inl ⟨i, v, hv, hs⟩) (by rw [hc, hcc])⟩)
      exact goal_id rfl rfl hv (by simp) (W.Pushed.of_frame_arena ar hinv' (fun _ _ => rfl) rfl rfl) rfl rfl
  · -- takeArena
    simp only [World.step, hv, Option.some.injEq] at h1
    subst h1
    have hinv' : W.IovInv ((g.w.setIov i (some { v with arena := ⟨none⟩ })).addArena v.arena).1 { v with arena := ⟨none⟩ } :=
      hinv.set_arena ⟨none⟩ rfl (Nat.le_refl _) (by intro ca hca; cases hca)
    exact goal_id rfl rfl hv (by simp) (W.Pushed.of_frame_arena ⟨none⟩ hinv' (fun _ _ => rfl) rfl rfl) rfl rfl
  · -- readNIov
    obtain ⟨w1, ar', res, hrn, hv1, _, hpush⟩ := W.World.readN_spec g.w i v ⟨src, sc⟩ c a hv hinv
    simp only [World.step, World.readNIov, hv, hrn, hv1] at h1
    cases res with
    | ok x =>
      simp only [Option.some.injEq] at h1
      subst h1
      exact goal_id rfl rfl hv (by simp) (hpush.of_same rfl rfl rfl rfl rfl) rfl rfl
    | error k =>
      simp only [Option.some.injEq] at h1
      subst h1
      exact goal_id rfl rfl hv (by simp) hpush rfl rfl
  · -- pushASlice
    simp only [World.step] at h1
    cases ha : g.w.aslice si with
    | none => rw [ha] at h1; cases h1
    | some x =>
      rw [ha] at h1
      simp only at h1
      have hv0 : (g.w.setASlice si none).iov i = some v := by simpa using hv
      have hinv0 : W.IovInv (g.w.setASlice si none) v := hinv.of_world (fun _ => Nat.le_refl _) (Nat.le_refl _)
      have hp0 : W.Pushed g.w (g.w.setASlice si none) v v [] := W.Pushed.of_frame hinv hinv0 (fun _ _ => rfl) rfl rfl
      have hasop : (WOp.pushASlice i si).asOp g.w.brefs (g.w.ret (.pushASlice i si)) =
          some (i, .pushCopy (g.w.sliceBytes x.slice), .unit) := by
        simp [WOp.asOp, World.ret, ha]
      by_cases h0 : x.slice.len = 0
      · rw [if_pos h0] at h1
        simp only [Option.some.injEq] at h1
        subst h1
        refine goal_append _ hasop hv hv0 ?_ rfl rfl
        rw [sliceBytes_len0 _ _ h0]; exact hp0
      · rw [if_neg h0] at h1
        have hok := hwi.asliceOk si x ha
        obtain ⟨cx, hcx⟩ : ∃ cx, x.slice.region = .chunk cx := by
          cases hr : x.slice.region with
          | chunk k => exact ⟨k, rfl⟩
          | ext b => exact absurd (hok.extEmpty b hr) h0
        have hheld : W.HeldOk (g.w.setASlice si none) v x.slice := by
          refine ⟨⟨cx, hcx⟩, ?_, ?_⟩
          · intro c' hc'
            refine ⟨hwi.hasSlice_lt (hasSlice_aslice ha) hc', ?_⟩
            intro ca hca hcc
            exact hai.below (.iov i) ca x.slice (by rw [cacheAt_iov hv]; exact hca) (hasSlice_aslice ha) (by rw [hc', hcc])
          · -- a detached slice covers no pending placeholder range (`APriv`)
            intro e he t ht hreg
            obtain ⟨key, info⟩ := e
            obtain ⟨k', hk', hpr⟩ := pendingRange_of_target (hg.base.wf i v hv) he (hinv.br_ok _ he).idx_ge ht
            exact hg.base.apriv i v key info k' _ _ hv he hpr x.slice ⟨si, x, ha, rfl⟩ (by rw [hreg, hk'])
        obtain ⟨w1, v1, g1, g2, g3, _⟩ := W.World.pushHeld_total (g.w.setASlice si none) i v x.slice
          (g.w.sliceBytes x.slice) hv0 hinv0 hheld rfl
        rw [g1] at h1
        simp only at h1
        obtain ⟨m1, m2⟩ := W.World.pushAnchor_spec w1 i v1 x.anchor g2 g3.inv
        rw [m1] at h1
        simp only [Option.some.injEq] at h1
        subst h1
        refine goal_append _ hasop hv (World.iov_setIov w1 i _) ?_ rfl rfl
        simpa using (hp0.trans g3).trans m2
  · -- pushAt
    simp only [World.step] at h1
    split at h1
    · rename_i hb
      obtain ⟨w1, v1, g1, g2, g3⟩ := World.push_lent g.w i v _ _ hv hinv (lentOk_at g.w b off len hb)
      rw [g1] at h1
      simp only [Option.some.injEq] at h1
      subst h1
      exact goal_append _ rfl hv g2 g3 rfl rfl
    · cases h1
  · -- pushBorrowedAt
    simp only [World.step] at h1
    split at h1
    · rename_i hb
      obtain ⟨w1, v1, g1, g2, g3⟩ := World.pushBorrowed_lent g.w i v _ _ hv hinv (lentOk_at g.w b off len hb)
      rw [g1] at h1
      simp only [Option.some.injEq] at h1
      subst h1
      exact goal_append _ rfl hv g2 g3 rfl rfl
    · cases h1
  · -- clone: the original
    simp only [World.step, World.clone, hv, Option.some.injEq] at h1
    subst h1
    have hin : i ≠ g.w.iovs.length := Nat.ne_of_lt (iov_lt_of_some hv)
    have hinv' : W.IovInv (g.w.addIov { v with arena := ⟨none⟩ }).1 v := hinv.of_world (fun _ => Nat.le_refl _) (Nat.le_refl _)
    refine goal_struct rfl (fun y hy => by simp [hin, hv] at hy; subst hy; exact hinv') ?_
    rw [absW_live _ i v (by simp [hin, hv])]
    simp only [GW.ghost', GW.nid', PW.structStep, GW.pw, fupd_ne _ _ hin]
    rw [absW_live g i v hv]
    rfl
  · -- drop
    simp only [World.step, World.dropIov, hv, Option.some.injEq] at h1
    subst h1
    refine goal_struct rfl (fun y hy => by simp at hy) ?_
    rw [absW_dead _ i (by simp)]
    simp [PW.structStep, GW.pw]
  · -- take: the handle keeps an empty iovec
    simp only [World.step, World.take, hv, Option.some.injEq] at h1
    subst h1
    have hin : i ≠ g.w.iovs.length := Nat.ne_of_lt (iov_lt_of_some hv)
    have hlen : (g.w.setIov i (some Iov.empty)).iovs.length = g.w.iovs.length := setIov_length _ hv
    have hiov : ((g.w.setIov i (some Iov.empty)).addIov v).1.iov i = some Iov.empty := by
      rw [iov_addIov, hlen, if_neg hin]; simp
    refine goal_struct rfl (fun y hy => ?_) ?_
    · rw [hiov] at hy; cases hy
      exact W.IovInv.empty _ ⟨none⟩ (by intro ca hca; cases hca)
    · rw [absW_live _ i Iov.empty hiov]
      simp [GW.ghost', GW.nid', PW.structStep, GW.pw, absCells, Iov.empty, mkCells, Woodpile.Pipe.empty]

/-! ### The handle a step creates -/

theorem pairwise_of_forall_mem {α} {R : α → α → Prop} : ∀ {l : List α}, (∀ a ∈ l, ∀ b ∈ l, R a b) → l.Pairwise R
  | [], _ => List.Pairwise.nil
  | x :: t, h => List.Pairwise.cons (fun b hb => h x (by simp) b (by simp [hb]))
      (pairwise_of_forall_mem (fun a ha b hb => h a (by simp [ha]) b (by simp [hb])))

theorem flat_filter_pos (w : World) (l : List Slice) : w.flat (l.filter (fun s => s.len > 0)) = w.flat l := by
  induction l with
  | nil => rfl
  | cons s t ih =>
    by_cases h : s.len > 0
    · simp [h, ih]
    · have h0 : s.len = 0 := by omega
      simp [h, ih, sliceBytes_len0 w s h0]

theorem flat_of_lent (w : World) (l : List (Slice × List UInt8)) (h : ∀ p ∈ l, LentOk w p.1 p.2) :
    w.flat (l.map (·.1)) = (l.map (·.2)).flatten := by
  induction l with
  | nil => rfl
  | cons p t ih =>
    simp only [List.map_cons, World.flat_cons, List.flatten_cons]
    rw [(h p (by simp)).bytes, ih (fun q hq => h q (by simp [hq]))]

/-- `new_from_slices`: the fresh iovec satisfies the invariant and holds exactly the bytes of the buffers. -/
theorem newFromSlices_spec (w : World) (bufs : List (List UInt8)) :
    ∃ vn, ((w.addExts bufs).1.newFromSlices (w.addExts bufs).2 ⟨none⟩).1.iov w.iovs.length = some vn ∧
      W.IovInv ((w.addExts bufs).1.newFromSlices (w.addExts bufs).2 ⟨none⟩).1 vn ∧
      absCells ((w.addExts bufs).1.newFromSlices (w.addExts bufs).2 ⟨none⟩).1 vn = bufs.flatten.map Cell.byte := by
  obtain ⟨l, h1, h2, h3⟩ := lendAll_spec w (bufs.map Borrow.whole)
  rw [← addExts_lendAll] at h1 h3
  have h2' : l.map (·.2) = bufs := by
    rw [h2, List.map_map]
    have : ((fun x : Borrow => x.bs) ∘ Borrow.whole) = id := by funext b; rfl
    rw [this, List.map_id]
  obtain ⟨he, _⟩ := addExts_spec w bufs
  have hlen : (w.addExts bufs).1.iovs.length = w.iovs.length := by rw [he]
  generalize hw1 : (w.addExts bufs).1 = w1 at h3 hlen
  generalize hsl : (w.addExts bufs).2 = slices at h1
  let fl := slices.filter (fun s => s.len > 0)
  let vn : Iov := { Iov.empty with slices := fl, anchors := if fl.isEmpty then [] else [⟨fl.length, none⟩],
                                   arena := ⟨none⟩, logicalSize := (fl.map (·.len)).foldl (· + ·) 0 }
  have hw' : (w1.newFromSlices slices ⟨none⟩).1 = (w1.addIov vn).1 := rfl
  have hmem : ∀ s ∈ fl, ∃ p ∈ l, p.1 = s ∧ 0 < s.len := by
    intro s hs
    obtain ⟨hs1, hs2⟩ := List.mem_filter.mp hs
    rw [h1] at hs1
    obtain ⟨p, hp, rfl⟩ := List.mem_map.mp hs1
    exact ⟨p, hp, rfl, by simpa using hs2⟩
  refine ⟨vn, ?_, ?_, ?_⟩
  · rw [hw', iov_addIov, hlen]; simp
  · rw [hw']
    refine W.IovInv.of_world (w := w1) ?_ (fun _ => Nat.le_refl _) (Nat.le_refl _)
    exact
      { slices_ok := by
          intro s hs
          obtain ⟨p, hp, rfl, hpos⟩ := hmem s hs
          have hl := h3 p hp
          exact hl.ok (by intro e; have := hl.len; rw [e] at this; simp at this; omega) _
        pend_disj := by intro e he; cases he
        size_eq := by
          show 0 + sumLens fl = (fl.map (·.len)).foldl (· + ·) 0
          rw [foldl_add_eq_sum]; simp [sumLens]
        anchors_sum := by
          show sumCounts (if fl.isEmpty then [] else [⟨fl.length, none⟩]) = fl.length
          cases fl with
          | nil => rfl
          | cons _ _ => simp
        cache_fresh := by intro ca hca; cases hca
        br_ok := by intro e he; cases he
        br_sorted := List.Pairwise.nil }
  · rw [hw']
    have hflat : (w1.addIov vn).1.flat fl = bufs.flatten := by
      have e1 : (w1.addIov vn).1.flat fl = w1.flat fl := flat_congr _ (fun _ _ => rfl)
      rw [e1, flat_filter_pos, h1, flat_of_lent w1 l h3, h2']
    show mkCells [] 0 ((w1.addIov vn).1.flat fl) = _
    rw [hflat]
    exact mkCells_none [] 0 _ (fun _ _ => rfl)

theorem created_goal {g : GW} {op : WOp} {w' : World} {caps : Nat → Nat} (hg : GReach g.w caps) (hall : AllInv g.w)
    (h1 : g.w.step op = some w') (hc : op.creates = true) : TargetGoal g op w' g.w.iovs.length := by
  have hwi := hg.reachable.inv
  cases op with
  | new =>
    simp only [World.step, Option.some.injEq] at h1
    subst h1
    refine goal_struct rfl (fun y hy => ?_) ?_
    · simp at hy; subst hy
      exact W.IovInv.empty _ ⟨none⟩ (by intro ca hca; cases hca)
    · rw [absW_live _ _ Iov.empty (by simp)]
      simp [GW.ghost', GW.nid', PW.structStep, GW.pw, absCells, Iov.empty, mkCells, Woodpile.Pipe.empty]
  | newFromArena a =>
    simp only [World.step] at h1
    cases har : g.w.arena a with
    | none => rw [har] at h1; cases h1
    | some ar =>
      rw [har] at h1
      simp only [Option.some.injEq] at h1
      subst h1
      have hlen : (g.w.setArena a none).iovs.length = g.w.iovs.length := rfl
      refine goal_struct rfl (fun y hy => ?_) ?_
      · rw [iov_addIov, hlen, if_pos rfl] at hy
        cases hy
        exact W.IovInv.empty _ ar (fun ca hca => hwi.arenaOk a ar har ca hca)
      · rw [absW_live _ _ { Iov.empty with arena := ar } (by rw [iov_addIov, hlen, if_pos rfl])]
        simp [GW.ghost', GW.nid', PW.structStep, GW.pw, absCells, Iov.empty, mkCells, Woodpile.Pipe.empty]
  | newFromSlices bufs =>
    simp only [World.step, Option.some.injEq] at h1
    subst h1
    obtain ⟨vn, g1, g2, g3⟩ := newFromSlices_spec g.w bufs
    refine goal_struct rfl (fun y hy => by rw [g1] at hy; cases hy; exact g2) ?_
    rw [absW_live _ _ vn g1]
    simp [GW.ghost', GW.nid', PW.structStep, GW.pw, g3, Woodpile.Pipe.empty, Pipe.append]
  | take i =>
    simp only [World.step, World.take] at h1
    cases hv : g.w.iov i with
    | none => rw [hv] at h1; cases h1
    | some v =>
      rw [hv] at h1
      simp only [Option.some.injEq] at h1
      subst h1
      have hin : g.w.iovs.length ≠ i := fun e => Nat.lt_irrefl _ (e ▸ iov_lt_of_some hv)
      have hlen : (g.w.setIov i (some Iov.empty)).iovs.length = g.w.iovs.length := setIov_length _ hv
      have hiov : ((g.w.setIov i (some Iov.empty)).addIov v).1.iov g.w.iovs.length = some v := by
        rw [iov_addIov, hlen, if_pos rfl]
      refine goal_struct rfl (fun y hy => ?_) ?_
      · rw [hiov] at hy; cases hy
        exact (hall i v hv).of_world (fun _ => Nat.le_refl _) (Nat.le_refl _)
      · rw [absW_live _ _ v hiov]
        simp only [GW.ghost', GW.nid', PW.structStep, GW.pw, fupd_ne _ _ hin, fupd_same]
        rw [absW_live g i v hv]
        rfl
  | clone i =>
    simp only [World.step, World.clone] at h1
    cases hv : g.w.iov i with
    | none => rw [hv] at h1; cases h1
    | some v =>
      rw [hv] at h1
      simp only [Option.some.injEq] at h1
      subst h1
      have hinv' : W.IovInv (g.w.addIov { v with arena := ⟨none⟩ }).1 { v with arena := ⟨none⟩ } :=
        (hall i v hv).set_arena ⟨none⟩ rfl (Nat.le_refl _) (by intro ca hca; cases hca)
      refine goal_struct rfl (fun y hy => by simp at hy; subst hy; exact hinv') ?_
      rw [absW_live _ _ { v with arena := ⟨none⟩ } (by simp)]
      simp only [GW.ghost', GW.nid', PW.structStep, GW.pw, fupd_same]
      rw [absW_live g i v hv]
      rfl
  | _ => simp [WOp.creates] at hc

end Woodpile.Iovec

/-
Layer B → Layer A for the full multi-object vocabulary (track `wabs`), part 3: what a `WOp` step does to
the handle it NAMES and to the handle it CREATES, op by op.

The calls that exist in the single-iovec vocabulary (`Woodpile.Iovec.Op`) are reduced to
`Proofs/IovecAbs.step_refines` (`target_via_op`): the `WOp` step computes the same world as the `Op` step
on handle `i` (up to the token table).  The others (`push_aslice`, sub-slice pushes, arena swap / take,
`read_n` into the own arena, `new_from_slices`, `take`, `clone`, `drop`) are done here from the building
blocks of `Proofs/IovecAbs.lean` / `IovecAnch.lean` (`Pushed`, `World.pushHeld_total`, `World.readN_spec`,
`IovInv.set_arena`), the arena-swapping ones with the world-level arena invariant `ArenaInv.below`.
-/
import Woodpile.Proofs.IovecWFrame

namespace Woodpile.Iovec
open Woodpile.Arena
open Woodpile.Pipe (Cell Pipe cellBytes fillCells)

theorem GW.step_some' {g g' : GW} {op : WOp} {r : WRet} (h : g.step op = some (g', r)) :
    ∃ w', g.w.step op = some w' ∧ g' = ⟨w', g.ghost' op, g.nid' op⟩ ∧ r = g.w.ret op := by
  unfold GW.step at h
  cases hs : g.w.step op with
  | none => rw [hs] at h; cases h
  | some w' =>
    rw [hs] at h
    simp only [Option.some.injEq, Prod.mk.injEq] at h
    exact ⟨w', rfl, h.1.symm, h.2.symm⟩

/-- What is proved about the handle a step names. -/
def TargetGoal (g : GW) (op : WOp) (w' : World) (i : Nat) : Prop :=
  (∀ x, w'.iov i = some x → IovInv w' x) ∧
  absW ⟨w', g.ghost' op, g.nid' op⟩ i = (PW.step g.pw op (g.w.ret op)).pipe i ∧ PW.ok g.pw op (g.w.ret op)

/-- A call of the single-iovec vocabulary: reduce to `step_refines`. -/
theorem target_via_op {g : GW} {op : WOp} {w' : World} {i : Nat} (o o2 : Op) (r' r2 : Ret) (s' : State)
    {v : Iov} (hv : g.w.iov i = some v) (hinv : IovInv g.w v)
    (hstep : step i (g.st i) o = some (s', r'))
    (hw : ∀ x, s'.w.iov i = some x → w'.iov i = some x ∧ (IovInv s'.w x → IovInv w' x) ∧ absCells w' x = absCells s'.w x)
    (hgh : g.ghost' op i = s'.ghost) (hnid : g.nid' op i = s'.nextId)
    (hasop : op.asOp g.w.brefs (g.w.ret op) = some (i, o2, r2))
    (hspec : ∀ p, specStep p o2 r2 = specStep p o r' ∧ (specOk p o r' → specOk p o2 r2)) :
    TargetGoal g op w' i := by
  obtain ⟨⟨x, hx, hix⟩, habs, hok⟩ := step_refines i (g.st i) s' o r' ⟨v, hv, hinv⟩ hstep
  obtain ⟨h1, h2, h3⟩ := hw x hx
  refine ⟨?_, ?_, ?_⟩
  · intro y hy; rw [h1] at hy; cases hy; exact h2 hix
  · rw [absW_live _ i x h1]
    simp only [PW.step, GW.pw, hasop, fupd_same]
    rw [(hspec _).1]
    show _ = specStep (abs i (g.st i)) o r'
    rw [← habs, abs_eq i s' x hx, h3, hgh, hnid]
  · simp only [PW.ok, GW.pw, hasop]
    exact (hspec _).2 hok

/-- A call that appends `bytes` (possibly none) to the named iovec. -/
theorem target_pushed {g : GW} {op : WOp} {w' : World} {i : Nat} {v v' : Iov} (bytes : List UInt8)
    (hv : g.w.iov i = some v) (hv' : w'.iov i = some v') (hp : Pushed g.w w' v v' bytes)
    (hgh : g.ghost' op i = g.ghost i) (hnid : g.nid' op i = g.nid i) :
    (∀ x, w'.iov i = some x → IovInv w' x) ∧
    absW ⟨w', g.ghost' op, g.nid' op⟩ i = (absW g i).append bytes := by
  refine ⟨?_, ?_⟩
  · intro y hy; rw [hv'] at hy; cases hy; exact hp.inv
  · rw [absW_live _ i v' hv', absW_live g i v hv]
    simp only [Pipe.append, hp.cells, hgh, hnid]

/-! ### Caller buffers: `addExt` / `addExts` are `lend` / `lendAll` of whole buffers -/

def Borrow.whole (bs : List UInt8) : Borrow := ⟨[], bs, []⟩

theorem lend_whole (w : World) (bs : List UInt8) :
    w.lend (Borrow.whole bs) = ((w.addExt bs).1, ⟨.ext w.exts.length, 0, bs.length⟩) := by
  simp [World.lend, World.addExt, Borrow.whole]

theorem addExts_go_lendAll (bufs : List (List UInt8)) : ∀ (w : World) (acc : List Slice),
    bufs.foldl addExtStep (w, acc) =
      ((w.lendAll (bufs.map Borrow.whole)).1, acc ++ (w.lendAll (bufs.map Borrow.whole)).2) := by
  induction bufs with
  | nil => intro w acc; simp [World.lendAll]
  | cons b t ih =>
    intro w acc
    rw [List.foldl_cons]
    have e : addExtStep (w, acc) b = ((w.lend (Borrow.whole b)).1, acc ++ [(w.lend (Borrow.whole b)).2]) := by
      rw [lend_whole]; rfl
    rw [e, ih]
    simp [World.lendAll]

theorem addExts_lendAll (w : World) (bufs : List (List UInt8)) :
    w.addExts bufs = w.lendAll (bufs.map Borrow.whole) := by
  rw [addExts_eq, addExts_go_lendAll]
  simp

theorem whole_flatMap (bufs : List (List UInt8)) : (bufs.map Borrow.whole).flatMap (·.bs) = bufs.flatten := by
  induction bufs with
  | nil => rfl
  | cons b t ih => simp [Borrow.whole, List.flatMap_cons] at ih ⊢; exact ih

/-! ### The calls of the single-iovec vocabulary -/

theorem iovInv_addBref {w : World} {v : Iov} (b : Backref) (h : IovInv w v) : IovInv (w.addBref b).1 v :=
  h.of_world (fun _ => Nat.le_refl _) (Nat.le_refl _)

theorem absCells_addBref (w : World) (b : Backref) (v : Iov) : absCells (w.addBref b).1 v = absCells w v :=
  absCells_congr (fun _ _ => rfl)

theorem target_oplike {g : GW} {op : WOp} {w' : World} {i : Nat} {v : Iov}
    (h1 : g.w.step op = some w') (hv : g.w.iov i = some v) (hinv : IovInv g.w v)
    (hop : (∃ bs, op = .push i bs) ∨ (∃ bs, op = .pushBorrowed i bs) ∨ (∃ bs, op = .pushCopy i bs) ∨
      (∃ bufs, op = .extend i bufs) ∨ (∃ pat, op = .register i pat) ∨ (∃ bi bs, op = .backfill i bi bs) ∨
      (∃ k, op = .consume i k) ∨ (∃ k, op = .advance i k) ∨ (∃ k, op = .read i k) ∨ op = .pop i ∨ op = .clear i) :
    TargetGoal g op w' i := by
  have triv : ∀ (s' : State), s'.w = w' → ∀ x, s'.w.iov i = some x →
      w'.iov i = some x ∧ (IovInv s'.w x → IovInv w' x) ∧ absCells w' x = absCells s'.w x := by
    intro s' e x hx; subst e; exact ⟨hx, id, rfl⟩
  rcases hop with ⟨bs, rfl⟩ | ⟨bs, rfl⟩ | ⟨bs, rfl⟩ | ⟨bufs, rfl⟩ | ⟨pat, rfl⟩ | ⟨bi, bs, rfl⟩ | ⟨k, rfl⟩ |
    ⟨k, rfl⟩ | ⟨k, rfl⟩ | rfl | rfl
  · -- push
    simp only [World.step] at h1
    have hl := lend_whole g.w bs
    replace h1 : (g.w.addExt bs).1.push i ⟨.ext g.w.exts.length, 0, bs.length⟩ = some w' := h1
    have hstep : step i (g.st i) (.push (Borrow.whole bs)) = some ({ g.st i with w := w' }, .unit) := by
      simp only [step, GW.st, hl, h1, Option.map_some]
    exact target_via_op (.push (Borrow.whole bs)) (.pushCopy bs) .unit .unit _ hv hinv hstep (triv _ rfl) rfl rfl rfl
      (fun p => ⟨rfl, id⟩)
  · -- pushBorrowed
    simp only [World.step] at h1
    have hl := lend_whole g.w bs
    replace h1 : (g.w.addExt bs).1.pushBorrowed i ⟨.ext g.w.exts.length, 0, bs.length⟩ = some w' := h1
    have hstep : step i (g.st i) (.pushBorrowed (Borrow.whole bs)) = some ({ g.st i with w := w' }, .unit) := by
      simp only [step, GW.st, hl, h1, Option.map_some]
    exact target_via_op (.pushBorrowed (Borrow.whole bs)) (.pushCopy bs) .unit .unit _ hv hinv hstep (triv _ rfl) rfl rfl rfl
      (fun p => ⟨rfl, id⟩)
  · -- pushCopy
    simp only [World.step] at h1
    have hstep : step i (g.st i) (.pushCopy bs) = some ({ g.st i with w := w' }, .unit) := by
      simp only [step, GW.st, h1, Option.map_some]
    exact target_via_op (.pushCopy bs) (.pushCopy bs) .unit .unit _ hv hinv hstep (triv _ rfl) rfl rfl rfl
      (fun p => ⟨rfl, id⟩)
  · -- extend
    simp only [World.step] at h1
    rw [addExts_lendAll] at h1
    have hstep : step i (g.st i) (.extend (bufs.map Borrow.whole)) = some ({ g.st i with w := w' }, .unit) := by
      simp only [step, GW.st, h1, Option.map_some]
    exact target_via_op (.extend (bufs.map Borrow.whole)) (.pushCopy bufs.flatten) .unit .unit _ hv hinv hstep
      (triv _ rfl) rfl rfl rfl (fun p => ⟨by simp only [specStep, whole_flatMap], id⟩)
  · -- register
    simp only [World.step] at h1
    cases hr : g.w.registerPatch i pat with
    | none => rw [hr] at h1; cases h1
    | some wb =>
      obtain ⟨w1, b⟩ := wb
      rw [hr] at h1
      simp only [Option.some.injEq] at h1
      subst h1
      have hstep : step i (g.st i) (.registerPatch pat) =
          some ({ g.st i with w := w1, nextId := (g.st i).nextId + 1 }, .token b) := by
        simp only [step, GW.st, hr, Option.map_some]
      refine target_via_op (.registerPatch pat) (.registerPatch pat) (.token b) (.token b) _ hv hinv hstep ?_ rfl
        (by simp [GW.nid', GW.st]) (by simp [WOp.asOp, World.ret, hr]) (fun p => ⟨rfl, id⟩)
      intro x hx
      exact ⟨hx, iovInv_addBref b, absCells_addBref _ b x⟩
  · -- backfill
    simp only [World.step] at h1
    split at h1
    · have hstep : step i (g.st i) (.backfill (g.w.brefs.getD bi none) bs) = some ({ g.st i with w := w' }, .unit) := by
        simp only [step, GW.st, h1, Option.map_some]
      exact target_via_op _ _ .unit .unit _ hv hinv hstep (triv _ rfl) rfl rfl rfl (fun p => ⟨rfl, id⟩)
    · cases h1
  · -- consume
    simp only [World.step] at h1
    cases hc : g.w.consume i k with
    | none => rw [hc] at h1; cases h1
    | some wn =>
      obtain ⟨w1, n⟩ := wn
      rw [hc] at h1
      simp only [Option.some.injEq] at h1
      subst h1
      have hstep : step i (g.st i) (.consume k) =
          some ({ g.st i with w := w1, ghost := (g.st i).ghost ++ g.w.flat (v.slices.take n) },
            .took n (g.w.flat (v.slices.take n))) := by
        simp only [step, GW.st, hv, hc, Option.map_some]
      exact target_via_op (.consume k) (.consume k) _ _ _ hv hinv hstep (triv _ rfl)
        (by simp [GW.ghost', World.ret, hv, hc, WRet.removed, GW.st]) rfl
        (by simp [WOp.asOp, World.ret, hv, hc]) (fun p => ⟨rfl, id⟩)
  · -- advance
    simp only [World.step] at h1
    cases hc : g.w.advance i k with
    | none => rw [hc] at h1; cases h1
    | some wn =>
      obtain ⟨w1, c⟩ := wn
      rw [hc] at h1
      simp only [Option.some.injEq] at h1
      subst h1
      have hstep : step i (g.st i) (.advance k) =
          some ({ g.st i with w := w1, ghost := (g.st i).ghost ++ (g.w.flat v.slices).take c },
            .took c ((g.w.flat v.slices).take c)) := by
        simp only [step, GW.st, hv, hc, Option.map_some]
      exact target_via_op (.advance k) (.advance k) _ _ _ hv hinv hstep (triv _ rfl)
        (by simp [GW.ghost', World.ret, hv, hc, WRet.removed, GW.st]) rfl
        (by simp [WOp.asOp, World.ret, hv, hc]) (fun p => ⟨rfl, id⟩)
  · -- read
    simp only [World.step] at h1
    cases hc : World.readInto (k + 2) g.w i k [] with
    | none => rw [hc] at h1; cases h1
    | some wn =>
      obtain ⟨w1, bytes⟩ := wn
      rw [hc] at h1
      simp only [Option.some.injEq] at h1
      subst h1
      have hstep : step i (g.st i) (.readInto k) =
          some ({ g.st i with w := w1, ghost := (g.st i).ghost ++ bytes }, .took bytes.length bytes) := by
        simp only [step, GW.st, hc, Option.map_some]
      exact target_via_op (.readInto k) (.readInto k) _ _ _ hv hinv hstep (triv _ rfl)
        (by simp [GW.ghost', World.ret, hc, WRet.removed, GW.st]) rfl
        (by simp [WOp.asOp, World.ret, hc]) (fun p => ⟨rfl, id⟩)
  · -- pop
    simp only [World.step] at h1
    cases hc : g.w.consume i 1 with
    | none => rw [hc] at h1; cases h1
    | some wn =>
      obtain ⟨w1, n⟩ := wn
      rw [hc] at h1
      have hn : n = 1 := by
        cases n with
        | zero => simp at h1
        | succ m => cases m with
          | zero => rfl
          | succ _ => simp at h1
      subst hn
      simp only [Option.some.injEq] at h1
      subst h1
      have hstep : step i (g.st i) .pop =
          some ({ g.st i with w := w1, ghost := (g.st i).ghost ++ g.w.flat (v.slices.take 1) },
            .took 1 (g.w.flat (v.slices.take 1))) := by
        simp only [step, GW.st, hv, hc]
      exact target_via_op .pop .pop _ _ _ hv hinv hstep (triv _ rfl)
        (by simp [GW.ghost', World.ret, hv, WRet.removed, GW.st]) rfl
        (by simp [WOp.asOp, World.ret, hv]) (fun p => ⟨rfl, id⟩)
  · -- clear
    simp only [World.step] at h1
    have hstep : step i (g.st i) .clear = some ({ g.st i with w := w', ghost := [] }, .unit) := by
      simp only [step, GW.st, h1, Option.map_some]
    exact target_via_op .clear .clear .unit .unit _ hv hinv hstep (triv _ rfl)
      (by simp [GW.ghost']) rfl rfl (fun p => ⟨rfl, id⟩)

end Woodpile.Iovec

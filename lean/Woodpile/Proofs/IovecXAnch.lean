/-
The anchored-input lemmas of `Proofs/IovecAnch.lean` that the multi-object development needs, re-proved for
`W.IovInv` (`Proofs/IovecXInv.lean`): a HELD slice (arena memory the caller holds: a detached `AnchoredSlice`)
need not be disjoint from the slices of the iovec it is pushed into — it may be a clone of memory already
pushed — only from the iovec's pending placeholder ranges (`W.HeldOk.disj`; in the multi-object world this is
`APriv` of `Proofs/IovecWPriv.lean`, which holds in every reachable state).
-/
import Woodpile.Proofs.IovecAnch
import Woodpile.Proofs.IovecXAbs

namespace Woodpile.Iovec.W
open Woodpile.Arena
open Woodpile.Pipe (Cell Pipe cellBytes fillCells)

/-- An arena slice the caller holds: allocated chunk, below the bump pointer when that chunk is the
arena's current cache, and missing every pending placeholder range of the iovec. -/
structure HeldOk (w : World) (v : Iov) (h : Slice) : Prop where
  reg : ∃ c, h.region = .chunk c
  placed : Placed w.next v.arena h
  disj : ∀ e ∈ v.backrefs, ∀ t, v.slices[e.2.sliceIndex - v.consumedSlices]? = some t → h.region = t.region →
    Disj (t.off + e.2.begin) e.2.len h

theorem HeldOk.sliceOk {w : World} {v : Iov} {h : Slice} (hh : HeldOk w v h) (hpos : 0 < h.len) :
    SliceOk w v.arena h := by
  refine ⟨hpos, ?_, hh.placed⟩
  intro b hb
  obtain ⟨c, hc⟩ := hh.reg
  rw [hc] at hb; cases hb

/-- `OwningIovec::push` of a held slice: copied or borrowed (and then possibly merged into the previous
slice), exactly its bytes are appended. -/
theorem World.pushHeld_total (w : World) (i : Nat) (v : Iov) (p : Slice) (bs : List UInt8)
    (hv : w.iov i = some v) (hinv : IovInv w v) (hp : HeldOk w v p) (hb : w.sliceBytes p = bs) :
    ∃ w' v', w.push i p = some w' ∧ w'.iov i = some v' ∧ Pushed w w' v v' bs ∧ w'.exts = w.exts := by
  have hlen : bs.length = p.len := by rw [← hb]; exact sliceBytes_chunk_length w p hp.reg
  rcases World.push_eq w i v p hv with h | h
  · rw [h, hb]
    exact World.pushCopy_total w i v bs hv hinv
  · rw [h]
    by_cases h0 : p.len = 0
    · have hbs : bs = [] := List.length_eq_zero_iff.mp (by omega)
      subst hbs
      refine ⟨w, v, ?_, hv, Pushed.refl hinv, rfl⟩
      unfold World.pushBorrowed
      rw [hv]; simp [h0]
    · obtain ⟨v1, g1, g2, g3, g4, _, g6, g7, g8, g9, g10, _⟩ :=
        World.pushBorrowed_spec' w i v p hv hinv (hp.sliceOk (by omega)) hp.disj
      rw [hb] at g3 g8
      refine ⟨_, v1, g1, by simp, ?_, rfl⟩
      exact Pushed.setIov
        { inv := g2, cells := g3, flat := g8, backrefs := g4, consumedSize := g6,
          consumedSlices := g9, logicalSize := by rw [g7, hlen]
          visible := visible_push bs hinv g4 g9 g8 (fun _ _ => rfl) g10
          pol := rfl, tun := rfl } i _

/-- `push_anchor` appends a zero-count anchor: nothing the abstraction or the invariant looks at changes. -/
theorem World.pushAnchor_spec (w : World) (i : Nat) (v : Iov) (a : Anchor) (hv : w.iov i = some v)
    (hinv : IovInv w v) :
    w.pushAnchor i a = some (w.setIov i (some { v with anchors := v.anchors ++ [{ a with count := 0 }] })) ∧
    Pushed w (w.setIov i (some { v with anchors := v.anchors ++ [{ a with count := 0 }] })) v
      { v with anchors := v.anchors ++ [{ a with count := 0 }] } [] := by
  refine ⟨by unfold World.pushAnchor; rw [hv], ?_⟩
  have hinv' : IovInv w { v with anchors := v.anchors ++ [{ a with count := 0 }] } :=
    { slices_ok := hinv.slices_ok, pend_disj := hinv.pend_disj, size_eq := hinv.size_eq
      anchors_sum := by
        have := hinv.anchors_sum
        simp only [sumCounts_append, sumCounts_cons, sumCounts_nil]
        omega
      cache_fresh := hinv.cache_fresh
      br_ok := fun e he => (hinv.br_ok e he).congr rfl rfl rfl
      br_sorted := hinv.br_sorted }
  have hp : Pushed w w v { v with anchors := v.anchors ++ [{ a with count := 0 }] } [] :=
    { inv := hinv'
      cells := by simp [absCells]
      flat := by simp
      backrefs := rfl, consumedSize := rfl, consumedSlices := rfl, logicalSize := rfl
      visible := by
        have : w.visible { v with anchors := v.anchors ++ [{ a with count := 0 }] } = w.visible v := rfl
        rw [this]; split <;> simp
      pol := rfl, tun := rfl }
  exact hp.setIov i _

theorem Pushed.of_frame_arena {w w' : World} {v : Iov} (a' : Arena) (hinv' : IovInv w' { v with arena := a' })
    (hf : ∀ x ∈ v.slices, w'.sliceBytes x = w.sliceBytes x) (hpol : w'.pol = w.pol) (htun : w'.tun = w.tun) :
    Pushed w w' v { v with arena := a' } [] := by
  have hflat : w'.flat v.slices = w.flat v.slices := flat_congr _ hf
  exact
    { inv := hinv'
      cells := by unfold absCells; simp only [hflat]; simp
      flat := by simp only [hflat]; simp
      backrefs := rfl, consumedSize := rfl, consumedSlices := rfl, logicalSize := rfl
      visible := by
        have e : w'.visible { v with arena := a' } = w'.flat (v.slices.take v.stableN) := rfl
        rw [e]
        unfold World.visible
        rw [flat_congr _ (fun x hx => hf x (List.mem_of_mem_take hx))]
        split <;> simp
      pol := hpol, tun := htun }

/-- `iovec.arena().read_n(reader, count, attempts)`: the iovec and its abstraction are untouched (the
arena's bump pointer moved past exactly the bytes read). -/
theorem World.readN_spec (w : World) (i : Nat) (v : Iov) (r : ReadN.Reader) (count attempts : Nat)
    (hv : w.iov i = some v) (hinv : IovInv w v) :
    ∃ w1 ar' res, w.readN v.arena r count attempts = (w1, ar', res, ReadN.readNCore r count attempts) ∧
      w1.iov i = some v ∧ w1.exts = w.exts ∧
      Pushed w (w1.setIov i (some { v with arena := ar' })) v { v with arena := ar' } [] := by
  by_cases hc0 : count = 0
  · subst hc0
    have hcore : ReadN.readNCore r 0 attempts = ⟨.ok [], [], r⟩ := by simp [ReadN.readNCore]
    refine ⟨w, v.arena, .ok ASlice.empty, ?_, hv, rfl, ?_⟩
    · unfold World.readN; simp [hcore]
    · exact (Pushed.refl hinv).setIov i _
  · have hcpos : 0 < count := by omega
    obtain ⟨hnext, hchunk, hcache, hord⟩ := alloc_facts w v count hinv _ rfl
    have hgot : ∀ got, (ReadN.readNCore r count attempts).res = .ok got → got.length ≤ count := by
      intro got hg
      have := Woodpile.Props.C17.read_n_spec r count attempts hcpos
      simp only at this
      obtain ⟨_, hle, _, _, hm⟩ := this
      rw [hg] at hm
      rw [hm.1]; exact hle
    generalize hal : alloc w.tun v.arena w.next count = al at hnext hchunk hcache hord
    obtain ⟨a1, next1, chunk, off⟩ := al
    simp only at hnext hchunk hcache hord
    have common : ∀ (hp : Heap) (n : Nat), n ≤ count →
        (∀ x : Slice, (∀ c, x.region = .chunk c → c ≠ chunk ∨ x.off + x.len ≤ off) →
          ({ w with heap := hp, next := next1 } : World).sliceBytes x = w.sliceBytes x) →
        Pushed w (({ w with heap := hp, next := next1 } : World).setIov i (some { v with arena := release a1 n })) v
          { v with arena := release a1 n } [] := by
      intro hp n hn hfr
      have hrel : ∀ ca, (release a1 n).cache = some ca → ca.chunk = chunk ∧ ca.bump = off + (count - n) := by
        intro ca hca
        obtain ⟨c0, hc0, rfl⟩ := release_cache a1 n ca hca
        obtain ⟨e1, e2⟩ := hcache c0 hc0
        exact ⟨e1, by simp only; omega⟩
      have hsl : ∀ x ∈ v.slices, ∀ c, x.region = .chunk c → c ≠ chunk ∨ x.off + x.len ≤ off := by
        intro x hx c hc
        by_cases hcc : c = chunk
        · exact Or.inr (hord x hx c hc hcc)
        · exact Or.inl hcc
      have hinv1 : IovInv ({ w with heap := hp, next := next1 } : World) { v with arena := release a1 n } := by
        apply hinv.set_arena (w' := { w with heap := hp, next := next1 }) (release a1 n) rfl hnext
        intro ca hca
        obtain ⟨e1, e2⟩ := hrel ca hca
        refine ⟨by rw [e1]; exact hchunk, ?_⟩
        intro x hx c hc hcc
        have := hord x hx c hc (by omega)
        omega
      exact (Pushed.of_frame_arena (release a1 n) hinv1 (fun x hx => hfr x (hsl x hx)) rfl rfl).setIov i _
    cases hres : (ReadN.readNCore r count attempts).res with
    | ok got =>
      have hgl := hgot got hres
      have c1 := common ((w.heap.write chunk off (List.replicate count 0)).write chunk off got)
        (count - got.length) (by omega)
        (fun x hx => sliceBytes_write2 w _ chunk off _ _ x rfl rfl hx)
      refine ⟨{ w with heap := (w.heap.write chunk off (List.replicate count 0)).write chunk off got, next := next1 },
        release a1 (count - got.length), .ok ⟨⟨.chunk chunk, off, got.length⟩, ⟨1, some chunk⟩⟩, ?_, hv, rfl, c1⟩
      unfold World.readN
      rw [if_neg hc0, hal]
      simp only [hres]
    | err k =>
      have c1 := common (w.heap.write chunk off (List.replicate count 0)) count (Nat.le_refl _)
        (fun x hx => sliceBytes_write_disjoint w _ chunk off _ x rfl rfl
          (fun c hc => by rcases hx c hc with h1 | h1; exact Or.inl h1; exact Or.inr (Or.inl h1)))
      refine ⟨{ w with heap := w.heap.write chunk off (List.replicate count 0), next := next1 },
        release a1 count, .error k, ?_, hv, rfl, c1⟩
      unfold World.readN
      rw [if_neg hc0, hal]
      simp only [hres]

end Woodpile.Iovec.W

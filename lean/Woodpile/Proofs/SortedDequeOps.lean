/-
C16 helper lemmas, part 2: every `SortedDeque` operation, started in a state satisfying
`SInv`, does not panic (except the one specified panic of `push_back_or_panic`),
re-establishes `SInv`, and acts on the abstraction `abs` (the live items in order) like
the reference ordered map `stepRef`.
-/
import Woodpile.Proofs.SortedDeque

namespace Woodpile.SortedDeque
open Woodpile.SlidingDeque

variable {α κ : Type} {c : Cmp α κ} {P : α → Prop}

namespace SortedDeque

theorem checkRep_ok {s : SortedDeque α} (hi : Inv s.items)
    (hh : ∀ x, s.items.view.head? = some x → c.isErased x = false)
    (hl : ∀ x, s.items.view.getLast? = some x → c.isErased x = false) :
    checkRep c s = some () := by
  unfold checkRep
  rw [SDeque.front_spec hi, SDeque.back_spec hi]
  have h1 : (s.items.view.head?.map c.isErased != some true) = true := by
    cases h : s.items.view.head? with
    | none => rfl
    | some x => simp [hh x h]
  have h2 : (s.items.view.getLast?.map c.isErased != some true) = true := by
    cases h : s.items.view.getLast? with
    | none => rfl
    | some x => simp [hl x h]
  simp only [Option.bind_eq_bind, Option.bind_some, h1, h2, check, if_true]

theorem _root_.Woodpile.SortedDeque.SInv.checkRep {s : SortedDeque α} (hs : SInv c P s) :
    checkRep c s = some () :=
  checkRep_ok hs.items hs.head_live hs.last_live

theorem sinv_empty : SInv c P (empty : SortedDeque α) :=
  ⟨SDeque.inv_ofList [], by simp [empty, new, SDeque.view_ofList], by simp [empty, new, SDeque.view_ofList],
    ⟨[], by simpa [empty, new, SDeque.view_ofList] using (Ghost.nil (c := c) (P := P))⟩⟩

theorem abs_empty : abs c (empty : SortedDeque α) = [] := by
  simp [abs, empty, new, SDeque.view_ofList, live]

/-! ### `find_index` / `find` -/

theorem findIndex_spec (hc : c.Lawful) {s : SortedDeque α} (hi : Inv s.items)
    (hs : Sorted c s.items.view) (k : κ) :
    (∃ i x, findIndex c s k = some (some i) ∧ s.items.view[i]? = some x ∧ c.cmp (c.key x) k = .eq) ∨
    (findIndex c s k = some none ∧ ∀ y ∈ s.items.view, c.cmp (c.key y) k ≠ .eq) := by
  unfold findIndex
  rw [hi.deref]
  obtain ⟨r, hr, hok, herr⟩ := binarySearchBy_spec (sorted_mono hc hs k)
  cases r with
  | ok i =>
    obtain ⟨x, hx, heq, _⟩ := hok i rfl
    exact Or.inl ⟨i, x, by simp [hr], hx, heq⟩
  | error i =>
    exact Or.inr ⟨by simp [hr], herr i rfl⟩

theorem find_spec (hc : c.Lawful) (he : EraseOrder c P) {s : SortedDeque α} (hs : SInv c P s) (k : κ) :
    find c s k = some ((abs c s).find? fun y => c.cmp (c.key y) k == .eq) := by
  obtain ⟨gp, hg⟩ := hs.ghost
  have hsorted := hg.sorted_list he
  unfold find
  rw [hs.checkRep]
  rcases findIndex_spec hc hs.items hsorted k with ⟨i, x, hf, hx, heq⟩ | ⟨hf, hnone⟩
  · obtain ⟨pre, post, hsplit⟩ : ∃ pre post, s.items.view = pre ++ x :: post :=
      ⟨_, _, (split_at_index hx).1⟩
    have hfl := find_live_split hc (hsplit ▸ hsorted) heq
    rw [abs, hsplit, hfl]
    by_cases hxe : c.isErased x = true <;> simp [hf, hs.items.deref, hx, hxe]
  · rw [abs, find_live_none hnone]
    simp [hf]

/-! ### `cleanup_front` / `cleanup_back` -/

theorem cleanupFront_spec {items : SDeque α} (hi : Inv items)
    (hl : ∀ x, items.view.getLast? = some x → c.isErased x = false) :
    ∃ items' pre, cleanupFront c ⟨items⟩ = some ⟨items'⟩ ∧ Inv items' ∧
      items.view = pre ++ items'.view ∧ (∀ x ∈ pre, c.isErased x = true) ∧
      (∀ x, items'.view.head? = some x → c.isErased x = false) := by
  unfold cleanupFront
  simp only [hi.deref]
  cases hf : items.view.findIdx? (fun x => !c.isErased x) with
  | none =>
    have hall := List.findIdx?_eq_none_iff.1 hf
    have hnil : items.view = [] := by
      cases hgl : items.view.getLast? with
      | none => exact List.getLast?_eq_none_iff.1 hgl
      | some x =>
        obtain ⟨ys, hys⟩ := List.getLast?_eq_some_iff.1 hgl
        have := hall x (by rw [hys]; simp)
        simp [hl x hgl] at this
    obtain ⟨items', h1, h2, h3⟩ := SDeque.advance_spec hi usizeMax
    refine ⟨items', [], ?_, h3, ?_, by simp, ?_⟩
    · simp [hf, h1]
    · rw [h2, hnil]; simp
    · rw [h2, hnil]; simp
  | some i =>
    obtain ⟨hlt, hp, hbefore⟩ := List.findIdx?_eq_some_iff_getElem.1 hf
    obtain ⟨items', h1, h2, h3⟩ := SDeque.advance_spec hi i
    refine ⟨items', items.view.take i, ?_, h3, ?_, ?_, ?_⟩
    · simp [hf, h1]
    · rw [h2, List.take_append_drop]
    · intro x hx
      obtain ⟨j, hj, rfl⟩ := List.mem_take_iff_getElem.1 hx
      have := hbefore j (by omega)
      simpa using this
    · intro x hx
      rw [h2, List.head?_drop, List.getElem?_eq_getElem hlt] at hx
      cases hx
      simpa using hp

theorem cleanupBackLoop_spec : ∀ (fuel : Nat) (items : SDeque α), Inv items → items.view.length < fuel →
    ∃ items' suf, cleanupBackLoop c fuel items = some items' ∧ Inv items' ∧
      items.view = items'.view ++ suf ∧ (∀ x ∈ suf, c.isErased x = true) ∧
      (∀ x, items'.view.getLast? = some x → c.isErased x = false) := by
  intro fuel
  induction fuel with
  | zero => intro items _ h; omega
  | succ fuel ih =>
    intro items hi hlen
    unfold cleanupBackLoop
    rw [SDeque.back_spec hi]
    cases hb : items.view.getLast? with
    | none => exact ⟨items, [], by simp, hi, by simp, by simp, by simp [hb]⟩
    | some b =>
      by_cases hbe : c.isErased b = true
      · obtain ⟨items1, h1, hv1, hi1⟩ := SDeque.popBack_spec hi
        obtain ⟨ys, hys⟩ := List.getLast?_eq_some_iff.1 hb
        have hv1' : items1.view = ys := by rw [hv1, hys, List.dropLast_concat]
        obtain ⟨items', suf, h2, hi2, hv2, hs2, hl2⟩ := ih items1 hi1 (by
          rw [hv1']; rw [hys] at hlen; simp at hlen; omega)
        refine ⟨items', suf ++ [b], ?_, hi2, ?_, ?_, hl2⟩
        · simp [hbe, h1, h2]
        · rw [hys, ← hv1', hv2, List.append_assoc]
        · intro x hx
          rcases List.mem_append.1 hx with hx | hx
          · exact hs2 x hx
          · simp only [List.mem_singleton] at hx; subst hx; exact hbe
      · have hbe' : c.isErased b = false := by simpa using hbe
        refine ⟨items, [], by simp [hbe'], hi, by simp, by simp, ?_⟩
        intro x hx
        rw [hb] at hx; cases hx; exact hbe'

theorem cleanupBack_spec {items : SDeque α} (hi : Inv items) :
    ∃ items' suf, cleanupBack c ⟨items⟩ = some ⟨items'⟩ ∧ Inv items' ∧
      items.view = items'.view ++ suf ∧ (∀ x ∈ suf, c.isErased x = true) ∧
      (∀ x, items'.view.getLast? = some x → c.isErased x = false) := by
  obtain ⟨items', suf, h1, h2, h3, h4, h5⟩ :=
    cleanupBackLoop_spec (c := c) (items.container.length + 1) items hi (by
      rw [SDeque.view_length]; omega)
  exact ⟨items', suf, by simp [cleanupBack, h1], h2, h3, h4, h5⟩

/-! ### `pop_first` / `pop_last` -/

theorem popFirst_spec {s : SortedDeque α} (hs : SInv c P s) :
    ∃ s', popFirst c s = some ((abs c s).head?, s') ∧ abs c s' = (abs c s).drop 1 ∧ SInv c P s' := by
  obtain ⟨gp, hg⟩ := hs.ghost
  obtain ⟨items1, h1, hv1, hi1⟩ := SDeque.popFront_spec hs.items
  unfold popFirst
  rw [hs.checkRep, h1]
  cases hh : s.items.view.head? with
  | none =>
    have hnil : s.items.view = [] := List.head?_eq_none_iff.1 hh
    refine ⟨s, ?_, ?_, hs⟩
    · simp [abs, hnil, live]
    · simp [abs, hnil, live]
  | some x =>
    obtain ⟨t, ht⟩ := List.head?_eq_some_iff.1 hh
    have hxl : c.isErased x = false := hs.head_live x hh
    have hv1' : items1.view = t := by rw [hv1, ht]; rfl
    have hl1 : ∀ y, items1.view.getLast? = some y → c.isErased y = false := by
      intro y hy
      apply hs.last_live y
      rw [ht, List.getLast?_cons]
      rw [hv1'] at hy
      simp [hy]
    obtain ⟨items', pre, h2, hi2, hv2, hpre, hhead⟩ := cleanupFront_spec (c := c) hi1 hl1
    have hlast' : ∀ y, items'.view.getLast? = some y → c.isErased y = false := by
      intro y hy
      apply hl1 y
      rw [hv2, List.getLast?_append, hy]; rfl
    have hck : checkRep c ⟨items'⟩ = some () := checkRep_ok hi2 hhead hlast'
    have habs : abs c s = x :: live c items'.view := by
      rw [abs, ht, live_cons_live c _ hxl, ← hv1', hv2, live_append, live_eq_nil_of_erased c hpre]
      rfl
    refine ⟨⟨items'⟩, ?_, ?_, ⟨hi2, hhead, hlast', ?_⟩⟩
    · simp [h2, hck, habs]
    · rw [habs]; rfl
    · have hg' : Ghost c P (([x] ++ pre) ++ items'.view) gp := by
        have : s.items.view = ([x] ++ pre) ++ items'.view := by
          rw [ht, ← hv1', hv2]; simp
        rw [← this]; exact hg
      exact ⟨_, hg'.of_append_right⟩

theorem popLast_spec {s : SortedDeque α} (hs : SInv c P s) :
    ∃ s', popLast c s = some ((abs c s).getLast?, s') ∧ abs c s' = (abs c s).dropLast ∧ SInv c P s' := by
  obtain ⟨gp, hg⟩ := hs.ghost
  obtain ⟨items1, h1, hv1, hi1⟩ := SDeque.popBack_spec hs.items
  unfold popLast
  rw [hs.checkRep, h1]
  cases hh : s.items.view.getLast? with
  | none =>
    have hnil : s.items.view = [] := List.getLast?_eq_none_iff.1 hh
    refine ⟨s, ?_, ?_, hs⟩
    · simp [abs, hnil, live]
    · simp [abs, hnil, live]
  | some x =>
    obtain ⟨ys, hys⟩ := List.getLast?_eq_some_iff.1 hh
    have hxl : c.isErased x = false := hs.last_live x hh
    have hv1' : items1.view = ys := by rw [hv1, hys, List.dropLast_concat]
    obtain ⟨items', suf, h2, hi2, hv2, hsuf, hlast⟩ := cleanupBack_spec (c := c) hi1
    have hhead' : ∀ y, items'.view.head? = some y → c.isErased y = false := by
      intro y hy
      apply hs.head_live y
      rw [hys, ← hv1', hv2]
      simp [List.head?_append, hy]
    have hck : checkRep c ⟨items'⟩ = some () := checkRep_ok hi2 hhead' hlast
    have habs : abs c s = live c items'.view ++ [x] := by
      rw [abs, hys, live_append, ← hv1', hv2, live_append, live_eq_nil_of_erased c hsuf,
        live_cons_live c _ hxl]
      simp [live]
    refine ⟨⟨items'⟩, ?_, ?_, ⟨hi2, hhead', hlast, ?_⟩⟩
    · simp [h2, hck, habs]
    · rw [habs, List.dropLast_concat]; rfl
    · have hg' : Ghost c P (items'.view ++ (suf ++ [x])) gp := by
        have : s.items.view = items'.view ++ (suf ++ [x]) := by
          rw [hys, ← hv1', hv2]; simp
        rw [← this]; exact hg
      exact ⟨_, hg'.of_append_left⟩

/-! ### `push_back_or_panic` -/

theorem push_erased {s : SortedDeque α} (hs : SInv c P s) {x : α} (hx : c.isErased x = true) :
    pushBackOrPanic c s x = some s := by
  unfold pushBackOrPanic
  rw [hs.checkRep]
  simp [hx]

theorem push_panic {s : SortedDeque α} (hs : SInv c P s) {x b : α} (hx : c.isErased x = false)
    (hb : s.items.view.getLast? = some b) (hcmp : c.cmp (c.key b) (c.key x) ≠ .lt) :
    pushBackOrPanic c s x = none := by
  unfold pushBackOrPanic
  rw [hs.checkRep, SDeque.back_spec hs.items, hb]
  simp [hx, check, hcmp]

theorem push_ok (hc : c.Lawful) {s : SortedDeque α} (hs : SInv c P s) {x : α} (hx : c.isErased x = false)
    (hP : P x) (hlast : ∀ b, s.items.view.getLast? = some b → c.cmp (c.key b) (c.key x) = .lt) :
    ∃ s', pushBackOrPanic c s x = some s' ∧ abs c s' = abs c s ++ [x] ∧ SInv c P s' := by
  obtain ⟨gp, hg⟩ := hs.ghost
  obtain ⟨items', h1, hv1, hi1⟩ := SDeque.pushBack_spec hs.items x
  have hhead : ∀ y, items'.view.head? = some y → c.isErased y = false := by
    intro y hy
    rw [hv1, List.head?_append] at hy
    cases hh : s.items.view.head? with
    | none => simp [hh] at hy; subst hy; exact hx
    | some z => simp [hh] at hy; subst hy; exact hs.head_live z hh
  have hlast' : ∀ y, items'.view.getLast? = some y → c.isErased y = false := by
    intro y hy
    rw [hv1, List.getLast?_concat] at hy
    cases hy; exact hx
  have hck : checkRep c ⟨items'⟩ = some () := checkRep_ok hi1 hhead hlast'
  refine ⟨⟨items'⟩, ?_, ?_, ⟨hi1, hhead, hlast', ?_⟩⟩
  · unfold pushBackOrPanic
    rw [hs.checkRep, SDeque.back_spec hs.items]
    cases hb : s.items.view.getLast? with
    | none => simp [hx, h1, hck]
    | some b => simp [hx, h1, hck, check, hlast b hb]
  · rw [abs, hv1, live_append, live_cons_live c _ hx]; rfl
  · exact ⟨gp ++ [(x, false)], by
      rw [hv1]
      exact hg.push hc hP hx (fun b hb => ⟨hs.last_live b hb, hlast b hb⟩)⟩

/-! ### `clear`, the read-only accessors -/

theorem clear_spec {s : SortedDeque α} (hs : SInv c P s) : clear c s = some empty := by
  unfold clear
  rw [hs.checkRep, SDeque.clear_spec]
  have := (sinv_empty (c := c) (P := P) (α := α)).checkRep
  simp only [empty, new, SDeque.ofList] at this ⊢
  simp [SDeque.empty, this]

theorem isEmpty_spec {s : SortedDeque α} (hs : SInv c P s) : isEmpty c s = some (abs c s).isEmpty := by
  unfold isEmpty
  rw [hs.checkRep, hs.items.deref, abs, live_isEmpty hs.head_live]
  rfl

theorem iter_spec {s : SortedDeque α} (hs : SInv c P s) : iter c s = some (abs c s) := by
  unfold iter
  rw [hs.checkRep, hs.items.deref]
  rfl

theorem first_spec {s : SortedDeque α} (hs : SInv c P s) : first c s = some (abs c s).head? := by
  unfold first
  rw [hs.checkRep, SDeque.front_spec hs.items, abs, live_head? hs.head_live]
  rfl

theorem last_spec {s : SortedDeque α} (hs : SInv c P s) : last c s = some (abs c s).getLast? := by
  unfold last
  rw [hs.checkRep, SDeque.back_spec hs.items, abs, live_getLast? hs.last_live]
  rfl

/-! ### `remove` -/

theorem remove_spec (hc : c.Lawful) (he : EraseOrder c P) {s : SortedDeque α} (hs : SInv c P s) (k : κ) :
    ∃ s', remove c s k = some ((abs c s).find? (fun y => c.cmp (c.key y) k == .eq), s') ∧
      abs c s' = (abs c s).filter (fun y => c.cmp (c.key y) k != .eq) ∧ SInv c P s' := by
  obtain ⟨gp, hg⟩ := hs.ghost
  have hsorted := hg.sorted_list he
  unfold remove
  rw [hs.items.deref]
  rcases findIndex_spec hc hs.items hsorted k with ⟨i, x, hf, hx, heq⟩ | ⟨hf, hnone⟩
  · obtain ⟨hsplit, hpl⟩ := split_at_index hx
    have hsorted' : Sorted c (s.items.view.take i ++ x :: s.items.view.drop (i + 1)) := hsplit ▸ hsorted
    have hfl := find_live_split hc hsorted' heq
    have hfilt := filter_live_split hc hsorted' heq
    have habs : abs c s = live c (s.items.view.take i ++ x :: s.items.view.drop (i + 1)) := by
      rw [abs, ← hsplit]
    by_cases hxe : c.isErased x = true
    · -- a tombstone: nothing to remove
      refine ⟨s, ?_, ?_, hs⟩
      · rw [habs, hfl]; simp [hf, hx, hxe]
      · rw [habs, hfilt, live_append, live_cons_erased c _ hxe]
    · have hxl : c.isErased x = false := by simpa using hxe
      have hfind : (abs c s).find? (fun y => c.cmp (c.key y) k == .eq) = some x := by
        rw [habs, hfl]; simp [hxl]
      have hfilter : (abs c s).filter (fun y => c.cmp (c.key y) k != .eq) =
          live c (s.items.view.take i) ++ live c (s.items.view.drop (i + 1)) := by
        rw [habs, hfilt]
      have hilt : i < s.items.view.length := (List.getElem?_eq_some_iff.1 hx).1
      by_cases hi0 : i = 0
      · -- first item: `pop_first`
        subst hi0
        obtain ⟨s', h1, h2, h3⟩ := popFirst_spec hs
        have hhead : (abs c s).head? = some x := by
          rw [habs]; simp [live_cons_live c _ hxl]
        refine ⟨s', ?_, ?_, h3⟩
        · simp [hf, hx, hxl, h1, hhead, hfind]
        · rw [h2, hfilter, habs]; simp [live, hxl]
      · by_cases hil : i = s.items.view.length - 1
        · -- last item: `pop_last`
          obtain ⟨s', h1, h2, h3⟩ := popLast_spec hs
          have hdrop : s.items.view.drop (i + 1) = [] := List.drop_of_length_le (by omega)
          have hlast : (abs c s).getLast? = some x := by
            rw [habs, hdrop, live_append, live_cons_live c _ hxl]; simp [live]
          refine ⟨s', ?_, ?_, h3⟩
          · simp [hf, hx, hxl, hi0, ← hil, h1, hlast, hfind]
          · rw [h2, hfilter, habs, hdrop, live_append, live_cons_live c _ hxl]
            simp [live]
        · -- the middle: leave a tombstone
          have hme : c.isErased (c.markErased x) = true := hc.erased_mark x
          have hview' : ({ s.items with container := s.items.container.set (s.items.consumed + i) (c.markErased x) } : SDeque α).view
              = s.items.view.set i (c.markErased x) := SDeque.view_set i _
          have hset : s.items.view.set i (c.markErased x) =
              s.items.view.take i ++ c.markErased x :: s.items.view.drop (i + 1) := by
            rw [List.set_eq_take_append_cons_drop, if_pos hilt]
          refine ⟨⟨{ s.items with container := s.items.container.set (s.items.consumed + i) (c.markErased x) }⟩,
            ?_, ?_, ⟨SDeque.inv_set hs.items i _, ?_, ?_, ?_⟩⟩
          · simp [hf, hx, hxl, hi0, hil, hme, check, hfind]
          · rw [abs, hview', hset, live_append, live_cons_erased c _ hme, hfilter]
          · intro y hy
            rw [hview'] at hy
            apply hs.head_live y
            rw [List.head?_eq_getElem?] at hy ⊢
            rwa [List.getElem?_set_ne (by omega)] at hy
          · intro y hy
            rw [hview'] at hy
            apply hs.last_live y
            rw [List.getLast?_eq_getElem?] at hy ⊢
            rw [List.length_set] at hy
            rwa [List.getElem?_set_ne (by omega)] at hy
          · exact ⟨_, by rw [hview']; exact hg.erase hc hx hxl⟩
  · refine ⟨s, ?_, ?_, hs⟩
    · rw [abs, find_live_none hnone]; simp [hf]
    · rw [abs, filter_live_none hnone]

end SortedDeque

/-! ### One step, and operation sequences -/

/-- An operation respects the "items in play" predicate: every live item it pushes is in `P`. -/
def ValidOp (c : Cmp α κ) (P : α → Prop) : Op α κ → Prop
  | .push x => c.isErased x = true ∨ P x
  | _ => True

/-- The simulation lemma: the model does exactly what the reference ordered map does on
`abs` — including the one specified panic — and keeps the invariant. -/
theorem step_spec (hc : c.Lawful) (he : EraseOrder c P) {s : SortedDeque α} (hs : SInv c P s)
    (op : Op α κ) (hv : ValidOp c P op) :
    match stepRef c (abs c s) op with
    | none => step c s op = none
    | some (r, m') => ∃ s', step c s op = some (r, s') ∧ abs c s' = m' ∧ SInv c P s' := by
  cases op with
  | push x =>
    simp only [stepRef]
    by_cases hx : c.isErased x = true
    · simp only [hx, if_true]
      exact ⟨s, by simp [step, SortedDeque.push_erased hs hx], rfl, hs⟩
    · have hxl : c.isErased x = false := by simpa using hx
      have hP : P x := by
        rcases hv with h | h
        · exact absurd h hx
        · exact h
      simp only [hxl, Bool.false_eq_true, if_false]
      rw [show (abs c s).getLast? = s.items.view.getLast? from live_getLast? hs.last_live]
      cases hb : s.items.view.getLast? with
      | none =>
        obtain ⟨s', h1, h2, h3⟩ := SortedDeque.push_ok hc hs hxl hP (by simp [hb])
        exact ⟨s', by simp [step, h1], h2, h3⟩
      | some b =>
        by_cases hlt : c.cmp (c.key b) (c.key x) = .lt
        · simp only [hlt, beq_self_eq_true, if_true]
          obtain ⟨s', h1, h2, h3⟩ := SortedDeque.push_ok hc hs hxl hP (by
            intro b' hb'; rw [hb] at hb'; cases hb'; exact hlt)
          exact ⟨s', by simp [step, h1], h2, h3⟩
        · have : (c.cmp (c.key b) (c.key x) == Ordering.lt) = false := by simpa using hlt
          simp only [this, Bool.false_eq_true, if_false]
          simp [step, SortedDeque.push_panic hs hxl hb hlt]
  | find k =>
    exact ⟨s, by simp [step, SortedDeque.find_spec hc he hs k], rfl, hs⟩
  | remove k =>
    obtain ⟨s', h1, h2, h3⟩ := SortedDeque.remove_spec hc he hs k
    exact ⟨s', by simp [step, h1], h2, h3⟩
  | popFirst =>
    obtain ⟨s', h1, h2, h3⟩ := SortedDeque.popFirst_spec hs
    exact ⟨s', by simp [step, h1], h2, h3⟩
  | popLast =>
    obtain ⟨s', h1, h2, h3⟩ := SortedDeque.popLast_spec hs
    exact ⟨s', by simp [step, h1], h2, h3⟩
  | first => exact ⟨s, by simp [step, SortedDeque.first_spec hs], rfl, hs⟩
  | last => exact ⟨s, by simp [step, SortedDeque.last_spec hs], rfl, hs⟩
  | isEmpty => exact ⟨s, by simp [step, SortedDeque.isEmpty_spec hs], rfl, hs⟩
  | iter => exact ⟨s, by simp [step, SortedDeque.iter_spec hs], rfl, hs⟩
  | clear =>
    exact ⟨SortedDeque.empty, by simp [step, SortedDeque.clear_spec hs], SortedDeque.abs_empty,
      SortedDeque.sinv_empty⟩

theorem run_spec (hc : c.Lawful) (he : EraseOrder c P) {s : SortedDeque α} (hs : SInv c P s)
    (ops : List (Op α κ)) (hv : ∀ op ∈ ops, ValidOp c P op) :
    match runRef c (abs c s) ops with
    | none => run c s ops = none
    | some (rs, m') => ∃ s', run c s ops = some (rs, s') ∧ abs c s' = m' ∧ SInv c P s' := by
  induction ops generalizing s with
  | nil => exact ⟨s, rfl, rfl, hs⟩
  | cons op ops ih =>
    have h1 := step_spec hc he hs op (hv op (by simp))
    simp only [runRef, run]
    cases hr : stepRef c (abs c s) op with
    | none =>
      rw [hr] at h1
      simp only at h1
      simp [h1]
    | some p =>
      obtain ⟨r, m1⟩ := p
      rw [hr] at h1
      obtain ⟨s1, hs1, ha1, hi1⟩ := h1
      have h2 := ih hi1 (fun o ho => hv o (by simp [ho]))
      rw [ha1] at h2
      simp only [hs1]
      cases hr2 : runRef c m1 ops with
      | none =>
        rw [hr2] at h2
        simp only at h2
        simp [h2]
      | some q =>
        obtain ⟨rs, m2⟩ := q
        rw [hr2] at h2
        obtain ⟨s2, hs2, ha2, hi2⟩ := h2
        exact ⟨s2, by simp [hs2], ha2, hi2⟩

end Woodpile.SortedDeque

/-
Helper lemmas for C16 (`Woodpile.SortedDeque`).

1. comparator laws (`Cmp.Lawful`, `EraseOrder`), sortedness;
2. `slice::binary_search_by` as modelled (`bsLoop`/`binarySearchBy`) is correct on every
   list on which the probe function is monotone (in particular every strictly sorted list);
3. the representation invariant `SInv` (SlidingDeque invariant, both ends live, a *ghost*
   list of the items as they were pushed, strictly sorted) and the per-operation
   simulation of the reference ordered map.
-/
import Woodpile.Model.SortedDeque
import Woodpile.Proofs.SlidingDeque

namespace Woodpile.SortedDeque
open Woodpile.SlidingDeque

variable {α κ : Type}

/-! ### Laws -/

/-- What a `SortedDequeComparator`/`SortedDequeMarker` must satisfy: `cmp` is a strict
total order up to its own notion of equality, and `mark_erased` makes an item erased. -/
structure Cmp.Lawful (c : Cmp α κ) : Prop where
  swap : ∀ a b, c.cmp a b = (c.cmp b a).swap
  lt_trans : ∀ a b d, c.cmp a b = .lt → c.cmp b d = .lt → c.cmp a d = .lt
  eq_lt : ∀ a b d, c.cmp a b = .eq → c.cmp b d = .lt → c.cmp a d = .lt
  lt_eq : ∀ a b d, c.cmp a b = .lt → c.cmp b d = .eq → c.cmp a d = .lt
  erased_mark : ∀ x, c.isErased (c.markErased x) = true

/-- Observation O2 as a law: among the items in play (`P`), erasing either or both of two
items does not change their strict order.  (Trivial when the key ignores the erased
field, as in the `(Key, Option<Value>)` convention.) -/
structure EraseOrder (c : Cmp α κ) (P : α → Prop) : Prop where
  left : ∀ x y, P x → P y → c.cmp (c.key x) (c.key y) = .lt →
    c.cmp (c.key (c.markErased x)) (c.key y) = .lt
  right : ∀ x y, P x → P y → c.cmp (c.key x) (c.key y) = .lt →
    c.cmp (c.key x) (c.key (c.markErased y)) = .lt
  both : ∀ x y, P x → P y → c.cmp (c.key x) (c.key y) = .lt →
    c.cmp (c.key (c.markErased x)) (c.key (c.markErased y)) = .lt

/-- Strictly ascending keys. -/
def Sorted (c : Cmp α κ) (l : List α) : Prop :=
  l.Pairwise fun a b => c.cmp (c.key a) (c.key b) = .lt

/-- The live (non-erased) items, in deque order. -/
def live (c : Cmp α κ) (l : List α) : List α := l.filter fun x => !c.isErased x

theorem Cmp.Lawful.refl {c : Cmp α κ} (h : c.Lawful) (a : κ) : c.cmp a a = .eq := by
  have := h.swap a a
  cases hc : c.cmp a a <;> simp [hc] at this ⊢

theorem Cmp.Lawful.gt_of_lt {c : Cmp α κ} (h : c.Lawful) {a b : κ} (hl : c.cmp a b = .lt) :
    c.cmp b a = .gt := by
  rw [h.swap, hl]; rfl

theorem Cmp.Lawful.eq_symm {c : Cmp α κ} (h : c.Lawful) {a b : κ} (hl : c.cmp a b = .eq) :
    c.cmp b a = .eq := by
  rw [h.swap, hl]; rfl

theorem Cmp.Lawful.lt_of_gt {c : Cmp α κ} (h : c.Lawful) {a b : κ} (hl : c.cmp a b = .gt) :
    c.cmp b a = .lt := by
  rw [h.swap, hl]; rfl

/-- `k ≤ a < b → b > k`, in the shape the binary search needs. -/
theorem Cmp.Lawful.mono {c : Cmp α κ} (h : c.Lawful) {a b k : κ} (hab : c.cmp a b = .lt)
    (hk : c.cmp a k ≠ .lt) : c.cmp b k = .gt := by
  cases hc : c.cmp a k with
  | lt => exact absurd hc hk
  | eq => exact h.gt_of_lt (h.eq_lt _ _ _ (h.eq_symm hc) hab)
  | gt => exact h.gt_of_lt (h.lt_trans _ _ _ (h.lt_of_gt hc) hab)

/-! ### Binary search -/

/-- The probe function is monotone along the list: once it is not `Less`, it is `Greater`
at every later position. -/
def Mono (f : α → Ordering) (l : List α) : Prop :=
  ∀ (i j : Nat) (x y : α), i < j → l[i]? = some x → l[j]? = some y → f x ≠ .lt → f y = .gt

theorem Mono.lt_before {f : α → Ordering} {l : List α} (hm : Mono f l) {i j : Nat} {x y : α}
    (hij : i < j) (hx : l[i]? = some x) (hy : l[j]? = some y) (h : f y ≠ .gt) : f x = .lt := by
  cases hf : f x with
  | lt => rfl
  | eq => exact absurd (hm i j x y hij hx hy (by simp [hf])) h
  | gt => exact absurd (hm i j x y hij hx hy (by simp [hf])) h

theorem sorted_mono {c : Cmp α κ} (hc : c.Lawful) {l : List α} (hs : Sorted c l) (k : κ) :
    Mono (fun x => c.cmp (c.key x) k) l := by
  intro i j x y hij hx hy hne
  obtain ⟨hi, rfl⟩ := List.getElem?_eq_some_iff.1 hx
  obtain ⟨hj, rfl⟩ := List.getElem?_eq_some_iff.1 hy
  have := (List.pairwise_iff_getElem.1 hs) i j hi hj hij
  exact hc.mono this hne

theorem bsLoop_spec {f : α → Ordering} {l : List α} (hm : Mono f l) :
    ∀ fuel size base, size ≤ fuel → 1 ≤ size → base + size ≤ l.length →
      (∀ i x, i < base → l[i]? = some x → f x = .lt) →
      (∀ i x, base + size ≤ i → l[i]? = some x → f x = .gt) →
      ∃ b, bsLoop f l fuel size base = some b ∧ b < l.length ∧
        (∀ i x, i < b → l[i]? = some x → f x = .lt) ∧
        (∀ i x, b < i → l[i]? = some x → f x = .gt) := by
  intro fuel
  induction fuel with
  | zero => intro size base h1 h2; omega
  | succ fuel ih =>
    intro size base hfuel hsize hlen hlo hhi
    unfold bsLoop
    by_cases hgt : size > 1
    · rw [if_pos hgt]
      have hmid : base + size / 2 < l.length := by omega
      have hx : l[base + size / 2]? = some l[base + size / 2] := List.getElem?_eq_getElem hmid
      simp only [hx]
      by_cases hcmp : f l[base + size / 2] = .gt
      · -- keep `base`
        have hb : (if (f l[base + size / 2] == Ordering.gt) = true then base else base + size / 2) = base := by
          simp [hcmp]
        rw [hb]
        apply ih (size - size / 2) base (by omega) (by omega) (by omega) hlo
        intro i x hi hxi
        by_cases hieq : i = base + size / 2
        · subst hieq; rw [hx] at hxi; cases hxi; exact hcmp
        · exact hm (base + size / 2) i _ x (by omega) hx hxi (by simp [hcmp])
      · -- move `base` to `mid`
        have hb : (if (f l[base + size / 2] == Ordering.gt) = true then base else base + size / 2)
            = base + size / 2 := by
          simp [hcmp]
        rw [hb]
        apply ih (size - size / 2) (base + size / 2) (by omega) (by omega) (by omega)
        · intro i x hi hxi
          exact hm.lt_before hi hxi hx hcmp
        · intro i x hi hxi
          exact hhi i x (by omega) hxi
    · rw [if_neg hgt]
      refine ⟨base, rfl, by omega, hlo, ?_⟩
      intro i x hi hxi
      exact hhi i x (by omega) hxi

/-- Correctness of the modelled `binary_search_by` on a monotone probe: it never fails
(no out-of-bounds `get_unchecked`, no fuel exhaustion); `Ok(i)` is an index where the
probe says `Equal`, with only `Less` before it; `Err(_)` means no element is `Equal`. -/
theorem binarySearchBy_spec {f : α → Ordering} {l : List α} (hm : Mono f l) :
    ∃ r, binarySearchBy f l = some r ∧
      (∀ i, r = .ok i → ∃ x, l[i]? = some x ∧ f x = .eq ∧ ∀ j y, j < i → l[j]? = some y → f y = .lt) ∧
      (∀ i, r = .error i → ∀ y, y ∈ l → f y ≠ .eq) := by
  unfold binarySearchBy
  by_cases h0 : l.length = 0
  · rw [if_pos h0]
    refine ⟨.error 0, rfl, (by intro i h; cases h), ?_⟩
    intro _ _ y hy
    have : l = [] := List.eq_nil_of_length_eq_zero h0
    simp [this] at hy
  · rw [if_neg h0]
    obtain ⟨b, hb, hblt, hlo, hhi⟩ := bsLoop_spec hm l.length l.length 0 (Nat.le_refl _) (by omega)
      (by omega) (by intro i x hi; omega) (by intro i x hi hx; have := (List.getElem?_eq_some_iff.1 hx).1; omega)
    have hx : l[b]? = some l[b] := List.getElem?_eq_getElem hblt
    by_cases heq : f l[b] = .eq
    · refine ⟨.ok b, by simp [hb, hx, heq], ?_, by intro i h; cases h⟩
      intro i hi
      cases hi
      exact ⟨l[b], hx, heq, fun j y hj hy => hlo j y hj hy⟩
    · refine ⟨.error (b + if (f l[b] == .lt) = true then 1 else 0), ?_, (by intro i h; cases h), ?_⟩
      · simp [hb, hx, heq]
      · intro _ _ y hy
        obtain ⟨j, hj, rfl⟩ := List.getElem_of_mem hy
        have hyj : l[j]? = some l[j] := List.getElem?_eq_getElem hj
        by_cases hjb : j = b
        · subst hjb; exact heq
        · by_cases hlt : j < b
          · rw [hlo j _ hlt hyj]; simp
          · rw [hhi j _ (by omega) hyj]; simp

/-! ### List-level facts about sorted lists with tombstones -/

theorem live_append (c : Cmp α κ) (l₁ l₂ : List α) : live c (l₁ ++ l₂) = live c l₁ ++ live c l₂ := by
  simp [live]

theorem live_nil (c : Cmp α κ) : live c ([] : List α) = [] := rfl

theorem live_cons_live (c : Cmp α κ) {x : α} (l : List α) (h : c.isErased x = false) :
    live c (x :: l) = x :: live c l := by
  simp [live, h]

theorem live_cons_erased (c : Cmp α κ) {x : α} (l : List α) (h : c.isErased x = true) :
    live c (x :: l) = live c l := by
  simp [live, h]

theorem live_eq_nil_of_erased (c : Cmp α κ) {l : List α} (h : ∀ x ∈ l, c.isErased x = true) :
    live c l = [] := by
  simp only [live, List.filter_eq_nil_iff]
  intro a ha
  simp [h a ha]

theorem mem_live {c : Cmp α κ} {l : List α} {y : α} (h : y ∈ live c l) : y ∈ l :=
  (List.mem_filter.1 h).1

/-- In a strictly sorted list the element whose key equals `k` splits the list into
strictly smaller and strictly greater keys. -/
theorem sorted_split {c : Cmp α κ} (hc : c.Lawful) {pre post : List α} {x : α} {k : κ}
    (hs : Sorted c (pre ++ x :: post)) (hx : c.cmp (c.key x) k = .eq) :
    (∀ y ∈ pre, c.cmp (c.key y) k = .lt) ∧ (∀ y ∈ post, c.cmp (c.key y) k = .gt) := by
  obtain ⟨_, h2, h3⟩ := List.pairwise_append.1 hs
  refine ⟨fun y hy => hc.lt_eq _ _ _ (h3 y hy x (by simp)) hx, fun y hy => ?_⟩
  have := (List.pairwise_cons.1 h2).1 y hy
  exact hc.mono this (by simp [hx])

theorem find_live_none {c : Cmp α κ} {l : List α} {k : κ}
    (h : ∀ y ∈ l, c.cmp (c.key y) k ≠ .eq) :
    (live c l).find? (fun y => c.cmp (c.key y) k == .eq) = none := by
  rw [List.find?_eq_none]
  intro y hy
  simpa using h y (mem_live hy)

theorem filter_live_none {c : Cmp α κ} {l : List α} {k : κ}
    (h : ∀ y ∈ l, c.cmp (c.key y) k ≠ .eq) :
    (live c l).filter (fun y => c.cmp (c.key y) k != .eq) = live c l := by
  rw [List.filter_eq_self]
  intro y hy
  simpa using h y (mem_live hy)

theorem find_live_split {c : Cmp α κ} (hc : c.Lawful) {pre post : List α} {x : α} {k : κ}
    (hs : Sorted c (pre ++ x :: post)) (hx : c.cmp (c.key x) k = .eq) :
    (live c (pre ++ x :: post)).find? (fun y => c.cmp (c.key y) k == .eq) =
      if c.isErased x then none else some x := by
  obtain ⟨hpre, hpost⟩ := sorted_split hc hs hx
  rw [live_append, List.find?_append, find_live_none (fun y hy => by simp [hpre y hy])]
  by_cases he : c.isErased x = true
  · rw [live_cons_erased c _ he, find_live_none (fun y hy => by simp [hpost y hy])]
    simp [he]
  · have he' : c.isErased x = false := by simpa using he
    rw [live_cons_live c _ he', List.find?_cons]
    simp [hx, he']

theorem filter_live_split {c : Cmp α κ} (hc : c.Lawful) {pre post : List α} {x : α} {k : κ}
    (hs : Sorted c (pre ++ x :: post)) (hx : c.cmp (c.key x) k = .eq) :
    (live c (pre ++ x :: post)).filter (fun y => c.cmp (c.key y) k != .eq) =
      live c pre ++ live c post := by
  obtain ⟨hpre, hpost⟩ := sorted_split hc hs hx
  rw [live_append, List.filter_append, filter_live_none (fun y hy => by simp [hpre y hy])]
  congr 1
  by_cases he : c.isErased x = true
  · rw [live_cons_erased c _ he, filter_live_none (fun y hy => by simp [hpost y hy])]
  · have he' : c.isErased x = false := by simpa using he
    rw [live_cons_live c _ he', List.filter_cons]
    simp only [hx, bne_self_eq_false, Bool.false_eq_true, if_false]
    exact filter_live_none (fun y hy => by simp [hpost y hy])

/-- When the last element is live, the live list has the same last element. -/
theorem live_getLast? {c : Cmp α κ} {l : List α}
    (h : ∀ x, l.getLast? = some x → c.isErased x = false) : (live c l).getLast? = l.getLast? := by
  rcases List.eq_nil_or_concat l with rfl | ⟨ys, a, rfl⟩
  · rfl
  · simp only [List.concat_eq_append] at h ⊢
    have ha := h a (by simp)
    rw [live_append, live_cons_live c _ ha, live_nil]
    simp

/-- When the first element is live, the live list has the same first element. -/
theorem live_head? {c : Cmp α κ} {l : List α}
    (h : ∀ x, l.head? = some x → c.isErased x = false) : (live c l).head? = l.head? := by
  cases l with
  | nil => rfl
  | cons a t => rw [live_cons_live c _ (h a rfl)]; rfl

theorem live_isEmpty {c : Cmp α κ} {l : List α}
    (h : ∀ x, l.head? = some x → c.isErased x = false) : (live c l).isEmpty = l.isEmpty := by
  cases l with
  | nil => rfl
  | cons a t => rw [live_cons_live c _ (h a rfl)]; rfl

theorem set_eq_self_of_getElem? {β : Type} {l : List β} {i : Nat} {x : β} (h : l[i]? = some x) :
    l.set i x = l := by
  obtain ⟨hi, rfl⟩ := List.getElem?_eq_some_iff.1 h
  exact List.set_getElem_self hi

/-- Splitting a list at a valid index. -/
theorem split_at_index {β : Type} {l : List β} {i : Nat} {x : β} (h : l[i]? = some x) :
    l = l.take i ++ x :: l.drop (i + 1) ∧ (l.take i).length = i := by
  obtain ⟨hi, rfl⟩ := List.getElem?_eq_some_iff.1 h
  refine ⟨?_, by simp; omega⟩
  rw [List.getElem_cons_drop hi, List.take_append_drop]

/-! ### The ghost list and the representation invariant -/

/-- What a ghost entry `(item as pushed, erased since?)` looks like in the deque. -/
def real (c : Cmp α κ) (p : α × Bool) : α := if p.2 then c.markErased p.1 else p.1

/-- `gp` explains `l`: the items as they were pushed (all in play, all live, strictly
sorted), each possibly erased since. -/
structure Ghost (c : Cmp α κ) (P : α → Prop) (l : List α) (gp : List (α × Bool)) : Prop where
  eq : l = gp.map (real c)
  mem : ∀ p ∈ gp, P p.1 ∧ c.isErased p.1 = false
  sorted : gp.Pairwise fun p q => c.cmp (c.key p.1) (c.key q.1) = .lt

theorem Ghost.nil {c : Cmp α κ} {P : α → Prop} : Ghost c P [] [] :=
  ⟨rfl, by simp, List.Pairwise.nil⟩

theorem Ghost.sorted_list {c : Cmp α κ} {P : α → Prop} (he : EraseOrder c P) {l : List α}
    {gp : List (α × Bool)} (g : Ghost c P l gp) : Sorted c l := by
  unfold Sorted
  rw [g.eq, List.pairwise_map]
  refine List.Pairwise.imp_of_mem ?_ g.sorted
  intro p q hp hq hlt
  obtain ⟨hPp, _⟩ := g.mem p hp
  obtain ⟨hPq, _⟩ := g.mem q hq
  obtain ⟨a, ea⟩ := p
  obtain ⟨b, eb⟩ := q
  cases ea <;> cases eb <;> simp only [real, Bool.false_eq_true, if_false, if_true]
  · exact hlt
  · exact he.right a b hPp hPq hlt
  · exact he.left a b hPp hPq hlt
  · exact he.both a b hPp hPq hlt

theorem Ghost.drop {c : Cmp α κ} {P : α → Prop} {l : List α} {gp : List (α × Bool)}
    (g : Ghost c P l gp) (n : Nat) : Ghost c P (l.drop n) (gp.drop n) :=
  ⟨by rw [g.eq, List.map_drop], fun p hp => g.mem p (List.mem_of_mem_drop hp),
    g.sorted.sublist (List.drop_sublist n gp)⟩

theorem Ghost.take {c : Cmp α κ} {P : α → Prop} {l : List α} {gp : List (α × Bool)}
    (g : Ghost c P l gp) (n : Nat) : Ghost c P (l.take n) (gp.take n) :=
  ⟨by rw [g.eq, List.map_take], fun p hp => g.mem p (List.mem_of_mem_take hp),
    g.sorted.sublist (List.take_sublist n gp)⟩

theorem Ghost.of_append_left {c : Cmp α κ} {P : α → Prop} {l₁ l₂ : List α} {gp : List (α × Bool)}
    (g : Ghost c P (l₁ ++ l₂) gp) : Ghost c P l₁ (gp.take l₁.length) := by
  have := g.take l₁.length
  rwa [List.take_left' rfl] at this

theorem Ghost.of_append_right {c : Cmp α κ} {P : α → Prop} {l₁ l₂ : List α} {gp : List (α × Bool)}
    (g : Ghost c P (l₁ ++ l₂) gp) : Ghost c P l₂ (gp.drop l₁.length) := by
  have := g.drop l₁.length
  rwa [List.drop_left' rfl] at this

theorem Ghost.push {c : Cmp α κ} {P : α → Prop} (hc : c.Lawful) {l : List α} {gp : List (α × Bool)}
    (g : Ghost c P l gp) {x : α} (hP : P x) (hlive : c.isErased x = false)
    (hlast : ∀ b, l.getLast? = some b → c.isErased b = false ∧ c.cmp (c.key b) (c.key x) = .lt) :
    Ghost c P (l ++ [x]) (gp ++ [(x, false)]) := by
  refine ⟨by rw [g.eq]; simp [real], ?_, ?_⟩
  · intro p hp
    rcases List.mem_append.1 hp with hp | hp
    · exact g.mem p hp
    · simp only [List.mem_singleton] at hp; subst hp; exact ⟨hP, hlive⟩
  · rw [List.pairwise_append]
    refine ⟨g.sorted, by simp, ?_⟩
    intro p hp q hq
    simp only [List.mem_singleton] at hq
    subst hq
    show c.cmp (c.key p.1) (c.key x) = .lt
    rcases List.eq_nil_or_concat gp with hnil | ⟨init, ⟨b, e⟩, hgp⟩
    · subst hnil; simp at hp
    · simp only [List.concat_eq_append] at hgp
      have hl : l.getLast? = some (real c (b, e)) := by rw [g.eq, hgp]; simp
      obtain ⟨hbl, hblt⟩ := hlast _ hl
      have he : e = false := by
        cases e with
        | false => rfl
        | true => simp [real, hc.erased_mark] at hbl
      subst he
      simp only [real, Bool.false_eq_true, if_false] at hblt
      rw [hgp] at hp
      rcases List.mem_append.1 hp with hp | hp
      · have hs := g.sorted
        rw [hgp, List.pairwise_append] at hs
        exact hc.lt_trans _ _ _ (hs.2.2 p hp (b, false) (by simp)) hblt
      · simp only [List.mem_singleton] at hp; subst hp; exact hblt

theorem Ghost.erase {c : Cmp α κ} {P : α → Prop} (hc : c.Lawful) {l : List α} {gp : List (α × Bool)}
    (g : Ghost c P l gp) {i : Nat} {x : α} (hi : l[i]? = some x) (hlive : c.isErased x = false) :
    Ghost c P (l.set i (c.markErased x)) (gp.set i (x, true)) := by
  have hgi : ∃ p, gp[i]? = some p ∧ real c p = x := by
    rw [g.eq, List.getElem?_map] at hi
    cases hp : gp[i]? with
    | none => simp [hp] at hi
    | some p => exact ⟨p, rfl, by simpa [hp] using hi⟩
  obtain ⟨⟨b, e⟩, hp, hr⟩ := hgi
  have he : e = false := by
    cases e with
    | false => rfl
    | true => simp only [real, if_true] at hr; rw [← hr, hc.erased_mark] at hlive; cases hlive
  subst he
  simp only [real, Bool.false_eq_true, if_false] at hr
  subst hr
  have hmem : (b, false) ∈ gp := List.mem_of_getElem? hp
  refine ⟨?_, ?_, ?_⟩
  · rw [List.map_set, ← g.eq]; simp [real]
  · intro p hp'
    rcases List.mem_or_eq_of_mem_set hp' with h | h
    · exact g.mem p h
    · subst h; exact g.mem (b, false) hmem
  · have h1 : (gp.set i (b, true)).map Prod.fst = gp.map Prod.fst := by
      rw [List.map_set]
      apply set_eq_self_of_getElem?
      rw [List.getElem?_map, hp]; rfl
    have h2 := g.sorted
    rw [← List.pairwise_map (f := Prod.fst) (R := fun a b => c.cmp (c.key a) (c.key b) = .lt)] at h2 ⊢
    rwa [h1]

/-- The representation invariant of `SortedDeque`: the SlidingDeque invariant, both ends
live (= `SortedDeque::check_rep`), and a ghost explanation of the items. -/
structure SInv (c : Cmp α κ) (P : α → Prop) (s : SortedDeque α) : Prop where
  items : Inv s.items
  head_live : ∀ x, s.items.view.head? = some x → c.isErased x = false
  last_live : ∀ x, s.items.view.getLast? = some x → c.isErased x = false
  ghost : ∃ gp, Ghost c P s.items.view gp

/-- The abstraction function: the present items in key order. -/
def abs (c : Cmp α κ) (s : SortedDeque α) : List α := live c s.items.view

end Woodpile.SortedDeque

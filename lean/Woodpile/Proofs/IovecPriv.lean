/-
C20, content half: `pending_private` — the byte range of a pending placeholder is covered by no
slice of any other object, for histories that clone only iovecs with no pending placeholder.
-/
import Woodpile.Proofs.IovecHeap
namespace Woodpile.Iovec
open Woodpile.Arena

/-! ### Slice descent -/

/-- `s'` is a sub-range of `s`. -/
def Sub (s' s : Slice) : Prop := s'.region = s.region ∧ s.off ≤ s'.off ∧ s'.off + s'.len ≤ s.off + s.len

/-- `s'` is the in-place join of the adjacent slices `l`, `r`. -/
def Join (s' l r : Slice) : Prop :=
  s'.region = l.region ∧ r.region = l.region ∧ s'.off = l.off ∧ l.off + l.len = r.off ∧
    s'.off + s'.len = r.off + r.len

theorem Sub.refl (s : Slice) : Sub s s := ⟨rfl, Nat.le_refl _, Nat.le_refl _⟩

/-- Slices obtained from a base family by narrowing and joining adjacent ones. -/
inductive Desc (B : Slice → Prop) : Slice → Prop
  | base {s} : B s → Desc B s
  | sub {s' s} : Desc B s → Sub s' s → Desc B s'
  | join {s' l r} : Desc B l → Desc B r → Join s' l r → Desc B s'

theorem Desc.mono {B B' : Slice → Prop} (h : ∀ s, B s → B' s) {s : Slice} (hd : Desc B s) : Desc B' s := by
  induction hd with
  | base hb => exact .base (h _ hb)
  | sub _ hs ih => exact .sub ih hs
  | join _ _ hj ih1 ih2 => exact .join ih1 ih2 hj

theorem Desc.trans {B B' : Slice → Prop} (h : ∀ s, B s → Desc B' s) {s : Slice} (hd : Desc B s) : Desc B' s := by
  induction hd with
  | base hb => exact h _ hb
  | sub _ hs ih => exact .sub ih hs
  | join _ _ hj ih1 ih2 => exact .join ih1 ih2 hj

/-- A range that misses every base slice of chunk `k` misses every descendant. -/
theorem Desc.disj {B : Slice → Prop} {k a n : Nat} (hB : ∀ s, B s → s.region = .chunk k → Disj a n s) {s : Slice}
    (hd : Desc B s) : s.region = .chunk k → Disj a n s := by
  induction hd with
  | base hb => exact hB _ hb
  | sub _ hs ih =>
    intro hr
    rcases ih (hs.1 ▸ hr) with h0 | h0 | h0
    · exact Or.inl h0
    · exact Or.inr (Or.inl (by have := hs.2.2; omega))
    · exact Or.inr (Or.inr (by have := hs.2.1; omega))
  | join _ _ hj ih1 ih2 =>
    intro hr
    obtain ⟨h1, h2, h3, h4, h5⟩ := hj
    have hl := ih1 (h1 ▸ hr)
    have hr' := ih2 (by rw [h2, ← h1]; exact hr)
    rcases hl with h0 | h0 | h0
    · exact Or.inl h0
    · rcases hr' with g0 | g0 | g0
      · exact Or.inl g0
      · exact Or.inr (Or.inl (by omega))
      · -- `l` ends at or before `a`, `r` starts at or after `a + n`, and they are adjacent: `n = 0`
        exact Or.inl (by omega)
    · exact Or.inr (Or.inr (by omega))

/-! ### Pending ranges and the backref bookkeeping invariant -/

/-- (W) every pending backref points at a slice that is still buffered or already consumed (never past
the end), and the backrefs are sorted by slice index. -/
structure BackrefsOk (v : Iov) : Prop where
  inRange : ∀ br ∈ v.backrefs, br.2.sliceIndex < v.consumedSlices + v.slices.length
  sorted : v.backrefs.Pairwise (fun a b => a.2.sliceIndex ≤ b.2.sliceIndex)
  /-- while its target slice is buffered, the backref's range fits in it and the slice is owned -/
  fits : ∀ br ∈ v.backrefs, ∀ t, v.consumedSlices ≤ br.2.sliceIndex →
    v.slices[br.2.sliceIndex - v.consumedSlices]? = some t → br.2.begin + br.2.len ≤ t.len ∧ ∃ k, t.region = .chunk k

theorem pendingRange_congr {v v' : Iov} (h1 : v'.consumedSlices = v.consumedSlices) (h2 : v'.slices = v.slices)
    (info : BackrefInfo) : v'.pendingRange info = v.pendingRange info := by
  unfold Iov.pendingRange; rw [h1, h2]

/-- The target slice of a pending range is one of the iovec's slices and contains the range. -/
theorem pendingRange_target {v : Iov} {info : BackrefInfo} {k a n : Nat} (h : v.pendingRange info = some (k, a, n)) :
    ∃ t ∈ v.slices, t.region = .chunk k ∧ t.off ≤ a ∧ a + n ≤ t.off + t.len ∧ n = info.len ∧
      v.consumedSlices ≤ info.sliceIndex ∧ v.slices[info.sliceIndex - v.consumedSlices]? = some t ∧ a = t.off + info.begin := by
  unfold Iov.pendingRange at h
  split at h
  · simp at h
  · rename_i hidx
    split at h
    · simp at h
    · rename_i t ht
      split at h
      · rename_i k' hk'
        split at h
        · rename_i hfit
          simp at h
          obtain ⟨rfl, rfl, rfl⟩ := h
          exact ⟨t, List.mem_of_getElem? ht, hk', by omega, by omega, rfl, by omega, ht, rfl⟩
        · simp at h
      · simp at h

/-- With (W), a backref whose target is still buffered designates a range. -/
theorem pendingRange_of_target {v : Iov} {br : Nat × BackrefInfo} {t : Slice} (hok : BackrefsOk v) (hm : br ∈ v.backrefs)
    (hidx : v.consumedSlices ≤ br.2.sliceIndex) (ht : v.slices[br.2.sliceIndex - v.consumedSlices]? = some t) :
    ∃ k, t.region = .chunk k ∧ v.pendingRange br.2 = some (k, t.off + br.2.begin, br.2.len) := by
  obtain ⟨hfit, k, hk⟩ := hok.fits br hm t hidx ht
  refine ⟨k, hk, ?_⟩
  unfold Iov.pendingRange
  rw [if_neg (by omega), ht]
  simp only [hk]
  rw [if_pos hfit]

/-! ### `push` (borrowed or copied) followed by `optimize` -/

/-- Appending a slice `x` and optimizing: every resulting slice is an old one, `x`, or the in-place
join of the old last slice with `x`. -/
theorem append_optimize_slices {v v1 v2 : Iov} {x : Slice} (h1 : v1.slices = v.slices ++ [x])
    (ho : v1.optimize = some v2) :
    ∀ s' ∈ v2.slices, s' ∈ v.slices ∨ s' = x ∨ ∃ l ∈ v.slices, Join s' l x := by
  intro s' hs'
  rcases optimize_derived ho s' hs' with hm | ⟨l, r, c, hr, hl, _, hlr, hrr, hsr, hoff, hend, hadj⟩
  · rw [h1] at hm; simp only [List.mem_append, List.mem_singleton] at hm
    rcases hm with hm | hm
    · exact Or.inl hm
    · exact Or.inr (Or.inl hm)
  · rw [h1] at hr hl
    rw [List.getLast?_append, List.getLast?_singleton] at hr
    simp at hr; subst hr
    rw [List.dropLast_concat] at hl
    exact Or.inr (Or.inr ⟨l, hl, by rw [hsr, hlr], by rw [hrr, hlr], hoff, hadj, hend⟩)

/-- The same step keeps (W) and every pending range. -/
theorem append_optimize_backrefs {v v1 v2 : Iov} {x : Slice} (hok : BackrefsOk v) (h1 : v1.slices = v.slices ++ [x])
    (hcs : v1.consumedSlices = v.consumedSlices) (hbr : v1.backrefs = v.backrefs) (ho : v1.optimize = some v2) :
    BackrefsOk v2 ∧ v2.backrefs = v.backrefs ∧ v.slices.length ≤ v2.slices.length ∧
      ∀ br ∈ v.backrefs, v2.pendingRange br.2 = v.pendingRange br.2 := by
  rcases optimize_spec ho with rfl | ⟨ss, l, r, as, a, m, hss, has, ha, hj, rfl⟩
  · -- no merge
    have hlook : ∀ br ∈ v.backrefs, v.consumedSlices ≤ br.2.sliceIndex →
        v2.slices[br.2.sliceIndex - v2.consumedSlices]? = v.slices[br.2.sliceIndex - v.consumedSlices]? := by
      intro br hm hge
      have := hok.inRange br hm
      rw [h1, hcs]
      rw [List.getElem?_append_left (by omega)]
    refine ⟨⟨?_, by rw [hbr]; exact hok.sorted, ?_⟩, hbr, by rw [h1]; simp, ?_⟩
    · intro br hm; rw [hbr] at hm; have := hok.inRange br hm; rw [h1, hcs]; simp; omega
    · intro br hm t hidx ht
      rw [hbr] at hm; rw [hcs] at hidx
      rw [hlook br hm hidx] at ht
      exact hok.fits br hm t hidx ht
    · intro br hm
      unfold Iov.pendingRange
      by_cases hidx : br.2.sliceIndex < v.consumedSlices
      · simp [hcs, hidx]
      · have e := hlook br hm (by omega)
        rw [hcs] at e
        rw [hcs, if_neg hidx, if_neg hidx, e]
  · -- the last two slices were merged: `v.slices = ss ++ [l]`, `r = x`
    have hvs : v.slices = ss ++ [l] ∧ r = x := by
      rw [hss] at h1
      have e : ss ++ [l, r] = (ss ++ [l]) ++ [r] := by simp
      rw [e] at h1
      have := List.append_inj' h1 (by simp)
      exact ⟨this.1.symm, by simpa using this.2⟩
    obtain ⟨c, _, hlreg, _, hadj, _, hm⟩ := tryJoin_spec hj
    have hmreg : m.region = l.region := by rw [hm]
    have hmoff : m.off = l.off := by rw [hm]
    have hmlen : l.len ≤ m.len := by rw [hm]; simp
    have hlook : ∀ br ∈ v.backrefs, ∀ t, v.slices[br.2.sliceIndex - v.consumedSlices]? = some t →
        ∃ t', (ss ++ [m])[br.2.sliceIndex - v.consumedSlices]? = some t' ∧ t'.region = t.region ∧ t'.off = t.off ∧
          t.len ≤ t'.len := by
      intro br hmem t ht
      rw [hvs.1] at ht
      by_cases hlt : br.2.sliceIndex - v.consumedSlices < ss.length
      · rw [List.getElem?_append_left hlt] at ht ⊢
        exact ⟨t, ht, rfl, rfl, Nat.le_refl _⟩
      · have hin := hok.inRange br hmem
        rw [hvs.1] at hin; simp at hin
        have e : br.2.sliceIndex - v.consumedSlices = ss.length := by
          have := List.getElem?_eq_some_iff.1 ht |>.1
          simp at this; omega
        rw [e] at ht ⊢
        simp at ht ⊢
        subst ht
        exact ⟨hmreg, hmoff, hmlen⟩
    have hlook' : ∀ br ∈ v.backrefs, ∀ t', (ss ++ [m])[br.2.sliceIndex - v.consumedSlices]? = some t' →
        ∃ t, v.slices[br.2.sliceIndex - v.consumedSlices]? = some t := by
      intro br hmem t' ht'
      have hlt : br.2.sliceIndex - v.consumedSlices < (ss ++ [m]).length := (List.getElem?_eq_some_iff.1 ht').1
      have : br.2.sliceIndex - v.consumedSlices < v.slices.length := by rw [hvs.1]; simpa using hlt
      exact ⟨_, List.getElem?_eq_getElem this⟩
    refine ⟨⟨?_, by simpa [hbr] using hok.sorted, ?_⟩, hbr, by rw [hvs.1]; simp, ?_⟩
    · intro br hmem
      simp only [hbr] at hmem
      have := hok.inRange br hmem
      rw [hvs.1] at this
      simp only [hcs]; simpa using this
    · intro br hmem t' hidx ht'
      simp only [hbr] at hmem
      simp only [hcs] at hidx ht'
      obtain ⟨t, ht⟩ := hlook' br hmem t' ht'
      obtain ⟨t'', ht'', hr, _, hl⟩ := hlook br hmem t ht
      rw [ht''] at ht'; cases ht'
      obtain ⟨hf, k, hk⟩ := hok.fits br hmem t hidx ht
      exact ⟨by omega, k, by rw [hr, hk]⟩
    · intro br hmem
      by_cases hidx : br.2.sliceIndex < v.consumedSlices
      · unfold Iov.pendingRange; simp [hcs, hidx]
      · cases ht : v.slices[br.2.sliceIndex - v.consumedSlices]? with
        | none =>
          have hnone : (ss ++ [m])[br.2.sliceIndex - v.consumedSlices]? = none := by
            cases hh : (ss ++ [m])[br.2.sliceIndex - v.consumedSlices]? with
            | none => rfl
            | some t' => obtain ⟨t, ht2⟩ := hlook' br hmem t' hh; rw [ht] at ht2; cases ht2
          unfold Iov.pendingRange
          simp [hcs, hidx, ht, hnone]
        | some t =>
          obtain ⟨t', ht', hr, ho', hl⟩ := hlook br hmem t ht
          obtain ⟨hf, k, hk⟩ := hok.fits br hmem t (by omega) ht
          unfold Iov.pendingRange
          simp only [hcs, hidx, if_false, ht, ht', hk, hr ▸ hk]
          rw [if_pos hf, if_pos (by omega), ho']

/-! ### `consume` keeps (W) and every surviving pending range -/

theorem consumeSlices_backrefs {v v' : Iov} {count k : Nat} (hok : BackrefsOk v)
    (h : v.consumeSlices count = some (v', k)) :
    BackrefsOk v' ∧ v'.backrefs = v.backrefs ∧
      ∀ br ∈ v.backrefs, ∀ R, v'.pendingRange br.2 = some R → v.pendingRange br.2 = some R := by
  obtain ⟨hk, as1, _, rfl⟩ := consumeSlices_specO h
  have hkl : k ≤ v.slices.length := by omega
  have hlook : ∀ idx, v.consumedSlices + k ≤ idx →
      (v.slices.drop k)[idx - (v.consumedSlices + k)]? = v.slices[idx - v.consumedSlices]? := by
    intro idx hge
    rw [List.getElem?_drop]; congr 1; omega
  refine ⟨⟨?_, hok.sorted, ?_⟩, rfl, ?_⟩
  · intro br hm
    have := hok.inRange br hm
    simp only [List.length_drop]; omega
  · intro br hm t hidx ht
    simp only at hidx ht
    rw [hlook _ hidx] at ht
    exact hok.fits br hm t (by omega) ht
  · intro br hm R hR
    unfold Iov.pendingRange at hR ⊢
    simp only at hR
    by_cases hidx : br.2.sliceIndex < v.consumedSlices + k
    · simp [hidx] at hR
    · rw [if_neg hidx, hlook _ (by omega)] at hR
      rw [if_neg (by omega)]; exact hR


/-- Total length of a list of slices (the fold `advance_slices` computes). -/
def sumLen (l : List Slice) : Nat := (l.map (·.len)).foldl (· + ·) 0

theorem foldl_add_init (l : List Nat) (a : Nat) : l.foldl (· + ·) a = a + l.foldl (· + ·) 0 := by
  induction l generalizing a with
  | nil => simp
  | cons x xs ih => simp only [List.foldl_cons]; rw [ih (a + x), ih (0 + x)]; omega

theorem sumLen_cons (s : Slice) (l : List Slice) : sumLen (s :: l) = s.len + sumLen l := by
  unfold sumLen
  simp only [List.map_cons, List.foldl_cons]
  rw [foldl_add_init]; omega

@[simp] theorem sumLen_nil : sumLen [] = 0 := rfl

/-- With sorted backrefs, the first one has the smallest slice index. -/
theorem head_le_of_sorted {v : Iov} (hok : BackrefsOk v) {key : Nat} {info : BackrefInfo}
    (hh : v.backrefs.head? = some (key, info)) : ∀ br ∈ v.backrefs, info.sliceIndex ≤ br.2.sliceIndex := by
  intro br hm
  cases hb : v.backrefs with
  | nil => rw [hb] at hh; simp at hh
  | cons x xs =>
    rw [hb] at hh hm; simp at hh; subst hh
    have hs := hok.sorted; rw [hb] at hs
    simp only [List.mem_cons] at hm
    rcases hm with rfl | hm
    · exact Nat.le_refl _
    · exact (List.pairwise_cons.1 hs).1 br hm

/-- `advance_slices(k)` with `k` at most the stable bytes: whole slices leave from the front, the last
one touched is shortened in place — and it is never the slice of a pending placeholder. -/
theorem consumeBytes_backrefs : ∀ (fuel : Nat) (v : Iov) (count consumed : Nat) (v' : Iov) (c ns : Nat),
    BackrefsOk v → v.stableCount = some ns → count - consumed ≤ sumLen (v.slices.take ns) →
    Iov.consumeBytes fuel v count consumed = some (v', c) →
    BackrefsOk v' ∧ v'.backrefs = v.backrefs ∧
      (∀ br ∈ v.backrefs, ∀ R, v'.pendingRange br.2 = some R → v.pendingRange br.2 = some R) ∧
      (∀ s' ∈ v'.slices, ∃ s ∈ v.slices, Sub s' s) := by
  intro fuel
  induction fuel with
  | zero =>
    intro v count consumed v' c ns hok _ _ h
    simp [Iov.consumeBytes] at h; obtain ⟨rfl, _⟩ := h
    exact ⟨hok, rfl, fun _ _ _ h => h, fun s hs => ⟨s, hs, Sub.refl s⟩⟩
  | succ fuel ih =>
    intro v count consumed v' c ns hok hst hrem h
    unfold Iov.consumeBytes at h
    split at h
    · simp at h; obtain ⟨rfl, _⟩ := h
      exact ⟨hok, rfl, fun _ _ _ h => h, fun s hs => ⟨s, hs, Sub.refl s⟩⟩
    · rename_i hnot
      split at h
      · simp at h
      · rename_i s rest hs
        simp only at h
        -- there is something left to consume, so the stable prefix is not empty
        have hns : 1 ≤ ns := by
          cases ns with
          | zero => simp at hrem; omega
          | succ m => omega
        -- every pending backref points past the first slice
        have hpast : ∀ br ∈ v.backrefs, v.consumedSlices + 1 ≤ br.2.sliceIndex := by
          intro br hm
          unfold Iov.stableCount at hst
          cases hh : v.backrefs.head? with
          | none =>
            cases hb : v.backrefs with
            | nil => rw [hb] at hm; simp at hm
            | cons x xs => rw [hb] at hh; simp at hh
          | some p =>
            obtain ⟨key, info⟩ := p
            simp only [hh] at hst
            split at hst
            · simp at hst
            · simp at hst
              have := head_le_of_sorted hok hh br hm
              omega
        split at h
        · -- the whole first slice is consumed
          rename_i hn
          split at h
          · simp at h
          · rename_i v1 k1 hc1
            obtain ⟨hok1, hbr1, hpr1⟩ := consumeSlices_backrefs hok hc1
            obtain ⟨hk1, as1, _, hv1⟩ := consumeSlices_specO hc1
            have hk1' : k1 = 1 := by rw [hs] at hk1; simp at hk1; omega
            have hsl1 : v1.slices = rest := by rw [hv1, hk1', hs]; simp
            have hcs1 : v1.consumedSlices = v.consumedSlices + 1 := by rw [hv1, hk1']
            have hst1 : v1.stableCount = some (ns - 1) := by
              unfold Iov.stableCount at hst ⊢
              rw [hbr1, hcs1, hsl1]
              cases hh : v.backrefs.head? with
              | none => simp only [hh] at hst; simp at hst; rw [hs] at hst; simp at hst; simp; omega
              | some p =>
                obtain ⟨key, info⟩ := p
                simp only [hh] at hst ⊢
                have hp := hpast (key, info) (List.mem_of_mem_head? hh)
                simp only at hp
                rw [if_neg (by omega)] at hst ⊢
                simp at hst ⊢
                rw [hs] at hst; simp at hst
                omega
            have hrem1 : count - (consumed + min (count - consumed) s.len) ≤ sumLen (v1.slices.take (ns - 1)) := by
              rw [hsl1]
              rw [hs] at hrem
              have e : List.take ns (s :: rest) = s :: List.take (ns - 1) rest := by
                cases ns with
                | zero => omega
                | succ m => simp
              rw [e, sumLen_cons] at hrem
              omega
            obtain ⟨hok', hbr', hpr', hsub'⟩ := ih v1 count _ v' c (ns - 1) hok1 hst1 hrem1 h
            refine ⟨hok', by rw [hbr', hbr1], ?_, ?_⟩
            · intro br hm R hR
              exact hpr1 br hm R (hpr' br (by rw [hbr1]; exact hm) R hR)
            · intro s' hs'
              obtain ⟨s0, hs0, hsub⟩ := hsub' s' hs'
              rw [hsl1] at hs0
              exact ⟨s0, by rw [hs]; simp [hs0], hsub⟩
        · -- the first slice is shortened in place; it is nobody's target
          rename_i hn
          simp at h
          obtain ⟨rfl, _⟩ := h
          have hlook : ∀ br ∈ v.backrefs,
              ({ s with off := s.off + min (count - consumed) s.len, len := s.len - min (count - consumed) s.len } :: rest)[br.2.sliceIndex - v.consumedSlices]? =
              v.slices[br.2.sliceIndex - v.consumedSlices]? := by
            intro br hm
            have := hpast br hm
            rw [hs]
            have e : br.2.sliceIndex - v.consumedSlices = (br.2.sliceIndex - v.consumedSlices - 1) + 1 := by omega
            rw [e]; simp
          refine ⟨⟨?_, hok.sorted, ?_⟩, rfl, ?_, ?_⟩
          · intro br hm; have := hok.inRange br hm; rw [hs] at this; simpa using this
          · intro br hm t hidx ht
            simp only at hidx ht
            rw [hlook br hm] at ht
            exact hok.fits br hm t hidx ht
          · intro br hm R hR
            unfold Iov.pendingRange at hR ⊢
            simp only at hR
            rw [hlook br hm] at hR; exact hR
          · intro s' hs'
            simp only [List.mem_cons] at hs'
            rcases hs' with rfl | hs'
            · exact ⟨s, by rw [hs]; simp, rfl, by simp, by simp only; omega⟩
            · exact ⟨s', by rw [hs]; simp [hs'], Sub.refl s'⟩

/-! ### The privacy invariant and its generic step -/

/-- A detached anchored slice of the world. -/
def World.ASl (w : World) (s : Slice) : Prop := ∃ j a, w.aslice j = some a ∧ a.slice = s

/-- `s` starts at or above the end of everything readable in its chunk. -/
def World.Fresh (w : World) (s : Slice) : Prop :=
  ∀ s0, w.HasSlice s0 → s0.region = s.region → s0.off + s0.len ≤ s.off

structure PrivInv (w : World) : Prop where
  wf : ∀ i v, w.iov i = some v → BackrefsOk v
  priv : PendingPrivate w

/-- One operation, seen by the privacy invariant: iovec `T` (the target, or the index a fresh iovec is
created at, or an unused index) may change; every other iovec is untouched; detached slices are
narrowed, dropped, copied, or (if `A`) freshly allocated. -/
structure TStep (w w' : World) (T : Nat) (A : Prop) : Prop where
  others : ∀ j, j ≠ T → w'.iov j = w.iov j
  asl : ∀ s', w'.ASl s' → (∃ s, w.ASl s ∧ Sub s' s) ∨ (A ∧ w.Fresh s') ∨ ∃ b, s'.region = .ext b
  tgt : ∀ v', w'.iov T = some v' →
    (v'.backrefs = [] ∧ ∀ s' ∈ v'.slices, ∃ b, s'.region = .ext b) ∨
    (∃ v, w.iov T = some v ∧ (BackrefsOk v → BackrefsOk v') ∧
      (∀ s' ∈ v'.slices, Desc (fun s => s ∈ v.slices ∨ w.ASl s ∨ w.Fresh s ∨ ∃ b, s.region = .ext b) s') ∧
      (∀ br ∈ v'.backrefs, ∀ k a n, v'.pendingRange br.2 = some (k, a, n) →
        (br ∈ v.backrefs ∧ v.pendingRange br.2 = some (k, a, n)) ∨
        (¬ A ∧ ∀ s0, w.HasSlice s0 → s0.region = .chunk k → s0.off + s0.len ≤ a)))

theorem TStep.inv {w w' : World} {T : Nat} {A : Prop} (hp : PrivInv w) (h : TStep w w' T A) : PrivInv w' := by
  -- a range designated by a pending backref of `w` lies inside a slice of `w`, so below anything fresh
  have fresh_disj : ∀ X v br k a n s', w.iov X = some v → br ∈ v.backrefs → v.pendingRange br.2 = some (k, a, n) →
      w.Fresh s' → s'.region = .chunk k → Disj a n s' := by
    intro X v br k a n s' hv _ hpr hf hr
    obtain ⟨t, ht, htr, _, hend, _⟩ := pendingRange_target hpr
    have := hf t (Or.inl ⟨X, v, hv, ht⟩) (by rw [htr, hr])
    exact Or.inr (Or.inr (by omega))
  have asl_disj : ∀ X v br k a n, w.iov X = some v → br ∈ v.backrefs → v.pendingRange br.2 = some (k, a, n) →
      ∀ s', w'.ASl s' → s'.region = .chunk k → Disj a n s' := by
    intro X v br k a n hv hm hpr s' hs' hr
    rcases h.asl s' hs' with ⟨s, ⟨j, as, hj, rfl⟩, hsub⟩ | ⟨_, hf⟩ | ⟨b, hb⟩
    · have hd := hp.priv X v br.1 br.2 k a n hv hm hpr as.slice (Or.inr ⟨j, as, hj, rfl⟩) (hsub.1 ▸ hr)
      exact (Desc.sub (Desc.base (B := fun s => s = as.slice) rfl) hsub).disj
        (fun s hs _ => hs ▸ hd) hr
    · exact fresh_disj X v br k a n s' hv hm hpr hf hr
    · rw [hb] at hr; cases hr
  refine ⟨?_, ?_⟩
  · intro i v' hv'
    by_cases hi : i = T
    · subst hi
      rcases h.tgt v' hv' with ⟨hb, _⟩ | ⟨v, hv, hok, _, _⟩
      · exact ⟨by rw [hb]; simp, by rw [hb]; simp, by rw [hb]; simp⟩
      · exact hok (hp.wf i v hv)
    · rw [h.others i hi] at hv'; exact hp.wf i v' hv'
  · intro X v' key info k a n hv' hm hpr s' hs' hr
    by_cases hX : X = T
    · subst hX
      rcases h.tgt v' hv' with ⟨hb, _⟩ | ⟨v, hv, _, _, hpend⟩
      · rw [hb] at hm; simp at hm
      · rcases hpend (key, info) hm k a n hpr with ⟨hm0, hpr0⟩ | ⟨hnA, hfr⟩
        · rcases hs' with ⟨Y, vY, hY, hvY, hmem⟩ | hasl
          · rw [h.others Y hY] at hvY
            exact hp.priv X v key info k a n hv hm0 hpr0 s' (Or.inl ⟨Y, vY, hY, hvY, hmem⟩) hr
          · exact asl_disj X v (key, info) k a n hv hm0 hpr0 s' hasl hr
        · rcases hs' with ⟨Y, vY, hY, hvY, hmem⟩ | hasl
          · rw [h.others Y hY] at hvY
            exact Or.inr (Or.inl (hfr s' (Or.inl ⟨Y, vY, hvY, hmem⟩) hr))
          · rcases h.asl s' hasl with ⟨s, ⟨j, as, hj, rfl⟩, hsub⟩ | ⟨hA, _⟩ | ⟨b, hb⟩
            · have := hfr as.slice (Or.inr ⟨j, as, hj, rfl⟩) (hsub.1 ▸ hr)
              exact Or.inr (Or.inl (by have := hsub.2.2; omega))
            · exact absurd hA hnA
            · rw [hb] at hr; cases hr
    · rw [h.others X hX] at hv'
      rcases hs' with ⟨Y, vY, hY, hvY, hmem⟩ | hasl
      · by_cases hYT : Y = T
        · subst hYT
          rcases h.tgt vY hvY with ⟨_, hext⟩ | ⟨v, hv, _, hdesc, _⟩
          · obtain ⟨b, hb⟩ := hext s' hmem; rw [hb] at hr; cases hr
          · refine (hdesc s' hmem).disj ?_ hr
            intro s hs hsr
            rcases hs with hs | hs | hs | ⟨b, hb⟩
            · exact hp.priv X v' key info k a n hv' hm hpr s (Or.inl ⟨Y, v, hY, hv, hs⟩) hsr
            · exact hp.priv X v' key info k a n hv' hm hpr s (Or.inr hs) hsr
            · exact fresh_disj X v' (key, info) k a n s hv' hm hpr hs hsr
            · rw [hb] at hsr; cases hsr
        · rw [h.others Y hYT] at hvY
          exact hp.priv X v' key info k a n hv' hm hpr s' (Or.inl ⟨Y, vY, hY, hvY, hmem⟩) hr
      · exact asl_disj X v' (key, info) k a n hv' hm hpr s' hasl hr

/-! ### Quiet steps (no allocation, the target iovec exists before and after), closed under composition -/

structure QStep (w w' : World) (T : Nat) : Prop where
  others : ∀ j, j ≠ T → w'.iov j = w.iov j
  asl : ∀ s', w'.ASl s' → (∃ s, w.ASl s ∧ Sub s' s) ∨ ∃ b, s'.region = .ext b
  tgt : ∀ v', w'.iov T = some v' →
    ∃ v, w.iov T = some v ∧ (BackrefsOk v → BackrefsOk v') ∧
      (∀ s' ∈ v'.slices, Desc (fun s => s ∈ v.slices ∨ ∃ b, s.region = .ext b) s') ∧
      (∀ br ∈ v'.backrefs, ∀ R, v'.pendingRange br.2 = some R → br ∈ v.backrefs ∧ v.pendingRange br.2 = some R)

theorem Sub.trans {a b c : Slice} (h1 : Sub a b) (h2 : Sub b c) : Sub a c :=
  ⟨h1.1.trans h2.1, Nat.le_trans h2.2.1 h1.2.1, Nat.le_trans h1.2.2 h2.2.2⟩

theorem QStep.refl (w : World) (T : Nat) : QStep w w T :=
  ⟨fun _ _ => rfl, fun s hs => Or.inl ⟨s, hs, Sub.refl s⟩, fun v' hv' => ⟨v', hv', id,
    fun _ hs => .base (Or.inl hs), fun _ hm _ hR => ⟨hm, hR⟩⟩⟩

theorem QStep.trans {w w1 w2 : World} {T : Nat} (h1 : QStep w w1 T) (h2 : QStep w1 w2 T) : QStep w w2 T := by
  refine ⟨fun j hj => by rw [h2.others j hj, h1.others j hj], ?_, ?_⟩
  · intro s' hs'
    rcases h2.asl s' hs' with ⟨s1, hs1, hsub1⟩ | hb
    · rcases h1.asl s1 hs1 with ⟨s0, hs0, hsub0⟩ | ⟨b, hb⟩
      · exact Or.inl ⟨s0, hs0, hsub1.trans hsub0⟩
      · exact Or.inr ⟨b, by rw [hsub1.1, hb]⟩
    · exact Or.inr hb
  · intro v2 hv2
    obtain ⟨v1, hv1, hok2, hd2, hp2⟩ := h2.tgt v2 hv2
    obtain ⟨v, hv, hok1, hd1, hp1⟩ := h1.tgt v1 hv1
    exact ⟨v, hv, fun h => hok2 (hok1 h),
      fun s' hs' => (hd2 s' hs').trans (fun s hs => by
        rcases hs with hs | hb
        · exact hd1 s hs
        · exact .base (Or.inr hb)),
      fun br hm R hR => by
        obtain ⟨hm1, hR1⟩ := hp2 br hm R hR
        exact hp1 br hm1 R hR1⟩

theorem QStep.toTStep {w w' : World} {T : Nat} (h : QStep w w' T) (A : Prop) : TStep w w' T A :=
  ⟨h.others, fun s' hs' => (h.asl s' hs').elim Or.inl (fun hb => Or.inr (Or.inr hb)), fun v' hv' => by
    obtain ⟨v, hv, hok, hd, hp⟩ := h.tgt v' hv'
    exact Or.inr ⟨v, hv, hok, fun s' hs' => (hd s' hs').mono (fun s hs => by
      rcases hs with hs | hb
      · exact Or.inl hs
      · exact Or.inr (Or.inr (Or.inr hb))),
      fun br hm k a n hR => Or.inl (hp br hm (k, a, n) hR)⟩⟩

/-- Replacing iovec `T` by a value whose slices descend from its own (or are caller buffers), with the
same surviving pending ranges; everything else untouched. -/
theorem qstep_setIov {w : World} {T : Nat} {v v' : Iov} (hv : w.iov T = some v) (hok : BackrefsOk v → BackrefsOk v')
    (hd : ∀ s' ∈ v'.slices, Desc (fun s => s ∈ v.slices ∨ ∃ b, s.region = .ext b) s')
    (hp : ∀ br ∈ v'.backrefs, ∀ R, v'.pendingRange br.2 = some R → br ∈ v.backrefs ∧ v.pendingRange br.2 = some R) :
    QStep w (w.setIov T (some v')) T := by
  refine ⟨fun j hj => by simp [hj], ?_, ?_⟩
  · rintro s' ⟨j, a, ha, rfl⟩
    exact Or.inl ⟨a.slice, ⟨j, a, by simpa using ha, rfl⟩, Sub.refl _⟩
  · intro x hx
    simp at hx; subst hx
    exact ⟨v, hv, hok, hd, hp⟩

theorem qstep_congr {w w1 w' : World} {T : Nat} (h : QStep w w1 T) (hi : ∀ j, w'.iov j = w1.iov j)
    (ha : ∀ j, w'.aslice j = w1.aslice j) : QStep w w' T := by
  refine ⟨fun j hj => by rw [hi, h.others j hj], ?_, fun v' hv' => h.tgt v' (by rw [← hi]; exact hv')⟩
  rintro s' ⟨j, a, hj, rfl⟩
  exact h.asl _ ⟨j, a, by rw [← ha]; exact hj, rfl⟩

theorem qstep_congr_left {w0 w w' : World} {T : Nat} (h : QStep w0 w' T) (hi : ∀ j, w0.iov j = w.iov j)
    (ha : ∀ j, w0.aslice j = w.aslice j) : QStep w w' T := by
  refine ⟨fun j hj => by rw [h.others j hj, hi], ?_, fun v' hv' => by
    obtain ⟨v, hv, r⟩ := h.tgt v' hv'; exact ⟨v, by rw [← hi]; exact hv, r⟩⟩
  intro s' hs'
  rcases h.asl s' hs' with ⟨s, ⟨j, a, hj, rfl⟩, hsub⟩ | hb
  · exact Or.inl ⟨_, ⟨j, a, by rw [← ha]; exact hj, rfl⟩, hsub⟩
  · exact Or.inr hb


theorem append_optimize_backrefs_len {v v1 v2 : Iov} {x : Slice} (h1 : v1.slices = v.slices ++ [x])
    (ho : v1.optimize = some v2) : v.slices.length ≤ v2.slices.length := by
  rcases optimize_spec ho with rfl | ⟨ss, l, r, as, a, m, hss, _, _, _, rfl⟩
  · rw [h1]; simp
  · have : (v.slices ++ [x]).length = (ss ++ [l, r]).length := by rw [← h1, hss]
    simp at this ⊢; omega

/-- Appending `x` (with new anchors / size / arena) and optimizing, packaged. -/
theorem push_opt {v v2 : Iov} {x : Slice} {anchors' : List Anchor} {ls' : Nat} {arena' : Arena}
    (ho : Iov.optimize { v with slices := v.slices ++ [x], anchors := anchors', logicalSize := ls',
                                arena := arena' } = some v2) :
    (BackrefsOk v → BackrefsOk v2) ∧
    (∀ s' ∈ v2.slices, s' ∈ v.slices ∨ s' = x ∨ ∃ l ∈ v.slices, Join s' l x) ∧
    (BackrefsOk v → ∀ br ∈ v2.backrefs, ∀ R, v2.pendingRange br.2 = some R → br ∈ v.backrefs ∧ v.pendingRange br.2 = some R) ∧
    v2.backrefs = v.backrefs ∧ v2.consumedSlices = v.consumedSlices ∧ v.slices.length ≤ v2.slices.length := by
  let v1 : Iov := { v with slices := v.slices ++ [x], anchors := anchors', logicalSize := ls', arena := arena' }
  have ho' : v1.optimize = some v2 := ho
  have h1 : v1.slices = v.slices ++ [x] := rfl
  have hcs : v1.consumedSlices = v.consumedSlices := rfl
  have hbr : v1.backrefs = v.backrefs := rfl
  have hf : v2.backrefs = v.backrefs ∧ v2.consumedSlices = v.consumedSlices := by
    rcases optimize_spec ho' with e | ⟨ss, l, r, as, a, m, _, _, _, _, e⟩ <;> rw [e] <;> exact ⟨rfl, rfl⟩
  refine ⟨fun hok => (append_optimize_backrefs hok h1 hcs hbr ho').1, append_optimize_slices h1 ho', ?_, hf.1, hf.2, ?_⟩
  · intro hok br hm R hR
    obtain ⟨_, hbr2, _, hpr⟩ := append_optimize_backrefs hok h1 hcs hbr ho'
    rw [hbr2] at hm
    exact ⟨hm, by rw [← hpr br hm]; exact hR⟩
  · exact (append_optimize_backrefs_len h1 ho')

theorem pushBorrowed_qstep {w w' : World} {i : Nat} {x : Slice} (h : w.pushBorrowed i x = some w')
    (hx : ∃ b, x.region = .ext b) (hw : ∀ v, w.iov i = some v → BackrefsOk v) : QStep w w' i := by
  obtain ⟨v, hv, ⟨_, rfl⟩ | ⟨_, v', hp, rfl⟩⟩ := pushBorrowed_spec h
  · exact QStep.refl _ _
  · obtain ⟨_, as, a, _, ho⟩ := pushBorrowedSlice_spec hp
    obtain ⟨hok, hsl, hpend, _⟩ := push_opt ho
    refine qstep_setIov hv hok ?_ (hpend (hw v hv))
    intro s' hs'
    rcases hsl s' hs' with h1 | rfl | ⟨l, hl, hj⟩
    · exact .base (Or.inl h1)
    · exact .base (Or.inr hx)
    · exact .join (.base (Or.inl hl)) (.base (Or.inr hx)) hj


theorem QStep.wf {w w' : World} {T : Nat} (h : QStep w w' T) (hw : ∀ v, w.iov T = some v → BackrefsOk v) :
    ∀ v', w'.iov T = some v' → BackrefsOk v' := by
  intro v' hv'
  obtain ⟨v, hv, hok, _⟩ := h.tgt v' hv'
  exact hok (hw v hv)

theorem extend_qstep {w w' : World} {i : Nat} {slices : List Slice} (h : w.extend i slices = some w')
    (hx : ∀ s ∈ slices, ∃ b, s.region = .ext b) (hw : ∀ v, w.iov i = some v → BackrefsOk v) : QStep w w' i := by
  induction slices generalizing w with
  | nil => simp [World.extend] at h; subst h; exact QStep.refl _ _
  | cons s rest ih =>
    unfold World.extend at h
    split at h
    · exact ih h (fun x hx' => hx x (by simp [hx'])) hw
    · split at h
      · simp at h
      · rename_i w1 hw1
        have q1 := pushBorrowed_qstep hw1 (hx s (by simp)) hw
        exact q1.trans (ih h (fun x hx' => hx x (by simp [hx'])) (q1.wf hw))

theorem consume_qstep {w w' : World} {i count k : Nat} (h : w.consume i count = some (w', k))
    (hw : ∀ v, w.iov i = some v → BackrefsOk v) : QStep w w' i := by
  obtain ⟨v, n, v', hv, _, hc, rfl⟩ := consume_spec h
  obtain ⟨hok', hbr, hpr⟩ := consumeSlices_backrefs (hw v hv) hc
  obtain ⟨_, hsub⟩ := consumeSlices_arena hc
  exact qstep_setIov hv (fun _ => hok') (fun s' hs' => .base (Or.inl (hsub s' hs')))
    (fun br hm R hR => by rw [hbr] at hm; exact ⟨hm, hpr br hm R hR⟩)

theorem advance_qstep {w w' : World} {i count c : Nat} (h : w.advance i count = some (w', c))
    (hw : ∀ v, w.iov i = some v → BackrefsOk v) : QStep w w' i := by
  unfold World.advance at h
  split at h
  · simp at h
  · rename_i v hv
    split at h
    · simp at h
    · rename_i n hn
      simp only at h
      split at h
      · simp at h
      · rename_i v' c' hc
        simp at h
        obtain ⟨rfl, _⟩ := h
        obtain ⟨hok', hbr, hpr, hsub⟩ := consumeBytes_backrefs _ v _ 0 v' c' n (hw v hv) hn
          (by simp only [Nat.sub_zero]; exact Nat.min_le_right _ _) hc
        exact qstep_setIov hv (fun _ => hok')
          (fun s' hs' => by
            obtain ⟨s, hs, hss⟩ := hsub s' hs'
            exact .sub (.base (Or.inl hs)) hss)
          (fun br hm R hR => by rw [hbr] at hm; exact ⟨hm, hpr br hm R hR⟩)

theorem readInto_qstep {w w' : World} {fuel i room : Nat} {acc out : List UInt8}
    (h : World.readInto fuel w i room acc = some (w', out)) (hw : ∀ v, w.iov i = some v → BackrefsOk v) :
    QStep w w' i := by
  induction fuel generalizing w room acc with
  | zero => simp [World.readInto] at h; rw [← h.1]; exact QStep.refl _ _
  | succ fuel ih =>
    unfold World.readInto at h
    split at h
    · simp at h; rw [← h.1]; exact QStep.refl _ _
    · split at h
      · simp at h
      · split at h
        · simp at h
        · split at h
          · simp at h; rw [← h.1]; exact QStep.refl _ _
          · simp only at h
            split at h
            · simp at h
            · rename_i w1 c1 hadv
              have q1 := advance_qstep hadv hw
              exact q1.trans (ih h (q1.wf hw))

/-- Only the arena (or nothing the invariant reads) of iovec `T` changes. -/
theorem qstep_arena {w : World} {T : Nat} {v : Iov} (hv : w.iov T = some v) (a : Arena) :
    QStep w (w.setIov T (some { v with arena := a })) T :=
  qstep_setIov hv (fun hok => ⟨hok.inRange, hok.sorted, hok.fits⟩) (fun _ hs => .base (Or.inl hs))
    (fun br hm R hR => ⟨hm, by rw [← pendingRange_congr (v := v) (v' := { v with arena := a }) rfl rfl]; exact hR⟩)

theorem backfill_qstep {w w' : World} {i : Nat} {b : Backref} {src : List UInt8} (h : w.backfill i b src = some w') :
    QStep w w' i := by
  obtain ⟨v, hv, ⟨_, _, rfl⟩ | ⟨key, info, target, k, _, _, _, _, _, _, _, rfl⟩⟩ := backfill_spec h
  · exact QStep.refl _ _
  · refine qstep_congr (w1 := w.setIov i (some { v with backrefs := v.backrefs.filter (·.1 ≠ key) }))
      (qstep_setIov hv ?_ (fun _ hs => .base (Or.inl hs)) ?_) (fun _ => rfl) (fun _ => rfl)
    · intro hok
      refine ⟨fun br hm => hok.inRange br (List.mem_filter.1 hm).1, hok.sorted.filter _, ?_⟩
      intro br hm t hidx ht
      exact hok.fits br (List.mem_filter.1 hm).1 t hidx ht
    · intro br hm R hR
      exact ⟨(List.mem_filter.1 hm).1, by
        rw [← pendingRange_congr (v := v) (v' := { v with backrefs := v.backrefs.filter (·.1 ≠ key) }) rfl rfl]; exact hR⟩

/-! ### Steps that allocate -/

/-- The slice `push_copy` allocates is fresh: it starts at or above the end of every slice of its chunk. -/
theorem copy_fresh {w : World} {caps : Nat → Nat} (hg : GReach w caps) {i : Nat} {v : Iov} (hv : w.iov i = some v)
    {len : Nat} {arena' : Arena} {next' chunk off : Nat}
    (hal : alloc w.tun v.arena w.next len = (arena', next', chunk, off)) (n : Nat) :
    w.Fresh ⟨.chunk chunk, off, n⟩ := by
  intro s0 hs0 hr
  exact alloc_above w.HasSlice hal
    (fun c hc s hs hr' => hg.inv.below (.iov i) c s (by rw [cacheAt_iov hv]; exact hc) hs hr')
    (fun s k hs hr' => hg.reachable.inv.hasSlice_lt hs hr') s0 hs0 hr

/-- The last slice after `push_copy(len)`: it ends where the new allocation ends and is at least `len` long. -/
theorem push_opt_last {v v2 : Iov} {x : Slice} {anchors' : List Anchor} {ls' : Nat} {arena' : Arena}
    (ho : Iov.optimize { v with slices := v.slices ++ [x], anchors := anchors', logicalSize := ls',
                                arena := arena' } = some v2) {last : Slice} (hl : v2.slices.getLast? = some last) :
    last.region = x.region ∧ x.len ≤ last.len ∧ last.off + last.len = x.off + x.len ∧
      v2.slices[v2.slices.length - 1]? = some last := by
  have hidx : v2.slices[v2.slices.length - 1]? = some last := by
    rw [List.getLast?_eq_getElem?] at hl; exact hl
  rcases optimize_spec ho with rfl | ⟨ss, l, r, as, a, m, hss, _, _, hj, rfl⟩
  · simp only [List.getLast?_append, List.getLast?_singleton] at hl
    simp at hl; subst hl
    exact ⟨rfl, Nat.le_refl _, rfl, hidx⟩
  · simp only at hss hl hidx
    have hr : r = x := by
      have e : ss ++ [l, r] = (ss ++ [l]) ++ [r] := by simp
      rw [e] at hss
      have := List.append_inj' hss (by simp)
      simpa using this.2.symm
    simp only [List.getLast?_append, List.getLast?_singleton] at hl
    simp at hl; subst hl
    obtain ⟨c, _, hlr, hrr, hadj, _, hm⟩ := tryJoin_spec hj
    subst hr
    exact ⟨by rw [hm]; simp [hlr, hrr], by rw [hm]; simp, by rw [hm]; simp; omega, hidx⟩

theorem pushCopy_tstep {w w' : World} {caps : Nat → Nat} {i : Nat} {src : List UInt8} (hg : GReach w caps)
    (h : w.pushCopy i src = some w') (hw : ∀ v, w.iov i = some v → BackrefsOk v) : TStep w w' i False := by
  obtain ⟨v, hv, ⟨_, rfl⟩ | ⟨hne, arena', next', chunk, off, v2, hal, ho, rfl⟩⟩ := pushCopy_spec h
  · exact (QStep.refl _ _).toTStep _
  · obtain ⟨hok, hsl, hpend, _⟩ := push_opt ho
    have hfresh := copy_fresh hg hv hal src.length
    refine ⟨fun j hj => by simp [hj], ?_, ?_⟩
    · rintro s' ⟨j, a, ha, rfl⟩
      exact Or.inl ⟨a.slice, ⟨j, a, ha, rfl⟩, Sub.refl _⟩
    · intro x hx
      simp at hx; subst hx
      refine Or.inr ⟨v, hv, hok, ?_, fun br hm k a n hR => Or.inl (hpend (hw v hv) br hm _ hR)⟩
      intro s' hs'
      rcases hsl s' hs' with h1 | rfl | ⟨l, hl, hj⟩
      · exact .base (Or.inl h1)
      · exact .base (Or.inr (Or.inr (Or.inl hfresh)))
      · exact .join (.base (Or.inl hl)) (.base (Or.inr (Or.inr (Or.inl hfresh)))) hj


theorem register_tstep {w w' : World} {caps : Nat → Nat} {i : Nat} {pat : List UInt8} {b : Backref} (hg : GReach w caps)
    (h : w.registerPatch i pat = some (w', b)) (hw : ∀ v, w.iov i = some v → BackrefsOk v) : TStep w w' i False := by
  rcases registerPatch_spec h with ⟨_, rfl, _⟩ | ⟨hne, w1, v2, last, hpc, hv2, hlast, _, _, _, rfl⟩
  · exact (QStep.refl _ _).toTStep _
  · obtain ⟨v, hv, ⟨he, _⟩ | ⟨_, arena', next', chunk, off, v2', hal, ho, rfl⟩⟩ := pushCopy_spec hpc
    · exact absurd he hne
    · simp at hv2; subst hv2
      obtain ⟨hok, hsl, hpend, hbr, hcs, hlen⟩ := push_opt ho
      obtain ⟨hlreg, hllen, hlend, hlidx⟩ := push_opt_last ho hlast
      simp only at hlreg hllen hlend
      have hfresh := copy_fresh hg hv hal pat.length
      have hokv := hw v hv
      have hok2 := hok hokv
      have hlen2 : 1 ≤ v2'.slices.length := by
        cases hs : v2'.slices with
        | nil => rw [hs] at hlast; simp at hlast
        | cons _ _ => simp
      refine ⟨fun j hj => by simp [hj], ?_, ?_⟩
      · rintro s' ⟨j, a, ha, rfl⟩
        exact Or.inl ⟨a.slice, ⟨j, a, by simpa using ha, rfl⟩, Sub.refl _⟩
      · intro x hx
        simp at hx; subst hx
        refine Or.inr ⟨v, hv, fun _ => ?_, ?_, ?_⟩
        · -- (W) for the value with the new backref
          refine ⟨?_, ?_, ?_⟩
          · intro br hm
            simp only [List.mem_append, List.mem_singleton] at hm
            rcases hm with hm | rfl
            · exact hok2.inRange br hm
            · simp only; omega
          · simp only
            rw [List.pairwise_append]
            refine ⟨hok2.sorted, by simp, ?_⟩
            intro a ha b hb
            simp at hb; subst hb
            have := hokv.inRange a (hbr ▸ ha)
            simp only; omega
          · intro br hm t hidx ht
            simp only [List.mem_append, List.mem_singleton] at hm
            rcases hm with hm | rfl
            · exact hok2.fits br hm t hidx ht
            · simp only at hidx ht ⊢
              have e : v2'.consumedSlices + v2'.slices.length - 1 - v2'.consumedSlices = v2'.slices.length - 1 := by omega
              rw [e, hlidx] at ht; cases ht
              exact ⟨by omega, chunk, hlreg⟩
        · intro s' hs'
          rcases hsl s' hs' with h1 | rfl | ⟨l, hl, hj⟩
          · exact .base (Or.inl h1)
          · exact .base (Or.inr (Or.inr (Or.inl hfresh)))
          · exact .join (.base (Or.inl hl)) (.base (Or.inr (Or.inr (Or.inl hfresh)))) hj
        · intro br hm k a n hR
          simp only [List.mem_append, List.mem_singleton] at hm
          have hcongr : ∀ info, Iov.pendingRange { v2' with backrefs := v2'.backrefs ++
              [(v2'.logicalSize, ⟨v2'.consumedSlices + v2'.slices.length - 1, last.len - pat.length, pat.length⟩)] } info =
              v2'.pendingRange info := fun info => pendingRange_congr rfl rfl info
          rw [hcongr] at hR
          rcases hm with hm | rfl
          · exact Or.inl (hpend hokv br hm _ hR)
          · right
            refine ⟨not_false, ?_⟩
            -- the new placeholder is the tail of the fresh allocation
            obtain ⟨t, _, htr, _, _, _, _, htl, ha⟩ := pendingRange_target hR
            simp only at htl ha
            have e : v2'.consumedSlices + v2'.slices.length - 1 - v2'.consumedSlices = v2'.slices.length - 1 := by omega
            rw [e, hlidx] at htl; cases htl
            intro s0 hs0 hr0
            have hk : k = chunk := by rw [hlreg] at htr; simpa using htr.symm
            subst hk
            have := hfresh s0 hs0 hr0
            simp only at this hlend
            omega


/-- Nothing changes for the iovecs; detached slices are narrowed / dropped / copied / (if `A`) fresh. -/
theorem tstep_same_iovs {w w' : World} (T : Nat) {A : Prop} (hi : ∀ j, w'.iov j = w.iov j)
    (ha : ∀ s', w'.ASl s' → (∃ s, w.ASl s ∧ Sub s' s) ∨ (A ∧ w.Fresh s') ∨ ∃ b, s'.region = .ext b) : TStep w w' T A :=
  ⟨fun j _ => hi j, ha, fun v' hv' => Or.inr ⟨v', by rw [← hi]; exact hv', id,
    fun _ hs => .base (Or.inl hs), fun _ hm _ _ _ hR => Or.inl ⟨hm, hR⟩⟩⟩

/-- Iovec `T` becomes (or is created as) a value with no pending backref and no owned slice. -/
theorem tstep_plain {w w' : World} {T : Nat} {A : Prop} (ho : ∀ j, j ≠ T → w'.iov j = w.iov j)
    (ha : ∀ j, w'.aslice j = w.aslice j)
    (hp : ∀ v', w'.iov T = some v' → v'.backrefs = [] ∧ ∀ s' ∈ v'.slices, ∃ b, s'.region = .ext b) : TStep w w' T A :=
  ⟨ho, fun s' ⟨j, a, hj, he⟩ => Or.inl ⟨s', ⟨j, a, by rw [← ha]; exact hj, he⟩, Sub.refl _⟩, fun v' hv' => Or.inl (hp v' hv')⟩

theorem asl_setASlice {w : World} {j : Nat} {x : Option ASlice} {s' : Slice} (h : (w.setASlice j x).ASl s') :
    (∃ a, x = some a ∧ a.slice = s') ∨ w.ASl s' := by
  obtain ⟨j', a, hj, he⟩ := h
  simp only [aslice_setASlice] at hj
  split at hj
  · exact Or.inl ⟨a, hj, he⟩
  · exact Or.inr ⟨j', a, hj, he⟩

theorem asl_addASlice {w : World} {a : ASlice} {s' : Slice} (h : (w.addASlice a).1.ASl s') :
    a.slice = s' ∨ w.ASl s' := by
  obtain ⟨j', a', hj, he⟩ := h
  simp only [aslice_addASlice] at hj
  split at hj
  · simp at hj; subst hj; exact Or.inl he
  · exact Or.inr ⟨j', a', hj, he⟩

/-- The Iov-level core of a copying push performed on iovec `i` of (a world that agrees with) `w`. -/
theorem copy_core {w : World} {caps : Nat → Nat} (hg : GReach w caps) {i : Nat} {v v2 : Iov} (hv : w.iov i = some v)
    {len : Nat} {arena' : Arena} {next' chunk off ls' : Nat} {anchors' : List Anchor}
    (hal : alloc w.tun v.arena w.next len = (arena', next', chunk, off))
    (ho : Iov.optimize { v with slices := v.slices ++ [⟨.chunk chunk, off, len⟩], anchors := anchors',
                                logicalSize := ls', arena := arena' } = some v2) (hokv : BackrefsOk v) :
    BackrefsOk v2 ∧
    (∀ s' ∈ v2.slices, Desc (fun s => s ∈ v.slices ∨ w.ASl s ∨ w.Fresh s ∨ ∃ b, s.region = .ext b) s') ∧
    (∀ br ∈ v2.backrefs, ∀ R, v2.pendingRange br.2 = some R → br ∈ v.backrefs ∧ v.pendingRange br.2 = some R) := by
  obtain ⟨hok, hsl, hpend, _⟩ := push_opt ho
  have hfresh := copy_fresh hg hv hal len
  refine ⟨hok hokv, ?_, hpend hokv⟩
  intro s' hs'
  rcases hsl s' hs' with h1 | rfl | ⟨l, hl, hj⟩
  · exact .base (Or.inl h1)
  · exact .base (Or.inr (Or.inr (Or.inl hfresh)))
  · exact .join (.base (Or.inl hl)) (.base (Or.inr (Or.inr (Or.inl hfresh)))) hj

theorem pushASlice_tstep {w w' : World} {caps : Nat → Nat} {i si : Nat} (hg : GReach w caps)
    (h : w.step (.pushASlice i si) = some w') (hw : ∀ v, w.iov i = some v → BackrefsOk v) : TStep w w' i False := by
  simp only [World.step] at h
  split at h
  · rename_i a ha
    have hsub : ∀ s', (w.setASlice si none).ASl s' → ∃ s, w.ASl s ∧ Sub s' s := by
      intro s' hs'
      rcases asl_setASlice hs' with ⟨x, hx, _⟩ | h0
      · cases hx
      · exact ⟨s', h0, Sub.refl _⟩
    split at h
    · simp at h; subst h
      exact tstep_same_iovs i (fun _ => rfl) (fun s' hs' => Or.inl (hsub s' hs'))
    · split at h
      · rename_i w1 hpush
        unfold World.pushAnchor at h
        split at h
        · simp at h
        · rename_i v1 hv1
          simp at h; subst h
          rcases push_cases hpush with hp | hp
          · obtain ⟨v, hv, ⟨he, rfl⟩ | ⟨_, arena', next', chunk, off, v2, hal, ho, rfl⟩⟩ := pushCopy_spec hp
            · -- empty copy: nothing pushed
              have hv' : w.iov i = some v := by simpa using hv
              simp at hv1; rw [hv'] at hv1; cases hv1
              refine ⟨fun j hj => by simp [hj], fun s' ⟨j, x, hj, hx⟩ => Or.inl (hsub s' ⟨j, x, by simpa using hj, hx⟩), ?_⟩
              intro x hx; simp at hx; subst hx
              exact Or.inr ⟨v1, hv', fun hok => ⟨hok.inRange, hok.sorted, hok.fits⟩, fun _ hs => .base (Or.inl hs),
                fun br hm k a' n hR => Or.inl ⟨hm, by
                  rw [← pendingRange_congr (v := v1) (v' := { v1 with anchors := v1.anchors ++ [⟨0, a.anchor.chunk⟩] }) rfl rfl]
                  exact hR⟩⟩
            · have hv' : w.iov i = some v := by simpa using hv
              simp at hv1; subst hv1
              obtain ⟨hok2, hd, hp2⟩ := copy_core hg hv' hal ho (hw v hv')
              refine ⟨fun j hj => by simp [hj], fun s' ⟨j, x, hj, hx⟩ => Or.inl (hsub s' ⟨j, x, by simpa using hj, hx⟩), ?_⟩
              intro x hx; simp at hx; subst hx
              exact Or.inr ⟨v, hv', fun _ => ⟨hok2.inRange, hok2.sorted, hok2.fits⟩, hd,
                fun br hm k a' n hR => Or.inl (hp2 br hm _ (by
                  rw [← pendingRange_congr (v := v2) (v' := { v2 with anchors := v2.anchors ++ [⟨0, a.anchor.chunk⟩] }) rfl rfl]
                  exact hR))⟩
          · obtain ⟨v, hv, ⟨h0, _⟩ | ⟨_, v', hpb, rfl⟩⟩ := pushBorrowed_spec hp
            · omega
            · have hv' : w.iov i = some v := by simpa using hv
              simp at hv1; subst hv1
              obtain ⟨_, as, a0, _, ho⟩ := pushBorrowedSlice_spec hpb
              obtain ⟨hok, hsl, hpend, _⟩ := push_opt ho
              have hokv := hw v hv'
              have hok2 := hok hokv
              refine ⟨fun j hj => by simp [hj], fun s' ⟨j, x, hj, hx⟩ => Or.inl (hsub s' ⟨j, x, by simpa using hj, hx⟩), ?_⟩
              intro x hx; simp at hx; subst hx
              have hbase : w.ASl a.slice := ⟨si, a, ha, rfl⟩
              refine Or.inr ⟨v, hv', fun _ => ⟨hok2.inRange, hok2.sorted, hok2.fits⟩, ?_,
                fun br hm k a' n hR => Or.inl (hpend hokv br hm _ (by
                  rw [← pendingRange_congr (v := v') (v' := { v' with anchors := v'.anchors ++ [⟨0, a.anchor.chunk⟩] }) rfl rfl]
                  exact hR))⟩
              intro s' hs'
              rcases hsl s' hs' with h1 | rfl | ⟨l, hl, hj⟩
              · exact .base (Or.inl h1)
              · exact .base (Or.inr (Or.inl hbase))
              · exact .join (.base (Or.inl hl)) (.base (Or.inr (Or.inl hbase))) hj
      · simp at h
  · simp at h

/-- The slice `read_n` returns is fresh. -/
theorem readN_fresh {w w1 : World} {caps : Nat → Nat} (hg : GReach w caps) {X : Holder} {a ar' : Arena}
    {r : ReadN.Reader} {count attempts : Nat} {res : Except Nat ASlice} {o : ReadN.Out}
    (hXa : w.cacheAt X = a.cache) (h : w.readN a r count attempts = (w1, ar', res, o)) :
    ∀ x, res = .ok x → (∃ b, x.slice.region = .ext b) ∨ w.Fresh x.slice := by
  intro x hx
  unfold World.readN at h
  split at h
  · simp only [Prod.mk.injEq] at h
    obtain ⟨_, _, rfl, _⟩ := h
    simp at hx; subst hx; exact Or.inl ⟨0, rfl⟩
  · rcases hal : alloc w.tun a w.next count with ⟨a1, next1, chunk, off⟩
    simp only [hal] at h
    cases hres : (ReadN.readNCore r count attempts).res with
    | ok got =>
      simp only [hres, Prod.mk.injEq] at h
      obtain ⟨_, _, rfl, _⟩ := h
      simp at hx; subst hx
      right
      intro s0 hs0 hr
      exact alloc_above w.HasSlice hal
        (fun c hc s hs hr' => hg.inv.below X c s (by rw [hXa]; exact hc) hs hr')
        (fun s k hs hr' => hg.reachable.inv.hasSlice_lt hs hr') s0 hs0 hr
    | err k =>
      simp only [hres, Prod.mk.injEq] at h
      obtain ⟨_, _, rfl, _⟩ := h
      cases hx

theorem splitAt_sub (a : ASlice) (k : Nat) :
    ((∃ b, (a.splitAt k).1.slice.region = .ext b) ∨ Sub (a.splitAt k).1.slice a.slice) ∧
    ((∃ b, (a.splitAt k).2.slice.region = .ext b) ∨ Sub (a.splitAt k).2.slice a.slice) := by
  unfold ASlice.splitAt
  split
  · exact ⟨Or.inr (Sub.refl _), Or.inl ⟨0, rfl⟩⟩
  · exact ⟨Or.inr ⟨rfl, Nat.le_refl _, by simp only; omega⟩, Or.inr ⟨rfl, by simp only; omega, by simp only; omega⟩⟩


/-- The premise of C20: `clone` is only applied to an iovec with no placeholder pending. -/
def CloneOk (w : World) (op : WOp) : Prop := ∀ i v, op = .clone i → w.iov i = some v → v.backrefs = []

theorem asl_same {w w' : World} (ha : ∀ j, w'.aslice j = w.aslice j) {A : Prop} :
    ∀ s', w'.ASl s' → (∃ s, w.ASl s ∧ Sub s' s) ∨ (A ∧ w.Fresh s') ∨ ∃ b, s'.region = .ext b :=
  fun s' ⟨j, a, hj, he⟩ => Or.inl ⟨s', ⟨j, a, by rw [← ha]; exact hj, he⟩, Sub.refl _⟩

theorem PrivInv.step {w w' : World} {caps : Nat → Nat} {op : WOp} (hg : GReach w caps) (hp : PrivInv w)
    (hc : CloneOk w op) (h : w.step op = some w') : PrivInv w' := by
  have hwf := hp.wf
  cases op with
  | new =>
    simp [World.step] at h; subst h
    refine TStep.inv hp (T := w.iovs.length) (A := False) (tstep_plain (fun j hj => by simp [hj]) (fun _ => rfl) ?_)
    intro v' hv'; simp at hv'; subst hv'; simp [Iov.empty]
  | newArena =>
    simp [World.step] at h; subst h
    exact TStep.inv hp (T := 0) (A := False) (tstep_same_iovs 0 (fun _ => rfl) (asl_same (fun _ => rfl)))
  | newFromArena a =>
    simp only [World.step] at h
    split at h
    · simp at h; subst h
      have hlen : (w.setArena a none).iovs.length = w.iovs.length := rfl
      refine TStep.inv hp (T := w.iovs.length) (A := False) (tstep_plain (fun j hj => by simp [hj, hlen]) (fun _ => rfl) ?_)
      intro v' hv'; simp [hlen] at hv'; subst hv'; simp [Iov.empty]
    · simp at h
  | newFromSlices bufs =>
    simp only [World.step] at h
    obtain ⟨h1, h2⟩ := addExts_spec w bufs
    simp at h; subst h
    have hlen : (w.addExts bufs).1.iovs.length = w.iovs.length := by rw [h1]
    have hiov : ∀ j, (w.addExts bufs).1.iov j = w.iov j := by intro j; rw [h1]; rfl
    unfold World.newFromSlices
    refine TStep.inv hp (T := w.iovs.length) (A := False) (tstep_plain ?_ ?_ ?_)
    · intro j hj; rw [iov_addIov, hlen, if_neg hj, hiov]
    · intro j; rw [aslice_addIov, h1]; rfl
    · intro v' hv'
      rw [iov_addIov, hlen, if_pos rfl] at hv'
      simp at hv'; subst hv'
      refine ⟨rfl, ?_⟩
      intro s' hs'
      simp only at hs'
      exact (h2 s' (List.mem_filter.1 hs').1).1
  | push i bs =>
    simp only [World.step, World.addExt] at h
    have hi : ∀ j, ({ w with exts := w.exts ++ [bs] } : World).iov j = w.iov j := fun _ => rfl
    rcases push_cases h with h | h
    · have hg' : GReach w caps := hg
      obtain ⟨v, hv, ⟨_, e⟩ | ⟨_, arena', next', chunk, off, v2, hal, ho, rfl⟩⟩ := pushCopy_spec h
      · subst e; exact ⟨hp.wf, hp.priv⟩
      · have hv' : w.iov i = some v := hv
        obtain ⟨hok2, hd, hp2⟩ := copy_core hg hv' hal ho (hwf i v hv')
        refine TStep.inv hp (T := i) (A := False) ⟨fun j hj => by simp [hj], asl_same (w := w) (fun _ => rfl), ?_⟩
        intro x hx; simp at hx; subst hx
        exact Or.inr ⟨v, hv', fun _ => hok2, hd, fun br hm k a n hR => Or.inl (hp2 br hm _ hR)⟩
    · have q := pushBorrowed_qstep h ⟨_, rfl⟩ (fun v hv => hwf i v hv)
      exact TStep.inv hp (T := i) (A := False) ((qstep_congr_left (w := w) q hi (fun _ => rfl)).toTStep False)
  | pushBorrowed i bs =>
    simp only [World.step, World.addExt] at h
    have hi : ∀ j, ({ w with exts := w.exts ++ [bs] } : World).iov j = w.iov j := fun _ => rfl
    have q := pushBorrowed_qstep h ⟨_, rfl⟩ (fun v hv => hwf i v hv)
    exact TStep.inv hp (T := i) (A := False) ((qstep_congr_left (w := w) q hi (fun _ => rfl)).toTStep False)
  | pushCopy i bs => exact (pushCopy_tstep hg h (hwf i)).inv hp
  | register i pat =>
    simp only [World.step] at h
    split at h
    · rename_i w1 b hr
      simp at h; subst h
      have t := register_tstep hg hr (hwf i)
      exact TStep.inv hp (T := i) (A := False) ⟨t.others, t.asl, t.tgt⟩
    · simp at h
  | extend i bufs =>
    simp only [World.step] at h
    obtain ⟨h1, h2⟩ := addExts_spec w bufs
    rw [h1] at h
    have q := extend_qstep h (fun s hs => (h2 s hs).1) (fun v hv => hwf i v hv)
    exact TStep.inv hp (T := i) (A := False) ((qstep_congr_left (w := w) q (fun _ => rfl) (fun _ => rfl)).toTStep False)
  | consume i k =>
    simp only [World.step] at h
    split at h
    · rename_i w1 c hc'; simp at h; subst h
      exact ((consume_qstep hc' (hwf i)).toTStep False).inv hp
    · simp at h
  | advance i k =>
    simp only [World.step] at h
    split at h
    · rename_i w1 c hc'; simp at h; subst h
      exact ((advance_qstep hc' (hwf i)).toTStep False).inv hp
    · simp at h
  | read i k =>
    simp only [World.step] at h
    split at h
    · rename_i w1 c hc'; simp at h; subst h
      exact ((readInto_qstep hc' (hwf i)).toTStep False).inv hp
    · simp at h
  | reserve i k =>
    simp only [World.step] at h
    split at h
    · rename_i v hv
      simp at h; subst h
      refine TStep.inv hp (T := i) (A := False) (QStep.toTStep ?_ False)
      exact qstep_congr (qstep_arena hv _) (fun _ => rfl) (fun _ => rfl)
    · simp at h
  | pushASlice i si => exact (pushASlice_tstep hg h (hwf i)).inv hp
  | swapArena i ai =>
    simp only [World.step] at h
    split at h
    · rename_i v ar hv har
      simp at h; subst h
      refine TStep.inv hp (T := i) (A := False) (QStep.toTStep ?_ False)
      exact qstep_congr (qstep_arena hv ar) (fun _ => rfl) (fun _ => rfl)
    · simp at h
  | aReserve ai k =>
    simp only [World.step] at h
    split at h
    · simp at h; subst h
      exact TStep.inv hp (T := 0) (A := False) (tstep_same_iovs 0 (fun _ => rfl) (asl_same (fun _ => rfl)))
    · simp at h
  | sSkip si k =>
    simp only [World.step] at h
    split at h
    · rename_i a ha
      simp at h; subst h
      refine TStep.inv hp (T := 0) (A := False) (tstep_same_iovs 0 (fun _ => rfl) ?_)
      intro s' hs'
      rcases asl_setASlice hs' with ⟨x, hx, rfl⟩ | h0
      · cases hx
        exact Or.inl ⟨a.slice, ⟨si, a, ha, rfl⟩, rfl, by simp [ASlice.skipPrefix], by simp [ASlice.skipPrefix]; omega⟩
      · exact Or.inl ⟨s', h0, Sub.refl _⟩
    · simp at h
  | sDropSuf si k =>
    simp only [World.step] at h
    split at h
    · rename_i a ha
      simp at h; subst h
      refine TStep.inv hp (T := 0) (A := False) (tstep_same_iovs 0 (fun _ => rfl) ?_)
      intro s' hs'
      rcases asl_setASlice hs' with ⟨x, hx, rfl⟩ | h0
      · cases hx
        exact Or.inl ⟨a.slice, ⟨si, a, ha, rfl⟩, rfl, by simp [ASlice.dropSuffix], by simp [ASlice.dropSuffix]⟩
      · exact Or.inl ⟨s', h0, Sub.refl _⟩
    · simp at h
  | sSplit si k =>
    simp only [World.step] at h
    split at h
    · rename_i a ha
      simp at h; subst h
      refine TStep.inv hp (T := 0) (A := False) (tstep_same_iovs 0 (fun _ => rfl) ?_)
      intro s' hs'
      obtain ⟨hl, hr⟩ := splitAt_sub a k
      rcases asl_addASlice hs' with rfl | h0
      · rcases hr with hb | hs
        · exact Or.inr (Or.inr hb)
        · exact Or.inl ⟨a.slice, ⟨si, a, ha, rfl⟩, hs⟩
      · rcases asl_addASlice h0 with rfl | h1
        · rcases hl with hb | hs
          · exact Or.inr (Or.inr hb)
          · exact Or.inl ⟨a.slice, ⟨si, a, ha, rfl⟩, hs⟩
        · rcases asl_setASlice h1 with ⟨x, hx, _⟩ | h2
          · cases hx
          · exact Or.inl ⟨s', h2, Sub.refl _⟩
    · simp at h
  | backfill i bi bs =>
    simp only [World.step] at h
    split at h
    · exact ((backfill_qstep h).toTStep False).inv hp
    · simp at h
  | pop i =>
    simp only [World.step] at h
    split at h
    · rename_i w1 hc'; simp at h; subst h
      exact ((consume_qstep hc' (hwf i)).toTStep False).inv hp
    · simp at h
  | clear i =>
    simp only [World.step, World.clear] at h
    split at h
    · simp at h
    · simp at h; subst h
      refine TStep.inv hp (T := i) (A := False) (tstep_plain (fun j hj => by simp [hj]) (fun _ => rfl) ?_)
      intro v' hv'; simp at hv'; subst hv'; simp [Iov.empty]
  | take i =>
    simp only [World.step, World.take] at h
    split at h
    · rename_i w1 j' ht
      split at ht
      · simp at ht
      · rename_i v hv
        simp at ht h
        subst h
        rw [← ht.1]
        have hlen : (w.setIov i (some Iov.empty)).iovs.length = w.iovs.length := by
          have hi := iov_lt_of_some hv
          simp [World.setIov, listSet, hi]
        have hin : i ≠ w.iovs.length := Nat.ne_of_lt (iov_lt_of_some hv)
        have hiov : ∀ j, ((w.setIov i (some Iov.empty)).addIov v).1.iov j =
            if j = w.iovs.length then some v else if j = i then some Iov.empty else w.iov j := by
          intro j; rw [iov_addIov, hlen, iov_setIov]
        have hnone : w.iov w.iovs.length = none := iov_none_of_ge _ _ (Nat.le_refl _)
        refine ⟨?_, ?_⟩
        · intro j x hx
          rw [hiov] at hx
          split at hx
          · cases hx; exact hwf i v hv
          · split at hx
            · cases hx; exact ⟨by simp [Iov.empty], by simp [Iov.empty], by simp [Iov.empty]⟩
            · exact hwf j x hx
        · intro X x key info k a n hx hm hpr s' hs' hr
          -- every other slice of the new world is a slice of the old world held by an object other than
          -- the origin of `X`
          have other : ∀ X0, (X = w.iovs.length → X0 = i) → (X ≠ w.iovs.length → X0 = X) → X ≠ i → w.OtherSlice X0 s' := by
            intro X0 h1 h2 hXi
            rcases hs' with ⟨Y, vY, hY, hvY, hmem⟩ | ⟨j, as, hj, he⟩
            · rw [hiov] at hvY
              split at hvY
              · rename_i hYn
                cases hvY
                have hXn : X ≠ w.iovs.length := by rw [← hYn]; exact fun e => hY e.symm
                exact Or.inl ⟨i, v, by rw [h2 hXn]; exact fun e => hXi e.symm, hv, hmem⟩
              · split at hvY
                · cases hvY; simp [Iov.empty] at hmem
                · rename_i hYn hYi
                  refine Or.inl ⟨Y, vY, ?_, hvY, hmem⟩
                  by_cases hXn : X = w.iovs.length
                  · rw [h1 hXn]; exact hYi
                  · rw [h2 hXn]; exact hY
            · exact Or.inr ⟨j, as, hj, he⟩
          rw [hiov] at hx
          split at hx
          · rename_i hXn
            cases hx
            exact hp.priv i v key info k a n hv hm hpr s' (other i (fun _ => rfl) (fun h => absurd hXn h) (by rw [hXn]; exact hin.symm)) hr
          · split at hx
            · cases hx; simp [Iov.empty] at hm
            · rename_i hXn hXi
              exact hp.priv X x key info k a n hx hm hpr s' (other X (fun h => absurd h hXn) (fun _ => rfl) hXi) hr
    · simp at h
  | clone i =>
    simp only [World.step, World.clone] at h
    split at h
    · rename_i w1 j' ht
      split at ht
      · simp at ht
      · rename_i v hv
        simp only [Option.some.injEq] at ht
        simp at h; subst h
        have e : w1 = (w.addIov { v with arena := ⟨none⟩ }).1 := by rw [ht]
        rw [e]
        have hb0 : v.backrefs = [] := hc i v rfl hv
        have hin : i ≠ w.iovs.length := Nat.ne_of_lt (iov_lt_of_some hv)
        refine ⟨?_, ?_⟩
        · intro j x hx
          rw [iov_addIov] at hx
          split at hx
          · cases hx
            have := hwf i v hv
            exact ⟨this.inRange, this.sorted, this.fits⟩
          · exact hwf j x hx
        · intro X x key info k a n hx hm hpr s' hs' hr
          rw [iov_addIov] at hx
          split at hx
          · cases hx; simp [hb0] at hm
          · rename_i hXn
            by_cases hXi : X = i
            · subst hXi; rw [hv] at hx; cases hx; rw [hb0] at hm; simp at hm
            · refine hp.priv X x key info k a n hx hm hpr s' ?_ hr
              rcases hs' with ⟨Y, vY, hY, hvY, hmem⟩ | ⟨j, as, hj, he⟩
              · rw [iov_addIov] at hvY
                split at hvY
                · cases hvY
                  exact Or.inl ⟨i, v, fun e => hXi e.symm, hv, hmem⟩
                · exact Or.inl ⟨Y, vY, hY, hvY, hmem⟩
              · exact Or.inr ⟨j, as, hj, he⟩
    · simp at h
  | drop i =>
    simp only [World.step, World.dropIov] at h
    split at h
    · simp at h
    · simp at h; subst h
      refine TStep.inv hp (T := i) (A := False) (tstep_plain (fun j hj => by simp [hj]) (fun _ => rfl) ?_)
      intro v' hv'; simp at hv'
  | flush i =>
    simp only [World.step] at h
    split at h
    · rename_i v hv
      simp at h; subst h
      exact ((qstep_arena hv _).toTStep False).inv hp
    · simp at h
  | takeArena i =>
    simp only [World.step] at h
    split at h
    · rename_i v hv
      simp at h; subst h
      refine TStep.inv hp (T := i) (A := False) (QStep.toTStep ?_ False)
      exact qstep_congr (qstep_arena hv ⟨none⟩) (fun _ => rfl) (fun _ => rfl)
    · simp at h
  | aFlush ai =>
    simp only [World.step] at h
    split at h
    · simp at h; subst h
      exact TStep.inv hp (T := 0) (A := False) (tstep_same_iovs 0 (fun _ => rfl) (asl_same (fun _ => rfl)))
    · simp at h
  | dropArena ai =>
    simp only [World.step] at h
    split at h
    · simp at h; subst h
      exact TStep.inv hp (T := 0) (A := False) (tstep_same_iovs 0 (fun _ => rfl) (asl_same (fun _ => rfl)))
    · simp at h
  | sTake si =>
    simp only [World.step] at h
    split at h
    · rename_i a ha
      simp at h; subst h
      refine TStep.inv hp (T := 0) (A := False) (tstep_same_iovs 0 (fun _ => rfl) ?_)
      intro s' hs'
      rcases asl_addASlice hs' with rfl | h0
      · exact Or.inl ⟨a.slice, ⟨si, a, ha, rfl⟩, Sub.refl _⟩
      · rcases asl_setASlice h0 with ⟨x, hx, rfl⟩ | h1
        · cases hx; exact Or.inr (Or.inr ⟨0, rfl⟩)
        · exact Or.inl ⟨s', h1, Sub.refl _⟩
    · simp at h
  | sClone si =>
    simp only [World.step] at h
    split at h
    · rename_i a ha
      simp at h; subst h
      refine TStep.inv hp (T := 0) (A := False) (tstep_same_iovs 0 (fun _ => rfl) ?_)
      intro s' hs'
      rcases asl_addASlice hs' with rfl | h0
      · exact Or.inl ⟨a.slice, ⟨si, a, ha, rfl⟩, Sub.refl _⟩
      · exact Or.inl ⟨s', h0, Sub.refl _⟩
    · simp at h
  | sDrop si =>
    simp only [World.step] at h
    split at h
    · simp at h; subst h
      refine TStep.inv hp (T := 0) (A := False) (tstep_same_iovs 0 (fun _ => rfl) ?_)
      intro s' hs'
      rcases asl_setASlice hs' with ⟨x, hx, _⟩ | h0
      · cases hx
      · exact Or.inl ⟨s', h0, Sub.refl _⟩
    · simp at h
  | readNIov i count attempts src script =>
    simp only [World.step, World.readNIov] at h
    split at h
    · simp at h
    · rename_i v hv
      rcases hr : w.readN v.arena ⟨src, script⟩ count attempts with ⟨w1, ar', res, o⟩
      simp only [hr] at h
      have hfresh := readN_fresh hg (X := .iov i) (cacheAt_iov hv) hr
      obtain ⟨hp', nx, rfl⟩ := readN_world hr
      have hiov : ({ w with heap := hp', next := nx } : World).iov i = some v := hv
      simp only [hiov] at h
      have htgt : ∀ x, some { v with arena := ar' } = some x →
          (x.backrefs = [] ∧ ∀ s' ∈ x.slices, ∃ b, s'.region = .ext b) ∨
          (∃ v0, w.iov i = some v0 ∧ (BackrefsOk v0 → BackrefsOk x) ∧
            (∀ s' ∈ x.slices, Desc (fun s => s ∈ v0.slices ∨ w.ASl s ∨ w.Fresh s ∨ ∃ b, s.region = .ext b) s') ∧
            (∀ br ∈ x.backrefs, ∀ k a n, x.pendingRange br.2 = some (k, a, n) →
              (br ∈ v0.backrefs ∧ v0.pendingRange br.2 = some (k, a, n)) ∨
              (¬ True ∧ ∀ s0, w.HasSlice s0 → s0.region = .chunk k → s0.off + s0.len ≤ a))) := by
        intro x hx; cases hx
        exact Or.inr ⟨v, hv, fun hok => ⟨hok.inRange, hok.sorted, hok.fits⟩, fun _ hs => .base (Or.inl hs),
          fun br hm k a n hR => Or.inl ⟨hm, by
            rw [← pendingRange_congr (v := v) (v' := { v with arena := ar' }) rfl rfl]; exact hR⟩⟩
      cases res with
      | ok a =>
        simp at h; subst h
        refine TStep.inv hp (T := i) (A := True) ⟨fun j hj => by simp [hj], ?_, fun x hx => htgt x (by simpa using hx)⟩
        intro s' hs'
        rcases asl_addASlice hs' with rfl | ⟨j, x, hj, hx⟩
        · rcases hfresh a rfl with hb | hf
          · exact Or.inr (Or.inr hb)
          · exact Or.inr (Or.inl ⟨trivial, hf⟩)
        · exact Or.inl ⟨s', ⟨j, x, by simpa using hj, hx⟩, Sub.refl _⟩
      | error k =>
        simp at h; subst h
        exact TStep.inv hp (T := i) (A := True) ⟨fun j hj => by simp [hj],
          fun s' ⟨j, x, hj, hx⟩ => Or.inl ⟨s', ⟨j, x, by simpa using hj, hx⟩, Sub.refl _⟩,
          fun x hx => htgt x (by simpa using hx)⟩
  | readNArena a count attempts src script =>
    simp only [World.step, World.readNArena] at h
    split at h
    · simp at h
    · rename_i ar har
      rcases hr : w.readN ar ⟨src, script⟩ count attempts with ⟨w1, ar', res, o⟩
      simp only [hr] at h
      have hfresh := readN_fresh hg (X := .arena a) (by simp [World.cacheAt, har]) hr
      obtain ⟨hp', nx, rfl⟩ := readN_world hr
      cases res with
      | ok x =>
        simp at h; subst h
        refine TStep.inv hp (T := 0) (A := True) (tstep_same_iovs 0 (fun _ => rfl) ?_)
        intro s' hs'
        rcases asl_addASlice hs' with rfl | ⟨j, y, hj, hy⟩
        · rcases hfresh x rfl with hb | hf
          · exact Or.inr (Or.inr hb)
          · exact Or.inr (Or.inl ⟨trivial, hf⟩)
        · exact Or.inl ⟨s', ⟨j, y, hj, hy⟩, Sub.refl _⟩
      | error k =>
        simp at h; subst h
        exact TStep.inv hp (T := 0) (A := True) (tstep_same_iovs 0 (fun _ => rfl)
          (fun s' ⟨j, y, hj, hy⟩ => Or.inl ⟨s', ⟨j, y, hj, hy⟩, Sub.refl _⟩))
  | lend bs =>
    simp [World.step, World.addExt] at h; subst h
    exact TStep.inv hp (T := 0) (A := False) (tstep_same_iovs 0 (fun _ => rfl) (asl_same (fun _ => rfl)))
  | pushAt i b off len =>
    simp only [World.step] at h
    split at h
    · rcases push_cases h with h | h
      · exact (pushCopy_tstep hg h (hwf i)).inv hp
      · have q := pushBorrowed_qstep h ⟨_, rfl⟩ (fun v hv => hwf i v hv)
        exact TStep.inv hp (T := i) (A := False) (q.toTStep False)
    · simp at h
  | pushBorrowedAt i b off len =>
    simp only [World.step] at h
    split at h
    · have q := pushBorrowed_qstep h ⟨_, rfl⟩ (fun v hv => hwf i v hv)
      exact TStep.inv hp (T := i) (A := False) (q.toTStep False)
    · simp at h

/-! ### Histories that clone only iovecs with no placeholder pending -/

/-- `GReach` restricted to histories in which every `clone i` finds iovec `i` with no pending backref
(the premise of C20). -/
inductive CReach : World → (Nat → Nat) → Prop
  | init (pol : Policy) (tun : Tuning) : CReach (World.init pol tun) (fun _ => 0)
  | step {w w' : World} {caps caps' : Nat → Nat} {op : WOp} : CReach w caps → CloneOk w op → w.step op = some w' →
      (∀ k, k < w.next → caps' k = caps k) → (∀ h c, w'.cacheAt h = some c → caps' c.chunk = c.cap) →
      CReach w' caps'

theorem CReach.greach {w : World} {caps : Nat → Nat} (h : CReach w caps) : GReach w caps := by
  induction h with
  | init pol tun => exact GReach.init pol tun
  | @step w w' caps caps' op _ _ hs hold hnew ih => exact ih.step hs hold hnew

theorem privInv_init (pol : Policy) (tun : Tuning) : PrivInv (World.init pol tun) :=
  ⟨fun i v h => by simp [World.init, World.iov] at h,
   fun X v _ _ _ _ _ h => by simp [World.init, World.iov] at h⟩

theorem CReach.priv {w : World} {caps : Nat → Nat} (h : CReach w caps) : PrivInv w := by
  induction h with
  | init pol tun => exact privInv_init pol tun
  | @step w w' caps caps' op hr hc hs _ _ ih => exact ih.step hr.greach hc hs

/-- `clone_independent`, full: in a history that clones only iovecs with no placeholder pending, ANY
operation leaves the bytes of every slice of every iovec it does not name unchanged. -/
theorem clone_independent_full {w w' : World} {caps : Nat → Nat} {op : WOp} (hr : CReach w caps)
    (h : w.step op = some w') {j : Nat} {vY : Iov} (hY : w.iov j = some vY) (hj : op.iovTarget ≠ some j)
    {s : Slice} (hs : s ∈ vY.slices) : w'.sliceBytes s = w.sliceBytes s := by
  have hg := hr.greach
  have hext := (hg.reachable.inv.iovOk j vY hY).extOk s hs
  by_cases hb : ∃ X b bs, op = .backfill X b bs
  · obtain ⟨X, b, bs, rfl⟩ := hb
    have hjX : j ≠ X := by intro e; apply hj; simp [WOp.iovTarget, e]
    exact backfill_bytes_unchanged hg hr.priv.priv h (Or.inl ⟨j, vY, hjX, hY, hs⟩) hext
  · exact step_bytes_unchanged hg h (fun i b bs e => hb ⟨i, b, bs, e⟩) (Or.inl ⟨j, vY, hY, hs⟩) hext

/-- The clone premise, decidable: `clone i` only when iovec `i` has no pending backref. -/
def World.cloneOk (w : World) : WOp → Bool
  | .clone i => match w.iov i with
    | some v => v.backrefs.isEmpty
    | none => true
  | _ => true

theorem cloneOk_iff {w : World} {op : WOp} (h : w.cloneOk op = true) : CloneOk w op := by
  intro i v hop hv
  subst hop
  simp [World.cloneOk, hv] at h
  exact h

/-- A history that respects the clone premise (`none` if it does not, or if an op panics). -/
def World.runC (w : World) : List WOp → Option World
  | [] => some w
  | op :: rest =>
    if w.cloneOk op then
      match w.step op with
      | some w' => w'.runC rest
      | none => none
    else none

theorem creach_of_runC {pol : Policy} {tun : Tuning} {ops : List WOp} {w : World}
    (h : (World.init pol tun).runC ops = some w) : ∃ caps, CReach w caps := by
  suffices ∀ (ops : List WOp) (w0 : World) (caps0 : Nat → Nat), CReach w0 caps0 → w0.runC ops = some w →
      ∃ caps, CReach w caps from this ops _ _ (CReach.init pol tun) h
  intro ops
  induction ops with
  | nil => intro w0 caps0 hg hr; simp [World.runC] at hr; subst hr; exact ⟨caps0, hg⟩
  | cons op rest ih =>
    intro w0 caps0 hg hr
    unfold World.runC at hr
    split at hr
    · rename_i hc
      split at hr
      · rename_i w1 h1
        obtain ⟨caps1, ho, hn⟩ := (step_astep h1).exists_caps hg.greach.reachable.inv hg.greach.inv
        exact ih w1 caps1 (hg.step (cloneOk_iff hc) h1 ho hn) hr
      · simp at hr
    · simp at hr

end Woodpile.Iovec

/-
C10, first sentence, as a statement about DROP HISTORIES (track `c10enc`; audit gap 4).

`Props/C10.drop_all_releases` assumes that every object slot is already empty.  Here the objects are
dropped by the operations of the vocabulary — `WOp.drop i` (an iovec, a clone, a taken iovec),
`WOp.dropArena j` (a detached arena), `WOp.sDrop j` (a detached anchored slice) — one `World.step` each,
in ANY order: for every list `hs` of handles that enumerates the live objects of `w` exactly once (any
permutation of `w.handles`), running the corresponding drop operations from `w` succeeds (no drop
panics, every handle is still live when its turn comes) and ends in a world without objects, hence
with no live chunk and no live byte.  Along the way the live set only shrinks (`drop_step_live_subset`).

`liveBytes caps w` = the sum over the live chunks of the capacity ghost (`GReach`, `Proofs/IovecArena.lean`:
the capacity each chunk was allocated with).
-/
import Woodpile.Proofs.IovecArena

namespace Woodpile.Iovec
open Woodpile.Arena

/-- The live arena bytes: the sum of the (allocation-time) capacities of the live chunks. -/
def liveBytes (caps : Nat → Nat) (w : World) : Nat := (w.liveChunks.map caps).sum

theorem liveBytes_nil {caps : Nat → Nat} {w : World} (h : w.liveChunks = []) : liveBytes caps w = 0 := by
  simp [liveBytes, h]

/-- `liveBytes ≤ #live · S` when every live chunk was allocated with at most `S` bytes. -/
theorem liveBytes_le {caps : Nat → Nat} {w : World} {S : Nat} (h : ∀ k ∈ w.liveChunks, caps k ≤ S) :
    liveBytes caps w ≤ w.liveChunks.length * S := by
  unfold liveBytes
  generalize w.liveChunks = l at h
  induction l with
  | nil => simp
  | cons a t ih =>
    simp only [List.map_cons, List.sum_cons, List.length_cons]
    have h1 := h a (by simp)
    have h2 := ih (fun k hk => h k (by simp [hk]))
    rw [Nat.add_mul, Nat.one_mul]
    omega

/-- An object handle: an iovec (original, clone or taken), a detached arena, a detached anchored slice. -/
inductive Handle where
  | iov (i : Nat)
  | arena (j : Nat)
  | aslice (j : Nat)
  deriving DecidableEq, Repr

/-- The drop operation of a handle. -/
def Handle.dropOp : Handle → WOp
  | .iov i => .drop i
  | .arena j => .dropArena j
  | .aslice j => .sDrop j

/-- The handle names an object that has not been dropped. -/
def World.LiveH (w : World) : Handle → Prop
  | .iov i => w.iov i ≠ none
  | .arena j => w.arena j ≠ none
  | .aslice j => w.aslice j ≠ none

/-- The canonical enumeration of the live handles. -/
def World.handles (w : World) : List Handle :=
  ((List.range w.iovs.length).filter fun i => (w.iov i).isSome).map Handle.iov ++
  ((List.range w.arenas.length).filter fun j => (w.arena j).isSome).map Handle.arena ++
  ((List.range w.aslices.length).filter fun j => (w.aslice j).isSome).map Handle.aslice

theorem mem_handles {w : World} {h : Handle} : h ∈ w.handles ↔ w.LiveH h := by
  cases h with
  | iov i =>
    simp only [World.handles, List.mem_append, List.mem_map, List.mem_filter, List.mem_range, Handle.iov.injEq,
      exists_eq_right, reduceCtorEq, and_false, exists_false, or_false, World.LiveH]
    constructor
    · intro ⟨_, h2⟩ h0; rw [h0] at h2; cases h2
    · intro hne
      refine ⟨?_, by cases hv : w.iov i <;> simp_all⟩
      rcases Nat.lt_or_ge i w.iovs.length with h1 | h1
      · exact h1
      · exact absurd (iov_none_of_ge w i h1) hne
  | arena j =>
    simp only [World.handles, List.mem_append, List.mem_map, List.mem_filter, List.mem_range, Handle.arena.injEq,
      exists_eq_right, reduceCtorEq, and_false, exists_false, or_false, false_or, World.LiveH]
    constructor
    · intro ⟨_, h2⟩ h0; rw [h0] at h2; cases h2
    · intro hne
      refine ⟨?_, by cases hv : w.arena j <;> simp_all⟩
      rcases Nat.lt_or_ge j w.arenas.length with h1 | h1
      · exact h1
      · exact absurd (arena_none_of_ge w j h1) hne
  | aslice j =>
    simp only [World.handles, List.mem_append, List.mem_map, List.mem_filter, List.mem_range, Handle.aslice.injEq,
      exists_eq_right, reduceCtorEq, and_false, exists_false, false_or, World.LiveH]
    constructor
    · intro ⟨_, h2⟩ h0; rw [h0] at h2; cases h2
    · intro hne
      refine ⟨?_, by cases hv : w.aslice j <;> simp_all⟩
      rcases Nat.lt_or_ge j w.aslices.length with h1 | h1
      · exact h1
      · exact absurd (aslice_none_of_ge w j h1) hne

theorem handles_nodup (w : World) : w.handles.Nodup := by
  unfold World.handles
  have hr : ∀ (n : Nat) (f : Nat → Bool), ((List.range n).filter f).Nodup :=
    fun n f => List.Nodup.sublist List.filter_sublist List.nodup_range
  have hm : ∀ (g : Nat → Handle) (l : List Nat), (∀ a b, g a = g b → a = b) → l.Nodup → (l.map g).Nodup := by
    intro g l hg hl
    exact List.Pairwise.map g (fun a b hab e => hab (hg a b e)) hl
  rw [List.nodup_append, List.nodup_append]
  refine ⟨⟨hm _ _ (fun a b h => by cases h; rfl) (hr _ _), hm _ _ (fun a b h => by cases h; rfl) (hr _ _), ?_⟩,
    hm _ _ (fun a b h => by cases h; rfl) (hr _ _), ?_⟩
  · intro a ha b hb e
    simp only [List.mem_map] at ha hb
    obtain ⟨x, _, rfl⟩ := ha
    obtain ⟨y, _, rfl⟩ := hb
    cases e
  · intro a ha b hb e
    simp only [List.mem_append, List.mem_map] at ha hb
    obtain ⟨y, _, rfl⟩ := hb
    rcases ha with ⟨x, _, rfl⟩ | ⟨x, _, rfl⟩ <;> cases e

/-- Dropping a live handle is one step of the vocabulary; exactly that object disappears. -/
theorem drop_step {w : World} {h : Handle} (hl : w.LiveH h) :
    ∃ w', w.step h.dropOp = some w' ∧ ¬ w'.LiveH h ∧ (∀ h', h' ≠ h → (w'.LiveH h' ↔ w.LiveH h')) ∧
      w'.next = w.next ∧
      (∀ i v, w'.iov i = some v → w.iov i = some v) ∧ (∀ j a, w'.arena j = some a → w.arena j = some a) ∧
      (∀ j s, w'.aslice j = some s → w.aslice j = some s) := by
  cases h with
  | iov i =>
    simp only [World.LiveH] at hl
    cases hv : w.iov i with
    | none => exact absurd hv hl
    | some v =>
      refine ⟨w.setIov i none, by simp [Handle.dropOp, World.step, World.dropIov, hv], by simp [World.LiveH], ?_, rfl,
        ?_, fun _ _ h => by simpa using h, fun _ _ h => by simpa using h⟩
      · intro h' hne
        cases h' with
        | iov i' =>
          have : i' ≠ i := fun e => hne (by rw [e])
          simp [World.LiveH, this]
        | arena j => simp [World.LiveH]
        | aslice j => simp [World.LiveH]
      · intro i' v' h'
        simp only [iov_setIov] at h'
        split at h'
        · cases h'
        · exact h'
  | arena j =>
    simp only [World.LiveH] at hl
    cases hv : w.arena j with
    | none => exact absurd hv hl
    | some a =>
      refine ⟨w.setArena j none, by simp [Handle.dropOp, World.step, hv], by simp [World.LiveH], ?_, rfl,
        fun _ _ h => by simpa using h, ?_, fun _ _ h => by simpa using h⟩
      · intro h' hne
        cases h' with
        | iov i => simp [World.LiveH]
        | arena j' =>
          have : j' ≠ j := fun e => hne (by rw [e])
          simp [World.LiveH, this]
        | aslice j' => simp [World.LiveH]
      · intro j' a' h'
        simp only [arena_setArena] at h'
        split at h'
        · cases h'
        · exact h'
  | aslice j =>
    simp only [World.LiveH] at hl
    cases hv : w.aslice j with
    | none => exact absurd hv hl
    | some a =>
      refine ⟨w.setASlice j none, by simp [Handle.dropOp, World.step, hv], by simp [World.LiveH], ?_, rfl,
        fun _ _ h => by simpa using h, fun _ _ h => by simpa using h, ?_⟩
      · intro h' hne
        cases h' with
        | iov i => simp [World.LiveH]
        | arena j' => simp [World.LiveH]
        | aslice j' =>
          have : j' ≠ j := fun e => hne (by rw [e])
          simp [World.LiveH, this]
      · intro j' a' h'
        simp only [aslice_setASlice] at h'
        split at h'
        · cases h'
        · exact h'

/-- Objects only disappear ⇒ the live set only shrinks. -/
theorem liveChunks_subset_of_objects {w w' : World} (hn : w'.next = w.next)
    (hi : ∀ i v, w'.iov i = some v → w.iov i = some v) (ha : ∀ j a, w'.arena j = some a → w.arena j = some a)
    (hs : ∀ j s, w'.aslice j = some s → w.aslice j = some s) : ∀ k ∈ w'.liveChunks, k ∈ w.liveChunks := by
  intro k hk
  rw [mem_liveChunks] at hk ⊢
  obtain ⟨hlt, h⟩ := hk
  refine ⟨hn ▸ hlt, ?_⟩
  rcases h with ⟨i, v, hv, hh⟩ | ⟨j, a, haj, hh⟩ | ⟨j, s, hsj, hh⟩
  · exact Or.inl ⟨i, v, hi i v hv, hh⟩
  · exact Or.inr (Or.inl ⟨j, a, ha j a haj, hh⟩)
  · exact Or.inr (Or.inr ⟨j, s, hs j s hsj, hh⟩)

/-- One drop never makes a chunk live. -/
theorem drop_step_live_subset {w w' : World} {h : Handle} (hs : w.step h.dropOp = some w') :
    ∀ k ∈ w'.liveChunks, k ∈ w.liveChunks := by
  by_cases hl : w.LiveH h
  · obtain ⟨w1, h1, _, _, hn, hi, ha, hsl⟩ := drop_step hl
    rw [h1] at hs; cases hs
    exact liveChunks_subset_of_objects hn hi ha hsl
  · exfalso
    cases h with
    | iov i =>
      simp only [World.LiveH, ne_eq, Decidable.not_not] at hl
      simp [Handle.dropOp, World.step, World.dropIov, hl] at hs
    | arena j =>
      simp only [World.LiveH, ne_eq, Decidable.not_not] at hl
      simp [Handle.dropOp, World.step, hl] at hs
    | aslice j =>
      simp only [World.LiveH, ne_eq, Decidable.not_not] at hl
      simp [Handle.dropOp, World.step, hl] at hs

/-- Drop histories: any list of handles that enumerates the live objects exactly once. -/
theorem drop_history_releases : ∀ (hs : List Handle) (w : World), hs.Nodup → (∀ h, w.LiveH h ↔ h ∈ hs) →
    ∃ w', w.run (hs.map Handle.dropOp) = some w' ∧ (∀ i, w'.iov i = none) ∧ (∀ j, w'.arena j = none) ∧
      (∀ j, w'.aslice j = none) ∧ w'.liveChunks = [] ∧ w'.next = w.next
  | [], w, _, hm => by
    have h1 : ∀ i, w.iov i = none := fun i => by
      have := (hm (.iov i)).1
      simp only [World.LiveH, List.not_mem_nil, imp_false, ne_eq, Decidable.not_not] at this
      exact this
    have h2 : ∀ j, w.arena j = none := fun j => by
      have := (hm (.arena j)).1
      simp only [World.LiveH, List.not_mem_nil, imp_false, ne_eq, Decidable.not_not] at this
      exact this
    have h3 : ∀ j, w.aslice j = none := fun j => by
      have := (hm (.aslice j)).1
      simp only [World.LiveH, List.not_mem_nil, imp_false, ne_eq, Decidable.not_not] at this
      exact this
    exact ⟨w, rfl, h1, h2, h3, liveChunks_nil_of_no_objects h1 h2 h3, rfl⟩
  | h :: t, w, hnd, hm => by
    obtain ⟨hnt, hndt⟩ := List.nodup_cons.1 hnd
    obtain ⟨w1, hs1, hdead, hother, hn, _, _, _⟩ := drop_step ((hm h).2 (by simp))
    have hm1 : ∀ h', w1.LiveH h' ↔ h' ∈ t := by
      intro h'
      by_cases e : h' = h
      · subst e; exact ⟨fun hl => absurd hl hdead, fun ht => absurd ht hnt⟩
      · rw [hother h' e, hm h']; simp [e]
    obtain ⟨w', hr, g1, g2, g3, g4, g5⟩ := drop_history_releases t w1 hndt hm1
    refine ⟨w', ?_, g1, g2, g3, g4, g5.trans hn⟩
    simp only [List.map_cons, World.run, hs1]
    exact hr

/-- … in particular every permutation of the canonical enumeration of the live handles. -/
theorem drop_perm_releases (w : World) (hs : List Handle) (hp : hs.Perm w.handles) :
    ∃ w', w.run (hs.map Handle.dropOp) = some w' ∧ (∀ i, w'.iov i = none) ∧ (∀ j, w'.arena j = none) ∧
      (∀ j, w'.aslice j = none) ∧ w'.liveChunks = [] ∧ w'.next = w.next :=
  drop_history_releases hs w (hp.nodup_iff.2 (handles_nodup w)) (fun h => by rw [hp.mem_iff, mem_handles])

end Woodpile.Iovec

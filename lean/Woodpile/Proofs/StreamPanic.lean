/-
The reader with the panic-aware decoder (`Model/StreamP.lean`) is the reader of
`Model/Stream.lean`: every decoder state `next_record_bytes` feeds is a reachable decoder
state (`DecProof.Reachable`), so the decoder's panic outcome never shows.

Also: sequences of calls with one block size per call.
-/
import Woodpile.Model.StreamP
import Woodpile.Proofs.HcobsPanic
import Woodpile.Proofs.StreamReader

namespace Woodpile.Stream
open Woodpile.Arena Woodpile.ReadN Woodpile.Hcobs Woodpile.Pipe

theorem decodeChunkP_eq (p : Params) (hp : p.Valid) (rc : Rec) (bytes : List UInt8)
    (h : DecProof.Reachable p rc.dec) : decodeChunkP p rc bytes = .ok (decodeChunk p rc bytes) := by
  unfold decodeChunkP decodeChunk
  rw [DecProof.feedAllP_eq p hp .borrow rc.dec bytes (DecProof.reachable_wf32 p hp h)]
  cases Dec.feedAll p .borrow rc.dec bytes with
  | error ee => obtain ⟨e, es⟩ := ee; rfl
  | ok se => obtain ⟨s', es⟩ := se; rfl

theorem decodeChunk_reachable (p : Params) (rc : Rec) (bytes : List UInt8)
    (h : DecProof.Reachable p rc.dec) : DecProof.Reachable p (decodeChunk p rc bytes).dec := by
  unfold decodeChunk
  cases hf : Dec.feedAll p .borrow rc.dec bytes with
  | error ee => obtain ⟨e, es⟩ := ee; exact h
  | ok se => obtain ⟨s', es⟩ := se; exact DecProof.feed_reachable p .borrow _ rc.dec bytes h hf

/-- The decoder state carried to the next iteration (if any). -/
def ContReach (p : Params) : StepOut → Prop
  | .continue _ _ rc' => DecProof.Reachable p rc'.dec
  | .done _ _ _ => True

theorem consult_reach (p : Params) (judge : Judge) (s : RdState) (r : Reader) (rc : Rec)
    (h : DecProof.Reachable p rc.dec) : ContReach p (consult judge s r rc) := by
  cases hj : judge s.hist ⟨rc.start, rc.stop, rc.size⟩ with
  | keepGoing => simp only [consult, hj]; exact h
  | skipRecord => simp only [consult, hj]; exact h
  | stop => simp only [consult, hj]; trivial

theorem afterBreak_reach (p : Params) (s : RdState) (r : Reader) (rc : Rec) :
    ContReach p (afterBreak s r rc) := by
  unfold afterBreak
  split
  · trivial
  · split
    · exact DecProof.Reachable.init
    · split
      · exact DecProof.Reachable.init
      · trivial

/-- A `Data` chunk's end offset is at least its length (so `offset - len` cannot underflow). -/
def DataOffOK : Chunk → Prop
  | .data off bs => bs.length ≤ off
  | _ => True

theorem refill_dataOff (t : Tuning) (count : Nat) : ∀ (fuel : Nat) (c : Chunker) (m : Mem) (r : Reader)
    (reqs : List Nat) (ch : Chunk) (c' : Chunker) (m' : Mem) (r' : Reader) (reqs' : List Nat),
    refill t count fuel c m r reqs = (.done (.ok ch) c', m', r', reqs') → DataOffOK ch := by
  intro fuel
  induction fuel with
  | zero => intro c m r reqs ch c' m' r' reqs' h; simp [refill] at h
  | succ fuel ih =>
    intro c m r reqs ch c' m' r' reqs' h
    simp only [refill] at h
    split at h
    · cases h
    · split at h
      · cases h
      · split at h
        · split at h
          · simp only [Prod.mk.injEq, Refill.done.injEq, PumpRes.ok.injEq] at h
            obtain ⟨⟨h1, _⟩, _⟩ := h
            subst h1; trivial
          · simp only [Prod.mk.injEq, Refill.done.injEq, PumpRes.ok.injEq] at h
            obtain ⟨⟨h1, _⟩, _⟩ := h
            subst h1
            simp only [DataOffOK]; omega
        · exact ih _ _ _ _ ch c' m' r' reqs' h

theorem pump_dataOff (clamp : Nat) (t : Tuning) (block : Nat) (c : Chunker) (m : Mem) (r : Reader) (ch : Chunk)
    (h : (pump clamp t block c m r).res = .ok ch) : DataOffOK ch := by
  simp only [pump] at h
  generalize hrf : refill t (max block clamp) 3 c m r [] = x at h
  obtain ⟨rf, m', r', reqs⟩ := x
  cases rf with
  | done res c' =>
    simp only at h
    subst h
    exact refill_dataOff t _ 3 c m r [] ch c' m' r' reqs hrf
  | filled c' =>
    simp only at h
    split at h
    · cases h
    · split at h
      · simp only [PumpRes.ok.injEq] at h; subst h; trivial
      · split at h
        · cases h
        · simp only [PumpRes.ok.injEq] at h; subst h
          simp only [DataOffOK]; omega

theorem onChunkP_eq (p : Params) (hp : p.Valid) (judge : Judge) (s1 : RdState) (r : Reader) (rc : Rec)
    (ch : Chunk) (h : DecProof.Reachable p rc.dec) (hoff : DataOffOK ch) :
    onChunkP p judge s1 r rc ch = onChunk p judge s1 r rc ch := by
  cases ch with
  | sentinel off => rfl
  | eof => rfl
  | data off bytes =>
    have hno : ¬ (rc.st = .skipSentinel ∧ off < bytes.length) := by
      rintro ⟨_, hlt⟩
      have : bytes.length ≤ off := hoff
      omega
    simp only [onChunkP, onChunk, if_neg hno]
    split
    · rfl
    · cases hst : rc.st with
      | skipSentinel =>
        have hr : DecProof.Reachable p
            ({ rc with start := off - bytes.length, stop := off - bytes.length, st := .decodeRecord } : Rec).dec := h
        simp only [if_true, decodeChunkP_eq p hp _ bytes hr]
      | decodeRecord =>
        simp only [hst, if_true, decodeChunkP_eq p hp rc bytes h]
      | skipRecord =>
        simp [hst]

theorem onChunk_reach (p : Params) (judge : Judge) (s1 : RdState) (r : Reader) (rc : Rec) (ch : Chunk)
    (h : DecProof.Reachable p rc.dec) : ContReach p (onChunk p judge s1 r rc ch) := by
  cases ch with
  | sentinel off =>
    simp only [onChunk]
    split
    · trivial
    · cases rc.st
      · exact consult_reach p judge _ r _ h
      · exact afterBreak_reach p _ r rc
      · exact afterBreak_reach p _ r rc
  | eof =>
    simp only [onChunk]
    split
    · trivial
    · exact afterBreak_reach p _ r rc
  | data off bytes =>
    simp only [onChunk]
    split
    · trivial
    · apply consult_reach
      cases hst : rc.st with
      | skipSentinel =>
        simp only [if_true]
        exact decodeChunk_reachable p _ bytes h
      | decodeRecord =>
        simp only [hst, if_true]
        exact decodeChunk_reachable p _ bytes h
      | skipRecord =>
        simp only [hst, reduceCtorEq, if_false]
        exact h

theorem stepP_eq (clamp : Nat) (t : Tuning) (p : Params) (hp : p.Valid) (judge : Judge) (block : Nat)
    (s : RdState) (r : Reader) (rc : Rec) (h : DecProof.Reachable p rc.dec) :
    stepP clamp t p judge block s r rc = step clamp t p judge block s r rc := by
  unfold stepP step
  split
  · rfl
  · simp only
    cases hres : (pump clamp t block s.chunker s.mem r).res with
    | ioerr k => rfl
    | panic => rfl
    | ok ch => exact onChunkP_eq p hp judge _ _ rc _ h (pump_dataOff clamp t block _ _ _ ch hres)

theorem step_reach (clamp : Nat) (t : Tuning) (p : Params) (judge : Judge) (block : Nat)
    (s : RdState) (r : Reader) (rc : Rec) (h : DecProof.Reachable p rc.dec) :
    ContReach p (step clamp t p judge block s r rc) := by
  unfold step
  split
  · trivial
  · simp only
    cases hres : (pump clamp t block s.chunker s.mem r).res with
    | ioerr k => trivial
    | panic => trivial
    | ok ch => exact onChunk_reach p judge _ _ rc _ h

theorem runP_eq (clamp : Nat) (t : Tuning) (p : Params) (hp : p.Valid) (judge : Judge) (block : Nat) :
    ∀ (fuel : Nat) (s : RdState) (r : Reader) (rc : Rec), DecProof.Reachable p rc.dec →
    runP clamp t p judge block fuel s r rc = run clamp t p judge block fuel s r rc := by
  intro fuel
  induction fuel with
  | zero => intro s r rc _; rfl
  | succ fuel ih =>
    intro s r rc h
    have hr := step_reach clamp t p judge block s r rc h
    simp only [runP, run, stepP_eq clamp t p hp judge block s r rc h]
    cases hs : step clamp t p judge block s r rc with
    | done res s' r' => rfl
    | «continue» s' r' rc' =>
      rw [hs] at hr
      exact ih s' r' rc' hr

/-- **The reader never trips a decoder panic**: one `next_record_bytes` call with the
panic-aware decoder is the call of `Model/Stream.lean`, from every reader state, for every
stream, script, judge and block size. -/
theorem nextP_eq (clamp : Nat) (t : Tuning) (p : Params) (hp : p.Valid) (judge : Judge) (block : Option Nat)
    (s : RdState) (r : Reader) : nextP clamp t p judge block s r = next clamp t p judge block s r :=
  runP_eq clamp t p hp judge _ _ s r Rec.fresh DecProof.Reachable.init

theorem nextSeqBP_eq (clamp : Nat) (t : Tuning) (p : Params) (hp : p.Valid) (judge : Judge) :
    ∀ (blocks : List (Option Nat)) (s : RdState) (r : Reader),
    nextSeqBP clamp t p judge blocks s r = nextSeqB clamp t p judge blocks s r := by
  intro blocks
  induction blocks with
  | nil => intro s r; rfl
  | cons b bs ih =>
    intro s r
    simp only [nextSeqBP, nextSeqB, nextP_eq clamp t p hp judge b s r, ih]

/-- One block size for the whole run is the special case of a constant list. -/
theorem nextSeqB_replicate (clamp : Nat) (t : Tuning) (p : Params) (judge : Judge) (block : Option Nat) :
    ∀ (n : Nat) (s : RdState) (r : Reader),
    nextSeqB clamp t p judge (List.replicate n block) s r = nextSeq clamp t p judge block n s r := by
  intro n
  induction n with
  | zero => intro s r; rfl
  | succ n ih => intro s r; simp only [List.replicate_succ, nextSeqB, nextSeq, ih]

/-- What `|blocks|` successive calls return, whatever block size each of them is given. -/
theorem nextSeqB_spec (p : Params) (limit : Option Nat) (tooBig : Nat → Bool) (clamp : Nat) (hclamp : 2 ≤ clamp)
    (t : Tuning) (hs : SplitIndep p)
    (hmono : ∀ a b, a ≤ b → tooBig a = true → tooBig b = true) (h0 : tooBig 0 = false) :
    ∀ (blocks : List (Option Nat)) (s : RdState) (r : Reader), WellBehaved r →
    (nextSeqB clamp t p (threshJudge limit tooBig) blocks s r).1 =
      expectedSeq (recordsT p limit tooBig (segScan s.chunker.offset [] (s.chunker.buf ++ r.src)))
        blocks.length := by
  intro blocks
  induction blocks with
  | nil => intro s r _; cases recordsT p limit tooBig _ <;> rfl
  | cons b bs ih =>
    intro s r hwb
    obtain ⟨hwb', hd⟩ := next_spec p limit tooBig clamp hclamp t b hs hmono h0 s r hwb
    have hi := ih (next clamp t p (threshJudge limit tooBig) b s r).2.1
      (next clamp t p (threshJudge limit tooBig) b s r).2.2 hwb'
    simp only [nextSeqB, List.length_cons]
    rw [hi]
    generalize recordsT p limit tooBig (segScan s.chunker.offset [] (s.chunker.buf ++ r.src)) = E at hd ⊢
    cases E with
    | nil =>
      obtain ⟨h1, h2⟩ := hd
      rw [h1, h2]; rfl
    | cons x rest =>
      obtain ⟨d, a, b'⟩ := x
      obtain ⟨h1, h2⟩ := hd
      rw [h1, h2]; rfl

end Woodpile.Stream

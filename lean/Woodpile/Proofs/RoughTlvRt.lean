/-
Viewing what the encoder emits: the header words of `layout …` read back as the
count, the cumulative offsets and the sorted tags, the result is `Valid`, and its
pairs are the encoder's pairs.
-/
import Woodpile.Proofs.RoughTlvEnc

namespace Woodpile.RoughTlv

variable {V : Type}

/-- Slicing a concatenation at the cumulative lengths gives back the pieces. -/
theorem flatten_drop_take {α : Type} (L : List (List α)) (i : Nat) (hi : i < L.length) :
    (L.flatten.drop ((L.take i).map List.length).sum).take (L[i].length) = L[i] := by
  induction L generalizing i with
  | nil => simp at hi
  | cons x xs ih =>
    cases i with
    | zero => simp
    | succ j =>
      simp only [List.take_succ_cons, List.map_cons, List.sum_cons, List.flatten_cons,
        List.getElem_cons_succ]
      rw [← List.drop_drop, List.drop_left]
      exact ih j (by simpa using hi)

/-- The layout with the offsets written from the actual byte lengths. -/
def layoutB (bytes : V → List UInt8) (es : List (Pair V)) : List UInt8 :=
  layout bytes (fun v => (bytes v).length) es

theorem layout_eq_layoutB (bytes : V → List UInt8) (len : V → Nat) (es : List (Pair V))
    (hl : ∀ p ∈ es, len p.2 = (bytes p.2).length) : layout bytes len es = layoutB bytes es := by
  unfold layoutB layout
  have : es.map (fun p => len p.2) = es.map (fun p => (bytes p.2).length) :=
    List.map_congr_left (fun p hp => hl p hp)
  rw [this]

section
variable (bytes : V → List UInt8) (es : List (Pair V))

/-- The lengths of the values, in order. -/
def blens : List Nat := es.map (fun p => (bytes p.2).length)

theorem blens_length : (blens bytes es).length = es.length := by simp [blens]

theorem layoutB_split :
    layoutB bytes es = le32 es.length ++ (((offsetsSpec (blens bytes es)).map le32).flatten ++
      ((es.map (fun e => le32 (key e))).flatten ++ (es.map (fun e => bytes e.2)).flatten)) := by
  simp [layoutB, layout, blens, List.append_assoc]

theorem payload_length : ((es.map (fun e => bytes e.2)).flatten).length = (blens bytes es).sum := by
  simp [List.length_flatten, blens, Function.comp_def]

theorem layoutB_length (hn : 0 < es.length) :
    (layoutB bytes es).length = 8 * es.length + (blens bytes es).sum := by
  rw [layoutB_split]
  simp only [List.length_append, le32_length, flatten_le32_length, offsetsSpec_length,
    blens_length, flatten_map_le32_length, payload_length]
  omega

theorem hdrCount_layoutB (hn : es.length ≤ i32Max) : hdrCount (layoutB bytes es) = es.length := by
  unfold hdrCount
  rw [layoutB_split, word_append_left _ _ _ (by simp)]
  exact word_le32 _ (by unfold i32Max at hn; omega)

theorem offsetsSpec_lt (ls : List Nat) (h : ls.sum ≤ i32Max) : ∀ x ∈ offsetsSpec ls, x < 4294967296 := by
  intro x hx
  obtain ⟨i, hi⟩ := List.mem_iff_getElem?.mp hx
  have hlt : i < (offsetsSpec ls).length := (List.getElem?_eq_some_iff.mp hi).1
  rw [offsetsSpec_length] at hlt
  rw [offsetsSpec_getElem? ls i (by omega)] at hi
  cases hi
  have := take_sum_le ls (i + 1)
  unfold i32Max at h; omega

/-- Offset word `i` of the emitted bytes is the total size of values `0..i`. -/
theorem word_offset_layoutB (hs : (blens bytes es).sum ≤ i32Max) (i : Nat) (hi : i + 1 < es.length) :
    word (layoutB bytes es) (4 + 4 * i) = ((blens bytes es).take (i + 1)).sum := by
  rw [layoutB_split]
  have : 4 + 4 * i = (le32 es.length).length + 4 * i := by simp
  rw [this, word_append_right]
  have hi' : i < (offsetsSpec (blens bytes es)).length := by
    rw [offsetsSpec_length, blens_length]; omega
  rw [word_flatten_le32 _ (offsetsSpec_lt _ hs) _ i hi']
  have := offsetsSpec_getElem? (blens bytes es) i (by rw [blens_length]; exact hi)
  rw [List.getElem?_eq_getElem hi'] at this
  exact Option.some.inj this

/-- Tag word `i` of the emitted bytes is the tag of pair `i`. -/
theorem word_tag_layoutB (hn : 0 < es.length) (i : Nat) (hi : i < es.length) :
    word (layoutB bytes es) (4 * es.length + 4 * i) = key es[i] := by
  have hsplit : layoutB bytes es =
      (le32 es.length ++ ((offsetsSpec (blens bytes es)).map le32).flatten) ++
        ((es.map (fun e => le32 (key e))).flatten ++ (es.map (fun e => bytes e.2)).flatten) := by
    rw [layoutB_split]; simp [List.append_assoc]
  have hlen : (le32 es.length ++ ((offsetsSpec (blens bytes es)).map le32).flatten).length
      = 4 * es.length := by
    simp only [List.length_append, le32_length, flatten_le32_length, offsetsSpec_length, blens_length]
    omega
  rw [hsplit, ← hlen, word_append_right]
  have e : (es.map (fun e => le32 (key e))) = (es.map key).map le32 := by simp
  rw [e, word_flatten_le32 (es.map key) _ _ i (by simpa using hi)]
  · simp
  · intro x hx
    obtain ⟨p, _, rfl⟩ := List.mem_map.mp hx
    exact p.1.toNat_lt

theorem hdrOffsets_layoutB (hn : es.length ≤ i32Max) (hs : (blens bytes es).sum ≤ i32Max) :
    hdrOffsets (layoutB bytes es) = offsetsSpec (blens bytes es) := by
  apply List.ext_getElem?
  intro i
  rw [hdrOffsets_getElem?, hdrCount_layoutB bytes es hn]
  by_cases hi : i < es.length - 1
  · simp only [hi, if_true]
    rw [word_offset_layoutB bytes es hs i (by omega),
      offsetsSpec_getElem? _ i (by rw [blens_length]; omega)]
  · simp only [hi, if_false]
    rw [List.getElem?_eq_none]
    rw [offsetsSpec_length, blens_length]; omega

theorem hdrTags_layoutB (hn : es.length ≤ i32Max) :
    hdrTags (layoutB bytes es) = es.map key := by
  apply List.ext_getElem?
  intro i
  rw [hdrTags_getElem?, hdrCount_layoutB bytes es hn]
  by_cases hi : i < es.length
  · simp only [hi, if_true]
    rw [word_tag_layoutB bytes es (by omega) i hi]
    simp [hi]
  · simp only [hi, if_false]
    rw [List.getElem?_eq_none]; simp; omega

theorem layoutB_valid (hn : es.length ≤ i32Max) (hs : (blens bytes es).sum ≤ i32Max)
    (hsorted : List.Pairwise (fun a b => key a ≤ key b) es) : Valid (layoutB bytes es) := by
  have hc := hdrCount_layoutB bytes es hn
  have hlen4 : 4 ≤ (layoutB bytes es).length := by
    rw [layoutB_split]; simp
  refine ⟨hlen4, ?_, ?_, ?_, ?_⟩
  · rw [hc]
    by_cases h0 : es.length = 0
    · omega
    · rw [layoutB_length bytes es (by omega)]; omega
  · rw [hdrOffsets_layoutB bytes es hn hs]
    apply List.pairwise_iff_getElem.mpr
    intro i j hi hj hij
    rw [offsetsSpec_length] at hi hj
    have h1 := offsetsSpec_getElem? (blens bytes es) i (by omega)
    have h2 := offsetsSpec_getElem? (blens bytes es) j (by omega)
    rw [List.getElem?_eq_getElem (by simpa using hi)] at h1
    rw [List.getElem?_eq_getElem (by simpa using hj)] at h2
    rw [Option.some.inj h1, Option.some.inj h2]
    exact take_sum_mono _ (by omega)
  · rw [hdrTags_layoutB bytes es hn]
    exact List.pairwise_map.mpr hsorted
  · intro x hx
    rw [hc]
    have hmem : x ∈ hdrOffsets (layoutB bytes es) := List.mem_of_getLast? hx
    rw [hdrOffsets_layoutB bytes es hn hs] at hmem
    obtain ⟨i, hi⟩ := List.mem_iff_getElem?.mp hmem
    have hlt : i < (offsetsSpec (blens bytes es)).length := (List.getElem?_eq_some_iff.mp hi).1
    rw [offsetsSpec_length] at hlt
    rw [offsetsSpec_getElem? _ i (by omega)] at hi
    cases hi
    have h0 : 0 < es.length := by rw [blens_length] at hlt; omega
    rw [layoutB_length bytes es h0]
    have := take_sum_le (blens bytes es) (i + 1)
    omega

theorem startAt_layoutB (_hn : es.length ≤ i32Max) (hs : (blens bytes es).sum ≤ i32Max) (i : Nat)
    (hi : i < es.length) : startAt (layoutB bytes es) i = ((blens bytes es).take i).sum := by
  unfold startAt
  by_cases h0 : i = 0
  · simp [h0]
  · simp only [h0, if_false]
    rw [word_offset_layoutB bytes es hs (i - 1) (by omega)]
    congr 2; omega

theorem endAt_layoutB (hn : es.length ≤ i32Max) (hs : (blens bytes es).sum ≤ i32Max) (i : Nat)
    (hi : i < es.length) : endAt (layoutB bytes es) i = ((blens bytes es).take (i + 1)).sum := by
  unfold endAt
  rw [hdrCount_layoutB bytes es hn]
  by_cases hl : i + 1 = es.length
  · simp only [hl, if_true]
    rw [layoutB_length bytes es (by omega), List.take_of_length_le (by rw [blens_length]; omega)]
    omega
  · simp only [hl, if_false]
    exact word_offset_layoutB bytes es hs i (by omega)

theorem drop_header_layoutB (hn : 0 < es.length) :
    (layoutB bytes es).drop (8 * es.length) = (es.map (fun e => bytes e.2)).flatten := by
  have hsplit : layoutB bytes es =
      (le32 es.length ++ ((offsetsSpec (blens bytes es)).map le32).flatten ++
        (es.map (fun e => le32 (key e))).flatten) ++ (es.map (fun e => bytes e.2)).flatten := by
    rw [layoutB_split]; simp [List.append_assoc]
  rw [hsplit]
  apply List.drop_left'
  simp only [List.length_append, le32_length, flatten_le32_length, offsetsSpec_length,
    blens_length, flatten_map_le32_length]
  omega

/-- The pairs of the emitted message are the encoder's pairs, in order. -/
theorem pairsOf_layoutB (hn : es.length ≤ i32Max) (hs : (blens bytes es).sum ≤ i32Max) :
    pairsOf (layoutB bytes es) = es.map (fun e => (key e, bytes e.2)) := by
  apply List.ext_getElem?
  intro i
  rw [pairsOf_getElem?, hdrCount_layoutB bytes es hn]
  by_cases hi : i < es.length
  · simp only [hi, if_true, List.getElem?_map, List.getElem?_eq_getElem hi, Option.map_some]
    congr 2
    · unfold tagAt
      rw [hdrCount_layoutB bytes es hn]
      exact word_tag_layoutB bytes es (by omega) i hi
    · unfold valueAt
      rw [hdrCount_layoutB bytes es hn, startAt_layoutB bytes es hn hs i hi,
        endAt_layoutB bytes es hn hs i hi, ← List.drop_drop, drop_header_layoutB bytes es (by omega)]
      have hL : i < (es.map (fun e => bytes e.2)).length := by simpa using hi
      have := flatten_drop_take (es.map (fun e => bytes e.2)) i hL
      have e1 : ((es.map (fun e => bytes e.2)).take i).map List.length = (blens bytes es).take i := by
        simp [blens, List.map_take, Function.comp_def]
      have e2 : ((blens bytes es).take (i + 1)).sum - ((blens bytes es).take i).sum
          = ((es.map (fun e => bytes e.2))[i]).length := by
        have hb : i < (blens bytes es).length := by rw [blens_length]; exact hi
        rw [List.take_succ_eq_append_getElem hb]
        simp [blens]
      rw [e1] at this
      rw [e2, this]
      simp
  · simp only [hi, if_false]
    rw [List.getElem?_eq_none]; simp; omega

end

/-- Everything the round-trip theorems need about an accepted wrapper's output. -/
theorem Accepted.view {len : V → Nat} {ps : List (Pair V)} {w : Wrapper V} (h : Accepted len ps w)
    (bytes : V → List UInt8) (hl : ∀ p ∈ ps, len p.2 = (bytes p.2).length) :
    ∃ out, w.encode bytes len = some out ∧ Valid out ∧
      pairsOf out = (sortByTag ps).map (fun p => (p.1.toNat, bytes p.2)) := by
  obtain ⟨h1, _, h3, h4⟩ := h.encode_eq bytes
  have he : w.entries = sortByTag ps := h.spec.1
  have hl' : ∀ p ∈ w.entries, len p.2 = (bytes p.2).length := by
    intro p hp; rw [he] at hp
    exact hl p ((sortByTag_perm ps).mem_iff.mp hp)
  have hs : (blens bytes w.entries).sum ≤ i32Max := by
    have : lensSum len w.entries = (blens bytes w.entries).sum := by
      unfold lensSum blens
      rw [List.map_congr_left (fun p hp => hl' p hp)]
    unfold natTotal at h3; omega
  refine ⟨layoutB bytes w.entries, ?_, ?_, ?_⟩
  · rw [h1, layout_eq_layoutB bytes len _ hl']
  · exact layoutB_valid bytes _ h4 hs (by rw [he]; exact sortByTag_sorted ps)
  · rw [pairsOf_layoutB bytes _ h4 hs, he]; rfl

end Woodpile.RoughTlv

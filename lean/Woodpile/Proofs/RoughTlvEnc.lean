/-
Helper lemmas about the encoder side of the Rough TLV model
(`sortByTag`, `computeLen`, the constructors, `encodeEntries`) and about viewing
what it emits.
-/
import Woodpile.Proofs.RoughTlv

namespace Woodpile.RoughTlv

variable {V : Type}

/-! ### The stable sort -/

theorem insertByTag_perm (e : Pair V) (l : List (Pair V)) : (insertByTag e l).Perm (e :: l) := by
  induction l with
  | nil => exact List.Perm.refl _
  | cons x xs ih =>
    unfold insertByTag
    split
    · exact List.Perm.refl _
    · exact ((List.perm_cons x).mpr ih).trans (List.Perm.swap e x xs)

theorem sortByTag_perm (l : List (Pair V)) : (sortByTag l).Perm l := by
  induction l with
  | nil => exact List.Perm.refl _
  | cons e es ih =>
    exact (insertByTag_perm e (sortByTag es)).trans ((List.perm_cons e).mpr ih)

theorem insertByTag_sorted (e : Pair V) (l : List (Pair V))
    (h : List.Pairwise (fun a b => key a ≤ key b) l) :
    List.Pairwise (fun a b => key a ≤ key b) (insertByTag e l) := by
  induction l with
  | nil => simp [insertByTag]
  | cons x xs ih =>
    unfold insertByTag
    obtain ⟨hx, hxs⟩ := List.pairwise_cons.mp h
    split
    · rename_i hle
      refine List.pairwise_cons.mpr ⟨?_, h⟩
      intro y hy
      rcases List.mem_cons.mp hy with rfl | hy
      · exact hle
      · exact Nat.le_trans hle (hx y hy)
    · rename_i hnle
      refine List.pairwise_cons.mpr ⟨?_, ih hxs⟩
      intro y hy
      rcases List.mem_cons.mp ((insertByTag_perm e xs).mem_iff.mp hy) with rfl | hy
      · omega
      · exact hx y hy

theorem sortByTag_sorted (l : List (Pair V)) :
    List.Pairwise (fun a b => key a ≤ key b) (sortByTag l) := by
  induction l with
  | nil => simp [sortByTag]
  | cons e es ih => exact insertByTag_sorted e _ ih

/-- Stability: the pairs carrying any given tag keep their relative order. -/
theorem insertByTag_filter (e : Pair V) (l : List (Pair V)) (t : Nat) :
    (insertByTag e l).filter (fun p => key p == t) = (e :: l).filter (fun p => key p == t) := by
  induction l with
  | nil => rfl
  | cons x xs ih =>
    unfold insertByTag
    split
    · rfl
    · rename_i hnle
      rw [List.filter_cons, ih]
      by_cases hx : key x = t
      · have he : ¬ key e = t := by omega
        simp [hx, he]
      · simp [List.filter_cons, hx]

theorem sortByTag_filter (l : List (Pair V)) (t : Nat) :
    (sortByTag l).filter (fun p => key p == t) = l.filter (fun p => key p == t) := by
  induction l with
  | nil => rfl
  | cons e es ih =>
    show (insertByTag e (sortByTag es)).filter _ = _
    rw [insertByTag_filter, List.filter_cons, List.filter_cons, ih]

/-! ### `compute_len` -/

/-- The sum of the reported value lengths. -/
def lensSum (len : V → Nat) (es : List (Pair V)) : Nat := (es.map (fun p => len p.2)).sum

/-- The true (unbounded) encoded size: count word, `N-1` offsets, `N` tags, values. -/
def natTotal (len : V → Nat) (es : List (Pair V)) : Nat :=
  4 + 4 * (es.length - 1) + 4 * es.length + lensSum len es

theorem lensSum_cons (len : V → Nat) (e : Pair V) (es : List (Pair V)) :
    lensSum len (e :: es) = len e.2 + lensSum len es := by simp [lensSum]

theorem sumLens_ok (len : V → Nat) (es : List (Pair V)) (h : ∀ p ∈ es, len p.2 ≤ i32Max)
    (rank a : Nat) :
    sumLens len es rank (min a usizeMax) = .ok (min (a + lensSum len es) usizeMax) := by
  induction es generalizing rank a with
  | nil => simp [sumLens, lensSum]
  | cons e es ih =>
    unfold sumLens
    have he := h e (by simp)
    simp only [Nat.not_lt.mpr he, if_false]
    have : satAddUsize (min a usizeMax) (len e.2) = min (a + len e.2) usizeMax := by
      unfold satAddUsize usizeMax; omega
    rw [this, ih (fun p hp => h p (by simp [hp])), lensSum_cons]
    congr 2; omega

theorem sumLens_err (len : V → Nat) (es : List (Pair V)) (h : ∃ p ∈ es, len p.2 > i32Max)
    (rank acc : Nat) : ∃ r s, sumLens len es rank acc = .error (.valueTooLarge r s) := by
  induction es generalizing rank acc with
  | nil => simp at h
  | cons e es ih =>
    unfold sumLens
    by_cases he : len e.2 > i32Max
    · simp only [he, if_true]; exact ⟨_, _, rfl⟩
    · simp only [he, if_false]
      apply ih
      obtain ⟨p, hp, hpl⟩ := h
      rcases List.mem_cons.mp hp with rfl | hp
      · exact absurd hpl he
      · exact ⟨p, hp, hpl⟩

/-- `compute_len` accepts exactly when count, every value length and the true
total are within `i32::MAX`, and then returns the true total. -/
theorem computeLen_ok_iff (len : V → Nat) (es : List (Pair V)) (n : Nat) :
    computeLen len es = .ok n ↔
      es.length ≤ i32Max ∧ (∀ p ∈ es, len p.2 ≤ i32Max) ∧ natTotal len es ≤ i32Max ∧
      n = natTotal len es := by
  unfold computeLen
  by_cases hn : es.length > i32Max
  · simp only [hn, if_true]
    constructor
    · intro h; cases h
    · rintro ⟨h, _⟩; omega
  · simp only [hn, if_false]
    by_cases hv : ∀ p ∈ es, len p.2 ≤ i32Max
    · have := sumLens_ok len es hv 0 0
      simp only [show min 0 usizeMax = 0 by simp [usizeMax]] at this
      rw [this]
      simp only
      have hret : satAddUsize (satAddUsize (satAddUsize 4 (satMulUsize (es.length - 1) 4))
          (satMulUsize es.length 4)) (min (0 + lensSum len es) usizeMax)
          = min (natTotal len es) usizeMax := by
        unfold satAddUsize satMulUsize natTotal usizeMax; omega
      rw [hret]
      by_cases ht : natTotal len es > i32Max
      · have : min (natTotal len es) usizeMax > i32Max := by
          unfold usizeMax i32Max at *; omega
        simp only [this, if_true]
        constructor
        · intro h; cases h
        · rintro ⟨_, _, h, _⟩; omega
      · have h1 : min (natTotal len es) usizeMax = natTotal len es := by
          unfold usizeMax i32Max at *; omega
        rw [h1]
        simp only [ht, if_false]
        constructor
        · intro h; cases h; exact ⟨by omega, hv, by omega, rfl⟩
        · rintro ⟨_, _, _, rfl⟩; rfl
    · have hv' : ∃ p ∈ es, len p.2 > i32Max := by
        have := Classical.not_forall.mp hv
        obtain ⟨p, hp⟩ := this
        have hp' := Classical.not_imp.mp hp
        exact ⟨p, hp'.1, by omega⟩
      obtain ⟨r, s, he⟩ := sumLens_err len es hv' 0 0
      rw [he]
      simp only
      constructor
      · intro h; cases h
      · rintro ⟨_, h, _⟩; exact absurd h hv

theorem computeLen_err_iff (len : V → Nat) (es : List (Pair V)) :
    (∃ e, computeLen len es = .error e) ↔
      es.length > i32Max ∨ (∃ p ∈ es, len p.2 > i32Max) ∨ natTotal len es > i32Max := by
  constructor
  · rintro ⟨e, he⟩
    by_cases h1 : es.length > i32Max
    · exact Or.inl h1
    · by_cases h2 : ∃ p ∈ es, len p.2 > i32Max
      · exact Or.inr (Or.inl h2)
      · by_cases h3 : natTotal len es > i32Max
        · exact Or.inr (Or.inr h3)
        · exfalso
          have : computeLen len es = .ok (natTotal len es) :=
            (computeLen_ok_iff len es _).mpr ⟨by omega, fun p hp => by
              by_cases hpl : len p.2 > i32Max
              · exact absurd ⟨p, hp, hpl⟩ h2
              · omega, by omega, rfl⟩
          rw [this] at he; cases he
  · intro h
    cases hc : computeLen len es with
    | error e => exact ⟨e, rfl⟩
    | ok n =>
      exfalso
      obtain ⟨h1, h2, h3, _⟩ := (computeLen_ok_iff len es n).mp hc
      rcases h with h | ⟨p, hp, hpl⟩ | h
      · omega
      · have := h2 p hp; omega
      · omega

theorem mkWrapper_ok_iff (len : V → Nat) (es : List (Pair V)) (w : Wrapper V) :
    mkWrapper len es = .ok w ↔ computeLen len es = .ok w.len ∧ w.entries = es := by
  unfold mkWrapper
  cases h : computeLen len es with
  | error e => simp
  | ok n =>
    simp only [Except.ok.injEq]
    constructor
    · rintro rfl; exact ⟨rfl, rfl⟩
    · rintro ⟨h1, h2⟩; cases w; simp_all

theorem mkWrapper_err_iff (len : V → Nat) (es : List (Pair V)) :
    (∃ e, mkWrapper len es = .error e) ↔ ∃ e, computeLen len es = .error e := by
  unfold mkWrapper
  cases h : computeLen len es with
  | error e => simp
  | ok n => simp

/-- The limits do not depend on the order of the pairs. -/
theorem natTotal_perm (len : V → Nat) {a b : List (Pair V)} (h : a.Perm b) :
    natTotal len a = natTotal len b := by
  unfold natTotal lensSum
  rw [h.length_eq, (h.map _).sum_nat]

/-! ### `encode` -/

/-- The offsets still to be written when the running sum is `sum` and values of
lengths `lens` remain: `sum, sum + l₀, sum + l₀ + l₁, …` (one per remaining value). -/
def offsFrom (sum : Nat) : List Nat → List Nat
  | [] => []
  | l :: ls => sum :: offsFrom (sum + l) ls

/-- The offsets section for values of lengths `lens`: the cumulative end
offsets of all values but the last. -/
def offsetsSpec : List Nat → List Nat
  | [] => []
  | l :: ls => offsFrom l ls

@[simp] theorem offsFrom_length (sum : Nat) (ls : List Nat) : (offsFrom sum ls).length = ls.length := by
  induction ls generalizing sum with
  | nil => rfl
  | cons l ls ih => simp [offsFrom, ih]

@[simp] theorem offsetsSpec_length (ls : List Nat) : (offsetsSpec ls).length = ls.length - 1 := by
  cases ls <;> simp [offsetsSpec]

theorem offsFrom_getElem? (sum : Nat) (ls : List Nat) (i : Nat) (hi : i < ls.length) :
    (offsFrom sum ls)[i]? = some (sum + (ls.take i).sum) := by
  induction ls generalizing sum i with
  | nil => simp at hi
  | cons l ls ih =>
    cases i with
    | zero => simp [offsFrom]
    | succ j =>
      simp only [offsFrom, List.getElem?_cons_succ, List.take_succ_cons, List.sum_cons]
      rw [ih (sum + l) j (by simpa using hi)]
      congr 1; omega

/-- Offset `i` is the sum of the first `i + 1` value lengths. -/
theorem offsetsSpec_getElem? (ls : List Nat) (i : Nat) (hi : i + 1 < ls.length) :
    (offsetsSpec ls)[i]? = some ((ls.take (i + 1)).sum) := by
  cases ls with
  | nil => simp at hi
  | cons l ls =>
    simp only [offsetsSpec, List.take_succ_cons, List.sum_cons]
    exact offsFrom_getElem? l ls i (by simpa using hi)

theorem offsetsSpec_eq (ls : List Nat) :
    offsetsSpec ls = (List.range (ls.length - 1)).map (fun i => (ls.take (i + 1)).sum) := by
  apply List.ext_getElem?
  intro i
  by_cases hi : i + 1 < ls.length
  · rw [offsetsSpec_getElem? ls i hi]
    have : i < ls.length - 1 := by omega
    simp [this]
  · rw [List.getElem?_eq_none (by simp; omega), List.getElem?_eq_none (by simp; omega)]

theorem take_sum_le (ls : List Nat) (i : Nat) : (ls.take i).sum ≤ ls.sum := by
  induction ls generalizing i with
  | nil => simp
  | cons l ls ih =>
    cases i with
    | zero => simp
    | succ j => simp only [List.take_succ_cons, List.sum_cons]; have := ih j; omega

theorem take_sum_mono (ls : List Nat) {i j : Nat} (h : i ≤ j) : (ls.take i).sum ≤ (ls.take j).sum := by
  have : ls.take i = (ls.take j).take i := by rw [List.take_take]; congr 1; omega
  rw [this]; exact take_sum_le _ _

theorem encOffsets_some (len : V → Nat) (es : List (Pair V)) (sum : Nat)
    (h : sum + lensSum len es ≤ i32Max) :
    encOffsets len es (some sum) =
      some ((offsFrom sum (es.map (fun p => len p.2))).map le32).flatten := by
  induction es generalizing sum with
  | nil => simp [encOffsets, offsFrom]
  | cons e es ih =>
    rw [lensSum_cons] at h
    unfold encOffsets
    have h1 : ¬ len e.2 > i32Max := by omega
    have h2 : satAddU32 sum (len e.2) = sum + len e.2 := by
      unfold satAddU32 u32Max; unfold i32Max at h; omega
    simp only [h1, if_false, h2]
    have h3 : ¬ sum + len e.2 > i32Max := by omega
    simp only [h3, if_false]
    rw [ih (sum + len e.2) (by omega)]
    simp [offsFrom]

theorem encOffsets_none (len : V → Nat) (es : List (Pair V)) (h : lensSum len es ≤ i32Max) :
    encOffsets len es none = some ((offsetsSpec (es.map (fun p => len p.2))).map le32).flatten := by
  cases es with
  | nil => simp [encOffsets, offsetsSpec]
  | cons e es =>
    rw [lensSum_cons] at h
    unfold encOffsets
    have h1 : ¬ len e.2 > i32Max := by omega
    simp only [h1, if_false]
    rw [encOffsets_some len es (len e.2) h]
    simp [offsetsSpec]

/-- The layout, as a function of the pairs in their final order. -/
def layout (bytes : V → List UInt8) (len : V → Nat) (es : List (Pair V)) : List UInt8 :=
  le32 es.length ++ ((offsetsSpec (es.map (fun p => len p.2))).map le32).flatten
    ++ (es.map (fun e => le32 (key e))).flatten ++ (es.map (fun e => bytes e.2)).flatten

theorem encodeEntries_eq (bytes : V → List UInt8) (len : V → Nat) (es : List (Pair V))
    (hn : es.length ≤ i32Max) (ht : natTotal len es ≤ i32Max) :
    encodeEntries bytes len es = some (layout bytes len es) := by
  unfold encodeEntries
  simp only [Nat.not_lt.mpr hn, if_false]
  rw [encOffsets_none len es (by unfold natTotal at ht; omega)]
  rfl

theorem flatten_map_le32_length {α : Type} (f : α → Nat) (l : List α) :
    ((l.map (fun e => le32 (f e))).flatten).length = 4 * l.length := by
  induction l with
  | nil => rfl
  | cons x xs ih => simp [ih]; omega

theorem layout_length (bytes : V → List UInt8) (len : V → Nat) (es : List (Pair V))
    (hl : ∀ p ∈ es, len p.2 = (bytes p.2).length) :
    (layout bytes len es).length = natTotal len es := by
  unfold layout natTotal lensSum
  rw [List.length_append, List.length_append, List.length_append, le32_length,
    flatten_le32_length, offsetsSpec_length, List.length_map, flatten_map_le32_length,
    List.length_flatten, List.map_map]
  have : (es.map (List.length ∘ fun e => bytes e.2)) = es.map (fun p => len p.2) := by
    apply List.map_congr_left
    intro p hp; simp [hl p hp]
  rw [this]

/-! ### The constructors -/

/-- `w` is what one of the three constructors returned for the caller's list `ps`. -/
def Accepted (len : V → Nat) (ps : List (Pair V)) (w : Wrapper V) : Prop :=
  Wrapper.new len ps = .ok w ∨ Wrapper.newFromSlice len ps = .ok w ∨
    Wrapper.newFromSorted len ps = .ok w

theorem newFromSorted_ok_iff (len : V → Nat) (ps : List (Pair V)) (w : Wrapper V) :
    Wrapper.newFromSorted len ps = .ok w ↔
      List.Pairwise (· ≤ ·) (ps.map key) ∧ mkWrapper len ps = .ok w := by
  unfold Wrapper.newFromSorted
  cases h : firstDecrease (ps.map key) 0 with
  | none =>
    simp only
    have := (firstDecrease_none_iff _ 0).mp h
    exact ⟨fun hw => ⟨this, hw⟩, fun hw => hw.2⟩
  | some x =>
    obtain ⟨i, a, b⟩ := x
    simp only
    constructor
    · intro hw; cases hw
    · rintro ⟨hs, _⟩
      have := (firstDecrease_none_iff _ 0).mpr hs
      rw [h] at this; cases this

theorem sorted_sortByTag_eq (ps : List (Pair V)) (h : List.Pairwise (fun a b => key a ≤ key b) ps) :
    sortByTag ps = ps := by
  induction ps with
  | nil => rfl
  | cons e es ih =>
    obtain ⟨he, hes⟩ := List.pairwise_cons.mp h
    show insertByTag e (sortByTag es) = e :: es
    rw [ih hes]
    cases es with
    | nil => rfl
    | cons x xs =>
      unfold insertByTag
      simp [he x (by simp)]

/-- Whatever the constructor, the accepted wrapper holds the stable sort of the
caller's list (for `new_from_sorted` the list was sorted already), and its cached
length passed `compute_len`. -/
theorem Accepted.spec {len : V → Nat} {ps : List (Pair V)} {w : Wrapper V} (h : Accepted len ps w) :
    w.entries = sortByTag ps ∧ computeLen len w.entries = .ok w.len := by
  rcases h with h | h | h
  · obtain ⟨h1, h2⟩ := (mkWrapper_ok_iff len _ w).mp h
    exact ⟨h2, by rw [h2]; exact h1⟩
  · obtain ⟨h1, h2⟩ := (mkWrapper_ok_iff len _ w).mp h
    exact ⟨h2, by rw [h2]; exact h1⟩
  · obtain ⟨hs, hm⟩ := (newFromSorted_ok_iff len ps w).mp h
    obtain ⟨h1, h2⟩ := (mkWrapper_ok_iff len _ w).mp hm
    refine ⟨?_, by rw [h2]; exact h1⟩
    rw [h2, sorted_sortByTag_eq]
    exact (List.pairwise_map.mp hs)

theorem Accepted.encode_eq {len : V → Nat} {ps : List (Pair V)} {w : Wrapper V}
    (h : Accepted len ps w) (bytes : V → List UInt8) :
    w.encode bytes len = some (layout bytes len w.entries) ∧ w.len = natTotal len w.entries ∧
      natTotal len w.entries ≤ i32Max ∧ w.entries.length ≤ i32Max := by
  obtain ⟨_, h2⟩ := h.spec
  obtain ⟨h3, _, h5, h6⟩ := (computeLen_ok_iff len _ _).mp h2
  exact ⟨encodeEntries_eq bytes len _ h3 h5, h6, h5, h3⟩

end Woodpile.RoughTlv

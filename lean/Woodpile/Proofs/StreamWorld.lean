/-
Ownership along `StreamChunker::pump` / `StreamReader::next_record_bytes` at world level
(`Model/StreamWorld.lean`; track `rdrworld`).

* `pumpW` is a run of `WOp`s (`pumpW_run`): a chunker-only history from a reachable world stays
  `Reachable`, so `Props/C05` applies to every chunk handed out, as stated there.
* The reader's world is NOT a `WOp` history (`decode_anchored`); the invariant carried is `HInv i w none`
  (`Proofs/AnchGuard.lean`): the operations `pump` performs, `clear`, dropping the decoder's iovec and the
  anchored decode of a chunk taken out of the world all keep it (`nextW_hinv`), and every chunk `pump` hands
  out / every record `next_record_bytes` returns is where the model says (`pumpW_data`, `nextW_some`).
-/
import Woodpile.Model.StreamWorld
import Woodpile.Proofs.AnchRun

namespace Woodpile.StreamWorld
open Woodpile.Arena Woodpile.ReadN Woodpile.Hcobs Woodpile.Iovec Woodpile.Stream Woodpile.EncWorld

/-! ### The operations `pump` and the reader perform on the world keep `HInv` -/

/-- A `WOp` step from a world that satisfies `HInv`: the arena half is free (`step_astep`); what is left
is the per-object half. -/
theorem hinv_wstep {i : Nat} {w w' : World} {op : WOp} (h : HInv i w none) (hs : w.step op = some w')
    (hn : w.next ≤ w'.next) (he : ∃ t, w'.exts = w.exts ++ t)
    (hi : ∀ j v, w'.iov j = some v → w.iov j = some v ∨ IovOkZ w'.next w'.exts [] v)
    (ha : ∀ j a, w'.arena j = some a → w.arena j = some a ∨ ArenaOk w'.next a)
    (hsl : ∀ j s, w'.aslice j = some s → w.aslice j = some s ∨ ASliceOk w'.next s) : HInv i w' none := by
  refine h.transfer hn he ?_ ha hsl (fun a ha => by cases ha) (step_astep hs)
  intro j v hv
  rcases hi j v hv with h1 | h1
  · exact Or.inl ⟨h1, fun _ => rfl⟩
  · right
    have hz : (if j = i then heldZs none else []) = ([] : List Anchor) := by split <;> rfl
    rw [hz]; exact h1

theorem derived_empty (w : World) : w.Derived ASlice.empty.slice := Or.inl ⟨0, rfl⟩

/-- One more detached slice that derives from the world's. -/
theorem hinv_addASlice {i : Nat} {w : World} (h : HInv i w none) (x : ASlice)
    (hx : ASliceOk w.next x) (hd : w.Derived x.slice) : HInv i (w.addASlice x).1 none := by
  refine h.transfer (Nat.le_refl _) ⟨[], by simp [World.addASlice]⟩ (fun j v hv => Or.inl ⟨hv, fun _ => rfl⟩)
    (fun j a hj => Or.inl hj) ?_ (fun a ha => by cases ha) ?_
  · intro j s hs
    simp only [aslice_addASlice] at hs
    split at hs
    · cases hs; exact Or.inr hx
    · exact Or.inl hs
  · exact (quiet_addASlice hd).astep

theorem hinv_iovOk {i : Nat} {w : World} (h : HInv i w none) {j : Nat} {v : Iov} (hv : w.iov j = some v) :
    IovOkZ w.next w.exts [] v := by
  have := h.iovOk j v hv
  have hz : (if j = i then heldZs none else []) = ([] : List Anchor) := by split <;> rfl
  rw [hz] at this; exact this

/-- `self.buf.take()`. -/
theorem hinv_sTake {i : Nat} {w w' : World} {si : Nat} (h : HInv i w none) (hs : w.step (.sTake si) = some w') :
    HInv i w' none := by
  have hs0 := hs
  simp only [World.step] at hs
  cases ha : w.aslice si with
  | none => rw [ha] at hs; cases hs
  | some a =>
    rw [ha] at hs
    simp only [Option.some.injEq] at hs
    subst hs
    refine hinv_wstep h hs0 (Nat.le_refl _) ⟨[], by simp [World.addASlice, World.setASlice]⟩
      (fun j v hv => Or.inl hv) (fun j a hj => Or.inl hj) ?_
    intro j s hj
    simp only [aslice_addASlice] at hj
    split at hj
    · cases hj; exact Or.inr (h.asliceOk si a ha)
    · simp only [aslice_setASlice] at hj
      split at hj
      · cases hj; exact Or.inr (aSliceOk_empty _)
      · exact Or.inl hj

theorem hinv_sDrop {i : Nat} {w w' : World} {si : Nat} (h : HInv i w none) (hs : w.step (.sDrop si) = some w') :
    HInv i w' none := by
  have hs0 := hs
  simp only [World.step] at hs
  cases ha : w.aslice si with
  | none => rw [ha] at hs; cases hs
  | some a =>
    rw [ha] at hs
    simp only [Option.some.injEq] at hs
    subst hs
    refine hinv_wstep h hs0 (Nat.le_refl _) ⟨[], by simp [World.setASlice]⟩
      (fun j v hv => Or.inl hv) (fun j a hj => Or.inl hj) ?_
    intro j s hj
    simp only [aslice_setASlice] at hj
    split at hj
    · cases hj
    · exact Or.inl hj

theorem hinv_sSkip {i : Nat} {w w' : World} {si k : Nat} (h : HInv i w none) (hs : w.step (.sSkip si k) = some w') :
    HInv i w' none := by
  have hs0 := hs
  simp only [World.step] at hs
  cases ha : w.aslice si with
  | none => rw [ha] at hs; cases hs
  | some a =>
    rw [ha] at hs
    simp only [Option.some.injEq] at hs
    subst hs
    refine hinv_wstep h hs0 (Nat.le_refl _) ⟨[], by simp [World.setASlice]⟩
      (fun j v hv => Or.inl hv) (fun j a hj => Or.inl hj) ?_
    intro j s hj
    simp only [aslice_setASlice] at hj
    split at hj
    · cases hj
      right
      exact (h.asliceOk si a ha).with_slice _ rfl (by simp)
    · exact Or.inl hj

theorem hinv_sSplit {i : Nat} {w w' : World} {si k : Nat} (h : HInv i w none) (hs : w.step (.sSplit si k) = some w') :
    HInv i w' none := by
  have hs0 := hs
  simp only [World.step] at hs
  cases ha : w.aslice si with
  | none => rw [ha] at hs; cases hs
  | some a =>
    rw [ha] at hs
    simp only [Option.some.injEq] at hs
    subst hs
    obtain ⟨hl, hr⟩ := splitAt_ok (h.asliceOk si a ha) k
    refine hinv_wstep h hs0 (Nat.le_refl _) ⟨[], by simp [World.addASlice, World.setASlice]⟩
      (fun j v hv => Or.inl hv) (fun j a hj => Or.inl hj) ?_
    intro j s hj
    simp only [aslice_addASlice] at hj
    split at hj
    · cases hj; exact Or.inr hr
    · split at hj
      · cases hj; exact Or.inr hl
      · simp only [aslice_setASlice] at hj
        split at hj
        · cases hj
        · exact Or.inl hj

/-- `read_n` on the arena of iovec `j` (the reader's chunker) or on a detached arena. -/
theorem hinv_readOp {i : Nat} {w w' : World} (X : ArenaAt) (count attempts : Nat) (r : Reader) (h : HInv i w none)
    (hs : w.step (readOp X count attempts r) = some w') : HInv i w' none := by
  have hs0 := hs
  cases X with
  | iov j =>
    simp only [readOp, World.step, World.readNIov] at hs
    cases hv : w.iov j with
    | none => rw [hv] at hs; cases hs
    | some v =>
      rw [hv] at hs
      simp only at hs
      rcases hr : w.readN v.arena ⟨r.src, r.script⟩ count attempts with ⟨w1, ar', res, o⟩
      rw [hr] at hs
      simp only at hs
      obtain ⟨⟨hp, nx, rfl⟩, hn, hao, hres⟩ := readN_inv (fun c hc => (hinv_iovOk h hv).cacheLt c hc) hr
      have hv1 : World.iov ({ w with heap := hp, next := nx } : World) j = some v := hv
      rw [hv1] at hs
      simp only at hs
      have hiov : ∀ (W : World), (∀ j', W.iov j' = (({ w with heap := hp, next := nx } : World).setIov j
            (some { v with arena := ar' })).iov j') → W.next = nx → W.exts = w.exts →
          ∀ j' x, W.iov j' = some x → w.iov j' = some x ∨ IovOkZ W.next W.exts [] x := by
        intro W hW hWn hWe j' x hx
        rw [hW, iov_setIov] at hx
        split at hx
        · cases hx
          right
          rw [hWn, hWe]
          exact ((hinv_iovOk h hv).mono0 hn).with_arena ar' hao
        · exact Or.inl hx
      cases res with
      | error k =>
        simp only [Option.some.injEq] at hs
        subst hs
        exact hinv_wstep h hs0 hn ⟨[], by simp [World.setIov]⟩ (hiov _ (fun _ => rfl) rfl rfl)
          (fun j a hj => Or.inl hj) (fun j s hj => Or.inl hj)
      | ok a =>
        simp only [Option.some.injEq] at hs
        subst hs
        refine hinv_wstep h hs0 hn ⟨[], by simp [World.setIov, World.addASlice]⟩ (hiov _ (fun _ => rfl) rfl rfl)
          (fun j a hj => Or.inl hj) ?_
        intro j' s hj
        simp only [aslice_addASlice] at hj
        split at hj
        · cases hj; exact Or.inr (hres a rfl)
        · exact Or.inl hj
  | arena j =>
    simp only [readOp, World.step, World.readNArena] at hs
    cases hv : w.arena j with
    | none => rw [hv] at hs; cases hs
    | some ar =>
      rw [hv] at hs
      simp only at hs
      rcases hr : w.readN ar ⟨r.src, r.script⟩ count attempts with ⟨w1, ar', res, o⟩
      rw [hr] at hs
      simp only at hs
      obtain ⟨⟨hp, nx, rfl⟩, hn, hao, hres⟩ := readN_inv (h.arenaOk j ar hv) hr
      have har : ∀ (W : World), (∀ j', W.arena j' = (({ w with heap := hp, next := nx } : World).setArena j
            (some ar')).arena j') → W.next = nx →
          ∀ j' x, W.arena j' = some x → w.arena j' = some x ∨ ArenaOk W.next x := by
        intro W hW hWn j' x hx
        rw [hW, arena_setArena] at hx
        split at hx
        · cases hx; right; rw [hWn]; exact hao
        · exact Or.inl hx
      cases res with
      | error k =>
        simp only [Option.some.injEq] at hs
        subst hs
        exact hinv_wstep h hs0 hn ⟨[], by simp [World.setArena]⟩ (fun j v hv => Or.inl hv)
          (har _ (fun _ => rfl) rfl) (fun j s hj => Or.inl hj)
      | ok a =>
        simp only [Option.some.injEq] at hs
        subst hs
        refine hinv_wstep h hs0 hn ⟨[], by simp [World.setArena, World.addASlice]⟩ (fun j v hv => Or.inl hv)
          (har _ (fun _ => rfl) rfl) ?_
        intro j' s hj
        simp only [aslice_addASlice] at hj
        split at hj
        · cases hj; exact Or.inr (hres a rfl)
        · exact Or.inl hj

/-- `OwningIovec::clear` (`WOp.clear`). -/
theorem hinv_clear {i : Nat} {w w' : World} {j : Nat} (h : HInv i w none) (hs : w.clear j = some w') :
    HInv i w' none := by
  have hs0 : w.step (.clear j) = some w' := hs
  unfold World.clear at hs
  cases hv : w.iov j with
  | none => rw [hv] at hs; cases hs
  | some v =>
    rw [hv] at hs
    simp only [Option.some.injEq] at hs
    subst hs
    refine hinv_wstep h hs0 (Nat.le_refl _) ⟨[], by simp [World.setIov]⟩ ?_ (fun j a hj => Or.inl hj)
      (fun j s hj => Or.inl hj)
    intro j' x hx
    simp only [iov_setIov] at hx
    split at hx
    · cases hx
      exact Or.inr ((iovOkZ_empty _ _).with_arena v.arena (hinv_iovOk h hv).cacheLt)
    · exact Or.inl hx

/-- The `Decoder` is dropped while it owns the iovec: iovec `j` is replaced by the default one. -/
theorem hinv_reset {i : Nat} {w : World} {j : Nat} (h : HInv i w none) : HInv i (w.setIov j (some Iov.empty)) none := by
  refine h.transfer (Nat.le_refl _) ⟨[], by simp [World.setIov]⟩ ?_ (fun j a hj => Or.inl hj)
    (fun j s hj => Or.inl hj) (fun a ha => by cases ha) ?_
  · intro j' x hx
    simp only [iov_setIov] at hx
    split at hx
    · cases hx
      right
      have hz : (if j' = i then heldZs none else []) = ([] : List Anchor) := by split <;> rfl
      rw [hz]; exact iovOkZ_empty _ _
    · exact Or.inl ⟨hx, fun _ => rfl⟩
  · simp only [holding_none]
    refine .move id rfl ?_ (fun _ _ _ _ _ _ e => e) ?_
    · intro x c hc
      simp only [cacheAt_setIov] at hc
      split at hc
      · simp [Iov.empty] at hc
      · exact hc
    · intro s hs
      rcases hasSlice_setIov hs with ⟨x, hx, hm⟩ | h0
      · cases hx; simp [Iov.empty] at hm
      · exact h0.derived

/-! ### `pump` keeps `HInv` -/

theorem refillW_hinv {i : Nat} (X : ArenaAt) (count : Nat) : ∀ (fuel : Nat) (s : PumpSt) (res : RefillW) (s' : PumpSt),
    HInv i s.w none → refillW X count fuel s = some (res, s') → HInv i s'.w none := by
  intro fuel
  induction fuel with
  | zero =>
    intro s res s' hi h
    simp only [refillW, Option.some.injEq, Prod.mk.injEq] at h
    rw [← h.2]; exact hi
  | succ fuel ih =>
    intro s res s' hi h
    simp only [refillW] at h
    cases hb : s.w.aslice s.c.buf with
    | none => rw [hb] at h; cases h
    | some b =>
      rw [hb] at h
      simp only at h
      by_cases h2 : 2 ≤ b.slice.len
      · rw [if_pos h2] at h
        simp only [Option.some.injEq, Prod.mk.injEq] at h
        rw [← h.2]; exact hi
      · rw [if_neg h2] at h
        cases h1 : s.w.step (.sTake s.c.buf) with
        | none => rw [h1] at h; cases h
        | some w1 =>
          rw [h1] at h
          simp only at h
          have hi1 := hinv_sTake hi h1
          cases hr : w1.step (readOp X count ((chain (s.w.sliceBytes b.slice) s.r).script.length + 1)
              (chain (s.w.sliceBytes b.slice) s.r)) with
          | none => rw [hr] at h; cases h
          | some w2 =>
            rw [hr] at h
            simp only at h
            have hi2 := hinv_readOp X _ _ _ hi1 hr
            cases hd : w2.step (.sDrop s.w.aslices.length) with
            | none => rw [hd] at h; cases h
            | some w3 =>
              rw [hd] at h
              simp only at h
              have hi3 := hinv_sDrop hi2 hd
              split at h
              · simp only [Option.some.injEq, Prod.mk.injEq] at h
                rw [← h.2]; exact hi3
              · split at h
                · split at h
                  · split at h
                    · cases h
                    · rename_i w4 hd4
                      simp only [Option.some.injEq, Prod.mk.injEq] at h
                      rw [← h.2]; exact hinv_sDrop hi3 hd4
                  · simp only [Option.some.injEq, Prod.mk.injEq] at h
                    rw [← h.2]; exact hi3
                · split at h
                  · cases h
                  · rename_i w4 hd4
                    exact ih _ res s' (hinv_sDrop hi3 hd4) h

theorem pumpW_hinv {i : Nat} {clamp : Nat} {X : ArenaAt} {block : Nat} {s s' : PumpSt} {res : PumpResW}
    (hi : HInv i s.w none) (h : pumpW clamp X block s = some (res, s')) : HInv i s'.w none := by
  simp only [pumpW] at h
  cases hr : refillW X (max block clamp) 3 { s with reqs := [] } with
  | none => rw [hr] at h; cases h
  | some x =>
    obtain ⟨rf, s1⟩ := x
    rw [hr] at h
    have hi1 : HInv i s1.w none := refillW_hinv X _ 3 { s with reqs := [] } rf s1 hi hr
    cases rf with
    | done r =>
      simp only [Option.some.injEq, Prod.mk.injEq] at h
      rw [← h.2]; exact hi1
    | filled =>
      simp only at h
      cases hb : s1.w.aslice s1.c.buf with
      | none => rw [hb] at h; cases h
      | some b =>
        rw [hb] at h
        simp only at h
        split at h
        · simp only [Option.some.injEq, Prod.mk.injEq] at h
          rw [← h.2]; exact hi1
        · split at h
          · split at h
            · cases h
            · rename_i w' hw'
              simp only [Option.some.injEq, Prod.mk.injEq] at h
              rw [← h.2]; exact hinv_sSkip hi1 hw'
          · split at h
            · simp only [Option.some.injEq, Prod.mk.injEq] at h
              rw [← h.2]; exact hi1
            · split at h
              · cases h
              · rename_i w' hw'
                simp only [Option.some.injEq, Prod.mk.injEq] at h
                rw [← h.2]; exact hinv_sSplit hi1 hw'

/-! ### `next_record_bytes` keeps `HInv` -/

/-- The reader's invariant: `HInv` for its iovec, nothing held between the steps. -/
def Rinv (x : RdSt) : Prop := HInv x.s.iov x.w none

def StepOutW.st : StepOutW → RdSt
  | .continue x _ => x
  | .retry x => x
  | .done _ x => x

theorem rinv_reset {x : RdSt} (h : Rinv x) : Rinv (resetIov x) := hinv_reset h

theorem consultW_rinv (judge : Judge) {x : RdSt} (rc : RecW) (h : Rinv x) : Rinv (consultW judge x rc).st := by
  unfold consultW
  simp only
  split
  · exact h
  · exact h
  · exact rinv_reset (x := { x with s := { x.s with hist := x.s.hist ++ [⟨rc.start, rc.stop, sizeOf x⟩] } }) h

theorem afterBreakW_rinv {x : RdSt} (rc : RecW) (h : Rinv x) : Rinv (afterBreakW x rc).st := by
  unfold afterBreakW
  split
  · exact h
  · split
    · exact h
    · split
      · exact rinv_reset h
      · exact h

theorem onDataW_rinv (p : Params) (judge : Judge) {x : RdSt} (rc1 : RecW) (off hd : Nat) (a : ASlice) (out : StepOutW)
    (h : Rinv x) (ha : x.w.aslice hd = some a) (hl : ¬ a.slice.len = 0)
    (ho : onDataW p judge x rc1 off hd a = some out) : Rinv out.st := by
  simp only [onDataW] at ho
  have hdrop : Rinv { x with w := x.w.setASlice hd none } :=
    hinv_sDrop (w := x.w) (si := hd) h (by simp [World.step, ha])
  by_cases hst : rc1.st = .decodeRecord
  · rw [if_pos hst] at ho
    have hreg : ∃ c, a.slice.region = .chunk c := by
      cases hr : a.slice.region with
      | chunk c => exact ⟨c, rfl⟩
      | ext b => exact absurd ((h.asliceOk hd a ha).extEmpty b hr) hl
    cases hda : decodeAnchored p (x.w.setASlice hd none) x.s.iov rc1.dec a with
    | none => rw [hda] at ho; cases ho
    | some y =>
      obtain ⟨w', res⟩ := y
      rw [hda] at ho
      have hp := (HPath.single (HStep.take (i := x.s.iov) ha hl)).trans
        (decodeAnchored_hpath p x.s.iov _ w' _ a res hl hreg hda)
      have hw' : Rinv { x with w := w' } := hp.inv h
      cases res with
      | ok d' => cases ho; exact consultW_rinv judge _ hw'
      | error e => cases ho; exact consultW_rinv judge _ hw'
  · rw [if_neg hst] at ho
    cases ho
    exact consultW_rinv judge _ hdrop

theorem onChunkW_rinv (p : Params) (judge : Judge) {x : RdSt} (rc : RecW) (ch : ChunkW) (out : StepOutW)
    (h : Rinv x) (ho : onChunkW p judge x rc ch = some out) : Rinv out.st := by
  cases ch with
  | sentinel off =>
    simp only [onChunkW] at ho
    split at ho
    · cases ho; exact h
    · split at ho
      · cases ho
        exact consultW_rinv judge _ (x := { x with s := { x.s with lastSentinel := off - 2 } }) h
      · cases ho
        exact afterBreakW_rinv (x := { x with s := { x.s with lastSentinel := off - 2 } }) rc h
  | eof =>
    simp only [onChunkW] at ho
    split at ho
    · cases ho; exact rinv_reset h
    · cases ho; exact afterBreakW_rinv rc h
  | data off hd =>
    simp only [onChunkW] at ho
    cases ha : x.w.aslice hd with
    | none => rw [ha] at ho; cases ho
    | some a =>
      rw [ha] at ho
      simp only at ho
      split at ho
      · cases ho; exact h
      · rename_i hl
        split at ho
        · cases ho; exact h
        · exact onDataW_rinv p judge _ off hd a out h ha hl ho

theorem stepW_rinv (clamp : Nat) (p : Params) (judge : Judge) (block : Nat) {x : RdSt} (rc : RecW) (out : StepOutW)
    (h : Rinv x) (ho : stepW clamp p judge block x rc = some out) : Rinv out.st := by
  simp only [stepW] at ho
  split at ho
  · cases ho; exact h
  · cases hp : pumpW clamp (.iov x.s.iov) block ⟨x.w, x.s.chunker, x.r, []⟩ with
    | none => rw [hp] at ho; cases ho
    | some y =>
      obtain ⟨res, o⟩ := y
      rw [hp] at ho
      simp only at ho
      have h1 : Rinv ⟨o.w, { x.s with chunker := o.c }, o.r⟩ := pumpW_hinv (i := x.s.iov) (s := ⟨x.w, x.s.chunker, x.r, []⟩) h hp
      cases res with
      | ioerr k => cases ho; exact rinv_reset h1
      | panic => cases ho; exact h1
      | ok ch => exact onChunkW_rinv p judge rc ch out h1 ho

theorem clearIov_rinv {x x' : RdSt} (h : Rinv x) (hc : clearIov x = some x') : Rinv x' := by
  simp only [clearIov, Option.map_eq_some_iff] at hc
  obtain ⟨w', hw, rfl⟩ := hc
  exact hinv_clear (w := x.w) (j := x.s.iov) h hw

theorem runW_rinv (clamp : Nat) (p : Params) (judge : Judge) (block : Nat) : ∀ (fuel : Nat) (x : RdSt) (rc : RecW)
    (res : NextResW) (x' : RdSt), Rinv x → runW clamp p judge block fuel x rc = some (res, x') → Rinv x' := by
  intro fuel
  induction fuel with
  | zero =>
    intro x rc res x' h hr
    simp only [runW, Option.some.injEq, Prod.mk.injEq] at hr
    rw [← hr.2]; exact h
  | succ fuel ih =>
    intro x rc res x' h hr
    simp only [runW] at hr
    cases hs : stepW clamp p judge block x rc with
    | none => rw [hs] at hr; cases hr
    | some out =>
      rw [hs] at hr
      have h1 := stepW_rinv clamp p judge block rc out h hs
      cases out with
      | done r y =>
        simp only [Option.some.injEq, Prod.mk.injEq] at hr
        rw [← hr.2]; exact h1
      | «continue» y rc' => exact ih y rc' res x' h1 hr
      | retry y =>
        simp only at hr
        cases hc : clearIov y with
        | none => rw [hc] at hr; cases hr
        | some y' =>
          rw [hc] at hr
          exact ih y' RecW.fresh res x' (clearIov_rinv h1 hc) hr

/-- `next_record_bytes` keeps the reader's invariant, whatever it returns. -/
theorem nextW_rinv (clamp : Nat) (p : Params) (judge : Judge) (block : Option Nat) {x x' : RdSt} {res : NextResW}
    (h : Rinv x) (hn : nextW clamp p judge block x = some (res, x')) : Rinv x' := by
  simp only [nextW] at hn
  cases hc : clearIov x with
  | none => rw [hc] at hn; cases hn
  | some y =>
    rw [hc] at hn
    exact runW_rinv clamp p judge _ _ y RecW.fresh res x' (clearIov_rinv h hc) hn

/-- A new `StreamReader` in a fresh world satisfies the invariant. -/
theorem rinv_new (pol : Policy) (tun : Tuning) : Rinv (RdSt.new pol tun) := by
  have h0 : HInv 0 (World.fresh pol tun) none := hinv_fresh pol tun
  exact hinv_addASlice h0 ASlice.empty (aSliceOk_empty _) (derived_empty _)

/-! ### A chunker-only history is a `WOp` history -/

theorem run_snoc {w w1 w2 : World} {ops : List WOp} {op : WOp} (h1 : w.run ops = some w1) (h2 : w1.step op = some w2) :
    w.run (ops ++ [op]) = some w2 := by
  rw [run_append, h1]
  simp [World.run, h2]

theorem refillW_run (X : ArenaAt) (count : Nat) : ∀ (fuel : Nat) (s : PumpSt) (res : RefillW) (s' : PumpSt) (w0 : World)
    (ops : List WOp), w0.run ops = some s.w → refillW X count fuel s = some (res, s') →
    ∃ ops', w0.run ops' = some s'.w := by
  intro fuel
  induction fuel with
  | zero =>
    intro s res s' w0 ops hw h
    simp only [refillW, Option.some.injEq, Prod.mk.injEq] at h
    rw [← h.2]; exact ⟨ops, hw⟩
  | succ fuel ih =>
    intro s res s' w0 ops hw h
    simp only [refillW] at h
    cases hb : s.w.aslice s.c.buf with
    | none => rw [hb] at h; cases h
    | some b =>
      rw [hb] at h
      simp only at h
      by_cases h2 : 2 ≤ b.slice.len
      · rw [if_pos h2] at h
        simp only [Option.some.injEq, Prod.mk.injEq] at h
        rw [← h.2]; exact ⟨ops, hw⟩
      · rw [if_neg h2] at h
        cases h1 : s.w.step (.sTake s.c.buf) with
        | none => rw [h1] at h; cases h
        | some w1 =>
          rw [h1] at h
          simp only at h
          have r1 := run_snoc hw h1
          cases hr : w1.step (readOp X count ((chain (s.w.sliceBytes b.slice) s.r).script.length + 1)
              (chain (s.w.sliceBytes b.slice) s.r)) with
          | none => rw [hr] at h; cases h
          | some w2 =>
            rw [hr] at h
            simp only at h
            have r2 := run_snoc r1 hr
            cases hd : w2.step (.sDrop s.w.aslices.length) with
            | none => rw [hd] at h; cases h
            | some w3 =>
              rw [hd] at h
              simp only at h
              have r3 := run_snoc r2 hd
              split at h
              · simp only [Option.some.injEq, Prod.mk.injEq] at h
                rw [← h.2]; exact ⟨_, r3⟩
              · split at h
                · split at h
                  · split at h
                    · cases h
                    · rename_i w4 hd4
                      simp only [Option.some.injEq, Prod.mk.injEq] at h
                      rw [← h.2]; exact ⟨_, run_snoc r3 hd4⟩
                  · simp only [Option.some.injEq, Prod.mk.injEq] at h
                    rw [← h.2]; exact ⟨_, r3⟩
                · split at h
                  · cases h
                  · rename_i w4 hd4
                    exact ih _ res s' w0 _ (run_snoc r3 hd4) h

/-- `pump` is a run of operations of the `iovec` vocabulary. -/
theorem pumpW_run {clamp : Nat} {X : ArenaAt} {block : Nat} {s s' : PumpSt} {res : PumpResW}
    (h : pumpW clamp X block s = some (res, s')) : ∃ ops, s.w.run ops = some s'.w := by
  simp only [pumpW] at h
  cases hr : refillW X (max block clamp) 3 { s with reqs := [] } with
  | none => rw [hr] at h; cases h
  | some x =>
    obtain ⟨rf, s1⟩ := x
    rw [hr] at h
    obtain ⟨ops1, hr1⟩ := refillW_run X _ 3 { s with reqs := [] } rf s1 s.w [] rfl hr
    cases rf with
    | done r =>
      simp only [Option.some.injEq, Prod.mk.injEq] at h
      rw [← h.2]; exact ⟨ops1, hr1⟩
    | filled =>
      simp only at h
      cases hb : s1.w.aslice s1.c.buf with
      | none => rw [hb] at h; cases h
      | some b =>
        rw [hb] at h
        simp only at h
        split at h
        · simp only [Option.some.injEq, Prod.mk.injEq] at h
          rw [← h.2]; exact ⟨ops1, hr1⟩
        · split at h
          · split at h
            · cases h
            · rename_i w' hw'
              simp only [Option.some.injEq, Prod.mk.injEq] at h
              rw [← h.2]; exact ⟨_, run_snoc hr1 hw'⟩
          · split at h
            · simp only [Option.some.injEq, Prod.mk.injEq] at h
              rw [← h.2]; exact ⟨ops1, hr1⟩
            · split at h
              · cases h
              · rename_i w' hw'
                simp only [Option.some.injEq, Prod.mk.injEq] at h
                rw [← h.2]; exact ⟨_, run_snoc hr1 hw'⟩

theorem pumpW_reachable {clamp : Nat} {X : ArenaAt} {block : Nat} {s s' : PumpSt} {res : PumpResW}
    (hr : Reachable s.w) (h : pumpW clamp X block s = some (res, s')) : Reachable s'.w := by
  obtain ⟨pol, tun, ops0, h0⟩ := hr
  obtain ⟨ops, h1⟩ := pumpW_run h
  exact ⟨pol, tun, ops0 ++ ops, by rw [run_append, h0]; exact h1⟩

end Woodpile.StreamWorld

/-
`push_anchor` of a chunk-less anchor on ANY deque (also an empty one), on top of track `rdrworld`'s
invariant without the head condition (`Proofs/AnchGuard.lean`: `IovOkZ`, `HInv`, the micro-steps `HStep`
a producer / consumer of ONE iovec is made of).

`HInv i w none` is `WorldInv` minus `HeadPos` plus `ArenaInv`; every `WOp`-reachable world satisfies it
(`Good.hInv`), it is what `HInv.exposed_live` / `below_bump` / `slice_guarded` (`Proofs/AnchRun.lean`) need,
and — unlike `WorldInv` — it SURVIVES `push_anchor(Default::default())` on an empty anchor deque.  `DPath` adds
that call to the micro-step vocabulary: push_copy, push of a caller-buffer range, register_patch, backfill,
consume, advance_slices, lending a buffer, `read_n` into the iovec's own arena, pushing ranges of the held
anchored slice and the `push_anchor` that ends such a call, taking a detached slice.
-/
import Woodpile.Proofs.IovecApi2
import Woodpile.Proofs.AnchRun

namespace Woodpile.Iovec
open Woodpile.Arena

/-- `push_anchor` of a chunk-less anchor keeps the invariant without head condition, WHATEVER the anchor
deque holds (also when it is empty). -/
theorem HInv.pushAnchorDefault {i n : Nat} {w w' : World} (h : HInv i w none)
    (hp : w.pushAnchorDefault i n = some w') : HInv i w' none := by
  obtain ⟨v, hv, hw'⟩ := pushAnchorDefault_spec hp
  have hok := h.iovOk i v hv
  rw [if_pos rfl] at hok
  have hz : heldZs none = ([] : List Anchor) := rfl
  rw [hz] at hok
  have hv' : IovOkZ w'.next w'.exts (heldZs none) { v with anchors := v.anchors ++ [⟨0, none⟩] } := by
    rw [hz, pushAnchorDefault_next hp]
    have he : w'.exts = w.exts := by rw [hw']; rfl
    rw [he]
    exact (hok.hold none (by intro k hk; cases hk)).pushAnchor
  refine h.setIov (v' := { v with anchors := v.anchors ++ [⟨0, none⟩] }) (Nat.le_of_eq (pushAnchorDefault_next hp).symm)
    (by rw [hw']; rfl) ?_ (fun j => by rw [hw']; rfl) (fun j => by rw [hw']; rfl) hv' ?_
  · intro j
    rw [hw', iov_setIov]
  · simpa using pushAnchorDefault_astep hp

/-- Micro-steps of a producer / consumer of iovec `i` (`HStep`), or `push_anchor` of a chunk-less anchor
(between calls: nothing is held). -/
inductive DStep (i : Nat) : World → Option ASlice → World → Option ASlice → Prop
  | micro {w w' : World} {h h' : Option ASlice} : HStep i w h w' h' → DStep i w h w' h'
  | anchorDefault {w w' : World} {n : Nat} : w.pushAnchorDefault i n = some w' → DStep i w none w' none

theorem DStep.inv {i : Nat} {w w' : World} {held held' : Option ASlice} (s : DStep i w held w' held')
    (h : HInv i w held) : HInv i w' held' := by
  cases s with
  | micro s => exact s.inv h
  | anchorDefault hp => exact h.pushAnchorDefault hp

/-- A chain of such steps. -/
inductive DPath (i : Nat) : World → Option ASlice → World → Option ASlice → Prop
  | nil (w : World) (held : Option ASlice) : DPath i w held w held
  | cons {w w1 w2 : World} {h h1 h2 : Option ASlice} : DStep i w h w1 h1 → DPath i w1 h1 w2 h2 → DPath i w h w2 h2

theorem DPath.inv {i : Nat} {w w' : World} {held held' : Option ASlice} (p : DPath i w held w' held')
    (h : HInv i w held) : HInv i w' held' := by
  induction p with
  | nil => exact h
  | cons s _ ih => exact ih (s.inv h)

theorem HPath.dpath {i : Nat} {w w' : World} {held held' : Option ASlice} (p : HPath i w held w' held') :
    DPath i w held w' held' := by
  induction p with
  | nil => exact .nil _ _
  | cons s _ ih => exact .cons (.micro s) ih

/-- Every `WOp`-reachable world (with `AnchoredSlice::default()` and non-empty-deque `push_anchor`s mixed in:
`XReach`) satisfies the invariant without head condition, for any iovec index. -/
theorem XReach.hInv {w : World} {caps : Nat → Nat} (h : XReach w caps) (i : Nat) : HInv i w none :=
  Good.hInv ⟨h.inv.1, caps, h.inv.2⟩ i

end Woodpile.Iovec

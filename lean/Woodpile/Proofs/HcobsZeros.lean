/-
HCOBS on all-zero input: the closed form of `Spec.encode` (`encode_zeros`) and of the summary
the `zenc` / `zdec` ops print (`summarize_encode_zeros`), for every length and all valid
parameters.  See `Woodpile/Model/HcobsZeros.lean`.
-/
import Woodpile.Model.HcobsZeros
import Woodpile.Proofs.HcobsSpec

namespace Woodpile.Hcobs.Zeros
open Woodpile.Hcobs Woodpile.Hcobs.Spec

/-! ### Zero bytes -/

@[simp] theorem zeros_length (n : Nat) : (zeros n).length = n := by simp [zeros]

theorem zeros_take (n m : Nat) : (zeros n).take m = zeros (min m n) := by
  simp [zeros, List.take_replicate]

theorem zeros_drop (n m : Nat) : (zeros n).drop m = zeros (n - m) := by
  simp [zeros, List.drop_replicate]

/-- Zero bytes hold no stuff sequence (they hold no `FE`). -/
theorem findStuff_zeros (n : Nat) : findStuff (zeros n) = none :=
  findStuff_none_of_no_FE (by
    intro b hb
    simp only [zeros, List.mem_replicate] at hb
    rw [hb.2]; decide)

/-! ### Closed form of the encoder on zeros -/

/-- After the first chunk: `q` full chunks and a short one. -/
theorem encLoop_subZeros {p : Params} (q r fuel : Nat) (hr : r < p.maxSub)
    (hf : q * p.maxSub + r < fuel) :
    encLoop p fuel false (zeros (q * p.maxSub + r)) = subZeros p q r := by
  induction q generalizing fuel with
  | zero =>
    obtain ⟨f, rfl⟩ : ∃ f, fuel = f + 1 := ⟨fuel - 1, by omega⟩
    simp only [Nat.zero_mul, Nat.zero_add]
    rw [encLoop_last (by rw [zeros_take]; exact findStuff_zeros _) (by simpa using hr)]
    simp [subZeros]
  | succ q ih =>
    obtain ⟨f, rfl⟩ : ∃ f, fuel = f + 1 := ⟨fuel - 1, by omega⟩
    rw [Nat.succ_mul] at hf ⊢
    rw [encLoop_full (by rw [zeros_take]; exact findStuff_zeros _) (by simp; omega)]
    simp only [limit_false]
    rw [zeros_take, zeros_drop]
    have e1 : min p.maxSub (q * p.maxSub + p.maxSub + r) = p.maxSub := by omega
    have e2 : q * p.maxSub + p.maxSub + r - p.maxSub = q * p.maxSub + r := by omega
    rw [e1, e2, ih f (by omega)]
    simp [subZeros]

/-- **Closed form of the encoder on all-zero (stuff-free) input**: a first chunk of
`min n maxInit` bytes; if it is full, `(n - maxInit) / maxSub` full chunks and one short chunk of
`(n - maxInit) % maxSub` bytes. -/
theorem encode_zeros (p : Params) (hp : p.Valid) (n : Nat) :
    encode p (List.replicate n 0) = encZeros p n := by
  obtain ⟨h1, _, h3, _, _, _⟩ := hp
  show encode p (zeros n) = encZeros p n
  unfold encode encZeros
  rw [zeros_length]
  by_cases h : n < p.maxInit
  · rw [if_pos h, encLoop_last (first := true) (by rw [zeros_take]; exact findStuff_zeros _)
      (by simpa using h)]
    simp
  · rw [if_neg h, encLoop_full (first := true) (by rw [zeros_take]; exact findStuff_zeros _)
      (by simp; omega)]
    simp only [limit_true]
    rw [zeros_take, zeros_drop, Nat.min_eq_left (by omega)]
    have hs := encLoop_subZeros (p := p) ((n - p.maxInit) / p.maxSub) ((n - p.maxInit) % p.maxSub) n
      (Nat.mod_lt _ (by omega)) (by rw [Nat.div_add_mod']; omega)
    rw [Nat.div_add_mod'] at hs
    rw [hs]

/-! ### Walking the closed form -/

theorem walk_nil (p : Params) (fuel : Nat) (first : Bool) (acc : Summary) :
    walk p fuel first [] acc = acc := by
  cases fuel <;> simp [walk, parseHdr]

theorem walk_succ (p : Params) (fuel : Nat) (first : Bool) (b : List UInt8) (acc : Summary) :
    walk p (fuel + 1) first b acc =
      match Spec.parseHdr p first b with
      | none => acc
      | some (n, rest) =>
        walk p fuel false (rest.drop n)
          { acc with
            chunks := acc.chunks + 1, last := n,
            hhash := fnv acc.hhash (b.take (hdrBytes first)) } := rfl

/-- The walk never touches the size field. -/
theorem walk_size (p : Params) (fuel : Nat) (first : Bool) (b : List UInt8) (acc : Summary) :
    (walk p fuel first b acc).size = acc.size := by
  induction fuel generalizing first b acc with
  | zero => rfl
  | succ f ih =>
    rw [walk_succ]
    split
    · rfl
    · rw [ih]

/-- One chunk of zeros: its header is hashed, its payload skipped. -/
theorem walk_chunk {p : Params} (hp : p.Valid) {first : Bool} {n : Nat} (hn : n ≤ limit p first)
    (fuel : Nat) (rest : List UInt8) (acc : Summary) :
    walk p (fuel + 1) first (header p first n ++ zeros n ++ rest) acc =
      walk p fuel false rest
        { acc with chunks := acc.chunks + 1, last := n, hhash := fnv acc.hhash (header p first n) } := by
  have e1 : (zeros n ++ rest).drop n = rest := List.drop_left' (zeros_length n)
  have e2 : (header p first n ++ (zeros n ++ rest)).take (hdrBytes first) = header p first n :=
    List.take_left' (by rw [header_length]; cases first <;> rfl)
  rw [List.append_assoc, walk_succ, parseHdr_header hp hn]
  simp only [e1, e2]

theorem iter_succ {α : Type} (f : α → α) (k : Nat) (a : α) : iter f (k + 1) a = iter f k (f a) := rfl

theorem walk_subZeros {p : Params} (hp : p.Valid) (q r fuel : Nat) (hr : r < p.maxSub)
    (hf : q + 1 ≤ fuel) (acc : Summary) :
    walk p fuel false (subZeros p q r) acc =
      { acc with
        chunks := acc.chunks + q + 1, last := r,
        hhash := fnv (iter (fun h => fnv h (header p false p.maxSub)) q acc.hhash) (header p false r) } := by
  induction q generalizing fuel acc with
  | zero =>
    obtain ⟨f, rfl⟩ : ∃ f, fuel = f + 1 := ⟨fuel - 1, by omega⟩
    have h := walk_chunk hp (first := false) (n := r) (by simp; omega) f [] acc
    rw [List.append_nil] at h
    rw [subZeros, h, walk_nil]
    rfl
  | succ q ih =>
    obtain ⟨f, rfl⟩ : ∃ f, fuel = f + 1 := ⟨fuel - 1, by omega⟩
    rw [subZeros, walk_chunk hp (first := false) (by simp) f _ acc, ih f (by omega)]
    have e : acc.chunks + 1 + q + 1 = acc.chunks + (q + 1) + 1 := by omega
    rw [iter_succ]
    simp only [e]

theorem subZeros_length (p : Params) (q r : Nat) :
    (subZeros p q r).length = q * p.maxSub + 2 * q + r + 2 := by
  induction q with
  | zero => simp [subZeros]; omega
  | succ q ih => simp [subZeros, ih, Nat.succ_mul]; omega

/-- The summary of the closed form is the arithmetic one. -/
theorem summarize_encZeros (p : Params) (hp : p.Valid) (n : Nat) :
    summarize p (encZeros p n) = zeroSummary p n := by
  have hp' := hp
  obtain ⟨h1, _, h3, _, _, _⟩ := hp'
  unfold summarize encZeros zeroSummary
  by_cases h : n < p.maxInit
  · simp only [if_pos h]
    have hw := walk_chunk hp (first := true) (n := n) (by simp; omega)
      (header p true n ++ zeros n).length [] ⟨(header p true n ++ zeros n).length, 0, 0, fnvOffset⟩
    rw [List.append_nil] at hw
    rw [hw, walk_nil]
    simp; omega
  · simp only [if_neg h]
    obtain ⟨q, hq⟩ : ∃ q, (n - p.maxInit) / p.maxSub = q := ⟨_, rfl⟩
    obtain ⟨r, hr⟩ : ∃ r, (n - p.maxInit) % p.maxSub = r := ⟨_, rfl⟩
    have hqr : q * p.maxSub + r = n - p.maxInit := by rw [← hq, ← hr]; exact Nat.div_add_mod' _ _
    have hrlt : r < p.maxSub := by rw [← hr]; exact Nat.mod_lt _ (by omega)
    rw [hq, hr]
    obtain ⟨L, hL⟩ : ∃ L, (header p true p.maxInit ++ zeros p.maxInit ++ subZeros p q r).length = L :=
      ⟨_, rfl⟩
    have hLv : L = 1 + p.maxInit + (q * p.maxSub + 2 * q + r + 2) := by
      rw [← hL]; simp [subZeros_length]; omega
    rw [hL, walk_chunk hp (first := true) (by simp) _ _ _, walk_subZeros hp q r _ hrlt (by omega)]
    simp only [Summary.mk.injEq]
    refine ⟨by omega, by omega, ?_⟩
    trivial

/-- **The summary the `zenc` / `zdec` ops print**: for every `n`, the summary (size, chunks,
last chunk, hash of the header bytes) of `Spec.encode p` of `n` zero bytes is `zeroSummary p n`,
which the model driver computes by arithmetic. -/
theorem summarize_encode_zeros (p : Params) (hp : p.Valid) (n : Nat) :
    summarize p (encode p (List.replicate n 0)) = zeroSummary p n := by
  rw [encode_zeros p hp, summarize_encZeros p hp]

/-- … in particular the size: `n + 1 + 2 * full chunks`, where the full chunks are the first
one (if `n ≥ maxInit`) and `(n - maxInit) / maxSub` more. -/
theorem encode_zeros_length (p : Params) (hp : p.Valid) (n : Nat) :
    (encode p (List.replicate n 0)).length =
      if n < p.maxInit then n + 1 else n + 1 + 2 * ((n - p.maxInit) / p.maxSub + 1) := by
  have h := congrArg Summary.size (summarize_encode_zeros p hp n)
  rw [summarize, walk_size] at h
  simp only [] at h
  rw [h, zeroSummary]
  split <;> rfl

/-- The decoder side of `zdec`: the encoding of `n` zeros decodes to `n` zeros. -/
theorem decode_encZeros (p : Params) (hp : p.Valid) (n : Nat) :
    decode p (encZeros p n) = some (List.replicate n 0) := by
  rw [← encode_zeros p hp]; exact decode_encode p hp _

/-! ### Non-vacuity: the closed form on concrete parameters -/

example : encZeros ⟨3, 5, 253⟩ 10 = [3, 0, 0, 0, 5, 0, 0, 0, 0, 0, 0, 2, 0, 0, 0] := by decide
example : encode ⟨3, 5, 253⟩ (List.replicate 10 0) = encZeros ⟨3, 5, 253⟩ 10 := by decide
example : (zeroSummary ⟨3, 5, 253⟩ 10).chunks = 3 ∧ (zeroSummary ⟨3, 5, 253⟩ 10).size = 15 ∧
    (zeroSummary ⟨3, 5, 253⟩ 10).last = 2 := by decide

end Woodpile.Hcobs.Zeros

/-
What `segments` (the specification function of C06/C08, `Model/Stream.lean`) computes:
the stream is the pieces joined by `FE FD`, every piece is `FE FD`-free, the ranges are
exact, and this decomposition is the only one (so the pieces are the MAXIMAL `FE FD`-free
pieces, delimited by stuff sequences or by the stream's start / end).

Also the resynchronisation lemmas for `recordsT`.
-/
import Woodpile.Proofs.StreamPanic

namespace Woodpile.Stream
open Woodpile.Arena Woodpile.ReadN Woodpile.Hcobs Woodpile.Pipe

/-- The pieces joined by stuff sequences. -/
def joinStuff : List (List UInt8) → List UInt8
  | [] => []
  | [p] => p
  | p :: q :: rest => p ++ FE :: FD :: joinStuff (q :: rest)

/-- The pieces with their byte ranges when the first one starts at `start`. -/
def segsOfPieces : Nat → List (List UInt8) → List Seg
  | _, [] => []
  | start, p :: rest => ⟨p, start, start + p.length⟩ :: segsOfPieces (start + p.length + 2) rest

theorem joinStuff_cons_cons (p q : List UInt8) (rest : List (List UInt8)) :
    joinStuff (p :: q :: rest) = p ++ FE :: FD :: joinStuff (q :: rest) := rfl

/-- Scanning pieces joined by delimiters gives back the pieces, with their ranges. -/
theorem segScan_join : ∀ (ps : List (List UInt8)), ps ≠ [] → (∀ p ∈ ps, findStuff p = none) →
    ∀ start, segScan start [] (joinStuff ps) = segsOfPieces start ps := by
  intro ps
  induction ps with
  | nil => intro h; exact absurd rfl h
  | cons p rest ih =>
    intro _ hall start
    have hp : findStuff p = none := hall p (by simp)
    cases rest with
    | nil =>
      simp only [joinStuff, segsOfPieces]
      rw [segScan_no_stuff _ _ _ hp]; simp
    | cons q rest' =>
      rw [joinStuff_cons_cons, segScan_append_stuff, segScan_no_stuff _ _ _ hp,
        ih (by simp) (fun x hx => hall x (by simp [hx]))]
      simp [segsOfPieces]

/-- Every stream is its stuff-free pieces joined by delimiters, and the scan finds them. -/
theorem segScan_decomp : ∀ (n : Nat) (s : List UInt8), s.length ≤ n → ∀ start,
    ∃ ps : List (List UInt8), ps ≠ [] ∧ (∀ p ∈ ps, findStuff p = none) ∧ joinStuff ps = s ∧
      segScan start [] s = segsOfPieces start ps := by
  intro n
  induction n with
  | zero =>
    intro s hs start
    have : s = [] := List.length_eq_zero_iff.mp (by omega)
    subst this
    exact ⟨[[]], by simp, by simp [findStuff], rfl, by simp [segScan, segsOfPieces]⟩
  | succ n ih =>
    intro s hs start
    cases hfs : findStuff s with
    | none =>
      refine ⟨[s], by simp, by simpa using hfs, rfl, ?_⟩
      rw [segScan_no_stuff _ _ _ hfs]; simp [segsOfPieces]
    | some i =>
      have hi := findStuff_some_lt s i hfs
      obtain ⟨hsplit, hpre'⟩ := findStuff_some s i hfs
      have hpre : findStuff (s.take i) = none := ((findStuff_append_none _ _).mp hpre').1
      have hlen : (s.drop (i + 2)).length ≤ n := by rw [List.length_drop]; omega
      obtain ⟨ps, hne, hall, hjoin, hscan⟩ := ih (s.drop (i + 2)) hlen (start + i + 2)
      obtain ⟨q, rest, rfl⟩ : ∃ q rest, ps = q :: rest := by
        cases ps with
        | nil => exact absurd rfl hne
        | cons q rest => exact ⟨q, rest, rfl⟩
      refine ⟨s.take i :: q :: rest, by simp, ?_, ?_, ?_⟩
      · intro x hx
        rcases List.mem_cons.mp hx with rfl | hx
        · exact hpre
        · exact hall x hx
      · rw [joinStuff_cons_cons, hjoin]; exact hsplit.symm
      · have hti : (s.take i).length = i := by rw [List.length_take]; omega
        conv => lhs; rw [hsplit]
        rw [segScan_append_stuff, segScan_no_stuff _ _ _ hpre]
        simp only [List.nil_append, List.length_nil, Nat.add_zero, hti, List.cons_append]
        rw [hscan, show segsOfPieces start (List.take i s :: q :: rest) =
          ⟨s.take i, start, start + (s.take i).length⟩ ::
            segsOfPieces (start + (s.take i).length + 2) (q :: rest) from rfl, hti]

/-- `segments s` are stuff-free pieces which, joined by delimiters, give `s` back, with
consecutive exact ranges starting at 0. -/
theorem segments_decomp (s : List UInt8) :
    ∃ ps : List (List UInt8), ps ≠ [] ∧ (∀ p ∈ ps, findStuff p = none) ∧ joinStuff ps = s ∧
      segments s = segsOfPieces 0 ps :=
  segScan_decomp s.length s (Nat.le_refl _) 0

/-- … and ANY way of writing `s` as stuff-free pieces joined by delimiters is that one:
the delimiters are exactly the occurrences of `FE FD` (they cannot overlap), the pieces
are the maximal `FE FD`-free pieces. -/
theorem segments_unique (s : List UInt8) (ps : List (List UInt8)) (hne : ps ≠ [])
    (hall : ∀ p ∈ ps, findStuff p = none) (hjoin : joinStuff ps = s) :
    segments s = segsOfPieces 0 ps := by
  rw [← hjoin]; exact segScan_join ps hne hall 0

theorem segsOfPieces_map_bytes : ∀ (ps : List (List UInt8)) (start : Nat),
    (segsOfPieces start ps).map (·.bytes) = ps := by
  intro ps
  induction ps with
  | nil => intro _; rfl
  | cons p rest ih => intro start; simp [segsOfPieces, ih]

/-- Where a piece sits: the pieces before it, joined, and one more delimiter. -/
def prefixOf (pre : List (List UInt8)) : List UInt8 :=
  if pre = [] then [] else joinStuff pre ++ [FE, FD]

def suffixOf (post : List (List UInt8)) : List UInt8 :=
  if post = [] then [] else FE :: FD :: joinStuff post

theorem joinStuff_split : ∀ (pre : List (List UInt8)) (b : List UInt8) (post : List (List UInt8)),
    joinStuff (pre ++ b :: post) = prefixOf pre ++ b ++ suffixOf post := by
  intro pre
  induction pre with
  | nil =>
    intro b post
    cases post with
    | nil => simp [joinStuff, prefixOf, suffixOf]
    | cons q rest => simp [joinStuff, prefixOf, suffixOf]
  | cons p rest ih =>
    intro b post
    cases rest with
    | nil =>
      have := ih b post
      simp only [List.nil_append] at this
      simp only [List.cons_append, List.nil_append, joinStuff_cons_cons, this]
      simp [prefixOf, joinStuff]
    | cons q rest' =>
      have := ih b post
      simp only [List.cons_append] at this
      simp only [List.cons_append, joinStuff_cons_cons, this]
      simp [prefixOf, joinStuff_cons_cons]

theorem mem_segsOfPieces : ∀ (ps : List (List UInt8)) (start : Nat) (sg : Seg), sg ∈ segsOfPieces start ps →
    ∃ pre post, ps = pre ++ sg.bytes :: post ∧ sg.start = start + (prefixOf pre).length ∧
      sg.stop = sg.start + sg.bytes.length := by
  intro ps
  induction ps with
  | nil => intro start sg h; simp [segsOfPieces] at h
  | cons p rest ih =>
    intro start sg h
    simp only [segsOfPieces, List.mem_cons] at h
    rcases h with rfl | h
    · exact ⟨[], rest, rfl, by simp [prefixOf], rfl⟩
    · obtain ⟨pre, post, hps, hst, hsp⟩ := ih _ sg h
      refine ⟨p :: pre, post, by simp [hps], ?_, hsp⟩
      rw [hst]
      cases pre with
      | nil => simp [prefixOf, joinStuff]; omega
      | cons q pre' =>
        simp only [prefixOf, reduceCtorEq, if_false, joinStuff_cons_cons, List.length_append,
          List.length_cons, List.length_nil]
        omega

/-- `sg` is a piece of `s` delimited by stuff sequences or by the start / the end of the
stream, at exactly the range it claims, with no stuff sequence inside. -/
def IsDelimitedPiece (s : List UInt8) (sg : Seg) : Prop :=
  ∃ pre post : List UInt8, s = pre ++ sg.bytes ++ post ∧ sg.start = pre.length ∧
    sg.stop = pre.length + sg.bytes.length ∧ findStuff sg.bytes = none ∧
    (pre = [] ∨ ∃ a, pre = a ++ [FE, FD]) ∧ (post = [] ∨ ∃ b, post = FE :: FD :: b)

/-- **Soundness of `segments`.** -/
theorem segments_sound (s : List UInt8) (sg : Seg) (h : sg ∈ segments s) : IsDelimitedPiece s sg := by
  obtain ⟨ps, _, hall, hjoin, hseg⟩ := segments_decomp s
  rw [hseg] at h
  obtain ⟨pre, post, hps, hst, hsp⟩ := mem_segsOfPieces ps 0 sg h
  refine ⟨prefixOf pre, suffixOf post, ?_, by omega, by omega, hall _ (by simp [hps]), ?_, ?_⟩
  · rw [← hjoin, hps, joinStuff_split]
  · unfold prefixOf; split
    · left; rfl
    · right; exact ⟨_, rfl⟩
  · unfold suffixOf; split
    · left; rfl
    · right; exact ⟨_, rfl⟩

/-- **Completeness of `segments`**: every delimited stuff-free piece, whatever surrounds the
delimiters, is a segment, with that exact range. -/
theorem segments_complete (s : List UInt8) (sg : Seg) (h : IsDelimitedPiece s sg) : sg ∈ segments s := by
  obtain ⟨pre, post, hs, hst, hsp, hfs, hpre, hpost⟩ := h
  obtain ⟨bytes, start, stop⟩ := sg
  simp only at hs hst hsp hfs
  subst hst hsp hs
  rcases hpre with rfl | ⟨a, rfl⟩ <;> rcases hpost with rfl | ⟨b, rfl⟩
  · simp only [segments, List.nil_append, List.append_nil]
    rw [segScan_no_stuff _ _ _ hfs]; simp
  · simp only [segments, List.nil_append]
    rw [segScan_append_stuff, segScan_no_stuff _ _ _ hfs]; simp
  · have e : a ++ [FE, FD] ++ bytes ++ [] = a ++ FE :: FD :: bytes := by simp
    simp only [segments, e]
    rw [segScan_append_stuff, segScan_no_stuff _ _ _ hfs]; simp
  · have e : a ++ [FE, FD] ++ bytes ++ FE :: FD :: b = a ++ FE :: FD :: (bytes ++ FE :: FD :: b) := by simp
    simp only [segments, e]
    rw [segScan_append_stuff, segScan_append_stuff, segScan_no_stuff _ _ _ hfs]; simp

/-! ### resynchronisation on `recordsT` -/

theorem segScan_start_le (l : List UInt8) (start : Nat) (x : Seg) (h : x ∈ segScan start [] l) :
    start ≤ x.start ∧ x.start ≤ start + l.length := by
  obtain ⟨ps, _, _, hjoin, hseg⟩ := segScan_decomp l.length l (Nat.le_refl _) start
  rw [hseg] at h
  obtain ⟨pre, post, hps, hst, _⟩ := mem_segsOfPieces ps start x h
  have hl : l.length = (prefixOf pre).length + x.bytes.length + (suffixOf post).length := by
    rw [← hjoin, hps, joinStuff_split]; simp only [List.length_append]
  omega

/-- A contributing segment is among the records as soon as no segment before it is at or
after the limit. -/
theorem mem_recordsT_split (p : Params) (limit : Option Nat) (tooBig : Nat → Bool) (l1 : List Seg) (sg : Seg)
    (l2 : List Seg) (d : List UInt8) (hl1 : ∀ x ∈ l1, atLimit limit x.start = false)
    (hlim : atLimit limit sg.start = false) (hne : sg.bytes ≠ [])
    (hdec : decodePieces p [sg.bytes] = some d) (hsz : tooBig d.length = false) :
    (d, sg.start, sg.stop) ∈ recordsT p limit tooBig (l1 ++ sg :: l2) := by
  induction l1 with
  | nil =>
    simp only [List.nil_append, recordsT, hlim, Bool.false_eq_true, if_false]
    apply List.mem_append.mpr; left
    simp [contrib, hne, hdec, hsz]
  | cons x rest ih =>
    simp only [List.cons_append, recordsT, hl1 x (by simp), Bool.false_eq_true, if_false]
    apply List.mem_append.mpr; right
    exact ih (fun y hy => hl1 y (by simp [hy]))

theorem atLimit_false_of_le (limit : Option Nat) (a b : Nat) (hab : a ≤ b) (h : atLimit limit b = false) :
    atLimit limit a = false := by
  cases hb : atLimit limit a with
  | false => rfl
  | true => rw [atLimit_mono limit a b hab hb] at h; cases h

/-- The three shapes of a delimited piece `seg` (stuff-free) in a stream, as a split of the
stream's segments: `a FE FD seg FE FD b`, `seg FE FD b`, `a FE FD seg` (and `seg` alone). -/
theorem segments_shapes (a seg b : List UInt8) (h : findStuff seg = none) :
    (∃ l1 l2, segments (a ++ FE :: FD :: (seg ++ FE :: FD :: b)) =
        l1 ++ ⟨seg, a.length + 2, a.length + 2 + seg.length⟩ :: l2 ∧ ∀ x ∈ l1, x.start ≤ a.length) ∧
    (∃ l2, segments (seg ++ FE :: FD :: b) = ⟨seg, 0, seg.length⟩ :: l2) ∧
    (∃ l1, segments (a ++ FE :: FD :: seg) = l1 ++ [⟨seg, a.length + 2, a.length + 2 + seg.length⟩] ∧
        ∀ x ∈ l1, x.start ≤ a.length) ∧
    segments seg = [⟨seg, 0, seg.length⟩] := by
  refine ⟨⟨segScan 0 [] a, segScan (a.length + 2 + seg.length + 2) [] b, ?_, ?_⟩,
    ⟨segScan (seg.length + 2) [] b, ?_⟩, ⟨segScan 0 [] a, ?_, ?_⟩, ?_⟩
  · simp only [segments]
    rw [segScan_append_stuff, segScan_append_stuff, segScan_no_stuff _ _ _ h]
    simp
  · intro x hx; have := (segScan_start_le a 0 x hx).2; omega
  · simp only [segments]
    rw [segScan_append_stuff, segScan_no_stuff _ _ _ h]
    simp
  · simp only [segments]
    rw [segScan_append_stuff, segScan_no_stuff _ _ _ h]
    simp
  · intro x hx; have := (segScan_start_le a 0 x hx).2; omega
  · simp only [segments]
    rw [segScan_no_stuff _ _ _ h]; simp

/-- `seg` sits in the stream `src` at offset `start`, delimited by stuff sequences or by
the stream's start / end; `a` and `b` (what surrounds the delimiters) are arbitrary. -/
inductive Placed (seg src : List UInt8) (start : Nat) : Prop
  | middle (a b : List UInt8) : src = a ++ FE :: FD :: (seg ++ FE :: FD :: b) → start = a.length + 2 →
      Placed seg src start
  | atStart (b : List UInt8) : src = seg ++ FE :: FD :: b → start = 0 → Placed seg src start
  | atEnd (a : List UInt8) : src = a ++ FE :: FD :: seg → start = a.length + 2 → Placed seg src start
  | alone : src = seg → start = 0 → Placed seg src start

theorem placed_split {seg src : List UInt8} {start : Nat} (h : Placed seg src start)
    (hfs : findStuff seg = none) :
    ∃ l1 l2, segments src = l1 ++ ⟨seg, start, start + seg.length⟩ :: l2 ∧ ∀ x ∈ l1, x.start ≤ start := by
  cases h with
  | middle a b hsrc hst =>
    obtain ⟨⟨l1, l2, e, hl⟩, _, _, _⟩ := segments_shapes a seg b hfs
    subst hsrc hst
    exact ⟨l1, l2, e, fun x hx => by have := hl x hx; omega⟩
  | atStart b hsrc hst =>
    obtain ⟨_, ⟨l2, e⟩, _, _⟩ := segments_shapes [] seg b hfs
    subst hsrc hst
    exact ⟨[], l2, by simpa using e, by simp⟩
  | atEnd a hsrc hst =>
    obtain ⟨_, _, ⟨l1, e, hl⟩, _⟩ := segments_shapes a seg [] hfs
    subst hsrc hst
    exact ⟨l1, [], e, fun x hx => by have := hl x hx; omega⟩
  | alone hsrc hst =>
    obtain ⟨_, _, _, e⟩ := segments_shapes [] seg [] hfs
    subst hsrc hst
    exact ⟨[], [], by simpa using e, by simp⟩

/-- **Resynchronisation** for any threshold judge and any block size per call: a segment
that contributes and that no limit cuts off is returned by one of the first `|segments|`
calls, whatever the other segments are. -/
theorem resync_thresh (p : Params) (limit : Option Nat) (tooBig : Nat → Bool) (clamp : Nat) (hclamp : 2 ≤ clamp)
    (t : Tuning) (hs : SplitIndep p) (hmono : ∀ a b, a ≤ b → tooBig a = true → tooBig b = true)
    (h0 : tooBig 0 = false) (blocks : List (Option Nat)) (r : Reader) (hwb : WellBehaved r)
    (seg d : List UInt8) (start : Nat) (hpl : Placed seg r.src start) (hfs : findStuff seg = none)
    (hne : seg ≠ []) (hdec : decodePieces p [seg] = some d) (hsz : tooBig d.length = false)
    (hlim : atLimit limit start = false) (hn : (segments r.src).length ≤ blocks.length) :
    NextRes.some d start (start + seg.length) ∈
      (nextSeqB clamp t p (threshJudge limit tooBig) blocks RdState.new r).1 := by
  obtain ⟨l1, l2, hseg, hl1⟩ := placed_split hpl hfs
  have hspec := nextSeqB_spec p limit tooBig clamp hclamp t hs hmono h0 blocks RdState.new r hwb
  have e : segScan RdState.new.chunker.offset [] (RdState.new.chunker.buf ++ r.src) = segments r.src := by
    simp [RdState.new, Chunker.new, segments]
  rw [e] at hspec
  rw [hspec]
  have hmem : (d, start, start + seg.length) ∈ recordsT p limit tooBig (segments r.src) := by
    rw [hseg]
    exact mem_recordsT_split p limit tooBig l1 ⟨seg, start, start + seg.length⟩ l2 d
      (fun x hx => atLimit_false_of_le limit _ _ (hl1 x hx) hlim) hlim hne hdec hsz
  exact mem_expectedSeq _ _ d _ _ (Nat.le_trans (recordsT_length_le p limit tooBig _) hn) hmem

end Woodpile.Stream

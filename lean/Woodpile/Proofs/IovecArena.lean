/-
(B) below-bump / disjointness for the structural OwningIovec model: at most one arena caches a
given chunk; every slice of every object that points into a cached chunk lies below that cache's
bump pointer; every owned slice lies inside `[0, cap)` of its chunk, `cap` being the capacity
the chunk was allocated with (ghost: recorded when the chunk is created, as the driver does for
the `L live=` line); fresh allocations start at the bump pointer.
-/
import Woodpile.Proofs.IovecFrame
import Woodpile.Props.C17

namespace Woodpile.Iovec
open Woodpile.Arena

/-- Who can own an allocation cache: an iovec (its arena) or a detached arena. -/
inductive Holder where
  | iov (i : Nat)
  | arena (j : Nat)
  deriving DecidableEq, Repr

def World.cacheAt (w : World) : Holder → Option Cache
  | .iov i => (w.iov i).bind (·.arena.cache)
  | .arena j => (w.arena j).bind (·.cache)

/-- `s` is a slice some object of the world can read: a slice of an iovec or a detached anchored slice. -/
def World.HasSlice (w : World) (s : Slice) : Prop :=
  (∃ i v, w.iov i = some v ∧ s ∈ v.slices) ∨ (∃ j a, w.aslice j = some a ∧ a.slice = s)

/-- `s'` is a caller buffer, or a sub-range / in-place merge result of a slice `w` already had
(same region, end not beyond the old end). -/
def World.Derived (w : World) (s' : Slice) : Prop :=
  (∃ b, s'.region = .ext b) ∨ ∃ s, w.HasSlice s ∧ s'.region = s.region ∧ s'.off + s'.len ≤ s.off + s.len

theorem World.HasSlice.derived {w : World} {s : Slice} (h : w.HasSlice s) : w.Derived s :=
  Or.inr ⟨s, h, rfl, Nat.le_refl _⟩

theorem World.Derived.trans {w w' : World} {s : Slice} (h : w'.Derived s)
    (hh : ∀ x, w'.HasSlice x → w.Derived x) : w.Derived s := by
  rcases h with hb | ⟨x, hx, hr, hl⟩
  · exact Or.inl hb
  · rcases hh x hx with ⟨b, hb⟩ | ⟨y, hy, hr2, hl2⟩
    · exact Or.inl ⟨b, by rw [hr, hb]⟩
    · exact Or.inr ⟨y, hy, by rw [hr, hr2], by omega⟩

/-! ### `cacheAt` / `HasSlice` after updates -/

@[simp] theorem cacheAt_setIov (w : World) (i : Nat) (x : Option Iov) (h : Holder) :
    (w.setIov i x).cacheAt h = if h = .iov i then x.bind (·.arena.cache) else w.cacheAt h := by
  cases h with
  | iov j =>
    simp only [World.cacheAt, iov_setIov]
    by_cases e : j = i
    · subst e; simp
    · simp [e]
  | arena j => simp [World.cacheAt]

@[simp] theorem cacheAt_setArena (w : World) (i : Nat) (x : Option Arena) (h : Holder) :
    (w.setArena i x).cacheAt h = if h = .arena i then x.bind (·.cache) else w.cacheAt h := by
  cases h with
  | iov j => simp [World.cacheAt]
  | arena j =>
    simp only [World.cacheAt, arena_setArena]
    by_cases e : j = i
    · subst e; simp
    · simp [e]

@[simp] theorem cacheAt_setASlice (w : World) (i : Nat) (x : Option ASlice) (h : Holder) :
    (w.setASlice i x).cacheAt h = w.cacheAt h := by
  cases h <;> simp [World.cacheAt]

@[simp] theorem cacheAt_addIov (w : World) (v : Iov) (h : Holder) :
    (w.addIov v).1.cacheAt h = if h = .iov w.iovs.length then v.arena.cache else w.cacheAt h := by
  cases h with
  | iov j =>
    simp only [World.cacheAt, iov_addIov]
    by_cases e : j = w.iovs.length
    · subst e; simp
    · simp [e]
  | arena j => simp [World.cacheAt]

@[simp] theorem cacheAt_addArena (w : World) (a : Arena) (h : Holder) :
    (w.addArena a).1.cacheAt h = if h = .arena w.arenas.length then a.cache else w.cacheAt h := by
  cases h with
  | iov j => simp [World.cacheAt]
  | arena j =>
    simp only [World.cacheAt, arena_addArena]
    by_cases e : j = w.arenas.length
    · subst e; simp
    · simp [e]

@[simp] theorem cacheAt_addASlice (w : World) (s : ASlice) (h : Holder) :
    (w.addASlice s).1.cacheAt h = w.cacheAt h := by
  cases h <;> simp [World.cacheAt]

@[simp] theorem cacheAt_with_heap_next (w : World) (hp : Heap) (n : Nat) (h : Holder) :
    ({ w with heap := hp, next := n } : World).cacheAt h = w.cacheAt h := by cases h <;> rfl
@[simp] theorem cacheAt_with_heap (w : World) (hp : Heap) (h : Holder) :
    ({ w with heap := hp } : World).cacheAt h = w.cacheAt h := by cases h <;> rfl
@[simp] theorem cacheAt_with_next (w : World) (n : Nat) (h : Holder) :
    ({ w with next := n } : World).cacheAt h = w.cacheAt h := by cases h <;> rfl
@[simp] theorem cacheAt_with_exts (w : World) (e : List (List UInt8)) (h : Holder) :
    ({ w with exts := e } : World).cacheAt h = w.cacheAt h := by cases h <;> rfl
@[simp] theorem cacheAt_with_brefs (w : World) (e : List Backref) (h : Holder) :
    ({ w with brefs := e } : World).cacheAt h = w.cacheAt h := by cases h <;> rfl

theorem cacheAt_iov_none_of_ge (w : World) (j : Nat) (h : w.iovs.length ≤ j) : w.cacheAt (.iov j) = none := by
  simp [World.cacheAt, iov_none_of_ge w j h]
theorem cacheAt_arena_none_of_ge (w : World) (j : Nat) (h : w.arenas.length ≤ j) : w.cacheAt (.arena j) = none := by
  simp [World.cacheAt, arena_none_of_ge w j h]

theorem hasSlice_setIov {w : World} {i : Nat} {x : Option Iov} {s : Slice} (h : (w.setIov i x).HasSlice s) :
    (∃ v, x = some v ∧ s ∈ v.slices) ∨ w.HasSlice s := by
  rcases h with ⟨j, v, hv, hs⟩ | ⟨j, a, ha, hs⟩
  · simp only [iov_setIov] at hv
    split at hv
    · exact Or.inl ⟨v, hv, hs⟩
    · exact Or.inr (Or.inl ⟨j, v, hv, hs⟩)
  · exact Or.inr (Or.inr ⟨j, a, by simpa using ha, hs⟩)

theorem hasSlice_addIov {w : World} {v : Iov} {s : Slice} (h : (w.addIov v).1.HasSlice s) :
    s ∈ v.slices ∨ w.HasSlice s := by
  rcases h with ⟨j, v', hv, hs⟩ | ⟨j, a, ha, hs⟩
  · simp only [iov_addIov] at hv
    split at hv
    · simp at hv; subst hv; exact Or.inl hs
    · exact Or.inr (Or.inl ⟨j, v', hv, hs⟩)
  · exact Or.inr (Or.inr ⟨j, a, by simpa using ha, hs⟩)

theorem hasSlice_setASlice {w : World} {i : Nat} {x : Option ASlice} {s : Slice} (h : (w.setASlice i x).HasSlice s) :
    (∃ a, x = some a ∧ a.slice = s) ∨ w.HasSlice s := by
  rcases h with ⟨j, v, hv, hs⟩ | ⟨j, a, ha, hs⟩
  · exact Or.inr (Or.inl ⟨j, v, by simpa using hv, hs⟩)
  · simp only [aslice_setASlice] at ha
    split at ha
    · exact Or.inl ⟨a, ha, hs⟩
    · exact Or.inr (Or.inr ⟨j, a, ha, hs⟩)

theorem hasSlice_addASlice {w : World} {a : ASlice} {s : Slice} (h : (w.addASlice a).1.HasSlice s) :
    a.slice = s ∨ w.HasSlice s := by
  rcases h with ⟨j, v, hv, hs⟩ | ⟨j, a', ha, hs⟩
  · exact Or.inr (Or.inl ⟨j, v, by simpa using hv, hs⟩)
  · simp only [aslice_addASlice] at ha
    split at ha
    · simp at ha; subst ha; exact Or.inl hs
    · exact Or.inr (Or.inr ⟨j, a', ha, hs⟩)

theorem hasSlice_of_same {w w' : World} (hi : ∀ j, w'.iov j = w.iov j) (ha : ∀ j, w'.aslice j = w.aslice j)
    {s : Slice} (h : w'.HasSlice s) : w.HasSlice s := by
  rcases h with ⟨j, v, hv, hs⟩ | ⟨j, a, ha', hs⟩
  · exact Or.inl ⟨j, v, by rw [← hi]; exact hv, hs⟩
  · exact Or.inr ⟨j, a, by rw [← ha]; exact ha', hs⟩

/-! ### The arena invariant (B) -/

structure ArenaInv (w : World) (caps : Nat → Nat) : Prop where
  /-- at most one arena caches a given chunk -/
  unique : ∀ h h' c c', w.cacheAt h = some c → w.cacheAt h' = some c' → c.chunk = c'.chunk → h = h'
  /-- the bump pointer stays inside the chunk, whose capacity is the one recorded at allocation -/
  bumpLe : ∀ h c, w.cacheAt h = some c → c.bump ≤ c.cap ∧ caps c.chunk = c.cap
  /-- every slice, in ANY object, that points into a cached chunk lies below the bump pointer -/
  below : ∀ h c s, w.cacheAt h = some c → w.HasSlice s → s.region = .chunk c.chunk → s.off + s.len ≤ c.bump
  /-- every owned slice lies inside its chunk -/
  inCap : ∀ s k, w.HasSlice s → s.region = .chunk k → s.off + s.len ≤ caps k

/-- Chunks named by caches and slices have been allocated (from `WorldInv`). -/
theorem WorldInv.cacheAt_lt {w : World} (hw : WorldInv w) {h : Holder} {c : Cache} (hc : w.cacheAt h = some c) :
    c.chunk < w.next := by
  cases h with
  | iov i =>
    simp only [World.cacheAt] at hc
    cases hv : w.iov i with
    | none => simp [hv] at hc
    | some v => simp [hv] at hc; exact (hw.iovOk i v hv).cacheLt c hc
  | arena j =>
    simp only [World.cacheAt] at hc
    cases hv : w.arena j with
    | none => simp [hv] at hc
    | some a => simp [hv] at hc; exact hw.arenaOk j a hv c hc

theorem WorldInv.hasSlice_lt {w : World} (hw : WorldInv w) {s : Slice} {k : Nat} (hs : w.HasSlice s)
    (hk : s.region = .chunk k) : k < w.next := by
  rcases hs with ⟨i, v, hv, hs⟩ | ⟨j, a, ha, rfl⟩
  · have hok := hw.iovOk i v hv
    exact hok.anchorsLt k ((hok.guard.mem s hs).2 k hk)
  · have hok := hw.asliceOk j a ha
    exact hok.chunkLt k (hok.anchored k hk)

/-- One operation, seen by the arena invariant. -/
inductive AStep (w w' : World) : Prop
  /-- no allocation: caches are kept, moved between holders or dropped; slices are kept, narrowed,
  merged in place, moved or dropped -/
  | move (o : Holder → Holder) (hn : w'.next = w.next)
      (hc : ∀ h c, w'.cacheAt h = some c → w.cacheAt (o h) = some c)
      (hinj : ∀ h1 h2 c1 c2, w'.cacheAt h1 = some c1 → w'.cacheAt h2 = some c2 → o h1 = o h2 → h1 = h2)
      (hs : ∀ s', w'.HasSlice s' → w.Derived s')
  /-- holder `X` allocates `n ≥ 0` bytes at its bump pointer, in its current chunk or in a fresh one -/
  | alloc (X : Holder) (c' : Cache) (n : Nat)
      (hother : ∀ h, h ≠ X → w'.cacheAt h = w.cacheAt h)
      (hX : w'.cacheAt X = some c')
      (hcase : (∃ c, w.cacheAt X = some c ∧ c' = { c with bump := c.bump + n } ∧ c'.bump ≤ c.cap ∧ w'.next = w.next) ∨
               (c'.chunk = w.next ∧ c'.bump = n ∧ n ≤ c'.cap ∧ w'.next = w.next + 1))
      (hs : ∀ s', w'.HasSlice s' → w.Derived s' ∨ (s'.region = .chunk c'.chunk ∧ c'.bump - n ≤ s'.off ∧ s'.off + s'.len ≤ c'.bump) ∨
            (∃ l, w.HasSlice l ∧ l.region = .chunk c'.chunk ∧ s'.region = .chunk c'.chunk ∧ s'.off = l.off ∧
              l.off + l.len = c'.bump - n ∧ s'.off + s'.len = c'.bump))

theorem AStep.next_le {w w' : World} (h : AStep w w') : w.next ≤ w'.next := by
  cases h with
  | move o hn _ _ _ => omega
  | alloc X c' n _ _ hcase _ => rcases hcase with ⟨_, _, _, _, hn⟩ | ⟨_, _, _, hn⟩ <;> omega

/-- The invariant is preserved, for any capacity ghost that keeps the capacities of the chunks
that existed and records the capacity of every cache of the new world (i.e. of the fresh chunk). -/
theorem AStep.inv {w w' : World} {caps caps' : Nat → Nat} (hw : WorldInv w) (ha : ArenaInv w caps) (h : AStep w w')
    (hold : ∀ k, k < w.next → caps' k = caps k)
    (hnew : ∀ h c, w'.cacheAt h = some c → caps' c.chunk = c.cap) : ArenaInv w' caps' := by
  have derived_below : ∀ h c s', w.cacheAt h = some c → w.Derived s' → s'.region = .chunk c.chunk →
      s'.off + s'.len ≤ c.bump := by
    intro h c s' hc hd hr
    rcases hd with ⟨b, hb⟩ | ⟨s, hs, hr2, hl⟩
    · rw [hb] at hr; cases hr
    · have := ha.below h c s hc hs (hr2 ▸ hr); omega
  have derived_cap : ∀ s' k, w.Derived s' → s'.region = .chunk k → s'.off + s'.len ≤ caps' k ∧ k < w.next := by
    intro s' k hd hr
    rcases hd with ⟨b, hb⟩ | ⟨s, hs, hr2, hl⟩
    · rw [hb] at hr; cases hr
    · have := ha.inCap s k hs (hr2 ▸ hr)
      have hlt := hw.hasSlice_lt hs (hr2 ▸ hr)
      exact ⟨by rw [hold k hlt]; omega, hlt⟩
  cases h with
  | move o hn hc hinj hs =>
    refine ⟨?_, ?_, ?_, ?_⟩
    · intro h h' c c' h1 h2 he
      exact hinj h h' c c' h1 h2 (ha.unique _ _ c c' (hc h c h1) (hc h' c' h2) he)
    · intro h c hh; exact ⟨(ha.bumpLe _ c (hc h c hh)).1, hnew h c hh⟩
    · intro h c s' hh hs' hr; exact derived_below _ c s' (hc h c hh) (hs s' hs') hr
    · intro s' k hs' hr; exact (derived_cap s' k (hs s' hs') hr).1
  | alloc X c' n hother hX hcase hs =>
    rcases hcase with ⟨c, hcX, hc', hle, hn⟩ | ⟨hck, hb, hcap, hn⟩
    · -- same chunk
      have hchunk : c'.chunk = c.chunk := by rw [hc']
      have hcapeq : c'.cap = c.cap := by rw [hc']
      have hbump : c'.bump = c.bump + n := by rw [hc']
      have old_of : ∀ h d, w'.cacheAt h = some d → ∃ d0, w.cacheAt h = some d0 ∧ d0.chunk = d.chunk ∧
          d0.cap = d.cap ∧ d0.bump ≤ d.bump ∧ (h ≠ X → d0 = d) := by
        intro h d hd
        by_cases e : h = X
        · subst e; rw [hX] at hd; cases hd
          exact ⟨c, hcX, hchunk.symm, hcapeq.symm, by omega, fun hne => absurd rfl hne⟩
        · rw [hother h e] at hd; exact ⟨d, hd, rfl, rfl, Nat.le_refl _, fun _ => rfl⟩
      refine ⟨?_, ?_, ?_, ?_⟩
      · intro h h' d d' h1 h2 he
        obtain ⟨d0, hd0, e0, _, _, _⟩ := old_of h d h1
        obtain ⟨d0', hd0', e0', _, _, _⟩ := old_of h' d' h2
        exact ha.unique h h' d0 d0' hd0 hd0' (by omega)
      · intro h d hd
        refine ⟨?_, hnew h d hd⟩
        obtain ⟨d0, hd0, e0, e1, e2, e3⟩ := old_of h d hd
        have := ha.bumpLe h d0 hd0
        by_cases e : h = X
        · subst e; rw [hX] at hd; cases hd
          rw [hcX] at hd0; cases hd0
          omega
        · rw [← e3 e]; exact this.1
      · intro h d s' hd hs' hr
        obtain ⟨d0, hd0, e0, e1, e2, e3⟩ := old_of h d hd
        rcases hs s' hs' with hdv | ⟨hr', _, hle'⟩ | ⟨l, hl, hlr, hr', _, _, hle''⟩
        · have := derived_below h d0 s' hd0 hdv (by rw [e0]; exact hr); omega
        · -- the fresh range lives in X's chunk: `h = X` by uniqueness
          rw [hr'] at hr; simp at hr
          have hX0 : h = X := ha.unique h X d0 c hd0 hcX (by omega)
          subst hX0; rw [hX] at hd; cases hd; exact hle'
        · rw [hr'] at hr; simp at hr
          have hX0 : h = X := ha.unique h X d0 c hd0 hcX (by omega)
          subst hX0; rw [hX] at hd; cases hd; exact Nat.le_of_eq hle''
      · intro s' k hs' hr
        have hcapX := hnew X c' hX
        rcases hs s' hs' with hdv | ⟨hr', _, hle'⟩ | ⟨l, hl, hlr, hr', _, _, hle''⟩
        · exact (derived_cap s' k hdv hr).1
        · rw [hr'] at hr; simp at hr; subst hr
          rw [hcapX]; omega
        · rw [hr'] at hr; simp at hr; subst hr
          rw [hcapX]; have := Nat.le_of_eq hle''; omega
    · -- fresh chunk
      have old_of : ∀ h d, w'.cacheAt h = some d → h ≠ X → w.cacheAt h = some d ∧ d.chunk < w.next := by
        intro h d hd e
        rw [hother h e] at hd; exact ⟨hd, hw.cacheAt_lt hd⟩
      refine ⟨?_, ?_, ?_, ?_⟩
      · intro h h' d d' h1 h2 he
        by_cases e : h = X <;> by_cases e' : h' = X
        · rw [e, e']
        · subst e; rw [hX] at h1; cases h1
          have := (old_of h' d' h2 e').2; omega
        · subst e'; rw [hX] at h2; cases h2
          have := (old_of h d h1 e).2; omega
        · exact ha.unique h h' d d' (old_of h d h1 e).1 (old_of h' d' h2 e').1 he
      · intro h d hd
        refine ⟨?_, hnew h d hd⟩
        by_cases e : h = X
        · subst e; rw [hX] at hd; cases hd; omega
        · exact (ha.bumpLe h d (old_of h d hd e).1).1
      · intro h d s' hd hs' hr
        rcases hs s' hs' with hdv | ⟨hr', _, hle'⟩ | ⟨l, hl, hlr, hr', _, _, hle''⟩
        · by_cases e : h = X
          · subst e; rw [hX] at hd; cases hd
            have := (derived_cap s' _ hdv hr).2; omega
          · exact derived_below h d s' (old_of h d hd e).1 hdv hr
        · rw [hr'] at hr; simp at hr
          by_cases e : h = X
          · subst e; rw [hX] at hd; cases hd; exact hle'
          · have := (old_of h d hd e).2; omega
        · have := hw.hasSlice_lt hl hlr; omega
      · intro s' k hs' hr
        have hcapX := hnew X c' hX
        rcases hs s' hs' with hdv | ⟨hr', _, hle'⟩ | ⟨l, hl, hlr, hr', _, _, hle''⟩
        · exact (derived_cap s' k hdv hr).1
        · rw [hr'] at hr; simp at hr; subst hr
          rw [hcapX]; omega
        · have := hw.hasSlice_lt hl hlr; omega


/-! ### Every operation is an `AStep` -/

theorem AStep.refl_of_same {w w' : World} (hn : w'.next = w.next) (hc : ∀ h, w'.cacheAt h = w.cacheAt h)
    (hs : ∀ s', w'.HasSlice s' → w.Derived s') : AStep w w' :=
  .move id hn (fun h c hh => by rw [← hc]; exact hh) (fun _ _ _ _ _ _ e => e) hs

/-- `optimize` keeps every slice or replaces the last two by their in-place join, which ends where
the last one ended. -/
theorem optimize_derived {v v' : Iov} (h : v.optimize = some v') : ∀ s' ∈ v'.slices,
    s' ∈ v.slices ∨ ∃ l r c, v.slices.getLast? = some r ∧ l ∈ v.slices.dropLast ∧ v.arena.cache = some c ∧
      l.region = .chunk c.chunk ∧ r.region = .chunk c.chunk ∧ s'.region = .chunk c.chunk ∧
      s'.off = l.off ∧ s'.off + s'.len = r.off + r.len ∧ l.off + l.len = r.off := by
  rcases optimize_spec h with rfl | ⟨ss, l, r, as, a, m, hss, has, ha, hj, rfl⟩
  · intro s' hs'; exact Or.inl hs'
  · intro s' hs'
    obtain ⟨c, hc, hl, hr, hadj, _, hm⟩ := tryJoin_spec hj
    simp only [List.mem_append, List.mem_singleton] at hs'
    rcases hs' with hs' | rfl
    · left; rw [hss]; simp [hs']
    · right
      refine ⟨l, r, c, by rw [hss]; simp, ?_, hc, hl, hr, by rw [hm]; exact hl, by rw [hm], by rw [hm]; simp; omega, hadj⟩
      rw [hss]
      have : (ss ++ [l, r]).dropLast = ss ++ [l] := by
        have : ss ++ [l, r] = (ss ++ [l]) ++ [r] := by simp
        rw [this, List.dropLast_concat]
      rw [this]; simp

theorem consumeSlices_arena {v v' : Iov} {count k : Nat} (h : v.consumeSlices count = some (v', k)) :
    v'.arena = v.arena ∧ ∀ s ∈ v'.slices, s ∈ v.slices := by
  obtain ⟨_, as1, _, rfl⟩ := consumeSlices_specO h
  exact ⟨rfl, fun s hs => List.mem_of_mem_drop hs⟩

theorem consumeBytes_arena {v v' : Iov} {fuel count consumed c : Nat}
    (h : Iov.consumeBytes fuel v count consumed = some (v', c)) :
    v'.arena = v.arena ∧ ∀ s' ∈ v'.slices, ∃ s ∈ v.slices, s'.region = s.region ∧ s'.off + s'.len = s.off + s.len := by
  refine consumeBytes_preserves (fun x => x.arena = v.arena ∧ ∀ s' ∈ x.slices, ∃ s ∈ v.slices,
      s'.region = s.region ∧ s'.off + s'.len = s.off + s.len) ?_ ?_ fuel v count consumed v' c
    ⟨rfl, fun s' hs' => ⟨s', hs', rfl, rfl⟩⟩ h
  · intro x x' k hp hc
    obtain ⟨h1, h2⟩ := consumeSlices_arena hc
    exact ⟨by rw [h1, hp.1], fun s' hs' => hp.2 s' (h2 s' hs')⟩
  · intro x s rest n hp hs hn
    refine ⟨hp.1, ?_⟩
    intro s' hs'
    simp only [List.mem_cons] at hs'
    rcases hs' with rfl | hs'
    · obtain ⟨s0, hs0, hr, hl⟩ := hp.2 s (by rw [hs]; simp)
      exact ⟨s0, hs0, hr, by simp only; omega⟩
    · exact hp.2 s' (by rw [hs]; simp [hs'])

theorem cacheAt_iov {w : World} {i : Nat} {v : Iov} (hv : w.iov i = some v) : w.cacheAt (.iov i) = v.arena.cache := by
  simp [World.cacheAt, hv]

/-- Replacing iovec `i` by a value with the same arena whose slices derive from the world's. -/
theorem astep_setIov_same {w : World} {i : Nat} {v v' : Iov} (hv : w.iov i = some v) (ha : v'.arena = v.arena)
    (hs : ∀ s' ∈ v'.slices, w.Derived s') : AStep w (w.setIov i (some v')) := by
  refine AStep.refl_of_same rfl ?_ ?_
  · intro h
    simp only [cacheAt_setIov]
    split
    · rename_i e; subst e; simp [ha, cacheAt_iov hv]
    · rfl
  · intro s' hs'
    rcases hasSlice_setIov hs' with ⟨x, hx, hm⟩ | h0
    · cases hx; exact hs s' hm
    · exact h0.derived

theorem pushBorrowed_astep {w w' : World} {i : Nat} {s : Slice} (h : w.pushBorrowed i s = some w')
    (hs : w.Derived s) : AStep w w' := by
  obtain ⟨v, hv, ⟨_, rfl⟩ | ⟨_, v', hp, rfl⟩⟩ := pushBorrowed_spec h
  · exact AStep.refl_of_same rfl (fun _ => rfl) (fun _ h => h.derived)
  · refine astep_setIov_same hv (pushBorrowedSlice_arena hp) ?_
    obtain ⟨hl, as, a, hcase, ho⟩ := pushBorrowedSlice_spec hp
    intro s' hs'
    have old : ∀ x ∈ v.slices ++ [s], w.Derived x := by
      intro x hx
      simp only [List.mem_append, List.mem_singleton] at hx
      rcases hx with hx | rfl
      · exact World.HasSlice.derived (Or.inl ⟨i, v, hv, hx⟩)
      · exact hs
    rcases optimize_derived ho s' hs' with hm | ⟨l, r, c, hr, _, _, _, hrr, hsr, _, hend, _⟩
    · exact old s' hm
    · have hrm : r ∈ v.slices ++ [s] := by
        have := List.mem_of_getLast? hr; exact this
      rcases old r hrm with ⟨b, hb⟩ | ⟨y, hy, hry, hly⟩
      · rw [hb] at hrr; cases hrr
      · exact Or.inr ⟨y, hy, by rw [hsr, ← hrr, hry], by omega⟩

/-- `alloc(len)` followed by `release(len - n)` (`n ≤ len` bytes kept): the cache ends `n` bytes above
where it was, in the same chunk or at the bottom of a fresh one. -/
theorem alloc_release_data {t : Tuning} {a a' : Arena} {next next' len chunk off : Nat} (n : Nat) (hn : n ≤ len)
    (hl : 0 < len) (h : alloc t a next len = (a', next', chunk, off)) :
    ∃ c', (release a' (len - n)).cache = some c' ∧ c'.chunk = chunk ∧ c'.bump = off + n ∧
      ((∃ c, a.cache = some c ∧ c' = { c with bump := c.bump + n } ∧ c'.bump ≤ c.cap ∧ next' = next) ∨
       (c'.chunk = next ∧ c'.bump = n ∧ n ≤ c'.cap ∧ next' = next + 1)) := by
  rcases alloc_casesO t a next len with ⟨c, hc, hrem, he⟩ | ⟨cap, hcap, _, he⟩
  · rw [he] at h; simp only [Prod.mk.injEq] at h
    obtain ⟨rfl, rfl, rfl, rfl⟩ := h
    refine ⟨{ c with bump := c.bump + len - (len - n) }, by simp [release], rfl, by simp only; omega, Or.inl ⟨c, hc, ?_, ?_, rfl⟩⟩
    · congr 1; omega
    · simp only [Cache.remaining] at hrem; simp only; omega
  · rw [he] at h; simp only [Prod.mk.injEq] at h
    obtain ⟨rfl, rfl, rfl, rfl⟩ := h
    refine ⟨⟨next, cap, len - (len - n)⟩, by simp [release], rfl, by simp only; omega, Or.inr ⟨rfl, by simp only; omega, by simp only; omega, rfl⟩⟩

theorem release_zero (a : Arena) : release a 0 = a := by
  unfold release
  split
  · rename_i c hc; cases a; simp at hc; subst hc; rfl
  · rfl

theorem pushCopy_astep {w w' : World} {i : Nat} {src : List UInt8} (h : w.pushCopy i src = some w') : AStep w w' := by
  obtain ⟨v, hv, ⟨_, rfl⟩ | ⟨hne, arena', next', chunk, off, v2, hal, ho, rfl⟩⟩ := pushCopy_spec h
  · exact AStep.refl_of_same rfl (fun _ => rfl) (fun _ h => h.derived)
  · have hlen : 0 < src.length := by cases src <;> simp_all
    obtain ⟨c', hc', hck, hbump, hcase⟩ := alloc_release_data src.length (Nat.le_refl _) hlen hal
    rw [Nat.sub_self, release_zero] at hc'
    have harena : v2.arena = arena' := by rw [optimize_arena ho]
    refine AStep.alloc (.iov i) c' src.length ?_ ?_ ?_ ?_
    · intro h e; simp [e]
    · simp [harena, hc']
    · rcases hcase with ⟨c, hc, h1, h2, h3⟩ | ⟨h1, h2, h3, h4⟩
      · exact Or.inl ⟨c, by rw [cacheAt_iov hv]; exact hc, h1, h2, h3⟩
      · exact Or.inr ⟨h1, h2, h3, h4⟩
    · intro s' hs'
      have hs'' : (w.setIov i (some v2)).HasSlice s' := hs'
      rcases hasSlice_setIov hs'' with ⟨x, hx, hm⟩ | h0
      · cases hx
        rcases optimize_derived ho s' hm with hm' | ⟨l, r, c, hr, hl, hcc, hlr, hrr, hsr, hoff, hend, hadj⟩
        · simp only [List.mem_append, List.mem_singleton] at hm'
          rcases hm' with hm' | rfl
          · exact Or.inl (World.HasSlice.derived (Or.inl ⟨i, v, hv, hm'⟩))
          · exact Or.inr (Or.inl ⟨by simp [hck], by simp only; omega, by simp only; omega⟩)
        · simp only at hr hl hcc
          rw [List.getLast?_append, List.getLast?_singleton] at hr
          simp at hr; subst hr
          rw [List.dropLast_concat] at hl
          rw [hc'] at hcc; cases hcc
          exact Or.inr (Or.inr ⟨l, Or.inl ⟨i, v, hv, hl⟩, hlr, hsr, hoff, by simp only at hadj; omega,
            by simp only at hend; omega⟩)
      · exact Or.inl h0.derived

theorem AStep.congr_right {w w1 w' : World} (h : AStep w w1) (hn : w'.next = w1.next)
    (hc : ∀ h, w'.cacheAt h = w1.cacheAt h) (hs : ∀ s, w'.HasSlice s → w1.HasSlice s) : AStep w w' := by
  cases h with
  | move o hn1 hc1 hinj hs1 =>
    exact .move o (by omega) (fun h c hh => hc1 h c (by rw [← hc]; exact hh))
      (fun h1 h2 c1 c2 e1 e2 e => hinj h1 h2 c1 c2 (by rw [← hc]; exact e1) (by rw [← hc]; exact e2) e)
      (fun s' hs' => hs1 s' (hs s' hs'))
  | alloc X c' n hother hX hcase hs1 =>
    refine .alloc X c' n (fun h e => by rw [hc, hother h e]) (by rw [hc, hX]) ?_ (fun s' hs' => hs1 s' (hs s' hs'))
    rcases hcase with ⟨c, h1, h2, h3, h4⟩ | ⟨h1, h2, h3, h4⟩
    · exact Or.inl ⟨c, h1, h2, h3, by omega⟩
    · exact Or.inr ⟨h1, h2, h3, by omega⟩

theorem readNCore_len {r : ReadN.Reader} {count attempts : Nat} {got : List UInt8}
    (h : (ReadN.readNCore r count attempts).res = .ok got) : got.length ≤ count := by
  by_cases hc : count = 0
  · subst hc; simp [ReadN.readNCore] at h; subst h; simp
  · have := Woodpile.Props.C17.read_n_spec r count attempts (by omega)
    simp only at this
    obtain ⟨_, hle, _, _, hm⟩ := this
    rw [h] at hm
    rw [hm.1]; exact hle

/-- `read_n` on the arena held by `X`: what the world looks like once the arena is stored back at `X`
and the anchored result (if any) has been added as a detached slice. -/
theorem readN_astep {w w1 wf : World} {X : Holder} {a ar' : Arena} {r : ReadN.Reader} {count attempts : Nat}
    {res : Except Nat ASlice} {o : ReadN.Out} (hXa : w.cacheAt X = a.cache)
    (h : w.readN a r count attempts = (w1, ar', res, o))
    (hn : wf.next = w1.next)
    (hcX : wf.cacheAt X = ar'.cache) (hco : ∀ h, h ≠ X → wf.cacheAt h = w.cacheAt h)
    (hsl : ∀ s, wf.HasSlice s → w.HasSlice s ∨ ∃ x, res = .ok x ∧ x.slice = s) : AStep w wf := by
  unfold World.readN at h
  split at h
  · simp only [Prod.mk.injEq] at h
    obtain ⟨rfl, rfl, rfl, _⟩ := h
    refine AStep.refl_of_same hn ?_ ?_
    · intro h; by_cases e : h = X
      · subst e; rw [hcX, hXa]
      · exact hco h e
    · intro s hs
      rcases hsl s hs with h0 | ⟨x, hx, rfl⟩
      · exact h0.derived
      · simp at hx; subst hx; exact Or.inl ⟨0, rfl⟩
  · rename_i hcount
    rcases hal : alloc w.tun a w.next count with ⟨a1, next1, chunk, off⟩
    simp only [hal] at h
    cases hres : (ReadN.readNCore r count attempts).res with
    | ok got =>
      simp only [hres, Prod.mk.injEq] at h
      obtain ⟨rfl, rfl, rfl, _⟩ := h
      obtain ⟨c', hc', hck, hbump, hcase⟩ := alloc_release_data got.length (readNCore_len hres) (by omega) hal
      refine AStep.alloc X c' got.length hco (by rw [hcX, hc']) ?_ ?_
      · rcases hcase with ⟨c, hc, h1, h2, h3⟩ | ⟨h1, h2, h3, h4⟩
        · exact Or.inl ⟨c, by rw [hXa]; exact hc, h1, h2, by rw [hn]; exact h3⟩
        · exact Or.inr ⟨h1, h2, h3, by rw [hn]; exact h4⟩
      · intro s hs
        rcases hsl s hs with h0 | ⟨x, hx, rfl⟩
        · exact Or.inl h0.derived
        · simp at hx; subst hx
          exact Or.inr (Or.inl ⟨by simp [hck], by simp only; omega, by simp only; omega⟩)
    | err k =>
      simp only [hres, Prod.mk.injEq] at h
      obtain ⟨rfl, rfl, rfl, _⟩ := h
      obtain ⟨c', hc', hck, hbump, hcase⟩ := alloc_release_data 0 (Nat.zero_le _) (by omega) hal
      simp only [Nat.sub_zero] at hc'
      refine AStep.alloc X c' 0 hco (by rw [hcX, hc']) ?_ ?_
      · rcases hcase with ⟨c, hc, h1, h2, h3⟩ | ⟨h1, h2, h3, h4⟩
        · exact Or.inl ⟨c, by rw [hXa]; exact hc, h1, h2, by rw [hn]; exact h3⟩
        · exact Or.inr ⟨h1, h2, h3, by rw [hn]; exact h4⟩
      · intro s hs
        rcases hsl s hs with h0 | ⟨x, hx, _⟩
        · exact Or.inl h0.derived
        · cases hx

theorem ensureCapacity_astep {w wf : World} {X : Holder} {a a' : Arena} {k nx : Nat} (hXa : w.cacheAt X = a.cache)
    (h : ensureCapacity w.tun a w.next k = (a', nx)) (hn : wf.next = nx)
    (hcX : wf.cacheAt X = a'.cache) (hco : ∀ h, h ≠ X → wf.cacheAt h = w.cacheAt h)
    (hsl : ∀ s, wf.HasSlice s → w.HasSlice s) : AStep w wf := by
  rcases ensureCapacity_cases w.tun a w.next k with ⟨c, hc, _, he⟩ | ⟨cap, _, _, he⟩
  · rw [he] at h; simp only [Prod.mk.injEq] at h
    obtain ⟨rfl, rfl⟩ := h
    refine AStep.refl_of_same hn ?_ (fun s hs => (hsl s hs).derived)
    intro h; by_cases e : h = X
    · subst e; rw [hcX, hXa]
    · exact hco h e
  · rw [he] at h; simp only [Prod.mk.injEq] at h
    obtain ⟨rfl, rfl⟩ := h
    exact AStep.alloc X ⟨w.next, cap, 0⟩ 0 hco (by rw [hcX]) (Or.inr ⟨rfl, rfl, Nat.zero_le _, hn⟩)
      (fun s hs => Or.inl (hsl s hs).derived)


theorem AStep.congr_left {w0 w w' : World} (h : AStep w0 w') (hn : w0.next = w.next)
    (hc : ∀ h, w0.cacheAt h = w.cacheAt h) (hs : ∀ s, w0.HasSlice s → w.HasSlice s) : AStep w w' := by
  have hd : ∀ s, w0.Derived s → w.Derived s := by
    intro s hd
    rcases hd with hb | ⟨x, hx, hr, hl⟩
    · exact Or.inl hb
    · exact Or.inr ⟨x, hs x hx, hr, hl⟩
  cases h with
  | move o hn1 hc1 hinj hs1 =>
    exact .move o (by omega) (fun h c hh => by rw [← hc]; exact hc1 h c hh) hinj (fun s' hs' => hd s' (hs1 s' hs'))
  | alloc X c' n hother hX hcase hs1 =>
    refine .alloc X c' n (fun h e => by rw [hother h e, hc]) hX ?_ ?_
    · rcases hcase with ⟨c, h1, h2, h3, h4⟩ | ⟨h1, h2, h3, h4⟩
      · exact Or.inl ⟨c, by rw [← hc]; exact h1, h2, h3, by omega⟩
      · exact Or.inr ⟨by omega, h2, h3, by omega⟩
    · intro s' hs'
      rcases hs1 s' hs' with h1 | h1 | ⟨l, hl, h2⟩
      · exact Or.inl (hd s' h1)
      · exact Or.inr (Or.inl h1)
      · exact Or.inr (Or.inr ⟨l, hs l hl, h2⟩)

theorem astep_with_exts {w w' : World} (e : List (List UInt8)) (h : AStep { w with exts := e } w') : AStep w w' :=
  h.congr_left rfl (fun h => by cases h <;> rfl) (fun _ hs => hs)

theorem consume_astep {w w' : World} {i count k : Nat} (h : w.consume i count = some (w', k)) : AStep w w' := by
  obtain ⟨v, n, v', hv, _, hc, rfl⟩ := consume_spec h
  obtain ⟨h1, h2⟩ := consumeSlices_arena hc
  exact astep_setIov_same hv h1 (fun s' hs' => World.HasSlice.derived (Or.inl ⟨i, v, hv, h2 s' hs'⟩))

theorem advance_astep {w w' : World} {i count c : Nat} (h : w.advance i count = some (w', c)) : AStep w w' := by
  obtain ⟨v, n, v', k, hv, _, hc, rfl⟩ := advance_spec h
  obtain ⟨h1, h2⟩ := consumeBytes_arena hc
  refine astep_setIov_same hv h1 ?_
  intro s' hs'
  obtain ⟨s, hs, hr, hl⟩ := h2 s' hs'
  exact Or.inr ⟨s, Or.inl ⟨i, v, hv, hs⟩, hr, by omega⟩

/-- "Nothing allocated": the triple of facts `AStep.refl_of_same` needs, as one proposition closed under composition. -/
def Quiet (w w' : World) : Prop :=
  w'.next = w.next ∧ (∀ h, w'.cacheAt h = w.cacheAt h) ∧ ∀ s, w'.HasSlice s → w.Derived s

theorem Quiet.refl (w : World) : Quiet w w := ⟨rfl, fun _ => rfl, fun _ h => h.derived⟩
theorem Quiet.trans {w w1 w2 : World} (h1 : Quiet w w1) (h2 : Quiet w1 w2) : Quiet w w2 :=
  ⟨by rw [h2.1, h1.1], fun h => by rw [h2.2.1, h1.2.1], fun s hs => (h2.2.2 s hs).trans h1.2.2⟩
theorem Quiet.astep {w w' : World} (h : Quiet w w') : AStep w w' := AStep.refl_of_same h.1 h.2.1 h.2.2

theorem quiet_setIov_same {w : World} {i : Nat} {v v' : Iov} (hv : w.iov i = some v) (ha : v'.arena = v.arena)
    (hs : ∀ s' ∈ v'.slices, w.Derived s') : Quiet w (w.setIov i (some v')) := by
  refine ⟨rfl, ?_, ?_⟩
  · intro h
    simp only [cacheAt_setIov]
    split
    · rename_i e; subst e; simp [ha, cacheAt_iov hv]
    · rfl
  · intro s' hs'
    rcases hasSlice_setIov hs' with ⟨x, hx, hm⟩ | h0
    · cases hx; exact hs s' hm
    · exact h0.derived

theorem advance_quiet {w w' : World} {i count c : Nat} (h : w.advance i count = some (w', c)) : Quiet w w' := by
  obtain ⟨v, n, v', k, hv, _, hc, rfl⟩ := advance_spec h
  obtain ⟨h1, h2⟩ := consumeBytes_arena hc
  refine quiet_setIov_same hv h1 ?_
  intro s' hs'
  obtain ⟨s, hs, hr, hl⟩ := h2 s' hs'
  exact Or.inr ⟨s, Or.inl ⟨i, v, hv, hs⟩, hr, by omega⟩

theorem readInto_quiet {w w' : World} {fuel i room : Nat} {acc out : List UInt8}
    (h : World.readInto fuel w i room acc = some (w', out)) : Quiet w w' :=
  readInto_preserves (Quiet w) (fun _ _ _ _ _ hp ha => hp.trans (advance_quiet ha)) fuel w i room acc w' out
    (Quiet.refl w) h

theorem pushBorrowed_quiet {w w' : World} {i : Nat} {s : Slice} (h : w.pushBorrowed i s = some w')
    (hs : w.Derived s) : Quiet w w' := by
  obtain ⟨v, hv, ⟨_, rfl⟩ | ⟨_, v', hp, rfl⟩⟩ := pushBorrowed_spec h
  · exact Quiet.refl _
  · refine quiet_setIov_same hv (pushBorrowedSlice_arena hp) ?_
    obtain ⟨hl, as, a, hcase, ho⟩ := pushBorrowedSlice_spec hp
    intro s' hs'
    have old : ∀ x ∈ v.slices ++ [s], w.Derived x := by
      intro x hx
      simp only [List.mem_append, List.mem_singleton] at hx
      rcases hx with hx | rfl
      · exact World.HasSlice.derived (Or.inl ⟨i, v, hv, hx⟩)
      · exact hs
    rcases optimize_derived ho s' hs' with hm | ⟨l, r, c, hr, _, _, _, hrr, hsr, _, hend, _⟩
    · exact old s' hm
    · have hrm : r ∈ v.slices ++ [s] := List.mem_of_getLast? hr
      rcases old r hrm with ⟨b, hb⟩ | ⟨y, hy, hry, hly⟩
      · rw [hb] at hrr; cases hrr
      · exact Or.inr ⟨y, hy, by rw [hsr, ← hrr, hry], by omega⟩

theorem extend_quiet {w w' : World} {i : Nat} {slices : List Slice} (h : w.extend i slices = some w')
    (hs : ∀ s ∈ slices, ∃ b, s.region = .ext b) : Quiet w w' := by
  induction slices generalizing w with
  | nil => simp [World.extend] at h; subst h; exact Quiet.refl _
  | cons s rest ih =>
    unfold World.extend at h
    split at h
    · exact ih h (fun x hx => hs x (by simp [hx]))
    · split at h
      · simp at h
      · rename_i w1 hw1
        exact (pushBorrowed_quiet hw1 (Or.inl (hs s (by simp)))).trans (ih h (fun x hx => hs x (by simp [hx])))


theorem quiet_with_exts (w : World) (e : List (List UInt8)) : Quiet w { w with exts := e } :=
  ⟨rfl, fun h => by cases h <;> rfl, fun _ hs => World.HasSlice.derived hs⟩

theorem hasSlice_aslice {w : World} {j : Nat} {a : ASlice} (h : w.aslice j = some a) : w.HasSlice a.slice :=
  Or.inr ⟨j, a, h, rfl⟩

theorem quiet_setASlice {w : World} {j : Nat} {x : Option ASlice} (hx : ∀ a, x = some a → w.Derived a.slice) :
    Quiet w (w.setASlice j x) := by
  refine ⟨rfl, fun h => by simp, ?_⟩
  intro s hs
  rcases hasSlice_setASlice hs with ⟨a, ha, rfl⟩ | h0
  · exact hx a ha
  · exact h0.derived

theorem quiet_addASlice {w : World} {a : ASlice} (ha : w.Derived a.slice) : Quiet w (w.addASlice a).1 := by
  refine ⟨rfl, fun h => by simp, ?_⟩
  intro s hs
  rcases hasSlice_addASlice hs with rfl | h0
  · exact ha
  · exact h0.derived

theorem push_astep {w w' : World} {i : Nat} {s : Slice} (h : w.push i s = some w') (hs : w.Derived s) : AStep w w' := by
  rcases push_cases h with h | h
  · exact pushCopy_astep h
  · exact (pushBorrowed_quiet h hs).astep

theorem step_astep {w w' : World} {op : WOp} (h : w.step op = some w') : AStep w w' := by
  cases op with
  | new =>
    simp [World.step] at h; subst h
    refine AStep.refl_of_same rfl ?_ ?_
    · intro h; simp only [cacheAt_addIov]; split
      · rename_i e; subst e; simp [Iov.empty, cacheAt_iov_none_of_ge]
      · rfl
    · intro s hs; rcases hasSlice_addIov hs with hm | h0
      · simp [Iov.empty] at hm
      · exact h0.derived
  | newArena =>
    simp [World.step] at h; subst h
    refine AStep.refl_of_same rfl ?_ ?_
    · intro h; simp only [cacheAt_addArena]; split
      · rename_i e; subst e; simp [cacheAt_arena_none_of_ge]
      · rfl
    · intro s hs; exact (hasSlice_of_same (fun _ => rfl) (fun _ => rfl) hs).derived
  | newFromArena a =>
    simp only [World.step] at h
    split at h
    · rename_i ar har
      simp at h; subst h
      have hlen : (w.setArena a none).iovs.length = w.iovs.length := rfl
      refine AStep.move (fun h => if h = .iov w.iovs.length then .arena a else h) rfl ?_ ?_ ?_
      · intro h c hh
        simp only [cacheAt_addIov, cacheAt_setArena, hlen] at hh
        split at hh
        · rename_i e; subst e; simp [World.cacheAt, har]; exact hh
        · rename_i e; simp only [e, if_false]
          split at hh
          · simp at hh
          · exact hh
      · intro h1 h2 c1 c2 e1 e2 e
        simp only [cacheAt_addIov, cacheAt_setArena, hlen] at e1 e2
        by_cases a1 : h1 = .iov w.iovs.length <;> by_cases a2 : h2 = .iov w.iovs.length
        · rw [a1, a2]
        · simp only [a1, a2, if_true, if_false] at e e2
          rw [← e] at e2; simp at e2
        · simp only [a1, a2, if_true, if_false] at e e1
          rw [e] at e1; simp at e1
        · simpa [a1, a2] using e
      · intro s hs
        rcases hasSlice_addIov hs with hm | h0
        · simp [Iov.empty] at hm
        · exact (hasSlice_of_same (fun _ => rfl) (fun _ => rfl) h0).derived
    · simp at h
  | newFromSlices bufs =>
    simp only [World.step] at h
    obtain ⟨h1, h2⟩ := addExts_spec w bufs
    simp at h; subst h
    refine AStep.refl_of_same (by rw [h1]; rfl) ?_ ?_
    · intro h
      simp only [World.newFromSlices, cacheAt_addIov, h1]
      split
      · rename_i e; subst e; exact (cacheAt_iov_none_of_ge w _ (Nat.le_refl _)).symm
      · cases h <;> rfl
    · intro s hs
      simp only [World.newFromSlices] at hs
      rcases hasSlice_addIov hs with hm | h0
      · simp only at hm
        exact Or.inl (h2 s (List.mem_filter.1 hm).1).1
      · rw [h1] at h0
        exact World.HasSlice.derived (w := w) h0
  | push i bs =>
    simp only [World.step, World.addExt] at h
    exact astep_with_exts _ (push_astep h (Or.inl ⟨_, rfl⟩))
  | pushBorrowed i bs =>
    simp only [World.step, World.addExt] at h
    exact astep_with_exts _ (pushBorrowed_quiet h (Or.inl ⟨_, rfl⟩)).astep
  | pushCopy i bs => exact pushCopy_astep h
  | register i pat =>
    simp only [World.step] at h
    split at h
    · rename_i w1 b hr
      simp at h; subst h
      rcases registerPatch_spec hr with ⟨_, rfl, _⟩ | ⟨_, w2, v, last, hpc, hv, _, _, _, _, rfl⟩
      · exact AStep.refl_of_same rfl (fun h => by cases h <;> rfl) (fun _ hs => World.HasSlice.derived hs)
      · refine (pushCopy_astep hpc).congr_right rfl ?_ ?_
        · intro h
          show (w2.setIov i _).cacheAt h = _
          simp only [cacheAt_setIov]
          split
          · rename_i e; subst e; simp [cacheAt_iov hv]
          · rfl
        · intro s hs
          have hs' : (w2.setIov i (some { v with backrefs := _ })).HasSlice s := hs
          rcases hasSlice_setIov hs' with ⟨x, hx, hm⟩ | h0
          · cases hx; exact Or.inl ⟨i, v, hv, hm⟩
          · exact h0
    · simp at h
  | extend i bufs =>
    simp only [World.step] at h
    obtain ⟨h1, h2⟩ := addExts_spec w bufs
    rw [h1] at h
    exact astep_with_exts _ (extend_quiet h (fun s hs => (h2 s hs).1)).astep
  | consume i k =>
    simp only [World.step] at h
    split at h
    · rename_i w1 c hc; simp at h; subst h; exact consume_astep hc
    · simp at h
  | advance i k =>
    simp only [World.step] at h
    split at h
    · rename_i w1 c hc; simp at h; subst h; exact (advance_quiet hc).astep
    · simp at h
  | read i k =>
    simp only [World.step] at h
    split at h
    · rename_i w1 c hc; simp at h; subst h; exact (readInto_quiet hc).astep
    · simp at h
  | reserve i k =>
    simp only [World.step] at h
    split at h
    · rename_i v hv
      rcases hec : ensureCapacity w.tun v.arena w.next k with ⟨a', nx⟩
      simp [hec] at h; subst h
      refine ensureCapacity_astep (X := .iov i) (cacheAt_iov hv) hec rfl ?_ ?_ ?_
      · simp
      · intro h e; simp [e]
      · intro s hs
        rcases hasSlice_setIov hs with ⟨x, hx, hm⟩ | h0
        · cases hx; exact Or.inl ⟨i, v, hv, hm⟩
        · exact h0
    · simp at h
  | pushASlice i si =>
    simp only [World.step] at h
    split at h
    · rename_i a ha
      have hq0 : Quiet w (w.setASlice si none) := quiet_setASlice (by intro x hx; cases hx)
      have hsub : ∀ s, (w.setASlice si none).HasSlice s → w.HasSlice s := by
        intro s hs
        rcases hasSlice_setASlice hs with ⟨x, hx, _⟩ | h0
        · cases hx
        · exact h0
      split at h
      · simp at h; subst h; exact hq0.astep
      · split at h
        · rename_i w1 hpush
          unfold World.pushAnchor at h
          split at h
          · simp at h
          · rename_i v1 hv1
            simp at h; subst h
            rcases push_cases hpush with hp | hp
            · refine ((pushCopy_astep hp).congr_left (w := w) rfl (fun h => by simp) hsub).congr_right rfl ?_ ?_
              · intro h
                simp only [cacheAt_setIov]
                split
                · rename_i e; subst e; simp [cacheAt_iov hv1]
                · rfl
              · intro s hs
                rcases hasSlice_setIov hs with ⟨x, hx, hm⟩ | h0
                · cases hx; exact Or.inl ⟨i, v1, hv1, hm⟩
                · exact h0
            · obtain ⟨v, hv, ⟨h0, _⟩ | ⟨_, v', hpb, rfl⟩⟩ := pushBorrowed_spec hp
              · omega
              · simp at hv1; subst hv1
                have hv' : w.iov i = some v := by simpa using hv
                refine AStep.refl_of_same rfl ?_ ?_
                · intro h
                  simp only [cacheAt_setIov, cacheAt_setASlice]
                  split
                  · rename_i e; subst e; simp [pushBorrowedSlice_arena hpb, cacheAt_iov hv']
                  · rfl
                · intro s hs
                  rcases hasSlice_setIov hs with ⟨x, hx, hm⟩ | h0
                  · cases hx
                    simp only at hm
                    have old : ∀ y ∈ v.slices ++ [a.slice], w.HasSlice y := by
                      intro y hy
                      simp only [List.mem_append, List.mem_singleton] at hy
                      rcases hy with hy | rfl
                      · exact Or.inl ⟨i, v, hv', hy⟩
                      · exact hasSlice_aslice ha
                    obtain ⟨hl, as, a0, hcase, ho⟩ := pushBorrowedSlice_spec hpb
                    rcases optimize_derived ho s hm with hm' | ⟨l, r, c, hr, _, _, _, hrr, hsr, _, hend, _⟩
                    · exact (old s hm').derived
                    · exact Or.inr ⟨r, old r (List.mem_of_getLast? hr), by rw [hsr, hrr], by omega⟩
                  · rcases hasSlice_setIov h0 with ⟨x, hx, hm⟩ | h1
                    · cases hx
                      obtain ⟨hl, as, a0, hcase, ho⟩ := pushBorrowedSlice_spec hpb
                      have old : ∀ y ∈ v.slices ++ [a.slice], w.HasSlice y := by
                        intro y hy
                        simp only [List.mem_append, List.mem_singleton] at hy
                        rcases hy with hy | rfl
                        · exact Or.inl ⟨i, v, hv', hy⟩
                        · exact hasSlice_aslice ha
                      rcases optimize_derived ho s hm with hm' | ⟨l, r, c, hr, _, _, _, hrr, hsr, _, hend, _⟩
                      · exact (old s hm').derived
                      · exact Or.inr ⟨r, old r (List.mem_of_getLast? hr), by rw [hsr, hrr], by omega⟩
                    · exact (hsub s h1).derived
        · simp at h
    · simp at h
  | swapArena i ai =>
    simp only [World.step] at h
    split at h
    · rename_i v ar hv har
      simp at h; subst h
      refine AStep.move (fun h => if h = .iov i then .arena ai else if h = .arena ai then .iov i else h) rfl ?_ ?_ ?_
      · intro h c hh
        simp only [cacheAt_setIov, cacheAt_setArena] at hh
        by_cases e1 : h = .iov i
        · subst e1; simp at hh ⊢; simp [World.cacheAt, har]; exact hh
        · by_cases e2 : h = .arena ai
          · subst e2; simp at hh ⊢; simp [World.cacheAt, hv]; exact hh
          · simp [e1, e2] at hh ⊢; exact hh
      · intro h1 h2 c1 c2 _ _ e
        by_cases a1 : h1 = .iov i <;> by_cases a2 : h2 = .iov i <;>
          by_cases b1 : h1 = .arena ai <;> by_cases b2 : h2 = .arena ai <;> simp_all
      · intro s hs
        rcases hasSlice_setIov hs with ⟨x, hx, hm⟩ | h0
        · cases hx; exact World.HasSlice.derived (Or.inl ⟨i, v, hv, hm⟩)
        · exact (hasSlice_of_same (fun _ => rfl) (fun _ => rfl) h0).derived
    · simp at h
  | aReserve ai k =>
    simp only [World.step] at h
    split at h
    · rename_i ar har
      rcases hec : ensureCapacity w.tun ar w.next k with ⟨a', nx⟩
      simp [hec] at h; subst h
      refine ensureCapacity_astep (X := .arena ai) (by simp [World.cacheAt, har]) hec rfl ?_ ?_ ?_
      · simp
      · intro h e; simp [e]
      · intro s hs; exact hasSlice_of_same (fun _ => rfl) (fun _ => rfl) hs
    · simp at h
  | sSkip si k =>
    simp only [World.step] at h
    split at h
    · rename_i a ha
      simp at h; subst h
      refine (quiet_setASlice ?_).astep
      intro x hx; cases hx
      exact Or.inr ⟨a.slice, hasSlice_aslice ha, rfl, by simp [ASlice.skipPrefix]; omega⟩
    · simp at h
  | sDropSuf si k =>
    simp only [World.step] at h
    split at h
    · rename_i a ha
      simp at h; subst h
      refine (quiet_setASlice ?_).astep
      intro x hx; cases hx
      exact Or.inr ⟨a.slice, hasSlice_aslice ha, rfl, by simp [ASlice.dropSuffix]⟩
    · simp at h
  | sSplit si k =>
    simp only [World.step] at h
    split at h
    · rename_i a ha
      simp at h; subst h
      have hq0 : Quiet w (w.setASlice si none) := quiet_setASlice (by intro x hx; cases hx)
      have hd : ∀ s, (w.setASlice si none).Derived s → w.Derived s := fun s hd => hd.trans hq0.2.2
      have hl : w.Derived (a.splitAt k).1.slice ∧ w.Derived (a.splitAt k).2.slice := by
        unfold ASlice.splitAt
        split
        · exact ⟨(hasSlice_aslice ha).derived, Or.inl ⟨0, rfl⟩⟩
        · exact ⟨Or.inr ⟨a.slice, hasSlice_aslice ha, rfl, by simp only; omega⟩,
            Or.inr ⟨a.slice, hasSlice_aslice ha, rfl, by simp only; omega⟩⟩
      refine AStep.refl_of_same rfl (fun h => by simp) ?_
      intro s hs
      rcases hasSlice_addASlice hs with rfl | h0
      · exact hl.2
      · rcases hasSlice_addASlice h0 with rfl | h1
        · exact hl.1
        · exact hq0.2.2 s h1
    · simp at h
  | backfill i bi bs =>
    simp only [World.step] at h
    split at h
    · obtain ⟨v, hv, ⟨_, _, rfl⟩ | ⟨key, info, target, k, _, _, _, _, _, _, _, rfl⟩⟩ := backfill_spec h
      · exact (Quiet.refl _).astep
      · refine AStep.refl_of_same rfl ?_ ?_
        · intro h
          show (w.setIov i _).cacheAt h = _
          simp only [cacheAt_setIov]
          split
          · rename_i e; subst e; simp [cacheAt_iov hv]
          · rfl
        · intro s hs
          have hs' : (w.setIov i (some { v with backrefs := _ })).HasSlice s := hs
          rcases hasSlice_setIov hs' with ⟨x, hx, hm⟩ | h0
          · cases hx; exact World.HasSlice.derived (Or.inl ⟨i, v, hv, hm⟩)
          · exact h0.derived
    · simp at h
  | pop i =>
    simp only [World.step] at h
    split at h
    · rename_i w1 hc; simp at h; subst h; exact consume_astep hc
    · simp at h
  | clear i =>
    simp only [World.step, World.clear] at h
    split at h
    · simp at h
    · rename_i v hv
      simp at h; subst h
      refine (quiet_setIov_same (v' := { Iov.empty with arena := v.arena }) hv rfl ?_).astep
      intro s hs; simp [Iov.empty] at hs
  | take i =>
    simp only [World.step, World.take] at h
    split at h
    · rename_i w1 j' ht
      split at ht
      · simp at ht
      · rename_i v hv
        simp at ht h
        subst h
        rw [← ht.1]
        have hlen : (w.setIov i (some Iov.empty)).iovs.length = w.iovs.length := by
          have hi := iov_lt_of_some hv
          simp [World.setIov, listSet, hi]
        have hi : i ≠ w.iovs.length := Nat.ne_of_lt (iov_lt_of_some hv)
        refine AStep.move (fun h => if h = .iov w.iovs.length then .iov i else h) rfl ?_ ?_ ?_
        · intro h c hh
          simp only [cacheAt_addIov, cacheAt_setIov, hlen] at hh
          split at hh
          · rename_i e; subst e; simp [cacheAt_iov hv]; exact hh
          · rename_i e; simp only [e, if_false]
            split at hh
            · simp [Iov.empty] at hh
            · exact hh
        · intro h1 h2 c1 c2 e1 e2 e
          simp only [cacheAt_addIov, cacheAt_setIov, hlen] at e1 e2
          by_cases a1 : h1 = .iov w.iovs.length <;> by_cases a2 : h2 = .iov w.iovs.length
          · rw [a1, a2]
          · simp only [a1, a2, if_true, if_false] at e e2
            rw [← e] at e2; simp [Iov.empty] at e2
          · simp only [a1, a2, if_true, if_false] at e e1
            rw [e] at e1; simp [Iov.empty] at e1
          · simpa [a1, a2] using e
        · intro s hs
          rcases hasSlice_addIov hs with hm | h0
          · exact World.HasSlice.derived (Or.inl ⟨i, v, hv, hm⟩)
          · rcases hasSlice_setIov h0 with ⟨x, hx, hm⟩ | h1
            · cases hx; simp [Iov.empty] at hm
            · exact h1.derived
    · simp at h
  | clone i =>
    simp only [World.step, World.clone] at h
    split at h
    · rename_i w1 j' ht
      split at ht
      · simp at ht
      · rename_i v hv
        simp only [Option.some.injEq] at ht
        simp at h; subst h
        have e : w1 = (w.addIov { v with arena := ⟨none⟩ }).1 := by rw [ht]
        rw [e]
        refine AStep.refl_of_same rfl ?_ ?_
        · intro h; simp only [cacheAt_addIov]; split
          · rename_i e; subst e; simp [cacheAt_iov_none_of_ge]
          · rfl
        · intro s hs
          rcases hasSlice_addIov hs with hm | h0
          · exact World.HasSlice.derived (Or.inl ⟨i, v, hv, hm⟩)
          · exact h0.derived
    · simp at h
  | drop i =>
    simp only [World.step, World.dropIov] at h
    split at h
    · simp at h
    · simp at h; subst h
      refine AStep.move id rfl ?_ (fun _ _ _ _ _ _ e => e) ?_
      · intro h c hh
        simp only [cacheAt_setIov] at hh
        split at hh
        · simp at hh
        · exact hh
      · intro s hs
        rcases hasSlice_setIov hs with ⟨x, hx, _⟩ | h0
        · cases hx
        · exact h0.derived
  | flush i =>
    simp only [World.step] at h
    split at h
    · rename_i v hv
      simp at h; subst h
      refine AStep.move id rfl ?_ (fun _ _ _ _ _ _ e => e) ?_
      · intro h c hh
        simp only [cacheAt_setIov] at hh
        split at hh
        · simp [flush] at hh
        · exact hh
      · intro s hs
        rcases hasSlice_setIov hs with ⟨x, hx, hm⟩ | h0
        · cases hx; exact World.HasSlice.derived (Or.inl ⟨i, v, hv, hm⟩)
        · exact h0.derived
    · simp at h
  | takeArena i =>
    simp only [World.step] at h
    split at h
    · rename_i v hv
      simp at h; subst h
      have hlen : (w.setIov i (some { v with arena := ⟨none⟩ })).arenas.length = w.arenas.length := rfl
      refine AStep.move (fun h => if h = .arena w.arenas.length then .iov i else h) rfl ?_ ?_ ?_
      · intro h c hh
        simp only [cacheAt_addArena, cacheAt_setIov, hlen] at hh
        split at hh
        · rename_i e; subst e; simp [cacheAt_iov hv]; exact hh
        · rename_i e; simp only [e, if_false]
          split at hh
          · simp at hh
          · exact hh
      · intro h1 h2 c1 c2 e1 e2 e
        simp only [cacheAt_addArena, cacheAt_setIov, hlen] at e1 e2
        by_cases a1 : h1 = .arena w.arenas.length <;> by_cases a2 : h2 = .arena w.arenas.length
        · rw [a1, a2]
        · simp only [a1, a2, if_true, if_false] at e e2
          rw [← e] at e2; simp at e2
        · simp only [a1, a2, if_true, if_false] at e e1
          rw [e] at e1; simp at e1
        · simpa [a1, a2] using e
      · intro s hs
        have hs' : (w.setIov i (some { v with arena := ⟨none⟩ })).HasSlice s :=
          hasSlice_of_same (fun _ => rfl) (fun _ => rfl) hs
        rcases hasSlice_setIov hs' with ⟨x, hx, hm⟩ | h0
        · cases hx; exact World.HasSlice.derived (Or.inl ⟨i, v, hv, hm⟩)
        · exact h0.derived
    · simp at h
  | aFlush ai =>
    simp only [World.step] at h
    split at h
    · simp at h; subst h
      refine AStep.move id rfl ?_ (fun _ _ _ _ _ _ e => e) (fun s hs => World.HasSlice.derived (hasSlice_of_same (fun _ => rfl) (fun _ => rfl) hs))
      intro h c hh
      simp only [cacheAt_setArena] at hh
      split at hh
      · simp [flush] at hh
      · exact hh
    · simp at h
  | dropArena ai =>
    simp only [World.step] at h
    split at h
    · simp at h; subst h
      refine AStep.move id rfl ?_ (fun _ _ _ _ _ _ e => e) (fun s hs => World.HasSlice.derived (hasSlice_of_same (fun _ => rfl) (fun _ => rfl) hs))
      intro h c hh
      simp only [cacheAt_setArena] at hh
      split at hh
      · simp at hh
      · exact hh
    · simp at h
  | sTake si =>
    simp only [World.step] at h
    split at h
    · rename_i a ha
      simp at h; subst h
      have hq0 : Quiet w (w.setASlice si (some ASlice.empty)) :=
        quiet_setASlice (by intro x hx; cases hx; exact Or.inl ⟨0, rfl⟩)
      refine AStep.refl_of_same rfl (fun h => by simp) ?_
      intro s hs
      rcases hasSlice_addASlice hs with rfl | h0
      · exact (hasSlice_aslice ha).derived
      · exact hq0.2.2 s h0
    · simp at h
  | sClone si =>
    simp only [World.step] at h
    split at h
    · rename_i a ha
      simp at h; subst h
      exact (quiet_addASlice (hasSlice_aslice ha).derived).astep
    · simp at h
  | sDrop si =>
    simp only [World.step] at h
    split at h
    · simp at h; subst h
      exact (quiet_setASlice (by intro x hx; cases hx)).astep
    · simp at h
  | readNIov i count attempts src script =>
    simp only [World.step, World.readNIov] at h
    split at h
    · simp at h
    · rename_i v hv
      rcases hr : w.readN v.arena ⟨src, script⟩ count attempts with ⟨w1, ar', res, o⟩
      simp only [hr] at h
      obtain ⟨hp, nx, rfl⟩ := readN_world hr
      have hiov : ({ w with heap := hp, next := nx } : World).iov i = some v := hv
      simp only [hiov] at h
      refine readN_astep (X := .iov i) (cacheAt_iov hv) hr ?_ ?_ ?_ ?_
      · cases res <;> (simp at h; subst h; rfl)
      · cases res <;> (simp at h; subst h; simp)
      · intro h' e; cases res <;> (simp at h; subst h; simp [e])
      · intro s hs
        cases res with
        | ok a =>
          simp at h; subst h
          rcases hasSlice_addASlice hs with rfl | h0
          · exact Or.inr ⟨a, rfl, rfl⟩
          · rcases hasSlice_setIov h0 with ⟨x, hx, hm⟩ | h1
            · cases hx; exact Or.inl (Or.inl ⟨i, v, hv, hm⟩)
            · exact Or.inl h1
        | error k =>
          simp at h; subst h
          rcases hasSlice_setIov hs with ⟨x, hx, hm⟩ | h1
          · cases hx; exact Or.inl (Or.inl ⟨i, v, hv, hm⟩)
          · exact Or.inl h1
  | readNArena j count attempts src script =>
    simp only [World.step, World.readNArena] at h
    split at h
    · simp at h
    · rename_i ar har
      rcases hr : w.readN ar ⟨src, script⟩ count attempts with ⟨w1, ar', res, o⟩
      simp only [hr] at h
      obtain ⟨hp, nx, rfl⟩ := readN_world hr
      refine readN_astep (X := .arena j) (by simp [World.cacheAt, har]) hr ?_ ?_ ?_ ?_
      · cases res <;> (simp at h; subst h; rfl)
      · cases res <;> (simp at h; subst h; simp)
      · intro h' e; cases res <;> (simp at h; subst h; simp [e])
      · intro s hs
        cases res with
        | ok a =>
          simp at h; subst h
          rcases hasSlice_addASlice hs with rfl | h0
          · exact Or.inr ⟨a, rfl, rfl⟩
          · exact Or.inl (hasSlice_of_same (fun _ => rfl) (fun _ => rfl) h0)
        | error k =>
          simp at h; subst h
          exact Or.inl (hasSlice_of_same (fun _ => rfl) (fun _ => rfl) hs)
  | lend bs =>
    simp [World.step, World.addExt] at h; subst h
    exact (quiet_with_exts w _).astep
  | pushAt i b off len =>
    simp only [World.step] at h
    split at h
    · exact push_astep h (Or.inl ⟨_, rfl⟩)
    · simp at h
  | pushBorrowedAt i b off len =>
    simp only [World.step] at h
    split at h
    · exact (pushBorrowed_quiet h (Or.inl ⟨_, rfl⟩)).astep
    · simp at h


/-! ### Histories with the capacity ghost -/

/-- `w` is reachable and `caps k` is the capacity chunk `k` was allocated with: every step keeps the
capacities of the chunks that existed and records the capacity of each cache of the new world (so
the capacity of the chunk the step allocated, if any).  On allocated chunks (`k < w.next`) `caps` is
uniquely determined by the history. -/
inductive GReach : World → (Nat → Nat) → Prop
  | init (pol : Policy) (tun : Tuning) : GReach (World.init pol tun) (fun _ => 0)
  | step {w w' : World} {caps caps' : Nat → Nat} {op : WOp} : GReach w caps → w.step op = some w' →
      (∀ k, k < w.next → caps' k = caps k) → (∀ h c, w'.cacheAt h = some c → caps' c.chunk = c.cap) →
      GReach w' caps'

theorem arenaInv_init (pol : Policy) (tun : Tuning) : ArenaInv (World.init pol tun) (fun _ => 0) := by
  have hc : ∀ h, (World.init pol tun).cacheAt h = none := by
    intro h; cases h <;> simp [World.cacheAt, World.init, World.iov, World.arena]
  have hs : ∀ s, ¬ (World.init pol tun).HasSlice s := by
    rintro s (⟨i, v, hv, _⟩ | ⟨j, a, ha, _⟩)
    · simp [World.init, World.iov] at hv
    · simp [World.init, World.aslice] at ha
  refine ⟨?_, ?_, ?_, ?_⟩
  · intro h _ c _ h1; rw [hc] at h1; cases h1
  · intro h c h1; rw [hc] at h1; cases h1
  · intro h c s h1; rw [hc] at h1; cases h1
  · intro s k h1; exact absurd h1 (hs s)

theorem GReach.reachable {w : World} {caps : Nat → Nat} (h : GReach w caps) : Reachable w := by
  induction h with
  | init pol tun => exact ⟨pol, tun, [], rfl⟩
  | @step w w' caps caps' op _ hs _ _ ih => exact ih.step hs

theorem GReach.inv {w : World} {caps : Nat → Nat} (h : GReach w caps) : ArenaInv w caps := by
  induction h with
  | init pol tun => exact arenaInv_init pol tun
  | @step w w' caps caps' op hg hs hold hnew ih => exact (step_astep hs).inv hg.reachable.inv ih hold hnew

/-- A capacity ghost always exists (and is determined on allocated chunks). -/
theorem AStep.exists_caps {w w' : World} {caps : Nat → Nat} (hw : WorldInv w) (ha : ArenaInv w caps) (h : AStep w w') :
    ∃ caps' : Nat → Nat, (∀ k, k < w.next → caps' k = caps k) ∧ (∀ h c, w'.cacheAt h = some c → caps' c.chunk = c.cap) := by
  cases h with
  | move o hn hc hinj hs =>
    exact ⟨caps, fun _ _ => rfl, fun h c hh => (ha.bumpLe _ c (hc h c hh)).2⟩
  | alloc X c' n hother hX hcase hs =>
    rcases hcase with ⟨c, hcX, hc', hle, hn⟩ | ⟨hck, hb, hcap, hn⟩
    · refine ⟨caps, fun _ _ => rfl, ?_⟩
      intro h d hd
      by_cases e : h = X
      · subst e; rw [hX] at hd; cases hd
        have := (ha.bumpLe h c hcX).2
        rw [hc']; exact this
      · rw [hother h e] at hd; exact (ha.bumpLe h d hd).2
    · refine ⟨fun k => if k = w.next then c'.cap else caps k, ?_, ?_⟩
      · intro k hk; have : k ≠ w.next := by omega
        simp [this]
      · intro h d hd
        by_cases e : h = X
        · subst e; rw [hX] at hd; cases hd; simp [hck]
        · rw [hother h e] at hd
          have : d.chunk ≠ w.next := Nat.ne_of_lt (hw.cacheAt_lt hd)
          simp [this]; exact (ha.bumpLe h d hd).2

theorem Reachable.exists_caps {w : World} (h : Reachable w) : ∃ caps, GReach w caps := by
  obtain ⟨pol, tun, ops, h⟩ := h
  suffices ∀ (ops : List WOp) (w0 : World) (caps0 : Nat → Nat), GReach w0 caps0 → w0.run ops = some w →
      ∃ caps, GReach w caps from this ops _ _ (GReach.init pol tun) h
  intro ops
  induction ops with
  | nil => intro w0 caps0 hg hr; simp [World.run] at hr; subst hr; exact ⟨caps0, hg⟩
  | cons op rest ih =>
    intro w0 caps0 hg hr
    unfold World.run at hr
    split at hr
    · rename_i w1 h1
      obtain ⟨caps1, ho, hn⟩ := (step_astep h1).exists_caps hg.reachable.inv hg.inv
      exact ih w1 caps1 (hg.step h1 ho hn) hr
    · simp at hr

/-- Two capacity ghosts of the same world agree on every allocated chunk that is still referenced by
a cache (in particular they give the same bound in `exposed_in_chunk` for cached chunks). -/
theorem GReach.caps_of_cache {w : World} {caps : Nat → Nat} (hg : GReach w caps) {h : Holder} {c : Cache}
    (hc : w.cacheAt h = some c) : caps c.chunk = c.cap ∧ c.bump ≤ c.cap :=
  ⟨(hg.inv.bumpLe h c hc).2, (hg.inv.bumpLe h c hc).1⟩

/-! ### Fresh allocations never overlap what existed -/

/-- What one step does to the set of readable slices: every slice of the new world is a sub-range /
in-place merge of a slice that existed (`Derived`), or lies inside the single range the step allocated,
or is an old slice extended in place by exactly that range; and the allocated range starts at or above
the end of every slice that existed in its chunk, and ends inside the chunk. -/
theorem step_fresh {w w' : World} {caps caps' : Nat → Nat} {op : WOp} (hg : GReach w caps) (hs : w.step op = some w')
    (hg' : GReach w' caps') :
    ∃ k lo hi, lo ≤ hi ∧ hi ≤ caps' k ∧
      (∀ s, w.HasSlice s → s.region = .chunk k → s.off + s.len ≤ lo) ∧
      (∀ s', w'.HasSlice s' → w.Derived s' ∨
        (s'.region = .chunk k ∧ lo ≤ s'.off ∧ s'.off + s'.len ≤ hi) ∨
        (∃ l, w.HasSlice l ∧ s'.region = l.region ∧ l.region = .chunk k ∧ s'.off = l.off ∧
          l.off + l.len = lo ∧ s'.off + s'.len = hi)) := by
  have hw := hg.reachable.inv
  have ha := hg.inv
  have ha' := hg'.inv
  cases step_astep hs with
  | move o hn hc hinj hsl =>
    refine ⟨w.next, 0, 0, Nat.le_refl _, Nat.zero_le _, ?_, fun s' hs' => Or.inl (hsl s' hs')⟩
    intro s hs hr
    have := hw.hasSlice_lt hs hr; omega
  | alloc X c' n hother hX hcase hsl =>
    have hb' := ha'.bumpLe X c' hX
    refine ⟨c'.chunk, c'.bump - n, c'.bump, Nat.sub_le _ _, by rw [hb'.2]; exact hb'.1, ?_, ?_⟩
    · intro s hs hr
      rcases hcase with ⟨c, hcX, hc', hle, hn⟩ | ⟨hck, hb, hcap, hn⟩
      · have := ha.below X c s hcX hs (by rw [hr, hc'])
        rw [hc']; simp only; omega
      · have := hw.hasSlice_lt hs hr; omega
    · intro s' hs'
      rcases hsl s' hs' with h1 | h1 | ⟨l, hl, h2, h3, h4, h5, h6⟩
      · exact Or.inl h1
      · exact Or.inr (Or.inl h1)
      · exact Or.inr (Or.inr ⟨l, hl, by rw [h3, h2], h2, h4, h5, h6⟩)


end Woodpile.Iovec

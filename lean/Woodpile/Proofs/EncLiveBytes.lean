/-
C10, live BYTES of codec runs (track `c10enc`): the capacity ghost of `GReach` along the runs of the
encoder and the decoder with borrowed / copied input.

`CapLit T S w toks`: the world `w`, with the codec's token list as handle table (`World.wb`), is the world
after a `WOp` history from `World.init` (`GReach`, hence `Reachable`: every theorem of C05 / C10 / C20
applies to it), on arena tuning `T`, and the capacity ghost of that history — the capacity each chunk was
ALLOCATED with — is at most `S` on every chunk ever allocated.  It is closed under everything the codecs,
their callers and their consumers do (`capLit_closed`: an `EncWorld.EncClosed` instance), provided every
emit is at most `B` bytes and the tuning answers requests of at most `B` bytes with chunks of at most `S`
bytes (`TuningBounds T B m₀ S`; production: `B < 2^20`, `S = 2^20`).

(The anchored input method `encode_read` is not a `WOp` history — it pushes several sub-slices of the
`read_n` allocation and then ONE anchor —, so `GReach` is not available for it; the chunk COUNT bound of
`Proofs/EncFootprint.lean` covers it, and `Props/C09H.enc_slices_in_cap` bounds its slices and cache.)
-/
import Woodpile.Proofs.EncFootprint
import Woodpile.Proofs.FootprintGlue

namespace Woodpile.EncWorld
open Woodpile.Hcobs Woodpile.Iovec Woodpile.Arena

def CapLit (T : Tuning) (S : Nat) (w : World) (toks : List Backref) : Prop :=
  w.tun = T ∧ CapReach S (w.wb toks)

theorem CapLit.worldInv {T : Tuning} {S : Nat} {w : World} {toks : List Backref} (h : CapLit T S w toks) :
    WorldInv w := by
  obtain ⟨_, caps, hg, _⟩ := h
  exact hg.reachable.inv.with_brefs w.brefs

theorem CapLit.step {T : Tuning} {S : Nat} {w w' : World} {toks toks' : List Backref} {op : WOp}
    (h : CapLit T S w toks) (hs : (w.wb toks).step op = some (w'.wb toks')) (ht : w'.tun = w.tun)
    (hf : ∀ hh c, w'.cacheAt hh = some c → w.next ≤ c.chunk → c.cap ≤ S) : CapLit T S w' toks' :=
  ⟨ht.trans h.1, h.2.step hs (fun hh c hc hge => hf hh c hc hge)⟩

theorem old_caches_fresh {S : Nat} {w w' : World} (hw : WorldInv w) (ha : AStep w w') (hn : w'.next = w.next) :
    ∀ hh c, w'.cacheAt hh = some c → w.next ≤ c.chunk → c.cap ≤ S := by
  intro hh c hc hge
  have := astep_old_caches hw ha hn hh c hc
  omega

theorem pushCopy_tun {w w' : World} {i : Nat} {src : List UInt8} (h : w.pushCopy i src = some w') : w'.tun = w.tun := by
  obtain ⟨v, hv, ⟨_, rfl⟩ | ⟨_, arena', next', chunk, off, v2, _, _, rfl⟩⟩ := pushCopy_spec h <;> rfl

theorem pushBorrowed_tun_next {w w' : World} {i : Nat} {s : Slice} (h : w.pushBorrowed i s = some w') :
    w'.tun = w.tun ∧ w'.next = w.next := by
  obtain ⟨v, hv, ⟨_, rfl⟩ | ⟨_, v', _, rfl⟩⟩ := pushBorrowed_spec h <;> exact ⟨rfl, rfl⟩

theorem capLit_closed (T : Tuning) (B m₀ S : Nat) (hb : TuningBounds T B m₀ S) (hB2 : 2 ≤ B) :
    EncClosed B (CapLit T S) where
  emit := by
    intro w w' i toks toks' e src hsrc hsm h hl
    have hw := hl.worldInv
    have hbw : TuningBounds w.tun B m₀ S := by rw [hl.1]; exact hb
    obtain ⟨op, m⟩ := e
    cases op with
    | append bs =>
      have hbs : bs.length ≤ B := hsm.1 bs rfl
      cases m with
      | copy =>
        simp only [applyEmit, Option.map_eq_some_iff, Prod.mk.injEq] at h
        obtain ⟨w1, h1, rfl, rfl⟩ := h
        refine hl.step (op := .pushCopy i bs) ?_ (pushCopy_tun h1) (pushCopy_fresh_le hbw hw hbs h1)
        show (w.wb toks).pushCopy i bs = _
        rw [pushCopy_wb, h1]; rfl
      | borrow =>
        simp only [applyEmit, Option.map_eq_some_iff, Prod.mk.injEq] at h
        obtain ⟨w1, h1, rfl, rfl⟩ := h
        obtain ⟨b, hbr, hle⟩ := srcOk_bounds hsrc
        obtain ⟨reg, off, len⟩ := src
        simp only at hbr hle h1
        subst hbr
        have hstep : (w.wb toks).step (.pushAt i b off bs.length) = some (w1.wb toks) := by
          have hle' : off + bs.length ≤ ((w.wb toks).exts.getD b []).length := hle
          simp only [World.step, if_pos hle']
          rw [push_wb, h1]; rfl
        rcases push_cases h1 with hp | hp
        · refine hl.step hstep (pushCopy_tun hp) (pushCopy_fresh_le hbw hw ?_ hp)
          have := sliceBytes_length_le w ⟨.ext b, off, bs.length⟩
          simp only at this; omega
        · obtain ⟨ht, hn⟩ := pushBorrowed_tun_next hp
          exact hl.step hstep ht (old_caches_fresh hw (pushBorrowed_astep hp (Or.inl ⟨b, rfl⟩)) hn)
    | register k =>
      simp only [applyEmit] at h
      cases h1 : w.registerPatch i (List.replicate k 0) with
      | none => rw [h1] at h; cases h
      | some x =>
        obtain ⟨w1, b⟩ := x
        rw [h1] at h
        simp only [Option.some.injEq, Prod.mk.injEq] at h
        obtain ⟨rfl, rfl⟩ := h
        have hk : k ≤ 2 := hsm.2 k rfl
        have hstep : (w.wb toks).step (.register i (List.replicate k 0)) = some (w1.wb (toks ++ [b])) := by
          simp only [World.step]
          rw [registerPatch_wb, h1]
          rfl
        rcases registerPatch_spec h1 with ⟨_, rfl, _⟩ | ⟨_, w3, v, last, hpc, hv, _, _, _, _, rfl⟩
        · exact hl.step hstep rfl (old_caches_fresh hw (Quiet.refl _).astep rfl)
        · refine hl.step hstep (show w3.tun = w.tun from pushCopy_tun hpc) ?_
          intro hh c hc' hge
          have hc3 : w3.cacheAt hh = some c := by
            simp only [cacheAt_setIov] at hc'
            split at hc'
            · rename_i e; subst e
              simp only [Option.bind_some] at hc'
              rw [cacheAt_iov hv]; exact hc'
            · exact hc'
          exact pushCopy_fresh_le hbw hw (by rw [List.length_replicate]; omega) hpc hh c hc3 hge
    | fill id bs =>
      simp only [applyEmit] at h
      cases h0 : toks[id]? with
      | none => rw [h0] at h; cases h
      | some b =>
        rw [h0] at h
        simp only [Option.map_eq_some_iff, Prod.mk.injEq] at h
        obtain ⟨w1, h1, rfl, rfl⟩ := h
        have hid : id < toks.length := by
          rcases Nat.lt_or_ge id toks.length with h2 | h2
          · exact h2
          · rw [List.getElem?_eq_none h2] at h0; cases h0
        have hget : toks.getD id none = b := by
          rw [List.getD_eq_getElem?_getD, h0]; rfl
        have hstep : (w.wb toks).step (.backfill i id bs) = some (w1.wb toks) := by
          simp only [World.step, wb_brefs, if_pos hid, hget]
          rw [backfill_wb, h1]; rfl
        have hq := backfill_quiet h1
        have ht : w1.tun = w.tun := by
          obtain ⟨v, hv, ⟨_, _, rfl⟩ | ⟨key, info, target, k, _, _, _, _, _, _, _, rfl⟩⟩ := backfill_spec h1 <;> rfl
        exact hl.step hstep ht (old_caches_fresh hw hq.astep hq.1)
  lend := by
    intro w toks d hl
    exact hl.step (op := .lend d) rfl rfl (old_caches_fresh hl.worldInv (quiet_with_exts w _).astep rfl)
  consume := by
    intro w w' toks i k n h hl
    have hstep : (w.wb toks).step (.consume i k) = some (w'.wb toks) := by
      simp only [World.step]
      rw [consume_wb, h]; rfl
    obtain ⟨v, ns, v', hv, _, _, rfl⟩ := consume_spec h
    exact hl.step hstep rfl (old_caches_fresh hl.worldInv (consume_astep h) rfl)
  advance := by
    intro w w' toks i k n h hl
    have hstep : (w.wb toks).step (.advance i k) = some (w'.wb toks) := by
      simp only [World.step]
      rw [advance_wb, h]; rfl
    have hq := advance_quiet h
    obtain ⟨v, ns, v', kk, hv, _, _, rfl⟩ := advance_spec h
    exact hl.step hstep rfl (old_caches_fresh hl.worldInv hq.astep hq.1)

theorem capLit_fresh (pol : Policy) (T : Tuning) (S : Nat) : CapLit T S (World.fresh pol T) [] := by
  refine ⟨rfl, ?_⟩
  have hr : Reachable (World.fresh pol T) := ⟨pol, T, [.new], rfl⟩
  obtain ⟨caps, hg⟩ := hr.exists_caps
  exact ⟨caps, hg, fun k hk => absurd hk (by simp [World.fresh, World.init, World.addIov])⟩

end Woodpile.EncWorld

/-
The length-only model `ZDeque` (`Woodpile/Model/ZDeque.lean`, replayed by the driver for the
zero-sized-item ops of family `sdeque`) is the image of the list model `SDeque` under
`length`: function by function, for every state (no invariant needed) and - because the
functions never look at the items - for every element type (`*_mk`); `zstep_abs` /
`zrun_abs` put it together for operations and operation sequences at item type `Unit`,
where the abstraction loses nothing (`unit_list_eq_replicate`).
-/
import Woodpile.Model.ZDeque
import Woodpile.Proofs.SlidingDeque

-- `cases b <;> simp [...]` closes both branches with one argument list
set_option linter.unusedSimpArgs false

namespace Woodpile.SlidingDeque
variable {α : Type}

/-- The abstraction: forget the items, keep the container's length. -/
def SDeque.abs (s : SDeque α) : ZDeque := ⟨s.consumed, s.container.length⟩

theorem SDeque.abs_ofList (l : List α) : (SDeque.ofList l).abs = ZDeque.ofLen l.length := rfl

namespace ZDeque

theorem deref_mk (c : Nat) (l : List α) : deref ⟨c, l.length⟩ = (SDeque.deref ⟨c, l⟩).map List.length := by
  unfold deref SDeque.deref
  by_cases h : c ≤ l.length <;> simp [h]

theorem checkRep_mk (c : Nat) (l : List α) : checkRep ⟨c, l.length⟩ = SDeque.checkRep ⟨c, l⟩ := by
  unfold checkRep SDeque.checkRep
  rw [deref_mk]
  cases h : SDeque.deref ⟨c, l⟩ with
  | none => rfl
  | some v =>
    cases v <;> simp <;> rfl

theorem pushBack_mk (c : Nat) (l : List α) (x : α) :
    pushBack ⟨c, l.length⟩ = (SDeque.pushBack ⟨c, l⟩ x).map SDeque.abs := by
  simp only [pushBack, SDeque.pushBack]
  rw [show l.length + 1 = (l ++ [x]).length by simp]
  simp only [checkRep_mk]
  cases h : SDeque.checkRep ⟨c, l⟩ <;> simp [check]
  cases h' : SDeque.checkRep ⟨c, l ++ [x]⟩ <;> simp [SDeque.abs]

theorem front_mk (c : Nat) (l : List α) :
    front ⟨c, l.length⟩ = (SDeque.front ⟨c, l⟩).map Option.isSome := by
  simp only [front, SDeque.front, checkRep_mk, deref_mk]
  cases h : SDeque.checkRep ⟨c, l⟩ <;> simp [check]
  cases h' : SDeque.deref ⟨c, l⟩ with
  | none => simp
  | some v => cases v <;> simp

theorem back_mk (c : Nat) (l : List α) :
    back ⟨c, l.length⟩ = (SDeque.back ⟨c, l⟩).map Option.isSome := by
  simp only [back, SDeque.back, checkRep_mk, deref_mk]
  cases h : SDeque.checkRep ⟨c, l⟩ <;> simp [check]
  cases h' : SDeque.deref ⟨c, l⟩ with
  | none => simp
  | some v => cases v <;> simp

theorem slide_mk (c : Nat) (l : List α) :
    slide ⟨c, l.length⟩ = (SDeque.slide ⟨c, l⟩).map SDeque.abs := by
  simp only [slide, SDeque.slide]
  rw [show l.length - c = (l.drop c).length by simp]
  simp only [checkRep_mk]
  cases h : decide (c ≤ l.length) <;> simp [check]
  cases h' : SDeque.checkRep ⟨0, l.drop c⟩ <;> simp [SDeque.abs]

theorem maybeSlide_mk (c : Nat) (l : List α) :
    maybeSlide ⟨c, l.length⟩ = (SDeque.maybeSlide ⟨c, l⟩).map SDeque.abs := by
  simp only [maybeSlide, SDeque.maybeSlide, deref_mk]
  cases h : SDeque.deref ⟨c, l⟩ with
  | none => simp
  | some v =>
    have hv : (v.length == 0) = v.isEmpty := by cases v <;> simp
    simp only [Option.map_some, Option.bind_eq_bind, Option.bind_some, hv]
    cases hc : (decide (c > l.length / 2) || v.isEmpty)
    · simp only [Bool.false_eq_true, ↓reduceIte, Option.pure_def, Option.bind_some, checkRep_mk]
      cases h' : SDeque.checkRep ⟨c, l⟩ <;> simp [check, SDeque.abs]
    · simp only [↓reduceIte, slide_mk]
      cases hs : SDeque.slide ⟨c, l⟩ with
      | none => simp
      | some s' =>
        obtain ⟨c', l'⟩ := s'
        simp only [Option.map_some, Option.bind_some, SDeque.abs, checkRep_mk]
        cases h' : SDeque.checkRep ⟨c', l'⟩ <;> simp [check, SDeque.abs]

theorem popFront_mk (c : Nat) (l : List α) :
    popFront ⟨c, l.length⟩ = (SDeque.popFront ⟨c, l⟩).map (fun p => (p.1.isSome, p.2.abs)) := by
  simp only [popFront, SDeque.popFront, checkRep_mk, front_mk]
  cases h : SDeque.checkRep ⟨c, l⟩ <;> simp [check]
  cases hf : SDeque.front ⟨c, l⟩ with
  | none => simp
  | some o =>
    cases o with
    | none => simp [SDeque.abs]
    | some r =>
      simp only [Option.map_some, Option.isSome_some, Option.bind_some, maybeSlide_mk]
      cases hm : SDeque.maybeSlide ⟨c + 1, l⟩ with
      | none => simp
      | some s2 =>
        obtain ⟨c', l'⟩ := s2
        simp only [Option.map_some, Option.bind_some, SDeque.abs, checkRep_mk]
        cases h' : SDeque.checkRep ⟨c', l'⟩ <;> simp [SDeque.abs, h']

theorem popBack_mk (c : Nat) (l : List α) :
    popBack ⟨c, l.length⟩ = (SDeque.popBack ⟨c, l⟩).map (fun p => (p.1.isSome, p.2.abs)) := by
  simp only [popBack, SDeque.popBack, checkRep_mk, back_mk]
  cases h : SDeque.checkRep ⟨c, l⟩ <;> simp [check]
  cases hf : SDeque.back ⟨c, l⟩ with
  | none => simp
  | some o =>
    cases o with
    | none => simp [SDeque.abs]
    | some r =>
      rw [show l.length - 1 = l.dropLast.length by simp]
      simp only [Option.map_some, Option.isSome_some, Option.bind_some, maybeSlide_mk]
      by_cases hl : l = []
      · simp [hl]
      simp only [if_neg hl, Option.bind_some, Function.comp_apply]
      cases hm : SDeque.maybeSlide ⟨c, l.dropLast⟩ with
      | none => simp
      | some s2 =>
        obtain ⟨c', l'⟩ := s2
        simp only [Option.map_some, Option.bind_some, SDeque.abs, checkRep_mk]
        cases h' : SDeque.checkRep ⟨c', l'⟩ <;> simp [SDeque.abs, h']

theorem advance_mk (c : Nat) (l : List α) (n : Nat) :
    advance ⟨c, l.length⟩ n = (SDeque.advance ⟨c, l⟩ n).map (fun p => (p.1, p.2.abs)) := by
  simp only [advance, SDeque.advance, checkRep_mk, maybeSlide_mk]
  cases h : SDeque.checkRep ⟨c, l⟩ <;> simp [check]
  cases hm : SDeque.maybeSlide ⟨c + min (l.length - c) n, l⟩ with
  | none => simp
  | some s2 =>
    obtain ⟨c', l'⟩ := s2
    simp only [Option.map_some, Option.bind_some, SDeque.abs, checkRep_mk]
    cases h' : SDeque.checkRep ⟨c', l'⟩ <;> simp [SDeque.abs, h']

theorem clear_mk (c : Nat) (l : List α) :
    clear ⟨c, l.length⟩ = (SDeque.clear ⟨c, l⟩).map SDeque.abs := by
  simp only [clear, SDeque.clear]
  rw [show (0 : Nat) = ([] : List α).length by rfl]
  simp only [checkRep_mk]
  cases h' : SDeque.checkRep (⟨0, []⟩ : SDeque α) <;> simp [check, SDeque.abs]


end ZDeque

/-- **One operation**: the length-only model does to `(consumed, length)` exactly what the
list model (at item type `Unit`) does, and returns the same value (items reduced to "was
there one"), panics included. -/
theorem zstep_abs (s : SDeque Unit) (op : ZOp) :
    zstep s.abs op = (step s op.toOp).map (fun p => (p.1.toZ, p.2.abs)) := by
  obtain ⟨c, l⟩ := s
  cases op with
  | pushBack =>
    simp only [zstep, ZOp.toOp, step, SDeque.abs, ZDeque.pushBack_mk c l ()]
    cases SDeque.pushBack ⟨c, l⟩ () <;> simp [Ret.toZ, SDeque.abs]
  | front =>
    simp only [zstep, ZOp.toOp, step, SDeque.abs, ZDeque.front_mk]
    cases SDeque.front ⟨c, l⟩ <;> simp [Ret.toZ, SDeque.abs]
  | back =>
    simp only [zstep, ZOp.toOp, step, SDeque.abs, ZDeque.back_mk]
    cases SDeque.back ⟨c, l⟩ <;> simp [Ret.toZ, SDeque.abs]
  | popFront =>
    simp only [zstep, ZOp.toOp, step, SDeque.abs, ZDeque.popFront_mk]
    cases SDeque.popFront ⟨c, l⟩ <;> simp [Ret.toZ, SDeque.abs]
  | popBack =>
    simp only [zstep, ZOp.toOp, step, SDeque.abs, ZDeque.popBack_mk]
    cases SDeque.popBack ⟨c, l⟩ <;> simp [Ret.toZ, SDeque.abs]
  | advance n =>
    simp only [zstep, ZOp.toOp, step, SDeque.abs, ZDeque.advance_mk]
    cases SDeque.advance ⟨c, l⟩ n <;> simp [Ret.toZ, SDeque.abs]
  | clear =>
    simp only [zstep, ZOp.toOp, step, SDeque.abs, ZDeque.clear_mk]
    cases SDeque.clear ⟨c, l⟩ <;> simp [Ret.toZ, SDeque.abs]
  | slide =>
    simp only [zstep, ZOp.toOp, step, SDeque.abs, ZDeque.slide_mk]
    cases SDeque.slide ⟨c, l⟩ <;> simp [Ret.toZ, SDeque.abs]

/-- **Operation sequences.** -/
theorem zrun_abs (s : SDeque Unit) (ops : List ZOp) :
    zrun s.abs ops = (run s (ops.map ZOp.toOp)).map (fun p => (p.1.map Ret.toZ, p.2.abs)) := by
  induction ops generalizing s with
  | nil => simp [zrun, run]
  | cons op ops ih =>
    simp only [zrun, List.map_cons, run, zstep_abs]
    cases h : step s op.toOp with
    | none => simp
    | some p =>
      obtain ⟨r, s'⟩ := p
      simp only [Option.map_some, ih s']
      cases h' : run s' (ops.map ZOp.toOp) with
      | none => simp
      | some q => simp

/-- A list of `Unit`s is determined by its length: at item type `Unit` the abstraction
loses nothing. -/
theorem unit_list_eq_replicate (l : List Unit) : l = List.replicate l.length () := by
  induction l with
  | nil => rfl
  | cons x l ih => simpa [List.replicate_succ] using ih

end Woodpile.SlidingDeque

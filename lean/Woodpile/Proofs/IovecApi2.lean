/-
Lemmas for `Model/IovecApi2.lean` (track `apileft`): the `Default` values safe code can hand to the
iovec (`push_anchor(Default::default())`, `AnchoredSlice::default()`, `ByteArena::default()`).

* `AnchoredSlice::default()` and `ByteArena::default()` ARE steps of the `WOp` vocabulary
  (`read_n(count = 0)` returns `Ok(Default::default())` without touching the arena; `new_arena`).
* `push_anchor` of a chunk-less anchor is not: no `WOp` history leaves a chunk-less zero-count anchor
  behind slices (`pushASlice` skips empty slices, and the anchor of a non-empty one holds a chunk).  It
  preserves the world invariant `WorldInv` when the anchor deque is non-empty, the arena invariant
  `ArenaInv` always, every component of `IovOk` except `HeadPos` always, and it changes no slice, no
  cache and no member of the derived live set.
* `XReach`: worlds reachable by `WOp` steps, `AnchoredSlice::default()` at any point, and
  `push_anchor(chunk-less anchor)` on iovecs whose anchor deque is non-empty; both invariants hold in
  every such world, so the C05 statements carry over (`Props/C05B.lean`).
-/
import Woodpile.Model.IovecApi2
import Woodpile.Proofs.IovecArena

namespace Woodpile.Iovec
open Woodpile.Arena

/-! ### Identity updates -/

theorem listSet_getD_self {α} (l : List (Option α)) (i : Nat) (v : α) (h : l.getD i none = some v) :
    listSet l i (some v) none = l := by
  have hi : i < l.length := by
    by_cases hlt : i < l.length
    · exact hlt
    · rw [List.getD_eq_getElem?_getD, List.getElem?_eq_none (by omega)] at h
      cases h
  unfold listSet
  rw [if_pos hi]
  rw [List.getD_eq_getElem?_getD, List.getElem?_eq_getElem hi] at h
  simp only [Option.getD_some] at h
  rw [← h]
  exact List.set_getElem_self hi

theorem setIov_self {w : World} {i : Nat} {v : Iov} (hv : w.iov i = some v) : w.setIov i (some v) = w := by
  unfold World.setIov
  rw [listSet_getD_self w.iovs i v hv]

theorem setArena_self {w : World} {j : Nat} {a : Arena} (ha : w.arena j = some a) : w.setArena j (some a) = w := by
  unfold World.setArena
  rw [listSet_getD_self w.arenas j a ha]

/-! ### `AnchoredSlice::default()` and `ByteArena::default()` are `WOp` steps -/

theorem readN_zero (w : World) (a : Arena) (r : ReadN.Reader) (attempts : Nat) :
    w.readN a r 0 attempts = (w, a, .ok ASlice.empty, ⟨.ok [], [], r⟩) := by
  unfold World.readN
  rw [if_pos rfl]

/-- `arena().read_n(reader, 0, attempts)` on the arena of a live iovec is `Ok(AnchoredSlice::default())`:
the step adds the default slice and changes nothing else. -/
theorem step_readNIov_zero {w : World} {i : Nat} {v : Iov} (hv : w.iov i = some v) (attempts : Nat)
    (src : List UInt8) (script : List ReadN.Ev) :
    w.step (.readNIov i 0 attempts src script) = some w.sDefault := by
  simp only [World.step, World.readNIov, hv, readN_zero]
  have : w.setIov i (some { v with arena := v.arena }) = w := setIov_self hv
  simp only [this, World.sDefault]

/-- … and the same through a live detached arena. -/
theorem step_readNArena_zero {w : World} {j : Nat} {a : Arena} (ha : w.arena j = some a) (attempts : Nat)
    (src : List UInt8) (script : List ReadN.Ev) :
    w.step (.readNArena j 0 attempts src script) = some w.sDefault := by
  simp only [World.step, World.readNArena, ha, readN_zero, setArena_self ha, World.sDefault]

theorem step_newArena (w : World) : w.step .newArena = some w.arenaDefault := rfl

/-! ### `push_anchor` of a chunk-less anchor -/

/-- The count the caller gave the anchor is irrelevant: `GlobalDeque::push_anchor` zeroes it. -/
theorem pushAnchorDefault_count (w : World) (i n : Nat) : w.pushAnchorDefault i n = w.pushAnchorDefault i 0 := by
  unfold World.pushAnchorDefault World.pushAnchor Anchor.safe
  rfl

theorem pushAnchorDefault_spec {w w' : World} {i n : Nat} (h : w.pushAnchorDefault i n = some w') :
    ∃ v, w.iov i = some v ∧ w' = w.setIov i (some { v with anchors := v.anchors ++ [⟨0, none⟩] }) := by
  unfold World.pushAnchorDefault World.pushAnchor Anchor.safe at h
  cases hv : w.iov i with
  | none => rw [hv] at h; cases h
  | some v =>
    rw [hv] at h
    simp only [Option.some.injEq] at h
    exact ⟨v, rfl, h.symm⟩

/-- It never panics on a live iovec. -/
theorem pushAnchorDefault_some {w : World} {i : Nat} {v : Iov} (hv : w.iov i = some v) (n : Nat) :
    w.pushAnchorDefault i n = some (w.setIov i (some { v with anchors := v.anchors ++ [⟨0, none⟩] })) := by
  unfold World.pushAnchorDefault World.pushAnchor Anchor.safe
  rw [hv]

theorem anchorChunks_snoc_none (as : List Anchor) (c : Nat) : anchorChunks (as ++ [⟨c, none⟩]) = anchorChunks as := by
  simp [anchorChunks]

/-- Every component of `IovOk` except the head condition survives, whatever the deque held; the head
condition survives exactly when the deque was not empty. -/
theorem pushAnchorDefault_iovOk {next : Nat} {exts : List (List UInt8)} {v : Iov} (hv : IovOk next exts v) :
    let v' : Iov := { v with anchors := v.anchors ++ [⟨0, none⟩] }
    Guarded v'.anchors v'.slices ∧ (∀ k ∈ anchorChunks v'.anchors, k < next) ∧
    (∀ c, v'.arena.cache = some c → c.chunk < next) ∧ (∀ s ∈ v'.slices, ExtOk exts s) ∧
    (HeadPos v'.anchors ↔ v.anchors ≠ []) := by
  refine ⟨hv.guard.snoc_anchor none, ?_, hv.cacheLt, hv.extOk, ?_⟩
  · intro k hk
    rw [show ({ v with anchors := v.anchors ++ [⟨0, none⟩] } : Iov).anchors = v.anchors ++ [⟨0, none⟩] from rfl,
      anchorChunks_snoc_none] at hk
    exact hv.anchorsLt k hk
  · constructor
    · intro hp hnil
      have := hp ⟨0, none⟩ (by simp [hnil])
      simp at this
    · intro hne
      exact hv.headPos.append hne _

theorem WorldInv.pushAnchorDefault {w w' : World} {i n : Nat} {v : Iov} (hw : WorldInv w) (hv : w.iov i = some v)
    (hne : v.anchors ≠ []) (h : w.pushAnchorDefault i n = some w') : WorldInv w' := by
  rw [pushAnchorDefault_some hv] at h
  cases h
  refine hw.setIov ?_
  intro x hx
  cases hx
  obtain ⟨h1, h2, h3, h4, h5⟩ := pushAnchorDefault_iovOk (hw.iovOk i v hv)
  exact ⟨h1, h2, h3, h4, h5.2 hne⟩

/-- No cache and no slice changes: the step is an arena step that allocates nothing. -/
theorem pushAnchorDefault_astep {w w' : World} {i n : Nat} (h : w.pushAnchorDefault i n = some w') : AStep w w' := by
  obtain ⟨v, hv, rfl⟩ := pushAnchorDefault_spec h
  exact astep_setIov_same hv rfl (fun s' hs' => World.HasSlice.derived (Or.inl ⟨i, v, hv, hs'⟩))

theorem pushAnchorDefault_cacheAt {w w' : World} {i n : Nat} (h : w.pushAnchorDefault i n = some w') (x : Holder) :
    w'.cacheAt x = w.cacheAt x := by
  obtain ⟨v, hv, rfl⟩ := pushAnchorDefault_spec h
  simp only [cacheAt_setIov]
  split
  · rename_i e; subst e; simp [cacheAt_iov hv]
  · rfl

theorem pushAnchorDefault_next {w w' : World} {i n : Nat} (h : w.pushAnchorDefault i n = some w') : w'.next = w.next := by
  obtain ⟨v, _, rfl⟩ := pushAnchorDefault_spec h
  rfl

/-- The arena invariant is kept with the SAME capacity ghost, whatever the deque held. -/
theorem ArenaInv.pushAnchorDefault {w w' : World} {caps : Nat → Nat} {i n : Nat} (hw : WorldInv w)
    (ha : ArenaInv w caps) (h : w.pushAnchorDefault i n = some w') : ArenaInv w' caps :=
  (pushAnchorDefault_astep h).inv hw ha (fun _ _ => rfl)
    (fun x c hc => (ha.bumpLe x c (by rw [← pushAnchorDefault_cacheAt h x]; exact hc)).2)

/-- Objects other than the iovec are untouched; the iovec keeps everything but gains the anchor. -/
theorem pushAnchorDefault_frame {w w' : World} {i n : Nat} (h : w.pushAnchorDefault i n = some w') :
    (∀ j, j ≠ i → w'.iov j = w.iov j) ∧ (∀ j, w'.arena j = w.arena j) ∧ (∀ j, w'.aslice j = w.aslice j) ∧
    w'.heap = w.heap ∧ w'.exts = w.exts ∧ w'.brefs = w.brefs ∧
    ∃ v, w.iov i = some v ∧ w'.iov i = some { v with anchors := v.anchors ++ [⟨0, none⟩] } := by
  obtain ⟨v, hv, rfl⟩ := pushAnchorDefault_spec h
  refine ⟨fun j hj => by simp [iov_setIov, hj], fun j => rfl, fun j => rfl, rfl, rfl, rfl, v, hv, by simp⟩

/-- The derived live set does not change: a chunk-less anchor holds nothing. -/
theorem pushAnchorDefault_live {w w' : World} {i n : Nat} (h : w.pushAnchorDefault i n = some w') (k : Nat) :
    k ∈ w'.liveChunks ↔ k ∈ w.liveChunks := by
  obtain ⟨ho, har, hsl, _, _, _, v, hv, hv'⟩ := pushAnchorDefault_frame h
  have hn := pushAnchorDefault_next h
  rw [mem_liveChunks, mem_liveChunks, hn]
  refine and_congr Iff.rfl (or_congr ?_ (or_congr ?_ ?_))
  · constructor
    · rintro ⟨j, x, hj, hk⟩
      by_cases e : j = i
      · subst e
        rw [hv'] at hj; cases hj
        exact ⟨j, v, hv, by simpa [anchorChunks_snoc_none] using hk⟩
      · exact ⟨j, x, by rw [← ho j e]; exact hj, hk⟩
    · rintro ⟨j, x, hj, hk⟩
      by_cases e : j = i
      · subst e
        rw [hv] at hj; cases hj
        exact ⟨j, _, hv', by simpa [anchorChunks_snoc_none] using hk⟩
      · exact ⟨j, x, by rw [ho j e]; exact hj, hk⟩
  · simp only [har]
  · simp only [hsl]

/-! ### `AnchoredSlice::default()` keeps both invariants (directly, also when no iovec / arena exists) -/

theorem WorldInv.sDefault {w : World} (hw : WorldInv w) : WorldInv w.sDefault :=
  hw.addASlice (aSliceOk_empty w.next)

theorem sDefault_astep (w : World) : AStep w w.sDefault := by
  refine AStep.refl_of_same rfl (fun h => cacheAt_addASlice w ASlice.empty h) ?_
  intro s' hs'
  rcases hasSlice_addASlice hs' with h0 | h0
  · exact Or.inl ⟨0, by rw [← h0]; rfl⟩
  · exact h0.derived

theorem ArenaInv.sDefault {w : World} {caps : Nat → Nat} (hw : WorldInv w) (ha : ArenaInv w caps) :
    ArenaInv w.sDefault caps :=
  (sDefault_astep w).inv hw ha (fun _ _ => rfl)
    (fun x c hc => (ha.bumpLe x c (by rw [← cacheAt_addASlice w ASlice.empty x]; exact hc)).2)

/-! ### Histories that also use the `Default` values -/

/-- Worlds reachable by `WOp` steps (with the capacity ghost of `GReach`), `AnchoredSlice::default()` at
any point, and `push_anchor` of a chunk-less anchor (any caller-side count) on an iovec whose anchor
deque is not empty. -/
inductive XReach : World → (Nat → Nat) → Prop
  | init (pol : Policy) (tun : Tuning) : XReach (World.init pol tun) (fun _ => 0)
  | step {w w' : World} {caps caps' : Nat → Nat} {op : WOp} : XReach w caps → w.step op = some w' →
      (∀ k, k < w.next → caps' k = caps k) → (∀ h c, w'.cacheAt h = some c → caps' c.chunk = c.cap) →
      XReach w' caps'
  | sdef {w : World} {caps : Nat → Nat} : XReach w caps → XReach w.sDefault caps
  | anchor {w w' : World} {caps : Nat → Nat} {i n : Nat} {v : Iov} : XReach w caps → w.iov i = some v →
      v.anchors ≠ [] → w.pushAnchorDefault i n = some w' → XReach w' caps

theorem XReach.inv {w : World} {caps : Nat → Nat} (h : XReach w caps) : WorldInv w ∧ ArenaInv w caps := by
  induction h with
  | init pol tun => exact ⟨worldInv_init pol tun, arenaInv_init pol tun⟩
  | @step w w' caps caps' op _ hs hold hnew ih =>
    exact ⟨ih.1.step hs, (step_astep hs).inv ih.1 ih.2 hold hnew⟩
  | sdef _ ih => exact ⟨ih.1.sDefault, ih.2.sDefault ih.1⟩
  | anchor _ hv hne hp ih => exact ⟨ih.1.pushAnchorDefault hv hne hp, ih.2.pushAnchorDefault ih.1 hp⟩

theorem GReach.xreach {w : World} {caps : Nat → Nat} (h : GReach w caps) : XReach w caps := by
  induction h with
  | init pol tun => exact .init pol tun
  | step _ hs hold hnew ih => exact .step ih hs hold hnew

end Woodpile.Iovec

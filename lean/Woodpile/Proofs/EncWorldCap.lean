/-
Chunk capacities along codec runs with ALL input methods (track `anch`): the in-capacity hypothesis of
`Props/C09H.enc_lag_le_partial`, discharged.

`CapW T S i w`: world `w` uses arena tuning `T`; the current allocation cache of iovec `i`'s arena is
consistent (`bump ≤ cap`) and has capacity at most `S`; every owned slice of iovec `i` ends within `S`
bytes of the start of its chunk.  It is preserved by every iovec call the codecs, their callers and
their consumers make, provided every allocation REQUEST is at most `B` bytes and the arena answers
requests of at most `B` bytes with chunks of at most `S` bytes (`Hint T B S`; for the production tuning
and `B < 2^20`, `S = 2^20`: `EncWorld.findHintSize_le_prod`).  The encoder's own requests are at most
`max 1 maxChunk ≤ 64008` bytes (`EncGlue.once_small`); an anchored `read_n(count)` requests `count`.

The argument is a direct one on the model functions (no simulation needed: it looks at slices and the
cache only), by unfolding each call once.
-/
import Woodpile.Proofs.EncWorldAnch
import Woodpile.Proofs.EncGlue

namespace Woodpile.EncWorld
open Woodpile.Hcobs Woodpile.Iovec Woodpile.Arena
open Woodpile.Hcobs.EncProof

/-- The cache is consistent and small; owned slices end within `S` bytes of their chunk. -/
structure CapOk (S : Nat) (v : Iov) : Prop where
  cache : ∀ ca, v.arena.cache = some ca → ca.bump ≤ ca.cap ∧ ca.cap ≤ S
  slices : ∀ s ∈ v.slices, ∀ c, s.region = .chunk c → s.off + s.len ≤ S

def CapW (T : Tuning) (S : Nat) (i : Nat) (w : World) : Prop :=
  w.tun = T ∧ ∃ v, w.iov i = some v ∧ CapOk S v

/-- Requests of at most `B` bytes are served from chunks of at most `S` bytes. -/
def Hint (T : Tuning) (B S : Nat) : Prop := ∀ len, len ≤ B → ∀ prev, max (findHintSize T len prev) len ≤ S

theorem hint_prod (B : Nat) (hB : B < 1048576) : Hint prodTuning B 1048576 :=
  fun len hl prev => findHintSize_le_prod len prev (by omega)

theorem Hint.mono {T : Tuning} {B B' S : Nat} (h : Hint T B S) (hb : B' ≤ B) : Hint T B' S :=
  fun len hl prev => h len (by omega) prev

/-! ### The arena -/

theorem alloc_cap (T : Tuning) (a : Arena) (next len S : Nat)
    (hc : ∀ ca, a.cache = some ca → ca.bump ≤ ca.cap ∧ ca.cap ≤ S)
    (hS : ∀ prev, max (findHintSize T len prev) len ≤ S) :
    (∀ ca', (alloc T a next len).1.cache = some ca' → ca'.bump ≤ ca'.cap ∧ ca'.cap ≤ S) ∧
    (alloc T a next len).2.2.2 + len ≤ S ∧
    (∀ ca', (alloc T a next len).1.cache = some ca' → ca'.bump = (alloc T a next len).2.2.2 + len) := by
  unfold alloc ensureCapacity
  cases hca : a.cache with
  | none =>
    have := hS 0
    simp only
    refine ⟨?_, by omega, ?_⟩
    · intro ca' h; simp only [Option.some.injEq] at h; subst h; simp only; omega
    · intro ca' h; simp only [Option.some.injEq] at h; subst h; rfl
  | some c =>
    obtain ⟨h1, h2⟩ := hc c hca
    simp only
    by_cases hr : c.remaining ≥ len
    · simp only [hr, if_true, hca]
      have : c.bump + len ≤ c.cap := by unfold Cache.remaining at hr; omega
      refine ⟨?_, by omega, ?_⟩
      · intro ca' h; simp only [Option.some.injEq] at h; subst h; simp only; omega
      · intro ca' h; simp only [Option.some.injEq] at h; subst h; rfl
    · have := hS c.cap
      simp only [hr, if_false]
      refine ⟨?_, by omega, ?_⟩
      · intro ca' h; simp only [Option.some.injEq] at h; subst h; simp only; omega
      · intro ca' h; simp only [Option.some.injEq] at h; subst h; rfl

/-! ### One iovec call at a time -/

theorem optimize_cap {S : Nat} (v v' : Iov) (h : v.optimize = some v') (hc : CapOk S v) : CapOk S v' := by
  rcases optimize_cases v v' h with rfl | ⟨pre, l, r, anc, a, ca, hsl, _, _, _, hl, hr, hadj, rfl⟩
  · exact hc
  · refine ⟨hc.cache, ?_⟩
    intro s hs c hsc
    simp only [List.mem_append, List.mem_singleton] at hs
    rcases hs with hs | rfl
    · exact hc.slices s (by rw [hsl]; simp [hs]) c hsc
    · have := hc.slices r (by rw [hsl]; simp) _ hr
      simp only; omega

theorem CapW.setIov_same {T : Tuning} {S i : Nat} {w : World} {v : Iov} (h : CapOk S v) (ht : w.tun = T) :
    CapW T S i (w.setIov i (some v)) := ⟨ht, v, by simp, h⟩

theorem pushCopy_cap {T : Tuning} {S i : Nat} {w w' : World} (src : List UInt8) (hw : CapW T S i w)
    (hS : ∀ prev, max (findHintSize T src.length prev) src.length ≤ S) (h : w.pushCopy i src = some w') :
    CapW T S i w' := by
  obtain ⟨ht, v, hv, hc⟩ := hw
  by_cases hne : src = []
  · subst hne
    have : w.pushCopy i [] = some w := by unfold World.pushCopy; rw [hv]; rfl
    rw [this] at h; cases h
    exact ⟨ht, v, hv, hc⟩
  · obtain ⟨v', hv', hopt, _, _, _⟩ := World.pushCopy_shape w w' i v src hv hne h
    obtain ⟨a1, a2, a3⟩ := alloc_cap T v.arena w.next src.length S hc.cache hS
    have htun : w'.tun = w.tun := by
      rw [pushCopy_eq w i v src hv hne] at h
      split at h
      · cases h
      · split at h
        · cases h
        · cases h; rfl
    refine ⟨htun.trans ht, v', hv', optimize_cap _ _ hopt ⟨?_, ?_⟩⟩
    · rw [ht]; exact a1
    · intro s hs c hsc
      simp only [List.mem_append, List.mem_singleton] at hs
      rcases hs with hs | rfl
      · exact hc.slices s hs c hsc
      · rw [ht]; exact a2

theorem registerPatch_cap {T : Tuning} {S i : Nat} {w w' : World} (pat : List UInt8) (b : Backref) (hw : CapW T S i w)
    (hS : ∀ prev, max (findHintSize T pat.length prev) pat.length ≤ S) (h : w.registerPatch i pat = some (w', b)) :
    CapW T S i w' := by
  unfold World.registerPatch at h
  split at h
  · cases h; exact hw
  · split at h
    · cases h
    · rename_i w1 hw1
      obtain ⟨ht1, v1', hv1', hc1'⟩ := pushCopy_cap pat hw hS hw1
      split at h
      · cases h
      · rename_i v1 hv1
        have hc1 : CapOk S v1 := by rw [hv1] at hv1'; cases hv1'; exact hc1'
        split at h
        · cases h
        · have main : ∀ X : List (Nat × BackrefInfo), w' = w1.setIov i (some { v1 with backrefs := X }) →
              CapW T S i w' := by
            intro X hw'
            subst hw'
            exact CapW.setIov_same ⟨hc1.cache, hc1.slices⟩ ht1
          split at h <;> (simp only [] at h; split at h <;> first | (cases h; exact main _ rfl) | cases h)

theorem backfill_cap {T : Tuning} {S i : Nat} {w w' : World} (tok : Backref) (src : List UInt8) (hw : CapW T S i w)
    (h : w.backfill i tok src = some w') : CapW T S i w' := by
  obtain ⟨ht, v, hv, hc⟩ := hw
  unfold World.backfill at h
  rw [hv] at h
  simp only at h
  split at h
  · split at h
    · cases h; exact ⟨ht, v, hv, hc⟩
    · cases h
  · rename_i key info
    split at h
    · cases h
    · split at h
      · cases h
      · split at h
        · cases h
        · split at h
          · cases h
          · split at h
            · cases h
            · split at h
              · cases h
              · split at h
                · cases h
                  exact ⟨ht, { v with backrefs := v.backrefs.filter (·.1 ≠ key) }, World.iov_setIov w i _,
                    ⟨hc.cache, hc.slices⟩⟩
                · cases h

theorem pushBorrowed_cap {T : Tuning} {S i : Nat} {w w' : World} (s : Slice) (hw : CapW T S i w)
    (hs : ∀ c, s.region = .chunk c → s.off + s.len ≤ S) (h : w.pushBorrowed i s = some w') : CapW T S i w' := by
  obtain ⟨ht, v, hv, hc⟩ := hw
  unfold World.pushBorrowed at h
  rw [hv] at h
  simp only at h
  split at h
  · cases h; exact ⟨ht, v, hv, hc⟩
  · rename_i h0
    rw [pushBorrowedSlice_eq v s h0] at h
    split at h
    · cases h
    · rename_i v' hopt
      cases h
      refine CapW.setIov_same (optimize_cap _ _ hopt ⟨hc.cache, ?_⟩) ht
      intro x hx c hxc
      simp only [List.mem_append, List.mem_singleton] at hx
      rcases hx with hx | rfl
      · exact hc.slices x hx c hxc
      · exact hs c hxc

theorem push_cap {T : Tuning} {B S i : Nat} {w w' : World} (s : Slice) (hw : CapW T S i w) (hH : Hint T B S)
    (hlen : s.len ≤ B) (hs : ∀ c, s.region = .chunk c → s.off + s.len ≤ S) (h : w.push i s = some w') :
    CapW T S i w' := by
  obtain ⟨ht, v, hv, hc⟩ := hw
  rcases World.push_eq w i v s hv with he | he
  · rw [he] at h
    exact pushCopy_cap _ ⟨ht, v, hv, hc⟩ (hH _ (Nat.le_trans (sliceBytes_length_le w s) hlen)) h
  · rw [he] at h
    exact pushBorrowed_cap s ⟨ht, v, hv, hc⟩ hs h

theorem pushAnchor_cap {T : Tuning} {S i : Nat} {w w' : World} (a : Anchor) (hw : CapW T S i w)
    (h : w.pushAnchor i a = some w') : CapW T S i w' := by
  obtain ⟨ht, v, hv, hc⟩ := hw
  unfold World.pushAnchor at h
  rw [hv] at h
  cases h
  exact CapW.setIov_same ⟨hc.cache, hc.slices⟩ ht

theorem addExt_cap {T : Tuning} {S i : Nat} {w : World} (d : List UInt8) (hw : CapW T S i w) :
    CapW T S i (w.addExt d).1 := hw

theorem consumeSlices_cap {S : Nat} (v v' : Iov) (count n : Nat) (h : v.consumeSlices count = some (v', n))
    (hc : CapOk S v) : CapOk S v' := by
  unfold Iov.consumeSlices at h
  simp only at h
  split at h
  · cases h
  · split at h
    · cases h
    · cases h
      exact ⟨hc.cache, fun s hs => hc.slices s (List.mem_of_mem_drop hs)⟩

theorem consume_cap {T : Tuning} {S i : Nat} {w w' : World} (k n : Nat) (hw : CapW T S i w)
    (h : w.consume i k = some (w', n)) : CapW T S i w' := by
  obtain ⟨ht, v, hv, hc⟩ := hw
  unfold World.consume at h
  rw [hv] at h
  simp only at h
  split at h
  · cases h
  · split at h
    · cases h
    · rename_i v' k' hcs
      cases h
      exact CapW.setIov_same (consumeSlices_cap v v' _ _ hcs hc) ht

theorem consumeBytes_cap {S : Nat} (fuel : Nat) : ∀ (v v' : Iov) (count consumed n : Nat),
    Iov.consumeBytes fuel v count consumed = some (v', n) → CapOk S v → CapOk S v' := by
  induction fuel with
  | zero =>
    intro v v' count consumed n h hc
    simp only [Iov.consumeBytes, Option.some.injEq, Prod.mk.injEq] at h
    obtain ⟨rfl, _⟩ := h; exact hc
  | succ fuel ih =>
    intro v v' count consumed n h hc
    rw [Iov.consumeBytes] at h
    split at h
    · simp only [Option.some.injEq, Prod.mk.injEq] at h
      obtain ⟨rfl, _⟩ := h; exact hc
    · split at h
      · cases h
      · rename_i s rest hsl
        simp only at h
        split at h
        · split at h
          · cases h
          · rename_i v1 k1 hcs
            exact ih v1 v' _ _ n h (consumeSlices_cap v v1 _ _ hcs hc)
        · simp only [Option.some.injEq, Prod.mk.injEq] at h
          obtain ⟨rfl, _⟩ := h
          refine ⟨hc.cache, ?_⟩
          intro x hx c hxc
          simp only [List.mem_cons] at hx
          rcases hx with rfl | hx
          · have := hc.slices s (by rw [hsl]; simp) c hxc
            simp only at hxc ⊢
            have hm : min (count - consumed) s.len ≤ s.len := Nat.min_le_right _ _
            omega
          · exact hc.slices x (by rw [hsl]; simp [hx]) c hxc

theorem advance_cap {T : Tuning} {S i : Nat} {w w' : World} (k n : Nat) (hw : CapW T S i w)
    (h : w.advance i k = some (w', n)) : CapW T S i w' := by
  obtain ⟨ht, v, hv, hc⟩ := hw
  unfold World.advance at h
  rw [hv] at h
  simp only at h
  split at h
  · cases h
  · split at h
    · cases h
    · rename_i v' c hcb
      cases h
      exact CapW.setIov_same (consumeBytes_cap _ v v' _ _ _ hcb hc) ht

/-- `read_n(count)` into the own arena: the cache stays consistent and small, and the returned slice ends
within `S` bytes of its chunk. -/
theorem readOwn_cap {T : Tuning} {S i : Nat} {w w' : World} (r : ReadN.Reader) (count attempts : Nat)
    (res : Except Nat ASlice) (o : ReadN.Out) (hw : CapW T S i w)
    (hS : ∀ prev, max (findHintSize T count prev) count ≤ S)
    (h : readOwn w i r count attempts = some (w', res, o)) :
    CapW T S i w' ∧ ∀ a, res = .ok a → a.slice.len ≤ count ∧ ∀ c, a.slice.region = .chunk c → a.slice.off + a.slice.len ≤ S := by
  obtain ⟨ht, v, hv, hc⟩ := hw
  subst ht
  unfold readOwn at h
  rw [hv] at h
  simp only at h
  unfold World.readN at h
  by_cases hc0 : count = 0
  · simp only [hc0, if_true, hv, Option.some.injEq, Prod.mk.injEq] at h
    obtain ⟨rfl, rfl, _⟩ := h
    refine ⟨CapW.setIov_same ⟨hc.cache, hc.slices⟩ rfl, ?_⟩
    intro a ha
    simp only [Except.ok.injEq] at ha
    subst ha
    exact ⟨by simp [ASlice.empty], fun c hcx => by simp [ASlice.empty] at hcx⟩
  · simp only [hc0, if_false] at h
    obtain ⟨a1, a2, a3⟩ := alloc_cap w.tun v.arena w.next count S hc.cache hS
    generalize alloc w.tun v.arena w.next count = al at h a1 a2 a3
    obtain ⟨ar1, next1, chunk, off⟩ := al
    simp only at h a1 a2 a3
    have hrel : ∀ n ca, (release ar1 n).cache = some ca → ca.bump ≤ ca.cap ∧ ca.cap ≤ S := by
      intro n ca hca
      obtain ⟨c0, hc0', rfl⟩ := release_cache ar1 n ca hca
      obtain ⟨b1, b2⟩ := a1 c0 hc0'
      exact ⟨by simp only; omega, b2⟩
    have hgl : ∀ got, (ReadN.readNCore r count attempts).res = .ok got → got.length ≤ count := by
      intro got hg
      have := Woodpile.Props.C17.read_n_spec r count attempts (by omega)
      simp only at this
      obtain ⟨_, hle, _, _, hm⟩ := this
      rw [hg] at hm
      rw [hm.1]; exact hle
    cases hres : (ReadN.readNCore r count attempts).res with
    | ok got =>
      simp only [hres] at h
      have hv1 : ∀ (hp : Heap) (nx : Nat), World.iov ({ w with heap := hp, next := nx } : World) i = some v :=
        fun _ _ => hv
      simp only [hv1, Option.some.injEq, Prod.mk.injEq] at h
      obtain ⟨rfl, rfl, _⟩ := h
      refine ⟨⟨rfl, _, World.iov_setIov _ i _, ⟨hrel _, hc.slices⟩⟩, ?_⟩
      intro a ha
      simp only [Except.ok.injEq] at ha
      subst ha
      have := hgl got hres
      exact ⟨this, fun c _ => by simp only; omega⟩
    | err k =>
      simp only [hres] at h
      have hv1 : ∀ (hp : Heap) (nx : Nat), World.iov ({ w with heap := hp, next := nx } : World) i = some v :=
        fun _ _ => hv
      simp only [hv1, Option.some.injEq, Prod.mk.injEq] at h
      obtain ⟨rfl, rfl, _⟩ := h
      exact ⟨⟨rfl, _, World.iov_setIov _ i _, ⟨hrel _, hc.slices⟩⟩, fun a ha => by cases ha⟩

/-! ### Emits, steps, calls -/

theorem applyEmit_cap {T : Tuning} {B S i : Nat} {w w' : World} {toks toks' : List Backref} {e : Emit} {src : Slice}
    (hw : CapW T S i w) (hH : Hint T B S) (hB2 : 2 ≤ B) (hsm : EmitSmall B e)
    (hsrc : e.method = .borrow → ∀ bs, e.op = .append bs → ∀ c, src.region = .chunk c → src.off + bs.length ≤ S)
    (h : applyEmit w i toks e src = some (w', toks')) : CapW T S i w' := by
  obtain ⟨op, m⟩ := e
  cases op with
  | append bs =>
    have hbs : bs.length ≤ B := hsm.1 bs rfl
    cases m with
    | copy =>
      simp only [applyEmit, Option.map_eq_some_iff, Prod.mk.injEq] at h
      obtain ⟨w1, h1, rfl, _⟩ := h
      exact pushCopy_cap bs hw (hH _ hbs) h1
    | borrow =>
      simp only [applyEmit, Option.map_eq_some_iff, Prod.mk.injEq] at h
      obtain ⟨w1, h1, rfl, _⟩ := h
      exact push_cap { src with len := bs.length } hw hH (by simpa using hbs)
        (fun c hc => by simpa using hsrc rfl bs rfl c hc) h1
  | register n =>
    simp only [applyEmit] at h
    cases h1 : w.registerPatch i (List.replicate n 0) with
    | none => rw [h1] at h; cases h
    | some x =>
      obtain ⟨w1, b⟩ := x
      rw [h1] at h
      simp only [Option.some.injEq, Prod.mk.injEq] at h
      obtain ⟨rfl, _⟩ := h
      have hn : n ≤ 2 := hsm.2 n rfl
      exact registerPatch_cap _ b hw (by rw [List.length_replicate]; exact hH n (by omega)) h1
  | fill id bs =>
    simp only [applyEmit] at h
    cases h0 : toks[id]? with
    | none => rw [h0] at h; cases h
    | some b =>
      rw [h0] at h
      simp only [Option.map_eq_some_iff, Prod.mk.injEq] at h
      obtain ⟨w1, h1, rfl, _⟩ := h
      exact backfill_cap b bs hw h1

theorem applyStep_cap {T : Tuning} {B S i : Nat} {src : Slice} (hH : Hint T B S) (hB2 : 2 ≤ B) (es : List Emit) :
    ∀ {w w' : World} {toks toks' : List Backref}, CapW T S i w → (∀ e ∈ es, EmitSmall B e) →
      (∀ e ∈ es, e.method = .borrow → ∀ bs, e.op = .append bs → ∀ c, src.region = .chunk c → src.off + bs.length ≤ S) →
      applyStep w i toks es src = some (w', toks') → CapW T S i w' := by
  induction es with
  | nil =>
    intro w w' toks toks' hw _ _ h
    simp only [applyStep, Option.some.injEq, Prod.mk.injEq] at h
    obtain ⟨rfl, _⟩ := h; exact hw
  | cons e t ih =>
    intro w w' toks toks' hw hsm hsrc h
    simp only [applyStep] at h
    cases h1 : applyEmit w i toks e src with
    | none => rw [h1] at h; cases h
    | some x =>
      obtain ⟨w1, toks1⟩ := x
      rw [h1] at h
      exact ih (applyEmit_cap hw hH hB2 (hsm e (by simp)) (hsrc e (by simp)) h1)
        (fun x hx => hsm x (by simp [hx])) (fun x hx => hsrc x (by simp [hx])) h

theorem consumeOnce_maxChunk (p : Params) (s : EncState) (nid : Nat) (m : Method) (input : List UInt8) :
    (Enc.consumeOnce p s nid m input).st.maxChunk = s.maxChunk ∨
    (Enc.consumeOnce p s nid m input).st.maxChunk = p.maxSub := by
  by_cases hA : s.mid ∧ input.head? = some FD
  · rw [consumeOnce_mid p s nid m input hA]; exact Or.inr rfl
  · cases hfs : findStuff (input.take ((flushS s).maxChunk - (flushS s).cur)) with
    | some i => rw [consumeOnce_stuff p s nid m input hA hfs]; exact Or.inr rfl
    | none =>
      by_cases hfull : (input.take ((flushS s).maxChunk - (flushS s).cur)).length
          = (flushS s).maxChunk - (flushS s).cur
      · rw [consumeOnce_full p s nid m input hA hfs hfull]; exact Or.inr rfl
      · rw [consumeOnce_part p s nid m input hA hfs hfull]; exact Or.inl (flushS_maxChunk s)

theorem consumeOnce_consumed_le (p : Params) (s : EncState) (nid : Nat) (m : Method) (input : List UInt8)
    (hne : input ≠ []) : (Enc.consumeOnce p s nid m input).consumed ≤ input.length := by
  have hl : 0 < input.length := List.length_pos_iff.mpr hne
  by_cases hA : s.mid ∧ input.head? = some FD
  · rw [consumeOnce_mid p s nid m input hA]; exact hl
  · cases hfs : findStuff (input.take ((flushS s).maxChunk - (flushS s).cur)) with
    | some i =>
      rw [consumeOnce_stuff p s nid m input hA hfs]
      have := (Woodpile.Hcobs.Spec.findStuff_some hfs).1
      simp only [List.length_take] at this ⊢
      omega
    | none =>
      by_cases hfull : (input.take ((flushS s).maxChunk - (flushS s).cur)).length
          = (flushS s).maxChunk - (flushS s).cur
      · rw [consumeOnce_full p s nid m input hA hfs hfull]
        simp only [List.length_take] at hfull ⊢
        omega
      · rw [consumeOnce_part p s nid m input hA hfs hfull]
        simp only [List.length_take]
        omega

/-- One `encode` / `encode_copy` / anchored `encode` call. -/
theorem encFeed_cap {T : Tuning} {B S : Nat} (hH : Hint T B S) (hB2 : 2 ≤ B) (p : Params) (hsub : p.maxSub ≤ B)
    (i : Nat) (m : Method) (base : Slice) (fuel : Nat) :
    ∀ (w w' : World) (e e' : EncW) (input : List UInt8) (pos : Nat), CapW T S i w → max 1 e.st.maxChunk ≤ B →
      (∀ c, base.region = .chunk c → base.off + base.len ≤ S ∧ pos + input.length ≤ base.len) →
      encFeed p fuel w i e m base input pos = some (w', e') → CapW T S i w' ∧ max 1 e'.st.maxChunk ≤ B := by
  induction fuel with
  | zero =>
    intro w w' e e' input pos hw hm _ h
    simp only [encFeed_zero, Option.some.injEq, Prod.mk.injEq] at h
    obtain ⟨rfl, rfl⟩ := h; exact ⟨hw, hm⟩
  | succ fuel ih =>
    intro w w' e e' input pos hw hm hbase h
    by_cases hne : input = []
    · subst hne
      simp only [encFeed_nil, Option.some.injEq, Prod.mk.injEq] at h
      obtain ⟨rfl, rfl⟩ := h; exact ⟨hw, hm⟩
    · rw [encFeed_succ p fuel w i e m base input pos hne] at h
      cases h1 : applyStep w i e.toks (Enc.consumeOnce p e.st e.nid m input).emits
          { base with off := base.off + pos, len := base.len - pos } with
      | none => rw [h1] at h; cases h
      | some x =>
        obtain ⟨w1, toks1⟩ := x
        rw [h1] at h
        have hcl := consumeOnce_consumed_le p e.st e.nid m input hne
        have hw1 : CapW T S i w1 := by
          refine applyStep_cap hH hB2 _ hw (fun x hx => (once_small p e.st e.nid m input x hx).mono hm) ?_ h1
          intro x hx hb bs hop c hc
          obtain ⟨_, hpre⟩ := once_borrow_prefix p e.st e.nid m input x hx hb bs hop
          have := hpre.length_le
          obtain ⟨b1, b2⟩ := hbase c hc
          simp only; omega
        refine ih w1 w' _ e' _ _ hw1 ?_ ?_ h
        · simp only
          rcases consumeOnce_maxChunk p e.st e.nid m input with h2 | h2 <;> rw [h2] <;> omega
        · intro c hc
          obtain ⟨b1, b2⟩ := hbase c hc
          refine ⟨b1, ?_⟩
          simp only [List.length_drop]; omega

theorem encFinish_cap {T : Tuning} {B S i : Nat} (hH : Hint T B S) (hB2 : 2 ≤ B) (p : Params) {w w' : World} {e : EncW}
    (hw : CapW T S i w) (h : encFinish p w i e = some w') : CapW T S i w' := by
  simp only [encFinish, Option.map_eq_some_iff] at h
  obtain ⟨x, hx, rfl⟩ := h
  exact applyStep_cap hH hB2 _ hw (fun x hx => (finish_small p _ x hx).mono (by omega))
    (fun x hx hb => (finish_no_borrow p _ x hx hb).elim) hx

theorem encInit_cap {T : Tuning} {B S i : Nat} (hH : Hint T B S) (hB2 : 2 ≤ B) (p : Params) (hinit : p.maxInit ≤ B)
    {w w' : World} {e : EncW} (hw : CapW T S i w) (h : encInit p w i = some (w', e)) :
    CapW T S i w' ∧ max 1 e.st.maxChunk ≤ B := by
  simp only [encInit] at h
  cases h0 : applyStep w i [] (Enc.init p 0).2 ⟨.ext 0, 0, 0⟩ with
  | none => rw [h0] at h; cases h
  | some x =>
    obtain ⟨w1, toks1⟩ := x
    rw [h0] at h
    simp only [Option.some.injEq, Prod.mk.injEq] at h
    obtain ⟨rfl, rfl⟩ := h
    refine ⟨applyStep_cap hH hB2 _ hw (fun x hx => (init_small p x hx).mono (by omega)) ?_ h0, ?_⟩
    · intro x hx hb
      simp only [Enc.init, List.mem_singleton] at hx; subst hx; cases hb
    · simp only [Enc.init]; omega

/-- The requests of a call list: every anchored read asks for at most `B` bytes. -/
def ReadsLe (B : Nat) : List ACall → Prop
  | [] => True
  | .call _ :: t => ReadsLe B t
  | .read count _ _ _ :: t => count ≤ B ∧ ReadsLe B t

theorem encCallA_cap {T : Tuning} {B S : Nat} (hH : Hint T B S) (hB2 : 2 ≤ B) (p : Params) (hsub : p.maxSub ≤ B)
    (i : Nat) (r r' : Run) (c : ACall) (hc : ReadsLe B [c]) (hw : CapW T S i r.w) (hm : max 1 r.e.st.maxChunk ≤ B)
    (h : encCallA p i r c = some r') : CapW T S i r'.w ∧ max 1 r'.e.st.maxChunk ≤ B := by
  cases c with
  | call c =>
    cases c with
    | feed m d =>
      cases m with
      | copy =>
        simp only [encCallA, encCall, Option.map_eq_some_iff] at h
        obtain ⟨x, hx, rfl⟩ := h
        exact encFeed_cap hH hB2 p hsub i .copy _ _ r.w x.1 r.e x.2 d 0 hw hm (fun c hc => by cases hc) hx
      | borrow =>
        simp only [encCallA, encCall, Option.map_eq_some_iff] at h
        obtain ⟨x, hx, rfl⟩ := h
        exact encFeed_cap hH hB2 p hsub i .borrow _ _ (r.w.addExt d).1 x.1 r.e x.2 d 0 (addExt_cap d hw) hm
          (fun c hc => by cases hc) hx
    | consume k =>
      simp only [encCallA, encCall] at h
      cases hv : r.w.iov i with
      | none => rw [hv] at h; cases h
      | some v =>
        rw [hv] at h
        simp only [Option.map_eq_some_iff] at h
        obtain ⟨x, hx, rfl⟩ := h
        exact ⟨consume_cap k x.2 hw hx, hm⟩
    | advance k =>
      simp only [encCallA, encCall] at h
      cases hv : r.w.iov i with
      | none => rw [hv] at h; cases h
      | some v =>
        rw [hv] at h
        simp only [Option.map_eq_some_iff] at h
        obtain ⟨x, hx, rfl⟩ := h
        exact ⟨advance_cap k x.2 hw hx, hm⟩
  | read count attempts src script =>
    simp only [encCallA, Option.map_eq_some_iff] at h
    obtain ⟨x, hx, rfl⟩ := h
    simp only [encodeRead] at hx
    cases hro : readOwn r.w i ⟨src, script⟩ count attempts with
    | none => rw [hro] at hx; cases hx
    | some y =>
      obtain ⟨w1, res, o⟩ := y
      rw [hro] at hx
      obtain ⟨hw1, hres⟩ := readOwn_cap ⟨src, script⟩ count attempts res o hw (hH count hc.1) hro
      cases res with
      | error k =>
        simp only [Option.some.injEq] at hx
        subst hx
        exact ⟨hw1, hm⟩
      | ok a =>
        obtain ⟨hal, hacap⟩ := hres a rfl
        simp only [encodeAnchored] at hx
        cases hf : encFeed p (2 * (w1.sliceBytes a.slice).length + 2) w1 i r.e .borrow a.slice (w1.sliceBytes a.slice) 0 with
        | none => rw [hf] at hx; cases hx
        | some z =>
          obtain ⟨w2, e2⟩ := z
          rw [hf] at hx
          obtain ⟨hw2, hm2⟩ := encFeed_cap hH hB2 p hsub i .borrow a.slice _ w1 w2 r.e e2 _ 0 hw1 hm
            (fun c hc => ⟨hacap c hc, by have := sliceBytes_length_le w1 a.slice; omega⟩) hf
          simp only at hx
          cases hpa : pushAnchorOf w2 i a with
          | none => rw [hpa] at hx; cases hx
          | some w3 =>
            rw [hpa] at hx
            simp only [Option.some.injEq] at hx
            subst hx
            refine ⟨?_, hm2⟩
            simp only [pushAnchorOf] at hpa
            split at hpa
            · simp only [Option.some.injEq] at hpa
              subst hpa
              exact hw2
            · exact pushAnchor_cap a.anchor hw2 hpa

theorem encCallsA_cap {T : Tuning} {B S : Nat} (hH : Hint T B S) (hB2 : 2 ≤ B) (p : Params) (hsub : p.maxSub ≤ B)
    (i : Nat) (calls : List ACall) :
    ∀ (r r' : Run), ReadsLe B calls → CapW T S i r.w → max 1 r.e.st.maxChunk ≤ B →
      encCallsA p i r calls = some r' → CapW T S i r'.w := by
  induction calls with
  | nil =>
    intro r r' _ hw _ h
    simp only [encCallsA, Option.some.injEq] at h
    subst h; exact hw
  | cons c t ih =>
    intro r r' hc hw hm h
    simp only [encCallsA] at h
    cases h1 : encCallA p i r c with
    | none => rw [h1] at h; cases h
    | some r1 =>
      rw [h1] at h
      have hc1 : ReadsLe B [c] ∧ ReadsLe B t := by
        cases c with
        | call c => exact ⟨trivial, hc⟩
        | read count attempts src script => exact ⟨⟨hc.1, trivial⟩, hc.2⟩
      obtain ⟨hw1, hm1⟩ := encCallA_cap hH hB2 p hsub i r r1 c hc1.1 hw hm h1
      exact ih r1 r' hc1.2 hw1 hm1 h

/-- Between the calls of any run on arena tuning `T`, all input methods, every owned slice of the
encoder's iovec ends within `S` bytes of the start of its chunk — provided requests of at most `B` bytes
are answered with chunks of at most `S` bytes, `B` bounds the chunk limits and every anchored read's
`count`. -/
theorem encPrefixA_cap {T : Tuning} {B S : Nat} (hH : Hint T B S) (hB2 : 2 ≤ B) (p : Params)
    (hinit : p.maxInit ≤ B) (hsub : p.maxSub ≤ B) (pol : Policy) (calls : List ACall) (hc : ReadsLe B calls) (r : Run)
    (h : encPrefixA p pol T calls = some r) :
    ∀ v, r.w.iov 0 = some v → ∀ s ∈ v.slices, ∀ c, s.region = .chunk c → s.off + s.len ≤ S := by
  have hfresh : CapW T S 0 (World.fresh pol T) :=
    ⟨rfl, Iov.empty, rfl, ⟨(fun ca h => by cases h), (fun s hs => by cases hs)⟩⟩
  simp only [encPrefixA] at h
  cases h0 : encInit p (World.fresh pol T) 0 with
  | none => rw [h0] at h; cases h
  | some x =>
    obtain ⟨w1, e1⟩ := x
    rw [h0] at h
    simp only at h
    obtain ⟨hw1, hm1⟩ := encInit_cap hH hB2 p hinit hfresh h0
    obtain ⟨_, v', hv', hcap⟩ := encCallsA_cap hH hB2 p hsub 0 calls ⟨w1, e1, []⟩ r hc hw1 hm1 h
    intro v hv
    rw [hv'] at hv; cases hv
    exact hcap.slices

end Woodpile.EncWorld

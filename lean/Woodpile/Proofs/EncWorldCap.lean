/-
Chunk capacities along codec runs with ALL input methods (track `anch`): the in-capacity hypothesis of
`Props/C09H.enc_lag_le_partial`, discharged.

`CapW T S i w`: world `w` uses arena tuning `T`; the current allocation cache of iovec `i`'s arena is
consistent (`bump ≤ cap`) and has capacity at most `S`; every owned slice of iovec `i` ends within `S`
bytes of the start of its chunk.  It is preserved by every iovec call the codecs, their callers and
their consumers make, provided every allocation REQUEST is at most `B` bytes and the arena answers
requests of at most `B` bytes with chunks of at most `S` bytes (`Hint T B S`; for the production tuning
and `B < 2^20`, `S = 2^20`: `EncWorld.findHintSize_le_prod`).  The encoder's own requests are at most
`max 1 maxChunk ≤ 64008` bytes (`EncGlue.once_small`); an anchored `read_n(count)` requests `count`.

The argument is a direct one on the model functions (no simulation needed: it looks at slices and the
cache only), by unfolding each call once.
-/
import Woodpile.Proofs.EncWorldAnch
import Woodpile.Proofs.EncGlue

namespace Woodpile.EncWorld
open Woodpile.Hcobs Woodpile.Iovec Woodpile.Arena
open Woodpile.Hcobs.EncProof

/-- The cache is consistent and small; owned slices end within `S` bytes of their chunk. -/
structure CapOk (S : Nat) (v : Iov) : Prop where
  cache : ∀ ca, v.arena.cache = some ca → ca.bump ≤ ca.cap ∧ ca.cap ≤ S
  slices : ∀ s ∈ v.slices, ∀ c, s.region = .chunk c → s.off + s.len ≤ S

def CapW (T : Tuning) (S : Nat) (i : Nat) (w : World) : Prop :=
  w.tun = T ∧ ∃ v, w.iov i = some v ∧ CapOk S v

/-- Requests of at most `B` bytes are served from chunks of at most `S` bytes. -/
def Hint (T : Tuning) (B S : Nat) : Prop := ∀ len, len ≤ B → ∀ prev, max (findHintSize T len prev) len ≤ S

theorem hint_prod (B : Nat) (hB : B < 1048576) : Hint prodTuning B 1048576 :=
  fun len hl prev => findHintSize_le_prod len prev (by omega)

theorem Hint.mono {T : Tuning} {B B' S : Nat} (h : Hint T B S) (hb : B' ≤ B) : Hint T B' S :=
  fun len hl prev => h len (by omega) prev

/-! ### The arena -/

theorem alloc_cap (T : Tuning) (a : Arena) (next len S : Nat)
    (hc : ∀ ca, a.cache = some ca → ca.bump ≤ ca.cap ∧ ca.cap ≤ S)
    (hS : ∀ prev, max (findHintSize T len prev) len ≤ S) :
    (∀ ca', (alloc T a next len).1.cache = some ca' → ca'.bump ≤ ca'.cap ∧ ca'.cap ≤ S) ∧
    (alloc T a next len).2.2.2 + len ≤ S ∧
    (∀ ca', (alloc T a next len).1.cache = some ca' → ca'.bump = (alloc T a next len).2.2.2 + len) := by
  unfold alloc ensureCapacity
  cases hca : a.cache with
  | none =>
    have := hS 0
    simp only
    refine ⟨?_, by omega, ?_⟩
    · intro ca' h; simp only [Option.some.injEq] at h; subst h; simp only; omega
    · intro ca' h; simp only [Option.some.injEq] at h; subst h; rfl
  | some c =>
    obtain ⟨h1, h2⟩ := hc c hca
    simp only
    by_cases hr : c.remaining ≥ len
    · simp only [hr, if_true, hca]
      have : c.bump + len ≤ c.cap := by unfold Cache.remaining at hr; omega
      refine ⟨?_, by omega, ?_⟩
      · intro ca' h; simp only [Option.some.injEq] at h; subst h; simp only; omega
      · intro ca' h; simp only [Option.some.injEq] at h; subst h; rfl
    · have := hS c.cap
      simp only [hr, if_false]
      refine ⟨?_, by omega, ?_⟩
      · intro ca' h; simp only [Option.some.injEq] at h; subst h; simp only; omega
      · intro ca' h; simp only [Option.some.injEq] at h; subst h; rfl

/-! ### One iovec call at a time -/

theorem optimize_cap {S : Nat} (v v' : Iov) (h : v.optimize = some v') (hc : CapOk S v) : CapOk S v' := by
  rcases optimize_cases v v' h with rfl | ⟨pre, l, r, anc, a, ca, hsl, _, _, _, hl, hr, hadj, rfl⟩
  · exact hc
  · refine ⟨hc.cache, ?_⟩
    intro s hs c hsc
    simp only [List.mem_append, List.mem_singleton] at hs
    rcases hs with hs | rfl
    · exact hc.slices s (by rw [hsl]; simp [hs]) c hsc
    · have := hc.slices r (by rw [hsl]; simp) _ hr
      simp only; omega

theorem CapW.setIov_same {T : Tuning} {S i : Nat} {w : World} {v : Iov} (h : CapOk S v) (ht : w.tun = T) :
    CapW T S i (w.setIov i (some v)) := ⟨ht, v, by simp, h⟩

theorem pushCopy_cap {T : Tuning} {S i : Nat} {w w' : World} (src : List UInt8) (hw : CapW T S i w)
    (hS : ∀ prev, max (findHintSize T src.length prev) src.length ≤ S) (h : w.pushCopy i src = some w') :
    CapW T S i w' := by
  obtain ⟨ht, v, hv, hc⟩ := hw
  by_cases hne : src = []
  · subst hne
    have : w.pushCopy i [] = some w := by unfold World.pushCopy; rw [hv]; rfl
    rw [this] at h; cases h
    exact ⟨ht, v, hv, hc⟩
  · obtain ⟨v', hv', hopt, _, _, _⟩ := World.pushCopy_shape w w' i v src hv hne h
    obtain ⟨a1, a2, a3⟩ := alloc_cap T v.arena w.next src.length S hc.cache hS
    have htun : w'.tun = w.tun := by
      rw [pushCopy_eq w i v src hv hne] at h
      split at h
      · cases h
      · split at h
        · cases h
        · cases h; rfl
    refine ⟨htun.trans ht, v', hv', optimize_cap _ _ hopt ⟨?_, ?_⟩⟩
    · rw [ht]; exact a1
    · intro s hs c hsc
      simp only [List.mem_append, List.mem_singleton] at hs
      rcases hs with hs | rfl
      · exact hc.slices s hs c hsc
      · rw [ht]; exact a2

theorem registerPatch_cap {T : Tuning} {S i : Nat} {w w' : World} (pat : List UInt8) (b : Backref) (hw : CapW T S i w)
    (hS : ∀ prev, max (findHintSize T pat.length prev) pat.length ≤ S) (h : w.registerPatch i pat = some (w', b)) :
    CapW T S i w' := by
  unfold World.registerPatch at h
  split at h
  · cases h; exact hw
  · split at h
    · cases h
    · rename_i w1 hw1
      obtain ⟨ht1, v1', hv1', hc1'⟩ := pushCopy_cap pat hw hS hw1
      split at h
      · cases h
      · rename_i v1 hv1
        have hc1 : CapOk S v1 := by rw [hv1] at hv1'; cases hv1'; exact hc1'
        split at h
        · cases h
        · have main : ∀ X : List (Nat × BackrefInfo), w' = w1.setIov i (some { v1 with backrefs := X }) →
              CapW T S i w' := by
            intro X hw'
            subst hw'
            exact CapW.setIov_same ⟨hc1.cache, hc1.slices⟩ ht1
          split at h <;> (simp only [] at h; split at h <;> first | (cases h; exact main _ rfl) | cases h)

theorem backfill_cap {T : Tuning} {S i : Nat} {w w' : World} (tok : Backref) (src : List UInt8) (hw : CapW T S i w)
    (h : w.backfill i tok src = some w') : CapW T S i w' := by
  obtain ⟨ht, v, hv, hc⟩ := hw
  unfold World.backfill at h
  rw [hv] at h
  simp only at h
  split at h
  · split at h
    · cases h; exact ⟨ht, v, hv, hc⟩
    · cases h
  · rename_i key info
    split at h
    · cases h
    · split at h
      · cases h
      · split at h
        · cases h
        · split at h
          · cases h
          · split at h
            · cases h
            · split at h
              · cases h
              · split at h
                · cases h
                  exact ⟨ht, { v with backrefs := v.backrefs.filter (·.1 ≠ key) }, World.iov_setIov w i _,
                    ⟨hc.cache, hc.slices⟩⟩
                · cases h

theorem pushBorrowed_cap {T : Tuning} {S i : Nat} {w w' : World} (s : Slice) (hw : CapW T S i w)
    (hs : ∀ c, s.region = .chunk c → s.off + s.len ≤ S) (h : w.pushBorrowed i s = some w') : CapW T S i w' := by
  obtain ⟨ht, v, hv, hc⟩ := hw
  unfold World.pushBorrowed at h
  rw [hv] at h
  simp only at h
  split at h
  · cases h; exact ⟨ht, v, hv, hc⟩
  · rename_i h0
    rw [pushBorrowedSlice_eq v s h0] at h
    split at h
    · cases h
    · rename_i v' hopt
      cases h
      refine CapW.setIov_same (optimize_cap _ _ hopt ⟨hc.cache, ?_⟩) ht
      intro x hx c hxc
      simp only [List.mem_append, List.mem_singleton] at hx
      rcases hx with hx | rfl
      · exact hc.slices x hx c hxc
      · exact hs c hxc

theorem push_cap {T : Tuning} {B S i : Nat} {w w' : World} (s : Slice) (hw : CapW T S i w) (hH : Hint T B S)
    (hlen : s.len ≤ B) (hs : ∀ c, s.region = .chunk c → s.off + s.len ≤ S) (h : w.push i s = some w') :
    CapW T S i w' := by
  obtain ⟨ht, v, hv, hc⟩ := hw
  rcases World.push_eq w i v s hv with he | he
  · rw [he] at h
    exact pushCopy_cap _ ⟨ht, v, hv, hc⟩ (hH _ (Nat.le_trans (sliceBytes_length_le w s) hlen)) h
  · rw [he] at h
    exact pushBorrowed_cap s ⟨ht, v, hv, hc⟩ hs h

theorem pushAnchor_cap {T : Tuning} {S i : Nat} {w w' : World} (a : Anchor) (hw : CapW T S i w)
    (h : w.pushAnchor i a = some w') : CapW T S i w' := by
  obtain ⟨ht, v, hv, hc⟩ := hw
  unfold World.pushAnchor at h
  rw [hv] at h
  cases h
  exact CapW.setIov_same ⟨hc.cache, hc.slices⟩ ht

theorem addExt_cap {T : Tuning} {S i : Nat} {w : World} (d : List UInt8) (hw : CapW T S i w) :
    CapW T S i (w.addExt d).1 := hw

theorem consumeSlices_cap {S : Nat} (v v' : Iov) (count n : Nat) (h : v.consumeSlices count = some (v', n))
    (hc : CapOk S v) : CapOk S v' := by
  unfold Iov.consumeSlices at h
  simp only at h
  split at h
  · cases h
  · split at h
    · cases h
    · cases h
      exact ⟨hc.cache, fun s hs => hc.slices s (List.mem_of_mem_drop hs)⟩

theorem consume_cap {T : Tuning} {S i : Nat} {w w' : World} (k n : Nat) (hw : CapW T S i w)
    (h : w.consume i k = some (w', n)) : CapW T S i w' := by
  obtain ⟨ht, v, hv, hc⟩ := hw
  unfold World.consume at h
  rw [hv] at h
  simp only at h
  split at h
  · cases h
  · split at h
    · cases h
    · rename_i v' k' hcs
      cases h
      exact CapW.setIov_same (consumeSlices_cap v v' _ _ hcs hc) ht

theorem consumeBytes_cap {S : Nat} (fuel : Nat) : ∀ (v v' : Iov) (count consumed n : Nat),
    Iov.consumeBytes fuel v count consumed = some (v', n) → CapOk S v → CapOk S v' := by
  induction fuel with
  | zero =>
    intro v v' count consumed n h hc
    simp only [Iov.consumeBytes, Option.some.injEq, Prod.mk.injEq] at h
    obtain ⟨rfl, _⟩ := h; exact hc
  | succ fuel ih =>
    intro v v' count consumed n h hc
    rw [Iov.consumeBytes] at h
    split at h
    · simp only [Option.some.injEq, Prod.mk.injEq] at h
      obtain ⟨rfl, _⟩ := h; exact hc
    · split at h
      · cases h
      · rename_i s rest hsl
        simp only at h
        split at h
        · split at h
          · cases h
          · rename_i v1 k1 hcs
            exact ih v1 v' _ _ n h (consumeSlices_cap v v1 _ _ hcs hc)
        · simp only [Option.some.injEq, Prod.mk.injEq] at h
          obtain ⟨rfl, _⟩ := h
          refine ⟨hc.cache, ?_⟩
          intro x hx c hxc
          simp only [List.mem_cons] at hx
          rcases hx with rfl | hx
          · have := hc.slices s (by rw [hsl]; simp) c hxc
            simp only at hxc ⊢
            have hm : min (count - consumed) s.len ≤ s.len := Nat.min_le_right _ _
            omega
          · exact hc.slices x (by rw [hsl]; simp [hx]) c hxc

theorem advance_cap {T : Tuning} {S i : Nat} {w w' : World} (k n : Nat) (hw : CapW T S i w)
    (h : w.advance i k = some (w', n)) : CapW T S i w' := by
  obtain ⟨ht, v, hv, hc⟩ := hw
  unfold World.advance at h
  rw [hv] at h
  simp only at h
  split at h
  · cases h
  · split at h
    · cases h
    · rename_i v' c hcb
      cases h
      exact CapW.setIov_same (consumeBytes_cap _ v v' _ _ _ hcb hc) ht

/-- `read_n(count)` into the own arena: the cache stays consistent and small, and the returned slice ends
within `S` bytes of its chunk. -/
theorem readOwn_cap {T : Tuning} {S i : Nat} {w w' : World} (r : ReadN.Reader) (count attempts : Nat)
    (res : Except Nat ASlice) (o : ReadN.Out) (hw : CapW T S i w)
    (hS : ∀ prev, max (findHintSize T count prev) count ≤ S)
    (h : readOwn w i r count attempts = some (w', res, o)) :
    CapW T S i w' ∧ ∀ a, res = .ok a → a.slice.len ≤ count ∧ ∀ c, a.slice.region = .chunk c → a.slice.off + a.slice.len ≤ S := by
  obtain ⟨ht, v, hv, hc⟩ := hw
  subst ht
  unfold readOwn at h
  rw [hv] at h
  simp only at h
  unfold World.readN at h
  by_cases hc0 : count = 0
  · simp only [hc0, if_true, hv, Option.some.injEq, Prod.mk.injEq] at h
    obtain ⟨rfl, rfl, _⟩ := h
    refine ⟨CapW.setIov_same ⟨hc.cache, hc.slices⟩ rfl, ?_⟩
    intro a ha
    simp only [Except.ok.injEq] at ha
    subst ha
    exact ⟨by simp [ASlice.empty], fun c hcx => by simp [ASlice.empty] at hcx⟩
  · simp only [hc0, if_false] at h
    obtain ⟨a1, a2, a3⟩ := alloc_cap w.tun v.arena w.next count S hc.cache hS
    generalize alloc w.tun v.arena w.next count = al at h a1 a2 a3
    obtain ⟨ar1, next1, chunk, off⟩ := al
    simp only at h a1 a2 a3
    have hrel : ∀ n ca, (release ar1 n).cache = some ca → ca.bump ≤ ca.cap ∧ ca.cap ≤ S := by
      intro n ca hca
      obtain ⟨c0, hc0', rfl⟩ := release_cache ar1 n ca hca
      obtain ⟨b1, b2⟩ := a1 c0 hc0'
      exact ⟨by simp only; omega, b2⟩
    have hgl : ∀ got, (ReadN.readNCore r count attempts).res = .ok got → got.length ≤ count := by
      intro got hg
      have := Woodpile.Props.C17.read_n_spec r count attempts (by omega)
      simp only at this
      obtain ⟨_, hle, _, _, hm⟩ := this
      rw [hg] at hm
      rw [hm.1]; exact hle
    cases hres : (ReadN.readNCore r count attempts).res with
    | ok got =>
      simp only [hres] at h
      have hv1 : ∀ (hp : Heap) (nx : Nat), World.iov ({ w with heap := hp, next := nx } : World) i = some v :=
        fun _ _ => hv
      simp only [hv1, Option.some.injEq, Prod.mk.injEq] at h
      obtain ⟨rfl, rfl, _⟩ := h
      refine ⟨⟨rfl, _, World.iov_setIov _ i _, ⟨hrel _, hc.slices⟩⟩, ?_⟩
      intro a ha
      simp only [Except.ok.injEq] at ha
      subst ha
      have := hgl got hres
      exact ⟨this, fun c _ => by simp only; omega⟩
    | err k =>
      simp only [hres] at h
      have hv1 : ∀ (hp : Heap) (nx : Nat), World.iov ({ w with heap := hp, next := nx } : World) i = some v :=
        fun _ _ => hv
      simp only [hv1, Option.some.injEq, Prod.mk.injEq] at h
      obtain ⟨rfl, rfl, _⟩ := h
      exact ⟨⟨rfl, _, World.iov_setIov _ i _, ⟨hrel _, hc.slices⟩⟩, fun a ha => by cases ha⟩

end Woodpile.EncWorld

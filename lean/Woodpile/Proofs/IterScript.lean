import Woodpile.Model.IterScript

/-!
The closed forms of `Model/IterScript.lean` are what the PROVIDED methods of the `Iterator` /
`DoubleEndedIterator` traits compute from `next` (resp. `next_back`) alone - i.e. what their
default bodies do.  An implementation that overrides `nth`, `count`, `last`, `fold`, `size_hint`
... has to agree with these defaults; the harness' iterator-protocol scripts check that on the
real iterators against a `Vec` cursor, and these theorems say that the list cursor the model
driver runs IS the `next`-only semantics (track gen3).
-/
namespace Woodpile.IterScript

variable {α : Type}

/-- The state after one `next()`. -/
def afterNext (l : List α) : List α := (step l .next).1

/-- `k` calls of `next()`, answers dropped. -/
def afterNexts : Nat → List α → List α
  | 0, l => l
  | k + 1, l => afterNexts k (afterNext l)

theorem afterNexts_eq_drop (k : Nat) (l : List α) : afterNexts k l = l.drop k := by
  induction k generalizing l with
  | zero => rfl
  | succ k ih => simp [afterNexts, afterNext, step, ih]

/-- Everything `next()` yields until it says `None` (at most `fuel` calls). -/
def drainNext : Nat → List α → List α
  | 0, _ => []
  | fuel + 1, l =>
    match (step l .next).2 with
    | .item (some x) => x :: drainNext fuel (afterNext l)
    | _ => []

theorem drainNext_eq_take (fuel : Nat) (l : List α) : drainNext fuel l = l.take fuel := by
  induction fuel generalizing l with
  | zero => simp [drainNext]
  | succ f ih =>
    cases l with
    | nil => simp [drainNext, step]
    | cons x xs => simp [drainNext, step, afterNext, ih]

theorem drainNext_all (l : List α) : drainNext l.length l = l := by
  rw [drainNext_eq_take, List.take_length]

/-- **`nth(k)` is `k` times `next()`, then `next()`** (the default body of `Iterator::nth`):
same answer, same state afterwards. -/
theorem nth_is_repeated_next (l : List α) (k : Nat) :
    step l (.nth k) = step (afterNexts k l) .next := by
  simp [step, afterNexts_eq_drop, List.drop_drop]

/-- `skip(k)` then `next()` is `nth(k)` on the original iterator (what `Skip::next` calls the
first time), and the skipped iterator is the original one after `k` calls of `next()`. -/
theorem skip_is_repeated_next (l : List α) (k : Nat) :
    (step l (.skip k)).1 = afterNexts k l ∧
    step (step l (.skip k)).1 .next = step l (.nth k) := by
  simp [step, afterNexts_eq_drop, List.drop_drop]

/-- `by_ref().take(k).collect()` is the first `k` answers of `next()`, and leaves the iterator
after those calls (exactly `k` of them when that many items remain). -/
theorem by_ref_take_is_nexts (l : List α) (k : Nat) :
    step l (.byRefTake k) = (afterNexts k l, .items (drainNext k l)) := by
  simp [step, afterNexts_eq_drop, drainNext_eq_take]

/-- **The consuming methods are the drain by `next()`**: `collect()` / `fold` yield exactly the
items `next()` would, `count()` is their number, `last()` the last of them. -/
theorem consuming_are_drain (l : List α) :
    (step l .collect).2 = .items (drainNext l.length l) ∧
    (step l .fold).2 = .items (drainNext l.length l) ∧
    (step l .count).2 = .num (drainNext l.length l).length ∧
    (step l .last).2 = .item (drainNext l.length l).getLast? := by
  simp [step, drainNext_all]

/-- `size_hint()` / `len()` are exact: the number of items `next()` will still yield. -/
theorem hint_is_remaining (l : List α) :
    (step l .hint).2 = .num (drainNext l.length l).length ∧ (step l .hint).1 = l ∧
    (step l .len).2 = .num (drainNext l.length l).length ∧ (step l .len).1 = l := by
  simp [step, drainNext_all]

/-- **`next_back()` is `next()` of the reversed iterator** (and `rev()` is that reversal): same
answer, and the states afterwards are each other's reversal. -/
theorem next_back_is_rev_next (l : List α) :
    (step l .nextBack).2 = (step (step l .rev).1 .next).2 ∧
    (step l .nextBack).1 = ((step (step l .rev).1 .next).1).reverse := by
  constructor
  · simp [step, List.head?_reverse]
  · simp [step, List.drop_one, List.tail_reverse]

/-- `nth_back(k)` is `nth(k)` of the reversed iterator. -/
theorem nth_back_is_rev_nth (l : List α) (k : Nat) :
    (step l (.nthBack k)).2 = (step (step l .rev).1 (.nth k)).2 ∧
    (step l (.nthBack k)).1 = ((step (step l .rev).1 (.nth k)).1).reverse := by
  constructor
  · simp [step]
  · simp [step, List.reverse_drop]

/-- `take(k)` keeps the first `k` answers of `next()`. -/
theorem take_is_prefix (l : List α) (k : Nat) :
    (step l (.take k)).1 = drainNext k l := by
  simp [step, drainNext_eq_take]

/-- The list `step_by(s)` yields, item by item: the `i`-th one is item `i * s` of the original
iterator (`s ≥ 1`; `StepBy` calls `next()` once and then `nth(s - 1)` each time, which is how
`everyNth` is written). -/
theorem stepBy_getElem? (s : Nat) (hs : 1 ≤ s) (l : List α) (i : Nat) :
    (stepBy s l)[i]? = l[i * s]? := by
  unfold stepBy
  suffices h : ∀ fuel (l : List α), l.length ≤ fuel → (everyNth s fuel l)[i]? = l[i * s]? from h _ _ (Nat.le_refl _)
  intro fuel
  induction fuel generalizing i with
  | zero =>
    intro l hl
    have : l = [] := List.eq_nil_of_length_eq_zero (Nat.le_zero.mp hl)
    subst this; simp [everyNth]
  | succ f ih =>
    intro l hl
    cases l with
    | nil => simp [everyNth]
    | cons x xs =>
      cases i with
      | zero => simp [everyNth]
      | succ j =>
        have hlen : (xs.drop (s - 1)).length ≤ f := by
          simp only [List.length_drop, List.length_cons] at *; omega
        have := ih (i := j) (xs.drop (s - 1)) hlen
        simp only [everyNth, List.getElem?_cons_succ, this, List.getElem?_drop]
        have e : (j + 1) * s = (s - 1 + j * s) + 1 := by
          rw [Nat.succ_mul]; omega
        rw [e, List.getElem?_cons_succ]

/-- A script only sees the list the iterator yields: two iterators that yield the same items
answer every script alike (congruence; used to transport the refinement theorems of C12 / C15 /
C16 to scripts). -/
theorem run_congr {l₁ l₂ : List α} (h : l₁ = l₂) (script : List Step) : run l₁ script = run l₂ script := by
  rw [h]

theorem indexed_rebuilds_aux (pre l : List α) :
    (List.range' pre.length l.length).filterMap (fun i => (pre ++ l)[i]?) = l := by
  induction l generalizing pre with
  | nil => simp
  | cons x xs ih =>
    have h := ih (pre ++ [x])
    simp only [List.length_append, List.length_cons, List.length_nil, List.append_assoc,
      List.singleton_append, Nat.zero_add] at h
    have hx : (pre ++ x :: xs)[pre.length]? = some x := by simp
    simp only [List.length_cons, List.range'_succ, List.filterMap_cons, hx, h]

/-- Indexed access rebuilds the list: the reference cursor of the harness (a `Vec` filled through
`get(i)`, `i < len`) holds exactly the items of `l` when `get i = l[i]?`. -/
theorem indexed_rebuilds (l : List α) : (List.range l.length).filterMap (fun i => l[i]?) = l := by
  have := indexed_rebuilds_aux [] l
  simpa [List.range_eq_range'] using this

end Woodpile.IterScript

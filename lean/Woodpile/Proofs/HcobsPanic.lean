/-
The panic outcomes of `Woodpile/Model/HcobsP.lean` are unreachable: for every reachable
state, every input and every segmentation, the panic-aware step / call / run functions
return `.ok` of what the panic-free functions of `Model/Hcobs.lean` compute.

Also: the `Decoder` object after an error (`Dec.call`, `Dec.calls`, `Dec.session`).

Core Lean only.
-/
import Woodpile.Model.HcobsP
import Woodpile.Proofs.HcobsDec
import Woodpile.Proofs.HcobsEnc

namespace Woodpile.Hcobs
open Woodpile.Pipe

/-! ### the `PRes` monad -/

@[simp] theorem PRes.ok_bind {α β : Type} (a : α) (k : α → PRes β) : (PRes.ok a >>= k) = k a := rfl
@[simp] theorem PRes.panic_bind {α β : Type} (f : Src) (l : Nat) (k : α → PRes β) :
    (PRes.panic f l >>= k) = PRes.panic f l := rfl
@[simp] theorem PRes.pure_eq {α : Type} (a : α) : (pure a : PRes α) = PRes.ok a := rfl

theorem check_of {c : Bool} (h : c = true) (f : Src) (l : Nat) : check c f l = .ok () := by
  simp [check, h]

@[simp] theorem check_true (f : Src) (l : Nat) : check true f l = .ok () := rfl

theorem index_cons_zero (b : UInt8) (t : List UInt8) (f : Src) (l : Nat) : index (b :: t) 0 f l = .ok b := rfl

theorem asU32_of_lt {n : Nat} (h : n < 2 ^ 32) : asU32 n = n := Nat.mod_eq_of_lt h

theorem nonZeroU32_of_pos {n : Nat} (h : 0 < n) (l : Nat) : nonZeroU32 n l = .ok n := by
  unfold nonZeroU32; rw [if_neg (by omega)]

/-! ### Decoder: one step, one call -/

namespace DecProof

theorem valid_usize (p : Params) (hp : p.Valid) : 255 + 255 * p.radix < USIZE := by
  obtain ⟨_, _, _, _, _, h6⟩ := hp
  have : 255 * p.radix ≤ 255 * 253 := Nat.mul_le_mul_left _ h6
  unfold USIZE; omega

/-- **One decoder step never panics**: in a state with a representable `remaining`
(`WF32`; every reachable state is one, `reachable_wf32`), on any non-empty input, the
panic-aware step is the panic-free step. -/
theorem onceP_eq (p : Params) (hp : p.Valid) (m : Method) (s : DecState) (b : UInt8) (rest : List UInt8)
    (hs : WF32 s) : Dec.onceP p m s (b :: rest) = .ok (Dec.once p m s b rest) := by
  have hsub := valid_maxSub_lt p hp
  have hus := valid_usize p hp
  have hb : b.toNat < 256 := UInt8.toNat_lt b
  have hinit : p.maxInit < 2 ^ 32 := by
    obtain ⟨_, h2, _, _, _, h6⟩ := hp; omega
  cases s with
  | initial =>
    simp only [Dec.onceP, Dec.once, List.isEmpty_cons, Bool.not_false, check_true, PRes.ok_bind,
      index_cons_zero, PRes.pure_eq]
    by_cases h1 : b.toNat > p.maxInit
    · simp [h1]
    · by_cases h2 : b.toNat > 0
      · have : asU32 b.toNat = b.toNat := asU32_of_lt (by omega)
        simp [h1, h2, this, nonZeroU32_of_pos h2]
      · simp [h1, h2]
  | beforeChunk ins =>
    simp only [Dec.onceP, Dec.once, List.isEmpty_cons, Bool.not_false, check_true, PRes.ok_bind,
      index_cons_zero, PRes.pure_eq]
    by_cases h1 : b.toNat ≥ p.radix <;> simp [h1]
  | midHeader b0 =>
    have hb0 : b0.toNat < 256 := UInt8.toNat_lt b0
    have hmul : b.toNat * p.radix ≤ 255 * p.radix := Nat.mul_le_mul_right _ (by omega)
    simp only [Dec.onceP, Dec.once, List.isEmpty_cons, Bool.not_false, check_true, PRes.ok_bind,
      index_cons_zero, PRes.pure_eq]
    by_cases h1 : b.toNat ≥ p.radix
    · simp [h1]
    · have c1 : decide (b.toNat * p.radix < USIZE) = true := by simp; omega
      have c2 : decide (b0.toNat + b.toNat * p.radix < USIZE) = true := by simp; omega
      simp only [h1, if_false, check_of c1, check_of c2, PRes.ok_bind]
      by_cases h2 : b0.toNat + b.toNat * p.radix > p.maxSub
      · simp [h2]
      · by_cases h3 : b0.toNat + b.toNat * p.radix > 0
        · have : asU32 (b0.toNat + b.toNat * p.radix) = b0.toNat + b.toNat * p.radix :=
            asU32_of_lt (by omega)
          simp [h2, h3, this, nonZeroU32_of_pos h3]
        · simp [h2, h3]
  | inChunk rem term =>
    obtain ⟨hr0, hr1⟩ : 0 < rem ∧ rem < 2 ^ 32 := hs
    have hk : asU32 (min (rest.length + 1) rem) = min (rest.length + 1) rem := asU32_of_lt (by omega)
    simp only [Dec.onceP, Dec.once, List.isEmpty_cons, Bool.not_false, check_true, PRes.ok_bind,
      PRes.pure_eq, List.length_cons, hk]
    have c1 : decide (min (rest.length + 1) rem ≤ rest.length + 1) = true := by simp; omega
    rw [check_of c1]
    simp only [PRes.ok_bind]
    by_cases h1 : min (rest.length + 1) rem < rem
    · have c2 : decide (min (rest.length + 1) rem ≤ rem) = true := by simp; omega
      simp only [h1, if_true, check_of c2, PRes.ok_bind, nonZeroU32_of_pos (show 0 < rem - min (rest.length + 1) rem by omega)]
    · have c3 : decide (rem = min (rest.length + 1) rem) = true := by simp; omega
      simp only [h1, if_false, check_of c3, PRes.ok_bind]

theorem feedP_eq (p : Params) (hp : p.Valid) (m : Method) (fuel : Nat) (s : DecState) (input : List UInt8)
    (hs : WF32 s) (hf : input.length < fuel) :
    Dec.feedP p m fuel s input = .ok (Dec.feed p m fuel s input) := by
  induction fuel generalizing s input with
  | zero => omega
  | succ fuel ih =>
    cases input with
    | nil => simp [Dec.feedP, Dec.feed]
    | cons b rest =>
      simp only [Dec.feedP, Dec.feed, List.isEmpty_cons, Bool.false_eq_true, if_false,
        onceP_eq p hp m s b rest hs, PRes.ok_bind]
      cases ho : Dec.once p m s b rest with
      | error ee => simp
      | ok o =>
        have hsp := once_spec p m s b rest (wf_of_wf32 hs)
        rw [ho] at hsp
        obtain ⟨hc0, hc1, _, _, _⟩ := hsp
        have hwf := once_wf32 p hp hs ho
        have c1 : decide (o.consumed ≤ (b :: rest).length) = true := by simpa using hc1
        have hlen : ((b :: rest).drop o.consumed).length < fuel := by
          simp only [List.length_drop, List.length_cons] at *; omega
        simp only [check_of c1, PRes.ok_bind, ih o.st _ hwf hlen]
        cases Dec.feed p m fuel o.st (List.drop o.consumed (b :: rest)) with
        | error ee => obtain ⟨e, es⟩ := ee; simp
        | ok se => obtain ⟨s', es⟩ := se; simp

/-- **A whole `decode_borrow` / `decode_copy` call never panics.** -/
theorem feedAllP_eq (p : Params) (hp : p.Valid) (m : Method) (s : DecState) (input : List UInt8)
    (hs : WF32 s) : Dec.feedAllP p m s input = .ok (Dec.feedAll p m s input) :=
  feedP_eq p hp m _ s input hs (by omega)

/-- `feed` keeps `WF32`. -/
theorem feed_wf32 (p : Params) (hp : p.Valid) (m : Method) (fuel : Nat) (s : DecState) (input : List UInt8)
    (hs : WF32 s) {s' : DecState} {es : List Emit} (h : Dec.feed p m fuel s input = .ok (s', es)) : WF32 s' := by
  induction fuel generalizing s input es with
  | zero => simp only [Dec.feed] at h; cases h; exact hs
  | succ fuel ih =>
    cases input with
    | nil => simp only [Dec.feed] at h; cases h; exact hs
    | cons b rest =>
      simp only [Dec.feed] at h
      cases ho : Dec.once p m s b rest with
      | error ee => rw [ho] at h; cases h
      | ok o =>
        rw [ho] at h
        simp only at h
        cases hr : Dec.feed p m fuel o.st (List.drop o.consumed (b :: rest)) with
        | error ee => rw [hr] at h; cases h
        | ok se =>
          obtain ⟨s1, es1⟩ := se
          rw [hr] at h
          cases h
          exact ih o.st _ (once_wf32 p hp hs ho) hr

/-! ### the `Decoder` object -/

theorem call_wf32 (p : Params) (hp : p.Valid) (m : Method) (s : DecState) (input : List UInt8) (hs : WF32 s) :
    WF32 (Dec.call p m s input).st := by
  unfold Dec.call
  cases h : Dec.feedAll p m s input with
  | error ee => obtain ⟨e, es⟩ := ee; trivial
  | ok se => obtain ⟨s', es⟩ := se; exact feed_wf32 p hp m _ s input hs h

theorem callP_eq (p : Params) (hp : p.Valid) (m : Method) (s : DecState) (input : List UInt8) (hs : WF32 s) :
    Dec.callP p m s input = .ok (Dec.call p m s input) := by
  unfold Dec.callP Dec.call
  rw [feedAllP_eq p hp m s input hs]
  simp only [PRes.ok_bind]
  cases Dec.feedAll p m s input with
  | error ee => obtain ⟨e, es⟩ := ee; rfl
  | ok se => obtain ⟨s', es⟩ := se; rfl

theorem calls_wf32 (p : Params) (hp : p.Valid) (pieces : List (Method × List UInt8)) (s : DecState)
    (hs : WF32 s) : WF32 (Dec.calls p s pieces).st := by
  induction pieces generalizing s with
  | nil => exact hs
  | cons md rest ih =>
    obtain ⟨m, d⟩ := md
    simp only [Dec.calls]
    exact ih _ (call_wf32 p hp m s d hs)

theorem callsP_eq (p : Params) (hp : p.Valid) (pieces : List (Method × List UInt8)) (s : DecState)
    (hs : WF32 s) : Dec.callsP p s pieces = .ok (Dec.calls p s pieces) := by
  induction pieces generalizing s with
  | nil => rfl
  | cons md rest ih =>
    obtain ⟨m, d⟩ := md
    simp only [Dec.callsP, Dec.calls, callP_eq p hp m s d hs, PRes.ok_bind,
      ih _ (call_wf32 p hp m s d hs), PRes.pure_eq]

theorem sessionP_eq (p : Params) (hp : p.Valid) (pieces : List (Method × List UInt8)) :
    Dec.sessionP p pieces = .ok (Dec.session p pieces) := by
  simp only [Dec.sessionP, Dec.session, callsP_eq p hp pieces .initial trivial, PRes.ok_bind, PRes.pure_eq]

theorem calls_append (p : Params) (s : DecState) (a b : List (Method × List UInt8)) :
    Dec.calls p s (a ++ b) =
      ⟨(Dec.calls p s a).verdicts ++ (Dec.calls p (Dec.calls p s a).st b).verdicts,
       (Dec.calls p s a).emits ++ (Dec.calls p (Dec.calls p s a).st b).emits,
       (Dec.calls p (Dec.calls p s a).st b).st⟩ := by
  induction a generalizing s with
  | nil => simp [Dec.calls]
  | cons md rest ih =>
    obtain ⟨m, d⟩ := md
    simp only [List.cons_append, Dec.calls, ih, List.cons_append, List.append_assoc]

/-- Calls that all succeed are `Dec.runPieces` (the run the C01/C07 theorems are about). -/
theorem calls_ok_runPieces (p : Params) (pieces : List (Method × List UInt8)) (s : DecState) (acc : List Emit)
    (h : ∀ v ∈ (Dec.calls p s pieces).verdicts, v = none) :
    Dec.runPieces p pieces s acc =
      match Dec.finish (Dec.calls p s pieces).st with
      | .ok () => .ok (acc ++ (Dec.calls p s pieces).emits)
      | .error e => .error e := by
  induction pieces generalizing s acc with
  | nil =>
    simp only [Dec.runPieces, Dec.calls, List.append_nil]
    cases Dec.finish s with
    | error e => rfl
    | ok u => rfl
  | cons md rest ih =>
    obtain ⟨m, d⟩ := md
    simp only [Dec.calls, List.mem_cons, forall_eq_or_imp] at h
    obtain ⟨h1, h2⟩ := h
    simp only [Dec.runPieces, Dec.calls]
    unfold Dec.call at h1 h2 ⊢
    cases hf : Dec.feedAll p m s d with
    | error ee => obtain ⟨e, es⟩ := ee; rw [hf] at h1; simp at h1
    | ok se =>
      obtain ⟨s', es⟩ := se
      rw [hf] at h2
      simp only at h2 ⊢
      rw [ih s' (acc ++ es) h2]
      cases Dec.finish (Dec.calls p s' rest).st with
      | error e => rfl
      | ok u => simp [List.append_assoc]

/-- The first failing call's verdict is the verdict of `Dec.runPieces` (hence of `Dec.output`,
`decodeE`, …) on the pieces up to and including it. -/
theorem calls_first_error (p : Params) (pre : List (Method × List UInt8)) (m : Method) (d : List UInt8)
    (post : List (Method × List UInt8)) (s : DecState) (acc : List Emit)
    (hpre : ∀ v ∈ (Dec.calls p s pre).verdicts, v = none) (e : DecErr)
    (herr : (Dec.call p m (Dec.calls p s pre).st d).err = some e) :
    Dec.runPieces p (pre ++ (m, d) :: post) s acc = .error e := by
  induction pre generalizing s acc with
  | nil =>
    simp only [Dec.calls] at herr
    simp only [List.nil_append, Dec.runPieces]
    unfold Dec.call at herr
    cases hf : Dec.feedAll p m s d with
    | error ee => obtain ⟨e', es⟩ := ee; rw [hf] at herr; simp at herr; simp [herr]
    | ok se => obtain ⟨s', es⟩ := se; rw [hf] at herr; simp at herr
  | cons md rest ih =>
    obtain ⟨m0, d0⟩ := md
    simp only [Dec.calls, List.mem_cons, forall_eq_or_imp] at hpre herr
    obtain ⟨h1, h2⟩ := hpre
    simp only [List.cons_append, Dec.runPieces]
    unfold Dec.call at h1 h2 herr
    cases hf : Dec.feedAll p m0 s d0 with
    | error ee => obtain ⟨e', es⟩ := ee; rw [hf] at h1; simp at h1
    | ok se =>
      obtain ⟨s', es⟩ := se
      rw [hf] at h2 herr
      simp only at h2 herr ⊢
      exact ih s' (acc ++ es) h2 herr

end DecProof

end Woodpile.Hcobs

/-
The panic outcomes of `Woodpile/Model/HcobsP.lean` are unreachable: for every reachable
state, every input and every segmentation, the panic-aware step / call / run functions
return `.ok` of what the panic-free functions of `Model/Hcobs.lean` compute.

Also: the `Decoder` object after an error (`Dec.call`, `Dec.calls`, `Dec.session`).

Core Lean only.
-/
import Woodpile.Model.HcobsP
import Woodpile.Proofs.HcobsDec
import Woodpile.Proofs.HcobsEnc

namespace Woodpile.Hcobs
open Woodpile.Pipe

/-! ### the `PRes` monad -/

@[simp] theorem PRes.ok_bind {α β : Type} (a : α) (k : α → PRes β) : (PRes.ok a >>= k) = k a := rfl
@[simp] theorem PRes.panic_bind {α β : Type} (f : Src) (l : Nat) (k : α → PRes β) :
    (PRes.panic f l >>= k) = PRes.panic f l := rfl
@[simp] theorem PRes.pure_eq {α : Type} (a : α) : (pure a : PRes α) = PRes.ok a := rfl

theorem check_of {c : Bool} (h : c = true) (f : Src) (l : Nat) : check c f l = .ok () := by
  simp [check, h]

@[simp] theorem check_true (f : Src) (l : Nat) : check true f l = .ok () := rfl

theorem index_cons_zero (b : UInt8) (t : List UInt8) (f : Src) (l : Nat) : index (b :: t) 0 f l = .ok b := rfl

theorem asU32_of_lt {n : Nat} (h : n < 2 ^ 32) : asU32 n = n := Nat.mod_eq_of_lt h

theorem nonZeroU32_of_pos {n : Nat} (h : 0 < n) (l : Nat) : nonZeroU32 n l = .ok n := by
  unfold nonZeroU32; rw [if_neg (by omega)]

/-! ### Decoder: one step, one call -/

namespace DecProof

theorem valid_usize (p : Params) (hp : p.Valid) : 255 + 255 * p.radix < USIZE := by
  obtain ⟨_, _, _, _, _, h6⟩ := hp
  have : 255 * p.radix ≤ 255 * 253 := Nat.mul_le_mul_left _ h6
  unfold USIZE; omega

/-- **One decoder step never panics**: in a state with a representable `remaining`
(`WF32`; every reachable state is one, `reachable_wf32`), on any non-empty input, the
panic-aware step is the panic-free step. -/
theorem onceP_eq (p : Params) (hp : p.Valid) (m : Method) (s : DecState) (b : UInt8) (rest : List UInt8)
    (hs : WF32 s) : Dec.onceP p m s (b :: rest) = .ok (Dec.once p m s b rest) := by
  have hsub := valid_maxSub_lt p hp
  have hus := valid_usize p hp
  have hb : b.toNat < 256 := UInt8.toNat_lt b
  have hinit : p.maxInit < 2 ^ 32 := by
    obtain ⟨_, h2, _, _, _, h6⟩ := hp; omega
  cases s with
  | initial =>
    simp only [Dec.onceP, Dec.once, List.isEmpty_cons, Bool.not_false, check_true, PRes.ok_bind,
      index_cons_zero, PRes.pure_eq]
    by_cases h1 : b.toNat > p.maxInit
    · simp [h1]
    · by_cases h2 : b.toNat > 0
      · have : asU32 b.toNat = b.toNat := asU32_of_lt (by omega)
        simp [h1, h2, this, nonZeroU32_of_pos h2]
      · simp [h1, h2]
  | beforeChunk ins =>
    simp only [Dec.onceP, Dec.once, List.isEmpty_cons, Bool.not_false, check_true, PRes.ok_bind,
      index_cons_zero, PRes.pure_eq]
    by_cases h1 : b.toNat ≥ p.radix <;> simp [h1]
  | midHeader b0 =>
    have hb0 : b0.toNat < 256 := UInt8.toNat_lt b0
    have hmul : b.toNat * p.radix ≤ 255 * p.radix := Nat.mul_le_mul_right _ (by omega)
    simp only [Dec.onceP, Dec.once, List.isEmpty_cons, Bool.not_false, check_true, PRes.ok_bind,
      index_cons_zero, PRes.pure_eq]
    by_cases h1 : b.toNat ≥ p.radix
    · simp [h1]
    · have c1 : decide (b.toNat * p.radix < USIZE) = true := by simp; omega
      have c2 : decide (b0.toNat + b.toNat * p.radix < USIZE) = true := by simp; omega
      simp only [h1, if_false, check_of c1, check_of c2, PRes.ok_bind]
      by_cases h2 : b0.toNat + b.toNat * p.radix > p.maxSub
      · simp [h2]
      · by_cases h3 : b0.toNat + b.toNat * p.radix > 0
        · have : asU32 (b0.toNat + b.toNat * p.radix) = b0.toNat + b.toNat * p.radix :=
            asU32_of_lt (by omega)
          simp [h2, h3, this, nonZeroU32_of_pos h3]
        · simp [h2, h3]
  | inChunk rem term =>
    obtain ⟨hr0, hr1⟩ : 0 < rem ∧ rem < 2 ^ 32 := hs
    have hk : asU32 (min (rest.length + 1) rem) = min (rest.length + 1) rem := asU32_of_lt (by omega)
    simp only [Dec.onceP, Dec.once, List.isEmpty_cons, Bool.not_false, check_true, PRes.ok_bind,
      PRes.pure_eq, List.length_cons, hk]
    have c1 : decide (min (rest.length + 1) rem ≤ rest.length + 1) = true := by simp; omega
    rw [check_of c1]
    simp only [PRes.ok_bind]
    by_cases h1 : min (rest.length + 1) rem < rem
    · have c2 : decide (min (rest.length + 1) rem ≤ rem) = true := by simp; omega
      simp only [h1, if_true, check_of c2, PRes.ok_bind, nonZeroU32_of_pos (show 0 < rem - min (rest.length + 1) rem by omega)]
    · have c3 : decide (rem = min (rest.length + 1) rem) = true := by simp; omega
      simp only [h1, if_false, check_of c3, PRes.ok_bind]

theorem feedP_eq (p : Params) (hp : p.Valid) (m : Method) (fuel : Nat) (s : DecState) (input : List UInt8)
    (hs : WF32 s) (hf : input.length < fuel) :
    Dec.feedP p m fuel s input = .ok (Dec.feed p m fuel s input) := by
  induction fuel generalizing s input with
  | zero => omega
  | succ fuel ih =>
    cases input with
    | nil => simp [Dec.feedP, Dec.feed]
    | cons b rest =>
      simp only [Dec.feedP, Dec.feed, List.isEmpty_cons, Bool.false_eq_true, if_false,
        onceP_eq p hp m s b rest hs, PRes.ok_bind]
      cases ho : Dec.once p m s b rest with
      | error ee => simp
      | ok o =>
        have hsp := once_spec p m s b rest (wf_of_wf32 hs)
        rw [ho] at hsp
        obtain ⟨hc0, hc1, _, _, _⟩ := hsp
        have hwf := once_wf32 p hp hs ho
        have c1 : decide (o.consumed ≤ (b :: rest).length) = true := by simpa using hc1
        have hlen : ((b :: rest).drop o.consumed).length < fuel := by
          simp only [List.length_drop, List.length_cons] at *; omega
        simp only [check_of c1, PRes.ok_bind, ih o.st _ hwf hlen]
        cases Dec.feed p m fuel o.st (List.drop o.consumed (b :: rest)) with
        | error ee => obtain ⟨e, es⟩ := ee; simp
        | ok se => obtain ⟨s', es⟩ := se; simp

/-- **A whole `decode_borrow` / `decode_copy` call never panics.** -/
theorem feedAllP_eq (p : Params) (hp : p.Valid) (m : Method) (s : DecState) (input : List UInt8)
    (hs : WF32 s) : Dec.feedAllP p m s input = .ok (Dec.feedAll p m s input) :=
  feedP_eq p hp m _ s input hs (by omega)

/-- `feed` keeps `WF32`. -/
theorem feed_wf32 (p : Params) (hp : p.Valid) (m : Method) (fuel : Nat) (s : DecState) (input : List UInt8)
    (hs : WF32 s) {s' : DecState} {es : List Emit} (h : Dec.feed p m fuel s input = .ok (s', es)) : WF32 s' := by
  induction fuel generalizing s input es with
  | zero => simp only [Dec.feed] at h; cases h; exact hs
  | succ fuel ih =>
    cases input with
    | nil => simp only [Dec.feed] at h; cases h; exact hs
    | cons b rest =>
      simp only [Dec.feed] at h
      cases ho : Dec.once p m s b rest with
      | error ee => rw [ho] at h; cases h
      | ok o =>
        rw [ho] at h
        simp only at h
        cases hr : Dec.feed p m fuel o.st (List.drop o.consumed (b :: rest)) with
        | error ee => rw [hr] at h; cases h
        | ok se =>
          obtain ⟨s1, es1⟩ := se
          rw [hr] at h
          cases h
          exact ih o.st _ (once_wf32 p hp hs ho) hr

/-! ### the `Decoder` object -/

theorem call_wf32 (p : Params) (hp : p.Valid) (m : Method) (s : DecState) (input : List UInt8) (hs : WF32 s) :
    WF32 (Dec.call p m s input).st := by
  unfold Dec.call
  cases h : Dec.feedAll p m s input with
  | error ee => obtain ⟨e, es⟩ := ee; trivial
  | ok se => obtain ⟨s', es⟩ := se; exact feed_wf32 p hp m _ s input hs h

theorem callP_eq (p : Params) (hp : p.Valid) (m : Method) (s : DecState) (input : List UInt8) (hs : WF32 s) :
    Dec.callP p m s input = .ok (Dec.call p m s input) := by
  unfold Dec.callP Dec.call
  rw [feedAllP_eq p hp m s input hs]
  simp only [PRes.ok_bind]
  cases Dec.feedAll p m s input with
  | error ee => obtain ⟨e, es⟩ := ee; rfl
  | ok se => obtain ⟨s', es⟩ := se; rfl

theorem calls_wf32 (p : Params) (hp : p.Valid) (pieces : List (Method × List UInt8)) (s : DecState)
    (hs : WF32 s) : WF32 (Dec.calls p s pieces).st := by
  induction pieces generalizing s with
  | nil => exact hs
  | cons md rest ih =>
    obtain ⟨m, d⟩ := md
    simp only [Dec.calls]
    exact ih _ (call_wf32 p hp m s d hs)

theorem callsP_eq (p : Params) (hp : p.Valid) (pieces : List (Method × List UInt8)) (s : DecState)
    (hs : WF32 s) : Dec.callsP p s pieces = .ok (Dec.calls p s pieces) := by
  induction pieces generalizing s with
  | nil => rfl
  | cons md rest ih =>
    obtain ⟨m, d⟩ := md
    simp only [Dec.callsP, Dec.calls, callP_eq p hp m s d hs, PRes.ok_bind,
      ih _ (call_wf32 p hp m s d hs), PRes.pure_eq]

theorem sessionP_eq (p : Params) (hp : p.Valid) (pieces : List (Method × List UInt8)) :
    Dec.sessionP p pieces = .ok (Dec.session p pieces) := by
  simp only [Dec.sessionP, Dec.session, callsP_eq p hp pieces .initial trivial, PRes.ok_bind, PRes.pure_eq]

theorem calls_append (p : Params) (s : DecState) (a b : List (Method × List UInt8)) :
    Dec.calls p s (a ++ b) =
      ⟨(Dec.calls p s a).verdicts ++ (Dec.calls p (Dec.calls p s a).st b).verdicts,
       (Dec.calls p s a).emits ++ (Dec.calls p (Dec.calls p s a).st b).emits,
       (Dec.calls p (Dec.calls p s a).st b).st⟩ := by
  induction a generalizing s with
  | nil => simp [Dec.calls]
  | cons md rest ih =>
    obtain ⟨m, d⟩ := md
    simp only [List.cons_append, Dec.calls, ih, List.cons_append, List.append_assoc]

/-- Calls that all succeed are `Dec.runPieces` (the run the C01/C07 theorems are about). -/
theorem calls_ok_runPieces (p : Params) (pieces : List (Method × List UInt8)) (s : DecState) (acc : List Emit)
    (h : ∀ v ∈ (Dec.calls p s pieces).verdicts, v = none) :
    Dec.runPieces p pieces s acc =
      match Dec.finish (Dec.calls p s pieces).st with
      | .ok () => .ok (acc ++ (Dec.calls p s pieces).emits)
      | .error e => .error e := by
  induction pieces generalizing s acc with
  | nil =>
    simp only [Dec.runPieces, Dec.calls, List.append_nil]
    cases Dec.finish s with
    | error e => rfl
    | ok u => rfl
  | cons md rest ih =>
    obtain ⟨m, d⟩ := md
    simp only [Dec.calls, List.mem_cons, forall_eq_or_imp] at h
    obtain ⟨h1, h2⟩ := h
    simp only [Dec.runPieces, Dec.calls]
    unfold Dec.call at h1 h2 ⊢
    cases hf : Dec.feedAll p m s d with
    | error ee => obtain ⟨e, es⟩ := ee; rw [hf] at h1; simp at h1
    | ok se =>
      obtain ⟨s', es⟩ := se
      rw [hf] at h2
      simp only at h2 ⊢
      rw [ih s' (acc ++ es) h2]
      cases Dec.finish (Dec.calls p s' rest).st with
      | error e => rfl
      | ok u => simp [List.append_assoc]

/-- The first failing call's verdict is the verdict of `Dec.runPieces` (hence of `Dec.output`,
`decodeE`, …) on the pieces up to and including it. -/
theorem calls_first_error (p : Params) (pre : List (Method × List UInt8)) (m : Method) (d : List UInt8)
    (post : List (Method × List UInt8)) (s : DecState) (acc : List Emit)
    (hpre : ∀ v ∈ (Dec.calls p s pre).verdicts, v = none) (e : DecErr)
    (herr : (Dec.call p m (Dec.calls p s pre).st d).err = some e) :
    Dec.runPieces p (pre ++ (m, d) :: post) s acc = .error e := by
  induction pre generalizing s acc with
  | nil =>
    simp only [Dec.calls] at herr
    simp only [List.nil_append, Dec.runPieces]
    unfold Dec.call at herr
    cases hf : Dec.feedAll p m s d with
    | error ee => obtain ⟨e', es⟩ := ee; rw [hf] at herr; simp at herr; simp [herr]
    | ok se => obtain ⟨s', es⟩ := se; rw [hf] at herr; simp at herr
  | cons md rest ih =>
    obtain ⟨m0, d0⟩ := md
    simp only [Dec.calls, List.mem_cons, forall_eq_or_imp] at hpre herr
    obtain ⟨h1, h2⟩ := hpre
    simp only [List.cons_append, Dec.runPieces]
    unfold Dec.call at h1 h2 herr
    cases hf : Dec.feedAll p m0 s d0 with
    | error ee => obtain ⟨e', es⟩ := ee; rw [hf] at h1; simp at h1
    | ok se =>
      obtain ⟨s', es⟩ := se
      rw [hf] at h2 herr
      simp only at h2 herr ⊢
      exact ih s' (acc ++ es) h2 herr

/-! ### what a failed call leaves in the iovec -/

/-- One input byte; the output is reported also when the step fails (`BeforeChunk::decode`
pushes the owed stuff sequence before it validates the header byte). -/
def stepBE (p : Params) (s : DecState) (b : UInt8) : List UInt8 × Except DecErr DecState :=
  match s with
  | .beforeChunk ins =>
    (if ins then [FE, FD] else [],
      if b.toNat ≥ p.radix then .error (.invalidHeaderByte false b) else .ok (.midHeader b))
  | _ =>
    match stepB p s b with
    | .error e => ([], .error e)
    | .ok (s', o) => (o, .ok s')

/-- Byte-at-a-time run that keeps the output produced before (and at) the error point. -/
def foldBE (p : Params) : DecState → List UInt8 → List UInt8 × Except DecErr DecState
  | s, [] => ([], .ok s)
  | s, b :: rest =>
    match stepBE p s b with
    | (o, .error e) => (o, .error e)
    | (o, .ok s') => (o ++ (foldBE p s' rest).1, (foldBE p s' rest).2)

/-- sequencing for `foldBE` results -/
def thenE (r : List UInt8 × Except DecErr DecState) (k : DecState → List UInt8 × Except DecErr DecState) :
    List UInt8 × Except DecErr DecState :=
  match r with
  | (o, .error e) => (o, .error e)
  | (o, .ok s') => (o ++ (k s').1, (k s').2)

theorem foldBE_cons (p : Params) (s : DecState) (b : UInt8) (rest : List UInt8) :
    foldBE p s (b :: rest) = thenE (stepBE p s b) (fun s' => foldBE p s' rest) := by
  simp only [foldBE, thenE]

theorem thenE_assoc (r k1 k2) : thenE (thenE r k1) k2 = thenE r (fun s => thenE (k1 s) k2) := by
  obtain ⟨o, r⟩ := r
  cases r with
  | error e => rfl
  | ok s =>
    simp only [thenE]
    cases h1 : k1 s with
    | mk o1 r1 =>
      cases r1 with
      | error e => rfl
      | ok s1 =>
        simp only
        cases h2 : k2 s1 with
        | mk o2 r2 => cases r2 <;> simp [List.append_assoc]

theorem foldBE_append (p : Params) (s : DecState) (a b : List UInt8) :
    foldBE p s (a ++ b) = thenE (foldBE p s a) (fun s' => foldBE p s' b) := by
  induction a generalizing s with
  | nil =>
    simp only [List.nil_append, foldBE, thenE, List.nil_append]
  | cons x t ih =>
    simp only [List.cons_append, foldBE_cons, thenE_assoc]
    congr 1
    funext s'
    exact ih s'

theorem foldBE_inChunk (p : Params) (rem : Nat) (term : Bool) (inp : List UInt8) (hrem : 0 < rem) :
    foldBE p (.inChunk rem term) inp =
      thenE (inp.take (min inp.length rem),
          .ok (if min inp.length rem < rem then DecState.inChunk (rem - min inp.length rem) term
               else DecState.beforeChunk term))
        (fun s' => foldBE p s' (inp.drop (min inp.length rem))) := by
  induction inp generalizing rem with
  | nil =>
    have : min ([] : List UInt8).length rem = 0 := by simp
    simp [hrem, foldBE, thenE]
  | cons b t ih =>
    by_cases h1 : 1 < rem
    · have ih' := ih (rem - 1) (by omega)
      have hk : min (b :: t).length rem = min t.length (rem - 1) + 1 := by
        simp only [List.length_cons]; omega
      rw [foldBE_cons, hk]
      simp only [stepBE, stepB, if_pos h1, thenE, List.take_succ_cons, List.drop_succ_cons]
      rw [ih']
      have hc : (min t.length (rem - 1) + 1 < rem) = (min t.length (rem - 1) < rem - 1) := by
        apply propext; omega
      have hs : rem - (min t.length (rem - 1) + 1) = rem - 1 - min t.length (rem - 1) := by omega
      simp only [thenE, hc, hs]
      cases foldBE p (if min t.length (rem - 1) < rem - 1 then DecState.inChunk (rem - 1 - min t.length (rem - 1)) term
          else DecState.beforeChunk term) (List.drop (min t.length (rem - 1)) t) with
      | mk o r => cases r <;> simp
    · have hr : rem = 1 := by omega
      subst hr
      have hk : min (b :: t).length 1 = 1 := by simp only [List.length_cons]; omega
      rw [foldBE_cons, hk]
      simp [stepBE, stepB, thenE]

/-- A call's result with the emits of both outcomes turned into bytes. -/
def projE (r : Except (DecErr × List Emit) (DecState × List Emit)) : List UInt8 × Except DecErr DecState :=
  match r with
  | .error (e, es) => (emitBytes es, .error e)
  | .ok (s, es) => (emitBytes es, .ok s)

theorem once_specE (p : Params) (m : Method) (s : DecState) (b : UInt8) (rest : List UInt8) (hs : WF s) :
    match Dec.once p m s b rest with
    | .error (e, es) => foldBE p s (b :: rest) = (emitBytes es, .error e)
    | .ok o => foldBE p s (b :: rest) =
        thenE (emitBytes o.emits, .ok o.st) (fun s' => foldBE p s' ((b :: rest).drop o.consumed)) := by
  cases s with
  | initial =>
    simp only [Dec.once, foldBE_cons, stepBE, stepB]
    by_cases h1 : b.toNat > p.maxInit
    · simp [h1, thenE, emitBytes, opsBytes]
    · by_cases h2 : b.toNat > 0 <;> simp [h1, h2, thenE, emitBytes, opsBytes]
  | beforeChunk ins =>
    simp only [Dec.once, foldBE_cons, stepBE]
    by_cases h1 : b.toNat ≥ p.radix
    · cases ins <;> simp [h1, thenE, emitBytes, opsBytes]
    · cases ins <;> simp [h1, thenE, emitBytes, opsBytes]
  | midHeader b0 =>
    simp only [Dec.once, foldBE_cons, stepBE, stepB]
    by_cases h1 : b.toNat ≥ p.radix
    · simp [h1, thenE, emitBytes, opsBytes]
    · by_cases h2 : b0.toNat + b.toNat * p.radix > p.maxSub
      · simp [h1, h2, thenE, emitBytes, opsBytes]
      · by_cases h3 : b0.toNat + b.toNat * p.radix > 0 <;> simp [h1, h2, h3, thenE, emitBytes, opsBytes]
  | inChunk rem term =>
    have hrem : 0 < rem := hs
    simp only [Dec.once]
    rw [foldBE_inChunk p rem term (b :: rest) hrem]
    simp [emitBytes, opsBytes]

theorem feed_eq_foldBE (p : Params) (m : Method) (fuel : Nat) (s : DecState) (input : List UInt8)
    (hs : WF s) (hf : input.length < fuel) :
    projE (Dec.feed p m fuel s input) = foldBE p s input := by
  induction fuel generalizing s input with
  | zero => omega
  | succ fuel ih =>
    cases input with
    | nil => simp [Dec.feed, projE, foldBE]
    | cons b rest =>
      have hsp := once_specE p m s b rest hs
      have hsp0 := once_spec p m s b rest hs
      cases ho : Dec.once p m s b rest with
      | error ee =>
        obtain ⟨e, es⟩ := ee
        rw [ho] at hsp
        simp only at hsp
        simp only [Dec.feed, ho, projE, hsp]
      | ok o =>
        rw [ho] at hsp hsp0
        simp only at hsp hsp0
        obtain ⟨hc0, hc1, hwf, _, _⟩ := hsp0
        have hlen : ((b :: rest).drop o.consumed).length < fuel := by
          simp only [List.length_drop, List.length_cons] at *; omega
        have ih1 := ih o.st ((b :: rest).drop o.consumed) hwf hlen
        simp only [Dec.feed, ho]
        rw [hsp]
        simp only [thenE]
        rw [← ih1]
        cases hr : Dec.feed p m fuel o.st (List.drop o.consumed (b :: rest)) with
        | error ee => obtain ⟨e, es⟩ := ee; simp [projE, emitBytes_append]
        | ok se => obtain ⟨s1, es1⟩ := se; simp [projE, emitBytes_append]

/-- Successful calls, then one more call (failing or not): the bytes pushed so far and the
outcome are the byte-at-a-time run over the concatenated input. -/
theorem calls_then_call_foldBE (p : Params) (hp : p.Valid) (pre : List (Method × List UInt8)) (m : Method)
    (d : List UInt8) (s : DecState) (hs : WF32 s)
    (hpre : ∀ v ∈ (Dec.calls p s pre).verdicts, v = none) :
    (emitBytes ((Dec.calls p s pre).emits ++ (Dec.call p m (Dec.calls p s pre).st d).emits),
      (match (Dec.call p m (Dec.calls p s pre).st d).err with
       | some e => Except.error e
       | none => Except.ok (Dec.call p m (Dec.calls p s pre).st d).st))
      = foldBE p s ((pre.map (·.2)).flatten ++ d) := by
  induction pre generalizing s with
  | nil =>
    simp only [Dec.calls, List.map_nil, List.flatten_nil, List.nil_append]
    have := feed_eq_foldBE p m (d.length + 1) s d (wf_of_wf32 hs) (by omega)
    rw [← this]
    unfold Dec.call Dec.feedAll
    cases Dec.feed p m (d.length + 1) s d with
    | error ee => obtain ⟨e, es⟩ := ee; rfl
    | ok se => obtain ⟨s', es⟩ := se; rfl
  | cons md rest ih =>
    obtain ⟨m0, d0⟩ := md
    simp only [Dec.calls, List.mem_cons, forall_eq_or_imp] at hpre
    obtain ⟨h1, h2⟩ := hpre
    have hf0 := feed_eq_foldBE p m0 (d0.length + 1) s d0 (wf_of_wf32 hs) (by omega)
    simp only [Dec.calls, List.map_cons, List.flatten_cons, List.append_assoc]
    rw [foldBE_append, ← hf0]
    have hwf := call_wf32 p hp m0 s d0 hs
    have ih' := ih (Dec.call p m0 s d0).st hwf h2
    unfold Dec.call Dec.feedAll at h1 ih' ⊢
    cases hfe : Dec.feed p m0 (d0.length + 1) s d0 with
    | error ee => obtain ⟨e, es⟩ := ee; rw [hfe] at h1; simp at h1
    | ok se =>
      obtain ⟨s', es⟩ := se
      rw [hfe] at ih'
      simp only at ih' ⊢
      simp only [projE, thenE, ← ih', emitBytes_append]

end DecProof

/-! ### Encoder -/

namespace EncProof

theorem runQ_eq_runE (q : Pipe) (es : List Emit) : Enc.runQ q es = runE q es := rfl

theorem count_hole_total (q : Pipe) (id : Nat) :
    q.total.cells.count (Cell.hole id) = q.cells.count (Cell.hole id) := by
  simp [Pipe.total, List.count_append, count_hole_map_byte]

theorem run_total (q : Pipe) (ops : List Op) : (q.run ops).total = q.total.run ops := by
  induction ops generalizing q with
  | nil => rfl
  | cons o t ih =>
    simp only [Pipe.run, List.foldl_cons] at ih ⊢
    rw [ih, apply_total]

theorem runE_total (q : Pipe) (es : List Emit) : (runE q es).total = runE q.total es := run_total q _

/-- Append-only emits do not touch the placeholders. -/
theorem count_hole_runE_appends (q : Pipe) (es : List Emit) (h : ∀ e ∈ es, Op.isAppend e.op = true) (id : Nat) :
    (runE q es).cells.count (Cell.hole id) = q.cells.count (Cell.hole id) := by
  have hall : (es.map Emit.op).all Op.isAppend = true := by
    simp only [List.all_map, List.all_eq_true]
    exact h
  unfold runE
  rw [run_appendOnly q _ hall]
  simp [List.count_append, count_hole_map_byte]

theorem encodeHeaderP_ok (p : Params) (s : EncState) (q : Pipe) (h : HeaderAsserts p s s.cur)
    (hc : q.cells.count (Cell.hole s.backref) = s.brLen) :
    Enc.encodeHeaderP p s q = .ok (Enc.closeHeader p s) := by
  obtain ⟨h1, h2, h3, h4, h5, h6⟩ := h
  have c1 : decide (s.cur < p.radix * p.radix) = true := by simpa using h1
  have c2 : decide (1 ≤ s.brLen ∧ s.brLen ≤ 2) = true := by simp; omega
  have c4 : decide (q.cells.count (Cell.hole s.backref) = s.brLen) = true := by simpa using hc
  simp only [Enc.encodeHeaderP, check_of c1, check_of c2, check_of c4, PRes.ok_bind, PRes.pure_eq,
    Enc.closeHeader, header]
  have hb : s.brLen = 1 ∨ s.brLen = 2 := by omega
  rcases hb with hb | hb
  · have hz : s.cur / p.radix = 0 := h4 hb
    simp [hb, index, hz, check]
  · simp [hb, index, check]

theorem flushIfMidP_ok (s : EncState)
    (h : s.mid = true → s.cur + 1 < USIZE ∧ s.cur + 1 < s.maxChunk) :
    Enc.flushIfMidP s = .ok (flushS s, flushE s) := by
  unfold Enc.flushIfMidP flushS flushE
  cases hm : s.mid with
  | false => simp
  | true =>
    obtain ⟨a, b⟩ := h hm
    have c1 : decide (s.cur + 1 < USIZE) = true := by simpa using a
    have c2 : decide (s.cur + 1 ≤ s.maxChunk) = true := by simp; omega
    have c3 : decide (s.cur + 1 < s.maxChunk) = true := by simpa using b
    simp [Enc.flushP, check_of c1, check_of c2, check_of c3]

theorem flushAtEndP_ok (s : EncState)
    (h : s.mid = true → s.cur + 1 < USIZE ∧ s.cur + 1 ≤ s.maxChunk) :
    Enc.flushAtEndP s = .ok (flushS s, flushE s) := by
  unfold Enc.flushAtEndP flushS flushE
  cases hm : s.mid with
  | false => simp
  | true =>
    obtain ⟨a, b⟩ := h hm
    have c1 : decide (s.cur + 1 < USIZE) = true := by simpa using a
    have c2 : decide (s.cur + 1 ≤ s.maxChunk) = true := by simpa using b
    simp [Enc.flushP, check_of c1, check_of c2]

theorem writeP_ok (s : EncState) (m : Method) (outer : Nat) (bs : List UInt8) (h1 : bs.length ≤ outer)
    (h2 : s.cur + bs.length < USIZE) (h3 : s.cur + bs.length ≤ s.maxChunk) :
    Enc.writeP s m outer bs = .ok ({ s with cur := s.cur + bs.length }, writeE m bs.length bs) := by
  have c1 : decide (bs.length ≤ outer) = true := by simpa using h1
  have c2 : decide (s.cur + bs.length < USIZE) = true := by simpa using h2
  have c3 : decide (s.cur + bs.length ≤ s.maxChunk) = true := by simpa using h3
  unfold Enc.writeP writeE
  simp only [check_of c1, PRes.ok_bind]
  cases bs with
  | nil => simp
  | cons b t =>
    simp only [List.isEmpty_cons, Bool.false_eq_true, if_false, check_of c2, check_of c3, PRes.ok_bind,
      PRes.pure_eq]
    simp

theorem closeP_ok (p : Params) (s : EncState) (nid : Nat) (q : Pipe) (pre : List Emit) (c : Nat)
    (h : Enc.encodeHeaderP p s (Enc.runQ q pre) = .ok (Enc.closeHeader p s)) :
    Enc.closeP p s nid q pre c = .ok ⟨subState p nid, c, pre ++ closeE p s, nid + 1⟩ := by
  simp [Enc.closeP, h, Enc.newSubsequent, subState, closeE]

theorem headerAsserts_congr (p : Params) {s s' : EncState} {n : Nat} (h : HeaderAsserts p s n)
    (hb : s'.brLen = s.brLen) : HeaderAsserts p s' n := by
  unfold HeaderAsserts at h ⊢
  rw [hb]; exact h

theorem valid_max_usize (p : Params) (hp : p.Valid) : p.maxInit + 2 < USIZE ∧ p.maxSub + 2 < USIZE := by
  have := DecProof.valid_maxSub_lt p hp
  obtain ⟨_, h2, _, _, _, h6⟩ := hp
  unfold USIZE
  omega

/-- **One `consume_once` never panics**: in every state the encoder can be in (`Reachable`,
whatever has been drained from the output: `q.total` is the pipe with the drained bytes put
back), on every non-empty input, the panic-aware step is the panic-free step. -/
theorem consumeOnceP_eq (p : Params) (hp : p.Valid) {s : EncState} {nid : Nat} {q : Pipe}
    (h : Reachable p s nid q.total) (m : Method) (input : List UInt8) (hne : input ≠ []) :
    Enc.consumeOnceP p s nid m q input = .ok (Enc.consumeOnce p s nid m input) := by
  obtain ⟨a1, a2, a3, a4, a5, a6⟩ := once_asserts p hp h m input hne
  obtain ⟨_, _, _, _, _, _, _, _, hmaxc⟩ := reachable_shape p hp h
  obtain ⟨hu1, hu2⟩ := valid_max_usize p hp
  have hmu : s.maxChunk + 2 < USIZE := by rcases hmaxc with e | e <;> rw [e] <;> assumption
  have hfbr : (flushS s).brLen = s.brLen ∧ (flushS s).backref = s.backref := by
    unfold flushS; split <;> exact ⟨rfl, rfl⟩
  have hfmax : (flushS s).maxChunk = s.maxChunk := by unfold flushS; split <;> rfl
  have hfmid : (flushS s).mid = false := by
    unfold flushS; split
    · rfl
    · rename_i hm; simpa using hm
  have hfcur : (flushS s).cur = s.cur + (if s.mid then 1 else 0) := by
    unfold flushS; split <;> simp_all
  obtain ⟨b, t, rfl⟩ : ∃ b t, input = b :: t := by
    cases input with
    | nil => exact absurd rfl hne
    | cons b t => exact ⟨b, t, rfl⟩
  have c1 : decide (s.cur + (if s.mid then 1 else 0) < USIZE) = true := by
    simp only [decide_eq_true_eq]; split <;> omega
  have c2 : decide (s.cur + (if s.mid then 1 else 0) < s.maxChunk) = true := by simpa using a1
  have hq : q.cells.count (Cell.hole s.backref) = s.brLen := by
    obtain ⟨done, body, hqt, _⟩ := reachable_shape p hp h
    rw [← count_hole_total, hqt]; exact count_hole_pipeOf _ _ _ _
  have hcount : ∀ pre : List Emit, (∀ e ∈ pre, Op.isAppend e.op = true) →
      (Enc.runQ q pre).cells.count (Cell.hole s.backref) = s.brLen := by
    intro pre hpre
    rw [runQ_eq_runE, count_hole_runE_appends q pre hpre, hq]
  unfold Enc.consumeOnceP
  simp only [List.isEmpty_cons, Bool.not_false, check_true, check_of c1, check_of c2, PRes.ok_bind,
    index_cons_zero]
  by_cases hA : s.mid ∧ (b :: t).head? = some FD
  · have hA' : s.mid = true ∧ b = FD := by simpa using hA
    rw [if_pos hA', consumeOnce_mid p s nid m _ hA]
    obtain ⟨_, hn2, _⟩ := a3 s.cur (by simp [closeCur, hA])
    exact closeP_ok p s nid q [] 1 (encodeHeaderP_ok p s _ hn2 (hcount [] (by simp)))
  · have hA' : ¬ (s.mid = true ∧ b = FD) := by simpa using hA
    obtain ⟨b1, b2, b3, b4⟩ := a2 hA
    rw [if_neg hA']
    have c3 : decide (s.cur < s.maxChunk) = true := by simpa using b1
    have hflush := flushIfMidP_ok s (by
      intro hm; rw [hfcur, hm] at b3; simp only [if_true] at b3; constructor <;> omega)
    simp only [check_of c3, PRes.ok_bind, hflush]
    have c4 : decide ((flushS s).cur ≤ (flushS s).maxChunk) = true := by rw [hfmax]; simpa using b2
    simp only [check_of c4, PRes.ok_bind]
    rw [← hfmax] at b4
    have c5 : (!((b :: t).take ((flushS s).maxChunk - (flushS s).cur)).isEmpty) = true := by
      cases hw : (b :: t).take ((flushS s).maxChunk - (flushS s).cur) with
      | nil => exact absurd hw b4
      | cons x y => rfl
    simp only [check_of c5, PRes.ok_bind]
    have happ : ∀ n bs, ∀ e ∈ flushE s ++ writeE m n bs, Op.isAppend e.op = true := by
      intro n bs e he
      rcases List.mem_append.mp he with he | he
      · exact flushE_isAppend s e he
      · exact writeE_isAppend m n bs e he
    cases hfs : findStuff ((b :: t).take ((flushS s).maxChunk - (flushS s).cur)) with
    | some i =>
      have hi := (Spec.findStuff_some hfs).1
      have hwl : ((b :: t).take ((flushS s).maxChunk - (flushS s).cur)).length ≤ (b :: t).length := by
        rw [List.length_take]; omega
      have hwl2 : ((b :: t).take ((flushS s).maxChunk - (flushS s).cur)).length
          ≤ (flushS s).maxChunk - (flushS s).cur := by
        rw [List.length_take]; omega
      obtain ⟨hn1, hn2, _⟩ := a3 ((flushS s).cur + i) (by simp only [closeCur, if_neg hA, hfs])
      have hlen : (((b :: t).take ((flushS s).maxChunk - (flushS s).cur)).take i).length = i := by
        rw [List.length_take]; omega
      have c6 : decide (i + 2 < USIZE) = true := by
        simp only [decide_eq_true_eq]; rw [hfmax] at hwl2; omega
      have hw := writeP_ok (flushS s) m (b :: t).length
        (((b :: t).take ((flushS s).maxChunk - (flushS s).cur)).take i)
        (by rw [hlen]; omega) (by rw [hlen]; omega) (by rw [hlen, hfmax]; omega)
      rw [hlen] at hw
      simp only [check_of c6, PRes.ok_bind, hw]
      rw [consumeOnce_stuff p s nid m _ hA hfs]
      have hcl := closeP_ok p { flushS s with cur := (flushS s).cur + i } nid q
        (flushE s ++ writeE m i (((b :: t).take ((flushS s).maxChunk - (flushS s).cur)).take i)) (i + 2)
        (encodeHeaderP_ok p _ _ (headerAsserts_congr p hn2 hfbr.1)
          (by simp only; rw [hfbr.2, hfbr.1]; exact hcount _ (happ _ _)))
      rw [hcl]
    | none =>
      by_cases hfull : ((b :: t).take ((flushS s).maxChunk - (flushS s).cur)).length
          = (flushS s).maxChunk - (flushS s).cur
      · obtain ⟨hn1, hn2, _⟩ := a3 ((flushS s).cur + ((flushS s).maxChunk - (flushS s).cur))
          (by simp only [closeCur, if_neg hA, hfs, if_pos hfull])
        have hw := writeP_ok (flushS s) m (b :: t).length
          ((b :: t).take ((flushS s).maxChunk - (flushS s).cur))
          (by rw [List.length_take]; omega) (by rw [hfull]; rw [hfmax] at hn1 ⊢; omega)
          (by rw [hfull, hfmax]; rw [hfmax] at hn1; omega)
        rw [hfull] at hw
        simp only [if_pos hfull, PRes.ok_bind, hw]
        rw [consumeOnce_full p s nid m _ hA hfs hfull]
        have hcl := closeP_ok p
          { flushS s with cur := (flushS s).cur + ((flushS s).maxChunk - (flushS s).cur) } nid q
          (flushE s ++ writeE m ((flushS s).maxChunk - (flushS s).cur)
            ((b :: t).take ((flushS s).maxChunk - (flushS s).cur)))
          ((flushS s).maxChunk - (flushS s).cur)
          (encodeHeaderP_ok p _ _ (headerAsserts_congr p hn2 hfbr.1)
            (by simp only; rw [hfbr.2, hfbr.1]; exact hcount _ (happ _ _)))
        rw [hcl]
      · rw [consumeOnce_part p s nid m _ hA hfs hfull] at a4 ⊢
        simp only [if_neg hfull] at a4 ⊢
        generalize hwd : (b :: t).take ((flushS s).maxChunk - (flushS s).cur) = w at *
        have hwl : w.length ≤ (b :: t).length := by
          rw [← hwd, List.length_take]; omega
        have hwpos : 0 < w.length := List.length_pos_iff.mpr b4
        obtain ⟨x, hx⟩ : ∃ x, w.getLast? = some x := by
          cases hl : w.getLast? with
          | none => exact absurd (List.getLast?_eq_none_iff.mp hl) b4
          | some x => exact ⟨x, rfl⟩
        have hidx : index w (w.length - 1) Src.encoder 211 = .ok x := by
          unfold index
          rw [← List.getLast?_eq_getElem?, hx]
        have c6 : decide (1 ≤ w.length) = true := by simp only [decide_eq_true_eq]; omega
        simp only [check_of c6, PRes.ok_bind, hidx, hx, Option.some.injEq] at a4 ⊢
        by_cases hxe : x = FE
        · subst hxe
          simp only [beq_self_eq_true, if_true, decide_true] at a4 ⊢
          have c7 : decide (True → 1 ≤ w.length) = true := by simp only [decide_eq_true_eq]; omega
          have hlen : (w.take (w.length - 1)).length = w.length - 1 := by rw [List.length_take]; omega
          have hw := writeP_ok
            { maxChunk := (flushS s).maxChunk, cur := (flushS s).cur, mid := true,
              backref := (flushS s).backref, brLen := (flushS s).brLen } m (b :: t).length
            (w.take (w.length - 1)) (by rw [hlen]; omega) (by rw [hlen]; simp only; rw [hfmax] at a4; omega)
            (by rw [hlen]; exact a4.1)
          rw [hlen] at hw
          have c8 : decide ((flushS s).cur + (w.length - 1) + 1 < USIZE) = true := by
            simp only [decide_eq_true_eq]; rw [hfmax] at a4; omega
          have c9 : decide ((flushS s).cur + (w.length - 1) + 1 < (flushS s).maxChunk) = true := by
            simpa using a4.2
          simp only [check_of c7, PRes.ok_bind, hw, if_true, check_of c8, check_of c9, PRes.pure_eq]
        · have hb : (x == FE) = false := by simpa using hxe
          simp only [hb, Bool.false_eq_true, if_false, decide_false, hxe] at a4 ⊢
          have c7 : decide (False → 1 ≤ w.length) = true := by simp
          have hlen : (w.take w.length).length = w.length := by rw [List.length_take]; omega
          have hw := writeP_ok
            { maxChunk := (flushS s).maxChunk, cur := (flushS s).cur, mid := false,
              backref := (flushS s).backref, brLen := (flushS s).brLen } m (b :: t).length
            (w.take w.length) (by rw [hlen]; omega) (by rw [hlen]; simp only; rw [hfmax] at a4; omega)
            (by rw [hlen]; exact a4.1)
          rw [hlen] at hw
          have c8 : decide ((flushS s).cur + w.length + 0 < USIZE) = true := by
            simp only [decide_eq_true_eq]; rw [hfmax] at a4; omega
          have c9 : decide ((flushS s).cur + w.length + 0 < (flushS s).maxChunk) = true := by
            simpa using a4.2
          simp only [check_of c7, PRes.ok_bind, hw, Bool.false_eq_true, if_false, check_of c8, check_of c9,
            PRes.pure_eq]

/-- **A whole `encode_borrow` / `encode_copy` call never panics** (incl. the loop's own two
assertions), and the model's fuel is enough. -/
theorem feedP_eq (p : Params) (hp : p.Valid) (m : Method) (fuel : Nat) (s : EncState) (nid : Nat) (q : Pipe)
    (input : List UInt8) (h : Reachable p s nid q.total) (hf : input.length ≤ fuel) :
    Enc.feedP p fuel s nid m q input = .ok (Enc.feed p fuel s nid m input) := by
  induction fuel generalizing s nid q input with
  | zero =>
    have : input = [] := List.eq_nil_of_length_eq_zero (by omega)
    subst this
    simp [Enc.feedP, feed_zero]
  | succ fuel ih =>
    by_cases hne : input = []
    · subst hne; simp [Enc.feedP, feed_nil]
    · have hemp : input.isEmpty = false := by
        cases input with
        | nil => exact absurd rfl hne
        | cons b t => rfl
      obtain ⟨_, _, _, _, a5, a6⟩ := once_asserts p hp h m input hne
      have hreach := Reachable.step m input h hne
      rw [← runE_total, ← runQ_eq_runE] at hreach
      have c1 : decide ((Enc.consumeOnce p s nid m input).consumed ≤ input.length) = true := by simpa using a5
      have c2 : (decide ((Enc.consumeOnce p s nid m input).consumed > 0) ||
          (!(Enc.consumeOnce p s nid m input).st.mid && s.mid)) = true := by
        simp only [Bool.or_eq_true, decide_eq_true_eq]; left; exact a6
      have hrec := ih _ _ _ (input.drop (Enc.consumeOnce p s nid m input).consumed) hreach
        (by rw [List.length_drop]; omega)
      rw [feed_succ p fuel s nid m input hne]
      simp only [Enc.feedP, hemp, Bool.false_eq_true, if_false, consumeOnceP_eq p hp h m input hne,
        PRes.ok_bind, check_of c1, check_of c2, hrec, PRes.pure_eq]

theorem feedAllP_eq (p : Params) (hp : p.Valid) (m : Method) (s : EncState) (nid : Nat) (q : Pipe)
    (input : List UInt8) (h : Reachable p s nid q.total) :
    Enc.feedAllP p s nid m q input = .ok (Enc.feedAll p s nid m input) :=
  feedP_eq p hp m _ s nid q input h (by omega)

/-- **`terminate` never panics.** -/
theorem finishP_eq (p : Params) (hp : p.Valid) {s : EncState} {nid : Nat} {q : Pipe}
    (h : Reachable p s nid q.total) : Enc.finishP p s q = .ok (Enc.finish p s) := by
  obtain ⟨f1, f2, f3, f4⟩ := finish_asserts p hp h
  obtain ⟨_, _, _, _, _, _, _, _, hmaxc⟩ := reachable_shape p hp h
  obtain ⟨hu1, hu2⟩ := valid_max_usize p hp
  have hmu : s.maxChunk + 2 < USIZE := by rcases hmaxc with e | e <;> rw [e] <;> assumption
  have hfbr : (flushS s).brLen = s.brLen ∧ (flushS s).backref = s.backref := by
    unfold flushS; split <;> exact ⟨rfl, rfl⟩
  have hfmax : (flushS s).maxChunk = s.maxChunk := by unfold flushS; split <;> rfl
  have hfcur : (flushS s).cur = s.cur + (if s.mid then 1 else 0) := by
    unfold flushS; split <;> simp_all
  have hflush := flushAtEndP_ok s (by
    intro hm; rw [hfcur, hm] at f1; simp only [if_true] at f1; constructor <;> omega)
  have c1 : decide ((flushS s).cur < (flushS s).maxChunk) = true := by rw [hfmax]; simpa using f2
  have hcnt : (Enc.runQ q (flushE s)).cells.count (Cell.hole (flushS s).backref) = (flushS s).brLen := by
    rw [hfbr.1, hfbr.2, runQ_eq_runE, count_hole_runE_appends q _ (flushE_isAppend s), ← count_hole_total]
    exact f4
  rw [finish_eq]
  simp only [Enc.finishP, hflush, PRes.ok_bind, check_of c1,
    encodeHeaderP_ok p (flushS s) _ (headerAsserts_congr p f3 hfbr.1) hcnt, PRes.pure_eq]

theorem total_of_consumed_nil (q : Pipe) (h : q.consumed = []) : q.total = q := by
  cases q; simp_all [Pipe.total]

theorem runE_empty_total (acc : List Emit) : (runE Pipe.empty acc).total = runE Pipe.empty acc := by
  rw [runE_total, total_empty]

theorem goP_eq (p : Params) (hp : p.Valid) (pieces : List (Method × List UInt8)) (s : EncState) (nid : Nat)
    (acc : List Emit) (h : Reachable p s nid (runE Pipe.empty acc)) :
    Enc.runPiecesP.go p pieces s nid acc = .ok (Enc.runPieces.go p pieces s nid acc) := by
  induction pieces generalizing s nid acc with
  | nil =>
    have h' : Reachable p s nid (Enc.runQ Pipe.empty acc).total := by
      rw [runQ_eq_runE, runE_empty_total]; exact h
    simp only [Enc.runPiecesP.go, Enc.runPieces.go, finishP_eq p hp h', PRes.ok_bind, PRes.pure_eq]
  | cons md rest ih =>
    obtain ⟨m, d⟩ := md
    have h' : Reachable p s nid (Enc.runQ Pipe.empty acc).total := by
      rw [runQ_eq_runE, runE_empty_total]; exact h
    have hnext := feed_reachable p m (2 * d.length + 2) s nid _ d h
    rw [← runE_append] at hnext
    simp only [Enc.runPiecesP.go, Enc.runPieces.go, feedAllP_eq p hp m s nid _ d h', PRes.ok_bind]
    exact ih _ _ _ hnext

/-- **A whole encoder run never panics**: `EncoderState::new` on an empty iovec, any pieces by
any methods, `terminate`. -/
theorem runPiecesP_eq (p : Params) (hp : p.Valid) (pieces : List (Method × List UInt8)) :
    Enc.runPiecesP p pieces = .ok (Enc.runPieces p pieces) := by
  unfold Enc.runPiecesP Enc.runPieces
  exact goP_eq p hp pieces _ _ _ Reachable.init

/-- Encoder state, placeholder counter and output pipe between `consume_once` calls, with the
consumer draining the output (any number of stable bytes, at any time) in between. -/
inductive DReachable (p : Params) : EncState → Nat → Pipe → Prop
  | init : DReachable p (Enc.init p 0).1 1 (runE Pipe.empty (Enc.init p 0).2)
  | step {s : EncState} {nid : Nat} {q : Pipe} (m : Method) (input : List UInt8) :
      DReachable p s nid q → input ≠ [] →
      DReachable p (Enc.consumeOnce p s nid m input).st (Enc.consumeOnce p s nid m input).nextId
        (runE q (Enc.consumeOnce p s nid m input).emits)
  | drain {s : EncState} {nid : Nat} {q : Pipe} (k : Nat) :
      DReachable p s nid q → DReachable p s nid (q.consume k).1

/-- Draining is invisible to the encoder: with the drained bytes put back, the pipe is a
`Reachable` one. -/
theorem dreachable_total (p : Params) {s : EncState} {nid : Nat} {q : Pipe} (h : DReachable p s nid q) :
    Reachable p s nid q.total := by
  induction h with
  | init => rw [runE_empty_total]; exact Reachable.init
  | step m input _ hne ih => rw [runE_total]; exact Reachable.step m input ih hne
  | drain k _ ih => rw [consume_total]; exact ih

theorem reachable_dreachable (p : Params) {s : EncState} {nid : Nat} {q : Pipe} (h : Reachable p s nid q) :
    DReachable p s nid q := by
  induction h with
  | init => exact DReachable.init
  | step m input _ hne ih => exact DReachable.step m input ih hne

end EncProof

end Woodpile.Hcobs

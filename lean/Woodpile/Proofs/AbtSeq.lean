/-
Helper lemmas for `Props/C13Q.lean`: `AtomicBaseTime::sequence()` (program `qSeq → retSeq`, one
relaxed load of the counter) on the generic ghost layer (`Mach`), on the SC machine and on the
release/acquire view machine; `AtomicBaseTime::new()` (`SC.init` / `RA.init`).
-/
import Woodpile.Proofs.AtomicBaseTime
import Woodpile.Proofs.AbtRA

namespace Woodpile.Abt

/-! ### The program -/

/-- The whole program of `sequence()`: entered at `qSeq`, whose access is the relaxed load of
`sequence`; whatever value is fed, the call has returned it (`retSeq`, a terminal pc). -/
theorem sequence_program (chk : Nat → Nat → Bool) (th : Local) :
    (th.start .sequence).pc = .qSeq ∧
    (th.pc = .qSeq → th.next = .load .seq .rlx ∧
      ∀ val, (th.feedLoad chk val).pc = .retSeq ∧ (th.feedLoad chk val).sq = val ∧
        (th.feedLoad chk val).result = some (.seqv val) ∧ (th.feedLoad chk val).pc.terminal = true) := by
  refine ⟨rfl, ?_⟩
  intro h
  obtain ⟨pc, ub, uv, sq, bits, base⟩ := th
  simp at h; subst h
  exact ⟨rfl, fun val => ⟨rfl, rfl, rfl, rfl⟩⟩

/-- `qSeq` is the only non-terminal pc of the `sequence` program, and no other program visits it. -/
theorem opPc_sequence (op : Op) (pc : Pc) : (OpPc .sequence pc = true ↔ pc = .qSeq) ∧
    (OpPc op .qSeq = true → op = .sequence) := by
  constructor
  · cases pc <;> simp [OpPc]
  · cases op <;> simp [OpPc, Pc.inSnap]

/-- One step of the `sequence` program, whatever it is fed, ends it: it is a load (never a
lock operation, never a store), and the successor is `retSeq`. -/
theorem sequence_one_step {chk : Nat → Nat → Bool} {th th' : Local} (hpc : th.pc = .qSeq)
    (h : Local.Succ chk th th') : th'.pc = .retSeq ∧ th'.pc.terminal = true ∧ th'.result = some (.seqv th'.sq) := by
  cases h with
  | load l o val hn =>
    obtain ⟨pc, ub, uv, sq, bits, base⟩ := th
    simp at hpc; subst hpc
    exact ⟨rfl, rfl, rfl⟩
  | lock r hn => simp [Local.next, hpc] at hn
  | unit h1 h2 h3 h4 => exact absurd (by simp [Local.next, hpc]) (h1 .seq .rlx)

namespace Mach

/-! ### Completed `sequence()` calls, any machine satisfying the bookkeeping laws -/

/-- A completed `sequence()` call returned a number `n`: the caller's view of `sequence` at its
return, at least its view at the start of the call, and an index of the history. -/
theorem sequence_rec {M : Mach} {chk : Nat → Nat → Bool} {ok : M.σ → Prop} {G : Prop} {g : M.GState}
    (hI : GInv M chk ok G g) (R : CallRec) (hR : R ∈ g.done) (hop : R.op = .sequence) :
    ∃ n, R.res = .seqv n ∧ R.vStart ≤ n ∧ n = R.vRet ∧ n < (M.hist g.s).length ∧
      ∃ p, (M.hist g.s)[n]? = some p := by
  obtain ⟨h1, _, h3⟩ := (hI.recs R hR).1
  rw [hop] at h3
  cases hres : R.res <;> rw [hres] at h3 <;> simp only at h3
  rename_i n
  obtain ⟨e1, e2⟩ := h3
  exact ⟨n, rfl, by omega, e1, e2, ⟨_, List.getElem?_eq_getElem e2⟩⟩

/-- What any completed call has "observed / published" is below its return view:
`snapshot` returned a pair at an index `≤ vRet`, an accepted `update`/`try_update` published its
pair at an index `≤ vRet`, `sequence` returned `vRet` itself. -/
theorem observed_le_vRet {M : Mach} {chk : Nat → Nat → Bool} {ok : M.σ → Prop} {G : Prop} {g : M.GState}
    (hI : GInv M chk ok G g) (R : CallRec) (hR : R ∈ g.done) :
    (∀ n, R.res = .seqv n → n = R.vRet) ∧
    (∀ b v, R.op = .snapshot → R.res = .snap b v → ∃ k, k ≤ R.vRet ∧ (M.hist g.s)[k]? = some (b, v)) ∧
    (∀ b v, (R.op = .update b v ∨ R.op = .tryUpdate b v) → R.res = .bool true →
      ∃ j, j ≤ R.vRet ∧ (M.hist g.s)[j]? = some (b, v)) := by
  obtain ⟨_, _, h3⟩ := (hI.recs R hR).1
  refine ⟨?_, ?_, ?_⟩
  · intro n hres
    rw [hres] at h3
    cases hop : R.op <;> rw [hop] at h3 <;> simp only at h3
    exact h3.1
  · intro b v hop hres
    rw [hop, hres] at h3
    obtain ⟨k, _, k2, k3⟩ := h3
    exact ⟨k, k2, k3⟩
  · intro b v hop hres
    rcases hop with hop | hop <;> rw [hop, hres] at h3
    · obtain ⟨j, p, j1, j2, j3⟩ := h3
      simp at j3; subst j3
      exact ⟨j, j1, j2⟩
    · exact h3

/-- Program order (and, when `G`, real-time order): a `sequence()` call that starts after call
`R1` has returned - same thread, or any thread on a machine with one global view - returns at
least `R1`'s return view. -/
theorem sequence_after {M : Mach} {chk : Nat → Nat → Bool} {ok : M.σ → Prop} {G : Prop} {g : M.GState}
    (hI : GInv M chk ok G g) (R1 R2 : CallRec) (h1 : R1 ∈ g.done) (h2 : R2 ∈ g.done)
    (hsame : R1.tid = R2.tid ∨ G) (hlt : R1.tRet < R2.tStart) (hop : R2.op = .sequence) (n2 : Nat)
    (hres : R2.res = .seqv n2) : R1.vRet ≤ n2 := by
  obtain ⟨n, e1, e2, _⟩ := sequence_rec hI R2 h2 hop
  rw [hres] at e1; cases e1
  exact Nat.le_trans (hI.pairs R1 h1 R2 h2 hsame hlt) e2

/-- A thread at `qSeq` is inside a `sequence` call whose recorded start view is covered by its
current view. -/
theorem cur_at_qSeq {M : Mach} {chk : Nat → Nat → Bool} {ok : M.σ → Prop} {G : Prop} {g : M.GState}
    (hI : GInv M chk ok G g) (t : Nat) (hpc : (M.loc g.s t).pc = .qSeq) :
    ∃ t0, g.cur t = some (.sequence, t0) ∧ t0 < g.clock ∧ M.startOf g.s t ≤ M.vseq g.s t := by
  have hc := hI.cur t
  cases hcur : g.cur t with
  | none => rw [hcur] at hc; simp only [CurOK, hpc] at hc; cases hc
  | some x =>
    obtain ⟨op, t0⟩ := x
    rw [hcur] at hc
    obtain ⟨c1, _, c3, c4, _⟩ := hc
    rw [hpc] at c1
    have := (opPc_sequence op .qSeq).2 c1
    subst this
    exact ⟨t0, rfl, c3, c4⟩

/-- The bookkeeping of the step that completes a `sequence()` call. -/
theorem gnext_sequence (M : Mach) (g : M.GState) (t ts t0 : Nat) (s' : M.σ) (hc : g.cur t = some (.sequence, t0))
    (hpc : (M.loc s' t).pc = .retSeq) :
    (M.gnext g (.run t ts) s').done =
      ⟨t, .sequence, M.startOf s' t, M.vseq s' t, t0, g.clock, .seqv (M.loc s' t).sq⟩ :: g.done ∧
    (M.gnext g (.run t ts) s').s = s' := by
  have hres : (M.loc s' t).result = some (.seqv (M.loc s' t).sq) := by simp [Local.result, hpc]
  simp [gnext, hc, hres]

end Mach

/-! ### SC machine -/
namespace SC

/-- The single step of `sequence()` on the SC machine: enabled in EVERY state (no invariant
needed), it reads the current value of the counter and changes nothing shared. -/
theorem sequence_step (chk : Nat → Nat → Bool) (s : State) (t ts : Nat) (hpc : (s.thr t).pc = .qSeq) :
    ∃ s', step chk s (.run t ts) = some s' ∧ (s'.thr t).pc = .retSeq ∧ (s'.thr t).sq = s.mem .seq ∧
      s'.mem = s.mem ∧ s'.held = s.held ∧ s'.poisoned = s.poisoned ∧ s'.hist = s.hist ∧ s'.start = s.start ∧
      s'.log = s.log ∧ ∀ t', t' ≠ t → s'.thr t' = s.thr t' := by
  simp only [step, Local.next, hpc]
  refine ⟨_, rfl, ?_, ?_, rfl, rfl, rfl, rfl, rfl, ?_, ?_⟩
  · simp [Local.feedLoad, hpc]
  · simp [Local.feedLoad, hpc]
  · funext t'
    by_cases ht : t' = t
    · subst ht; simp [logOf, Local.feedLoad, hpc]
    · simp [upd_ne _ _ _ ht]
  · intro t' ht; simp [upd_ne _ _ _ ht]

/-- `sequence()` as a whole call, from any state in which the thread has no call in progress:
two labels (`start`, one `run`), nothing shared changes, the result is the current counter. -/
theorem sequence_call (chk : Nat → Nat → Bool) (s : State) (t ts : Nat) (hterm : (s.thr t).pc.terminal = true) :
    ∃ s', run chk s [.start t .sequence, .run t ts] = some s' ∧ (s'.thr t).pc = .retSeq ∧
      (s'.thr t).sq = s.mem .seq ∧ s'.mem = s.mem ∧ s'.held = s.held ∧ s'.poisoned = s.poisoned ∧ s'.hist = s.hist := by
  simp [run, step, hterm, Local.start, Local.next, Local.feedLoad, upd_same]

end SC

/-! ### Release/acquire view machine -/
namespace RA

/-- The single step of `sequence()` on the view machine: enabled for exactly the timestamps the
thread may read (`view(seq) ≤ ts`, message `ts` exists); it returns that message's value, moves
the thread's view of `sequence` to `ts` and nothing else (relaxed: the message's view is NOT
joined), and changes nothing shared. -/
theorem sequence_step (chk : Nat → Nat → Bool) (s : State) (t ts : Nat) (hpc : (s.thr t).loc.pc = .qSeq)
    (m : Msg) (hm : (s.mem .seq)[ts]? = some m) (hv : (s.thr t).view .seq ≤ ts) :
    ∃ s', step chk s (.run t ts) = some s' ∧ (s'.thr t).loc.pc = .retSeq ∧ (s'.thr t).loc.sq = m.val ∧
      (s'.thr t).view = upd (s.thr t).view .seq ts ∧
      s'.mem = s.mem ∧ s'.held = s.held ∧ s'.poisoned = s.poisoned ∧ s'.mview = s.mview ∧ s'.hist = s.hist ∧
      s'.start = s.start ∧ ∀ t', t' ≠ t → s'.thr t' = s.thr t' := by
  simp only [step, Local.next, hpc, hm, hv, if_true]
  refine ⟨_, rfl, ?_, ?_, ?_, rfl, rfl, rfl, rfl, rfl, rfl, ?_⟩
  · simp [Local.feedLoad, hpc]
  · simp [Local.feedLoad, hpc]
  · simp [loadView]
  · intro t' ht; simp [upd_ne _ _ _ ht]

/-- If the step happened, it was such a step. -/
theorem sequence_step_inv {chk : Nat → Nat → Bool} {s s' : State} {t ts : Nat} (hpc : (s.thr t).loc.pc = .qSeq)
    (hs : step chk s (.run t ts) = some s') :
    ∃ m, (s.mem .seq)[ts]? = some m ∧ (s.thr t).view .seq ≤ ts := by
  simp only [step, Local.next, hpc] at hs
  cases hm : (s.mem .seq)[ts]? with
  | none => simp [hm] at hs
  | some m =>
    simp only [hm] at hs
    split at hs
    · rename_i hv; exact ⟨m, rfl, hv⟩
    · simp at hs

end RA

end Woodpile.Abt

namespace Woodpile.Abt
namespace Mach

/-- Everything a later `sequence()` of the same thread (or, when `G`, of any thread) is at least:
the earlier call's return view, hence an earlier `sequence()`'s result, the index of the pair an
earlier `snapshot` returned, the index at which an earlier accepted `update`/`try_update`
published its pair. -/
theorem sequence_monotone {M : Mach} {chk : Nat → Nat → Bool} {ok : M.σ → Prop} {G : Prop} {g : M.GState}
    (hI : GInv M chk ok G g) (R1 R2 : CallRec) (h1 : R1 ∈ g.done) (h2 : R2 ∈ g.done)
    (hsame : R1.tid = R2.tid ∨ G) (hlt : R1.tRet < R2.tStart) (hop : R2.op = .sequence) (n2 : Nat)
    (hres : R2.res = .seqv n2) :
    R1.vRet ≤ n2 ∧
    (∀ n1, R1.res = .seqv n1 → n1 ≤ n2) ∧
    (∀ b v, R1.op = .snapshot → R1.res = .snap b v → ∃ k, k ≤ n2 ∧ (M.hist g.s)[k]? = some (b, v)) ∧
    (∀ b v, (R1.op = .update b v ∨ R1.op = .tryUpdate b v) → R1.res = .bool true →
      ∃ j, j ≤ n2 ∧ (M.hist g.s)[j]? = some (b, v)) := by
  have hle := sequence_after hI R1 R2 h1 h2 hsame hlt hop n2 hres
  obtain ⟨a, b, c⟩ := observed_le_vRet hI R1 h1
  refine ⟨hle, ?_, ?_, ?_⟩
  · intro n1 hr; have := a n1 hr; omega
  · intro b' v' ho hr
    obtain ⟨k, k1, k2⟩ := b b' v' ho hr
    exact ⟨k, by omega, k2⟩
  · intro b' v' ho hr
    obtain ⟨j, j1, j2⟩ := c b' v' ho hr
    exact ⟨j, by omega, j2⟩

end Mach
end Woodpile.Abt

/-
Ownership / liveness bookkeeping of the structural OwningIovec model
(`Woodpile.Iovec`): the invariant `WorldInv` and its preservation by every
operation of the `iovec` family (`World.step`), for C05 / C10 / C20.

Part 1 (this file): object accessors, the guard relation `Guarded`
(anchors ↔ consecutive runs of slices), the per-object invariants and
`WorldInv` = (N) ids bounded, (G) guard, (A) detached slices anchored,
(E) borrowed slices inside their caller buffer.
-/
import Woodpile.Model.IovecOps

namespace Woodpile.Iovec
open Woodpile.Arena

/-! ### Lists with holes: `listSet`, `getD` -/

theorem getD_listSet {α} (l : List α) (i j : Nat) (x d : α) :
    (listSet l i x d).getD j d = if j = i then x else l.getD j d := by
  unfold listSet
  by_cases h : i < l.length
  · simp only [h, if_true, List.getD_eq_getElem?_getD, List.getElem?_set]
    by_cases hji : j = i
    · subst hji; simp
    · have : ¬ i = j := fun e => hji e.symm
      simp [hji, this]
  · simp only [h, if_false, List.getD_eq_getElem?_getD]
    by_cases hji : j = i
    · subst hji
      have : (l ++ List.replicate (j - l.length) d).length = j := by simp; omega
      rw [List.getElem?_append_right (by omega)]
      simp [this]
    · simp only [hji, if_false]
      by_cases hj : j < l.length
      · rw [List.append_assoc, List.getElem?_append_left hj]
      · rw [List.append_assoc, List.getElem?_append_right (by omega)]
        rw [List.getElem?_eq_none (by omega : l.length ≤ j)]
        by_cases hj2 : j - l.length < i - l.length
        · rw [List.getElem?_append_left (by simpa using hj2)]
          simp [hj2]
        · rw [List.getElem?_append_right (by simpa using hj2)]
          have : j - l.length - (List.replicate (i - l.length) d).length ≠ 0 := by
            simp; omega
          cases hh : j - l.length - (List.replicate (i - l.length) d).length with
          | zero => exact absurd hh this
          | succ n => simp

theorem getD_append_one {α} (l : List α) (j : Nat) (x d : α) :
    (l ++ [x]).getD j d = if j = l.length then x else l.getD j d := by
  simp only [List.getD_eq_getElem?_getD]
  by_cases hj : j < l.length
  · rw [List.getElem?_append_left hj]
    have : j ≠ l.length := by omega
    simp [this]
  · rw [List.getElem?_append_right (by omega)]
    by_cases hje : j = l.length
    · subst hje; simp
    · simp only [hje, if_false]
      rw [List.getElem?_eq_none (by omega : l.length ≤ j)]
      cases hh : j - l.length with
      | zero => omega
      | succ n => simp

/-! ### Object accessors after updates -/

@[simp] theorem iov_setIov (w : World) (i j : Nat) (x : Option Iov) :
    (w.setIov i x).iov j = if j = i then x else w.iov j := by
  show (listSet w.iovs i x none).getD j none = _
  exact getD_listSet ..

@[simp] theorem arena_setIov (w : World) (i j : Nat) (x : Option Iov) :
    (w.setIov i x).arena j = w.arena j := rfl
@[simp] theorem aslice_setIov (w : World) (i j : Nat) (x : Option Iov) :
    (w.setIov i x).aslice j = w.aslice j := rfl

@[simp] theorem arena_setArena (w : World) (i j : Nat) (x : Option Arena) :
    (w.setArena i x).arena j = if j = i then x else w.arena j := by
  show (listSet w.arenas i x none).getD j none = _
  exact getD_listSet ..
@[simp] theorem iov_setArena (w : World) (i j : Nat) (x : Option Arena) :
    (w.setArena i x).iov j = w.iov j := rfl
@[simp] theorem aslice_setArena (w : World) (i j : Nat) (x : Option Arena) :
    (w.setArena i x).aslice j = w.aslice j := rfl

@[simp] theorem aslice_setASlice (w : World) (i j : Nat) (x : Option ASlice) :
    (w.setASlice i x).aslice j = if j = i then x else w.aslice j := by
  show (listSet w.aslices i x none).getD j none = _
  exact getD_listSet ..
@[simp] theorem iov_setASlice (w : World) (i j : Nat) (x : Option ASlice) :
    (w.setASlice i x).iov j = w.iov j := rfl
@[simp] theorem arena_setASlice (w : World) (i j : Nat) (x : Option ASlice) :
    (w.setASlice i x).arena j = w.arena j := rfl

@[simp] theorem iov_addIov (w : World) (v : Iov) (j : Nat) :
    (w.addIov v).1.iov j = if j = w.iovs.length then some v else w.iov j := by
  show (w.iovs ++ [some v]).getD j none = _
  exact getD_append_one ..
@[simp] theorem arena_addIov (w : World) (v : Iov) (j : Nat) : (w.addIov v).1.arena j = w.arena j := rfl
@[simp] theorem aslice_addIov (w : World) (v : Iov) (j : Nat) : (w.addIov v).1.aslice j = w.aslice j := rfl

@[simp] theorem arena_addArena (w : World) (a : Arena) (j : Nat) :
    (w.addArena a).1.arena j = if j = w.arenas.length then some a else w.arena j := by
  show (w.arenas ++ [some a]).getD j none = _
  exact getD_append_one ..
@[simp] theorem iov_addArena (w : World) (a : Arena) (j : Nat) : (w.addArena a).1.iov j = w.iov j := rfl
@[simp] theorem aslice_addArena (w : World) (a : Arena) (j : Nat) : (w.addArena a).1.aslice j = w.aslice j := rfl

@[simp] theorem aslice_addASlice (w : World) (s : ASlice) (j : Nat) :
    (w.addASlice s).1.aslice j = if j = w.aslices.length then some s else w.aslice j := by
  show (w.aslices ++ [some s]).getD j none = _
  exact getD_append_one ..
@[simp] theorem iov_addASlice (w : World) (s : ASlice) (j : Nat) : (w.addASlice s).1.iov j = w.iov j := rfl
@[simp] theorem arena_addASlice (w : World) (s : ASlice) (j : Nat) : (w.addASlice s).1.arena j = w.arena j := rfl

theorem iov_none_of_ge (w : World) (j : Nat) (h : w.iovs.length ≤ j) : w.iov j = none := by
  simp [World.iov, List.getD_eq_getElem?_getD, List.getElem?_eq_none h]
theorem arena_none_of_ge (w : World) (j : Nat) (h : w.arenas.length ≤ j) : w.arena j = none := by
  simp [World.arena, List.getD_eq_getElem?_getD, List.getElem?_eq_none h]
theorem aslice_none_of_ge (w : World) (j : Nat) (h : w.aslices.length ≤ j) : w.aslice j = none := by
  simp [World.aslice, List.getD_eq_getElem?_getD, List.getElem?_eq_none h]

/-! ### `setLast` / `getLast?` -/

theorem setLast_snoc {α} (l : List α) (a x : α) : setLast (l ++ [a]) x = l ++ [x] := by
  unfold setLast
  split
  · rename_i h; simp at h
  · simp

theorem eq_snoc_of_getLast? {α} {l : List α} {a : α} (h : l.getLast? = some a) :
    ∃ ys, l = ys ++ [a] := by
  rcases List.eq_nil_or_concat l with rfl | ⟨ys, b, rfl⟩
  · simp at h
  · simp at h; subst h; exact ⟨ys, by simp⟩

/-! ### The guard relation (G)

`Guarded anchors slices`: the anchors count consecutive runs of slices (the
first `a₀.count` slices belong to anchor 0, …, and the runs cover all slices),
every slice is non-empty, and a slice with region `chunk k` counted by anchor
`j` has an anchor at position `≥ j` holding `some k`. -/

def Guarded : List Anchor → List Slice → Prop
  | [], ss => ss = []
  | a :: rest, ss =>
    a.count ≤ ss.length ∧
    (∀ s ∈ ss.take a.count, 0 < s.len ∧ ∀ k, s.region = .chunk k → k ∈ anchorChunks (a :: rest)) ∧
    Guarded rest (ss.drop a.count)

theorem guarded_nil {ss : List Slice} : Guarded [] ss ↔ ss = [] := Iff.rfl
theorem guarded_cons {a : Anchor} {rest : List Anchor} {ss : List Slice} :
    Guarded (a :: rest) ss ↔ (a.count ≤ ss.length ∧
      (∀ s ∈ ss.take a.count, 0 < s.len ∧ ∀ k, s.region = .chunk k → k ∈ anchorChunks (a :: rest)) ∧
      Guarded rest (ss.drop a.count)) := Iff.rfl

theorem mem_anchorChunks {as : List Anchor} {k : Nat} :
    k ∈ anchorChunks as ↔ ∃ a ∈ as, a.chunk = some k := by
  simp [anchorChunks, List.mem_filterMap]

theorem anchorChunks_append (as bs : List Anchor) :
    anchorChunks (as ++ bs) = anchorChunks as ++ anchorChunks bs := by
  simp [anchorChunks, List.filterMap_append]

theorem anchorChunks_cons (a : Anchor) (as : List Anchor) :
    anchorChunks (a :: as) = a.chunk.toList ++ anchorChunks as := by
  cases h : a.chunk <;> simp [anchorChunks, h]

theorem anchorChunks_eq_of_map {as bs : List Anchor} (h : as.map (·.chunk) = bs.map (·.chunk)) :
    anchorChunks as = anchorChunks bs := by
  have : ∀ l : List Anchor, anchorChunks l = (l.map (·.chunk)).filterMap id := by
    intro l; simp [anchorChunks, List.filterMap_map]
  rw [this, this, h]

theorem anchorChunks_mono_left {as bs : List Anchor} {k : Nat} (h : k ∈ anchorChunks as) :
    k ∈ anchorChunks (as ++ bs) := by
  rw [anchorChunks_append]; exact List.mem_append_left _ h

/-- Sum of the anchor counts. -/
def countSum (as : List Anchor) : Nat := (as.map (·.count)).sum

@[simp] theorem countSum_nil : countSum [] = 0 := rfl
@[simp] theorem countSum_cons (a : Anchor) (as : List Anchor) : countSum (a :: as) = a.count + countSum as := by
  simp [countSum]
@[simp] theorem countSum_append (as bs : List Anchor) : countSum (as ++ bs) = countSum as + countSum bs := by
  simp [countSum]

theorem Guarded.countSum_eq {as : List Anchor} : ∀ {ss : List Slice}, Guarded as ss → countSum as = ss.length := by
  induction as with
  | nil => intro ss h; rw [guarded_nil] at h; simp [h]
  | cons a rest ih =>
    intro ss h
    obtain ⟨h1, _, h3⟩ := guarded_cons.1 h
    have := ih h3
    simp only [countSum_cons, this, List.length_drop]; omega

/-- Every slice is non-empty and every owned slice's chunk is held by some anchor of the deque. -/
theorem Guarded.mem {as : List Anchor} : ∀ {ss : List Slice}, Guarded as ss → ∀ s ∈ ss,
    0 < s.len ∧ ∀ k, s.region = .chunk k → k ∈ anchorChunks as := by
  induction as with
  | nil => intro ss h s hs; rw [guarded_nil] at h; simp [h] at hs
  | cons a rest ih =>
    intro ss h s hs
    obtain ⟨_, h2, h3⟩ := guarded_cons.1 h
    rw [← List.take_append_drop a.count ss, List.mem_append] at hs
    rcases hs with hs | hs
    · exact h2 s hs
    · obtain ⟨hl, hk⟩ := ih h3 s hs
      refine ⟨hl, fun k hk' => ?_⟩
      rw [anchorChunks_cons]; exact List.mem_append_right _ (hk k hk')

/-- The guard only gets stronger when the chunk lists grow at the back and the counts are kept. -/
theorem Guarded.snoc_anchor {as : List Anchor} : ∀ {ss : List Slice}, Guarded as ss → ∀ c,
    Guarded (as ++ [⟨0, c⟩]) ss := by
  induction as with
  | nil =>
    intro ss h c
    rw [guarded_nil] at h; subst h
    simp [Guarded]
  | cons a rest ih =>
    intro ss h c
    obtain ⟨h1, h2, h3⟩ := guarded_cons.1 h
    rw [List.cons_append, guarded_cons]
    refine ⟨h1, fun s hs => ?_, ih h3 c⟩
    obtain ⟨hl, hk⟩ := h2 s hs
    refine ⟨hl, fun k hk' => ?_⟩
    rw [← List.cons_append]; exact anchorChunks_mono_left (hk k hk')

/-- Push a slice counted by a fresh last anchor. -/
theorem Guarded.snoc_new {as : List Anchor} : ∀ {ss : List Slice}, Guarded as ss → ∀ (s : Slice) (c : Option Nat),
    0 < s.len → (∀ k, s.region = .chunk k → c = some k) → Guarded (as ++ [⟨1, c⟩]) (ss ++ [s]) := by
  induction as with
  | nil =>
    intro ss h s c hl hc
    rw [guarded_nil] at h; subst h
    rw [List.nil_append, guarded_cons]
    refine ⟨by simp, fun s' hs' => ?_, by simp [Guarded]⟩
    simp at hs'; subst hs'
    refine ⟨hl, fun k hk => ?_⟩
    rw [mem_anchorChunks]; exact ⟨_, List.mem_singleton.2 rfl, hc k hk⟩
  | cons a rest ih =>
    intro ss h s c hl hc
    obtain ⟨h1, h2, h3⟩ := guarded_cons.1 h
    rw [List.cons_append, guarded_cons]
    refine ⟨by simp; omega, fun s' hs' => ?_, ?_⟩
    · rw [List.take_append_of_le_length h1] at hs'
      obtain ⟨hl', hk⟩ := h2 s' hs'
      refine ⟨hl', fun k hk' => ?_⟩
      rw [← List.cons_append]; exact anchorChunks_mono_left (hk k hk')
    · rw [List.drop_append_of_le_length h1]
      exact ih h3 s c hl hc

/-- Anchors pushed by `push_anchor` and not yet counting anything. -/
def AllZero (zs : List Anchor) : Prop := ∀ z ∈ zs, z.count = 0

theorem Guarded.of_allZero {zs : List Anchor} : ∀ {ss : List Slice}, AllZero zs → Guarded zs ss → ss = [] := by
  induction zs with
  | nil => intro ss _ h; exact guarded_nil.1 h
  | cons z zs ih =>
    intro ss hz h
    obtain ⟨_, _, h3⟩ := guarded_cons.1 h
    rw [hz z (by simp)] at h3
    exact ih (fun z' hz' => hz z' (by simp [hz'])) (by simpa using h3)

theorem guarded_allZero_nil {zs : List Anchor} (hz : AllZero zs) : Guarded zs [] := by
  induction zs with
  | nil => exact guarded_nil.2 rfl
  | cons z zs ih =>
    rw [guarded_cons]
    refine ⟨by simp [hz z (by simp)], by simp, ?_⟩
    simpa using ih (fun z' hz' => hz z' (by simp [hz']))

/-- Push a slice counted by the last counting anchor (any zero-count anchors after it guard it too). -/
theorem Guarded.snoc_inc {as : List Anchor} : ∀ {ss : List Slice} {a : Anchor} {zs : List Anchor},
    Guarded (as ++ a :: zs) ss → AllZero zs →
    ∀ (s : Slice), 0 < s.len → (∀ k, s.region = .chunk k → k ∈ anchorChunks (a :: zs)) →
    Guarded (as ++ { a with count := a.count + 1 } :: zs) (ss ++ [s]) := by
  induction as with
  | nil =>
    intro ss a zs h hz s hl hc
    rw [List.nil_append, guarded_cons] at h
    obtain ⟨h1, h2, h3⟩ := h
    have h3' := Guarded.of_allZero hz h3
    have hlen : a.count = ss.length := by
      have := congrArg List.length h3'; simp at this; omega
    have same : anchorChunks ({ a with count := a.count + 1 } :: zs) = anchorChunks (a :: zs) :=
      anchorChunks_eq_of_map (by simp)
    rw [List.nil_append, guarded_cons]
    refine ⟨by simp; omega, fun s' hs' => ?_, ?_⟩
    · have : s' ∈ ss ++ [s] := List.mem_of_mem_take hs'
      rw [List.mem_append] at this
      rw [same]
      rcases this with hm | hm
      · have hm' : s' ∈ ss.take a.count := by rw [hlen, List.take_length]; exact hm
        exact h2 s' hm'
      · simp at hm; subst hm
        exact ⟨hl, hc⟩
    · have : List.drop (a.count + 1) (ss ++ [s]) = [] := by
        apply List.drop_eq_nil_of_le; simp; omega
      simp only [this]
      exact guarded_allZero_nil hz
  | cons b rest ih =>
    intro ss a zs h hz s hl hc
    rw [List.cons_append, guarded_cons] at h
    obtain ⟨h1, h2, h3⟩ := h
    have same : anchorChunks (b :: (rest ++ { a with count := a.count + 1 } :: zs)) = anchorChunks (b :: (rest ++ a :: zs)) :=
      anchorChunks_eq_of_map (by simp)
    rw [List.cons_append, guarded_cons]
    refine ⟨by simp; omega, fun s' hs' => ?_, ?_⟩
    · rw [List.take_append_of_le_length h1] at hs'
      rw [same]; exact h2 s' hs'
    · rw [List.drop_append_of_le_length h1]
      exact ih h3 hz s hl hc

theorem countSum_allZero {zs : List Anchor} (hz : AllZero zs) : countSum zs = 0 := by
  induction zs with
  | nil => rfl
  | cons z zs ih =>
    rw [countSum_cons, hz z (by simp), ih (fun z' hz' => hz z' (by simp [hz']))]

/-- `maybe_collapse_last_pair`: the last counting anchor counts both trailing slices; they merge into one. -/
theorem Guarded.merge_last {as : List Anchor} : ∀ {ss : List Slice} {a : Anchor} {zs : List Anchor} {l r m : Slice},
    Guarded (as ++ a :: zs) (ss ++ [l, r]) → AllZero zs → 2 ≤ a.count → m.region = l.region → 0 < m.len →
    Guarded (as ++ { a with count := a.count - 1 } :: zs) (ss ++ [m]) := by
  induction as with
  | nil =>
    intro ss a zs l r m h hz ha hm hml
    rw [List.nil_append, guarded_cons] at h
    obtain ⟨h1, h2, h3⟩ := h
    have h3' := Guarded.of_allZero hz h3
    have hlen : a.count = ss.length + 2 := by
      have := congrArg List.length h3'; simp at this h1; omega
    have same : anchorChunks ({ a with count := a.count - 1 } :: zs) = anchorChunks (a :: zs) :=
      anchorChunks_eq_of_map (by simp)
    have key : ∀ s'' ∈ ss ++ [l, r], 0 < s''.len ∧ ∀ k, s''.region = .chunk k → k ∈ anchorChunks (a :: zs) := by
      intro s'' hm''
      apply h2
      rw [hlen]
      have : (ss ++ [l, r]).length = ss.length + 2 := by simp
      rw [← this, List.take_length]; exact hm''
    rw [List.nil_append, guarded_cons]
    refine ⟨by simp; omega, fun s' hs' => ?_, ?_⟩
    · have hs'' : s' ∈ ss ++ [m] := List.mem_of_mem_take hs'
      rw [same]
      rw [List.mem_append] at hs''
      rcases hs'' with hm' | hm'
      · exact key s' (List.mem_append_left _ hm')
      · simp at hm'; subst hm'
        have := key l (by simp)
        exact ⟨hml, fun k hk => this.2 k (hm ▸ hk)⟩
    · have : List.drop (a.count - 1) (ss ++ [m]) = [] := by
        apply List.drop_eq_nil_of_le; simp; omega
      simp only [this]
      exact guarded_allZero_nil hz
  | cons b rest ih =>
    intro ss a zs l r m h hz ha hm hml
    have hsum := Guarded.countSum_eq h
    rw [List.cons_append, guarded_cons] at h
    obtain ⟨h1, h2, h3⟩ := h
    simp at hsum h1
    have hb : b.count ≤ ss.length := by omega
    have same : anchorChunks (b :: (rest ++ { a with count := a.count - 1 } :: zs)) = anchorChunks (b :: (rest ++ a :: zs)) :=
      anchorChunks_eq_of_map (by simp)
    rw [List.cons_append, guarded_cons]
    refine ⟨by simp; omega, fun s' hs' => ?_, ?_⟩
    · rw [List.take_append_of_le_length hb] at hs'
      have hs'' : s' ∈ (ss ++ [l, r]).take b.count := by
        rw [List.take_append_of_le_length hb]; exact hs'
      rw [same]; exact h2 s' hs''
    · rw [List.drop_append_of_le_length hb]
      rw [List.drop_append_of_le_length hb] at h3
      exact ih h3 hz ha hm hml
theorem drainAnchors_zero (fuel : Nat) (as : List Anchor) : drainAnchors fuel as 0 = some as := by
  cases fuel <;> simp [drainAnchors]

theorem drainAnchors_cons (fuel : Nat) (a : Anchor) (rest : List Anchor) (n : Nat) :
    drainAnchors (fuel + 1) (a :: rest) (n + 1) =
      if a.count ≤ n + 1 then drainAnchors fuel rest (n + 1 - a.count)
      else some ({ a with count := a.count - (n + 1) } :: rest) := by
  simp only [drainAnchors, Anchor.decrement]
  by_cases h : a.count ≤ n + 1
  · have hmin : min a.count (n + 1) = a.count := by omega
    simp [h, hmin]
  · have hmin : min a.count (n + 1) = n + 1 := by omega
    have : ¬ a.count - (n + 1) = 0 := by omega
    simp [h, hmin, this]

/-- `GlobalDeque::consume`: anchors leave from the front, and only when their count reaches 0. -/
theorem Guarded.drain : ∀ (fuel : Nat) {as : List Anchor} {ss : List Slice} (n : Nat) {as' : List Anchor},
    Guarded as ss → n ≤ ss.length → drainAnchors fuel as n = some as' → Guarded as' (ss.drop n)
  | fuel, as, ss, 0, as', h, _, hd => by
    rw [drainAnchors_zero] at hd; simp at hd; subst hd; simpa using h
  | 0, as, ss, n + 1, as', h, _, hd => by simp [drainAnchors] at hd
  | fuel + 1, [], ss, n + 1, as', h, _, hd => by simp [drainAnchors] at hd
  | fuel + 1, a :: rest, ss, n + 1, as', h, hn, hd => by
    obtain ⟨h1, h2, h3⟩ := guarded_cons.1 h
    rw [drainAnchors_cons] at hd
    by_cases hle : a.count ≤ n + 1
    · rw [if_pos hle] at hd
      have := Guarded.drain fuel (n + 1 - a.count) h3 (by simp; omega) hd
      rw [List.drop_drop] at this
      have e : a.count + (n + 1 - a.count) = n + 1 := by omega
      rw [e] at this; exact this
    · rw [if_neg hle] at hd
      simp at hd; subst hd
      rw [guarded_cons]
      refine ⟨by simp; omega, fun s hs => ?_, ?_⟩
      · simp only at hs
        have hs' : s ∈ ss.take a.count := by
          rw [List.take_drop] at hs
          have := List.mem_of_mem_drop hs
          have e : n + 1 + (a.count - (n + 1)) = a.count := by omega
          rw [e] at this; exact this
        have same : anchorChunks ({ a with count := a.count - (n + 1) } :: rest) = anchorChunks (a :: rest) :=
          anchorChunks_eq_of_map (by simp)
        rw [same]; exact h2 s hs'
      · simp only [List.drop_drop]
        have e : n + 1 + (a.count - (n + 1)) = a.count := by omega
        rw [e]; exact h3

theorem Guarded.dropZero {as : List Anchor} : ∀ {ss : List Slice}, Guarded as ss → Guarded (dropZeroAnchors as) ss := by
  induction as with
  | nil => intro ss h; simpa [dropZeroAnchors] using h
  | cons a rest ih =>
    intro ss h
    unfold dropZeroAnchors
    split
    · rename_i h0
      obtain ⟨_, _, h3⟩ := guarded_cons.1 h
      rw [h0] at h3
      exact ih (by simpa using h3)
    · exact h

/-- `consume_by_bytes` shortens the first slice in place. -/
theorem Guarded.shrink_head {as : List Anchor} : ∀ {s s' : Slice} {rest : List Slice},
    Guarded as (s :: rest) → s'.region = s.region → 0 < s'.len → Guarded as (s' :: rest) := by
  induction as with
  | nil => intro s s' rest h; rw [guarded_nil] at h; simp at h
  | cons a as ih =>
    intro s s' rest h hr hl
    obtain ⟨h1, h2, h3⟩ := guarded_cons.1 h
    rw [guarded_cons]
    cases hc : a.count with
    | zero =>
      rw [hc] at h3
      refine ⟨by simp, by simp, ?_⟩
      simp only [List.drop_zero] at h3 ⊢
      exact ih h3 hr hl
    | succ c =>
      rw [hc] at h1 h2 h3
      refine ⟨by simpa using h1, fun x hx => ?_, by simpa using h3⟩
      simp only [List.take_succ_cons, List.mem_cons] at hx h2
      rcases hx with rfl | hx
      · exact ⟨hl, fun k hk => (h2 s (Or.inl rfl)).2 k (hr ▸ hk)⟩
      · exact h2 x (Or.inr hx)

theorem anchorChunks_drain : ∀ (fuel : Nat) {as : List Anchor} (n : Nat) {as' : List Anchor},
    drainAnchors fuel as n = some as' → ∀ k ∈ anchorChunks as', k ∈ anchorChunks as
  | fuel, as, 0, as', hd, k, hk => by
    rw [drainAnchors_zero] at hd; simp at hd; subst hd; exact hk
  | 0, as, n + 1, as', hd, _, _ => by simp [drainAnchors] at hd
  | fuel + 1, [], n + 1, as', hd, _, _ => by simp [drainAnchors] at hd
  | fuel + 1, a :: rest, n + 1, as', hd, k, hk => by
    rw [drainAnchors_cons] at hd
    split at hd
    · have := anchorChunks_drain fuel _ hd k hk
      rw [anchorChunks_cons]; exact List.mem_append_right _ this
    · simp at hd; subst hd
      have same : anchorChunks ({ a with count := a.count - (n + 1) } :: rest) = anchorChunks (a :: rest) :=
        anchorChunks_eq_of_map (by simp)
      rw [← same]; exact hk

theorem anchorChunks_dropZero {as : List Anchor} : ∀ k ∈ anchorChunks (dropZeroAnchors as), k ∈ anchorChunks as := by
  induction as with
  | nil => intro k hk; simpa [dropZeroAnchors] using hk
  | cons a rest ih =>
    intro k hk
    unfold dropZeroAnchors at hk
    split at hk
    · rw [anchorChunks_cons]; exact List.mem_append_right _ (ih k hk)
    · exact hk

/-! ### Iov-level operations -/

theorem exists_snoc2 {α} (l : List α) (d : α) (h : 2 ≤ l.length) :
    ∃ ss x y, l = ss ++ [x, y] ∧ l.getD (l.length - 2) d = x ∧ l.getD (l.length - 1) d = y := by
  rcases List.eq_nil_or_concat l with rfl | ⟨l1, y, rfl⟩
  · simp at h
  · rcases List.eq_nil_or_concat l1 with rfl | ⟨ss, x, rfl⟩
    · simp at h
    · refine ⟨ss, x, y, by simp, ?_, ?_⟩
      · simp [List.getD_eq_getElem?_getD]
      · simp [List.getD_eq_getElem?_getD]

/-- What `optimize` does: nothing, or it joins the last two slices (both counted by the last anchor). -/
theorem optimize_spec {v v' : Iov} (h : v.optimize = some v') :
    v' = v ∨ ∃ ss l r as a m, v.slices = ss ++ [l, r] ∧ v.anchors = as ++ [a] ∧ 2 ≤ a.count ∧
      tryJoin v.arena l r = some m ∧
      v' = { v with slices := ss ++ [m], anchors := as ++ [{ a with count := a.count - 1 }] } := by
  unfold Iov.optimize at h
  simp only at h
  split at h
  · left; simpa using h.symm
  · rename_i hn
    split at h
    · simp at h
    · rename_i anchor hlast
      split at h
      · simp at h
      · split at h
        · left; simpa using h.symm
        · split at h
          · left; simpa using h.symm
          · rename_i m hm
            right
            obtain ⟨ss, l, r, hss, hl, hr⟩ := exists_snoc2 v.slices ⟨.ext 0, 0, 0⟩ (by omega)
            obtain ⟨as, has⟩ := eq_snoc_of_getLast? hlast
            rw [hl, hr] at hm
            refine ⟨ss, l, r, as, anchor, m, hss, has, by omega, hm, ?_⟩
            simp at h
            rw [← h, hss, has, setLast_snoc]
            congr 1
            have : (ss ++ [l, r]).dropLast = ss ++ [l] := by
              have : ss ++ [l, r] = (ss ++ [l]) ++ [r] := by simp
              rw [this, List.dropLast_concat]
            rw [this, setLast_snoc]

/-! ### Arena facts -/

/-- `ensure_capacity_internal`: either the current cache has room and nothing changes, or a fresh
chunk (ordinal `next`) with room for `len` replaces it. -/
theorem ensureCapacity_cases (t : Tuning) (a : Arena) (next len : Nat) :
    (∃ c, a.cache = some c ∧ len ≤ c.remaining ∧ ensureCapacity t a next len = (a, next)) ∨
    (∃ cap, len ≤ cap ∧ (∀ c, a.cache = some c → c.remaining < len) ∧
      ensureCapacity t a next len = (⟨some ⟨next, cap, 0⟩⟩, next + 1)) := by
  unfold ensureCapacity
  split
  · rename_i c hc
    split
    · left; exact ⟨c, hc, by assumption, rfl⟩
    · right
      refine ⟨_, Nat.le_max_right _ _, ?_, rfl⟩
      intro c' hc'; rw [hc] at hc'; cases hc'; omega
  · rename_i hc
    right
    refine ⟨_, Nat.le_max_right _ _, ?_, rfl⟩
    intro c' hc'; rw [hc] at hc'; cases hc'

/-- `ByteArena::alloc`: the allocation is `[c.bump, c.bump + len)` of the cache left by `ensure_capacity`. -/
theorem alloc_cases (t : Tuning) (a : Arena) (next len : Nat) :
    (∃ c, a.cache = some c ∧ len ≤ c.remaining ∧
      alloc t a next len = (⟨some { c with bump := c.bump + len }⟩, next, c.chunk, c.bump)) ∨
    (∃ cap, len ≤ cap ∧ (∀ c, a.cache = some c → c.remaining < len) ∧
      alloc t a next len = (⟨some ⟨next, cap, len⟩⟩, next + 1, next, 0)) := by
  rcases ensureCapacity_cases t a next len with ⟨c, hc, hl, he⟩ | ⟨cap, hl, hr, he⟩
  · left; exact ⟨c, hc, hl, by simp [alloc, he, hc]⟩
  · right; exact ⟨cap, hl, hr, by simp [alloc, he]⟩

theorem tryJoin_spec {a : Arena} {l r m : Slice} (h : tryJoin a l r = some m) :
    ∃ c, a.cache = some c ∧ l.region = .chunk c.chunk ∧ r.region = .chunk c.chunk ∧
      l.off + l.len = r.off ∧ r.off + r.len ≤ c.cap ∧ m = ⟨l.region, l.off, l.len + r.len⟩ := by
  unfold tryJoin at h
  split at h
  · rename_i hc
    simp at h
    obtain ⟨h1, h2, h3⟩ := hc
    unfold arenaContains at h1 h2
    cases hcache : a.cache with
    | none => simp [hcache] at h1
    | some c =>
      simp [hcache] at h1 h2
      exact ⟨c, rfl, h1.1, h2.1, h3, h2.2, h.symm⟩
  · simp at h

/-! ### Per-object invariants -/

/-- A borrowed slice lies inside its caller buffer. -/
def ExtOk (exts : List (List UInt8)) (s : Slice) : Prop :=
  ∀ b, s.region = .ext b → b < exts.length ∧ s.off + s.len ≤ (exts.getD b []).length

structure IovOk (next : Nat) (exts : List (List UInt8)) (v : Iov) : Prop where
  guard : Guarded v.anchors v.slices
  anchorsLt : ∀ k ∈ anchorChunks v.anchors, k < next
  cacheLt : ∀ c, v.arena.cache = some c → c.chunk < next
  extOk : ∀ s ∈ v.slices, ExtOk exts s

theorem ExtOk.mono {exts t : List (List UInt8)} {s : Slice} (h : ExtOk exts s) : ExtOk (exts ++ t) s := by
  intro b hb
  obtain ⟨h1, h2⟩ := h b hb
  refine ⟨by simp; omega, ?_⟩
  simp only [List.getD_eq_getElem?_getD] at h2 ⊢
  rw [List.getElem?_append_left h1]; exact h2

theorem IovOk.mono {n n' : Nat} {e t : List (List UInt8)} {v : Iov} (h : IovOk n e v) (hn : n ≤ n') :
    IovOk n' (e ++ t) v :=
  ⟨h.guard, fun k hk => Nat.lt_of_lt_of_le (h.anchorsLt k hk) hn,
   fun c hc => Nat.lt_of_lt_of_le (h.cacheLt c hc) hn, fun s hs => (h.extOk s hs).mono⟩

theorem iovOk_empty (n : Nat) (e : List (List UInt8)) : IovOk n e Iov.empty :=
  ⟨guarded_nil.2 rfl, by simp [anchorChunks, Iov.empty], by simp [Iov.empty], by simp [Iov.empty]⟩

/-- Changing only the arena (and bookkeeping that the guard does not read). -/
theorem IovOk.with_arena {n : Nat} {e : List (List UInt8)} {v : Iov} (h : IovOk n e v) (a : Arena)
    (ha : ∀ c, a.cache = some c → c.chunk < n) : IovOk n e { v with arena := a } :=
  ⟨h.guard, h.anchorsLt, ha, h.extOk⟩

/-! ### `optimize` -/

theorem optimize_guard {v v' : Iov} (zs : List Anchor) (hz : AllZero zs)
    (hg : Guarded (v.anchors ++ zs) v.slices) (h : v.optimize = some v') :
    Guarded (v'.anchors ++ zs) v'.slices := by
  rcases optimize_spec h with rfl | ⟨ss, l, r, as, a, m, hss, has, ha, hj, rfl⟩
  · exact hg
  · obtain ⟨c, _, _, _, _, _, hm⟩ := tryJoin_spec hj
    rw [hss, has, List.append_assoc] at hg
    have hl : 0 < l.len := (hg.mem l (by simp)).1
    simp only [List.append_assoc, List.singleton_append]
    exact hg.merge_last hz ha (by rw [hm]) (by rw [hm]; simp; omega)

theorem optimize_chunks {v v' : Iov} (h : v.optimize = some v') :
    anchorChunks v'.anchors = anchorChunks v.anchors := by
  rcases optimize_spec h with rfl | ⟨ss, l, r, as, a, m, hss, has, ha, hj, rfl⟩
  · rfl
  · rw [has]; exact anchorChunks_eq_of_map (by simp)

theorem optimize_arena {v v' : Iov} (h : v.optimize = some v') : v'.arena = v.arena := by
  rcases optimize_spec h with rfl | ⟨ss, l, r, as, a, m, hss, has, ha, hj, rfl⟩ <;> rfl

theorem optimize_ext {v v' : Iov} (h : v.optimize = some v') :
    ∀ s ∈ v'.slices, ∀ b, s.region = .ext b → s ∈ v.slices := by
  rcases optimize_spec h with rfl | ⟨ss, l, r, as, a, m, hss, has, ha, hj, rfl⟩
  · intro s hs _ _; exact hs
  · intro s hs b hb
    obtain ⟨c, _, hl, _, _, _, hm⟩ := tryJoin_spec hj
    simp only [List.mem_append, List.mem_singleton] at hs
    rcases hs with hs | rfl
    · rw [hss]; simp [hs]
    · rw [hm, hl] at hb; simp at hb

theorem IovOk.optimize {n : Nat} {e : List (List UInt8)} {v v' : Iov} (hv : IovOk n e v)
    (h : v.optimize = some v') : IovOk n e v' :=
  ⟨by simpa using optimize_guard [] (by intro z hz; simp at hz) (by simpa using hv.guard) h,
   by rw [optimize_chunks h]; exact hv.anchorsLt,
   by rw [optimize_arena h]; exact hv.cacheLt,
   fun s hs b hb => hv.extOk s (optimize_ext h s hs b hb) b hb⟩

/-! ### `push_borrowed` -/

theorem pushBorrowedSlice_spec {v v' : Iov} {s : Slice} (h : v.pushBorrowedSlice s = some v') :
    0 < s.len ∧ ∃ as a, ((v.anchors = [] ∧ as = [] ∧ a = ⟨0, none⟩) ∨ v.anchors = as ++ [a]) ∧
      Iov.optimize { v with slices := v.slices ++ [s], anchors := as ++ [{ a with count := a.count + 1 }],
                            logicalSize := v.logicalSize + s.len } = some v' := by
  unfold Iov.pushBorrowedSlice at h
  split at h
  · simp at h
  · rename_i hs
    refine ⟨by omega, ?_⟩
    rcases List.eq_nil_or_concat v.anchors with ha | ⟨ys, a, ha⟩
    · refine ⟨[], ⟨0, none⟩, Or.inl ⟨ha, rfl, rfl⟩, ?_⟩
      simpa [ha, setLast] using h
    · rw [List.concat_eq_append] at ha
      refine ⟨ys, a, Or.inr ha, ?_⟩
      rw [ha] at h
      simpa [setLast_snoc] using h

theorem pushBorrowedSlice_guard {v v' : Iov} {s : Slice} (zs : List Anchor) (hz : AllZero zs)
    (hg : Guarded (v.anchors ++ zs) v.slices) (h : v.pushBorrowedSlice s = some v')
    (hs : ∀ k, s.region = .chunk k → k ∈ anchorChunks zs) :
    Guarded (v'.anchors ++ zs) v'.slices := by
  obtain ⟨hl, as, a, hcase, ho⟩ := pushBorrowedSlice_spec h
  refine optimize_guard zs hz ?_ ho
  simp only [List.append_assoc, List.singleton_append]
  have hs' : ∀ k, s.region = .chunk k → k ∈ anchorChunks (a :: zs) := by
    intro k hk; rw [anchorChunks_cons]; exact List.mem_append_right _ (hs k hk)
  rcases hcase with ⟨hnil, rfl, rfl⟩ | hsnoc
  · rw [hnil, List.nil_append] at hg
    have := Guarded.of_allZero hz hg
    rw [this]
    have h0 : Guarded ([] ++ (⟨0, none⟩ : Anchor) :: zs) [] := by
      apply guarded_allZero_nil
      intro z hz'; simp at hz'; rcases hz' with rfl | hz'
      · rfl
      · exact hz z hz'
    exact h0.snoc_inc hz s hl hs'
  · rw [hsnoc, List.append_assoc] at hg
    exact hg.snoc_inc hz s hl hs'

theorem pushBorrowedSlice_chunks {v v' : Iov} {s : Slice} (h : v.pushBorrowedSlice s = some v') :
    anchorChunks v'.anchors = anchorChunks v.anchors := by
  obtain ⟨hl, as, a, hcase, ho⟩ := pushBorrowedSlice_spec h
  rw [optimize_chunks ho]
  rcases hcase with ⟨hnil, rfl, rfl⟩ | hsnoc
  · rw [hnil]; simp [anchorChunks]
  · rw [hsnoc]; exact anchorChunks_eq_of_map (by simp)

theorem pushBorrowedSlice_arena {v v' : Iov} {s : Slice} (h : v.pushBorrowedSlice s = some v') :
    v'.arena = v.arena := by
  obtain ⟨hl, as, a, hcase, ho⟩ := pushBorrowedSlice_spec h
  rw [optimize_arena ho]

theorem pushBorrowedSlice_ext {v v' : Iov} {s : Slice} (h : v.pushBorrowedSlice s = some v') :
    ∀ x ∈ v'.slices, ∀ b, x.region = .ext b → x ∈ v.slices ∨ x = s := by
  obtain ⟨hl, as, a, hcase, ho⟩ := pushBorrowedSlice_spec h
  intro x hx b hb
  have := optimize_ext ho x hx b hb
  simpa using this


end Woodpile.Iovec

/-
Ownership / liveness bookkeeping of the structural OwningIovec model
(`Woodpile.Iovec`): the invariant `WorldInv` and its preservation by every
operation of the `iovec` family (`World.step`), for C05 / C10 / C20.

Part 1 (this file): object accessors, the guard relation `Guarded`
(anchors ↔ consecutive runs of slices), the per-object invariants and
`WorldInv` = (N) ids bounded, (G) guard, (A) detached slices anchored,
(E) borrowed slices inside their caller buffer.
-/
import Woodpile.Model.IovecOps

namespace Woodpile.Iovec
open Woodpile.Arena

/-! ### Lists with holes: `listSet`, `getD` -/

theorem getD_listSet {α} (l : List α) (i j : Nat) (x d : α) :
    (listSet l i x d).getD j d = if j = i then x else l.getD j d := by
  unfold listSet
  by_cases h : i < l.length
  · simp only [h, if_true, List.getD_eq_getElem?_getD, List.getElem?_set]
    by_cases hji : j = i
    · subst hji; simp
    · have : ¬ i = j := fun e => hji e.symm
      simp [hji, this]
  · simp only [h, if_false, List.getD_eq_getElem?_getD]
    by_cases hji : j = i
    · subst hji
      have : (l ++ List.replicate (j - l.length) d).length = j := by simp; omega
      rw [List.getElem?_append_right (by omega)]
      simp [this]
    · simp only [hji, if_false]
      by_cases hj : j < l.length
      · rw [List.append_assoc, List.getElem?_append_left hj]
      · rw [List.append_assoc, List.getElem?_append_right (by omega)]
        rw [List.getElem?_eq_none (by omega : l.length ≤ j)]
        by_cases hj2 : j - l.length < i - l.length
        · rw [List.getElem?_append_left (by simpa using hj2)]
          simp [hj2]
        · rw [List.getElem?_append_right (by simpa using hj2)]
          have : j - l.length - (List.replicate (i - l.length) d).length ≠ 0 := by
            simp; omega
          cases hh : j - l.length - (List.replicate (i - l.length) d).length with
          | zero => exact absurd hh this
          | succ n => simp

theorem getD_append_one {α} (l : List α) (j : Nat) (x d : α) :
    (l ++ [x]).getD j d = if j = l.length then x else l.getD j d := by
  simp only [List.getD_eq_getElem?_getD]
  by_cases hj : j < l.length
  · rw [List.getElem?_append_left hj]
    have : j ≠ l.length := by omega
    simp [this]
  · rw [List.getElem?_append_right (by omega)]
    by_cases hje : j = l.length
    · subst hje; simp
    · simp only [hje, if_false]
      rw [List.getElem?_eq_none (by omega : l.length ≤ j)]
      cases hh : j - l.length with
      | zero => omega
      | succ n => simp

/-! ### Object accessors after updates -/

@[simp] theorem iov_setIov (w : World) (i j : Nat) (x : Option Iov) :
    (w.setIov i x).iov j = if j = i then x else w.iov j := by
  show (listSet w.iovs i x none).getD j none = _
  exact getD_listSet ..

@[simp] theorem arena_setIov (w : World) (i j : Nat) (x : Option Iov) :
    (w.setIov i x).arena j = w.arena j := rfl
@[simp] theorem aslice_setIov (w : World) (i j : Nat) (x : Option Iov) :
    (w.setIov i x).aslice j = w.aslice j := rfl

@[simp] theorem arena_setArena (w : World) (i j : Nat) (x : Option Arena) :
    (w.setArena i x).arena j = if j = i then x else w.arena j := by
  show (listSet w.arenas i x none).getD j none = _
  exact getD_listSet ..
@[simp] theorem iov_setArena (w : World) (i j : Nat) (x : Option Arena) :
    (w.setArena i x).iov j = w.iov j := rfl
@[simp] theorem aslice_setArena (w : World) (i j : Nat) (x : Option Arena) :
    (w.setArena i x).aslice j = w.aslice j := rfl

@[simp] theorem aslice_setASlice (w : World) (i j : Nat) (x : Option ASlice) :
    (w.setASlice i x).aslice j = if j = i then x else w.aslice j := by
  show (listSet w.aslices i x none).getD j none = _
  exact getD_listSet ..
@[simp] theorem iov_setASlice (w : World) (i j : Nat) (x : Option ASlice) :
    (w.setASlice i x).iov j = w.iov j := rfl
@[simp] theorem arena_setASlice (w : World) (i j : Nat) (x : Option ASlice) :
    (w.setASlice i x).arena j = w.arena j := rfl

@[simp] theorem iov_addIov (w : World) (v : Iov) (j : Nat) :
    (w.addIov v).1.iov j = if j = w.iovs.length then some v else w.iov j := by
  show (w.iovs ++ [some v]).getD j none = _
  exact getD_append_one ..
@[simp] theorem arena_addIov (w : World) (v : Iov) (j : Nat) : (w.addIov v).1.arena j = w.arena j := rfl
@[simp] theorem aslice_addIov (w : World) (v : Iov) (j : Nat) : (w.addIov v).1.aslice j = w.aslice j := rfl

@[simp] theorem arena_addArena (w : World) (a : Arena) (j : Nat) :
    (w.addArena a).1.arena j = if j = w.arenas.length then some a else w.arena j := by
  show (w.arenas ++ [some a]).getD j none = _
  exact getD_append_one ..
@[simp] theorem iov_addArena (w : World) (a : Arena) (j : Nat) : (w.addArena a).1.iov j = w.iov j := rfl
@[simp] theorem aslice_addArena (w : World) (a : Arena) (j : Nat) : (w.addArena a).1.aslice j = w.aslice j := rfl

@[simp] theorem aslice_addASlice (w : World) (s : ASlice) (j : Nat) :
    (w.addASlice s).1.aslice j = if j = w.aslices.length then some s else w.aslice j := by
  show (w.aslices ++ [some s]).getD j none = _
  exact getD_append_one ..
@[simp] theorem iov_addASlice (w : World) (s : ASlice) (j : Nat) : (w.addASlice s).1.iov j = w.iov j := rfl
@[simp] theorem arena_addASlice (w : World) (s : ASlice) (j : Nat) : (w.addASlice s).1.arena j = w.arena j := rfl

theorem iov_none_of_ge (w : World) (j : Nat) (h : w.iovs.length ≤ j) : w.iov j = none := by
  simp [World.iov, List.getD_eq_getElem?_getD, List.getElem?_eq_none h]
theorem arena_none_of_ge (w : World) (j : Nat) (h : w.arenas.length ≤ j) : w.arena j = none := by
  simp [World.arena, List.getD_eq_getElem?_getD, List.getElem?_eq_none h]
theorem aslice_none_of_ge (w : World) (j : Nat) (h : w.aslices.length ≤ j) : w.aslice j = none := by
  simp [World.aslice, List.getD_eq_getElem?_getD, List.getElem?_eq_none h]

/-! ### `setLast` / `getLast?` -/

theorem setLast_snoc {α} (l : List α) (a x : α) : setLast (l ++ [a]) x = l ++ [x] := by
  unfold setLast
  split
  · rename_i h; simp at h
  · simp

theorem eq_snoc_of_getLast? {α} {l : List α} {a : α} (h : l.getLast? = some a) :
    ∃ ys, l = ys ++ [a] := by
  rcases List.eq_nil_or_concat l with rfl | ⟨ys, b, rfl⟩
  · simp at h
  · simp at h; subst h; exact ⟨ys, by simp⟩

/-! ### The guard relation (G)

`Guarded anchors slices`: the anchors count consecutive runs of slices (the
first `a₀.count` slices belong to anchor 0, …, and the runs cover all slices),
every slice is non-empty, and a slice with region `chunk k` counted by anchor
`j` has an anchor at position `≥ j` holding `some k`. -/

def Guarded : List Anchor → List Slice → Prop
  | [], ss => ss = []
  | a :: rest, ss =>
    a.count ≤ ss.length ∧
    (∀ s ∈ ss.take a.count, 0 < s.len ∧ ∀ k, s.region = .chunk k → k ∈ anchorChunks (a :: rest)) ∧
    Guarded rest (ss.drop a.count)

theorem guarded_nil {ss : List Slice} : Guarded [] ss ↔ ss = [] := Iff.rfl
theorem guarded_cons {a : Anchor} {rest : List Anchor} {ss : List Slice} :
    Guarded (a :: rest) ss ↔ (a.count ≤ ss.length ∧
      (∀ s ∈ ss.take a.count, 0 < s.len ∧ ∀ k, s.region = .chunk k → k ∈ anchorChunks (a :: rest)) ∧
      Guarded rest (ss.drop a.count)) := Iff.rfl

theorem mem_anchorChunks {as : List Anchor} {k : Nat} :
    k ∈ anchorChunks as ↔ ∃ a ∈ as, a.chunk = some k := by
  simp [anchorChunks, List.mem_filterMap]

theorem anchorChunks_append (as bs : List Anchor) :
    anchorChunks (as ++ bs) = anchorChunks as ++ anchorChunks bs := by
  simp [anchorChunks, List.filterMap_append]

theorem anchorChunks_cons (a : Anchor) (as : List Anchor) :
    anchorChunks (a :: as) = a.chunk.toList ++ anchorChunks as := by
  cases h : a.chunk <;> simp [anchorChunks, h]

theorem anchorChunks_eq_of_map {as bs : List Anchor} (h : as.map (·.chunk) = bs.map (·.chunk)) :
    anchorChunks as = anchorChunks bs := by
  have : ∀ l : List Anchor, anchorChunks l = (l.map (·.chunk)).filterMap id := by
    intro l; simp [anchorChunks, List.filterMap_map]
  rw [this, this, h]

theorem anchorChunks_mono_left {as bs : List Anchor} {k : Nat} (h : k ∈ anchorChunks as) :
    k ∈ anchorChunks (as ++ bs) := by
  rw [anchorChunks_append]; exact List.mem_append_left _ h

/-- Sum of the anchor counts. -/
def countSum (as : List Anchor) : Nat := (as.map (·.count)).sum

@[simp] theorem countSum_nil : countSum [] = 0 := rfl
@[simp] theorem countSum_cons (a : Anchor) (as : List Anchor) : countSum (a :: as) = a.count + countSum as := by
  simp [countSum]
@[simp] theorem countSum_append (as bs : List Anchor) : countSum (as ++ bs) = countSum as + countSum bs := by
  simp [countSum]

theorem Guarded.countSum_eq {as : List Anchor} : ∀ {ss : List Slice}, Guarded as ss → countSum as = ss.length := by
  induction as with
  | nil => intro ss h; rw [guarded_nil] at h; simp [h]
  | cons a rest ih =>
    intro ss h
    obtain ⟨h1, _, h3⟩ := guarded_cons.1 h
    have := ih h3
    simp only [countSum_cons, this, List.length_drop]; omega

/-- Every slice is non-empty and every owned slice's chunk is held by some anchor of the deque. -/
theorem Guarded.mem {as : List Anchor} : ∀ {ss : List Slice}, Guarded as ss → ∀ s ∈ ss,
    0 < s.len ∧ ∀ k, s.region = .chunk k → k ∈ anchorChunks as := by
  induction as with
  | nil => intro ss h s hs; rw [guarded_nil] at h; simp [h] at hs
  | cons a rest ih =>
    intro ss h s hs
    obtain ⟨_, h2, h3⟩ := guarded_cons.1 h
    rw [← List.take_append_drop a.count ss, List.mem_append] at hs
    rcases hs with hs | hs
    · exact h2 s hs
    · obtain ⟨hl, hk⟩ := ih h3 s hs
      refine ⟨hl, fun k hk' => ?_⟩
      rw [anchorChunks_cons]; exact List.mem_append_right _ (hk k hk')

/-- The guard only gets stronger when the chunk lists grow at the back and the counts are kept. -/
theorem Guarded.snoc_anchor {as : List Anchor} : ∀ {ss : List Slice}, Guarded as ss → ∀ c,
    Guarded (as ++ [⟨0, c⟩]) ss := by
  induction as with
  | nil =>
    intro ss h c
    rw [guarded_nil] at h; subst h
    simp [Guarded]
  | cons a rest ih =>
    intro ss h c
    obtain ⟨h1, h2, h3⟩ := guarded_cons.1 h
    rw [List.cons_append, guarded_cons]
    refine ⟨h1, fun s hs => ?_, ih h3 c⟩
    obtain ⟨hl, hk⟩ := h2 s hs
    refine ⟨hl, fun k hk' => ?_⟩
    rw [← List.cons_append]; exact anchorChunks_mono_left (hk k hk')

/-- Push a slice counted by a fresh last anchor. -/
theorem Guarded.snoc_new {as : List Anchor} : ∀ {ss : List Slice}, Guarded as ss → ∀ (s : Slice) (c : Option Nat),
    0 < s.len → (∀ k, s.region = .chunk k → c = some k) → Guarded (as ++ [⟨1, c⟩]) (ss ++ [s]) := by
  induction as with
  | nil =>
    intro ss h s c hl hc
    rw [guarded_nil] at h; subst h
    rw [List.nil_append, guarded_cons]
    refine ⟨by simp, fun s' hs' => ?_, by simp [Guarded]⟩
    simp at hs'; subst hs'
    refine ⟨hl, fun k hk => ?_⟩
    rw [mem_anchorChunks]; exact ⟨_, List.mem_singleton.2 rfl, hc k hk⟩
  | cons a rest ih =>
    intro ss h s c hl hc
    obtain ⟨h1, h2, h3⟩ := guarded_cons.1 h
    rw [List.cons_append, guarded_cons]
    refine ⟨by simp; omega, fun s' hs' => ?_, ?_⟩
    · rw [List.take_append_of_le_length h1] at hs'
      obtain ⟨hl', hk⟩ := h2 s' hs'
      refine ⟨hl', fun k hk' => ?_⟩
      rw [← List.cons_append]; exact anchorChunks_mono_left (hk k hk')
    · rw [List.drop_append_of_le_length h1]
      exact ih h3 s c hl hc

/-- Anchors pushed by `push_anchor` and not yet counting anything. -/
def AllZero (zs : List Anchor) : Prop := ∀ z ∈ zs, z.count = 0

theorem Guarded.of_allZero {zs : List Anchor} : ∀ {ss : List Slice}, AllZero zs → Guarded zs ss → ss = [] := by
  induction zs with
  | nil => intro ss _ h; exact guarded_nil.1 h
  | cons z zs ih =>
    intro ss hz h
    obtain ⟨_, _, h3⟩ := guarded_cons.1 h
    rw [hz z (by simp)] at h3
    exact ih (fun z' hz' => hz z' (by simp [hz'])) (by simpa using h3)

theorem guarded_allZero_nil {zs : List Anchor} (hz : AllZero zs) : Guarded zs [] := by
  induction zs with
  | nil => exact guarded_nil.2 rfl
  | cons z zs ih =>
    rw [guarded_cons]
    refine ⟨by simp [hz z (by simp)], by simp, ?_⟩
    simpa using ih (fun z' hz' => hz z' (by simp [hz']))

/-- Push a slice counted by the last counting anchor (any zero-count anchors after it guard it too). -/
theorem Guarded.snoc_inc {as : List Anchor} : ∀ {ss : List Slice} {a : Anchor} {zs : List Anchor},
    Guarded (as ++ a :: zs) ss → AllZero zs →
    ∀ (s : Slice), 0 < s.len → (∀ k, s.region = .chunk k → k ∈ anchorChunks (a :: zs)) →
    Guarded (as ++ { a with count := a.count + 1 } :: zs) (ss ++ [s]) := by
  induction as with
  | nil =>
    intro ss a zs h hz s hl hc
    rw [List.nil_append, guarded_cons] at h
    obtain ⟨h1, h2, h3⟩ := h
    have h3' := Guarded.of_allZero hz h3
    have hlen : a.count = ss.length := by
      have := congrArg List.length h3'; simp at this; omega
    have same : anchorChunks ({ a with count := a.count + 1 } :: zs) = anchorChunks (a :: zs) :=
      anchorChunks_eq_of_map (by simp)
    rw [List.nil_append, guarded_cons]
    refine ⟨by simp; omega, fun s' hs' => ?_, ?_⟩
    · have : s' ∈ ss ++ [s] := List.mem_of_mem_take hs'
      rw [List.mem_append] at this
      rw [same]
      rcases this with hm | hm
      · have hm' : s' ∈ ss.take a.count := by rw [hlen, List.take_length]; exact hm
        exact h2 s' hm'
      · simp at hm; subst hm
        exact ⟨hl, hc⟩
    · have : List.drop (a.count + 1) (ss ++ [s]) = [] := by
        apply List.drop_eq_nil_of_le; simp; omega
      simp only [this]
      exact guarded_allZero_nil hz
  | cons b rest ih =>
    intro ss a zs h hz s hl hc
    rw [List.cons_append, guarded_cons] at h
    obtain ⟨h1, h2, h3⟩ := h
    have same : anchorChunks (b :: (rest ++ { a with count := a.count + 1 } :: zs)) = anchorChunks (b :: (rest ++ a :: zs)) :=
      anchorChunks_eq_of_map (by simp)
    rw [List.cons_append, guarded_cons]
    refine ⟨by simp; omega, fun s' hs' => ?_, ?_⟩
    · rw [List.take_append_of_le_length h1] at hs'
      rw [same]; exact h2 s' hs'
    · rw [List.drop_append_of_le_length h1]
      exact ih h3 hz s hl hc

theorem countSum_allZero {zs : List Anchor} (hz : AllZero zs) : countSum zs = 0 := by
  induction zs with
  | nil => rfl
  | cons z zs ih =>
    rw [countSum_cons, hz z (by simp), ih (fun z' hz' => hz z' (by simp [hz']))]

/-- `maybe_collapse_last_pair`: the last counting anchor counts both trailing slices; they merge into one. -/
theorem Guarded.merge_last {as : List Anchor} : ∀ {ss : List Slice} {a : Anchor} {zs : List Anchor} {l r m : Slice},
    Guarded (as ++ a :: zs) (ss ++ [l, r]) → AllZero zs → 2 ≤ a.count → m.region = l.region → 0 < m.len →
    Guarded (as ++ { a with count := a.count - 1 } :: zs) (ss ++ [m]) := by
  induction as with
  | nil =>
    intro ss a zs l r m h hz ha hm hml
    rw [List.nil_append, guarded_cons] at h
    obtain ⟨h1, h2, h3⟩ := h
    have h3' := Guarded.of_allZero hz h3
    have hlen : a.count = ss.length + 2 := by
      have := congrArg List.length h3'; simp at this h1; omega
    have same : anchorChunks ({ a with count := a.count - 1 } :: zs) = anchorChunks (a :: zs) :=
      anchorChunks_eq_of_map (by simp)
    have key : ∀ s'' ∈ ss ++ [l, r], 0 < s''.len ∧ ∀ k, s''.region = .chunk k → k ∈ anchorChunks (a :: zs) := by
      intro s'' hm''
      apply h2
      rw [hlen]
      have : (ss ++ [l, r]).length = ss.length + 2 := by simp
      rw [← this, List.take_length]; exact hm''
    rw [List.nil_append, guarded_cons]
    refine ⟨by simp; omega, fun s' hs' => ?_, ?_⟩
    · have hs'' : s' ∈ ss ++ [m] := List.mem_of_mem_take hs'
      rw [same]
      rw [List.mem_append] at hs''
      rcases hs'' with hm' | hm'
      · exact key s' (List.mem_append_left _ hm')
      · simp at hm'; subst hm'
        have := key l (by simp)
        exact ⟨hml, fun k hk => this.2 k (hm ▸ hk)⟩
    · have : List.drop (a.count - 1) (ss ++ [m]) = [] := by
        apply List.drop_eq_nil_of_le; simp; omega
      simp only [this]
      exact guarded_allZero_nil hz
  | cons b rest ih =>
    intro ss a zs l r m h hz ha hm hml
    have hsum := Guarded.countSum_eq h
    rw [List.cons_append, guarded_cons] at h
    obtain ⟨h1, h2, h3⟩ := h
    simp at hsum h1
    have hb : b.count ≤ ss.length := by omega
    have same : anchorChunks (b :: (rest ++ { a with count := a.count - 1 } :: zs)) = anchorChunks (b :: (rest ++ a :: zs)) :=
      anchorChunks_eq_of_map (by simp)
    rw [List.cons_append, guarded_cons]
    refine ⟨by simp; omega, fun s' hs' => ?_, ?_⟩
    · rw [List.take_append_of_le_length hb] at hs'
      have hs'' : s' ∈ (ss ++ [l, r]).take b.count := by
        rw [List.take_append_of_le_length hb]; exact hs'
      rw [same]; exact h2 s' hs''
    · rw [List.drop_append_of_le_length hb]
      rw [List.drop_append_of_le_length hb] at h3
      exact ih h3 hz ha hm hml
theorem drainAnchors_zeroO (fuel : Nat) (as : List Anchor) : drainAnchors fuel as 0 = some as := by
  cases fuel <;> simp [drainAnchors]

theorem drainAnchors_consO (fuel : Nat) (a : Anchor) (rest : List Anchor) (n : Nat) :
    drainAnchors (fuel + 1) (a :: rest) (n + 1) =
      if a.count ≤ n + 1 then drainAnchors fuel rest (n + 1 - a.count)
      else some ({ a with count := a.count - (n + 1) } :: rest) := by
  simp only [drainAnchors, Anchor.decrement]
  by_cases h : a.count ≤ n + 1
  · have hmin : min a.count (n + 1) = a.count := by omega
    simp [h, hmin]
  · have hmin : min a.count (n + 1) = n + 1 := by omega
    have : ¬ a.count - (n + 1) = 0 := by omega
    simp [h, hmin, this]

/-- `GlobalDeque::consume`: anchors leave from the front, and only when their count reaches 0. -/
theorem Guarded.drain : ∀ (fuel : Nat) {as : List Anchor} {ss : List Slice} (n : Nat) {as' : List Anchor},
    Guarded as ss → n ≤ ss.length → drainAnchors fuel as n = some as' → Guarded as' (ss.drop n)
  | fuel, as, ss, 0, as', h, _, hd => by
    rw [drainAnchors_zeroO] at hd; simp at hd; subst hd; simpa using h
  | 0, as, ss, n + 1, as', h, _, hd => by simp [drainAnchors] at hd
  | fuel + 1, [], ss, n + 1, as', h, _, hd => by simp [drainAnchors] at hd
  | fuel + 1, a :: rest, ss, n + 1, as', h, hn, hd => by
    obtain ⟨h1, h2, h3⟩ := guarded_cons.1 h
    rw [drainAnchors_consO] at hd
    by_cases hle : a.count ≤ n + 1
    · rw [if_pos hle] at hd
      have := Guarded.drain fuel (n + 1 - a.count) h3 (by simp; omega) hd
      rw [List.drop_drop] at this
      have e : a.count + (n + 1 - a.count) = n + 1 := by omega
      rw [e] at this; exact this
    · rw [if_neg hle] at hd
      simp at hd; subst hd
      rw [guarded_cons]
      refine ⟨by simp; omega, fun s hs => ?_, ?_⟩
      · simp only at hs
        have hs' : s ∈ ss.take a.count := by
          rw [List.take_drop] at hs
          have := List.mem_of_mem_drop hs
          have e : n + 1 + (a.count - (n + 1)) = a.count := by omega
          rw [e] at this; exact this
        have same : anchorChunks ({ a with count := a.count - (n + 1) } :: rest) = anchorChunks (a :: rest) :=
          anchorChunks_eq_of_map (by simp)
        rw [same]; exact h2 s hs'
      · simp only [List.drop_drop]
        have e : n + 1 + (a.count - (n + 1)) = a.count := by omega
        rw [e]; exact h3

theorem Guarded.dropZero {as : List Anchor} : ∀ {ss : List Slice}, Guarded as ss → Guarded (dropZeroAnchors as) ss := by
  induction as with
  | nil => intro ss h; simpa [dropZeroAnchors] using h
  | cons a rest ih =>
    intro ss h
    unfold dropZeroAnchors
    split
    · rename_i h0
      obtain ⟨_, _, h3⟩ := guarded_cons.1 h
      rw [h0] at h3
      exact ih (by simpa using h3)
    · exact h

/-- `consume_by_bytes` shortens the first slice in place. -/
theorem Guarded.shrink_head {as : List Anchor} : ∀ {s s' : Slice} {rest : List Slice},
    Guarded as (s :: rest) → s'.region = s.region → 0 < s'.len → Guarded as (s' :: rest) := by
  induction as with
  | nil => intro s s' rest h; rw [guarded_nil] at h; simp at h
  | cons a as ih =>
    intro s s' rest h hr hl
    obtain ⟨h1, h2, h3⟩ := guarded_cons.1 h
    rw [guarded_cons]
    cases hc : a.count with
    | zero =>
      rw [hc] at h3
      refine ⟨by simp, by simp, ?_⟩
      simp only [List.drop_zero] at h3 ⊢
      exact ih h3 hr hl
    | succ c =>
      rw [hc] at h1 h2 h3
      refine ⟨by simpa using h1, fun x hx => ?_, by simpa using h3⟩
      simp only [List.take_succ_cons, List.mem_cons] at hx h2
      rcases hx with rfl | hx
      · exact ⟨hl, fun k hk => (h2 s (Or.inl rfl)).2 k (hr ▸ hk)⟩
      · exact h2 x (Or.inr hx)

theorem anchorChunks_drain : ∀ (fuel : Nat) {as : List Anchor} (n : Nat) {as' : List Anchor},
    drainAnchors fuel as n = some as' → ∀ k ∈ anchorChunks as', k ∈ anchorChunks as
  | fuel, as, 0, as', hd, k, hk => by
    rw [drainAnchors_zeroO] at hd; simp at hd; subst hd; exact hk
  | 0, as, n + 1, as', hd, _, _ => by simp [drainAnchors] at hd
  | fuel + 1, [], n + 1, as', hd, _, _ => by simp [drainAnchors] at hd
  | fuel + 1, a :: rest, n + 1, as', hd, k, hk => by
    rw [drainAnchors_consO] at hd
    split at hd
    · have := anchorChunks_drain fuel _ hd k hk
      rw [anchorChunks_cons]; exact List.mem_append_right _ this
    · simp at hd; subst hd
      have same : anchorChunks ({ a with count := a.count - (n + 1) } :: rest) = anchorChunks (a :: rest) :=
        anchorChunks_eq_of_map (by simp)
      rw [← same]; exact hk

theorem anchorChunks_dropZero {as : List Anchor} : ∀ k ∈ anchorChunks (dropZeroAnchors as), k ∈ anchorChunks as := by
  induction as with
  | nil => intro k hk; simpa [dropZeroAnchors] using hk
  | cons a rest ih =>
    intro k hk
    unfold dropZeroAnchors at hk
    split at hk
    · rw [anchorChunks_cons]; exact List.mem_append_right _ (ih k hk)
    · exact hk

/-! ### Iov-level operations -/

theorem exists_snoc2 {α} (l : List α) (d : α) (h : 2 ≤ l.length) :
    ∃ ss x y, l = ss ++ [x, y] ∧ l.getD (l.length - 2) d = x ∧ l.getD (l.length - 1) d = y := by
  rcases List.eq_nil_or_concat l with rfl | ⟨l1, y, rfl⟩
  · simp at h
  · rcases List.eq_nil_or_concat l1 with rfl | ⟨ss, x, rfl⟩
    · simp at h
    · refine ⟨ss, x, y, by simp, ?_, ?_⟩
      · simp [List.getD_eq_getElem?_getD]
      · simp [List.getD_eq_getElem?_getD]

/-- What `optimize` does: nothing, or it joins the last two slices (both counted by the last anchor). -/
theorem optimize_spec {v v' : Iov} (h : v.optimize = some v') :
    v' = v ∨ ∃ ss l r as a m, v.slices = ss ++ [l, r] ∧ v.anchors = as ++ [a] ∧ 2 ≤ a.count ∧
      tryJoin v.arena l r = some m ∧
      v' = { v with slices := ss ++ [m], anchors := as ++ [{ a with count := a.count - 1 }] } := by
  unfold Iov.optimize at h
  simp only at h
  split at h
  · left; simpa using h.symm
  · rename_i hn
    split at h
    · simp at h
    · rename_i anchor hlast
      split at h
      · simp at h
      · split at h
        · left; simpa using h.symm
        · split at h
          · left; simpa using h.symm
          · rename_i m hm
            right
            obtain ⟨ss, l, r, hss, hl, hr⟩ := exists_snoc2 v.slices ⟨.ext 0, 0, 0⟩ (by omega)
            obtain ⟨as, has⟩ := eq_snoc_of_getLast? hlast
            rw [hl, hr] at hm
            refine ⟨ss, l, r, as, anchor, m, hss, has, by omega, hm, ?_⟩
            simp at h
            rw [← h, hss, has, setLast_snoc]
            congr 1
            have : (ss ++ [l, r]).dropLast = ss ++ [l] := by
              have : ss ++ [l, r] = (ss ++ [l]) ++ [r] := by simp
              rw [this, List.dropLast_concat]
            rw [this, setLast_snoc]

/-! ### Arena facts -/

/-- `ensure_capacity_internal`: either the current cache has room and nothing changes, or a fresh
chunk (ordinal `next`) with room for `len` replaces it. -/
theorem ensureCapacity_cases (t : Tuning) (a : Arena) (next len : Nat) :
    (∃ c, a.cache = some c ∧ len ≤ c.remaining ∧ ensureCapacity t a next len = (a, next)) ∨
    (∃ cap, len ≤ cap ∧ (∀ c, a.cache = some c → c.remaining < len) ∧
      ensureCapacity t a next len = (⟨some ⟨next, cap, 0⟩⟩, next + 1)) := by
  unfold ensureCapacity
  split
  · rename_i c hc
    split
    · left; exact ⟨c, hc, by assumption, rfl⟩
    · right
      refine ⟨_, Nat.le_max_right _ _, ?_, rfl⟩
      intro c' hc'; rw [hc] at hc'; cases hc'; omega
  · rename_i hc
    right
    refine ⟨_, Nat.le_max_right _ _, ?_, rfl⟩
    intro c' hc'; rw [hc] at hc'; cases hc'

/-- `ByteArena::alloc`: the allocation is `[c.bump, c.bump + len)` of the cache left by `ensure_capacity`. -/
theorem alloc_casesO (t : Tuning) (a : Arena) (next len : Nat) :
    (∃ c, a.cache = some c ∧ len ≤ c.remaining ∧
      alloc t a next len = (⟨some { c with bump := c.bump + len }⟩, next, c.chunk, c.bump)) ∨
    (∃ cap, len ≤ cap ∧ (∀ c, a.cache = some c → c.remaining < len) ∧
      alloc t a next len = (⟨some ⟨next, cap, len⟩⟩, next + 1, next, 0)) := by
  rcases ensureCapacity_cases t a next len with ⟨c, hc, hl, he⟩ | ⟨cap, hl, hr, he⟩
  · left; exact ⟨c, hc, hl, by simp [alloc, he, hc]⟩
  · right; exact ⟨cap, hl, hr, by simp [alloc, he]⟩

theorem tryJoin_spec {a : Arena} {l r m : Slice} (h : tryJoin a l r = some m) :
    ∃ c, a.cache = some c ∧ l.region = .chunk c.chunk ∧ r.region = .chunk c.chunk ∧
      l.off + l.len = r.off ∧ r.off + r.len ≤ c.cap ∧ m = ⟨l.region, l.off, l.len + r.len⟩ := by
  unfold tryJoin at h
  split at h
  · rename_i hc
    simp at h
    obtain ⟨h1, h2, h3⟩ := hc
    unfold arenaContains at h1 h2
    cases hcache : a.cache with
    | none => simp [hcache] at h1
    | some c =>
      simp [hcache] at h1 h2
      exact ⟨c, rfl, h1.1, h2.1, h3, h2.2, h.symm⟩
  · simp at h

/-! ### Per-object invariants -/

/-- A borrowed slice lies inside its caller buffer. -/
def ExtOk (exts : List (List UInt8)) (s : Slice) : Prop :=
  ∀ b, s.region = .ext b → b < exts.length ∧ s.off + s.len ≤ (exts.getD b []).length

/-- The front anchor, if any, still counts a slice: anchors whose slices are all consumed
(and zero-count anchors from `push_anchor`) do not linger at the front. -/
def HeadPos (as : List Anchor) : Prop := ∀ a, as.head? = some a → 0 < a.count

theorem headPos_nil : HeadPos [] := by intro a h; simp at h

theorem HeadPos.append {as : List Anchor} (h : HeadPos as) (hne : as ≠ []) (bs : List Anchor) :
    HeadPos (as ++ bs) := by
  intro a ha
  cases as with
  | nil => exact absurd rfl hne
  | cons x xs => exact h a (by simpa using ha)

theorem HeadPos.snoc_pos {as : List Anchor} (h : HeadPos as) {a : Anchor} (ha : 0 < a.count) :
    HeadPos (as ++ [a]) := by
  cases as with
  | nil => intro b hb; simp at hb; subst hb; exact ha
  | cons x xs => exact h.append (by simp) _

theorem HeadPos.set_last {ys : List Anchor} {a a' : Anchor} (h : HeadPos (ys ++ [a])) (ha : 0 < a'.count) :
    HeadPos (ys ++ [a']) := by
  cases ys with
  | nil => intro b hb; simp at hb; subst hb; exact ha
  | cons x xs => intro b hb; exact h b (by simpa using hb)

theorem headPos_dropZero (as : List Anchor) : HeadPos (dropZeroAnchors as) := by
  induction as with
  | nil => simpa [dropZeroAnchors] using headPos_nil
  | cons a rest ih =>
    unfold dropZeroAnchors
    split
    · exact ih
    · rename_i h0; intro b hb; simp at hb; subst hb; omega

structure IovOk (next : Nat) (exts : List (List UInt8)) (v : Iov) : Prop where
  guard : Guarded v.anchors v.slices
  anchorsLt : ∀ k ∈ anchorChunks v.anchors, k < next
  cacheLt : ∀ c, v.arena.cache = some c → c.chunk < next
  extOk : ∀ s ∈ v.slices, ExtOk exts s
  headPos : HeadPos v.anchors

theorem ExtOk.mono {exts t : List (List UInt8)} {s : Slice} (h : ExtOk exts s) : ExtOk (exts ++ t) s := by
  intro b hb
  obtain ⟨h1, h2⟩ := h b hb
  refine ⟨by simp; omega, ?_⟩
  simp only [List.getD_eq_getElem?_getD] at h2 ⊢
  rw [List.getElem?_append_left h1]; exact h2

theorem IovOk.mono {n n' : Nat} {e t : List (List UInt8)} {v : Iov} (h : IovOk n e v) (hn : n ≤ n') :
    IovOk n' (e ++ t) v :=
  ⟨h.guard, fun k hk => Nat.lt_of_lt_of_le (h.anchorsLt k hk) hn,
   fun c hc => Nat.lt_of_lt_of_le (h.cacheLt c hc) hn, fun s hs => (h.extOk s hs).mono, h.headPos⟩

theorem iovOk_empty (n : Nat) (e : List (List UInt8)) : IovOk n e Iov.empty :=
  ⟨guarded_nil.2 rfl, by simp [anchorChunks, Iov.empty], by simp [Iov.empty], by simp [Iov.empty], headPos_nil⟩

/-- Changing only the arena (and bookkeeping that the guard does not read). -/
theorem IovOk.with_arena {n : Nat} {e : List (List UInt8)} {v : Iov} (h : IovOk n e v) (a : Arena)
    (ha : ∀ c, a.cache = some c → c.chunk < n) : IovOk n e { v with arena := a } :=
  ⟨h.guard, h.anchorsLt, ha, h.extOk, h.headPos⟩

/-! ### `optimize` -/

theorem optimize_guard {v v' : Iov} (zs : List Anchor) (hz : AllZero zs)
    (hg : Guarded (v.anchors ++ zs) v.slices) (h : v.optimize = some v') :
    Guarded (v'.anchors ++ zs) v'.slices := by
  rcases optimize_spec h with rfl | ⟨ss, l, r, as, a, m, hss, has, ha, hj, rfl⟩
  · exact hg
  · obtain ⟨c, _, _, _, _, _, hm⟩ := tryJoin_spec hj
    rw [hss, has, List.append_assoc] at hg
    have hl : 0 < l.len := (hg.mem l (by simp)).1
    simp only [List.append_assoc, List.singleton_append]
    exact hg.merge_last hz ha (by rw [hm]) (by rw [hm]; simp; omega)

theorem optimize_chunks {v v' : Iov} (h : v.optimize = some v') :
    anchorChunks v'.anchors = anchorChunks v.anchors := by
  rcases optimize_spec h with rfl | ⟨ss, l, r, as, a, m, hss, has, ha, hj, rfl⟩
  · rfl
  · rw [has]; exact anchorChunks_eq_of_map (by simp)

theorem optimize_arena {v v' : Iov} (h : v.optimize = some v') : v'.arena = v.arena := by
  rcases optimize_spec h with rfl | ⟨ss, l, r, as, a, m, hss, has, ha, hj, rfl⟩ <;> rfl

theorem optimize_ext {v v' : Iov} (h : v.optimize = some v') :
    ∀ s ∈ v'.slices, ∀ b, s.region = .ext b → s ∈ v.slices := by
  rcases optimize_spec h with rfl | ⟨ss, l, r, as, a, m, hss, has, ha, hj, rfl⟩
  · intro s hs _ _; exact hs
  · intro s hs b hb
    obtain ⟨c, _, hl, _, _, _, hm⟩ := tryJoin_spec hj
    simp only [List.mem_append, List.mem_singleton] at hs
    rcases hs with hs | rfl
    · rw [hss]; simp [hs]
    · rw [hm, hl] at hb; simp at hb

theorem optimize_headPos {v v' : Iov} (hp : HeadPos v.anchors) (h : v.optimize = some v') : HeadPos v'.anchors := by
  rcases optimize_spec h with rfl | ⟨ss, l, r, as, a, m, hss, has, ha, hj, rfl⟩
  · exact hp
  · rw [has] at hp
    exact hp.set_last (by simp; omega)

theorem optimize_anchors_ne_nil {v v' : Iov} (hp : v.anchors ≠ []) (h : v.optimize = some v') : v'.anchors ≠ [] := by
  rcases optimize_spec h with rfl | ⟨ss, l, r, as, a, m, hss, has, ha, hj, rfl⟩
  · exact hp
  · simp

theorem IovOk.optimize {n : Nat} {e : List (List UInt8)} {v v' : Iov} (hv : IovOk n e v)
    (h : v.optimize = some v') : IovOk n e v' :=
  ⟨by simpa using optimize_guard [] (by intro z hz; simp at hz) (by simpa using hv.guard) h,
   by rw [optimize_chunks h]; exact hv.anchorsLt,
   by rw [optimize_arena h]; exact hv.cacheLt,
   fun s hs b hb => hv.extOk s (optimize_ext h s hs b hb) b hb,
   optimize_headPos hv.headPos h⟩

/-! ### `push_borrowed` -/

theorem pushBorrowedSlice_spec {v v' : Iov} {s : Slice} (h : v.pushBorrowedSlice s = some v') :
    0 < s.len ∧ ∃ as a, ((v.anchors = [] ∧ as = [] ∧ a = ⟨0, none⟩) ∨ v.anchors = as ++ [a]) ∧
      Iov.optimize { v with slices := v.slices ++ [s], anchors := as ++ [{ a with count := a.count + 1 }],
                            logicalSize := v.logicalSize + s.len } = some v' := by
  unfold Iov.pushBorrowedSlice at h
  split at h
  · simp at h
  · rename_i hs
    refine ⟨by omega, ?_⟩
    rcases List.eq_nil_or_concat v.anchors with ha | ⟨ys, a, ha⟩
    · refine ⟨[], ⟨0, none⟩, Or.inl ⟨ha, rfl, rfl⟩, ?_⟩
      simpa [ha, setLast] using h
    · rw [List.concat_eq_append] at ha
      refine ⟨ys, a, Or.inr ha, ?_⟩
      rw [ha] at h
      simpa [setLast_snoc] using h

theorem pushBorrowedSlice_guard {v v' : Iov} {s : Slice} (zs : List Anchor) (hz : AllZero zs)
    (hg : Guarded (v.anchors ++ zs) v.slices) (h : v.pushBorrowedSlice s = some v')
    (hs : ∀ k, s.region = .chunk k → k ∈ anchorChunks zs) :
    Guarded (v'.anchors ++ zs) v'.slices := by
  obtain ⟨hl, as, a, hcase, ho⟩ := pushBorrowedSlice_spec h
  refine optimize_guard zs hz ?_ ho
  simp only [List.append_assoc, List.singleton_append]
  have hs' : ∀ k, s.region = .chunk k → k ∈ anchorChunks (a :: zs) := by
    intro k hk; rw [anchorChunks_cons]; exact List.mem_append_right _ (hs k hk)
  rcases hcase with ⟨hnil, rfl, rfl⟩ | hsnoc
  · rw [hnil, List.nil_append] at hg
    have := Guarded.of_allZero hz hg
    rw [this]
    have h0 : Guarded ([] ++ (⟨0, none⟩ : Anchor) :: zs) [] := by
      apply guarded_allZero_nil
      intro z hz'; simp at hz'; rcases hz' with rfl | hz'
      · rfl
      · exact hz z hz'
    exact h0.snoc_inc hz s hl hs'
  · rw [hsnoc, List.append_assoc] at hg
    exact hg.snoc_inc hz s hl hs'

theorem pushBorrowedSlice_headPos {v v' : Iov} {s : Slice} (hp : HeadPos v.anchors)
    (h : v.pushBorrowedSlice s = some v') : HeadPos v'.anchors ∧ v'.anchors ≠ [] := by
  obtain ⟨hl, as, a, hcase, ho⟩ := pushBorrowedSlice_spec h
  refine ⟨optimize_headPos ?_ ho, optimize_anchors_ne_nil (by simp) ho⟩
  rcases hcase with ⟨hnil, rfl, rfl⟩ | hsnoc
  · intro b hb; simp at hb; subst hb; simp
  · rw [hsnoc] at hp
    exact hp.set_last (by simp)

theorem pushBorrowedSlice_chunks {v v' : Iov} {s : Slice} (h : v.pushBorrowedSlice s = some v') :
    anchorChunks v'.anchors = anchorChunks v.anchors := by
  obtain ⟨hl, as, a, hcase, ho⟩ := pushBorrowedSlice_spec h
  rw [optimize_chunks ho]
  rcases hcase with ⟨hnil, rfl, rfl⟩ | hsnoc
  · rw [hnil]; simp [anchorChunks]
  · rw [hsnoc]; exact anchorChunks_eq_of_map (by simp)

theorem pushBorrowedSlice_arena {v v' : Iov} {s : Slice} (h : v.pushBorrowedSlice s = some v') :
    v'.arena = v.arena := by
  obtain ⟨hl, as, a, hcase, ho⟩ := pushBorrowedSlice_spec h
  rw [optimize_arena ho]

theorem pushBorrowedSlice_ext {v v' : Iov} {s : Slice} (h : v.pushBorrowedSlice s = some v') :
    ∀ x ∈ v'.slices, ∀ b, x.region = .ext b → x ∈ v.slices ∨ x = s := by
  obtain ⟨hl, as, a, hcase, ho⟩ := pushBorrowedSlice_spec h
  intro x hx b hb
  have := optimize_ext ho x hx b hb
  simpa using this


/-! ### `consume` / `consume_by_bytes` -/

theorem consumeSlices_specO {v v' : Iov} {count k : Nat} (h : v.consumeSlices count = some (v', k)) :
    k = min count v.slices.length ∧ ∃ as1, drainAnchors (v.anchors.length + 1) v.anchors k = some as1 ∧
      v' = { v with slices := v.slices.drop k, anchors := dropZeroAnchors as1,
                    consumedSize := v.consumedSize + ((v.slices.take k).map (·.len)).foldl (· + ·) 0,
                    consumedSlices := v.consumedSlices + k } := by
  unfold Iov.consumeSlices at h
  simp only at h
  split at h
  · simp at h
  · rename_i as1 hd
    split at h
    · simp at h
    · simp only [Option.some.injEq, Prod.mk.injEq] at h
      obtain ⟨h1, h2⟩ := h
      subst h2
      exact ⟨rfl, as1, hd, h1.symm⟩

theorem IovOk.consumeSlices {n : Nat} {e : List (List UInt8)} {v v' : Iov} {count k : Nat}
    (hv : IovOk n e v) (h : v.consumeSlices count = some (v', k)) : IovOk n e v' := by
  obtain ⟨hk, as1, hd, rfl⟩ := consumeSlices_specO h
  refine ⟨?_, ?_, hv.cacheLt, ?_, headPos_dropZero _⟩
  · exact (hv.guard.drain _ k (by omega) hd).dropZero
  · intro c hc
    exact hv.anchorsLt c (anchorChunks_drain _ k hd c (anchorChunks_dropZero c hc))
  · intro s hs
    exact hv.extOk s (List.mem_of_mem_drop hs)

/-- Induction principle for `consume_by_bytes`: whole slices leave through `consume(1)`, the last
one may be shortened in place. -/
theorem consumeBytes_preserves (P : Iov → Prop)
    (h1 : ∀ v v' k, P v → v.consumeSlices 1 = some (v', k) → P v')
    (h2 : ∀ v s rest n, P v → v.slices = s :: rest → n < s.len →
      P { v with slices := { s with off := s.off + n, len := s.len - n } :: rest, consumedSize := v.consumedSize + n }) :
    ∀ (fuel : Nat) (v : Iov) (count consumed : Nat) (v' : Iov) (c : Nat),
      P v → Iov.consumeBytes fuel v count consumed = some (v', c) → P v' := by
  intro fuel
  induction fuel with
  | zero => intro v count consumed v' c hp h; simp [Iov.consumeBytes] at h; rw [← h.1]; exact hp
  | succ fuel ih =>
    intro v count consumed v' c hp h
    unfold Iov.consumeBytes at h
    split at h
    · simp at h; rw [← h.1]; exact hp
    · split at h
      · simp at h
      · rename_i s rest hs
        simp only at h
        split at h
        · split at h
          · simp at h
          · rename_i v1 k1 hc1
            exact ih _ _ _ _ _ (h1 v v1 k1 hp hc1) h
        · rename_i hn
          simp at h
          rw [← h.1]
          exact h2 v s rest _ hp hs (by omega)

theorem IovOk.consumeBytes {n : Nat} {e : List (List UInt8)} {v v' : Iov} {fuel count consumed c : Nat}
    (hv : IovOk n e v) (h : Iov.consumeBytes fuel v count consumed = some (v', c)) : IovOk n e v' := by
  refine consumeBytes_preserves (IovOk n e) (fun v v' k hp hc => hp.consumeSlices hc) ?_ fuel v count consumed v' c hv h
  intro v s rest m hp hs hm
  refine ⟨?_, hp.anchorsLt, hp.cacheLt, ?_, hp.headPos⟩
  · have := hp.guard
    rw [hs] at this
    exact this.shrink_head rfl (by simp; omega)
  · intro x hx
    simp only [List.mem_cons] at hx
    rcases hx with rfl | hx
    · intro b hb
      have := hp.extOk s (by rw [hs]; simp) b hb
      simp only; omega
    · exact hp.extOk x (by rw [hs]; simp [hx])

/-! ### `push_copy` -/

/-- The anchor bookkeeping of `push_copy` (`merge_ref_or_create` on the last anchor). -/
def copyAnchors (as : List Anchor) (chunk : Nat) : List Anchor :=
  let (old', fresh) := mergeRefOrCreate as.getLast? chunk
  let anchors := match old' with
    | some a => setLast as a
    | none => as
  match fresh with
    | some a => anchors ++ [a]
    | none => anchors

theorem copyAnchors_cases (as : List Anchor) (chunk : Nat) :
    (∃ ys a, as = ys ++ [a] ∧ a.chunk = some chunk ∧ copyAnchors as chunk = ys ++ [{ a with count := a.count + 1 }]) ∨
    ((∀ ys a, as = ys ++ [a] → a.chunk ≠ some chunk) ∧ copyAnchors as chunk = as ++ [⟨1, some chunk⟩]) := by
  rcases List.eq_nil_or_concat as with rfl | ⟨ys, a, rfl⟩
  · right; refine ⟨by simp, by simp [copyAnchors, mergeRefOrCreate]⟩
  · rw [List.concat_eq_append]
    by_cases hc : a.chunk = some chunk
    · left; refine ⟨ys, a, rfl, hc, ?_⟩
      simp [copyAnchors, mergeRefOrCreate, hc, setLast_snoc]
    · right
      refine ⟨?_, ?_⟩
      · intro ys' a' h
        have := List.append_inj_right' h (by simp)
        simp at this; subst this; exact hc
      · simp [copyAnchors, mergeRefOrCreate, hc, setLast_snoc]

theorem copyAnchors_ne_nil (as : List Anchor) (chunk : Nat) : copyAnchors as chunk ≠ [] := by
  rcases copyAnchors_cases as chunk with ⟨ys, a, _, _, h⟩ | ⟨_, h⟩ <;> rw [h] <;> simp

theorem copyAnchors_headPos {as : List Anchor} (hp : HeadPos as) (chunk : Nat) : HeadPos (copyAnchors as chunk) := by
  rcases copyAnchors_cases as chunk with ⟨ys, a, has, hc, h⟩ | ⟨_, h⟩
  · rw [h]; rw [has] at hp; exact hp.set_last (by simp)
  · rw [h]; exact hp.snoc_pos (by simp)

theorem pushCopy_spec {w w' : World} {i : Nat} {src : List UInt8} (h : w.pushCopy i src = some w') :
    ∃ v, w.iov i = some v ∧ ((src = [] ∧ w' = w) ∨
      (src ≠ [] ∧ ∃ arena' next' chunk off v2, alloc w.tun v.arena w.next src.length = (arena', next', chunk, off) ∧
        Iov.optimize { v with slices := v.slices ++ [⟨.chunk chunk, off, src.length⟩],
                              anchors := copyAnchors v.anchors chunk,
                              logicalSize := v.logicalSize + src.length, arena := arena' } = some v2 ∧
        w' = { (w.setIov i (some v2)) with heap := w.heap.write chunk off src, next := next' })) := by
  unfold World.pushCopy at h
  split at h
  · simp at h
  · rename_i v hv
    refine ⟨v, hv, ?_⟩
    split at h
    · rename_i he
      left; simp at he h; exact ⟨he, h.symm⟩
    · rename_i he
      right
      refine ⟨by simpa using he, ?_⟩
      rcases hal : alloc w.tun v.arena w.next src.length with ⟨arena', next', chunk, off⟩
      simp only [hal] at h
      have hne : (copyAnchors v.anchors chunk).isEmpty = false := by
        simpa using copyAnchors_ne_nil v.anchors chunk
      change (if (copyAnchors v.anchors chunk).isEmpty = true then none else _) = _ at h
      rw [hne] at h
      simp only [Bool.false_eq_true, if_false] at h
      split at h
      · simp at h
      · rename_i v2 ho
        simp at h
        exact ⟨arena', next', chunk, off, v2, rfl, ho, h.symm⟩

theorem copyAnchors_guard {as : List Anchor} {ss : List Slice} (hg : Guarded as ss) (chunk off len : Nat)
    (hl : 0 < len) : Guarded (copyAnchors as chunk) (ss ++ [⟨.chunk chunk, off, len⟩]) := by
  rcases copyAnchors_cases as chunk with ⟨ys, a, has, hc, h⟩ | ⟨_, h⟩
  · rw [h]
    rw [has] at hg
    refine Guarded.snoc_inc (zs := []) hg (by intro z hz; simp at hz) _ hl ?_
    intro k hk
    simp at hk; subst hk
    rw [mem_anchorChunks]; exact ⟨a, by simp, hc⟩
  · rw [h]
    exact hg.snoc_new _ _ hl (by intro k hk; simp at hk; rw [hk])

theorem copyAnchors_chunks (as : List Anchor) (chunk : Nat) :
    ∀ k ∈ anchorChunks (copyAnchors as chunk), k ∈ anchorChunks as ∨ k = chunk := by
  rcases copyAnchors_cases as chunk with ⟨ys, a, has, hc, h⟩ | ⟨_, h⟩
  · rw [h, has]
    intro k hk
    left
    rwa [anchorChunks_eq_of_map (bs := ys ++ [a]) (by simp)] at hk
  · rw [h, anchorChunks_append]
    intro k hk
    simp only [List.mem_append] at hk
    rcases hk with hk | hk
    · exact Or.inl hk
    · right; simpa [anchorChunks] using hk

/-! ### The world invariant, stage 1: (N) ids bounded, (G) guard, (A) detached slices anchored, (E) borrows in bounds -/

structure ASliceOk (next : Nat) (s : ASlice) : Prop where
  /-- (A) the anchor holds the chunk the slice points into -/
  anchored : ∀ k, s.slice.region = .chunk k → s.anchor.chunk = some k
  chunkLt : ∀ k, s.anchor.chunk = some k → k < next
  /-- only the empty default slice is not owned -/
  extEmpty : ∀ b, s.slice.region = .ext b → s.slice.len = 0

def ArenaOk (next : Nat) (a : Arena) : Prop := ∀ c, a.cache = some c → c.chunk < next

structure WorldInv (w : World) : Prop where
  iovOk : ∀ i v, w.iov i = some v → IovOk w.next w.exts v
  arenaOk : ∀ j a, w.arena j = some a → ArenaOk w.next a
  asliceOk : ∀ j s, w.aslice j = some s → ASliceOk w.next s

theorem ASliceOk.mono {n n' : Nat} {s : ASlice} (h : ASliceOk n s) (hn : n ≤ n') : ASliceOk n' s :=
  ⟨h.anchored, fun k hk => Nat.lt_of_lt_of_le (h.chunkLt k hk) hn, h.extEmpty⟩

theorem aSliceOk_empty (n : Nat) : ASliceOk n ASlice.empty :=
  ⟨by simp [ASlice.empty], by simp [ASlice.empty], by simp [ASlice.empty]⟩

/-- The workhorse: every object of `w'` is an object of `w` or is shown to be fine directly;
chunk ordinals and caller buffers only grow. -/
theorem WorldInv.transfer {w w' : World} (h : WorldInv w) (hn : w.next ≤ w'.next)
    (he : ∃ t, w'.exts = w.exts ++ t)
    (hi : ∀ j v, w'.iov j = some v → w.iov j = some v ∨ IovOk w'.next w'.exts v)
    (ha : ∀ j a, w'.arena j = some a → w.arena j = some a ∨ ArenaOk w'.next a)
    (hs : ∀ j s, w'.aslice j = some s → w.aslice j = some s ∨ ASliceOk w'.next s) : WorldInv w' := by
  obtain ⟨t, het⟩ := he
  refine ⟨fun j v hv => ?_, fun j a hj => ?_, fun j s hj => ?_⟩
  · rcases hi j v hv with h1 | h1
    · rw [het]; exact (h.iovOk j v h1).mono hn
    · exact h1
  · rcases ha j a hj with h1 | h1
    · exact fun c hc => Nat.lt_of_lt_of_le (h.arenaOk j a h1 c hc) hn
    · exact h1
  · rcases hs j s hj with h1 | h1
    · exact (h.asliceOk j s h1).mono hn
    · exact h1

theorem worldInv_init (pol : Policy) (tun : Tuning) : WorldInv (World.init pol tun) :=
  ⟨by intro i v h; simp [World.init, World.iov] at h,
   by intro i v h; simp [World.init, World.arena] at h,
   by intro i v h; simp [World.init, World.aslice] at h⟩


/-! ### Specifications of the world-level functions -/

theorem pushBorrowed_spec {w w' : World} {i : Nat} {s : Slice} (h : w.pushBorrowed i s = some w') :
    ∃ v, w.iov i = some v ∧ ((s.len = 0 ∧ w' = w) ∨
      (0 < s.len ∧ ∃ v', v.pushBorrowedSlice s = some v' ∧ w' = w.setIov i (some v'))) := by
  unfold World.pushBorrowed at h
  split at h
  · simp at h
  · rename_i v hv
    refine ⟨v, hv, ?_⟩
    split at h
    · rename_i h0; left; simp at h; exact ⟨h0, h.symm⟩
    · rename_i h0
      split at h
      · simp at h
      · rename_i v' hp
        simp at h
        right; exact ⟨by omega, v', hp, h.symm⟩

theorem push_cases {w w' : World} {i : Nat} {s : Slice} (h : w.push i s = some w') :
    w.pushCopy i (w.sliceBytes s) = some w' ∨ w.pushBorrowed i s = some w' := by
  unfold World.push at h
  split at h
  · simp at h
  · simp only at h
    split at h <;> (split at h <;> first | exact Or.inl h | exact Or.inr h)

theorem registerPatch_spec {w w' : World} {i : Nat} {pat : List UInt8} {b : Backref}
    (h : w.registerPatch i pat = some (w', b)) :
    (pat = [] ∧ w' = w ∧ b = none) ∨
    (pat ≠ [] ∧ ∃ w1 v last, w.pushCopy i pat = some w1 ∧ w1.iov i = some v ∧ v.slices.getLast? = some last ∧
      b = some (v.logicalSize, ⟨v.consumedSlices + v.slices.length - 1, last.len - pat.length, pat.length⟩) ∧
      (∀ kk ii, v.backrefs.getLast? = some (kk, ii) → kk < v.logicalSize) ∧ v.logicalSize ≠ 0 ∧
      w' = w1.setIov i (some { v with backrefs := v.backrefs ++
        [(v.logicalSize, ⟨v.consumedSlices + v.slices.length - 1, last.len - pat.length, pat.length⟩)] })) := by
  unfold World.registerPatch at h
  split at h
  · rename_i he; left; simp at he h; exact ⟨he, h.1.symm, h.2.symm⟩
  · rename_i he
    right
    refine ⟨by simpa using he, ?_⟩
    split at h
    · simp at h
    · rename_i w1 hw1
      split at h
      · simp at h
      · rename_i v hv
        split at h
        · simp at h
        · rename_i last hlast
          simp only at h
          split at h
          · rename_i kk ii hgl
            simp at h
            obtain ⟨⟨h1, h2⟩, h3, h4⟩ := h
            refine ⟨w1, v, last, hw1, hv, hlast, h4.symm, ?_, h2, h3.symm⟩
            intro kk' ii' hl; rw [hgl] at hl; cases hl; exact h1
          · rename_i hgl
            simp at h
            obtain ⟨h2, h3, h4⟩ := h
            refine ⟨w1, v, last, hw1, hv, hlast, h4.symm, ?_, h2, h3.symm⟩
            intro kk' ii' hl; rw [hgl] at hl; cases hl

theorem backfill_spec {w w' : World} {i : Nat} {b : Backref} {src : List UInt8} (h : w.backfill i b src = some w') :
    ∃ v, w.iov i = some v ∧ ((b = none ∧ src = [] ∧ w' = w) ∨
      (∃ key info target k, b = some (key, info) ∧ info.len = src.length ∧ (key, info) ∈ v.backrefs ∧
        v.consumedSlices ≤ info.sliceIndex ∧ v.slices[info.sliceIndex - v.consumedSlices]? = some target ∧
        info.begin + src.length ≤ target.len ∧ target.region = .chunk k ∧
        w' = { (w.setIov i (some { v with backrefs := v.backrefs.filter (·.1 ≠ key) })) with
               heap := w.heap.write k (target.off + info.begin) src })) := by
  unfold World.backfill at h
  split at h
  · simp at h
  · rename_i v hv
    refine ⟨v, hv, ?_⟩
    split at h
    · split at h
      · rename_i he; left; simp at he h; exact ⟨rfl, he, h.symm⟩
      · simp at h
    · rename_i key info
      right
      split at h
      · simp at h
      · rename_i hlen
        split at h
        · simp at h
        · rename_i found hfound
          split at h
          · simp at h
          · rename_i hf
            simp only at h
            split at h
            · simp at h
            · rename_i hidx
              split at h
              · simp at h
              · rename_i target htarget
                split at h
                · simp at h
                · rename_i hfit
                  split at h
                  · rename_i k hk
                    simp only [Option.some.injEq] at h
                    have hmem : (key, info) ∈ v.backrefs := by
                      have := List.mem_of_find?_eq_some hfound
                      simp at hf
                      rw [hf] at this; exact this
                    exact ⟨key, info, target, k, rfl, by simpa using hlen, hmem, by omega, htarget, by omega, hk, h.symm⟩
                  · simp at h

theorem consume_spec {w w' : World} {i count k : Nat} (h : w.consume i count = some (w', k)) :
    ∃ v n v', w.iov i = some v ∧ v.stableCount = some n ∧ v.consumeSlices (min count n) = some (v', k) ∧
      w' = w.setIov i (some v') := by
  unfold World.consume at h
  split at h
  · simp at h
  · rename_i v hv
    split at h
    · simp at h
    · rename_i n hn
      split at h
      · simp at h
      · rename_i v' k' hc
        simp at h
        obtain ⟨h1, h2⟩ := h
        subst h2
        exact ⟨v, n, v', hv, hn, hc, h1.symm⟩

theorem advance_spec {w w' : World} {i count c : Nat} (h : w.advance i count = some (w', c)) :
    ∃ v n v' k, w.iov i = some v ∧ v.stableCount = some n ∧
      Iov.consumeBytes (v.slices.length + 1) v k 0 = some (v', c) ∧ w' = w.setIov i (some v') := by
  unfold World.advance at h
  split at h
  · simp at h
  · rename_i v hv
    split at h
    · simp at h
    · rename_i n hn
      simp only at h
      split at h
      · simp at h
      · rename_i v' c' hc
        simp at h
        obtain ⟨h1, h2⟩ := h
        subst h2
        exact ⟨v, n, v', _, hv, hn, hc, h1.symm⟩

/-- Induction principle for `Read for ConsumingIovec`: a loop of `advance_slices`. -/
theorem readInto_preserves (P : World → Prop)
    (hstep : ∀ w w' i k c, P w → w.advance i k = some (w', c) → P w') :
    ∀ (fuel : Nat) (w : World) (i room : Nat) (acc : List UInt8) (w' : World) (out : List UInt8),
      P w → World.readInto fuel w i room acc = some (w', out) → P w' := by
  intro fuel
  induction fuel with
  | zero => intro w i room acc w' out hp h; simp [World.readInto] at h; rw [← h.1]; exact hp
  | succ fuel ih =>
    intro w i room acc w' out hp h
    unfold World.readInto at h
    split at h
    · simp at h; rw [← h.1]; exact hp
    · split at h
      · simp at h
      · split at h
        · simp at h
        · split at h
          · simp at h; rw [← h.1]; exact hp
          · simp only at h
            split at h
            · simp at h
            · rename_i w1 c1 hadv
              exact ih _ _ _ _ _ _ (hstep _ _ _ _ _ hp hadv) h

/-- Induction principle for `extend`: a loop of borrowed pushes. -/
theorem extend_preserves (P : World → Prop)
    (hstep : ∀ w w' i s, P w → 0 < s.len → w.pushBorrowed i s = some w' → P w') :
    ∀ (slices : List Slice) (w : World) (i : Nat) (w' : World),
      P w → w.extend i slices = some w' → (∀ s ∈ slices, True) → P w' := by
  intro slices
  induction slices with
  | nil => intro w i w' hp h _; simp [World.extend] at h; rw [← h]; exact hp
  | cons s rest ih =>
    intro w i w' hp h _
    unfold World.extend at h
    split at h
    · exact ih w i w' hp h (fun _ _ => trivial)
    · rename_i hs
      split at h
      · simp at h
      · rename_i w1 hw1
        exact ih w1 i w' (hstep w w1 i s hp (by omega) hw1) h (fun _ _ => trivial)


/-! ### Preservation of `WorldInv` by the world-level functions -/

@[simp] theorem iov_with_heap_next (w : World) (h : Heap) (n j : Nat) :
    ({ w with heap := h, next := n } : World).iov j = w.iov j := rfl
@[simp] theorem arena_with_heap_next (w : World) (h : Heap) (n j : Nat) :
    ({ w with heap := h, next := n } : World).arena j = w.arena j := rfl
@[simp] theorem aslice_with_heap_next (w : World) (h : Heap) (n j : Nat) :
    ({ w with heap := h, next := n } : World).aslice j = w.aslice j := rfl
@[simp] theorem iov_with_heap (w : World) (h : Heap) (j : Nat) : ({ w with heap := h } : World).iov j = w.iov j := rfl
@[simp] theorem arena_with_heap (w : World) (h : Heap) (j : Nat) : ({ w with heap := h } : World).arena j = w.arena j := rfl
@[simp] theorem aslice_with_heap (w : World) (h : Heap) (j : Nat) : ({ w with heap := h } : World).aslice j = w.aslice j := rfl
@[simp] theorem iov_with_next (w : World) (n j : Nat) : ({ w with next := n } : World).iov j = w.iov j := rfl
@[simp] theorem arena_with_next (w : World) (n j : Nat) : ({ w with next := n } : World).arena j = w.arena j := rfl
@[simp] theorem aslice_with_next (w : World) (n j : Nat) : ({ w with next := n } : World).aslice j = w.aslice j := rfl

theorem alloc_ok {t : Tuning} {a a' : Arena} {next next' len chunk off : Nat} (ha : ArenaOk next a)
    (h : alloc t a next len = (a', next', chunk, off)) :
    next ≤ next' ∧ chunk < next' ∧ ArenaOk next' a' := by
  rcases alloc_casesO t a next len with ⟨c, hc, _, he⟩ | ⟨cap, _, _, he⟩
  · rw [he] at h; simp at h
    obtain ⟨rfl, rfl, rfl, rfl⟩ := h
    refine ⟨Nat.le_refl _, ha c hc, ?_⟩
    intro c' hc'; simp at hc'; subst hc'; exact ha c hc
  · rw [he] at h; simp at h
    obtain ⟨rfl, rfl, rfl, rfl⟩ := h
    refine ⟨by omega, by omega, ?_⟩
    intro c' hc'; simp at hc'; subst hc'; simp

theorem ensureCapacity_ok {t : Tuning} {a a' : Arena} {next next' len : Nat} (ha : ArenaOk next a)
    (h : ensureCapacity t a next len = (a', next')) : next ≤ next' ∧ ArenaOk next' a' := by
  rcases ensureCapacity_cases t a next len with ⟨c, hc, _, he⟩ | ⟨cap, _, _, he⟩
  · rw [he] at h; simp at h
    obtain ⟨rfl, rfl⟩ := h
    exact ⟨Nat.le_refl _, ha⟩
  · rw [he] at h; simp at h
    obtain ⟨rfl, rfl⟩ := h
    refine ⟨by omega, ?_⟩
    intro c' hc'; simp at hc'; subst hc'; simp

theorem WorldInv.pushCopy {w w' : World} {i : Nat} {src : List UInt8} (hw : WorldInv w)
    (h : w.pushCopy i src = some w') : WorldInv w' ∧ w.next ≤ w'.next ∧ w'.exts = w.exts := by
  obtain ⟨v, hv, ⟨_, rfl⟩ | ⟨hne, arena', next', chunk, off, v2, hal, ho, rfl⟩⟩ := pushCopy_spec h
  · exact ⟨hw, Nat.le_refl _, rfl⟩
  · have hvok := hw.iovOk i v hv
    obtain ⟨hn, hck, hao⟩ := alloc_ok hvok.cacheLt hal
    refine ⟨?_, hn, rfl⟩
    refine hw.transfer hn ⟨[], by simp [World.setIov]⟩ ?_ (fun j a hj => Or.inl (by simpa using hj))
      (fun j s hj => Or.inl (by simpa using hj))
    intro j x hj
    simp only [iov_with_heap_next, iov_setIov] at hj
    split at hj
    · right
      simp at hj; subst hj
      refine IovOk.optimize ?_ ho
      have hlen : 0 < src.length := by cases src <;> simp_all
      refine ⟨copyAnchors_guard hvok.guard _ _ _ hlen, ?_, hao, ?_, copyAnchors_headPos hvok.headPos _⟩
      · intro k hk
        rcases copyAnchors_chunks _ _ k hk with hk | rfl
        · exact Nat.lt_of_lt_of_le (hvok.anchorsLt k hk) hn
        · exact hck
      · intro s hs
        simp only [List.mem_append, List.mem_singleton] at hs
        rcases hs with hs | rfl
        · exact hvok.extOk s hs
        · intro b hb; simp at hb
    · exact Or.inl hj

/-- `push_borrowed` of a slice that is a caller buffer, or an owned one whose chunk the anchor pushed
right after it (`push_anchor(c)`) holds. -/
theorem IovOk.pushBorrowedSlice {n : Nat} {e : List (List UInt8)} {v v' : Iov} {s : Slice} (hv : IovOk n e v)
    (h : v.pushBorrowedSlice s = some v') (hs : ExtOk e s) (c : Option Nat)
    (hc : ∀ k, s.region = .chunk k → c = some k) (hcn : ∀ k, c = some k → k < n) :
    IovOk n e { v' with anchors := v'.anchors ++ [⟨0, c⟩] } := by
  have hz : AllZero [(⟨0, c⟩ : Anchor)] := by intro z hz; simp at hz; subst hz; rfl
  have hhp := pushBorrowedSlice_headPos hv.headPos h
  refine ⟨?_, ?_, ?_, ?_, hhp.1.append hhp.2 _⟩
  · refine pushBorrowedSlice_guard _ hz (hv.guard.snoc_anchor c) h ?_
    intro k hk
    rw [mem_anchorChunks]; exact ⟨_, List.mem_singleton.2 rfl, hc k hk⟩
  · intro k hk
    simp only [anchorChunks_append, List.mem_append] at hk
    rcases hk with hk | hk
    · rw [pushBorrowedSlice_chunks h] at hk; exact hv.anchorsLt k hk
    · simp [anchorChunks] at hk; exact hcn k hk
  · simp only; rw [pushBorrowedSlice_arena h]; exact hv.cacheLt
  · intro x hx b hb
    rcases pushBorrowedSlice_ext h x hx b hb with hx | rfl
    · exact hv.extOk x hx b hb
    · exact hs b hb

theorem IovOk.pushBorrowedSlice_noChunk {n : Nat} {e : List (List UInt8)} {v v' : Iov} {s : Slice} (hv : IovOk n e v)
    (h : v.pushBorrowedSlice s = some v') (hs : ExtOk e s) (hc : ∀ k, s.region ≠ .chunk k) : IovOk n e v' := by
  refine ⟨?_, ?_, ?_, ?_, (pushBorrowedSlice_headPos hv.headPos h).1⟩
  · have := pushBorrowedSlice_guard [] (by intro z hz; simp at hz) (by simpa using hv.guard) h
      (by intro k hk; exact absurd hk (hc k))
    simpa using this
  · rw [pushBorrowedSlice_chunks h]; exact hv.anchorsLt
  · rw [pushBorrowedSlice_arena h]; exact hv.cacheLt
  · intro x hx b hb
    rcases pushBorrowedSlice_ext h x hx b hb with hx | rfl
    · exact hv.extOk x hx b hb
    · exact hs b hb

theorem WorldInv.setIov {w : World} {i : Nat} {x : Option Iov} (hw : WorldInv w)
    (hx : ∀ v, x = some v → IovOk w.next w.exts v) : WorldInv (w.setIov i x) := by
  refine hw.transfer (Nat.le_refl _) ⟨[], by simp [World.setIov]⟩ ?_ (fun j a hj => Or.inl (by simpa using hj))
    (fun j s hj => Or.inl (by simpa using hj))
  intro j v hj
  simp only [iov_setIov] at hj
  split at hj
  · exact Or.inr (hx v hj)
  · exact Or.inl hj

theorem WorldInv.pushBorrowed_ext {w w' : World} {i : Nat} {s : Slice} (hw : WorldInv w)
    (h : w.pushBorrowed i s = some w') (hs : ExtOk w.exts s) (hc : ∀ k, s.region ≠ .chunk k) :
    WorldInv w' ∧ w'.next = w.next ∧ w'.exts = w.exts := by
  obtain ⟨v, hv, ⟨_, rfl⟩ | ⟨_, v', hp, rfl⟩⟩ := pushBorrowed_spec h
  · exact ⟨hw, rfl, rfl⟩
  · refine ⟨hw.setIov ?_, rfl, rfl⟩
    intro x hx; cases hx
    exact (hw.iovOk i v hv).pushBorrowedSlice_noChunk hp hs hc

/-! caller buffers -/

def addExtStep (acc : World × List Slice) (bs : List UInt8) : World × List Slice :=
  ({ acc.1 with exts := acc.1.exts ++ [bs] }, acc.2 ++ [⟨.ext acc.1.exts.length, 0, bs.length⟩])

theorem addExts_eq (w : World) (bufs : List (List UInt8)) : w.addExts bufs = bufs.foldl addExtStep (w, []) := rfl

theorem addExts_go (bufs : List (List UInt8)) : ∀ (w : World) (acc : List Slice),
    (bufs.foldl addExtStep (w, acc)).1 = { w with exts := w.exts ++ bufs } ∧
    ∃ new, (bufs.foldl addExtStep (w, acc)).2 = acc ++ new ∧
      ∀ s ∈ new, (∃ b, s.region = .ext b) ∧ ExtOk (w.exts ++ bufs) s := by
  induction bufs with
  | nil => intro w acc; exact ⟨by simp, [], by simp, by simp⟩
  | cons bs rest ih =>
    intro w acc
    rw [List.foldl_cons]
    obtain ⟨h1, new, h2, h3⟩ := ih { w with exts := w.exts ++ [bs] } (acc ++ [⟨.ext w.exts.length, 0, bs.length⟩])
    refine ⟨?_, ⟨.ext w.exts.length, 0, bs.length⟩ :: new, ?_, ?_⟩
    · show (List.foldl addExtStep ({ w with exts := w.exts ++ [bs] }, acc ++ [⟨.ext w.exts.length, 0, bs.length⟩]) rest).1 = _
      rw [h1]; simp
    · show (List.foldl addExtStep ({ w with exts := w.exts ++ [bs] }, acc ++ [⟨.ext w.exts.length, 0, bs.length⟩]) rest).2 = _
      rw [h2]; simp
    intro s hs
    simp only [List.mem_cons] at hs
    rcases hs with rfl | hs
    · refine ⟨⟨_, rfl⟩, ?_⟩
      intro b hb
      simp at hb; subst hb
      refine ⟨by simp, ?_⟩
      simp [List.getD_eq_getElem?_getD]
    · have := h3 s hs
      simpa using this

theorem addExts_spec (w : World) (bufs : List (List UInt8)) :
    (w.addExts bufs).1 = { w with exts := w.exts ++ bufs } ∧
    ∀ s ∈ (w.addExts bufs).2, (∃ b, s.region = .ext b) ∧ ExtOk (w.exts ++ bufs) s := by
  obtain ⟨h1, new, h2, h3⟩ := addExts_go bufs w []
  rw [addExts_eq]
  refine ⟨h1, ?_⟩
  rw [h2]; simpa using h3

theorem WorldInv.with_exts {w : World} (hw : WorldInv w) (t : List (List UInt8)) :
    WorldInv { w with exts := w.exts ++ t } :=
  hw.transfer (Nat.le_refl _) ⟨t, rfl⟩ (fun _ _ h => Or.inl h) (fun _ _ h => Or.inl h) (fun _ _ h => Or.inl h)

theorem WorldInv.extend {w w' : World} {i : Nat} {slices : List Slice} (hw : WorldInv w)
    (h : w.extend i slices = some w') (hs : ∀ s ∈ slices, (∃ b, s.region = .ext b) ∧ ExtOk w.exts s) :
    WorldInv w' ∧ w'.next = w.next ∧ w'.exts = w.exts := by
  induction slices generalizing w with
  | nil => simp [World.extend] at h; subst h; exact ⟨hw, rfl, rfl⟩
  | cons s rest ih =>
    unfold World.extend at h
    split at h
    · exact ih hw h (fun x hx => hs x (by simp [hx]))
    · split at h
      · simp at h
      · rename_i w1 hw1
        obtain ⟨⟨b, hb⟩, hext⟩ := hs s (by simp)
        obtain ⟨h1, h2, h3⟩ := hw.pushBorrowed_ext hw1 hext (by intro k hk; rw [hb] at hk; cases hk)
        obtain ⟨h4, h5, h6⟩ := ih h1 h (fun x hx => by rw [h3]; exact hs x (by simp [hx]))
        exact ⟨h4, by rw [h5, h2], by rw [h6, h3]⟩

theorem WorldInv.addIov {w : World} {v : Iov} (hw : WorldInv w) (hv : IovOk w.next w.exts v) :
    WorldInv (w.addIov v).1 := by
  refine hw.transfer (Nat.le_refl _) ⟨[], by simp [World.addIov]⟩ ?_ (fun j a hj => Or.inl (by simpa using hj))
    (fun j s hj => Or.inl (by simpa using hj))
  intro j x hj
  simp only [iov_addIov] at hj
  split at hj
  · simp at hj; subst hj; exact Or.inr hv
  · exact Or.inl hj

theorem WorldInv.addArena {w : World} {a : Arena} (hw : WorldInv w) (ha : ArenaOk w.next a) :
    WorldInv (w.addArena a).1 := by
  refine hw.transfer (Nat.le_refl _) ⟨[], by simp [World.addArena]⟩ (fun j a hj => Or.inl (by simpa using hj)) ?_
    (fun j s hj => Or.inl (by simpa using hj))
  intro j x hj
  simp only [arena_addArena] at hj
  split at hj
  · simp at hj; subst hj; exact Or.inr ha
  · exact Or.inl hj

theorem WorldInv.addASlice {w : World} {s : ASlice} (hw : WorldInv w) (hs : ASliceOk w.next s) :
    WorldInv (w.addASlice s).1 := by
  refine hw.transfer (Nat.le_refl _) ⟨[], by simp [World.addASlice]⟩ (fun j a hj => Or.inl (by simpa using hj))
    (fun j s hj => Or.inl (by simpa using hj)) ?_
  intro j x hj
  simp only [aslice_addASlice] at hj
  split at hj
  · simp at hj; subst hj; exact Or.inr hs
  · exact Or.inl hj

theorem WorldInv.setArena {w : World} {i : Nat} {x : Option Arena} (hw : WorldInv w)
    (hx : ∀ a, x = some a → ArenaOk w.next a) : WorldInv (w.setArena i x) := by
  refine hw.transfer (Nat.le_refl _) ⟨[], by simp [World.setArena]⟩ (fun j a hj => Or.inl (by simpa using hj)) ?_
    (fun j s hj => Or.inl (by simpa using hj))
  intro j v hj
  simp only [arena_setArena] at hj
  split at hj
  · exact Or.inr (hx v hj)
  · exact Or.inl hj

theorem WorldInv.setASlice {w : World} {i : Nat} {x : Option ASlice} (hw : WorldInv w)
    (hx : ∀ a, x = some a → ASliceOk w.next a) : WorldInv (w.setASlice i x) := by
  refine hw.transfer (Nat.le_refl _) ⟨[], by simp [World.setASlice]⟩ (fun j a hj => Or.inl (by simpa using hj))
    (fun j s hj => Or.inl (by simpa using hj)) ?_
  intro j v hj
  simp only [aslice_setASlice] at hj
  split at hj
  · exact Or.inr (hx v hj)
  · exact Or.inl hj

theorem WorldInv.with_heap {w : World} (hw : WorldInv w) (h : Heap) : WorldInv { w with heap := h } :=
  ⟨hw.iovOk, hw.arenaOk, hw.asliceOk⟩

theorem WorldInv.with_next {w : World} (hw : WorldInv w) {n : Nat} (hn : w.next ≤ n) : WorldInv { w with next := n } :=
  hw.transfer hn ⟨[], by simp⟩ (fun _ _ h => Or.inl h) (fun _ _ h => Or.inl h) (fun _ _ h => Or.inl h)

theorem WorldInv.with_brefs {w : World} (hw : WorldInv w) (b : List Backref) : WorldInv { w with brefs := b } :=
  ⟨hw.iovOk, hw.arenaOk, hw.asliceOk⟩

theorem IovOk.with_backrefs {n : Nat} {e : List (List UInt8)} {v : Iov} (h : IovOk n e v)
    (b : List (Nat × BackrefInfo)) : IovOk n e { v with backrefs := b } :=
  ⟨h.guard, h.anchorsLt, h.cacheLt, h.extOk, h.headPos⟩


theorem release_ok {n : Nat} {a : Arena} (ha : ArenaOk n a) (k : Nat) : ArenaOk n (release a k) := by
  unfold release
  split
  · rename_i c hc
    intro c' hc'; simp at hc'; subst hc'; exact ha c hc
  · exact ha

theorem readN_inv {w w1 : World} {a ar' : Arena} {r : ReadN.Reader} {count attempts : Nat}
    {res : Except Nat ASlice} {o : ReadN.Out} (ha : ArenaOk w.next a)
    (h : w.readN a r count attempts = (w1, ar', res, o)) :
    (∃ hp nx, w1 = { w with heap := hp, next := nx }) ∧ w.next ≤ w1.next ∧ ArenaOk w1.next ar' ∧
      ∀ s, res = .ok s → ASliceOk w1.next s := by
  unfold World.readN at h
  split at h
  · simp at h
    obtain ⟨rfl, rfl, rfl, _⟩ := h
    refine ⟨⟨w.heap, w.next, rfl⟩, Nat.le_refl _, ha, ?_⟩
    intro s hs; cases hs; exact aSliceOk_empty _
  · rcases hal : alloc w.tun a w.next count with ⟨a1, next1, chunk, off⟩
    obtain ⟨hn, hck, hao⟩ := alloc_ok ha hal
    simp only [hal] at h
    cases hres : (ReadN.readNCore r count attempts).res with
    | ok got =>
      simp only [hres] at h
      simp only [Prod.mk.injEq] at h
      obtain ⟨rfl, rfl, rfl, _⟩ := h
      refine ⟨⟨_, _, rfl⟩, hn, release_ok hao _, ?_⟩
      intro s hs
      simp at hs; subst hs
      exact ⟨by intro k hk; simp at hk; simp [hk], by intro k hk; simp at hk; subst hk; exact hck,
        by intro b hb; simp at hb⟩
    | err k =>
      simp only [hres] at h
      simp only [Prod.mk.injEq] at h
      obtain ⟨rfl, rfl, rfl, _⟩ := h
      refine ⟨⟨_, _, rfl⟩, hn, release_ok hao _, ?_⟩
      intro s hs; cases hs

theorem WorldInv.consume {w w' : World} {i count k : Nat} (hw : WorldInv w)
    (h : w.consume i count = some (w', k)) : WorldInv w' := by
  obtain ⟨v, n, v', hv, _, hc, rfl⟩ := consume_spec h
  exact hw.setIov (by intro x hx; cases hx; exact (hw.iovOk i v hv).consumeSlices hc)

theorem WorldInv.advance {w w' : World} {i count c : Nat} (hw : WorldInv w)
    (h : w.advance i count = some (w', c)) : WorldInv w' := by
  obtain ⟨v, n, v', k, hv, _, hc, rfl⟩ := advance_spec h
  exact hw.setIov (by intro x hx; cases hx; exact (hw.iovOk i v hv).consumeBytes hc)

theorem WorldInv.readInto {w w' : World} {fuel i room : Nat} {acc out : List UInt8} (hw : WorldInv w)
    (h : World.readInto fuel w i room acc = some (w', out)) : WorldInv w' :=
  readInto_preserves WorldInv (fun _ _ _ _ _ hp ha => hp.advance ha) fuel w i room acc w' out hw h

theorem WorldInv.registerPatch {w w' : World} {i : Nat} {pat : List UInt8} {b : Backref} (hw : WorldInv w)
    (h : w.registerPatch i pat = some (w', b)) : WorldInv w' := by
  rcases registerPatch_spec h with ⟨_, rfl, _⟩ | ⟨_, w1, v, last, hpc, hv, _, _, _, _, rfl⟩
  · exact hw
  · have h1 := (hw.pushCopy hpc).1
    exact h1.setIov (by intro x hx; cases hx; exact (h1.iovOk i v hv).with_backrefs _)

theorem WorldInv.backfill {w w' : World} {i : Nat} {b : Backref} {src : List UInt8} (hw : WorldInv w)
    (h : w.backfill i b src = some w') : WorldInv w' := by
  obtain ⟨v, hv, ⟨_, _, rfl⟩ | ⟨key, info, target, k, _, _, _, _, _, _, _, rfl⟩⟩ := backfill_spec h
  · exact hw
  · exact (hw.setIov (by intro x hx; cases hx; exact (hw.iovOk i v hv).with_backrefs _)).with_heap _

theorem WorldInv.newFromSlices {w : World} {slices : List Slice} {a : Arena} (hw : WorldInv w)
    (hs : ∀ s ∈ slices, (∃ b, s.region = .ext b) ∧ ExtOk w.exts s) (ha : ArenaOk w.next a) :
    WorldInv (w.newFromSlices slices a).1 := by
  unfold World.newFromSlices
  refine hw.addIov ?_
  refine ⟨?_, ?_, ha, ?_, ?_⟩
  rotate_right
  · simp only
    split
    · exact headPos_nil
    · rename_i he
      intro b hb; simp at hb; subst hb
      simp only
      cases hf : List.filter (fun s => decide (s.len > 0)) slices with
      | nil => simp [hf] at he
      | cons x xs => simp
  · simp only
    split
    · rename_i he
      rw [List.isEmpty_iff] at he
      rw [he]; exact guarded_nil.2 rfl
    · rw [guarded_cons]
      refine ⟨Nat.le_refl _, ?_, by simp [guarded_nil]⟩
      intro s hs'
      rw [List.take_length] at hs'
      have := List.mem_filter.1 hs'
      refine ⟨by simpa using this.2, ?_⟩
      intro k hk
      obtain ⟨⟨b, hb⟩, _⟩ := hs s this.1
      rw [hb] at hk; cases hk
  · simp only
    split <;> simp [anchorChunks]
  · intro s hs'
    simp only at hs'
    exact (hs s (List.mem_filter.1 hs').1).2

theorem Heap.read_length (h : Heap) (k off len : Nat) : (h.read k off len).length = len := by
  simp [Heap.read]; omega

theorem pushCopy_anchors_ne_nil {w w' : World} {i : Nat} {src : List UInt8} (h : w.pushCopy i src = some w')
    (hne : src ≠ []) : ∀ v', w'.iov i = some v' → v'.anchors ≠ [] := by
  obtain ⟨v, hv, ⟨he, _⟩ | ⟨_, arena', next', chunk, off, v2, hal, ho, rfl⟩⟩ := pushCopy_spec h
  · exact absurd he hne
  · intro v' hv'
    simp at hv'; subst hv'
    exact optimize_anchors_ne_nil (copyAnchors_ne_nil _ _) ho

theorem ASliceOk.with_slice {n : Nat} {s : ASlice} (h : ASliceOk n s) (sl : Slice) (hr : sl.region = s.slice.region)
    (hl : sl.len ≤ s.slice.len) : ASliceOk n { s with slice := sl } :=
  ⟨fun k hk => h.anchored k (hr ▸ hk), h.chunkLt, fun b hb => by
    have := h.extEmpty b (hr ▸ hb); simp only; omega⟩

theorem splitAt_ok {n : Nat} {s : ASlice} (h : ASliceOk n s) (mid : Nat) :
    ASliceOk n (s.splitAt mid).1 ∧ ASliceOk n (s.splitAt mid).2 := by
  unfold ASlice.splitAt
  split
  · exact ⟨h, aSliceOk_empty n⟩
  · exact ⟨h.with_slice _ rfl (by simp; omega), h.with_slice _ rfl (by simp)⟩

/-- (glue) a non-empty in-bounds sub-slice of a known caller buffer. -/
theorem extOk_at {exts : List (List UInt8)} {b off len : Nat} (h : off + len ≤ (exts.getD b []).length)
    (hl : 0 < len) : ExtOk exts ⟨.ext b, off, len⟩ := by
  intro b' hb'
  simp only [Region.ext.injEq] at hb'; subst hb'
  refine ⟨?_, h⟩
  apply Nat.lt_of_not_le; intro hge
  simp only [List.getD_eq_getElem?_getD, List.getElem?_eq_none hge, Option.getD_none, List.length_nil] at h
  omega

theorem WorldInv.pushBorrowed_at {w w' : World} {i b off len : Nat} (hw : WorldInv w)
    (h : w.pushBorrowed i ⟨.ext b, off, len⟩ = some w') (hb : off + len ≤ (w.exts.getD b []).length) :
    WorldInv w' := by
  by_cases h0 : len = 0
  · obtain ⟨v, hv, ⟨_, rfl⟩ | ⟨hpos, _⟩⟩ := pushBorrowed_spec h
    · exact hw
    · simp only at hpos; omega
  · exact (hw.pushBorrowed_ext h (extOk_at hb (by omega)) (by intro k hk; simp at hk)).1

/-- (N), (G), (A), (E) are preserved by every operation of the vocabulary. -/
theorem WorldInv.step {w w' : World} {op : WOp} (hw : WorldInv w) (h : w.step op = some w') : WorldInv w' := by
  cases op with
  | new => simp [World.step] at h; subst h; exact hw.addIov (iovOk_empty _ _)
  | newArena => simp [World.step] at h; subst h; exact hw.addArena (by intro c hc; simp at hc)
  | newFromArena a =>
    simp only [World.step] at h
    split at h
    · rename_i ar har
      simp at h; subst h
      refine (hw.setArena (by intro a ha; cases ha)).addIov ?_
      exact (iovOk_empty _ _).with_arena ar (hw.arenaOk a ar har)
    · simp at h
  | newFromSlices bufs =>
    simp only [World.step] at h
    obtain ⟨h1, h2⟩ := addExts_spec w bufs
    simp at h; subst h
    rw [h1]
    exact (hw.with_exts bufs).newFromSlices (fun s hs => h2 s hs) (by intro c hc; simp at hc)
  | push i bs =>
    simp only [World.step, World.addExt] at h
    have hw1 : WorldInv { w with exts := w.exts ++ [bs] } := hw.with_exts [bs]
    have hext : ExtOk (w.exts ++ [bs]) ⟨.ext w.exts.length, 0, bs.length⟩ := by
      intro b hb; simp at hb; subst hb
      exact ⟨by simp, by simp [List.getD_eq_getElem?_getD]⟩
    rcases push_cases h with h | h
    · exact (hw1.pushCopy h).1
    · exact (hw1.pushBorrowed_ext h hext (by intro k hk; simp at hk)).1
  | pushBorrowed i bs =>
    simp only [World.step, World.addExt] at h
    have hw1 : WorldInv { w with exts := w.exts ++ [bs] } := hw.with_exts [bs]
    have hext : ExtOk (w.exts ++ [bs]) ⟨.ext w.exts.length, 0, bs.length⟩ := by
      intro b hb; simp at hb; subst hb
      exact ⟨by simp, by simp [List.getD_eq_getElem?_getD]⟩
    exact (hw1.pushBorrowed_ext h hext (by intro k hk; simp at hk)).1
  | pushCopy i bs => exact (hw.pushCopy h).1
  | register i pat =>
    simp only [World.step] at h
    split at h
    · rename_i w1 b hr
      simp at h; subst h
      exact (hw.registerPatch hr).with_brefs _
    · simp at h
  | extend i bufs =>
    simp only [World.step] at h
    obtain ⟨h1, h2⟩ := addExts_spec w bufs
    rw [h1] at h
    exact ((hw.with_exts bufs).extend h h2).1
  | consume i k =>
    simp only [World.step] at h
    split at h
    · rename_i w1 c hc; simp at h; subst h; exact hw.consume hc
    · simp at h
  | advance i k =>
    simp only [World.step] at h
    split at h
    · rename_i w1 c hc; simp at h; subst h; exact hw.advance hc
    · simp at h
  | read i k =>
    simp only [World.step] at h
    split at h
    · rename_i w1 c hc; simp at h; subst h; exact hw.readInto hc
    · simp at h
  | reserve i k =>
    simp only [World.step] at h
    split at h
    · rename_i v hv
      rcases hec : ensureCapacity w.tun v.arena w.next k with ⟨a', nx⟩
      simp [hec] at h; subst h
      have hvok := hw.iovOk i v hv
      obtain ⟨hn, hao⟩ := ensureCapacity_ok hvok.cacheLt hec
      refine (hw.with_next hn).setIov ?_
      intro x hx; cases hx
      have := (hvok.mono (t := []) hn).with_arena a' hao
      simpa using this
    · simp at h
  | pushASlice i si =>
    simp only [World.step] at h
    split at h
    · rename_i a ha
      have haok := hw.asliceOk si a ha
      have hw0 : WorldInv (w.setASlice si none) := hw.setASlice (by intro x hx; cases hx)
      split at h
      · simp at h; subst h; exact hw0
      · rename_i hlen
        split at h
        · rename_i w1 hpush
          unfold World.pushAnchor at h
          split at h
          · simp at h
          · rename_i v1 hv1
            simp at h; subst h
            rcases push_cases hpush with hp | hp
            · have h1 := (hw0.pushCopy hp).1
              refine h1.setIov ?_
              intro x hx; cases hx
              have hv1ok := h1.iovOk i v1 hv1
              have hne : v1.anchors ≠ [] := by
                refine pushCopy_anchors_ne_nil hp ?_ v1 hv1
                intro he
                have hlen0 := congrArg List.length he
                cases hreg : a.slice.region with
                | ext b => exact hlen (haok.extEmpty b hreg)
                | chunk k =>
                  simp only [World.sliceBytes, hreg, Heap.read_length, List.length_nil] at hlen0
                  exact hlen hlen0
              refine ⟨hv1ok.guard.snoc_anchor _, ?_, hv1ok.cacheLt, hv1ok.extOk, hv1ok.headPos.append hne _⟩
              intro k hk
              simp only [anchorChunks_append, List.mem_append] at hk
              rcases hk with hk | hk
              · exact hv1ok.anchorsLt k hk
              · simp [anchorChunks] at hk
                exact Nat.lt_of_lt_of_le (haok.chunkLt k hk) (hw0.pushCopy hp).2.1
            · obtain ⟨v, hv, ⟨h0, _⟩ | ⟨_, v', hpb, rfl⟩⟩ := pushBorrowed_spec hp
              · omega
              · simp at hv1; subst hv1
                have hvok := hw0.iovOk i v hv
                have : IovOk w.next w.exts { v' with anchors := v'.anchors ++ [⟨0, a.anchor.chunk⟩] } := by
                  refine hvok.pushBorrowedSlice hpb ?_ a.anchor.chunk haok.anchored haok.chunkLt
                  intro b hb; have := haok.extEmpty b hb; omega
                have h2 : WorldInv ((w.setASlice si none).setIov i (some { v' with anchors := v'.anchors ++ [⟨0, a.anchor.chunk⟩] })) :=
                  hw0.setIov (by intro x hx; cases hx; exact this)
                refine h2.transfer (Nat.le_refl _) ⟨[], by simp [World.setIov]⟩ ?_ (fun _ _ h => Or.inl (by simpa using h))
                  (fun _ _ h => Or.inl (by simpa using h))
                intro j x hj
                left
                simp only [iov_setIov] at hj ⊢
                split at hj <;> simp_all
        · simp at h
    · simp at h
  | swapArena i ai =>
    simp only [World.step] at h
    split at h
    · rename_i v ar hv har
      simp at h; subst h
      refine (hw.setArena (by intro a ha; cases ha; exact (hw.iovOk i v hv).cacheLt)).setIov ?_
      intro x hx; cases hx
      exact (hw.iovOk i v hv).with_arena ar (hw.arenaOk ai ar har)
    · simp at h
  | aReserve ai k =>
    simp only [World.step] at h
    split at h
    · rename_i ar har
      rcases hec : ensureCapacity w.tun ar w.next k with ⟨a', nx⟩
      simp [hec] at h; subst h
      obtain ⟨hn, hao⟩ := ensureCapacity_ok (hw.arenaOk ai ar har) hec
      exact (hw.with_next hn).setArena (by intro x hx; cases hx; exact hao)
    · simp at h
  | sSkip si k =>
    simp only [World.step] at h
    split at h
    · rename_i a ha
      simp at h; subst h
      refine hw.setASlice ?_
      intro x hx; cases hx
      exact (hw.asliceOk si a ha).with_slice _ rfl (by simp)
    · simp at h
  | sDropSuf si k =>
    simp only [World.step] at h
    split at h
    · rename_i a ha
      simp at h; subst h
      refine hw.setASlice ?_
      intro x hx; cases hx
      exact (hw.asliceOk si a ha).with_slice _ rfl (by simp)
    · simp at h
  | sSplit si k =>
    simp only [World.step] at h
    split at h
    · rename_i a ha
      simp at h; subst h
      obtain ⟨h1, h2⟩ := splitAt_ok (hw.asliceOk si a ha) k
      exact ((hw.setASlice (by intro x hx; cases hx)).addASlice h1).addASlice h2
    · simp at h
  | backfill i bi bs =>
    simp only [World.step] at h
    split at h
    · exact hw.backfill h
    · simp at h
  | pop i =>
    simp only [World.step] at h
    split at h
    · rename_i w1 hc; simp at h; subst h; exact hw.consume hc
    · simp at h
  | clear i =>
    simp only [World.step, World.clear] at h
    split at h
    · simp at h
    · rename_i v hv
      simp at h; subst h
      exact hw.setIov (by intro x hx; cases hx; exact (iovOk_empty _ _).with_arena _ (hw.iovOk i v hv).cacheLt)
  | take i =>
    simp only [World.step, World.take] at h
    split at h
    · rename_i w1 j ht
      split at ht
      · simp at ht
      · rename_i v hv
        simp at ht h
        subst h
        rw [← ht.1]
        exact (hw.setIov (by intro x hx; cases hx; exact iovOk_empty _ _)).addIov (hw.iovOk i v hv)
    · simp at h
  | clone i =>
    simp only [World.step, World.clone] at h
    split at h
    · rename_i w1 j ht
      split at ht
      · simp at ht
      · rename_i v hv
        simp only [Option.some.injEq] at ht
        simp at h
        subst h
        have e : w1 = (w.addIov { v with arena := ⟨none⟩ }).1 := by rw [ht]
        rw [e]
        exact hw.addIov ((hw.iovOk i v hv).with_arena _ (by intro c hc; simp at hc))
    · simp at h
  | drop i =>
    simp only [World.step, World.dropIov] at h
    split at h
    · simp at h
    · simp at h; subst h; exact hw.setIov (by intro x hx; cases hx)
  | flush i =>
    simp only [World.step] at h
    split at h
    · rename_i v hv
      simp at h; subst h
      exact hw.setIov (by intro x hx; cases hx; exact (hw.iovOk i v hv).with_arena _ (by intro c hc; simp [flush] at hc))
    · simp at h
  | takeArena i =>
    simp only [World.step] at h
    split at h
    · rename_i v hv
      simp at h; subst h
      exact (hw.setIov (by intro x hx; cases hx; exact (hw.iovOk i v hv).with_arena _ (by intro c hc; simp at hc))).addArena
        (hw.iovOk i v hv).cacheLt
    · simp at h
  | aFlush ai =>
    simp only [World.step] at h
    split at h
    · simp at h; subst h
      exact hw.setArena (by intro x hx; cases hx; intro c hc; simp [flush] at hc)
    · simp at h
  | dropArena ai =>
    simp only [World.step] at h
    split at h
    · simp at h; subst h; exact hw.setArena (by intro x hx; cases hx)
    · simp at h
  | sTake si =>
    simp only [World.step] at h
    split at h
    · rename_i a ha
      simp at h; subst h
      exact (hw.setASlice (by intro x hx; cases hx; exact aSliceOk_empty _)).addASlice (hw.asliceOk si a ha)
    · simp at h
  | sClone si =>
    simp only [World.step] at h
    split at h
    · rename_i a ha
      simp at h; subst h
      exact hw.addASlice (hw.asliceOk si a ha)
    · simp at h
  | sDrop si =>
    simp only [World.step] at h
    split at h
    · simp at h; subst h; exact hw.setASlice (by intro x hx; cases hx)
    · simp at h
  | readNIov i count attempts src script =>
    simp only [World.step, World.readNIov] at h
    split at h
    · simp at h
    · rename_i v hv
      rcases hr : w.readN v.arena ⟨src, script⟩ count attempts with ⟨w1, ar', res, o⟩
      simp only [hr] at h
      obtain ⟨⟨hp, nx, rfl⟩, hn, hao, hres⟩ := readN_inv (hw.iovOk i v hv).cacheLt hr
      have hw1 : WorldInv { w with heap := hp, next := nx } := (hw.with_next hn).with_heap hp
      have hiov : ({ w with heap := hp, next := nx } : World).iov i = some v := hv
      simp only [hiov] at h
      have hw2 : WorldInv (({ w with heap := hp, next := nx } : World).setIov i (some { v with arena := ar' })) :=
        hw1.setIov (by intro x hx; cases hx; exact (hw1.iovOk i v hiov).with_arena _ hao)
      cases res with
      | ok a => simp at h; subst h; exact hw2.addASlice (hres a rfl)
      | error k => simp at h; subst h; exact hw2
  | readNArena j count attempts src script =>
    simp only [World.step, World.readNArena] at h
    split at h
    · simp at h
    · rename_i ar har
      rcases hr : w.readN ar ⟨src, script⟩ count attempts with ⟨w1, ar', res, o⟩
      simp only [hr] at h
      obtain ⟨⟨hp, nx, rfl⟩, hn, hao, hres⟩ := readN_inv (hw.arenaOk j ar har) hr
      have hw1 : WorldInv { w with heap := hp, next := nx } := (hw.with_next hn).with_heap hp
      have hw2 : WorldInv (({ w with heap := hp, next := nx } : World).setArena j (some ar')) :=
        hw1.setArena (by intro x hx; cases hx; exact hao)
      cases res with
      | ok a => simp at h; subst h; exact hw2.addASlice (hres a rfl)
      | error k => simp at h; subst h; exact hw2
  | lend bs => simp [World.step, World.addExt] at h; subst h; exact hw.with_exts [bs]
  | pushAt i b off len =>
    simp only [World.step] at h
    split at h
    · rename_i hb
      rcases push_cases h with h | h
      · exact (hw.pushCopy h).1
      · exact hw.pushBorrowed_at h hb
    · simp at h
  | pushBorrowedAt i b off len =>
    simp only [World.step] at h
    split at h
    · rename_i hb; exact hw.pushBorrowed_at h hb
    · simp at h


/-! ### Histories -/

theorem run_preserves (P : World → Prop) (hstep : ∀ w w' op, P w → w.step op = some w' → P w') :
    ∀ (ops : List WOp) (w w' : World), P w → w.run ops = some w' → P w' := by
  intro ops
  induction ops with
  | nil => intro w w' hp h; simp [World.run] at h; subst h; exact hp
  | cons op rest ih =>
    intro w w' hp h
    unfold World.run at h
    split at h
    · rename_i w1 h1; exact ih w1 w' (hstep w w1 op hp h1) h
    · simp at h

theorem run_append (w : World) (ops1 ops2 : List WOp) :
    w.run (ops1 ++ ops2) = (w.run ops1).bind (fun w1 => w1.run ops2) := by
  induction ops1 generalizing w with
  | nil => simp [World.run]
  | cons op rest ih =>
    simp only [List.cons_append, World.run]
    cases w.step op with
    | none => simp
    | some w1 => simp [ih]

/-- `w` is the state after some history of the `iovec` op vocabulary (any policy / tuning constants). -/
def Reachable (w : World) : Prop := ∃ pol tun ops, (World.init pol tun).run ops = some w

theorem Reachable.inv {w : World} (h : Reachable w) : WorldInv w := by
  obtain ⟨pol, tun, ops, h⟩ := h
  exact run_preserves WorldInv (fun _ _ _ hp hs => hp.step hs) ops _ _ (worldInv_init pol tun) h

theorem Reachable.step {w w' : World} {op : WOp} (h : Reachable w) (hs : w.step op = some w') : Reachable w' := by
  obtain ⟨pol, tun, ops, h⟩ := h
  refine ⟨pol, tun, ops ++ [op], ?_⟩
  rw [run_append, h]; simp [World.run, hs]

/-! ### Derived liveness -/

theorem getD_none_eq_some {α} {l : List (Option α)} {i : Nat} {v : α} :
    l.getD i none = some v ↔ l[i]? = some (some v) := by
  rw [List.getD_eq_getElem?_getD]
  cases l[i]? with
  | none => simp
  | some o => simp

theorem mem_iff_getD {α} {l : List (Option α)} {v : α} : some v ∈ l ↔ ∃ i, l.getD i none = some v := by
  rw [List.mem_iff_getElem?]
  constructor
  · rintro ⟨i, hi⟩; exact ⟨i, getD_none_eq_some.2 hi⟩
  · rintro ⟨i, hi⟩; exact ⟨i, getD_none_eq_some.1 hi⟩

theorem mem_foldl_iovs (l : List (Option Iov)) (init : List Nat) (k : Nat) :
    k ∈ l.foldl (fun acc o => match o with
      | some v => acc ++ arenaChunks v.arena ++ anchorChunks v.anchors
      | none => acc) init ↔
    k ∈ init ∨ ∃ v, some v ∈ l ∧ (k ∈ arenaChunks v.arena ∨ k ∈ anchorChunks v.anchors) := by
  induction l generalizing init with
  | nil => simp
  | cons o rest ih =>
    rw [List.foldl_cons, ih]
    cases o with
    | none => simp
    | some v =>
      simp only [List.mem_append, List.mem_cons]
      constructor
      · rintro (((h | h) | h) | ⟨v', hv', h⟩)
        · exact Or.inl h
        · exact Or.inr ⟨v, Or.inl rfl, Or.inl h⟩
        · exact Or.inr ⟨v, Or.inl rfl, Or.inr h⟩
        · exact Or.inr ⟨v', Or.inr hv', h⟩
      · rintro (h | ⟨v', hv' | hv', h⟩)
        · exact Or.inl (Or.inl (Or.inl h))
        · simp at hv'; subst hv'
          rcases h with h | h
          · exact Or.inl (Or.inl (Or.inr h))
          · exact Or.inl (Or.inr h)
        · exact Or.inr ⟨v', hv', h⟩

theorem mem_foldl_arenas (l : List (Option Arena)) (init : List Nat) (k : Nat) :
    k ∈ l.foldl (fun acc o => match o with
      | some a => acc ++ arenaChunks a
      | none => acc) init ↔
    k ∈ init ∨ ∃ a, some a ∈ l ∧ k ∈ arenaChunks a := by
  induction l generalizing init with
  | nil => simp
  | cons o rest ih =>
    rw [List.foldl_cons, ih]
    cases o with
    | none => simp
    | some v =>
      simp only [List.mem_append, List.mem_cons]
      constructor
      · rintro ((h | h) | ⟨v', hv', h⟩)
        · exact Or.inl h
        · exact Or.inr ⟨v, Or.inl rfl, h⟩
        · exact Or.inr ⟨v', Or.inr hv', h⟩
      · rintro (h | ⟨v', hv' | hv', h⟩)
        · exact Or.inl (Or.inl h)
        · simp at hv'; subst hv'; exact Or.inl (Or.inr h)
        · exact Or.inr ⟨v', hv', h⟩

theorem mem_foldl_aslices (l : List (Option ASlice)) (init : List Nat) (k : Nat) :
    k ∈ l.foldl (fun acc o => match o with
      | some s => acc ++ anchorChunks [s.anchor]
      | none => acc) init ↔
    k ∈ init ∨ ∃ s, some s ∈ l ∧ s.anchor.chunk = some k := by
  induction l generalizing init with
  | nil => simp
  | cons o rest ih =>
    rw [List.foldl_cons, ih]
    cases o with
    | none => simp
    | some v =>
      simp only [List.mem_append, List.mem_cons]
      have hk : k ∈ anchorChunks [v.anchor] ↔ v.anchor.chunk = some k := by
        rw [mem_anchorChunks]; simp
      constructor
      · rintro ((h | h) | ⟨v', hv', h⟩)
        · exact Or.inl h
        · exact Or.inr ⟨v, Or.inl rfl, hk.1 h⟩
        · exact Or.inr ⟨v', Or.inr hv', h⟩
      · rintro (h | ⟨v', hv' | hv', h⟩)
        · exact Or.inl (Or.inl h)
        · simp at hv'; subst hv'; exact Or.inl (Or.inr (hk.2 h))
        · exact Or.inr ⟨v', hv', h⟩

/-- A chunk is live iff it has been allocated and some holder references it. -/
theorem mem_liveChunks {w : World} {k : Nat} :
    k ∈ w.liveChunks ↔ k < w.next ∧
      ((∃ i v, w.iov i = some v ∧ (k ∈ arenaChunks v.arena ∨ k ∈ anchorChunks v.anchors)) ∨
       (∃ j a, w.arena j = some a ∧ k ∈ arenaChunks a) ∨
       (∃ j s, w.aslice j = some s ∧ s.anchor.chunk = some k)) := by
  have h1 := mem_foldl_iovs w.iovs [] k
  have h2 := mem_foldl_arenas w.arenas [] k
  have h3 := mem_foldl_aslices w.aslices [] k
  simp only [List.not_mem_nil, false_or] at h1 h2 h3
  unfold World.liveChunks
  simp only [List.mem_filter, List.mem_range, List.contains_iff_mem, List.mem_append]
  refine Iff.trans (and_congr Iff.rfl (or_congr (or_congr h1 h2) h3)) ?_
  constructor
  · rintro ⟨hlt, (⟨v, hv, h⟩ | ⟨a, ha, h⟩) | ⟨s, hs, h⟩⟩
    · obtain ⟨i, hi⟩ := mem_iff_getD.1 hv
      exact ⟨hlt, Or.inl ⟨i, v, hi, h⟩⟩
    · obtain ⟨i, hi⟩ := mem_iff_getD.1 ha
      exact ⟨hlt, Or.inr (Or.inl ⟨i, a, hi, h⟩)⟩
    · obtain ⟨i, hi⟩ := mem_iff_getD.1 hs
      exact ⟨hlt, Or.inr (Or.inr ⟨i, s, hi, h⟩)⟩
  · rintro ⟨hlt, ⟨i, v, hi, h⟩ | ⟨i, a, hi, h⟩ | ⟨i, s, hi, h⟩⟩
    · exact ⟨hlt, Or.inl (Or.inl ⟨v, mem_iff_getD.2 ⟨i, hi⟩, h⟩)⟩
    · exact ⟨hlt, Or.inl (Or.inr ⟨a, mem_iff_getD.2 ⟨i, hi⟩, h⟩)⟩
    · exact ⟨hlt, Or.inr ⟨s, mem_iff_getD.2 ⟨i, hi⟩, h⟩⟩

/-- (C) the allocation cache holds its chunk. -/
theorem cache_live {w : World} (hw : WorldInv w) {i : Nat} {v : Iov} {c : Cache} (hv : w.iov i = some v)
    (hc : v.arena.cache = some c) : c.chunk ∈ w.liveChunks :=
  mem_liveChunks.2 ⟨(hw.iovOk i v hv).cacheLt c hc, Or.inl ⟨i, v, hv, Or.inl (by simp [arenaChunks, hc])⟩⟩

/-! ### The guard, index form -/

theorem mem_anchorChunks_index {as : List Anchor} {k : Nat} :
    k ∈ anchorChunks as ↔ ∃ j : Nat, ∃ a : Anchor, as[j]? = some a ∧ a.chunk = some k := by
  rw [mem_anchorChunks]
  constructor
  · rintro ⟨a, ha, hk⟩
    obtain ⟨j, hj⟩ := List.mem_iff_getElem?.1 ha
    exact ⟨j, a, hj, hk⟩
  · rintro ⟨j, a, hj, hk⟩
    exact ⟨a, List.mem_iff_getElem?.2 ⟨j, hj⟩, hk⟩

/-- Anchor `j` counts slice `i`: the runs before it end at or before `i`, its own run ends after `i`. -/
def Counts (as : List Anchor) (j i : Nat) : Prop :=
  countSum (as.take j) ≤ i ∧ i < countSum (as.take (j + 1))

/-- (G) in index form: slice `i`, if owned (`chunk k`), is counted by some anchor `j` and there is an
anchor at a position `j' ≥ j` holding `some k`. -/
theorem Guarded.index {as : List Anchor} : ∀ {ss : List Slice}, Guarded as ss → ∀ i s, ss[i]? = some s →
    0 < s.len ∧ ∃ j, Counts as j i ∧ ∀ k, s.region = .chunk k →
      ∃ j' : Nat, ∃ a : Anchor, j ≤ j' ∧ as[j']? = some a ∧ a.chunk = some k := by
  induction as with
  | nil => intro ss h i s hs; rw [guarded_nil] at h; subst h; simp at hs
  | cons a rest ih =>
    intro ss h i s hs
    obtain ⟨h1, h2, h3⟩ := guarded_cons.1 h
    by_cases hi : i < a.count
    · have hmem : s ∈ ss.take a.count := by
        rw [List.mem_iff_getElem?]; exact ⟨i, by rw [List.getElem?_take]; simp [hi, hs]⟩
      obtain ⟨hl, hk⟩ := h2 s hmem
      refine ⟨hl, 0, ⟨by simp, by simpa using hi⟩, ?_⟩
      intro k hk'
      obtain ⟨j', a', hj', ha'⟩ := mem_anchorChunks_index.1 (hk k hk')
      exact ⟨j', a', Nat.zero_le _, hj', ha'⟩
    · have hs' : (ss.drop a.count)[i - a.count]? = some s := by
        rw [List.getElem?_drop]; rw [show a.count + (i - a.count) = i by omega]; exact hs
      obtain ⟨hl, j, ⟨hc1, hc2⟩, hk⟩ := ih h3 (i - a.count) s hs'
      refine ⟨hl, j + 1, ⟨?_, ?_⟩, ?_⟩
      · simp only [List.take_succ_cons, countSum_cons]; omega
      · simp only [List.take_succ_cons, countSum_cons]; omega
      · intro k hk'
        obtain ⟨j', a', hj, hj', ha'⟩ := hk k hk'
        exact ⟨j' + 1, a', by omega, by simpa using hj', ha'⟩


/-! ### What "live" means for a slice the read side hands out -/

/-- A slice points into live memory: a caller buffer (inside its bounds) or a chunk of the derived live set. -/
def Live (w : World) (s : Slice) : Prop :=
  match s.region with
  | .ext b => b < w.exts.length ∧ s.off + s.len ≤ (w.exts.getD b []).length
  | .chunk k => k ∈ w.liveChunks

/-- Every slice of an iovec is live, and an owned one is kept alive by the iovec's OWN anchors. -/
theorem WorldInv.iov_slice_live {w : World} (hw : WorldInv w) {i : Nat} {v : Iov} (hv : w.iov i = some v)
    {s : Slice} (hs : s ∈ v.slices) :
    Live w s ∧ ∀ k, s.region = .chunk k → k ∈ anchorChunks v.anchors := by
  have hok := hw.iovOk i v hv
  have hg := (hok.guard.mem s hs).2
  refine ⟨?_, hg⟩
  unfold Live
  split
  · rename_i b hb; exact hok.extOk s hs b hb
  · rename_i k hk
    have := hg k hk
    exact mem_liveChunks.2 ⟨hok.anchorsLt k this, Or.inl ⟨i, v, hv, Or.inr this⟩⟩

/-- A non-empty detached `AnchoredSlice` is owned and kept alive by its own anchor. -/
theorem WorldInv.aslice_live {w : World} (hw : WorldInv w) {j : Nat} {a : ASlice} (ha : w.aslice j = some a)
    (hl : a.slice.len ≠ 0) : Live w a.slice ∧ ∃ k, a.slice.region = .chunk k ∧ a.anchor.chunk = some k := by
  have hok := hw.asliceOk j a ha
  cases hr : a.slice.region with
  | ext b => exact absurd (hok.extEmpty b hr) hl
  | chunk k =>
    have hk := hok.anchored k hr
    refine ⟨?_, k, rfl, hk⟩
    unfold Live
    rw [hr]
    exact mem_liveChunks.2 ⟨hok.chunkLt k hk, Or.inr (Or.inr ⟨j, a, ha, hk⟩)⟩

/-! ### Anchors are released from the front (C10) -/

theorem drain_suffix : ∀ (fuel : Nat) {as : List Anchor} (n : Nat) {as' : List Anchor},
    drainAnchors fuel as n = some as' →
    ∃ gone : List Anchor, countSum gone ≤ n ∧ as.map (·.chunk) = gone.map (·.chunk) ++ as'.map (·.chunk)
  | fuel, as, 0, as', hd => by
    rw [drainAnchors_zeroO] at hd; simp at hd; subst hd; exact ⟨[], by simp, by simp⟩
  | 0, as, n + 1, as', hd => by simp [drainAnchors] at hd
  | fuel + 1, [], n + 1, as', hd => by simp [drainAnchors] at hd
  | fuel + 1, a :: rest, n + 1, as', hd => by
    rw [drainAnchors_consO] at hd
    split at hd
    · rename_i hle
      obtain ⟨gone, hg, he⟩ := drain_suffix fuel _ hd
      exact ⟨a :: gone, by simp; omega, by simp [he]⟩
    · simp at hd; subst hd
      exact ⟨[], by simp, by simp⟩

theorem dropZero_suffix (as : List Anchor) : ∃ gone, AllZero gone ∧ as = gone ++ dropZeroAnchors as := by
  induction as with
  | nil => exact ⟨[], by intro z hz; simp at hz, by simp [dropZeroAnchors]⟩
  | cons a rest ih =>
    unfold dropZeroAnchors
    split
    · rename_i h0
      obtain ⟨gone, hz, he⟩ := ih
      refine ⟨a :: gone, ?_, by rw [List.cons_append, ← he]⟩
      intro z hz'; simp at hz'; rcases hz' with rfl | hz'
      · exact h0
      · exact hz z hz'
    · exact ⟨[], by intro z hz; simp at hz, by simp⟩

theorem anchors_nil_of_no_slices {as : List Anchor} (hg : Guarded as []) (hp : HeadPos as) : as = [] := by
  cases as with
  | nil => rfl
  | cons a rest =>
    obtain ⟨h1, _, _⟩ := guarded_cons.1 hg
    have := hp a (by simp)
    simp at h1; omega

/-- `GlobalDeque::consume`: the anchors that remain are a suffix of the old deque (anchors leave only
from the front; those that left counted only consumed slices), the new front anchor still counts
an unconsumed slice, and if every slice was consumed no anchor is left at all. -/
theorem consumeSlices_anchors {n : Nat} {e : List (List UInt8)} {v v' : Iov} {count k : Nat}
    (hv : IovOk n e v) (h : v.consumeSlices count = some (v', k)) :
    (∃ gone : List Anchor, countSum gone ≤ k ∧
      v.anchors.map (·.chunk) = gone.map (·.chunk) ++ v'.anchors.map (·.chunk)) ∧
    HeadPos v'.anchors ∧ (k = v.slices.length → v'.anchors = [] ∧ v'.slices = []) := by
  have hv' := hv.consumeSlices h
  obtain ⟨hk, as1, hd, rfl⟩ := consumeSlices_specO h
  refine ⟨?_, hv'.headPos, ?_⟩
  · obtain ⟨g1, hg1, he1⟩ := drain_suffix _ k hd
    obtain ⟨g2, hz2, he2⟩ := dropZero_suffix as1
    refine ⟨g1 ++ g2, by rw [countSum_append, countSum_allZero hz2]; omega, ?_⟩
    simp only
    rw [he1]
    conv => lhs; rw [he2]
    simp
  · intro hall
    have hg := hv'.guard
    simp only at hg ⊢
    have hnil : List.drop k v.slices = [] := by rw [hall]; simp
    rw [hnil] at hg
    exact ⟨anchors_nil_of_no_slices hg hv'.headPos, hnil⟩

/-! ### Dropping everything -/

theorem liveChunks_nil_of_no_objects {w : World} (h1 : ∀ i, w.iov i = none) (h2 : ∀ j, w.arena j = none)
    (h3 : ∀ j, w.aslice j = none) : w.liveChunks = [] := by
  rw [List.eq_nil_iff_forall_not_mem]
  intro k hk
  obtain ⟨_, ⟨i, v, hv, _⟩ | ⟨j, a, ha, _⟩ | ⟨j, s, hs, _⟩⟩ := mem_liveChunks.1 hk
  · rw [h1 i] at hv; cases hv
  · rw [h2 j] at ha; cases ha
  · rw [h3 j] at hs; cases hs

theorem getD_map_none {α} (l : List (Option α)) (i : Nat) : (l.map (fun _ => (none : Option α))).getD i none = none := by
  rw [List.getD_eq_getElem?_getD]
  cases h : (l.map (fun _ => (none : Option α)))[i]? with
  | none => rfl
  | some x =>
    rw [List.getElem?_map] at h
    cases hl : l[i]? with
    | none => simp [hl] at h
    | some y => simp [hl] at h; subst h; rfl

theorem dropAll_liveChunks (w : World) : w.dropAll.liveChunks = [] :=
  liveChunks_nil_of_no_objects (fun i => getD_map_none w.iovs i) (fun j => getD_map_none w.arenas j)
    (fun j => getD_map_none w.aslices j)


end Woodpile.Iovec

/-
C10, quantitative half: the footprint of the streaming pattern (one iovec fed through
`push_copy` / `register_patch` / `backfill`, at most one placeholder pending, the consumer draining the
whole stable prefix after every call).
-/
import Woodpile.Proofs.IovecArena
import Woodpile.Gen.Consts
namespace Woodpile.Iovec
open Woodpile.Arena

/-! ### `find_hint_size` bounds -/

theorem firstAtLeast_le (wanted dflt M : Nat) (l : List Nat) (hd : dflt ≤ M) (hl : ∀ x ∈ l, x ≤ M) :
    firstAtLeast wanted dflt l ≤ M := by
  induction l with
  | nil => exact hd
  | cons s rest ih =>
    unfold firstAtLeast
    split
    · exact hl s (by simp)
    · exact ih (fun x hx => hl x (by simp [hx]))

theorem firstAtLeast_ge (wanted dflt m : Nat) (l : List Nat) (hd : m ≤ dflt) (hl : ∀ x ∈ l, m ≤ x) :
    m ≤ firstAtLeast wanted dflt l := by
  induction l with
  | nil => exact hd
  | cons s rest ih =>
    unfold firstAtLeast
    split
    · exact hl s (by simp)
    · exact ih (fun x hx => hl x (by simp [hx]))

/-- The production tuning (`BUMP_REGION_SIZE_SEQUENCE`, `BUMP_REGION_SIZE_FACTOR`, re-extracted from the
Rust sources on every run). -/
def prodTuning : Tuning := ⟨Woodpile.Gen.bumpSeq, Woodpile.Gen.bumpFactor⟩

theorem prodTuning_last : prodTuning.seq.getLast?.getD 0 = 1048576 := by decide
theorem prodTuning_seq_le : ∀ x ∈ prodTuning.seq, x ≤ 1048576 := by decide
theorem prodTuning_seq_ge : ∀ x ∈ prodTuning.seq, 4096 ≤ x := by decide

/-- `findHintSize_le`: with the production tuning, a request of fewer than 2^20 bytes never makes the
arena allocate a chunk larger than 2^20 bytes (whatever the previous chunk's capacity). -/
theorem findHintSize_le (len prevCap : Nat) (h : len < 1048576) :
    max (findHintSize prodTuning len prevCap) len ≤ 1048576 := by
  have : findHintSize prodTuning len prevCap ≤ 1048576 := by
    unfold findHintSize
    simp only [prodTuning_last]
    rw [if_neg (by omega)]
    split
    · exact Nat.le_refl _
    · exact firstAtLeast_le _ _ _ _ (Nat.le_refl _) prodTuning_seq_le
  omega

/-- … and never a chunk smaller than 4096 bytes. -/
theorem findHintSize_ge (len prevCap : Nat) : 4096 ≤ max (findHintSize prodTuning len prevCap) len := by
  have : 4096 ≤ findHintSize prodTuning len prevCap ∨ 4096 ≤ len := by
    unfold findHintSize
    simp only [prodTuning_last]
    split
    · right; omega
    · left
      split
      · omega
      · exact firstAtLeast_ge _ _ _ _ (by omega) prodTuning_seq_ge
  omega

/-- What the footprint argument needs from a tuning: every chunk it allocates for a request of at most
`P` bytes has a capacity between `m₀` and `S`. -/
structure TuningBounds (t : Tuning) (P m₀ S : Nat) : Prop where
  lo : ∀ len prevCap, m₀ ≤ max (findHintSize t len prevCap) len
  hi : ∀ len prevCap, len ≤ P → max (findHintSize t len prevCap) len ≤ S

theorem prodTuning_bounds (P : Nat) (hP : P < 1048576) : TuningBounds prodTuning P 4096 1048576 :=
  ⟨findHintSize_ge, fun len prevCap hl => findHintSize_le len prevCap (by omega)⟩

theorem alloc_casesO' (t : Tuning) (a : Arena) (next len : Nat) :
    (∃ c, a.cache = some c ∧ len ≤ c.remaining ∧
      alloc t a next len = (⟨some { c with bump := c.bump + len }⟩, next, c.chunk, c.bump)) ∨
    (∃ pc, (∀ c, a.cache = some c → c.remaining < len) ∧
      alloc t a next len = (⟨some ⟨next, max (findHintSize t len pc) len, len⟩⟩, next + 1, next, 0)) := by
  unfold alloc ensureCapacity
  cases hc : a.cache with
  | none => right; exact ⟨0, fun c h => (by cases h), (by simp)⟩
  | some c =>
    simp only
    by_cases hr : c.remaining ≥ len
    · left; exact ⟨c, rfl, hr, by simp [hr, hc]⟩
    · right; exact ⟨c.cap, fun c' h => (by cases h; omega), (by simp [hr])⟩

/-- A fresh chunk's capacity, as `alloc` chooses it. -/
theorem alloc_fresh_cap {t : Tuning} {a a' : Arena} {next next' len chunk off : Nat} {P m₀ S : Nat}
    (hb : TuningBounds t P m₀ S) (hl : len ≤ P) (h : alloc t a next len = (a', next', chunk, off))
    (hfresh : next' ≠ next) : ∃ cap, a'.cache = some ⟨next, cap, len⟩ ∧ m₀ ≤ cap ∧ cap ≤ S ∧ len ≤ cap ∧
      chunk = next ∧ off = 0 ∧ next' = next + 1 ∧ (∀ c, a.cache = some c → c.remaining < len) := by
  rcases alloc_casesO' t a next len with ⟨c, hc, _, he⟩ | ⟨pc, hr, he⟩
  · rw [he] at h; simp only [Prod.mk.injEq] at h; exact absurd h.2.1.symm hfresh
  · rw [he] at h; simp only [Prod.mk.injEq] at h
    obtain ⟨rfl, rfl, rfl, rfl⟩ := h
    exact ⟨_, rfl, hb.lo _ _, hb.hi _ _ hl, Nat.le_max_right _ _, rfl, rfl, rfl, hr⟩

/-! ### The streaming invariant, per iovec -/

/-- The state of the single iovec at a quiescent point (after the drain), with the ghost `L` = the
chunks (with their capacities) its unconsumed slices and its cache live in, oldest first, and `WF` =
bytes pushed, since the pending placeholder was registered, into chunks allocated since then. -/
structure SCore (B m₀ S : Nat) (v : Iov) (L : List (Nat × Nat)) (WF : Nat) : Prop where
  caps : ∀ p ∈ L, p.2 ≤ S
  cache : ∀ c, v.arena.cache = some c → L.getLast? = some (c.chunk, c.cap)
  held : ∀ k ∈ anchorChunks v.anchors, k ∈ L.map (·.1)
  shape : (v.backrefs = [] ∧ v.slices = [] ∧ v.anchors = [] ∧ L.length ≤ 1) ∨
    (∃ key info c, v.backrefs = [(key, info)] ∧ info.sliceIndex = v.consumedSlices ∧ v.slices ≠ [] ∧
      key ≤ v.logicalSize ∧ v.logicalSize - key ≤ B ∧ WF ≤ v.logicalSize - key ∧
      v.arena.cache = some c ∧ (2 ≤ L.length → m₀ ≤ c.cap ∧ m₀ * (L.length - 2) + c.bump ≤ 2 * WF))

/-- The ghost list is short: at most `2·B/m₀ + 2` chunks. -/
theorem SCore.length_le {B m₀ S : Nat} {v : Iov} {L : List (Nat × Nat)} {WF : Nat} (h : SCore B m₀ S v L WF)
    (hm : 0 < m₀) : L.length ≤ 2 * B / m₀ + 2 := by
  rcases h.shape with ⟨_, _, _, hl⟩ | ⟨key, info, c, _, _, _, _, hB, hWF, _, hpot⟩
  · generalize 2 * B / m₀ = q; omega
  · by_cases h2 : 2 ≤ L.length
    · obtain ⟨_, hp⟩ := hpot h2
      have h1 : m₀ * (L.length - 2) ≤ 2 * B := by omega
      have : L.length - 2 ≤ 2 * B / m₀ := by
        rw [Nat.le_div_iff_mul_le hm, Nat.mul_comm]; exact h1
      generalize 2 * B / m₀ = q at this; omega
    · generalize 2 * B / m₀ = q; omega


theorem optimize_fields {v v' : Iov} (h : v.optimize = some v') :
    v'.backrefs = v.backrefs ∧ v'.logicalSize = v.logicalSize ∧ v'.consumedSlices = v.consumedSlices ∧
    v'.arena = v.arena ∧ (v.slices ≠ [] → v'.slices ≠ []) := by
  rcases optimize_spec h with rfl | ⟨ss, l, r, as, a, m, hss, has, ha, hj, rfl⟩
  · exact ⟨rfl, rfl, rfl, rfl, id⟩
  · exact ⟨rfl, rfl, rfl, rfl, fun _ => by simp⟩

/-- Before the drain: like `SCore`, but with no placeholder pending the buffered slices may still
hold every chunk of the list. -/
structure SPre (B m₀ S : Nat) (v : Iov) (L : List (Nat × Nat)) (WF : Nat) : Prop where
  caps : ∀ p ∈ L, p.2 ≤ S
  cache : ∀ c, v.arena.cache = some c → L.getLast? = some (c.chunk, c.cap)
  held : ∀ k ∈ anchorChunks v.anchors, k ∈ L.map (·.1)
  shape : v.backrefs = [] ∨
    (∃ key info c, v.backrefs = [(key, info)] ∧ info.sliceIndex = v.consumedSlices ∧ v.slices ≠ [] ∧
      key ≤ v.logicalSize ∧ v.logicalSize - key ≤ B ∧ WF ≤ v.logicalSize - key ∧
      v.arena.cache = some c ∧ (2 ≤ L.length → m₀ ≤ c.cap ∧ m₀ * (L.length - 2) + c.bump ≤ 2 * WF))

theorem SCore.toPre {B m₀ S : Nat} {v : Iov} {L : List (Nat × Nat)} {WF : Nat} (h : SCore B m₀ S v L WF) :
    SPre B m₀ S v L WF :=
  ⟨h.caps, h.cache, h.held, h.shape.elim (fun h => Or.inl h.1) Or.inr⟩

/-- `push_copy(len)` on the streaming iovec (before the drain). -/
theorem push_pre {t : Tuning} {P B m₀ S : Nat} {v v2 : Iov} {L : List (Nat × Nat)} {WF next len : Nat}
    {arena' : Arena} {next' chunk off : Nat}
    (hb : TuningBounds t P m₀ S) (h : SCore B m₀ S v L WF) (hl : 0 < len) (hP : len ≤ P)
    (hal : alloc t v.arena next len = (arena', next', chunk, off))
    (hB : ∀ key info, v.backrefs = [(key, info)] → v.logicalSize - key + len ≤ B)
    (ho : Iov.optimize { v with slices := v.slices ++ [⟨.chunk chunk, off, len⟩],
                                anchors := copyAnchors v.anchors chunk,
                                logicalSize := v.logicalSize + len, arena := arena' } = some v2) :
    ∃ L' WF', SPre B m₀ S v2 L' WF' := by
  obtain ⟨hbr, hls, hcs, har, hne⟩ := optimize_fields ho
  simp only at hbr hls hcs har hne
  have hheld2 : ∀ k ∈ anchorChunks v2.anchors, k ∈ anchorChunks v.anchors ∨ k = chunk := by
    intro k hk; rw [optimize_chunks ho] at hk; exact copyAnchors_chunks _ _ k hk
  by_cases hfresh : next' = next
  · -- same chunk
    rcases alloc_casesO' t v.arena next len with ⟨c, hc, hrem, he⟩ | ⟨pc, _, he⟩
    · rw [he] at hal; simp only [Prod.mk.injEq] at hal
      obtain ⟨rfl, _, rfl, rfl⟩ := hal
      have hlast := h.cache c hc
      have hmemL : c.chunk ∈ L.map (·.1) := by
        have := List.mem_of_getLast? hlast
        exact List.mem_map.2 ⟨_, this, rfl⟩
      have hcache' : ∀ c', v2.arena.cache = some c' → L.getLast? = some (c'.chunk, c'.cap) := by
        intro c' hc'; rw [har] at hc'; simp at hc'; subst hc'; exact hlast
      have hheld' : ∀ k ∈ anchorChunks v2.anchors, k ∈ L.map (·.1) := by
        intro k hk; rcases hheld2 k hk with h1 | rfl
        · exact h.held k h1
        · exact hmemL
      rcases h.shape with ⟨hb0, _, _, _⟩ | ⟨key, info, c0, hb1, hidx, hsl, hkey, hW, hWF, hc0, hpot⟩
      · exact ⟨L, WF, h.caps, hcache', hheld', Or.inl (by rw [hbr]; exact hb0)⟩
      · rw [hc] at hc0; cases hc0
        have hBk := hB key info hb1
        refine ⟨L, if 2 ≤ L.length then WF + len else WF, h.caps, hcache', hheld', Or.inr ⟨key, info, _, by rw [hbr]; exact hb1,
          by rw [hcs]; exact hidx, hne (by simp), by rw [hls]; omega, by rw [hls]; omega, ?_, by rw [har], ?_⟩⟩
        · rw [hls]; split <;> omega
        · intro h2
          obtain ⟨h3, h4⟩ := hpot h2
          simp only [h2, if_true]
          exact ⟨h3, by omega⟩
    · rw [he] at hal; simp only [Prod.mk.injEq] at hal; omega
  · -- fresh chunk
    obtain ⟨cap, hc', hm0, hS, hlc, hck, hoff, hn', hrem⟩ := alloc_fresh_cap hb hP hal hfresh
    have hcache' : ∀ c', v2.arena.cache = some c' → (L ++ [(next, cap)]).getLast? = some (c'.chunk, c'.cap) := by
      intro c' hcc; rw [har, hc'] at hcc; simp at hcc; subst hcc; simp
    have hcaps' : ∀ p ∈ L ++ [(next, cap)], p.2 ≤ S := by
      intro p hp; simp only [List.mem_append, List.mem_singleton] at hp
      rcases hp with hp | rfl
      · exact h.caps p hp
      · exact hS
    have hheld' : ∀ k ∈ anchorChunks v2.anchors, k ∈ (L ++ [(next, cap)]).map (·.1) := by
      intro k hk
      simp only [List.map_append, List.mem_append, List.map_cons, List.map_nil, List.mem_singleton]
      rcases hheld2 k hk with h1 | h1
      · exact Or.inl (h.held k h1)
      · exact Or.inr (by rw [h1, hck])
    rcases h.shape with ⟨hb0, _, _, _⟩ | ⟨key, info, c0, hb1, hidx, hsl, hkey, hW, hWF, hc0, hpot⟩
    · exact ⟨L ++ [(next, cap)], WF, hcaps', hcache', hheld', Or.inl (by rw [hbr]; exact hb0)⟩
    · have hBk := hB key info hb1
      have hr0 := hrem c0 hc0
      refine ⟨L ++ [(next, cap)], WF + len, hcaps', hcache', hheld', Or.inr ⟨key, info, ⟨next, cap, len⟩,
        by rw [hbr]; exact hb1, by rw [hcs]; exact hidx, hne (by simp), by rw [hls]; omega, by rw [hls]; omega,
        by rw [hls]; omega, by rw [har, hc'], ?_⟩⟩
      intro _
      refine ⟨hm0, ?_⟩
      simp only [List.length_append, List.length_singleton]
      by_cases h2 : 2 ≤ L.length
      · obtain ⟨h3, h4⟩ := hpot h2
        simp only [Cache.remaining] at hr0
        have e : L.length + 1 - 2 = (L.length - 2) + 1 := by omega
        rw [e, Nat.mul_add, Nat.mul_one]
        omega
      · have e : L.length + 1 - 2 = 0 := by omega
        rw [e]; omega


theorem optimize_single {v v' : Iov} (h1 : v.slices.length = 1) (h : v.optimize = some v') : v' = v := by
  rcases optimize_spec h with rfl | ⟨ss, l, r, as, a, m, hss, _, _, _, _⟩
  · rfl
  · rw [hss] at h1; simp at h1

theorem getLast?_mem_map {L : List (Nat × Nat)} {p : Nat × Nat} (h : L.getLast? = some p) : p.1 ∈ L.map (·.1) :=
  List.mem_map.2 ⟨p, List.mem_of_getLast? h, rfl⟩

/-- The drain with nothing pending: everything is consumed, only the cache's chunk stays. -/
theorem drain_nopending {B m₀ S n : Nat} {e : List (List UInt8)} {v v' : Iov} {L : List (Nat × Nat)} {WF k : Nat}
    (h : SPre B m₀ S v L WF) (hok : IovOk n e v) (hb : v.backrefs = [])
    (hc : v.consumeSlices v.slices.length = some (v', k)) :
    SCore B m₀ S v' (match L.getLast? with | some p => [p] | none => []) WF := by
  obtain ⟨_, _, hall⟩ := consumeSlices_anchors hok hc
  obtain ⟨hk, as1, hd, hv'⟩ := consumeSlices_specO hc
  have hk' : k = v.slices.length := by omega
  obtain ⟨ha, hs⟩ := hall hk'
  have harena : v'.arena = v.arena := by rw [hv']
  have hbr : v'.backrefs = v.backrefs := by rw [hv']
  refine ⟨?_, ?_, ?_, Or.inl ⟨by rw [hbr, hb], hs, ha, by cases L.getLast? <;> simp⟩⟩
  · intro p hp
    cases hl : L.getLast? with
    | none => simp [hl] at hp
    | some q => simp [hl] at hp; rw [hp]; exact h.caps q (List.mem_of_getLast? hl)
  · intro c hcc
    rw [harena] at hcc
    rw [h.cache c hcc]; simp
  · intro k hk; rw [ha] at hk; simp [anchorChunks] at hk

/-- The drain with the placeholder's slice at the front: nothing is consumable. -/
theorem drain_pending {B m₀ S : Nat} {v v' : Iov} {L : List (Nat × Nat)} {WF k : Nat}
    (h : SPre B m₀ S v L WF) (hb : v.backrefs ≠ []) (hc : v.consumeSlices 0 = some (v', k)) :
    SCore B m₀ S v' L WF := by
  obtain ⟨hk, as1, hd, hv'⟩ := consumeSlices_specO hc
  have hk0 : k = 0 := by omega
  subst hk0
  rw [drainAnchors_zeroO] at hd; simp at hd; subst hd
  have harena : v'.arena = v.arena := by rw [hv']
  have hbr : v'.backrefs = v.backrefs := by rw [hv']
  have hsl : v'.slices = v.slices := by rw [hv']; simp
  have hls : v'.logicalSize = v.logicalSize := by rw [hv']
  have hcs : v'.consumedSlices = v.consumedSlices := by rw [hv']; simp
  have han : ∀ x ∈ anchorChunks v'.anchors, x ∈ anchorChunks v.anchors := by
    intro x hx; rw [hv'] at hx; exact anchorChunks_dropZero x hx
  rcases h.shape with h0 | ⟨key, info, c, hb1, hidx, hs, hkey, hW, hWF, hc0, hpot⟩
  · exact absurd h0 hb
  · exact ⟨h.caps, fun c' hc' => h.cache c' (harena ▸ hc'), fun x hx => h.held x (han x hx),
      Or.inr ⟨key, info, c, by rw [hbr]; exact hb1, by rw [hcs]; exact hidx, by rw [hsl]; exact hs,
        by rw [hls]; exact hkey, by rw [hls]; exact hW, by rw [hls]; exact hWF, by rw [harena]; exact hc0, hpot⟩⟩

/-- `stableCount` in the two shapes. -/
theorem stableCount_nopending {v : Iov} (hb : v.backrefs = []) : v.stableCount = some v.slices.length := by
  simp [Iov.stableCount, hb]

theorem stableCount_front {v : Iov} {key : Nat} {info : BackrefInfo} (hb : v.backrefs = [(key, info)])
    (hidx : info.sliceIndex = v.consumedSlices) : v.stableCount = some 0 := by
  simp [Iov.stableCount, hb, hidx]


/-- `push_copy` when nothing is pending and nothing is buffered: afterwards exactly one slice, in the
cache's chunk, which is the only chunk held. -/
theorem push_nopending {t : Tuning} {P B m₀ S : Nat} {v v2 : Iov} {L : List (Nat × Nat)} {WF next len : Nat}
    {arena' : Arena} {next' chunk off : Nat}
    (hb : TuningBounds t P m₀ S) (h : SCore B m₀ S v L WF) (hnb : v.backrefs = []) (_hl : 0 < len) (hP : len ≤ P)
    (hal : alloc t v.arena next len = (arena', next', chunk, off))
    (ho : Iov.optimize { v with slices := v.slices ++ [⟨.chunk chunk, off, len⟩],
                                anchors := copyAnchors v.anchors chunk,
                                logicalSize := v.logicalSize + len, arena := arena' } = some v2) :
    ∃ c', v2.arena.cache = some c' ∧ SPre B m₀ S v2 [(c'.chunk, c'.cap)] 0 ∧ v2.backrefs = [] ∧
      v2.slices.length = 1 ∧ v2.logicalSize = v.logicalSize + len ∧ v2.consumedSlices = v.consumedSlices := by
  have hshape : v.slices = [] ∧ v.anchors = [] := by
    rcases h.shape with ⟨_, h1, h2, _⟩ | ⟨key, info, c, hb1, _⟩
    · exact ⟨h1, h2⟩
    · rw [hnb] at hb1; cases hb1
  have hv2 := optimize_single (by simp [hshape.1]) ho
  subst hv2
  simp only
  have hheld : ∀ k ∈ anchorChunks (copyAnchors v.anchors chunk), k = chunk := by
    intro k hk
    rcases copyAnchors_chunks _ _ k hk with h1 | h1
    · rw [hshape.2] at h1; simp [anchorChunks] at h1
    · exact h1
  by_cases hfresh : next' = next
  · rcases alloc_casesO' t v.arena next len with ⟨c, hc, hrem, he⟩ | ⟨pc, _, he⟩
    · rw [he] at hal; simp only [Prod.mk.injEq] at hal
      obtain ⟨rfl, _, rfl, rfl⟩ := hal
      refine ⟨_, rfl, ⟨?_, ?_, ?_, Or.inl hnb⟩, hnb, by simp [hshape.1], trivial, trivial⟩
      · intro p hp; simp at hp; subst hp
        exact h.caps _ (List.mem_of_getLast? (h.cache c hc))
      · intro c' hc'; simp at hc'; subst hc'; simp
      · intro k hk; simp [hheld k hk]
    · rw [he] at hal; simp only [Prod.mk.injEq] at hal; omega
  · obtain ⟨cap, hc', hm0, hS, hlc, hck, hoff, hn', hrem⟩ := alloc_fresh_cap hb hP hal hfresh
    refine ⟨⟨next, cap, len⟩, hc', ⟨?_, ?_, ?_, Or.inl hnb⟩, hnb, by simp [hshape.1], trivial, trivial⟩
    · intro p hp; simp at hp; subst hp; exact hS
    · intro c' hcc; rw [hc'] at hcc; simp at hcc; subst hcc; simp
    · intro k hk; simp [hheld k hk, hck]

/-- The world around the streaming iovec: it is alone. -/
structure SWorld (tun : Tuning) (C : Iov → Prop) (w : World) : Prop where
  tun : w.tun = tun
  onlyIov : ∀ i, i ≠ 0 → w.iov i = none
  noArena : ∀ j, w.arena j = none
  noASlice : ∀ j, w.aslice j = none
  core : ∃ v, w.iov 0 = some v ∧ C v

theorem SWorld.live {tun : Tuning} {B m₀ S : Nat} {w : World} {L : List (Nat × Nat)} {WF : Nat}
    (h : SWorld tun (fun v => SCore B m₀ S v L WF) w) : ∀ k ∈ w.liveChunks, k ∈ L.map (·.1) := by
  intro k hk
  obtain ⟨v, hv, hc⟩ := h.core
  obtain ⟨_, ⟨i, v', hv', hh⟩ | ⟨j, a, ha, _⟩ | ⟨j, s, hs, _⟩⟩ := mem_liveChunks.1 hk
  · have hi : i = 0 := by
      apply Classical.byContradiction; intro hne; rw [h.onlyIov i hne] at hv'; cases hv'
    subst hi; rw [hv] at hv'; cases hv'
    rcases hh with hh | hh
    · unfold arenaChunks at hh
      cases hcc : v.arena.cache with
      | none => simp [hcc] at hh
      | some c => simp [hcc] at hh; subst hh; exact getLast?_mem_map (hc.cache c hcc)
    · exact hc.held k hh
  · rw [h.noArena j] at ha; cases ha
  · rw [h.noASlice j] at hs; cases hs

/-- Replacing the iovec (and heap / chunk counter / tokens) keeps the world shape. -/
theorem SWorld.replace {tun : Tuning} {C C' : Iov → Prop} {w w' : World} (h : SWorld tun C w) (ht : w'.tun = w.tun)
    (hi : ∀ i, i ≠ 0 → w'.iov i = w.iov i) (ha : ∀ j, w'.arena j = w.arena j) (hs : ∀ j, w'.aslice j = w.aslice j)
    (hc : ∃ v, w'.iov 0 = some v ∧ C' v) : SWorld tun C' w' :=
  ⟨by rw [ht, h.tun], fun i hne => by rw [hi i hne, h.onlyIov i hne], fun j => by rw [ha, h.noArena],
   fun j => by rw [hs, h.noASlice], hc⟩

/-- The drain, at world level. -/
theorem drain_world {tun : Tuning} {B m₀ S n k : Nat} {w1 w2 : World} {L : List (Nat × Nat)} {WF : Nat}
    (h : SWorld tun (fun v => SPre B m₀ S v L WF) w1) (hw : WorldInv w1)
    (hn : ∀ v1, w1.iov 0 = some v1 → v1.slices.length ≤ n) (hc : w1.consume 0 n = some (w2, k)) :
    ∃ L', SWorld tun (fun v => SCore B m₀ S v L' WF) w2 := by
  obtain ⟨v1, hv1, hpre⟩ := h.core
  obtain ⟨v, ns, v2, hv, hst, hcs, rfl⟩ := consume_spec hc
  rw [hv1] at hv; cases hv
  have hlen := hn v1 hv1
  have hrep : ∀ (C' : Iov → Prop), C' v2 → SWorld tun C' (w1.setIov 0 (some v2)) := fun C' hc' =>
    h.replace rfl (fun i hne => by simp [hne]) (fun _ => rfl) (fun _ => rfl) ⟨v2, by simp, hc'⟩
  rcases hpre.shape with hb0 | ⟨key, info, c, hb1, hidx, _⟩
  · rw [stableCount_nopending hb0] at hst; cases hst
    rw [Nat.min_eq_right hlen] at hcs
    exact ⟨_, hrep _ (drain_nopending hpre (hw.iovOk 0 v1 hv1) hb0 hcs)⟩
  · rw [stableCount_front hb1 hidx] at hst; cases hst
    rw [Nat.min_zero] at hcs
    exact ⟨L, hrep _ (drain_pending hpre (by rw [hb1]; simp) hcs)⟩


/-- The producer's calls in the streaming pattern (the HCOBS encoder's): `push_copy` of at most `P`
bytes — and, while a placeholder is pending, at most `B` bytes in total since it was registered —,
`register_patch` of at most `P` bytes only when no placeholder is pending, and `backfill`. -/
def ProducerCall (P B : Nat) (w : World) : WOp → Prop
  | .pushCopy i bs => i = 0 ∧ bs.length ≤ P ∧
      ∀ v key info, w.iov 0 = some v → v.backrefs = [(key, info)] → v.logicalSize - key + bs.length ≤ B
  | .register i pat => i = 0 ∧ pat.length ≤ P ∧ ∀ v, w.iov 0 = some v → v.backrefs = []
  | .backfill i _ _ => i = 0
  | _ => False

theorem producer_world {tun : Tuning} {P B m₀ S : Nat} {w w1 : World} {op : WOp} {L : List (Nat × Nat)} {WF : Nat}
    (hb : TuningBounds tun P m₀ S) (h : SWorld tun (fun v => SCore B m₀ S v L WF) w)
    (hpc : ProducerCall P B w op) (hs : w.step op = some w1) :
    ∃ L' WF', SWorld tun (fun v => SPre B m₀ S v L' WF') w1 := by
  obtain ⟨v, hv, hcore⟩ := h.core
  have keep : SWorld tun (fun v => SPre B m₀ S v L WF) w :=
    ⟨h.tun, h.onlyIov, h.noArena, h.noASlice, v, hv, hcore.toPre⟩
  cases op <;> simp only [ProducerCall] at hpc
  case pushCopy i bs =>
    obtain ⟨rfl, hP, hB⟩ := hpc
    have hs' : w.pushCopy 0 bs = some w1 := hs
    obtain ⟨v0, hv0, ⟨_, rfl⟩ | ⟨hne, arena', next', chunk, off, v2, hal, ho, rfl⟩⟩ := pushCopy_spec hs'
    · exact ⟨L, WF, keep⟩
    · rw [hv] at hv0; cases hv0
      have hlen : 0 < bs.length := by cases bs <;> simp_all
      rw [h.tun] at hal
      obtain ⟨L', WF', hpre⟩ := push_pre hb hcore hlen hP hal (fun key info hbk => hB v key info hv hbk) ho
      exact ⟨L', WF', h.replace rfl (fun i hne => by simp [hne]) (fun _ => rfl) (fun _ => rfl) ⟨v2, by simp, hpre⟩⟩
  case register i pat =>
    obtain ⟨rfl, hP, hnb⟩ := hpc
    simp only [World.step] at hs
    split at hs
    · rename_i w' b hr
      simp at hs; subst hs
      rcases registerPatch_spec hr with ⟨_, rfl, _⟩ | ⟨hne, w2, v3, last, hpc', hv3, hlast, _, _, _, rfl⟩
      · exact ⟨L, WF, keep.replace rfl (fun _ _ => rfl) (fun _ => rfl) (fun _ => rfl) ⟨v, hv, hcore.toPre⟩⟩
      · obtain ⟨v0, hv0, ⟨he, _⟩ | ⟨_, arena', next', chunk, off, v2, hal, ho, rfl⟩⟩ := pushCopy_spec hpc'
        · exact absurd he hne
        · rw [hv] at hv0; cases hv0
          simp at hv3; subst hv3
          have hlen : 0 < pat.length := by cases pat <;> simp_all
          rw [h.tun] at hal
          obtain ⟨c', hc', hpre, hb2, hsl, hls, hcs⟩ := push_nopending hb hcore (hnb v hv) hlen hP hal ho
          refine ⟨[(c'.chunk, c'.cap)], 0, h.replace rfl (fun i hne => by simp [hne]) (fun _ => rfl) (fun _ => rfl)
            ⟨{ v2 with backrefs := v2.backrefs ++ [(v2.logicalSize,
                ⟨v2.consumedSlices + v2.slices.length - 1, last.len - pat.length, pat.length⟩)] }, by simp,
              ⟨hpre.caps, hpre.cache, hpre.held, Or.inr ⟨_, _, c', by simp only [hb2]; rfl, ?_, ?_, ?_, ?_, ?_, hc', ?_⟩⟩⟩⟩
          · simp only; omega
          · simp only; intro he; rw [he] at hsl; simp at hsl
          · simp only; exact Nat.le_refl _
          · simp only; omega
          · simp only; omega
          · intro h2; simp at h2
    · simp at hs
  case backfill i bi bs =>
    subst hpc
    simp only [World.step] at hs
    split at hs
    · obtain ⟨v0, hv0, ⟨_, _, rfl⟩ | ⟨key', info', target, k0, _, _, hmem, _, _, _, _, rfl⟩⟩ := backfill_spec hs
      · exact ⟨L, WF, keep⟩
      · rw [hv] at hv0; cases hv0
        refine ⟨L, WF, h.replace rfl (fun i hne => by simp [hne]) (fun _ => rfl) (fun _ => rfl)
          ⟨{ v with backrefs := v.backrefs.filter (·.1 ≠ key') }, by simp,
            ⟨hcore.caps, hcore.cache, hcore.held, Or.inl ?_⟩⟩⟩
        rcases hcore.shape with ⟨hb0, _⟩ | ⟨key, info, c, hb1, _⟩
        · rw [hb0] at hmem; simp at hmem
        · show List.filter (fun x => decide (x.1 ≠ key')) v.backrefs = []
          rw [hb1] at hmem ⊢
          simp at hmem
          simp [hmem.1]
    · simp at hs

/-- Quiescent states of the streaming pattern: one iovec; every producer call is followed by the
consumer draining the whole stable prefix (`consume(n)` with `n` at least the number of slices). -/
inductive Streaming (tun : Tuning) (P B : Nat) : World → Prop
  | start (pol : Policy) : Streaming tun P B ((World.init pol tun).addIov Iov.empty).1
  | call {w w1 w2 : World} {op : WOp} {n k : Nat} : Streaming tun P B w → ProducerCall P B w op →
      w.step op = some w1 → (∀ v1, w1.iov 0 = some v1 → v1.slices.length ≤ n) →
      w1.consume 0 n = some (w2, k) → Streaming tun P B w2

theorem Streaming.reachable {tun : Tuning} {P B : Nat} {w : World} (h : Streaming tun P B w) : Reachable w := by
  induction h with
  | start pol => exact ⟨pol, tun, [.new], rfl⟩
  | @call w w1 w2 op n k _ _ hs _ hc ih =>
    exact (ih.step hs).step (op := .consume 0 n) (by simp [World.step, hc])

theorem Streaming.inv {tun : Tuning} {P B m₀ S : Nat} {w : World} (hb : TuningBounds tun P m₀ S)
    (h : Streaming tun P B w) : ∃ L WF, SWorld tun (fun v => SCore B m₀ S v L WF) w := by
  induction h with
  | start pol =>
    refine ⟨[], 0, rfl, ?_, ?_, ?_, Iov.empty, by simp [World.init, World.iov, World.addIov], ?_⟩
    · intro i hne; simp [World.init, World.iov, World.addIov]
      cases i with
      | zero => exact absurd rfl hne
      | succ j => simp
    · intro j; simp [World.init, World.arena, World.addIov]
    · intro j; simp [World.init, World.aslice, World.addIov]
    · exact ⟨by simp, by simp [Iov.empty], by simp [Iov.empty, anchorChunks],
        Or.inl ⟨rfl, rfl, rfl, by simp⟩⟩
  | @call w w1 w2 op n k hst hpc hs hn hc ih =>
    obtain ⟨L, WF, hw⟩ := ih
    obtain ⟨L1, WF1, hpre⟩ := producer_world hb hw hpc hs
    obtain ⟨L2, h2⟩ := drain_world hpre (hst.reachable.step hs).inv hn hc
    exact ⟨L2, WF1, h2⟩

/-- The footprint bound: at every quiescent point of the streaming pattern the live chunks are covered
by a list of at most `2·B/m₀ + 2` chunks, each recorded with the capacity its cache had (at most `S`);
the current cache is the last one. -/
theorem Streaming.footprint {tun : Tuning} {P B m₀ S : Nat} {w : World} (hb : TuningBounds tun P m₀ S) (hm : 0 < m₀)
    (h : Streaming tun P B w) :
    ∃ L : List (Nat × Nat), L.length ≤ 2 * B / m₀ + 2 ∧ (∀ k ∈ w.liveChunks, k ∈ L.map (·.1)) ∧
      (∀ p ∈ L, p.2 ≤ S) ∧ (∀ v c, w.iov 0 = some v → v.arena.cache = some c → L.getLast? = some (c.chunk, c.cap)) := by
  obtain ⟨L, WF, hw⟩ := h.inv hb
  obtain ⟨v, hv, hc⟩ := hw.core
  refine ⟨L, hc.length_le hm, hw.live, hc.caps, ?_⟩
  intro v' c hv' hcc
  rw [hv] at hv'; cases hv'
  exact hc.cache c hcc

end Woodpile.Iovec

/-
C10, quantitative half: the footprint of the streaming pattern (one iovec fed through
`push_copy` / `register_patch` / `backfill`, at most one placeholder pending, the consumer draining the
whole stable prefix after every call).
-/
import Woodpile.Proofs.IovecArena
import Woodpile.Gen.Consts
namespace Woodpile.Iovec
open Woodpile.Arena

/-! ### `find_hint_size` bounds -/

theorem firstAtLeast_le (wanted dflt M : Nat) (l : List Nat) (hd : dflt ≤ M) (hl : ∀ x ∈ l, x ≤ M) :
    firstAtLeast wanted dflt l ≤ M := by
  induction l with
  | nil => exact hd
  | cons s rest ih =>
    unfold firstAtLeast
    split
    · exact hl s (by simp)
    · exact ih (fun x hx => hl x (by simp [hx]))

theorem firstAtLeast_ge (wanted dflt m : Nat) (l : List Nat) (hd : m ≤ dflt) (hl : ∀ x ∈ l, m ≤ x) :
    m ≤ firstAtLeast wanted dflt l := by
  induction l with
  | nil => exact hd
  | cons s rest ih =>
    unfold firstAtLeast
    split
    · exact hl s (by simp)
    · exact ih (fun x hx => hl x (by simp [hx]))

/-- The production tuning (`BUMP_REGION_SIZE_SEQUENCE`, `BUMP_REGION_SIZE_FACTOR`, re-extracted from the
Rust sources on every run). -/
def prodTuning : Tuning := ⟨Woodpile.Gen.bumpSeq, Woodpile.Gen.bumpFactor⟩

theorem prodTuning_last : prodTuning.seq.getLast?.getD 0 = 1048576 := by decide
theorem prodTuning_seq_le : ∀ x ∈ prodTuning.seq, x ≤ 1048576 := by decide
theorem prodTuning_seq_ge : ∀ x ∈ prodTuning.seq, 4096 ≤ x := by decide

/-- `findHintSize_le`: with the production tuning, a request of fewer than 2^20 bytes never makes the
arena allocate a chunk larger than 2^20 bytes (whatever the previous chunk's capacity). -/
theorem findHintSize_le (len prevCap : Nat) (h : len < 1048576) :
    max (findHintSize prodTuning len prevCap) len ≤ 1048576 := by
  have : findHintSize prodTuning len prevCap ≤ 1048576 := by
    unfold findHintSize
    simp only [prodTuning_last]
    rw [if_neg (by omega)]
    split
    · exact Nat.le_refl _
    · exact firstAtLeast_le _ _ _ _ (Nat.le_refl _) prodTuning_seq_le
  omega

/-- … and never a chunk smaller than 4096 bytes. -/
theorem findHintSize_ge (len prevCap : Nat) : 4096 ≤ max (findHintSize prodTuning len prevCap) len := by
  have : 4096 ≤ findHintSize prodTuning len prevCap ∨ 4096 ≤ len := by
    unfold findHintSize
    simp only [prodTuning_last]
    split
    · right; omega
    · left
      split
      · omega
      · exact firstAtLeast_ge _ _ _ _ (by omega) prodTuning_seq_ge
  omega

/-- What the footprint argument needs from a tuning: every chunk it allocates for a request of at most
`P` bytes has a capacity between `m₀` and `S`. -/
structure TuningBounds (t : Tuning) (P m₀ S : Nat) : Prop where
  lo : ∀ len prevCap, m₀ ≤ max (findHintSize t len prevCap) len
  hi : ∀ len prevCap, len ≤ P → max (findHintSize t len prevCap) len ≤ S

theorem prodTuning_bounds (P : Nat) (hP : P < 1048576) : TuningBounds prodTuning P 4096 1048576 :=
  ⟨findHintSize_ge, fun len prevCap hl => findHintSize_le len prevCap (by omega)⟩

theorem alloc_cases' (t : Tuning) (a : Arena) (next len : Nat) :
    (∃ c, a.cache = some c ∧ len ≤ c.remaining ∧
      alloc t a next len = (⟨some { c with bump := c.bump + len }⟩, next, c.chunk, c.bump)) ∨
    (∃ pc, (∀ c, a.cache = some c → c.remaining < len) ∧
      alloc t a next len = (⟨some ⟨next, max (findHintSize t len pc) len, len⟩⟩, next + 1, next, 0)) := by
  unfold alloc ensureCapacity
  cases hc : a.cache with
  | none => right; exact ⟨0, fun c h => (by cases h), (by simp)⟩
  | some c =>
    simp only
    by_cases hr : c.remaining ≥ len
    · left; exact ⟨c, rfl, hr, by simp [hr, hc]⟩
    · right; exact ⟨c.cap, fun c' h => (by cases h; omega), (by simp [hr])⟩

/-- A fresh chunk's capacity, as `alloc` chooses it. -/
theorem alloc_fresh_cap {t : Tuning} {a a' : Arena} {next next' len chunk off : Nat} {P m₀ S : Nat}
    (hb : TuningBounds t P m₀ S) (hl : len ≤ P) (h : alloc t a next len = (a', next', chunk, off))
    (hfresh : next' ≠ next) : ∃ cap, a'.cache = some ⟨next, cap, len⟩ ∧ m₀ ≤ cap ∧ cap ≤ S ∧ len ≤ cap ∧
      chunk = next ∧ off = 0 ∧ next' = next + 1 ∧ (∀ c, a.cache = some c → c.remaining < len) := by
  rcases alloc_cases' t a next len with ⟨c, hc, _, he⟩ | ⟨pc, hr, he⟩
  · rw [he] at h; simp only [Prod.mk.injEq] at h; exact absurd h.2.1.symm hfresh
  · rw [he] at h; simp only [Prod.mk.injEq] at h
    obtain ⟨rfl, rfl, rfl, rfl⟩ := h
    exact ⟨_, rfl, hb.lo _ _, hb.hi _ _ hl, Nat.le_max_right _ _, rfl, rfl, rfl, hr⟩

end Woodpile.Iovec
